import AlphaG.Model.Csv
/-
C20 — the Chronobox timestamps CSV never reports a wrong time.
The epoch logic of `chronobox_time` and the row loop, proved against an independent model of
the hardware FIFO. The real binary is tied end to end by the harness (hardware-model streams cut
into banks / events / files → real executable → CSV → diff with `boardRows`). Core Lean only.

Hardware model (from the property text): a free-running tick counter `T` at 10 MHz; an edge at
tick `T` on a channel is the word whose low 24 bits are `T mod 2^24` with bit 0 replaced by the
edge flag; a wrap-around marker with counter `c` (starting at 0) is emitted every half wrap, at
`T = (c+1)·2^23`, its top bit alternating and clear for `c = 0`. The *marker interval* `k ≥ 1`
is the stretch of the FIFO between marker `k-1` and marker `k`; an edge whose tick satisfies
`T / 2^23 = k` belongs there, but may be displaced by one interval by FIFO arbitration.
-/
namespace AlphaG.Csv

/-- Marker number `c` of the hardware model. -/
def hwMarker (c : Nat) : Marker := { top := decide (c % 2 = 1), counter := c }

/-- The timestamp entry of an edge at tick `T` (the decoder clears bit 0, which holds the edge). -/
def hwTsc (T ch : Nat) (leading : Bool) : Tsc :=
  { channel := ch, timestamp := (T % 2 ^ 24) / 2 * 2, leading := leading }

/-- The true time the CSV should report, in ticks (the edge flag occupies bit 0). -/
def trueTime (T : Nat) : Nat := T / 2 * 2

theorem shift23 (x : Nat) : x >>> 23 = x / 2 ^ 23 := Nat.shiftRight_eq_div_pow x 23

/-- An edge sitting in its own marker interval is reported at its true time. -/
theorem cbtime_correct (T ch : Nat) (l : Bool) (k : Nat) (hk : 1 ≤ k) (hT : T / 2 ^ 23 = k) :
    chronoboxTime (hwTsc T ch l) (some (hwMarker (k - 1))) (some (hwMarker k))
      = some (trueTime T) := by
  unfold chronoboxTime hwMarker hwTsc trueTime
  simp only [shift23]
  have hc : k - 1 + 1 = k := by omega
  have htop : decide ((k - 1) % 2 = 1) ≠ decide (k % 2 = 1) := by
    simp only [ne_eq, decide_eq_decide]; omega
  rw [if_pos ⟨hc, htop⟩]
  have hbit : decide (T % 2 ^ 24 / 2 * 2 / 2 ^ 23 = 1) ≠ decide ((k - 1) % 2 = 1) := by
    simp only [ne_eq, decide_eq_decide]; omega
  rw [if_pos hbit]
  congr 1
  omega

/-- An edge displaced into the following interval gets no time (never a wrong one). -/
theorem cbtime_wrong_side_late (T ch : Nat) (l : Bool) (k : Nat) (hk : 1 ≤ k)
    (hT : T / 2 ^ 23 = k) :
    chronoboxTime (hwTsc T ch l) (some (hwMarker k)) (some (hwMarker (k + 1))) = none := by
  unfold chronoboxTime hwMarker hwTsc
  simp only [shift23]
  have htop : decide (k % 2 = 1) ≠ decide ((k + 1) % 2 = 1) := by
    simp only [ne_eq, decide_eq_decide]; omega
  rw [if_pos ⟨trivial, htop⟩]
  have hbit : ¬ (decide (T % 2 ^ 24 / 2 * 2 / 2 ^ 23 = 1) ≠ decide (k % 2 = 1)) := by
    simp only [ne_eq, decide_eq_decide, Decidable.not_not]; omega
  rw [if_neg hbit]

/-- An edge displaced into the preceding interval gets no time. -/
theorem cbtime_wrong_side_early (T ch : Nat) (l : Bool) (k : Nat) (hk : 2 ≤ k)
    (hT : T / 2 ^ 23 = k) :
    chronoboxTime (hwTsc T ch l) (some (hwMarker (k - 2))) (some (hwMarker (k - 1))) = none := by
  unfold chronoboxTime hwMarker hwTsc
  simp only [shift23]
  have hc : k - 2 + 1 = k - 1 := by omega
  have htop : decide ((k - 2) % 2 = 1) ≠ decide ((k - 1) % 2 = 1) := by
    simp only [ne_eq, decide_eq_decide]; omega
  rw [if_pos ⟨hc, htop⟩]
  have hbit : ¬ (decide (T % 2 ^ 24 / 2 * 2 / 2 ^ 23 = 1) ≠ decide ((k - 2) % 2 = 1)) := by
    simp only [ne_eq, decide_eq_decide, Decidable.not_not]; omega
  rw [if_neg hbit]

/-- Exactly when no time is reported. -/
theorem cbtime_none_iff (t : Tsc) (p n : Option Marker) :
    chronoboxTime t p n = none ↔
      p = none ∨ n = none ∨
        ∃ pm nm, p = some pm ∧ n = some nm ∧
          (pm.counter + 1 ≠ nm.counter ∨ pm.top = nm.top
            ∨ decide (t.timestamp >>> 23 = 1) = pm.top) := by
  cases p with
  | none => simp [chronoboxTime]
  | some pm =>
    cases n with
    | none => simp [chronoboxTime]
    | some nm =>
      simp only [chronoboxTime, reduceCtorEq, false_or, Option.some.injEq, exists_and_left,
        exists_eq_left']
      by_cases h1 : pm.counter + 1 = nm.counter ∧ pm.top ≠ nm.top
      · rw [if_pos h1]
        by_cases h2 : decide (t.timestamp >>> 23 = 1) ≠ pm.top
        · rw [if_pos h2]
          simp only [reduceCtorEq, false_iff]
          rintro (h | h | h)
          · exact h h1.1
          · exact h1.2 h
          · exact h2 h
        · rw [if_neg h2]
          simp only [true_iff]
          exact Or.inr (Or.inr (by simpa using h2))
      · rw [if_neg h1]
        simp only [true_iff]
        by_cases hc : pm.counter + 1 = nm.counter
        · exact Or.inr (Or.inl (by
            by_cases ht : pm.top = nm.top
            · exact ht
            · exact absurd ⟨hc, ht⟩ h1))
        · exact Or.inl hc

/-- **Never a wrong time.** Whatever two hardware markers enclose an edge in the FIFO (this
covers dropped and duplicated markers: they only change which markers are neighbours), if the
edge is displaced by at most one interval from where its tick belongs and a time is reported,
that time is the true time. -/
theorem never_wrong (T ch : Nat) (l : Bool) (a b : Nat) (t : Nat)
    (hdisp : T / 2 ^ 23 = a ∨ T / 2 ^ 23 = a + 1 ∨ T / 2 ^ 23 = a + 2)
    (h : chronoboxTime (hwTsc T ch l) (some (hwMarker a)) (some (hwMarker b)) = some t) :
    t = trueTime T := by
  unfold chronoboxTime hwMarker hwTsc at h
  simp only [shift23] at h
  by_cases h1 : a + 1 = b ∧ decide (a % 2 = 1) ≠ decide (b % 2 = 1)
  · rw [if_pos h1] at h
    by_cases h2 : decide (T % 2 ^ 24 / 2 * 2 / 2 ^ 23 = 1) ≠ decide (a % 2 = 1)
    · rw [if_pos h2] at h
      simp only [ne_eq, decide_eq_decide] at h2
      have hk : T / 2 ^ 23 = a + 1 := by omega
      unfold trueTime
      injection h with h
      omega
    · rw [if_neg h2] at h; cases h
  · rw [if_neg h1] at h; cases h

/-- Rows: one per timestamp entry, in stream order, with the right channel and edge. -/
def tsOf : List Entry → List Tsc
  | [] => []
  | .ts t :: rest => t :: tsOf rest
  | .marker _ :: rest => tsOf rest

theorem rowsGo_complete (prev : Option Marker) (pending : List Tsc) (es : List Entry) :
    (rowsGo prev pending es).map (fun r => (r.channel, r.leading))
      = (pending ++ tsOf es).map (fun t => (t.channel, t.leading)) := by
  induction es generalizing prev pending with
  | nil => simp [rowsGo, tsOf, rowFor]
  | cons e es ih =>
    cases e with
    | ts t => simp [rowsGo, tsOf, ih]
    | marker m => simp [rowsGo, tsOf, ih, rowFor]

/-- **Rows complete.** One row per timestamp after the first counter-0 marker, in stream
order, with its channel and edge (none is lost — in particular not the last one of a stream that
does not end in a marker, the defect repaired by 80227a4). -/
theorem rows_complete (fifo : List Entry) (rows : List CbRow)
    (h : boardRows true fifo = .ok rows) :
    rows.map (fun r => (r.channel, r.leading))
      = (tsOf (fifo.dropWhile (fun e => !isEpoch0 e))).map (fun t => (t.channel, t.leading)) := by
  unfold boardRows at h
  simp only [Bool.not_true, Bool.false_eq_true, if_false] at h
  split at h
  · cases h
  · rename_i m rest heq
    split at h
    · cases h
    · injection h with h
      subst h
      rw [heq, rowsGo_complete]
      simp
  · cases h

/-- **Fails closed.** Leftover FIFO bytes, a missing counter-0 marker or a first marker with its
top bit set give an error, never rows. -/
theorem fails_closed_remainder (fifo : List Entry) : boardRows false fifo = .err .badFifo := by
  simp [boardRows]

theorem fails_closed_no_epoch0 (fifo : List Entry) (h : ∀ e ∈ fifo, isEpoch0 e = false) :
    boardRows true fifo = .err .missingEpoch0 := by
  unfold boardRows
  have : fifo.dropWhile (fun e => !isEpoch0 e) = [] := by
    induction fifo with
    | nil => rfl
    | cons e es ih =>
      have he := h e List.mem_cons_self
      rw [List.dropWhile_cons_of_pos (by simp [he])]
      exact ih (fun x hx => h x (List.mem_cons_of_mem _ hx))
  simp [this]

theorem fails_closed_first_marker (pre rest : List Entry) (m : Marker)
    (hpre : ∀ e ∈ pre, isEpoch0 e = false) (hm : m.counter = 0) (htop : m.top = true) :
    boardRows true (pre ++ .marker m :: rest) = .err .badFirstMarker := by
  unfold boardRows
  have : (pre ++ Entry.marker m :: rest).dropWhile (fun e => !isEpoch0 e)
      = Entry.marker m :: rest := by
    induction pre with
    | nil => simp [List.dropWhile, isEpoch0, hm]
    | cons p ps ih =>
      have hp := hpre p List.mem_cons_self
      simp only [List.cons_append, List.dropWhile, hp, Bool.not_false]
      exact ih (fun e he => hpre e (List.mem_cons_of_mem _ he))
  simp [this, htop]

/-- The `unreachable!()` arms are unreachable: the program never panics on any FIFO. -/
theorem boardRows_total (ok : Bool) (fifo : List Entry) : ∀ s, boardRows ok fifo ≠ .panic s := by
  intro s
  unfold boardRows
  split
  · simp
  · split
    · simp
    · split <;> simp
    · rename_i t rest heq
      exfalso
      have := List.head?_dropWhile_not (fun e => !isEpoch0 e) fifo
      rw [heq] at this
      simp [isEpoch0] at this

/-! ### Non-vacuity: a two-wrap stream with an edge in every interval, one displaced -/

example : boardRows true
    [ .ts (hwTsc 5 3 true),                       -- before epoch 0: dropped
      .marker (hwMarker 0),
      .ts (hwTsc (2 ^ 23 + 10) 1 true),           -- interval 1, in place
      .marker (hwMarker 1),
      .ts (hwTsc (2 ^ 23 + 2 ^ 22) 2 false),      -- belongs to interval 1, displaced: no time
      .ts (hwTsc (2 ^ 24 + 7) 4 true),            -- interval 2, in place (bit 0 is the edge)
      .marker (hwMarker 2),
      .ts (hwTsc (2 ^ 24 + 2 ^ 23 + 100) 5 true)  -- no closing marker: no time, but a row
    ] = .ok [ ⟨1, true, some (2 ^ 23 + 10)⟩, ⟨2, false, none⟩, ⟨4, true, some (2 ^ 24 + 6)⟩,
              ⟨5, true, none⟩ ] := by decide

end AlphaG.Csv
