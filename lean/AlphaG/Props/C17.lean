import AlphaG.Lemmas.DeconvBasic
import AlphaG.Lemmas.DeconvScale
import AlphaG.Lemmas.DeconvPulse
import AlphaG.Lemmas.DeconvScalePulse
/-
C17 — deconvolution is non-negative, scale-covariant and equals its plain definition.

Only the property statements live here (proofs: `Lemmas/DeconvBasic.lean`, `DeconvScale.lean`,
`DeconvPulse.lean`). The model (`Model/Deconv.lean`) is written once over a carrier `Ops α`
without laws; `fast_eq_naive` and `deconv_shape` hold for every carrier — hence for `f64`
bit for bit, NaN and ±∞ included —, `deconv_scale` for every carrier and every map satisfying
the homogeneity laws `Homog`, `deconv_nonneg` / `isolated_pulse` / `ls_first_strict_min` for the
exact instance `fieldOps top` over any linearly ordered field (`top` stands for `+∞`).
`ResponseNeg` (the Rust `assert!`) is a hypothesis; the harness checks it on the real tables.
-/
namespace AlphaG.C17
open AlphaG AlphaG.Deconv Lean Grind Std

variable {α : Type}

/-- C17 (equals its plain definition): the production loop with the window skip
`i += last_positive + 1` and the one-sample-at-a-time sweep return the same residual vector,
the same sum of squared residuals and the same input — for every carrier, every waveform, every
response, every `(offset, look_ahead)`; no law of `α` is used, the panics agree too. -/
theorem fast_eq_naive (o : Ops α) (signal resp : List α) (off la : Nat) :
    nnGreedyFast o signal resp off la = nnGreedyNaive o signal resp off la :=
  Deconv.fast_eq_naive o signal resp off la

/-- … hence the pad deconvolution is, bit for bit, the plain greedy deconvolution minimising the
squared residual over the same `3..=5 × 7..=12` grid (and likewise the per-wire sweep). -/
theorem pad_eq_plain (o : Ops α) (padResp signal : List α) :
    padDeconv o padResp signal = lsDeconvWith o false signal padResp 3 5 7 12 :=
  ls_fast_eq_naive o signal padResp 3 5 7 12

theorem wire_eq_plain (o : Ops α) (wireResp signal : List α) :
    wireDeconv o wireResp signal = lsDeconvWith o false signal wireResp 0 1 3 12 :=
  ls_fast_eq_naive o signal wireResp 0 1 3 12

/-- C17 (shape): one output sample per input sample (single sweep; least-squares sweep: the
empty vector only when no residual is `< +∞`, see `ls_nonempty`), one output channel per input
channel of a wire block, on the same wires, every channel as long as the longest input channel
(`y_matrix` zero padding). Every carrier. -/
theorem deconv_shape (o : Ops α) :
    (∀ (b : Bool) (signal resp : List α) (off la : Nat) (res : List α) (sum : α) (inp : List α),
      nnGreedy o b signal resp off la = .ok (res, sum, inp) →
        res.length = signal.length ∧ inp.length = signal.length)
    ∧ (∀ (b : Bool) (signal resp : List α) (offLo offHi laLo laHi : Nat) (inp : List α),
      lsDeconvWith o b signal resp offLo offHi laLo laHi = .ok inp →
        inp = [] ∨ inp.length = signal.length)
    ∧ (∀ (cholSolve : Nat → Nat → (Nat → Nat → α) → (Nat → Nat → α)) (wireResp : List α)
        (block out : List (Nat × List α)),
      wireRangeDeconv o cholSolve wireResp block = .ok out →
        out.length = block.length ∧ out.map Prod.fst = block.map Prod.fst
          ∧ ∀ p ∈ out, p.2 = [] ∨ p.2.length = maxLen (block.map Prod.snd))
    ∧ (∀ (signals : List (List α)) (row column : Nat),
      (signals.getD column []).length ≤ row → yMatrix o signals row column = o.zero) :=
  ⟨deconv_shape_nn o, deconv_shape_ls o, deconv_shape_wires o, yMatrix_padding o⟩

/-- The sweep's result has the input's length as soon as the first grid point's residual is
`< +∞` (in `f64`: not NaN, not `+∞` — outside that the Rust function returns `Vec::new()`). -/
theorem ls_nonempty (o : Ops α) (b : Bool) (signal resp : List α) (offLo offHi laLo laHi : Nat)
    (res : List α) (r : α) (i0 inp : List α) (hoff : offLo ≤ offHi) (hla : laLo ≤ laHi)
    (h0 : nnGreedy o b signal resp offLo laLo = .ok (res, r, i0)) (hr : o.lt r o.inf = true)
    (h : lsDeconvWith o b signal resp offLo offHi laLo laHi = .ok inp) :
    inp.length = signal.length :=
  Deconv.ls_nonempty o b signal resp offLo offHi laLo laHi res r i0 inp hoff hla h0 hr h

section field
variable {F : Type} [Field F] [LE F] [LT F] [LawfulOrderLT F] [IsLinearOrder F] [OrderedRing F]
  [DecidableLT F] [DecidableLE F]

/-- C17 (non-negative), exact arithmetic: if the response is negative on every window of the grid
(`ResponseNeg`, the Rust `assert!`) the sweep does not panic and every recovered amplitude is
`≥ 0`. Instances: pads (`3..=5 × 7..=12`), wires (`0..=1 × 3..=12`), whole wire blocks for any
`cholSolve`. -/
theorem deconv_nonneg (top : F) (b : Bool) (signal resp : List F) (offLo offHi laLo laHi : Nat)
    (hla : 0 < laLo)
    (hresp : ∀ off la, offLo ≤ off → off ≤ offHi → laLo ≤ la → la ≤ laHi →
      ResponseNeg (fieldOps top) resp off la) :
    ∃ inp, lsDeconvWith (fieldOps top) b signal resp offLo offHi laLo laHi = .ok inp
      ∧ ∀ x ∈ inp, 0 ≤ x :=
  deconv_nonneg_ls top b signal resp offLo offHi laLo laHi hla hresp

theorem deconv_nonneg_single (top : F) (b : Bool) (signal resp : List F) (off la : Nat)
    (res : List F) (sum : F) (inp : List F) (hla : 0 < la)
    (hresp : ResponseNeg (fieldOps top) resp off la)
    (h : nnGreedy (fieldOps top) b signal resp off la = .ok (res, sum, inp)) : ∀ x ∈ inp, 0 ≤ x :=
  Deconv.deconv_nonneg top b signal resp off la res sum inp hla hresp h

theorem deconv_nonneg_pad (top : F) (padResp signal : List F)
    (hresp : ∀ off la, 3 ≤ off → off ≤ 5 → 7 ≤ la → la ≤ 12 →
      ResponseNeg (fieldOps top) padResp off la) :
    ∃ inp, padDeconv (fieldOps top) padResp signal = .ok inp ∧ ∀ x ∈ inp, 0 ≤ x :=
  Deconv.deconv_nonneg_pad top padResp signal hresp

theorem deconv_nonneg_wire (top : F) (wireResp signal : List F)
    (hresp : ∀ off la, 0 ≤ off → off ≤ 1 → 3 ≤ la → la ≤ 12 →
      ResponseNeg (fieldOps top) wireResp off la) :
    ∃ inp, wireDeconv (fieldOps top) wireResp signal = .ok inp ∧ ∀ x ∈ inp, 0 ≤ x :=
  Deconv.deconv_nonneg_wire top wireResp signal hresp

theorem deconv_nonneg_block (top : F) (cholSolve : Nat → Nat → (Nat → Nat → F) → (Nat → Nat → F))
    (wireResp : List F) (block out : List (Nat × List F))
    (h : wireRangeDeconv (fieldOps top) cholSolve wireResp block = .ok out) :
    ∀ p ∈ out, ∀ x ∈ p.2, 0 ≤ x :=
  deconv_nonneg_wires top cholSolve wireResp block out h

/-- C17 (first strict minimum): when every grid point's run is ok, the sweep returns the input
of the first run whose residual sum is minimal (and `< +∞`); the empty vector iff no residual
sum is `< +∞`. -/
theorem ls_first_strict_min (top : F) (b : Bool) (signal resp : List F)
    (offLo offHi laLo laHi : Nat) (runs : List (List F × F × List F))
    (hruns : (grid offLo offHi laLo laHi).map
      (fun p => nnGreedy (fieldOps top) b signal resp p.1 p.2) = runs.map .ok) :
    ∃ best, lsDeconvWith (fieldOps top) b signal resp offLo offHi laLo laHi = .ok best ∧
      (((∀ t ∈ runs, ¬ t.2.1 < top) ∧ best = []) ∨
        ∃ j, ∃ hj : j < runs.length, runs[j].2.1 < top
          ∧ (∀ i, ∀ hi : i < runs.length, runs[j].2.1 ≤ runs[i].2.1)
          ∧ (∀ i, ∀ hi : i < j, runs[j].2.1 < runs[i].2.1)
          ∧ best = runs[j].2.2) :=
  Deconv.ls_first_strict_min top b signal resp offLo offHi laLo laHi runs hruns

/-- C17 (isolated pulse), exact arithmetic, the wire settings: the waveform `a·R` shifted to
sample `k` (truncated at the end of the waveform), `a > 0`, response negative on its first 13
samples, `k + 3 ≤ n` (weaker than the property's `k + 18 ≤ n`, see `isolated_pulse_18`), is
recovered as `a` at `k` and `0` elsewhere: offset 0 / look-ahead 3 is tried first, reaches
residual 0, and only a strictly smaller residual would replace it. -/
theorem isolated_pulse (top : F) (htop : 0 < top) (n k : Nat) (a : F) (resp : List F)
    (ha : 0 < a) (h13 : 13 ≤ resp.length) (hneg : ∀ r ∈ resp.take 13, r < 0) (hk : k + 3 ≤ n) :
    wireDeconv (fieldOps top) resp (pulse n k a resp)
      = .ok ((List.range n).map fun j => if j = k then a else 0) :=
  Deconv.isolated_pulse top htop n k a resp ha h13 hneg hk

theorem isolated_pulse_18 (top : F) (htop : 0 < top) (n k : Nat) (a : F) (resp : List F)
    (ha : 0 < a) (h13 : 13 ≤ resp.length) (hneg : ∀ r ∈ resp.take 13, r < 0) (hk : k + 18 ≤ n) :
    wireDeconv (fieldOps top) resp (pulse n k a resp)
      = .ok ((List.range n).map fun j => if j = k then a else 0) :=
  Deconv.isolated_pulse_18 top htop n k a resp ha h13 hneg hk

/-- … wherever the wire sits on the ring: a block of one wire `w` (1×1 system `A = [1]`, for
which the Cholesky solve is the identity) gives the same spike on wire `w`, for every `w`. -/
theorem isolated_pulse_any_wire (top : F) (htop : 0 < top) (n k : Nat) (a : F) (resp : List F)
    (ha : 0 < a) (h13 : 13 ≤ resp.length) (hneg : ∀ r ∈ resp.take 13, r < 0) (hk : k + 3 ≤ n)
    (cholSolve : Nat → Nat → (Nat → Nat → F) → (Nat → Nat → F))
    (hc : ∀ i y r c, cholSolve i 1 y r c = y r c) (w : Nat) :
    wireRangeDeconv (fieldOps top) cholSolve resp [(w, pulse n k a resp)]
      = .ok [(w, (List.range n).map fun j => if j = k then a else 0)] :=
  isolated_pulse_block top htop n k a resp ha h13 hneg hk cholSolve hc w

/-- Over an ordered field every `c > 0` satisfies all homogeneity laws that do not mention `+∞`. -/
theorem scale_laws_of_pos (top c : F) (hc : 0 < c) :
    HomogCore (fieldOps top) (c * ·) (c * c * ·) :=
  homog_of_pos top c hc

/-- … so the whole sweep is covariant under `c > 0` as long as the residual sums stay `< top`. -/
theorem deconv_scale_field (top c : F) (hc : 0 < c) (b : Bool) (signal resp : List F)
    (offLo offHi laLo laHi : Nat)
    (h1 : ∀ p ∈ grid offLo offHi laLo laHi, ∀ res r inp,
      nnGreedy (fieldOps top) b signal resp p.1 p.2 = .ok (res, r, inp) → r < top)
    (h2 : ∀ p ∈ grid offLo offHi laLo laHi, ∀ res r inp,
      nnGreedy (fieldOps top) b (signal.map (c * ·)) resp p.1 p.2 = .ok (res, r, inp) → r < top) :
    lsDeconvWith (fieldOps top) b (signal.map (c * ·)) resp offLo offHi laLo laHi
      = omap (List.map (c * ·)) (lsDeconvWith (fieldOps top) b signal resp offLo offHi laLo laHi) :=
  Deconv.deconv_scale_field top c hc b signal resp offLo offHi laLo laHi h1 h2

end field

/-- C17 (scale covariance), any carrier: if `σ` (on samples) and `σ2` (on squared residuals)
satisfy the homogeneity laws `Homog` — `σ 0 = 0`, `σa − (σv)·r = σ(a − v·r)`, `σa / r = σ(a/r)`,
`min (σa) (σb) = σ (min a b)`, `0 ≤ σa ⇔ 0 ≤ a`, `(σa)·(σa) = σ2 (a·a)`, `σ2 a + σ2 b = σ2 (a+b)`,
`σ2 sumInit = sumInit`, `σ2 a < σ2 b ⇔ a < b`, `σ2 ∞ = ∞` — then deconvolving the mapped waveform
gives the mapped amplitudes at the same indices (lists are mapped elementwise) with the same
panics. Multiplication by `2^k` in IEEE-754 satisfies the laws absent overflow/underflow
(assumption; tested bit for bit on the implementation for `k ∈ −8..=8`). -/
theorem deconv_scale {o : Ops α} {σ σ2 : α → α} (h : Homog o σ σ2) (b : Bool)
    (signal resp : List α) (offLo offHi laLo laHi : Nat) :
    lsDeconvWith o b (signal.map σ) resp offLo offHi laLo laHi
      = omap (List.map σ) (lsDeconvWith o b signal resp offLo offHi laLo laHi) :=
  Deconv.deconv_scale h b signal resp offLo offHi laLo laHi

theorem deconv_scale_single {o : Ops α} {σ σ2 : α → α} (h : HomogCore o σ σ2) (b : Bool)
    (signal resp : List α) (off la : Nat) :
    nnGreedy o b (signal.map σ) resp off la
      = omap (mapTriple σ σ2) (nnGreedy o b signal resp off la) :=
  deconv_scale_nn h b signal resp off la

theorem deconv_scale_pad {o : Ops α} {σ σ2 : α → α} (h : Homog o σ σ2) (padResp signal : List α) :
    padDeconv o padResp (signal.map σ) = omap (List.map σ) (padDeconv o padResp signal) :=
  Deconv.deconv_scale_pad h padResp signal

/-- Whole wire block, provided the (uninterpreted) Cholesky solve commutes with `σ` entrywise. -/
theorem deconv_scale_block {o : Ops α} {σ σ2 : α → α} (h : Homog o σ σ2)
    (cholSolve : Nat → Nat → (Nat → Nat → α) → (Nat → Nat → α))
    (hc : ∀ i j y r c, cholSolve i j (fun r c => σ (y r c)) r c = σ (cholSolve i j y r c))
    (wireResp : List α) (block : List (Nat × List α)) :
    wireRangeDeconv o cholSolve wireResp (mapBlock σ block)
      = omap (mapBlock σ) (wireRangeDeconv o cholSolve wireResp block) :=
  deconv_scale_wires h cholSolve hc wireResp block

/-- The laws are satisfiable including `σ2 ∞ = ∞`: adjoin `+∞` to any carrier (`liftOps`). -/
theorem scale_laws_with_infinity {o : Ops α} {σ σ2 : α → α} (h : HomogCore o σ σ2) :
    Homog (liftOps o) (Option.map σ) (Option.map σ2) :=
  homog_lift h

/-! Non-vacuity (concrete inputs satisfying the hypotheses; more in the `Lemmas` files). -/
example : HomogCore (fieldOps (1000 : Rat)) (2 * ·) (2 * 2 * ·) := scale_laws_of_pos 1000 2 (by decide)
example : ResponseNeg (fieldOps (1000 : Rat)) [-2, -1, -1] 0 2 :=
  ⟨by decide, by intro r hr; simp [respWindow] at hr; rcases hr with rfl | rfl <;> decide⟩

end AlphaG.C17
