import AlphaG.Lemmas.VertexPipeline
import AlphaG.Lemmas.VertexPipelineAval
import AlphaG.Lemmas.VertexPipelineCluster
import AlphaG.Props.C15b
import AlphaG.Props.C14c
/-
C09b, per-stage statements for stages 3–5 of `vertex()` (clustering, track fits, vertexing), each
obtained from the stage's own theorems (Props/C15, C15b, C14b, C14c) with the literals
`reconstruction.rs` passes. The named hypotheses of the parts are bundled:

* `ClusterLaws P E`  — what C15b needs of the carrier's `==` (`BeqPER`, `EqCompat`) and of the
  renaming of bin codes (injective on each point's codes; `driver_ren_ok` for the driver);
* `FitLaws P Num nan` — what C14c needs: `OrdLaws` on the non-NaN values, `partial_cmp` is `None`
  exactly on NaN, the two cost functions return non-NaN values when they return, `ε ≥ 0`;
* `TrackEqLaws P`    — `Track ==` is symmetric and transitive, `0.0 == 0.0`.

All of them hold for `f64` (none can be *proved* for Lean's opaque `Float`; the harnesses of
C14c/C15b sample them); `Props/C09b.lean` shows an instance where they are theorems.
-/
namespace AlphaG.VertexPipeline
open AlphaG AlphaG.Cluster AlphaG.NelderMead AlphaG.TrackInit AlphaG.Helix

variable {α : Type} (P : Pipe α)

/-! ## Stage 3: `cluster_spacepoints` -/

structure ClusterLaws (E : α → α → Prop) : Prop where
  beqPER : Hough.BeqPER P.hough
  eqCompat : Hough.EqCompat P.hough E
  renInj : ∀ pts : Array (Hough.Point α), ∀ p ∈ pts,
    ∀ c ∈ Hough.binCodes P.hough (houghParams P) p, ∀ c' ∈ Hough.binCodes P.hough (houghParams P) p,
      (P.ren pts).fn c = (P.ren pts).fn c' → c = c'

/-- No coordinate of any space point is NaN: every point is `==` to itself. -/
def PointsReflexive (pts : Array (Hough.Point α)) : Prop :=
  ∀ p ∈ pts, Hough.pointBeq P.hough p p = true

variable {P}

theorem stageClusters_total {E : α → α → Prop} (L : ClusterLaws P E) (pts : Array (Hough.Point α))
    (hrefl : PointsReflexive P pts) : ∃ r, stageClusters P pts = .ok r :=
  Hough.cluster_total_concrete P.hough (P.ren pts).fn (houghParams P) pts L.beqPER L.eqCompat hrefl
    (L.renInj pts) minClusterSize (by decide)

/-- **Stage 3 inventory.** `cluster_spacepoints` panics only at one of `clusterSites`
(`get_bins`' `try_into().unwrap()` is unreachable for every carrier), and only when some space
point is not `==` to itself (a NaN coordinate). -/
theorem stageClusters_panic {E : α → α → Prop} (L : ClusterLaws P E) (pts : Array (Hough.Point α))
    (s : String) (h : stageClusters P pts = .panic s) :
    s ∈ clusterSites ∧ ∃ p ∈ pts, Hough.pointBeq P.hough p p = false := by
  refine ⟨?_, ?_⟩
  · unfold stageClusters at h
    rw [Hough.clusterX_eq] at h
    exact cluster_site _ _ _ _ h
  · apply Classical.byContradiction
    intro hno
    have hrefl : PointsReflexive P pts := by
      intro p hp
      cases hb : Hough.pointBeq P.hough p p with
      | true => rfl
      | false => exact absurd ⟨p, hp, hb⟩ hno
    obtain ⟨r, hr⟩ := stageClusters_total L pts hrefl
    rw [hr] at h
    cases h

theorem eqList_left {ctx : Ctx} {l l' : List Nat} (h : EqList ctx l l') :
    ∀ a ∈ l, ∃ b ∈ l', ctx.eq a b = true := by
  induction h with
  | nil => intro a ha; cases ha
  | cons hab _ ih =>
    intro x hx
    simp only [List.mem_cons] at hx
    rcases hx with rfl | hx
    · exact ⟨_, by simp, hab⟩
    · obtain ⟨b, hb, hxb⟩ := ih x hx
      exact ⟨b, by simp [hb], hxb⟩

/-- **Stage 3 result.** On NaN-free points every cluster has at least 13 members, all of them
indices of input points. -/
theorem stageClusters_spec {E : α → α → Prop} (L : ClusterLaws P E) (pts : Array (Hough.Point α))
    (hrefl : PointsReflexive P pts) (r : Cluster.Result) (h : stageClusters P pts = .ok r) :
    ∀ c ∈ r.clusters, minClusterSize ≤ c.length ∧ ∀ i ∈ c, i < pts.size := by
  intro c hc
  refine ⟨Hough.cluster_min_size_concrete P.hough (P.ren pts).fn (houghParams P) pts L.beqPER
    L.eqCompat hrefl (L.renInj pts) minClusterSize (by decide) r h c hc, ?_⟩
  intro i hi
  obtain ⟨l, hperm, heq⟩ := Hough.cluster_partition_perm_concrete P.hough (P.ren pts).fn
    (houghParams P) pts L.beqPER L.eqCompat hrefl (L.renInj pts) minClusterSize (by decide) r h
  have hil : i ∈ l := by
    rw [hperm.mem_iff, List.mem_append]
    exact Or.inl (List.mem_flatten.2 ⟨c, hc, hi⟩)
  obtain ⟨b, hb, hib⟩ := eqList_left heq i hil
  rw [List.mem_range] at hb
  rw [Hough.ctxOf_eq] at hib
  cases hpi : pts[i]? with
  | some p =>
    have := (Array.getElem?_eq_some_iff.1 hpi).1
    exact this
  | none =>
    rw [hpi] at hib
    simp only [beq_iff_eq] at hib
    omega

/-- The `Cluster(Vec<SpacePoint>)` of a cluster of in-range indices has as many points. -/
theorem clusterPoints_length (pts : Array (Hough.Point α)) (c : List Nat) (h : ∀ i ∈ c, i < pts.size) :
    (clusterPoints pts c).length = c.length := by
  induction c with
  | nil => rfl
  | cons i c ih =>
    have hi : i < pts.size := h i (by simp)
    have : pts[i]? = some pts[i] := Array.getElem?_eq_getElem hi
    simp only [clusterPoints, List.filterMap_cons, this, Option.map_some, List.length_cons]
    have := ih (fun j hj => h j (by simp [hj]))
    simp only [clusterPoints] at this
    rw [this]

/-- Every point of a `Cluster` is one of the space points. -/
theorem mem_clusterPoints (pts : Array (Hough.Point α)) (c : List Nat) (q : Helix.Point α)
    (h : q ∈ clusterPoints pts c) : ∃ i ∈ c, ∃ p, pts[i]? = some p ∧ q = toHelix p := by
  simp only [clusterPoints, List.mem_filterMap, Option.map_eq_some_iff] at h
  obtain ⟨i, hi, p, hp, rfl⟩ := h
  exact ⟨i, hi, p, hp, rfl⟩

/-! ## Stage 4: `Track::try_from(Cluster)` for every cluster -/

variable (P)

structure FitLaws (Num nan : α → Prop) : Prop where
  ord : OrdLaws P.fit.n Num
  cmpNan : ∀ a b, P.fit.t.cmp a b = none ↔ nan a ∨ nan b
  trackCostNum : ∀ (pts : List (Helix.Point α)) x c,
    trackCost (ε := FitError) P.fit P.c.epsilon maxClosestTIters pts x = .ok c → Num c
  vertexCostNum : ∀ (tracks : List (TrackP α)) x c,
    vertexCost (ε := Unit) P.fit P.c.epsilon maxClosestTIters tracks x = .ok c → Num c
  tolOk : P.fit.n.lt P.c.epsilon P.fit.n.zero = false

/-- The three ways `Track::try_from(Cluster)` can panic on the points `cp` (C14c
`fit_panic_iff_full`), each with its trigger. -/
def FitTrigger (nan : α → Prop) (cp : List (Helix.Point α)) (s : String) : Prop :=
  (cp.length < 3 ∧ s = siteAssertLen) ∨
  (3 ≤ cp.length ∧ s = sitePartialCmp ∧
    ∃ f l, (minmaxByKey P.fit.t.h.lt (fun p : Helix.Point α => p.r) cp).intoOption = some (f, l) ∧
      ∃ p ∈ cp, nan (devFrom P.fit.t (midR P.fit.t f l) p)) ∨
  (s = siteTrackNaN ∧ ∃ x : List α, x.length = 6 ∧
    ∃ pt ∈ cp, P.fit.isNaN (distSq P.fit P.c.epsilon maxClosestTIters (paramsOf P.fit x) pt) = true)

variable {P}

/-- A panic of one track fit: the site and its trigger (the converse, with the solver run spelled
out, is `C14c.fit_panic_iff_full`). -/
theorem fitOf_panic {Num nan : α → Prop} (F : FitLaws P Num nan) (cp : List (Helix.Point α))
    (s : String) (h : fitOf P cp = .panic s) : FitTrigger P nan cp s := by
  unfold fitOf at h
  rw [AlphaG.C14c.fit_panic_iff_full F.ord nan F.cmpNan maxSolverIters P.c.epsilon P.c.delta
    maxClosestTIters P.c.epsilon cp (F.trackCostNum cp) F.tolOk s] at h
  rcases h with h | h | ⟨h1, _, _, _, h2⟩
  · exact Or.inl h
  · exact Or.inr (Or.inl h)
  · exact Or.inr (Or.inr ⟨h1, h2⟩)

/-- **Stage 4 inventory.** The track stage panics where the fit of one of the clusters does. -/
theorem stageTracks_panic {Num nan : α → Prop} (F : FitLaws P Num nan) (pts : Array (Hough.Point α))
    (clusters : List (List Nat)) (s : String) (h : stageTracks P pts clusters = .panic s) :
    ∃ c ∈ clusters, FitTrigger P nan (clusterPoints pts c) s := by
  unfold stageTracks at h
  cases hf : filterMapOk (fun c => fitOf P (clusterPoints pts c)) clusters with
  | ok ts => rw [hf] at h; cases h
  | err e => rw [hf] at h; cases h
  | panic s' =>
    rw [hf] at h
    simp only [Outcome.panic.injEq] at h
    subst h
    obtain ⟨c, hc, hp⟩ := filterMapOk_panic _ _ _ hf
    exact ⟨c, hc, fitOf_panic F _ _ hp⟩

/-- **Stage 4 result.** Every track is the fit of one of the clusters. -/
theorem stageTracks_ok (pts : Array (Hough.Point α)) (clusters : List (List Nat))
    (ts : Array (TrackP α)) (h : stageTracks P pts clusters = .ok ts) :
    ∀ t ∈ ts, ∃ c ∈ clusters, fitOf P (clusterPoints pts c) = .ok t := by
  unfold stageTracks at h
  cases hf : filterMapOk (fun c => fitOf P (clusterPoints pts c)) clusters with
  | err e => rw [hf] at h; cases h
  | panic s' => rw [hf] at h; cases h
  | ok l =>
    rw [hf] at h
    simp only [Outcome.ok.injEq] at h
    subst h
    intro t ht
    rw [List.mem_toArray] at ht
    exact mem_filterMapOk _ _ _ hf t ht

theorem stageTracks_total (pts : Array (Hough.Point α)) (clusters : List (List Nat))
    (h : ∀ c ∈ clusters, ∀ s, fitOf P (clusterPoints pts c) ≠ .panic s) :
    ∃ ts, stageTracks P pts clusters = .ok ts := by
  obtain ⟨l, hl⟩ := filterMapOk_total (fun c => fitOf P (clusterPoints pts c)) clusters h
  exact ⟨_, by unfold stageTracks; rw [hl]⟩

/-! ## Stage 5: `find_vertices` -/

section SortSec
variable {β : Type} (o : TOps α) (key : β → α)

theorem insertBy_perm (x : β) (l : List β) : (insertBy o key x l).Perm (x :: l) := by
  induction l with
  | nil => exact List.Perm.refl _
  | cons y l ih =>
    unfold insertBy
    split
    · exact List.Perm.refl _
    · exact (List.Perm.cons y ih).trans (List.Perm.swap x y l)

theorem foldl_insertBy_perm (l acc : List β) :
    (l.foldl (fun acc x => insertBy o key x acc) acc).Perm (acc ++ l) := by
  induction l generalizing acc with
  | nil => simp
  | cons x l ih =>
    simp only [List.foldl_cons]
    refine (ih _).trans ?_
    refine ((insertBy_perm o key x acc).append_right l).trans ?_
    simp only [List.cons_append]
    exact (List.perm_middle (a := x) (l₁ := acc) (l₂ := l)).symm

/-- The model's `sort_unstable_by` returns a permutation of its argument whenever it returns. -/
theorem sortByKey_perm (l l' : List β) (h : sortByKey o key l = some l') : l'.Perm l := by
  unfold sortByKey at h
  split at h
  · cases h; exact List.Perm.refl _
  · split at h
    · cases h
    · cases h
      simpa using foldl_insertBy_perm o key l []

/-- It fails only on a list of at least two elements one of whose keys is not comparable with
itself (`partial_cmp` is `None`: NaN). -/
theorem sortByKey_none (l : List β) (h : sortByKey o key l = none) :
    2 ≤ l.length ∧ ∃ x ∈ l, o.cmp (key x) (key x) = none := by
  unfold sortByKey at h
  split at h
  · cases h
  · rename_i hlen
    split at h
    · rename_i hany
      rw [List.any_eq_true] at hany
      obtain ⟨x, hx, hc⟩ := hany
      exact ⟨by omega, x, hx, by simpa [Option.isNone_iff_eq_none] using hc⟩
    · cases h

end SortSec

/-! ### `beamline_clusters` needs only that the sort permutes -/

section Beam

/-- The same context with `==` replaced by equality of indices (`beamline_clusters` never
compares tracks). -/
def reflCtx (ctx : Vertexing.Ctx) : Vertexing.Ctx := { ctx with eq := fun a b => a == b }

theorem reflCtx_good (ctx : Vertexing.Ctx) (hs : ∀ l l', ctx.sort l = some l' → l'.Perm l) :
    (reflCtx ctx).Good where
  eq_refl := by intro a; simp [reflCtx]
  eq_symm := by intro a b h; simp [reflCtx] at *; omega
  eq_trans := by intro a b c h1 h2; simp [reflCtx] at *; omega
  sort_perm := hs

theorem groupAll_reflCtx (ctx : Vertexing.Ctx) (ts : List Nat) (cls : List (List Nat)) :
    Vertexing.groupAll (reflCtx ctx) ts cls = Vertexing.groupAll ctx ts cls := by
  induction ts generalizing cls with
  | nil => rfl
  | cons t ts ih =>
    unfold Vertexing.groupAll
    have : Vertexing.groupStep (reflCtx ctx) cls t = Vertexing.groupStep ctx cls t := rfl
    rw [this]
    cases Vertexing.groupStep ctx cls t with
    | ok cls' => exact ih cls'
    | err e => rfl
    | panic s => rfl

theorem beamlineClusters_reflCtx (ctx : Vertexing.Ctx) (tracks : List Nat) :
    Vertexing.beamlineClusters (reflCtx ctx) tracks = Vertexing.beamlineClusters ctx tracks := by
  unfold Vertexing.beamlineClusters
  split
  · rfl
  · have : (reflCtx ctx).sort tracks = ctx.sort tracks := rfl
    rw [this]
    cases ctx.sort tracks with
    | none => rfl
    | some l =>
      cases l with
      | nil => rfl
      | cons t0 ts => exact groupAll_reflCtx ctx ts _

variable {ctx : Vertexing.Ctx} (hs : ∀ l l', ctx.sort l = some l' → l'.Perm l)
include hs

theorem beamlineClusters_panic' (tracks : List Nat) (s : String)
    (h : Vertexing.beamlineClusters ctx tracks = .panic s) :
    s = "beamline_clusters:partial_cmp" ∧ ctx.sort tracks = none := by
  rw [← beamlineClusters_reflCtx] at h
  exact Vertexing.beamlineClusters_panic (reflCtx_good ctx hs) tracks s h

theorem beamlineClusters_total' (tracks : List Nat) (hsort : ctx.sort tracks ≠ none) :
    ∃ cls, Vertexing.beamlineClusters ctx tracks = .ok cls := by
  rw [← beamlineClusters_reflCtx]
  exact Vertexing.beamlineClusters_total (reflCtx_good ctx hs) tracks hsort

theorem beamlineClusters_perm' (tracks : List Nat) (cls : List (List Nat))
    (h : Vertexing.beamlineClusters ctx tracks = .ok cls) : cls.flatten.Perm tracks := by
  rw [← beamlineClusters_reflCtx] at h
  exact Vertexing.beamlineClusters_perm (reflCtx_good ctx hs) tracks cls h

/-- `beamline_clusters` never returns an `Err`. -/
theorem beamlineClusters_ne_err (tracks : List Nat) (e : Unit) :
    Vertexing.beamlineClusters ctx tracks ≠ .err e := by
  intro h
  cases hso : ctx.sort tracks with
  | none =>
    unfold Vertexing.beamlineClusters at h
    split at h
    · cases h
    · rw [hso] at h; cases h
  | some l =>
    obtain ⟨cls, hc⟩ := beamlineClusters_total' hs tracks (by rw [hso]; simp)
    rw [hc] at h
    cases h

end Beam

theorem maxByFold_ne_err {β : Type} (cmp : β → β → Option Ordering) (l : List β) (best : β) (e : Unit) :
    Vertexing.maxByFold cmp best l ≠ .err e := by
  induction l generalizing best with
  | nil => simp [Vertexing.maxByFold]
  | cons x l ih =>
    unfold Vertexing.maxByFold
    cases cmp best x with
    | none => simp
    | some o => cases o <;> exact ih _

theorem maxBy_ne_err {β : Type} (cmp : β → β → Option Ordering) (l : List β) (e : Unit) :
    Vertexing.maxBy cmp l ≠ .err e := by
  cases l with
  | nil => simp [Vertexing.maxBy]
  | cons a l =>
    unfold Vertexing.maxBy
    cases h : Vertexing.maxByFold cmp a l with
    | ok b => intro h'; simp only [h] at h'; cases h'
    | err e' => exact absurd h (maxByFold_ne_err cmp l a e')
    | panic s => intro h'; simp only [h] at h'; cases h'

theorem removeTracks_ne_err (ctx : Vertexing.Ctx) (l ts : List Nat) (e : Unit) :
    Vertexing.removeTracks ctx l ts ≠ .err e := by
  induction l generalizing ts with
  | nil => simp [Vertexing.removeTracks]
  | cons p ps ih =>
    unfold Vertexing.removeTracks
    split
    · simp
    · exact ih _

/-! ### The context of the fitted tracks -/

variable (P)

structure TrackEqLaws : Prop where
  symm : ∀ a b, P.fit.t.eq a b = true → P.fit.t.eq b a = true
  trans : ∀ a b c, P.fit.t.eq a b = true → P.fit.t.eq b c = true → P.fit.t.eq a c = true
  zero : P.fit.t.eq P.fit.t.h.zero P.fit.t.h.zero = true

/-- No parameter of any track is NaN: every track is `==` to itself. -/
def TracksReflexive (ts : Array (TrackP α)) : Prop := ∀ t ∈ ts, trackEq P.fit.t t t = true

/-- The tracks `find_vertices` is offered for the primary vertex. -/
def candidates (ts : Array (TrackP α)) : List Nat := (List.range ts.size).filter (vertexCtx P ts).keep

variable {P}

theorem vertexCtx_sort_perm (ts : Array (TrackP α)) :
    ∀ l l', (vertexCtx P ts).sort l = some l' → l'.Perm l := by
  intro l l' h
  exact sortByKey_perm P.fit.t _ l l' h

theorem getD_mem (ts : Array (TrackP α)) (i : Nat) (hi : i < ts.size) (d : TrackP α) :
    ts.getD i d ∈ ts := by
  have : ts.getD i d = ts[i] := by simp [Array.getD, hi]
  rw [this]
  exact Array.getElem_mem hi

theorem trackEq_symm (T : TrackEqLaws P) (a b : TrackP α) (h : trackEq P.fit.t a b = true) :
    trackEq P.fit.t b a = true := by
  simp only [trackEq, Bool.and_eq_true] at h ⊢
  obtain ⟨⟨⟨⟨⟨⟨⟨h1, h2⟩, h3⟩, h4⟩, h5⟩, h6⟩, h7⟩, h8⟩ := h
  exact ⟨⟨⟨⟨⟨⟨⟨T.symm _ _ h1, T.symm _ _ h2⟩, T.symm _ _ h3⟩, T.symm _ _ h4⟩, T.symm _ _ h5⟩,
    T.symm _ _ h6⟩, T.symm _ _ h7⟩, T.symm _ _ h8⟩

theorem trackEq_trans (T : TrackEqLaws P) (a b c : TrackP α) (h : trackEq P.fit.t a b = true)
    (h' : trackEq P.fit.t b c = true) : trackEq P.fit.t a c = true := by
  simp only [trackEq, Bool.and_eq_true] at h h' ⊢
  obtain ⟨⟨⟨⟨⟨⟨⟨h1, h2⟩, h3⟩, h4⟩, h5⟩, h6⟩, h7⟩, h8⟩ := h
  obtain ⟨⟨⟨⟨⟨⟨⟨g1, g2⟩, g3⟩, g4⟩, g5⟩, g6⟩, g7⟩, g8⟩ := h'
  exact ⟨⟨⟨⟨⟨⟨⟨T.trans _ _ _ h1 g1, T.trans _ _ _ h2 g2⟩, T.trans _ _ _ h3 g3⟩, T.trans _ _ _ h4 g4⟩,
    T.trans _ _ _ h5 g5⟩, T.trans _ _ _ h6 g6⟩, T.trans _ _ _ h7 g7⟩, T.trans _ _ _ h8 g8⟩

/-- On NaN-free tracks the bookkeeping context is `Good` (C15). -/
theorem vertexCtx_good (T : TrackEqLaws P) (ts : Array (TrackP α)) (hrefl : TracksReflexive P ts) :
    (vertexCtx P ts).Good where
  eq_refl := by
    intro a
    show trackEq P.fit.t (ts.getD a (dfltTrack P)) (ts.getD a (dfltTrack P)) = true
    by_cases ha : a < ts.size
    · exact hrefl _ (getD_mem ts a ha _)
    · have : ts.getD a (dfltTrack P) = dfltTrack P := by simp [Array.getD, ha]
      rw [this]
      simp [trackEq, dfltTrack, T.zero]
  eq_symm := fun a b h => trackEq_symm T _ _ h
  eq_trans := fun a b c h h' => trackEq_trans T _ _ _ h h'
  sort_perm := vertexCtx_sort_perm ts

/-! ### `vertexInit`: the selection of the primary cluster -/

/-- The beamline cluster `find_vertices` selects (`none`: no cluster with more than one track). -/
def Selected (ts : Array (TrackP α)) (v : Option (List Nat)) : Prop :=
  ∃ cls, Vertexing.beamlineClusters (vertexCtx P ts) (candidates P ts) = .ok cls ∧
    Vertexing.maxBy (vertexCtx P ts).cmp
      (Vertexing.maxSetByKey List.length (cls.filter (fun c => decide (1 < c.length)))) = .ok v

theorem vertexInit_eq (ts : Array (TrackP α)) :
    vertexInit P.fit.t P.c.minTrackLength P.c.maxTrackBeamlineDca P.c.maxBeamlineClusteringDistance
        P.c.delta ts (dfltTrack P) =
      match Vertexing.beamlineClusters (vertexCtx P ts) (candidates P ts) with
      | .ok cls =>
        match Vertexing.maxBy (vertexCtx P ts).cmp
            (Vertexing.maxSetByKey List.length (cls.filter (fun c => decide (1 < c.length)))) with
        | .ok none => .ok none
        | .ok (some c) =>
          .ok (some (c, initialSimplex P.fit.t P.c.delta
            (vertexGuess P.fit.t (clusterMeanZ P.fit.t (c.map (fun i => ts.getD i (dfltTrack P)))))))
        | .err e => .err e
        | .panic s => .panic s
      | .err e => .err e
      | .panic s => .panic s := rfl

/-- A selected cluster has at least two tracks, all of them candidates (so indices of tracks). -/
theorem selected_spec (ts : Array (TrackP α)) (c : List Nat) (h : Selected (P := P) ts (some c)) :
    2 ≤ c.length ∧ ∀ i ∈ c, i < ts.size ∧ (vertexCtx P ts).keep i = true := by
  obtain ⟨cls, hb, hm⟩ := h
  have hmem := Vertexing.maxSetByKey_subset List.length _ c (Vertexing.maxBy_mem hm)
  rw [List.mem_filter] at hmem
  refine ⟨by have := hmem.2; simp only [decide_eq_true_eq] at this; omega, ?_⟩
  intro i hi
  have hperm := beamlineClusters_perm' (vertexCtx_sort_perm ts) _ cls hb
  have : i ∈ candidates P ts := hperm.mem_iff.1 (List.mem_flatten.2 ⟨c, hmem.1, hi⟩)
  simp only [candidates, List.mem_filter, List.mem_range] at this
  exact this

/-! ### The vertex fit and the remainder loop -/

variable (P)

/-- The `Track` values of a cluster of indices. -/
def tracksOf (ts : Array (TrackP α)) (c : List Nat) : List (TrackP α) :=
  c.map fun i => ts.getD i (dfltTrack P)

/-- The initial simplex of the vertex fit for the cluster `c`: `(0, 0, mean z)` and its three
perturbations. -/
def vertexSimplex (ts : Array (TrackP α)) (c : List Nat) : List (List α) :=
  initialSimplex P.fit.t P.c.delta (vertexGuess P.fit.t (clusterMeanZ P.fit.t (tracksOf P ts c)))

/-- The cost function of the vertex fit for the cluster `c`. -/
def vertexCostOf (ts : Array (TrackP α)) (c : List Nat) (x : List α) : Outcome Unit α :=
  vertexCost P.fit P.c.epsilon maxClosestTIters (tracksOf P ts c) x

variable {P}

theorem mem_tracksOf (ts : Array (TrackP α)) (c : List Nat) (hc : ∀ i ∈ c, i < ts.size)
    (t : TrackP α) (ht : t ∈ tracksOf P ts c) : t ∈ ts := by
  simp only [tracksOf, List.mem_map] at ht
  obtain ⟨i, hi, rfl⟩ := ht
  exact getD_mem ts i (hc i hi) _

theorem vertexFitOf_eq (ts : Array (TrackP α)) :
    vertexFitOf P ts =
      match Vertexing.beamlineClusters (vertexCtx P ts) (candidates P ts) with
      | .ok cls =>
        match Vertexing.maxBy (vertexCtx P ts).cmp
            (Vertexing.maxSetByKey List.length (cls.filter (fun c => decide (1 < c.length)))) with
        | .ok none => .ok none
        | .ok (some c) =>
          (fitVertex P.fit maxSolverIters P.c.epsilon maxClosestTIters P.c.epsilon (tracksOf P ts c)
            (vertexSimplex P ts c)).bind fun r => .ok (some ⟨r.1, c, r.2⟩)
        | .err e => .err e
        | .panic s => .panic s
      | .err e => .err e
      | .panic s => .panic s := by
  unfold vertexFitOf findVertexFit
  rw [vertexInit_eq]
  cases Vertexing.beamlineClusters (vertexCtx P ts) (candidates P ts) with
  | ok cls =>
    simp only
    cases Vertexing.maxBy (vertexCtx P ts).cmp
        (Vertexing.maxSetByKey List.length (cls.filter (fun c => decide (1 < c.length)))) with
    | ok v => cases v <;> rfl
    | err e => rfl
    | panic s => rfl
  | err e => rfl
  | panic s => rfl

/-- What a fitted primary vertex is (C14c `fitVertex_cases`): its position is a 3-vector at which
the cost function of its cluster was evaluated, with a cost not above the cost at any vertex of
the initial simplex. -/
def FittedVertex (P : Pipe α) (ts : Array (TrackP α)) (vf : VertexFit α) : Prop :=
  ∃ best cst, best.length = 3 ∧
    vf.position = (best.getD 0 P.fit.t.h.zero, best.getD 1 P.fit.t.h.zero, best.getD 2 P.fit.t.h.zero) ∧
    vertexCostOf P ts vf.cluster best = .ok cst ∧
    (vertexSimplex P ts vf.cluster).length = 4 ∧
    ∀ x ∈ vertexSimplex P ts vf.cluster, ∃ cx, vertexCostOf P ts vf.cluster x = .ok cx ∧
      P.fit.n.lt cx cst = false

/-- The outcomes of `find_vertices` up to the fitted vertex. -/
theorem vertexFitOf_cases {Num nan : α → Prop} (F : FitLaws P Num nan) (ts : Array (TrackP α)) :
    (∃ s, vertexFitOf P ts = .panic s ∧ s = "beamline_clusters:partial_cmp" ∧
      (vertexCtx P ts).sort (candidates P ts) = none) ∨
    (∃ s, vertexFitOf P ts = .panic s ∧ s = "find_vertices:partial_cmp" ∧
      ∃ a b, (vertexCtx P ts).cmp a b = none) ∨
    (vertexFitOf P ts = .ok none ∧ Selected (P := P) ts none) ∨
    (∃ c, Selected (P := P) ts (some c) ∧
      ((∃ vf, vertexFitOf P ts = .ok (some vf) ∧ vf.cluster = c ∧ FittedVertex P ts vf) ∨
       (vertexFitOf P ts = .panic siteVertexNaN ∧ ∃ x : List α, x.length = 3 ∧ ∃ t ∈ tracksOf P ts c,
          P.fit.isNaN (distSq P.fit P.c.epsilon maxClosestTIters t.q (vertexPoint P.fit x)) = true))) := by
  rw [vertexFitOf_eq]
  cases hb : Vertexing.beamlineClusters (vertexCtx P ts) (candidates P ts) with
  | err e => exact absurd hb (beamlineClusters_ne_err (vertexCtx_sort_perm ts) _ e)
  | panic s =>
    obtain ⟨h1, h2⟩ := beamlineClusters_panic' (vertexCtx_sort_perm ts) _ s hb
    exact Or.inl ⟨s, rfl, h1, h2⟩
  | ok cls =>
    simp only
    cases hm : Vertexing.maxBy (vertexCtx P ts).cmp
        (Vertexing.maxSetByKey List.length (cls.filter (fun c => decide (1 < c.length)))) with
    | err e => exact absurd hm (maxBy_ne_err _ _ e)
    | panic s =>
      obtain ⟨h1, h2⟩ := Vertexing.maxBy_panic _ _ s hm
      exact Or.inr (Or.inl ⟨s, rfl, h1, h2⟩)
    | ok v =>
      cases v with
      | none => exact Or.inr (Or.inr (Or.inl ⟨rfl, cls, hb, hm⟩))
      | some c =>
        refine Or.inr (Or.inr (Or.inr ⟨c, ⟨cls, hb, hm⟩, ?_⟩))
        simp only
        have hshape := AlphaG.C14b.vertex_simplex_shape P.fit.t P.c.delta
          (clusterMeanZ P.fit.t (tracksOf P ts c))
        rcases AlphaG.C14c.fitVertex_cases F.ord maxSolverIters P.c.epsilon maxClosestTIters P.c.epsilon
            (tracksOf P ts c) (F.vertexCostNum _) F.tolOk (vertexSimplex P ts c) hshape.1 hshape.2.1 with
          ⟨best, cst, h1, h2, h3, h4⟩ | ⟨h1, hw⟩
        · rw [h1]
          exact Or.inl ⟨_, rfl, rfl, best, cst, h2, rfl, h3, hshape.1, h4⟩
        · rw [h1]
          exact Or.inr ⟨rfl, hw⟩

/-- On NaN-free tracks the remainder loop of `find_vertices` returns (C15: its
`position(..).unwrap()` is unreachable for a `Good` context). -/
theorem remainder_ok (T : TrackEqLaws P) (ts : Array (TrackP α)) (hrefl : TracksReflexive P ts)
    (v : Option (List Nat)) (hsel : Selected (P := P) ts v) :
    ∃ rem, Vertexing.removeTracks (vertexCtx P ts) (v.getD []) (List.range ts.size) = .ok rem := by
  obtain ⟨cls, hb, hm⟩ := hsel
  cases hr : Vertexing.removeTracks (vertexCtx P ts) (v.getD []) (List.range ts.size) with
  | ok rem => exact ⟨rem, rfl⟩
  | err e => exact absurd hr (removeTracks_ne_err _ _ _ e)
  | panic s =>
    exfalso
    have hfv : Vertexing.findVertices (vertexCtx P ts) (List.range ts.size) = .panic s := by
      unfold Vertexing.findVertices
      have : (List.range ts.size).filter (vertexCtx P ts).keep = candidates P ts := rfl
      rw [this, hb]
      simp only
      rw [hm]
      simp only
      rw [hr]
    have hs := removeTracks_site _ _ _ _ hr
    rcases Vertexing.vertex_panic_sites (vertexCtx_good T ts hrefl) _ s hfv with ⟨h, _⟩ | ⟨h, _⟩
    · rw [hs] at h; exact absurd h (by decide)
    · rw [hs] at h; exact absurd h (by decide)

variable (P)

/-- The four ways `find_vertices` can panic on the tracks `ts`, each with its trigger. -/
def VertexTrigger (nan : α → Prop) (ts : Array (TrackP α)) (s : String) : Prop :=
  (s = "beamline_clusters:partial_cmp" ∧ ∃ t ∈ ts, nan (beamZ P.fit.t t)) ∨
  (s = "find_vertices:partial_cmp" ∧ ∃ a b : List Nat, (vertexCtx P ts).cmp a b = none) ∨
  (s = siteVertexNaN ∧ ∃ x : List α, x.length = 3 ∧ ∃ t ∈ ts,
    P.fit.isNaN (distSq P.fit P.c.epsilon maxClosestTIters t.q (vertexPoint P.fit x)) = true) ∨
  (s = "find_vertices:position" ∧ ∃ t ∈ ts, trackEq P.fit.t t t = false)

variable {P}

/-- `remainderOf` of a returned fit is the remainder loop on the selected cluster. -/
theorem remainderOf_eq (ts : Array (TrackP α)) (v : Option (VertexFit α)) :
    remainderOf P ts v =
      Vertexing.removeTracks (vertexCtx P ts) ((v.map (·.cluster)).getD []) (List.range ts.size) := rfl

/-- **Stage 5 inventory.** -/
theorem stageVertex_panic {Num nan : α → Prop} (F : FitLaws P Num nan) (T : TrackEqLaws P)
    (ts : Array (TrackP α)) (s : String) (h : stageVertex P ts = .panic s) :
    VertexTrigger P nan ts s := by
  unfold stageVertex at h
  rcases vertexFitOf_cases F ts with ⟨s', hp, hs', hsort⟩ | ⟨s', hp, hs', hcmp⟩ | ⟨hn, hsel⟩ | ⟨c, hsel, hc⟩
  · rw [hp] at h
    simp only [Outcome.panic.injEq] at h
    subst h
    refine Or.inl ⟨hs', ?_⟩
    obtain ⟨_, i, hi, hcmp⟩ := sortByKey_none P.fit.t _ _ hsort
    simp only [candidates, List.mem_filter, List.mem_range] at hi
    refine ⟨ts.getD i (dfltTrack P), getD_mem ts i hi.1 _, ?_⟩
    rcases (F.cmpNan _ _).1 hcmp with h | h <;> exact h
  · rw [hp] at h
    simp only [Outcome.panic.injEq] at h
    subst h
    exact Or.inr (Or.inl ⟨hs', hcmp⟩)
  · rw [hn] at h
    simp only at h
    have hs := hsel
    by_cases hrefl : TracksReflexive P ts
    · obtain ⟨rem, hrem⟩ := remainder_ok T ts hrefl none hsel
      rw [remainderOf_eq] at h
      simp only [Option.map_none, Option.getD_none] at h hrem
      rw [hrem] at h
      cases h
    · -- the remainder loop over no tracks cannot panic at all
      rw [remainderOf_eq] at h
      simp [Vertexing.removeTracks] at h
  · rcases hc with ⟨vf, hvf, hcl, _⟩ | ⟨hp, x, hx, t, ht, hnan⟩
    · rw [hvf] at h
      simp only at h
      cases hr : remainderOf P ts (some vf) with
      | ok rem => rw [hr] at h; cases h
      | err e => rw [hr] at h; cases h
      | panic s' =>
        rw [hr] at h
        simp only [Outcome.panic.injEq] at h
        subst h
        rw [remainderOf_eq] at hr
        refine Or.inr (Or.inr (Or.inr ⟨removeTracks_site _ _ _ _ hr, ?_⟩))
        apply Classical.byContradiction
        intro hno
        have hrefl : TracksReflexive P ts := by
          intro t ht
          cases hb : trackEq P.fit.t t t with
          | true => rfl
          | false => exact absurd ⟨t, ht, hb⟩ hno
        obtain ⟨rem, hrem⟩ := remainder_ok T ts hrefl (some c) hsel
        simp only [Option.map_some, Option.getD_some, hcl] at hr hrem
        rw [hrem] at hr
        cases hr
    · rw [hp] at h
      simp only [Outcome.panic.injEq] at h
      subst h
      exact Or.inr (Or.inr (Or.inl ⟨rfl, x, hx, t,
        mem_tracksOf ts c (fun i hi => ((selected_spec ts c hsel).2 i hi).1) t ht, hnan⟩))

/-- **Stage 5 result.** A returned primary vertex: fitted over a selected beamline cluster of at
least two tracks (indices of tracks that pass the two filters), position = best evaluated point. -/
theorem stageVertex_some {Num nan : α → Prop} (F : FitLaws P Num nan) (ts : Array (TrackP α))
    (pos : α × α × α) (h : stageVertex P ts = .ok (some pos)) :
    ∃ vf, vertexFitOf P ts = .ok (some vf) ∧ vf.position = pos ∧ Selected (P := P) ts (some vf.cluster) ∧
      2 ≤ vf.cluster.length ∧ (∀ i ∈ vf.cluster, i < ts.size ∧ (vertexCtx P ts).keep i = true) ∧
      FittedVertex P ts vf := by
  unfold stageVertex at h
  rcases vertexFitOf_cases F ts with ⟨s', hp, _⟩ | ⟨s', hp, _⟩ | ⟨hn, _⟩ | ⟨c, hsel, hc⟩
  · rw [hp] at h; cases h
  · rw [hp] at h; cases h
  · rw [hn] at h
    simp only at h
    split at h <;> simp at h
  · rcases hc with ⟨vf, hvf, hcl, hfit⟩ | ⟨hp, _⟩
    · rw [hvf] at h
      simp only at h
      split at h
      · simp only [Option.map_some, Outcome.ok.injEq, Option.some.injEq] at h
        subst hcl
        exact ⟨vf, hvf, h, hsel, (selected_spec ts _ hsel).1, (selected_spec ts _ hsel).2, hfit⟩
      · cases h
      · cases h
    · rw [hp] at h; cases h

/-- **Stage 5 totality**: no NaN `z` of closest approach, no incomparable radius sums, no NaN
squared distance, no NaN track parameter ⇒ `find_vertices` returns. -/
theorem stageVertex_total {Num nan : α → Prop} (F : FitLaws P Num nan) (T : TrackEqLaws P)
    (ts : Array (TrackP α)) (hrefl : TracksReflexive P ts)
    (hz : ∀ t ∈ ts, ¬ nan (beamZ P.fit.t t))
    (hsum : ∀ a b : List Nat, (vertexCtx P ts).cmp a b ≠ none)
    (hd : ∀ x : List α, x.length = 3 → ∀ t ∈ ts,
      P.fit.isNaN (distSq P.fit P.c.epsilon maxClosestTIters t.q (vertexPoint P.fit x)) = false) :
    ∃ v, stageVertex P ts = .ok v := by
  cases h : stageVertex P ts with
  | ok v => exact ⟨v, rfl⟩
  | panic s =>
    exfalso
    rcases stageVertex_panic F T ts s h with ⟨_, t, ht, hn⟩ | ⟨_, a, b, hc⟩ | ⟨_, x, hx, t, ht, hn⟩ | ⟨_, t, ht, hn⟩
    · exact hz t ht hn
    · exact hsum a b hc
    · rw [hd x hx t ht] at hn; cases hn
    · rw [hrefl t ht] at hn; cases hn
  | err e =>
    exfalso
    unfold stageVertex at h
    rcases vertexFitOf_cases F ts with ⟨s', hp, _⟩ | ⟨s', hp, _⟩ | ⟨hn, _⟩ | ⟨c, hsel, hc⟩
    · rw [hp] at h; cases h
    · rw [hp] at h; cases h
    · rw [hn] at h
      simp only at h
      cases hr : remainderOf P ts none with
      | ok rem => rw [hr] at h; cases h
      | err e' => rw [remainderOf_eq] at hr; exact absurd hr (removeTracks_ne_err _ _ _ e')
      | panic s => rw [hr] at h; cases h
    · rcases hc with ⟨vf, hvf, _, _⟩ | ⟨hp, _⟩
      · rw [hvf] at h
        simp only at h
        cases hr : remainderOf P ts (some vf) with
        | ok rem => rw [hr] at h; cases h
        | err e' => rw [remainderOf_eq] at hr; exact absurd hr (removeTracks_ne_err _ _ _ e')
        | panic s => rw [hr] at h; cases h
      · rw [hp] at h; cases h

end AlphaG.VertexPipeline
