import AlphaG.Spec.RunHistory
/-
The generated `match run_number` dispatches (regenerated from the source text on every run)
select, for every run number up to `Spec.horizon` and for the simulation, exactly what the
hand-written record of the documented run history (`AlphaG/Spec/RunHistory.lean`) prescribes.

Proof: both sides are piecewise constant with breakpoints among the thresholds of the arms and
the steps of the record (`dispatch_congr`, `at_congr`), so agreement at the breakpoints
(`decide`) is agreement everywhere (`agree_of_breakpoints`).
-/
namespace AlphaG.RunHistory
open AlphaG.Generated AlphaG.Maps AlphaG.Spec

/-- `N..` thresholds of the arms. -/
def thresholds : Arms → List Nat
  | [] => []
  | (.ge n, _) :: rest => n :: thresholds rest
  | (_, _) :: rest => thresholds rest

theorem dispatch_congr (arms : Arms) (r r' : Nat)
    (hmax : r = simulationRun ↔ r' = simulationRun)
    (h : ∀ n ∈ thresholds arms, (n ≤ r ↔ n ≤ r')) : dispatch arms r = dispatch arms r' := by
  induction arms with
  | nil => rfl
  | cons a rest ih =>
    obtain ⟨p, rhs⟩ := a
    cases p with
    | max =>
      have ih' := ih (by intro n hn; exact h n (by simpa [thresholds] using hn))
      have e : simulationRun = 4294967295 := rfl
      rw [e] at hmax
      by_cases h1 : r = 4294967295
      · have h2 := hmax.mp h1
        simp [dispatch, patMatches, h1, h2]
      · have h2 : r' ≠ 4294967295 := fun h2 => h1 (hmax.mpr h2)
        simp [dispatch, patMatches, h1, h2, ih']
    | ge n =>
      have hn := h n (by simp [thresholds])
      have ih' := ih (by intro m hm; exact h m (by simp [thresholds, hm]))
      simp only [dispatch, patMatches, ih']
      by_cases h1 : n ≤ r
      · have h2 := hn.mp h1; simp [h1, h2]
      · have h2 : ¬ n ≤ r' := fun h2 => h1 (hn.mpr h2)
        simp [h1, h2]
    | wild =>
      simp [dispatch, patMatches]

theorem foldl_steps_congr (steps : List (Nat × Sel)) (r r' : Nat) (acc : Sel)
    (h : ∀ n ∈ steps.map (·.1), (n ≤ r ↔ n ≤ r')) :
    steps.foldl (fun acc s => if s.1 ≤ r then s.2 else acc) acc
      = steps.foldl (fun acc s => if s.1 ≤ r' then s.2 else acc) acc := by
  induction steps generalizing acc with
  | nil => rfl
  | cons s rest ih =>
    have hs := h s.1 (by simp)
    simp only [List.foldl_cons]
    have : (if s.1 ≤ r then s.2 else acc) = (if s.1 ≤ r' then s.2 else acc) := by
      by_cases h1 : s.1 ≤ r
      · simp [h1, hs.mp h1]
      · have h2 : ¬ s.1 ≤ r' := fun h2 => h1 (hs.mpr h2)
        simp [h1, h2]
    rw [this]
    exact ih _ (by intro n hn; exact h n (by simp at hn ⊢; exact Or.inr hn))

theorem at_congr (hist : History) (r r' : Nat) (h1 : r ≠ simulationRun) (h2 : r' ≠ simulationRun)
    (h : ∀ n ∈ hist.steps.map (·.1), (n ≤ r ↔ n ≤ r')) : hist.at r = hist.at r' := by
  simp only [History.at, h1, h2, if_false]
  exact foldl_steps_congr _ _ _ _ h

/-- Largest element of `ts` that is `≤ r` (0 if none). -/
def floorTo (ts : List Nat) (r : Nat) : Nat :=
  ts.foldl (fun acc t => if t ≤ r ∧ acc < t then t else acc) 0

theorem floorTo_aux (ts : List Nat) (r acc : Nat) (hacc : acc ≤ r) :
    let v := ts.foldl (fun acc t => if t ≤ r ∧ acc < t then t else acc) acc
    v ≤ r ∧ acc ≤ v ∧ (∀ n ∈ ts, n ≤ r → n ≤ v) ∧ (v = acc ∨ v ∈ ts) := by
  induction ts generalizing acc with
  | nil => simp [hacc]
  | cons t rest ih =>
    simp only [List.foldl_cons]
    by_cases hc : t ≤ r ∧ acc < t
    · simp only [hc, and_self, if_true]
      obtain ⟨a, b, c, d⟩ := ih t hc.1
      refine ⟨a, by omega, ?_, ?_⟩
      · intro n hn hnr
        rcases List.mem_cons.mp hn with rfl | hn
        · exact b
        · exact c n hn hnr
      · rcases d with d | d
        · exact Or.inr (by rw [d]; simp)
        · exact Or.inr (List.mem_cons_of_mem _ d)
    · simp only [hc, if_false]
      obtain ⟨a, b, c, d⟩ := ih acc hacc
      refine ⟨a, b, ?_, ?_⟩
      · intro n hn hnr
        rcases List.mem_cons.mp hn with rfl | hn
        · have : ¬ acc < n := fun h => hc ⟨hnr, h⟩
          omega
        · exact c n hn hnr
      · rcases d with d | d
        · exact Or.inl d
        · exact Or.inr (List.mem_cons_of_mem _ d)

theorem floorTo_spec (ts : List Nat) (r : Nat) :
    floorTo ts r ≤ r ∧ (∀ n ∈ ts, (n ≤ floorTo ts r ↔ n ≤ r)) ∧ floorTo ts r ∈ 0 :: ts := by
  obtain ⟨a, _, c, d⟩ := floorTo_aux ts r 0 (Nat.zero_le _)
  refine ⟨a, ?_, ?_⟩
  · intro n hn
    exact ⟨fun h => Nat.le_trans h a, c n hn⟩
  · rcases d with d | d
    · unfold floorTo; rw [d]; simp
    · exact List.mem_cons_of_mem _ d

/-- Two functions of the run number that only look at comparisons with `ts` agree on all run
numbers up to `H` as soon as they agree at the breakpoints `0 :: ts` up to `H`. -/
theorem agree_of_breakpoints (f g : Nat → Sel) (ts : List Nat) (H : Nat) (hH : H < simulationRun)
    (hf : ∀ r r', r ≠ simulationRun → r' ≠ simulationRun → (∀ n ∈ ts, (n ≤ r ↔ n ≤ r')) → f r = f r')
    (hg : ∀ r r', r ≠ simulationRun → r' ≠ simulationRun → (∀ n ∈ ts, (n ≤ r ↔ n ≤ r')) → g r = g r')
    (hfin : ∀ t ∈ 0 :: ts, t ≤ H → f t = g t) : ∀ r, r ≤ H → f r = g r := by
  intro r hr
  obtain ⟨a, b, c⟩ := floorTo_spec ts r
  have h1 : r ≠ simulationRun := by omega
  have h2 : floorTo ts r ≠ simulationRun := by omega
  have hb : ∀ n ∈ ts, (n ≤ r ↔ n ≤ floorTo ts r) := fun n hn => (b n hn).symm
  rw [hf r _ h1 h2 hb, hg r _ h1 h2 hb]
  exact hfin _ c (by omega)

/-- Breakpoints of one comparison. -/
def breaks (arms : Arms) (hist : History) : List Nat := thresholds arms ++ hist.steps.map (·.1)

theorem cal_agrees (arms : Arms) (maps : List (String × String)) (hist : History)
    (hfin : ∀ t ∈ 0 :: breaks arms hist, t ≤ horizon → genCal arms maps t = hist.at t) :
    ∀ r, r ≤ horizon → genCal arms maps r = hist.at r := by
  refine agree_of_breakpoints _ _ (breaks arms hist) horizon (by decide) ?_ ?_ hfin
  · intro r r' h1 h2 h
    unfold genCal
    rw [dispatch_congr arms r r' (by simp [h1, h2]) (fun n hn => h n (by simp [breaks, hn]))]
  · intro r r' h1 h2 h
    exact at_congr hist r r' h1 h2 (fun n hn => h n (by simp only [breaks, List.mem_append]; exact Or.inr hn))

theorem map_agrees {τ : Type} [BEq τ] (tables : List (String × τ)) (arms : Arms) (hist : History)
    (hfin : ∀ t ∈ 0 :: breaks arms hist, t ≤ horizon → genMap tables arms hist t = hist.at t) :
    ∀ r, r ≤ horizon → genMap tables arms hist r = hist.at r := by
  refine agree_of_breakpoints _ _ (breaks arms hist) horizon (by decide) ?_ ?_ hfin
  · intro r r' h1 h2 h
    unfold genMap
    rw [dispatch_congr arms r r' (by simp [h1, h2]) (fun n hn => h n (by simp [breaks, hn]))]
  · intro r r' h1 h2 h
    exact at_congr hist r r' h1 h2 (fun n hn => h n (by simp only [breaks, List.mem_append]; exact Or.inr hn))

/-! ### The nine dispatches of the code against the record -/

/-- Wire gain (the dispatch of seed C10-3): for every run up to the horizon the generated
`match run_number` of `try_wire_gain` selects the documented data file. -/
theorem wire_gain_history : ∀ r, r ≤ horizon → genCal wireGainArms wireGainMaps r = Spec.wireGain.at r :=
  cal_agrees _ _ _ (by decide)
theorem wire_gain_simulation : genCal wireGainArms wireGainMaps simulationRun = Spec.wireGain.at simulationRun := by decide

theorem wire_baseline_history : ∀ r, r ≤ horizon → genCal wireBaselineArms wireBaselineMaps r = Spec.wireBaseline.at r :=
  cal_agrees _ _ _ (by decide)
theorem wire_baseline_simulation :
    genCal wireBaselineArms wireBaselineMaps simulationRun = Spec.wireBaseline.at simulationRun := by decide

theorem wire_delay_history : ∀ r, r ≤ horizon → genCal wireDelayArms wireDelayMaps r = Spec.wireDelay.at r :=
  cal_agrees _ _ _ (by decide)
theorem wire_delay_simulation : genCal wireDelayArms wireDelayMaps simulationRun = Spec.wireDelay.at simulationRun := by decide

theorem pad_baseline_history : ∀ r, r ≤ horizon → genCal padBaselineArms padBaselineMaps r = Spec.padBaseline.at r :=
  cal_agrees _ _ _ (by decide)
theorem pad_baseline_simulation :
    genCal padBaselineArms padBaselineMaps simulationRun = Spec.padBaseline.at simulationRun := by decide

theorem pad_gain_history : ∀ r, r ≤ horizon → genCal padGainArms padGainMaps r = Spec.padGain.at r :=
  cal_agrees _ _ _ (by decide)
theorem pad_gain_simulation : genCal padGainArms padGainMaps simulationRun = Spec.padGain.at simulationRun := by decide

theorem pad_delay_history : ∀ r, r ≤ horizon → genCal padDelayArms padDelayMaps r = Spec.padDelay.at r :=
  cal_agrees _ _ _ (by decide)
theorem pad_delay_simulation : genCal padDelayArms padDelayMaps simulationRun = Spec.padDelay.at simulationRun := by decide

theorem wire_preamp_history :
    ∀ r, r ≤ horizon → genMap preampTables wirePreampArms Spec.wirePreamp r = Spec.wirePreamp.at r :=
  map_agrees _ _ _ (by decide)
theorem wire_preamp_simulation :
    genMap preampTables wirePreampArms Spec.wirePreamp simulationRun = Spec.wirePreamp.at simulationRun := by decide

theorem wire_channel_history :
    ∀ r, r ≤ horizon → genMap channelTables wireChannelArms Spec.wireChannel r = Spec.wireChannel.at r :=
  map_agrees _ _ _ (by decide)
theorem wire_channel_simulation :
    genMap channelTables wireChannelArms Spec.wireChannel simulationRun = Spec.wireChannel.at simulationRun := by decide

theorem pwb_layout_history :
    ∀ r, r ≤ horizon → genMap pwbTables pwbArms Spec.pwbLayout r = Spec.pwbLayout.at r :=
  map_agrees _ _ _ (by decide)
theorem pwb_layout_simulation :
    genMap pwbTables pwbArms Spec.pwbLayout simulationRun = Spec.pwbLayout.at simulationRun := by decide

/-- The PadWing layout of runs from 10418 on is the layout of runs from 4418 on with exactly the
eight documented board replacements (each position held the documented old board). -/
theorem pwb_swaps_10418 :
    ∃ t1 t2, layoutAt 4418 = some t1 ∧ layoutAt 10418 = some t2 ∧ applySwaps t1 pwbSwaps10418 = some t2 :=
  ⟨_, _, rfl, rfl, by decide⟩

/-- Non-vacuity: the record distinguishes runs on both sides of a documented boundary. -/
example : Spec.wireGain.at 11083 = .file "9277_complete.json" ∧ Spec.wireGain.at 11084 = .file "11186_complete.json"
    ∧ Spec.wireGain.at 9276 = .err ∧ Spec.pwbLayout.at 10417 = .layout 0 ∧ Spec.pwbLayout.at 10418 = .layout 1 := by
  decide

end AlphaG.RunHistory
