import AlphaG.Props.C15
import Mathlib.Tactic.Ring
import Mathlib.Tactic.FieldSimp
import Mathlib.Tactic.Linarith
import Mathlib.Tactic.Positivity
import Mathlib.Algebra.Order.Field.Basic
import Mathlib.Tactic.NormNum
import Mathlib.Algebra.Order.Field.Rat
/-
C14 — reconstruction stages are total on physical inputs and return finite geometry.

What is proved here is the **logic** of the statement; the `f64` part is not (see the end).

## Panic-site inventory (every `unwrap` / `assert!` / index of the four source files)

`cluster_spacepoints` (track_finding.rs)
  C1  `bin.try_into().unwrap()` (i32 → u32 in `get_bins`)      unreachable: the loop runs over
      `min_bin.max(0)..=max_bin`                                 → `bin_nonneg`
  C2  `accumulator.get_mut(&bin).unwrap()`                      unreachable → `cluster_total`
  C3  `vec.iter().position(|p| *p == point).unwrap()`           unreachable → `cluster_total`
  C4  `sp.iter().position(|&p| p == point).unwrap()`            unreachable → `cluster_total`
      (C2–C4 need `==` reflexive, i.e. NaN-free points: with a NaN coordinate `p == p` is
      false and C3 fires — a NaN site in disguise.)
  —   termination of the two `loop`s                            → `cluster_total` (needs `1 ≤ min`;
      with `min = 0` the outer loop never ends on an empty accumulator; the code passes 13)
`fit_cluster_to_helix` / `three_template_points` (track_fitting.rs)
  F1  `assert!(sp.len() >= 3)`                                  unreachable for clusters made by
      `cluster_spacepoints` (≥ 13 points)                       → `fit_assert_unreachable`
  F2  `minmax_by_key(..).into_option().unwrap()`                `None` only for an empty slice
                                                                → `minmax_some` (≥ 1 point)
  F3  `min_by(|a,b| ..partial_cmp(..).unwrap())`                **NaN site**: fires exactly when a
      comparison of `|r − r_mid|` involves a NaN                → `minBy_total` / `minBy_panic_iff`
  F4  `.copied().unwrap()` after `min_by`                       `None` only for an empty slice
                                                                → `minBy_total` (≥ 1 point)
      (F1–F4 and F7 together: `fit_sites_total`, `fit_sites_panic` on the control-flow skeleton)
  F5  `NelderMead::new(..).with_sd_tolerance(EPSILON).unwrap()` argmin contract (tolerance ≥ 0)
  F6  `Executor::run().unwrap()`                                argmin contract (cost is `Ok`)
  F7  `assert!(!val.is_nan())` in `cost`                        **NaN site**
  F8  `res.state.best_param.unwrap()`                           argmin contract
  F9  `best_params[0..=5]`, `p[0..=5]`                          argmin contract (6 parameters in,
                                                                 6 out)
  —   `f64::clamp(-PI, PI)` asserts `min <= max`                constants
  —   exact collinearity: `NoInitialParameters` is returned before
      `circle_through_three_points` can divide by zero          → `collinear_rejected`
`find_vertices` / `beamline_clusters` (vertex_fitting.rs)
  B1  `sort_unstable_by(..partial_cmp(..).unwrap())`            **NaN site**
  B2  `tracks[0]` (after `is_empty` return)                     unreachable → `vertex_total`
  B3  `clusters.last().unwrap()`, `.last().unwrap()`,
      `clusters.last_mut().unwrap()`                            unreachable → `vertex_total`
  V1  `max_by(..partial_cmp(..).unwrap())` on `Σ r`             **NaN site**
  V2–V5 as F5, F6, F8, F9 (3 parameters)                        argmin contract
  V6  `assert!(!val.is_nan())` in `cost`                        **NaN site**
  V7  `tracks.iter().position(|t| t == track).unwrap()`         unreachable → `vertex_total`
      (needs `Track ==` reflexive: NaN-free helix parameters)

`vertex_total` (Props/C15.lean) is the statement "the bookkeeping of `find_vertices` returns
whenever B1 and V1 do not see a NaN".

## Not proved (and not provable with the tools at hand)

Whether a NaN *can* arise in `f64` — inside `closest_t`'s Newton iteration, `hypot/atan2`, the
complex division of `circle_through_three_points` for nearly collinear points, or Nelder–Mead's
simplex arithmetic — and hence whether F3, F7, B1, V1, V6 can fire on physical inputs, and
whether returned parameters are finite. Lean's `Float` is opaque and there is no IEEE-754
semantics to reason with; the argmin crate is not modelled. This half of C14 is covered by
**adversarial sampling on the implementation** (harness/src/c14.rs: degenerate families of the
quantifier text under `catch_unwind`), labelled as sampling in the evidence, not as proof.
-/
namespace AlphaG.C14

/-! ### Clustering totality (alias of the C15 development) -/

/-- C14 `cluster_total`: see `AlphaG.Cluster.cluster_total`. -/
theorem cluster_total {ctx : AlphaG.Cluster.Ctx} (g : ctx.Good) (min : Nat) (hmin : 1 ≤ min)
    (sp : List Nat) : ∃ r, AlphaG.Cluster.cluster ctx min sp = .ok r :=
  AlphaG.Cluster.cluster_total g min hmin sp

/-- C1: every `bin` of `min_bin.max(0)..=max_bin` converts to `u32`. -/
theorem bin_nonneg (minBin maxBin bin : Int) (h : max minBin 0 ≤ bin) (_ : bin ≤ maxBin) :
    0 ≤ bin := by omega

/-- F1: the `assert!(sp.len() >= 3)` of `fit_cluster_to_helix` cannot fire on a cluster
produced by `cluster_spacepoints` (which passes `min = 13`), nor can F2/F4 (`≥ 1` point). -/
theorem fit_assert_unreachable {ctx : AlphaG.Cluster.Ctx} (g : ctx.Good) (sp : List Nat)
    (r : AlphaG.Cluster.Result) (h : AlphaG.Cluster.cluster ctx 13 sp = .ok r) :
    ∀ c ∈ r.clusters, 3 ≤ c.length := by
  intro c hc
  have := AlphaG.Cluster.cluster_min_size g 13 (by omega) sp r h c hc
  omega

inductive FitErr where
  | noInitialParameters
deriving DecidableEq

/-! ### `minmax` and `min_by` of `three_template_points` -/

/-- `Itertools::minmax_by_key(..).into_option()`: `None` exactly for an empty slice.
(`lt a b` is the `PartialOrd` `<` on the keys; a NaN key makes the *choice* arbitrary but
never panics.) Fold as in itertools' `minmax_impl` restricted to what `into_option` keeps. -/
def minmax {α : Type} (lt : α → α → Bool) : List α → Option (α × α)
  | [] => none
  | a :: l => some (l.foldl (fun mm x =>
      (if lt x mm.1 then x else mm.1, if lt x mm.2 then mm.2 else x)) (a, a))

theorem minmax_some {α : Type} (lt : α → α → Bool) (l : List α) (h : 1 ≤ l.length) :
    (minmax lt l).isSome = true := by
  cases l with
  | nil => simp at h
  | cons a l => rfl

theorem minmax_none_iff {α : Type} (lt : α → α → Bool) (l : List α) :
    minmax lt l = none ↔ l = [] := by
  cases l with
  | nil => simp [minmax]
  | cons a l => simp [minmax]

/-- `Iterator::min_by(|a, b| f(a).partial_cmp(&f(b)).unwrap())`:
`fold(first, |x, y| match compare(&x, &y) { Greater => y, _ => x })`; `cmp = none` is a NaN
reaching the `unwrap`. -/
def minByFold {α : Type} (cmp : α → α → Option Ordering) : α → List α → Outcome Unit α
  | best, [] => .ok best
  | best, x :: l =>
    match cmp best x with
    | none => .panic "three_template_points:partial_cmp"
    | some .gt => minByFold cmp x l
    | some _ => minByFold cmp best l

def minBy {α : Type} (cmp : α → α → Option Ordering) : List α → Outcome Unit (Option α)
  | [] => .ok none
  | a :: l =>
    match minByFold cmp a l with
    | .ok b => .ok (some b)
    | .err e => .err e
    | .panic s => .panic s

theorem minByFold_total {α : Type} (cmp : α → α → Option Ordering)
    (hall : ∀ a b, cmp a b ≠ none) : ∀ (l : List α) (best : α), ∃ b, minByFold cmp best l = .ok b := by
  intro l
  induction l with
  | nil => intro best; exact ⟨best, rfl⟩
  | cons x l ih =>
    intro best
    unfold minByFold
    cases hc : cmp best x with
    | none => exact absurd hc (hall _ _)
    | some o => cases o <;> simp only <;> first | exact ih x | exact ih best

/-- F3/F4: with at least one point and no NaN in the compared keys, `min_by(..).unwrap()`
returns a point. -/
theorem minBy_total {α : Type} (cmp : α → α → Option Ordering) (hall : ∀ a b, cmp a b ≠ none)
    (l : List α) (h : 1 ≤ l.length) : ∃ b, minBy cmp l = .ok (some b) := by
  cases l with
  | nil => simp at h
  | cons a l =>
    obtain ⟨b, hb⟩ := minByFold_total cmp hall l a
    exact ⟨b, by simp only [minBy]; rw [hb]⟩

/-- F3 is the only panic of `min_by`: it panics only with that site, and only if some
comparison met a NaN. -/
theorem minBy_panic_iff {α : Type} (cmp : α → α → Option Ordering) (l : List α) (s : String)
    (h : minBy cmp l = .panic s) :
    s = "three_template_points:partial_cmp" ∧ ∃ a b, cmp a b = none := by
  have key : ∀ (l : List α) (best : α), minByFold cmp best l = .panic s →
      s = "three_template_points:partial_cmp" ∧ ∃ a b, cmp a b = none := by
    intro l
    induction l with
    | nil => intro best h; simp [minByFold] at h
    | cons x l ih =>
      intro best h
      unfold minByFold at h
      cases hc : cmp best x with
      | none =>
        rw [hc] at h
        simp only [Outcome.panic.injEq] at h
        exact ⟨h.symm, best, x, hc⟩
      | some o =>
        rw [hc] at h
        cases o <;> simp only at h <;> first | exact ih x h | exact ih best h
  cases l with
  | nil => simp [minBy] at h
  | cons a l =>
    simp only [minBy] at h
    cases hf : minByFold cmp a l with
    | ok b => rw [hf] at h; cases h
    | err e => rw [hf] at h; cases h
    | panic s' =>
      rw [hf] at h
      simp only [Outcome.panic.injEq] at h
      subst h
      exact key l a hf

/-! ### Control-flow skeleton of `fit_cluster_to_helix` and its panic sites -/

/-- The float-valued ingredients of the fit, abstracted: the `<` on `p.r` used by
`minmax_by_key`, the `partial_cmp` of `|r − r_mid|` (`none` = a NaN operand), the exact
collinearity test on `(first, middle, last)`, and whether some evaluation of the cost function
by the minimiser yields a NaN (`assert!(!val.is_nan())`). -/
structure FitEnv (α : Type) where
  ltR : α → α → Bool
  cmpMid : α → α → Option Ordering
  collinear : α → α → α → Bool
  costNaN : Bool

/-- `assert!(len >= 3)`, `minmax(..).unwrap()`, `min_by(..unwrap()).unwrap()`, the collinearity
rejection, then the minimiser whose only own panic is the cost-function assert (argmin
contract for the rest, see the header). -/
def fitSkeleton {α : Type} (env : FitEnv α) (points : List α) : Outcome FitErr Unit :=
  need "fit:assert_len" (decide (3 ≤ points.length)) <|
  match minmax env.ltR points with
  | none => .panic "three_template_points:minmax"
  | some fl =>
    match minBy env.cmpMid points with
    | .panic s => .panic s
    | .err _ => .panic "unreachable"
    | .ok none => .panic "three_template_points:min_by"
    | .ok (some middle) =>
      if env.collinear fl.1 middle fl.2 then .err .noInitialParameters
      else if env.costNaN then .panic "track_fitting::cost_function:nan"
      else .ok ()

/-- `fit_sites`, first half: with at least 3 points (F1; guaranteed by `fit_assert_unreachable`),
no NaN in the compared `|r − r_mid|` (F3) and no NaN cost (F7), the fit returns a track or
`NoInitialParameters`; F2 and F4 are unreachable. -/
theorem fit_sites_total {α : Type} (env : FitEnv α) (points : List α) (h3 : 3 ≤ points.length)
    (hcmp : ∀ a b, env.cmpMid a b ≠ none) (hcost : env.costNaN = false) :
    fitSkeleton env points = .ok () ∨ fitSkeleton env points = .err .noInitialParameters := by
  unfold fitSkeleton
  rw [need_eq (by simpa using h3)]
  cases hmm : minmax env.ltR points with
  | none =>
    have := (minmax_none_iff env.ltR points).1 hmm
    subst this; simp at h3
  | some fl =>
    obtain ⟨mid, hmid⟩ := minBy_total env.cmpMid hcmp points (by omega)
    simp only [hmid, hcost]
    by_cases hc : env.collinear fl.1 mid fl.2 = true
    · right; simp [hc]
    · left; simp [hc]

/-- `fit_sites`, second half: with at least 3 points, a panic of the fit is F3 (a NaN reached
`partial_cmp().unwrap()`) or F7 (a NaN cost), nothing else. -/
theorem fit_sites_panic {α : Type} (env : FitEnv α) (points : List α) (h3 : 3 ≤ points.length)
    (s : String) (h : fitSkeleton env points = .panic s) :
    (s = "three_template_points:partial_cmp" ∧ ∃ a b, env.cmpMid a b = none) ∨
    (s = "track_fitting::cost_function:nan" ∧ env.costNaN = true) := by
  unfold fitSkeleton at h
  rw [need_eq (by simpa using h3)] at h
  cases hmm : minmax env.ltR points with
  | none =>
    have := (minmax_none_iff env.ltR points).1 hmm
    subst this; simp at h3
  | some fl =>
    rw [hmm] at h
    simp only at h
    cases hmb : minBy env.cmpMid points with
    | panic s' =>
      rw [hmb] at h
      simp only [Outcome.panic.injEq] at h
      subst h
      exact Or.inl (minBy_panic_iff _ _ _ hmb)
    | err e =>
      exfalso
      cases points with
      | nil => simp at h3
      | cons a l =>
        simp only [minBy] at hmb
        cases hf : minByFold env.cmpMid a l with
        | ok b => rw [hf] at hmb; cases hmb
        | panic s' => rw [hf] at hmb; cases hmb
        | err e' =>
          -- `minByFold` never produces `.err`
          have key : ∀ (l : List α) (best : α) (e : Unit), minByFold env.cmpMid best l ≠ .err e := by
            intro l
            induction l with
            | nil => intro best e h; simp [minByFold] at h
            | cons x l ih =>
              intro best e h
              unfold minByFold at h
              cases hc : env.cmpMid best x with
              | none => rw [hc] at h; cases h
              | some o => rw [hc] at h; cases o <;> simp only at h <;> first | exact ih x e h | exact ih best e h
          exact key l a e' hf
    | ok v =>
      rw [hmb] at h
      cases v with
      | none =>
        exfalso
        cases points with
        | nil => simp at h3
        | cons a l =>
          simp only [minBy] at hmb
          cases hf : minByFold env.cmpMid a l with
          | ok b => rw [hf] at hmb; cases hmb
          | panic s' => rw [hf] at hmb; cases hmb
          | err e' => rw [hf] at hmb; cases hmb
      | some mid =>
        simp only at h
        by_cases hc : env.collinear fl.1 mid fl.2 = true
        · simp [hc] at h
        · simp only [hc, Bool.false_eq_true, if_false] at h
          by_cases hn : env.costNaN = true
          · simp only [hn, if_true, Outcome.panic.injEq] at h
            exact Or.inr ⟨h.symm, hn⟩
          · simp [hn] at h

/-! ### `closest_t` stays in `[-π, π]` -/

/-- A float is `none` (NaN) or a value of a linearly ordered carrier; comparisons with NaN are
false, as in IEEE-754. -/
def fLt {K : Type} [LT K] [DecidableLT K] (a b : Option K) : Bool :=
  match a, b with
  | some x, some y => decide (x < y)
  | _, _ => false

/-- `f64::clamp(self, min, max)`: `if self < min { self = min } if self > max { self = max } self`
(the `assert!(min <= max)` is a hypothesis of the theorem; the code passes `-PI, PI`). -/
def clampF {K : Type} [LT K] [DecidableLT K] (x : Option K) (lo hi : K) : Option K :=
  if fLt (some hi) (if fLt x (some lo) then some lo else x) then some hi
  else (if fLt x (some lo) then some lo else x)

/-- `Helix::closest_t`: the circle branch (`|h| < EPSILON`) returns `atan2(det, dot)`
unclamped ("atan2 is already in [-pi, pi]"), the general branch clamps the Newton result. -/
def closestT {K : Type} [LT K] [DecidableLT K] (hSmall : Bool) (atan2Val newtonVal : Option K)
    (negPi pi : K) : Option K :=
  if hSmall then atan2Val else clampF newtonVal negPi pi

theorem clampF_range {K : Type} [LinearOrder K] (x : Option K) (lo hi t : K) (hle : lo ≤ hi)
    (h : clampF x lo hi = some t) : lo ≤ t ∧ t ≤ hi := by
  unfold clampF at h
  cases x with
  | none => simp [fLt] at h
  | some v =>
    by_cases h1 : v < lo
    · have h2 : ¬ hi < lo := not_lt.2 hle
      simp [fLt, h1, h2] at h
      subst h; exact ⟨le_refl _, hle⟩
    · by_cases h2 : hi < v
      · simp [fLt, h1, h2] at h
        subst h; exact ⟨hle, le_refl _⟩
      · simp [fLt, h1, h2] at h
        subst h; exact ⟨not_lt.1 h1, not_lt.1 h2⟩

/-- NaN passes through `clamp` (which is why the range statement is conditional). -/
theorem clampF_nan {K : Type} [LinearOrder K] (lo hi : K) : clampF (none : Option K) lo hi = none := by
  simp [clampF, fLt]

/-- C14 `closest_t_range`: when the value returned by `closest_t` is not NaN it lies in
`[-π, π]` — by the clamp in the general branch, and under the `atan2` range contract in the
circle branch. -/
theorem closest_t_range {K : Type} [LinearOrder K] (hSmall : Bool) (atan2Val newtonVal : Option K)
    (negPi pi t : K) (hpi : negPi ≤ pi)
    (hatan2 : ∀ v, atan2Val = some v → negPi ≤ v ∧ v ≤ pi)
    (h : closestT hSmall atan2Val newtonVal negPi pi = some t) : negPi ≤ t ∧ t ≤ pi := by
  unfold closestT at h
  cases hSmall with
  | true => exact hatan2 t (by simpa using h)
  | false => exact clampF_range newtonVal negPi pi t hpi (by simpa using h)

/-! ### Exact collinearity is rejected before `circle_through_three_points` divides by zero -/

section Collinear
variable {K : Type} [Field K] [LinearOrder K] [IsStrictOrderedRing K]

/-- The test of `three_template_points` (`first = 1`, `middle = 2`, `last = 3`):
`(last.x − first.x) * (middle.y − first.y) == (middle.x − first.x) * (last.y − first.y)`. -/
def collinearTest (x1 y1 x2 y2 x3 y3 : K) : Prop :=
  (x3 - x1) * (y2 - y1) = (x2 - x1) * (y3 - y1)

/-- Tail of `three_template_points`. -/
noncomputable def threeTemplate (x1 y1 x2 y2 x3 y3 : K) : Except FitErr Unit :=
  open Classical in
  if collinearTest x1 y1 x2 y2 x3 y3 then .error .noInitialParameters else .ok ()

/-- `num_complex` division `(a + bi) / (c + di)`. -/
noncomputable def cdiv (a b c d : K) : K × K :=
  ((a * c + b * d) / (c * c + d * d), (b * c - a * d) / (c * c + d * d))

/-- `w = (z3 − z1) / (z2 − z1)` of `circle_through_three_points(first, middle, last)`. -/
noncomputable def wOf (x1 y1 x2 y2 x3 y3 : K) : K × K := cdiv (x3 - x1) (y3 - y1) (x2 - x1) (y2 - y1)

/-- `w − conj w = (0, 2·Im w)`: the divisor of `c_prime`. -/
noncomputable def wMinusConj (x1 y1 x2 y2 x3 y3 : K) : K × K :=
  ((wOf x1 y1 x2 y2 x3 y3).1 - (wOf x1 y1 x2 y2 x3 y3).1,
   (wOf x1 y1 x2 y2 x3 y3).2 - -(wOf x1 y1 x2 y2 x3 y3).2)

theorem normSq_eq_zero (c d : K) : c * c + d * d = 0 ↔ c = 0 ∧ d = 0 := by
  constructor
  · intro h
    have hc : 0 ≤ c * c := mul_self_nonneg c
    have hd : 0 ≤ d * d := mul_self_nonneg d
    have h1 : c * c = 0 := by linarith
    have h2 : d * d = 0 := by linarith
    exact ⟨mul_self_eq_zero.1 h1, mul_self_eq_zero.1 h2⟩
  · rintro ⟨rfl, rfl⟩; ring

/-- C14 `collinear_rejected`.
(1) `three_template_points` returns `NoInitialParameters` exactly when the two cross-product
    expressions are equal.
(2) When it does not, both complex divisions of `circle_through_three_points` have a non-zero
    divisor: `z2 − z1 ≠ 0` and `w − conj w ≠ 0`.
(3) Conversely the test "exactly matches a fail mode": if the expressions are equal then
    `z2 = z1` or `w − conj w = 0` — the division that would produce `0/0` or `x/0`. -/
theorem collinear_rejected (x1 y1 x2 y2 x3 y3 : K) :
    (threeTemplate x1 y1 x2 y2 x3 y3 = .error .noInitialParameters
        ↔ collinearTest x1 y1 x2 y2 x3 y3) ∧
    (¬ collinearTest x1 y1 x2 y2 x3 y3 →
        (x2 - x1) * (x2 - x1) + (y2 - y1) * (y2 - y1) ≠ 0 ∧
        wMinusConj x1 y1 x2 y2 x3 y3 ≠ (0, 0)) ∧
    (collinearTest x1 y1 x2 y2 x3 y3 →
        (x2 - x1 = 0 ∧ y2 - y1 = 0) ∨ wMinusConj x1 y1 x2 y2 x3 y3 = (0, 0)) := by
  refine ⟨?_, ?_, ?_⟩
  · unfold threeTemplate
    by_cases h : collinearTest x1 y1 x2 y2 x3 y3
    · simp [h]
    · simp [h]
  · intro hn
    have hden : (x2 - x1) * (x2 - x1) + (y2 - y1) * (y2 - y1) ≠ 0 := by
      intro h0
      obtain ⟨hx, hy⟩ := (normSq_eq_zero _ _).1 h0
      apply hn
      unfold collinearTest
      rw [hx, hy]; ring
    refine ⟨hden, ?_⟩
    intro hw
    have h2 : (wOf x1 y1 x2 y2 x3 y3).2 - -(wOf x1 y1 x2 y2 x3 y3).2 = 0 := by
      have := congrArg Prod.snd hw
      simpa [wMinusConj] using this
    have him : (wOf x1 y1 x2 y2 x3 y3).2 = 0 := by linarith
    simp only [wOf, cdiv] at him
    rw [div_eq_zero_iff] at him
    rcases him with him | him
    · apply hn
      unfold collinearTest
      linarith
    · exact hden him
  · intro hc
    by_cases hden : (x2 - x1) * (x2 - x1) + (y2 - y1) * (y2 - y1) = 0
    · left; exact (normSq_eq_zero _ _).1 hden
    · right
      unfold collinearTest at hc
      have hnum : (y3 - y1) * (x2 - x1) - (x3 - x1) * (y2 - y1) = 0 := by linarith
      have him : (wOf x1 y1 x2 y2 x3 y3).2 = 0 := by
        simp only [wOf, cdiv]
        rw [hnum, zero_div]
      simp only [wMinusConj, him]
      simp

/-- Non-vacuity: three points of the unit circle are not collinear; three points of a line are. -/
example : ¬ collinearTest (1 : ℚ) 0 0 1 (-1) 0 := by unfold collinearTest; norm_num
example : collinearTest (1 : ℚ) 1 2 2 3 3 := by unfold collinearTest; norm_num

end Collinear

end AlphaG.C14
