import AlphaG.Model.Chunk
import AlphaG.Lemmas.Bytes
import AlphaG.Lemmas.CrcChunk
/-
C03 — PWB chunks are integrity-checked: both CRC-32C words bind every accepted byte; and the
chunk part of C01 (totality of `Chunk::try_from`, of the accessors that unwrap, and of the
`BoardId`/`AfterId` conversions).

Error patterns are byte strings `e` of the chunk's length, applied with `xorBytes`; their bit
string is `bitsOf e` (byte 0 first, least significant bit of each byte first — the order in
which the CRC register consumes the slice), so bit `8*i + j` is bit `j` of byte `i`.
-/
namespace AlphaG.Chunk
open AlphaG.Crc

/-! ### Specification (from the property text and the documented layout) -/

/-- "the (inverted) CRC-32C": bitwise complement of the 32-bit CRC value. -/
def invertedCrc32c (m : List UInt8) : Nat := 0xFFFFFFFF - crc32c m

/-- Device ids of the known PadWing boards (generated from `PADWING_BOARDS`). -/
def knownDeviceIds : List Nat := AlphaG.Generated.padwingBoards.map (fun t => t.2.2)

/-- A PadWing chunk is accepted only if its length is a multiple of 4 and at least 28, the
device id and chip id are known, flags are 0 or 1, the declared payload length matches the
slice up to at most 3 zero padding bytes, and the two stored CRC-32C words equal the inverted
CRC-32C of the 16 header bytes and of the padded payload. -/
structure ChunkWellFormed (b : List UInt8) : Prop where
  lenMul4 : b.length % 4 = 0
  lenMin : 28 ≤ b.length
  deviceKnown : leAt b 0 4 ∈ knownDeviceIds
  chipKnown : byteAt b 10 ≤ 3
  flagsKnown : byteAt b 11 ≤ 1
  lengthWindow : 24 + leAt b 14 2 ≤ b.length ∧ b.length ≤ 24 + leAt b 14 2 + 3
  paddingZero : ∀ i, 20 + leAt b 14 2 ≤ i → i < b.length - 4 → byteAt b i = 0
  headerCrc : leAt b 16 4 = invertedCrc32c (b.take 16)
  payloadCrc : leAt b (b.length - 4) 4 = invertedCrc32c ((b.drop 20).take (b.length - 24))

/-- The chunk the documented layout denotes for a slice. -/
def fields (b : List UInt8) : Chunk :=
  { deviceId := leAt b 0 4, packetSequence := leAt b 4 4, channelSequence := leAt b 8 2,
    channelId := byteAt b 10, flags := byteAt b 11, chunkId := leAt b 12 2,
    payload := (b.drop 20).take (leAt b 14 2) }

/-! ### Acceptance, fields, totality -/

theorem crcInv_eq (m : List UInt8) : crcInv m = invertedCrc32c m := by
  unfold crcInv invertedCrc32c crc32c
  rw [BitVec.toNat_not]

theorem boardOfDeviceId_isNone (id : Nat) :
    (boardOfDeviceId id).isNone = true ↔ id ∉ knownDeviceIds := by
  unfold boardOfDeviceId knownDeviceIds
  rw [Option.isNone_iff_eq_none, List.find?_eq_none]
  simp only [List.mem_map, not_exists, not_and, beq_iff_eq]

theorem afterOfNat_isNone (n : Nat) : (afterOfNat n).isNone = true ↔ 3 < n := by
  unfold afterOfNat
  constructor
  · intro h
    split at h; · simp at h
    split at h; · simp at h
    split at h; · simp at h
    split at h; · simp at h
    omega
  · intro h
    have h0 : ¬ n = 0 := by omega
    have h1 : ¬ n = 1 := by omega
    have h2 : ¬ n = 2 := by omega
    have h3 : ¬ n = 3 := by omega
    simp [h0, h1, h2, h3]

theorem decode_ok_iff (b : List UInt8) (c : Chunk) :
    decodeChunk b = .ok c ↔ ChunkWellFormed b ∧ c = fields b := by
  have hL := leAt_lt b 14 2
  unfold decodeChunk
  simp only [ite_err_eq_ok, needBytes_eq_ok, need_eq_ok, ok_eq_ok, decide_eq_true_eq,
    boardOfDeviceId_isNone, afterOfNat_isNone, crcInv_eq, padded, padding, Bool.not_eq_true,
    ne_eq, Decidable.not_not]
  constructor
  · intro h
    obtain ⟨c1, c2, c3, c4, c5, c6, c7, c8, c9, c10, c11, c12, c13, c14, c15, c16, c17, c18, c19, c20,
      c21, c22, c23, c24, c25, c26, hp⟩ := h
    subst hp
    have hz := (any_ne_zero_eq_false_iff b (20 + leAt b 14 2) (b.length - 4 - (20 + leAt b 14 2))
      (by omega)).1 c23
    refine ⟨⟨by omega, by omega, c4, by omega, by omega, by omega, ?_, c18, ?_⟩, rfl⟩
    · intro i h1 h2; exact hz i h1 (by omega)
    · rw [show b.length - 24 = b.length - 4 - 20 by omega]; exact c26
  · rintro ⟨⟨w1, w2, w3, w4, w5, w6, w7, w8, w9⟩, rfl⟩
    have hz := (any_ne_zero_eq_false_iff b (20 + leAt b 14 2) (b.length - 4 - (20 + leAt b 14 2))
      (by omega)).2 (fun i h1 h2 => w7 i h1 (by omega))
    rw [show b.length - 24 = b.length - 4 - 20 by omega] at w9
    refine ⟨by omega, by omega, by omega, w3, by omega, by omega, by omega, by omega,
      by omega, by omega, by omega, by omega, by omega, by omega, by omega, by omega, by omega,
      w8, by omega, by omega, by omega, by omega, hz, by omega, by omega, w9, rfl⟩

/-- C03 (acceptance): a slice is accepted iff it is a well-formed chunk. -/
theorem chunk_accept_iff (b : List UInt8) : (∃ c, decodeChunk b = .ok c) ↔ ChunkWellFormed b := by
  constructor
  · rintro ⟨c, hc⟩; exact ((decode_ok_iff b c).1 hc).1
  · intro h; exact ⟨fields b, (decode_ok_iff b _).2 ⟨h, rfl⟩⟩

/-- C03 (fields): the fields of an accepted chunk are the documented little-endian fields. -/
theorem chunk_fields (b : List UInt8) (c : Chunk) (h : decodeChunk b = .ok c) : c = fields b :=
  ((decode_ok_iff b c).1 h).2

/-- C01 (totality): no byte string makes `Chunk::try_from` panic (no slice index out of range,
no `usize` underflow in `len - 24`, `max - 3`, `len - 4`). -/
theorem chunk_total (b : List UInt8) : NoPanic (decodeChunk b) := by
  unfold decodeChunk
  apply noPanic_ite_err; intro h1
  apply noPanic_ite_err; intro h2
  have hL := leAt_lt b 14 2
  repeat (first
    | exact noPanic_ok _
    | exact noPanic_err _
    | (apply noPanic_ite_err; intro _)
    | apply noPanic_needBytes (by omega)
    | (apply noPanic_need (by simp only [decide_eq_true_eq]; omega)))

/-- C03 (length): slices shorter than 28 bytes or not a multiple of 4 are rejected as incomplete. -/
theorem chunk_len (b : List UInt8) (h : b.length < 28 ∨ b.length % 4 ≠ 0) :
    decodeChunk b = .err .incompleteSlice := by
  unfold decodeChunk
  rcases h with h | h
  · simp [h]
  · by_cases h' : b.length < 28 <;> simp [h, h']

/-- Accepted payload lengths: 1..=65535, and the slice is header + payload + padding to a
multiple of 4 + trailer. -/
theorem chunk_payload_len (b : List UInt8) (c : Chunk) (h : decodeChunk b = .ok c) :
    1 ≤ c.payload.length ∧ c.payload.length ≤ 65535
      ∧ b.length = 24 + c.payload.length + padLen c.payload.length := by
  obtain ⟨⟨w1, w2, w3, w4, w5, w6, w7, w8, w9⟩, rfl⟩ := (decode_ok_iff b c).1 h
  have hL := leAt_lt b 14 2
  have hplen : ((b.drop 20).take (leAt b 14 2)).length = leAt b 14 2 := by
    simp only [List.length_take, List.length_drop]; omega
  simp only [fields, hplen, padLen]
  split <;> omega

/-! ### Round trip and accessors -/

theorem padLen_eq (n L : Nat) (h4 : n % 4 = 0) (h1 : L ≤ n) (h2 : n ≤ L + 3) : padLen L = n - L := by
  unfold padLen; split <;> omega

theorem headerBytes_fields (b : List UInt8) (wf : ChunkWellFormed b) :
    headerBytes (fields b) = b.take 16 := by
  obtain ⟨w1, w2, w3, w4, w5, w6, w7, w8, w9⟩ := wf
  have hplen : ((b.drop 20).take (leAt b 14 2)).length = leAt b 14 2 := by
    simp only [List.length_take, List.length_drop]; omega
  unfold headerBytes fields
  simp only [hplen]
  rw [leBytes_leAt b 0 4 (by omega), leBytes_leAt b 4 4 (by omega), leBytes_leAt b 8 2 (by omega),
    leBytes_one b 10 (by omega), leBytes_one b 11 (by omega), leBytes_leAt b 12 2 (by omega),
    leBytes_leAt b 14 2 (by omega)]
  conv => rhs; rw [← List.drop_zero (l := b)]
  rw [show (16 : Nat) = 4 + (4 + (2 + (1 + (1 + (2 + 2))))) by rfl]
  simp only [take_drop_split, List.append_assoc]

theorem paddedPayload_fields (b : List UInt8) (wf : ChunkWellFormed b) :
    paddedPayload (fields b) = (b.drop 20).take (b.length - 24) := by
  obtain ⟨w1, w2, w3, w4, w5, w6, w7, w8, w9⟩ := wf
  have hplen : ((b.drop 20).take (leAt b 14 2)).length = leAt b 14 2 := by
    simp only [List.length_take, List.length_drop]; omega
  unfold paddedPayload fields
  simp only [hplen]
  rw [padLen_eq (b.length - 24) (leAt b 14 2) (by omega) (by omega) (by omega)]
  have hz := (eq_replicate_zero_iff b (20 + leAt b 14 2) (b.length - 24 - leAt b 14 2) (by omega)).2
    (fun i h1 h2 => w7 i h1 (by omega))
  rw [← hz]
  have := take_drop_split b 20 (leAt b 14 2) (b.length - 24 - leAt b 14 2)
  rw [show leAt b 14 2 + (b.length - 24 - leAt b 14 2) = b.length - 24 by omega] at this
  exact this.symm

theorem headerCrcVal_fields (b : List UInt8) (wf : ChunkWellFormed b) :
    headerCrcVal (fields b) = leAt b 16 4 := by
  unfold headerCrcVal; rw [headerBytes_fields b wf, crcInv_eq, wf.headerCrc]

theorem payloadCrcVal_fields (b : List UInt8) (wf : ChunkWellFormed b) :
    payloadCrcVal (fields b) = leAt b (b.length - 4) 4 := by
  unfold payloadCrcVal; rw [paddedPayload_fields b wf, crcInv_eq, wf.payloadCrc]

/-- C03 (round trip): re-encoding an accepted chunk reproduces the input bytes exactly —
padding and both CRC words included: no byte of an accepted chunk is unconstrained. -/
theorem chunk_roundtrip (b : List UInt8) (c : Chunk) (h : decodeChunk b = .ok c) :
    encodeChunk c = b := by
  obtain ⟨wf, rfl⟩ := (decode_ok_iff b c).1 h
  have w1 := wf.lenMul4; have w2 := wf.lenMin
  unfold encodeChunk
  rw [headerCrcVal_fields b wf, payloadCrcVal_fields b wf, headerBytes_fields b wf,
    paddedPayload_fields b wf, leBytes_leAt b 16 4 (by omega),
    leBytes_leAt b (b.length - 4) 4 (by omega)]
  have hend : b.drop (b.length - 4 + 4) = [] := List.drop_eq_nil_of_le (by omega)
  conv => rhs; rw [← List.take_append_drop 16 b, drop_split b 16 4,
    drop_split b 20 (b.length - 24)]
  rw [show 20 + (b.length - 24) = b.length - 4 by omega]
  conv => rhs; rw [drop_split b (b.length - 4) 4, hend]
  simp only [List.append_assoc, List.append_nil]

/-- `header_crc32c()` of a decoded chunk recomputes the stored header word (and its
`u16::try_from(payload.len()).unwrap()` does not panic). -/
theorem chunk_header_crc32c (b : List UInt8) (c : Chunk) (h : decodeChunk b = .ok c) :
    headerCrc32c c = .ok (leAt b 16 4) := by
  have hl := (chunk_payload_len b c h).2.1
  obtain ⟨wf, rfl⟩ := (decode_ok_iff b c).1 h
  unfold headerCrc32c
  rw [need_eq (by simp only [decide_eq_true_eq]; omega), headerCrcVal_fields b wf]

/-- `payload_crc32c()` of a decoded chunk recomputes the stored payload word. -/
theorem chunk_payload_crc32c (b : List UInt8) (c : Chunk) (h : decodeChunk b = .ok c) :
    payloadCrc32c c = .ok (leAt b (b.length - 4) 4) := by
  obtain ⟨wf, rfl⟩ := (decode_ok_iff b c).1 h
  unfold payloadCrc32c
  rw [payloadCrcVal_fields b wf]

/-- `board_id()` of a decoded chunk: the `unwrap` is safe and the board has the chunk's id. -/
theorem chunk_board_id (b : List UInt8) (c : Chunk) (h : decodeChunk b = .ok c) :
    ∃ t, boardId c = .ok t ∧ t ∈ AlphaG.Generated.padwingBoards ∧ t.2.2 = leAt b 0 4 := by
  obtain ⟨wf, rfl⟩ := (decode_ok_iff b c).1 h
  have hk := wf.deviceKnown
  unfold boardId fields
  simp only
  cases hf : boardOfDeviceId (leAt b 0 4) with
  | none =>
    have := (boardOfDeviceId_isNone (leAt b 0 4)).1 (by rw [hf]; rfl)
    exact absurd hk this
  | some t =>
    unfold boardOfDeviceId at hf
    have hm := List.mem_of_find?_eq_some hf
    have hp := List.find?_some hf
    exact ⟨t, rfl, hm, by simpa using hp⟩

/-- `after_id()` of a decoded chunk: the `unwrap` is safe. -/
theorem chunk_after_id (b : List UInt8) (c : Chunk) (h : decodeChunk b = .ok c) :
    ∃ a, afterId c = .ok a ∧ afterOfNat (byteAt b 10) = some a := by
  obtain ⟨wf, rfl⟩ := (decode_ok_iff b c).1 h
  have hk := wf.chipKnown
  unfold afterId fields
  simp only
  cases hf : afterOfNat (byteAt b 10) with
  | none =>
    have := (afterOfNat_isNone (byteAt b 10)).1 (by rw [hf]; rfl)
    omega
  | some a => exact ⟨a, rfl, rfl⟩

/-- C01 (accessors): no accessor of a decoded chunk panics. -/
theorem chunk_accessors_total (b : List UInt8) (c : Chunk) (h : decodeChunk b = .ok c) :
    NoPanic (boardId c) ∧ NoPanic (afterId c) ∧ NoPanic (headerCrc32c c)
      ∧ NoPanic (payloadCrc32c c) := by
  obtain ⟨t, ht, -⟩ := chunk_board_id b c h
  obtain ⟨a, ha, -⟩ := chunk_after_id b c h
  rw [ht, ha, chunk_header_crc32c b c h, chunk_payload_crc32c b c h]
  exact ⟨noPanic_ok _, noPanic_ok _, noPanic_ok _, noPanic_ok _⟩

/-! ### `BoardId` / `AfterId` conversions (C01): total by construction (`Option`-valued,
a bounded table scan); what they accept. -/

theorem afterOfNat_some_iff (n : Nat) : (afterOfNat n).isSome = true ↔ n ≤ 3 := by
  have := afterOfNat_isNone n
  cases h : afterOfNat n <;> simp [h] at this ⊢ <;> omega

theorem boardOfDeviceId_some_iff (id : Nat) :
    (boardOfDeviceId id).isSome = true ↔ id ∈ knownDeviceIds := by
  have := boardOfDeviceId_isNone id
  cases h : boardOfDeviceId id <;> simp [h] at this ⊢ <;> exact this

theorem afterOfChar_some_iff (ch : Char) :
    (afterOfChar ch).isSome = true ↔ ch = 'A' ∨ ch = 'B' ∨ ch = 'C' ∨ ch = 'D' := by
  unfold afterOfChar
  by_cases hA : ch = 'A'
  · simp [hA]
  by_cases hB : ch = 'B'
  · simp [hB]
  by_cases hC : ch = 'C'
  · simp [hC]
  by_cases hD : ch = 'D'
  · simp [hD]
  simp [hA, hB, hC, hD]

/-! ### Error detection -/

/-- Both CRC regions of an accepted chunk have zero residue: the header region is bytes
0..20 (header + stored header word), the payload region is bytes 20..len (payload, padding,
stored payload word). Both are fixed by the slice length alone — the declared length field
does not move them. -/
theorem accepted_residues (b : List UInt8) (c : Chunk) (h : decodeChunk b = .ok c) :
    run ONES (bitsOf (b.take 20)) = 0#32 ∧ run ONES (bitsOf (b.drop 20)) = 0#32
      ∧ 28 ≤ b.length ∧ b.length ≤ 65560 := by
  obtain ⟨⟨w1, w2, w3, w4, w5, w6, w7, w8, w9⟩, rfl⟩ := (decode_ok_iff b c).1 h
  have hL := leAt_lt b 14 2
  refine ⟨?_, ?_, w2, by omega⟩
  · apply residue_of_stored (b.take 20) 16 (by simp; omega)
    have e1 : leAt (b.take 20) 16 4 = leAt b 16 4 := leAt_take b 20 16 4 (by omega)
    have e2 : (b.take 20).take 16 = b.take 16 := by
      rw [List.take_take]; simp
    rw [e1, e2, crcInv_eq]; exact w8
  · apply residue_of_stored (b.drop 20) (b.length - 24) (by simp; omega)
    have e1 : leAt (b.drop 20) (b.length - 24) 4 = leAt b (b.length - 4) 4 := by
      rw [leAt_drop, show 20 + (b.length - 24) = b.length - 4 by omega]
    rw [e1, crcInv_eq]; exact w9

/-- The core of every detection claim: if an accepted chunk xor an error pattern of the same
length is accepted again, the pattern has zero residue in both CRC regions (linearity). -/
theorem error_residues (b e : List UInt8) (c c' : Chunk) (hlen : e.length = b.length)
    (h : decodeChunk b = .ok c) (h' : decodeChunk (xorBytes b e) = .ok c') :
    run 0#32 ((bitsOf e).take 160) = 0#32 ∧ run 0#32 ((bitsOf e).drop 160) = 0#32 := by
  obtain ⟨r1, r2, -, -⟩ := accepted_residues b c h
  obtain ⟨r1', r2', -, -⟩ := accepted_residues _ c' h'
  have hb : (bitsOf b).length = (bitsOf e).length := by rw [length_bitsOf, length_bitsOf, hlen]
  rw [bitsOf_take, bitsOf_xorBytes, List.take_zipWith] at r1'
  rw [bitsOf_drop, bitsOf_xorBytes, List.drop_zipWith] at r2'
  rw [bitsOf_take] at r1
  rw [bitsOf_drop] at r2
  have x1 := run_xor ((bitsOf b).take (8 * 20)) ((bitsOf e).take (8 * 20)) ONES 0#32
    (by simp only [List.length_take]; omega)
  have x2 := run_xor ((bitsOf b).drop (8 * 20)) ((bitsOf e).drop (8 * 20)) ONES 0#32
    (by simp only [List.length_drop]; omega)
  rw [BitVec.xor_zero, r1', r1, BitVec.zero_xor] at x1
  rw [BitVec.xor_zero, r2', r2, BitVec.zero_xor] at x2
  exact ⟨x1.symm, x2.symm⟩

/-- C03 (odd weight): flipping any odd number of bits (in particular 1 or 3) anywhere in an
accepted chunk — header fields, declared length, padding, either CRC word — is rejected. -/
theorem detect_odd (b e : List UInt8) (c : Chunk) (h : decodeChunk b = .ok c)
    (hlen : e.length = b.length) (hodd : (bitsOf e).count true % 2 = 1) :
    ∀ c', decodeChunk (xorBytes b e) ≠ .ok c' := by
  intro c' h'
  obtain ⟨t, d⟩ := error_residues b e c c' hlen h h'
  have hc : ((bitsOf e).take 160).count true + ((bitsOf e).drop 160).count true
      = (bitsOf e).count true := by
    rw [← List.count_append, List.take_append_drop]
  by_cases ht : ((bitsOf e).take 160).count true % 2 = 1
  · exact run_zero_count_odd _ ht t
  · exact run_zero_count_odd _ (by omega) d

/-- C03 (1 or 3 bits), the wording of the property. -/
theorem detect_one_or_three (b e : List UInt8) (c : Chunk) (h : decodeChunk b = .ok c)
    (hlen : e.length = b.length)
    (hw : (bitsOf e).count true = 1 ∨ (bitsOf e).count true = 3) :
    ∀ c', decodeChunk (xorBytes b e) ≠ .ok c' :=
  detect_odd b e c h hlen (by omega)

/-- C03 (bursts): any non-zero error confined to ≤ 32 contiguous bits, at any bit offset —
inside a field, inside a CRC word, or straddling the header / header-CRC / payload /
payload-CRC boundaries — is rejected. -/
theorem detect_burst32 (b e : List UInt8) (c : Chunk) (h : decodeChunk b = .ok c)
    (hlen : e.length = b.length) (a z : Nat) (bs : List Bool)
    (hshape : bitsOf e = List.replicate a false ++ bs ++ List.replicate z false)
    (hbs : bs.length ≤ 32) (hne : true ∈ bs) :
    ∀ c', decodeChunk (xorBytes b e) ≠ .ok c' := by
  intro c' h'
  obtain ⟨t, d⟩ := error_residues b e c c' hlen h h'
  rw [hshape] at t d
  have := burst_split_zero 160 a z bs hbs t d true hne
  cases this

/-- C03 (2 bits): flipping any two bits of an accepted chunk is rejected. Two bits in
different CRC regions are two single-bit errors; two bits in one region are at distance
< 524 320 bits, below the order of x modulo the generator (`no_return`, 16 kernel-evaluated
orbit segments). Full strength: no bound on the payload beyond the format's own 65535. -/
theorem detect_two (b e : List UInt8) (c : Chunk) (h : decodeChunk b = .ok c)
    (hlen : e.length = b.length) (hw : (bitsOf e).count true = 2) :
    ∀ c', decodeChunk (xorBytes b e) ≠ .ok c' := by
  intro c' h'
  obtain ⟨t, d⟩ := error_residues b e c c' hlen h h'
  obtain ⟨-, -, hmin, hmax⟩ := accepted_residues b c h
  have hc : ((bitsOf e).take 160).count true + ((bitsOf e).drop 160).count true
      = (bitsOf e).count true := by
    rw [← List.count_append, List.take_append_drop]
  have hbits : (bitsOf e).length = 8 * b.length := by rw [length_bitsOf, hlen]
  by_cases ht : ((bitsOf e).take 160).count true = 1
  · exact run_zero_count_odd _ (by omega) t
  · by_cases ht2 : ((bitsOf e).take 160).count true = 2
    · exact run_zero_count_two _ ht2 (by simp only [List.length_take]; omega) t
    · have hd2 : ((bitsOf e).drop 160).count true = 2 := by omega
      exact run_zero_count_two _ hd2 (by simp only [List.length_drop]; omega) d

/-- C03 (summary): changing any 1 to 3 bits of an accepted chunk always yields a rejection. -/
theorem detect_upto3 (b e : List UInt8) (c : Chunk) (h : decodeChunk b = .ok c)
    (hlen : e.length = b.length)
    (hw : 1 ≤ (bitsOf e).count true ∧ (bitsOf e).count true ≤ 3) :
    ∀ c', decodeChunk (xorBytes b e) ≠ .ok c' := by
  by_cases h2 : (bitsOf e).count true = 2
  · exact detect_two b e c h hlen h2
  · exact detect_odd b e c h hlen (by omega)

/-! ### Non-vacuity: a concrete accepted chunk (board "00", chip D, end-of-message, payload
`01 02 03` + one padding byte) and concrete error patterns satisfying the hypotheses. -/

def exampleChunk : List UInt8 :=
  [236, 40, 255, 135, 1, 0, 0, 0, 2, 0, 3, 1, 5, 0, 3, 0, 204, 49, 212, 88, 1, 2, 3, 0, 20, 228, 85, 17]

theorem exampleChunk_ok : decodeChunk exampleChunk = .ok (fields exampleChunk) := by
  decide +kernel

example : ChunkWellFormed exampleChunk := (chunk_accept_iff _).1 ⟨_, exampleChunk_ok⟩
example : encodeChunk (fields exampleChunk) = exampleChunk := by decide +kernel

/-- bit 117 (in the declared-length field) flipped -/
def exampleFlip1 : List UInt8 := [0, 0, 0, 0, 0, 0, 0, 0, 0, 0, 0, 0, 0, 0, 32, 0, 0, 0, 0, 0, 0, 0, 0, 0, 0, 0, 0, 0]
/-- bits 3 (device id) and 200 (payload CRC word) flipped -/
def exampleFlip2 : List UInt8 := [8, 0, 0, 0, 0, 0, 0, 0, 0, 0, 0, 0, 0, 0, 0, 0, 0, 0, 0, 0, 0, 0, 0, 0, 0, 1, 0, 0]
/-- bits 170 and 190 (both in the payload region) flipped -/
def exampleFlip2' : List UInt8 := [0, 0, 0, 0, 0, 0, 0, 0, 0, 0, 0, 0, 0, 0, 0, 0, 0, 0, 0, 0, 0, 4, 0, 64, 0, 0, 0, 0]
/-- a burst of 32 bits starting at bit 140: straddles the header CRC word and the payload -/
def exampleBurst : List UInt8 := [0, 0, 0, 0, 0, 0, 0, 0, 0, 0, 0, 0, 0, 0, 0, 0, 0, 48, 66, 0, 3, 8, 0, 0, 0, 0, 0, 0]

example : ∀ c', decodeChunk (xorBytes exampleChunk exampleFlip1) ≠ .ok c' :=
  detect_odd _ _ _ exampleChunk_ok rfl (by decide)
example : ∀ c', decodeChunk (xorBytes exampleChunk exampleFlip2) ≠ .ok c' :=
  detect_two _ _ _ exampleChunk_ok rfl (by decide)
example : ∀ c', decodeChunk (xorBytes exampleChunk exampleFlip2') ≠ .ok c' :=
  detect_two _ _ _ exampleChunk_ok rfl (by decide)
example : ∀ c', decodeChunk (xorBytes exampleChunk exampleBurst) ≠ .ok c' :=
  detect_burst32 _ _ _ exampleChunk_ok rfl 140 52
    [true, true, false, false, false, true, false, false, false, false, true, false, false, false,
     false, false, false, false, false, false, true, true, false, false, false, false, false, false,
     false, false, false, true]
    (by decide +kernel) (by decide) (by decide)

end AlphaG.Chunk
