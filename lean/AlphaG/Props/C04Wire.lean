import AlphaG.Props.C04Complete
import AlphaG.Props.C03Converse
import AlphaG.Model.EventChunks
/-
C03 ∘ C04 on the wire: chunk field tuples within the documented widths, encoded to bytes
(`encodeChunk`: header, both CRC-32C words, zero padding), delivered in any order, decoded bank by
bank and reassembled (`pwbFromChunkBytes`, the composition the event builder runs) give exactly the
packet that the concatenation of the payloads in id order decodes to. No byte-level or ordering
condition beyond the documented ones can make a correct transmission fail.
-/
namespace AlphaG
open Chunk Pwb

theorem decodeAll_encode (cs : List Chunk.Chunk) (hw : ∀ c ∈ cs, WfChunk c) :
    decodeAll (cs.map encodeChunk) = .ok (cs.map toChunkV) := by
  induction cs with
  | nil => rfl
  | cons c t ih =>
    have h1 := chunk_encode_decode c (hw c (by simp))
    have h2 := ih (fun x hx => hw x (by simp [hx]))
    simp only [List.map_cons, decodeAll, h1, h2]

theorem toChunkV_valid (c : Chunk.Chunk) (h : WfChunk c) : (toChunkV c).Valid := by
  obtain ⟨hd, _, _, hch, hfl, hci, _, hl⟩ := h
  refine ⟨?_, hch, hfl, hci, by simp only [toChunkV]; omega⟩
  have := (Chunk.boardOfDeviceId_some_iff c.deviceId).2 hd
  exact this

/-- C03 ∘ C04 (wire transport). -/
theorem wire_transport (cs l : List Chunk.Chunk) (p : PwbPacket) (hp : cs.Perm l)
    (hw : ∀ c ∈ cs, WfChunk c)
    (hs : (cs.map toChunkV).Pairwise (fun a b => a.chunkId ≤ b.chunkId)) (d k : Nat)
    (hdev : ∀ c ∈ cs, c.deviceId = d) (hchip : ∀ c ∈ cs, c.channelId = k)
    (g : SortedGood (cs.map toChunkV))
    (hd : decodePwb ((cs.map toChunkV).flatMap (·.payload)) = .ok p) :
    pwbFromChunkBytes (l.map encodeChunk) = .ok p := by
  have hwl : ∀ c ∈ l, WfChunk c := fun c hc => hw c (hp.mem_iff.2 hc)
  have hr := reassemble_of_sorted_perm (cs.map toChunkV) (l.map toChunkV) p (hp.map _) hs
    (by intro c hc; obtain ⟨x, hx, rfl⟩ := List.mem_map.1 hc; exact toChunkV_valid x (hw x hx))
    d k
    (by intro c hc; obtain ⟨x, hx, rfl⟩ := List.mem_map.1 hc; exact hdev x hx)
    (by intro c hc; obtain ⟨x, hx, rfl⟩ := List.mem_map.1 hc; exact hchip x hx)
    g hd
  simp only [pwbFromChunkBytes, decodeAll_encode l hwl, hr]

/-! ### Non-vacuity -/

def kk (i fl : Nat) (p : List UInt8) : Chunk.Chunk :=
  { deviceId := 2281646316, packetSequence := 7, channelSequence := 1, channelId := 3, flags := fl,
    chunkId := i, payload := p }
def k0 : Chunk.Chunk := kk 0 0 (docPacket.take 40)
def k1 : Chunk.Chunk := kk 1 0 ((docPacket.drop 40).take 40)
def k2 : Chunk.Chunk := kk 2 1 (docPacket.drop 80)

theorem kk_wf : ∀ c ∈ [k0, k1, k2], WfChunk c := by
  intro c hc
  simp only [List.mem_cons, List.mem_nil_iff, or_false] at hc
  rcases hc with rfl | rfl | rfl <;>
    exact ⟨by decide +kernel, by decide, by decide, by decide, by decide, by decide,
      by decide +kernel, by decide +kernel⟩

/-- Non-vacuity of `wire_transport`: the three-chunk example message, encoded to chunk bytes and
delivered out of order, decodes and reassembles to the documented packet. -/
example : pwbFromChunkBytes ([k2, k0, k1].map encodeChunk) = .ok (Pwb.fields docPacket) :=
  wire_transport [k0, k1, k2] [k2, k0, k1] _ (by decide +kernel) kk_wf (by decide +kernel)
    2281646316 3 (by decide +kernel) (by decide +kernel)
    ⟨by decide +kernel, by decide, by decide +kernel, by decide +kernel, by decide +kernel⟩
    (by decide +kernel)

end AlphaG
