import AlphaG.Model.Chronobox
import AlphaG.Lemmas.Bytes
import AlphaG.Lemmas.Chronobox
import AlphaG.Lemmas.ChronoboxRaw
/-
C07 — Chronobox FIFO parsing is faithful, resumable and split-invariant
(and the chronobox part of C01: totality and progress).

The specification (`specWord`, `Item`, `IsParse`) is written from the property text on
*fields* of the 32-bit little-endian word (`/`, `%`), independently of the parser model, which
uses the code's masks and the code's control flow.
-/
namespace AlphaG.Chronobox

/-! ## Specification -/

/-- The 32-bit little-endian value of a 4-byte FIFO word. -/
def word32 (b0 b1 b2 b3 : UInt8) : Nat := leAt [b0, b1, b2, b3] 0 4

/-- A word is an entry when its top byte is `0x80 | channel` with `channel < 59` (timestamp)
or `0xFF` (wrap-around marker). -/
def IsEntryWord (w : Nat) : Prop :=
  (0x80 ≤ w / 2 ^ 24 ∧ w / 2 ^ 24 - 0x80 < 59) ∨ w / 2 ^ 24 = 0xFF

/-- Documented meaning of a word: timestamp words carry the channel in the low 7 bits of the top
byte, the edge in bit 0 and the 24-bit timestamp (bit 0 cleared) in the low three bytes; marker
words carry the timestamp's top bit in bit 23 and a 23-bit counter below it. -/
def specWord (w : Nat) : Word :=
  if 0x80 ≤ w / 2 ^ 24 ∧ w / 2 ^ 24 - 0x80 < 59 then
    .ts (w / 2 ^ 24 - 0x80) (decide (w % 2 = 1)) (w % 2 ^ 24 - w % 2)
  else if w / 2 ^ 24 = 0xFF then
    .marker (decide (w / 2 ^ 23 % 2 = 1)) (w % 2 ^ 23)
  else .other

/-- The scalers block tag. -/
def tag : List UInt8 := [0x3C, 0x00, 0x00, 0xFE]

/-- Items of the stream grammar. -/
inductive Item where
  | word (b0 b1 b2 b3 : UInt8)
  | block (payload : List UInt8)

/-- A word item must be an entry word; a block is the tag followed by 59×4 + 4 bytes
(244 bytes in all). -/
def Item.Valid : Item → Prop
  | .word b0 b1 b2 b3 => IsEntryWord (word32 b0 b1 b2 b3)
  | .block p => p.length = 240

def Item.bytes : Item → List UInt8
  | .word b0 b1 b2 b3 => [b0, b1, b2, b3]
  | .block p => tag ++ p

def Item.entry? : Item → Option Entry
  | .word b0 b1 b2 b3 => (specWord (word32 b0 b1 b2 b3)).entry?
  | .block _ => none

def flatten (items : List Item) : List UInt8 := (items.map Item.bytes).flatten

/-- The entries a sequence of items denotes: the word items' entries, in order. -/
def entriesOf (items : List Item) : List Entry := items.filterMap Item.entry?

def StartsWithItem (r : List UInt8) : Prop := ∃ (it : Item) (rest : List UInt8), it.Valid ∧ r = it.bytes ++ rest

/-- `items` is *the* parse of `input` with remainder `rest`: the input is the items' bytes
followed by `rest` (so `rest` is literally a suffix of the input) and no further item starts at
`rest` (longest prefix). -/
structure IsParse (items : List Item) (rest input : List UInt8) : Prop where
  valid : ∀ it ∈ items, it.Valid
  split : input = flatten items ++ rest
  maximal : ¬ StartsWithItem rest

/-- Ranges of the decoded fields. -/
def Entry.InRange : Entry → Prop
  | .ts ch _ t => ch < 59 ∧ t < 2 ^ 24 ∧ t % 2 = 0
  | .marker _ c => c < 2 ^ 23

/-! ## Classification -/

private theorem m7 (x : Nat) : x &&& 0x80 = ((x / 2 ^ 7) % 2 ^ 1) * 2 ^ 7 := and_mask x 1 7
private theorem l7 (x : Nat) : x &&& 0x7F = x % 2 ^ 7 := and_low x 7
private theorem l1 (x : Nat) : x &&& 1 = x % 2 ^ 1 := and_low x 1
private theorem m1_23 (x : Nat) : x &&& 0x00FFFFFE = ((x / 2 ^ 1) % 2 ^ 23) * 2 ^ 1 := and_mask x 23 1
private theorem m23_1 (x : Nat) : x &&& 0x00800000 = ((x / 2 ^ 23) % 2 ^ 1) * 2 ^ 23 := and_mask x 1 23
private theorem l23 (x : Nat) : x &&& 0x007FFFFF = x % 2 ^ 23 := and_low x 23

theorem u24_lt (b0 b1 b2 : UInt8) : u24 b0 b1 b2 < 2 ^ 24 := by
  have h0 : b0.toNat < 256 := UInt8.toNat_lt b0
  have h1 : b1.toNat < 256 := UInt8.toNat_lt b1
  have h2 : b2.toNat < 256 := UInt8.toNat_lt b2
  unfold u24; omega

theorem word32_eq (b0 b1 b2 b3 : UInt8) :
    word32 b0 b1 b2 b3 = u24 b0 b1 b2 + 2 ^ 24 * b3.toNat := by
  simp [word32, leAt, byteAt, u24]; omega

/-- C07 (classification, all 2^32 words): the code's mask tests and mask extractions are the
documented fields. By cases on the top byte; no enumeration. -/
theorem classify_spec (b0 b1 b2 b3 : UInt8) :
    classify b0 b1 b2 b3 = specWord (word32 b0 b1 b2 b3) := by
  have ht := u24_lt b0 b1 b2
  have hx : b3.toNat < 256 := UInt8.toNat_lt b3
  rw [word32_eq]
  unfold classify specWord numInputChannels
  generalize u24 b0 b1 b2 = t at *
  generalize b3.toNat = x at *
  simp only [m7, l7, l1, m1_23, m23_1, l23]
  have e1 : (t + 2 ^ 24 * x) / 2 ^ 24 = x := by omega
  have e2 : (t + 2 ^ 24 * x) % 2 ^ 24 = t := by omega
  have e3 : (t + 2 ^ 24 * x) % 2 = t % 2 := by omega
  have e4 : (t + 2 ^ 24 * x) / 2 ^ 23 % 2 = t / 2 ^ 23 := by omega
  have e5 : (t + 2 ^ 24 * x) % 2 ^ 23 = t % 2 ^ 23 := by omega
  rw [e1, e2, e3, e4, e5]
  by_cases c1 : x / 2 ^ 7 % 2 ^ 1 * 2 ^ 7 = 0x80 ∧ x % 2 ^ 7 < 59
  · have c1' : 0x80 ≤ x ∧ x - 0x80 < 59 := by omega
    rw [if_pos c1, if_pos c1']
    have a1 : x % 2 ^ 7 = x - 0x80 := by omega
    have a2 : (t % 2 ^ 1 = 1) = (t % 2 = 1) := by simp
    have a3 : t / 2 ^ 1 % 2 ^ 23 * 2 ^ 1 = t - t % 2 := by omega
    simp only [a1, a2, a3]
  · have c1' : ¬(0x80 ≤ x ∧ x - 0x80 < 59) := by omega
    rw [if_neg c1, if_neg c1']
    by_cases c2 : x = 0xFF
    · rw [if_pos c2, if_pos c2]
      have a1 : (t / 2 ^ 23 % 2 ^ 1 * 2 ^ 23 = 0x00800000) = (t / 2 ^ 23 = 1) := by
        apply propext; omega
      simp only [a1]
    · rw [if_neg c2, if_neg c2]

theorem specWord_ne_other_iff (w : Nat) : specWord w ≠ .other ↔ IsEntryWord w := by
  unfold specWord IsEntryWord
  by_cases c1 : 0x80 ≤ w / 2 ^ 24 ∧ w / 2 ^ 24 - 0x80 < 59
  · simp [c1]
  · by_cases c2 : w / 2 ^ 24 = 0xFF
    · simp [c2]
    · simp [c1, c2]

theorem classify_ne_other_iff (b0 b1 b2 b3 : UInt8) :
    classify b0 b1 b2 b3 ≠ .other ↔ IsEntryWord (word32 b0 b1 b2 b3) := by
  rw [classify_spec]; exact specWord_ne_other_iff _

theorem entry?_isSome_iff (w : Word) : (∃ e, w.entry? = some e) ↔ w ≠ .other := by
  cases w <;> simp [Word.entry?]

/-- C07 (unambiguity): the tag's top byte `0xFE` is neither class, so no byte string starts
with both a word item and a block item. -/
theorem block_not_word : ¬ IsEntryWord (word32 0x3C 0x00 0x00 0xFE) := by
  rw [← classify_ne_other_iff]; simp [classify_tag]

theorem specWord_inRange (w : Nat) (e : Entry) (h : (specWord w).entry? = some e) :
    e.InRange := by
  unfold specWord at h
  split at h
  · rename_i c
    simp only [Word.entry?, Option.some.injEq] at h; subst h
    refine ⟨c.2, ?_, ?_⟩ <;> omega
  · split at h
    · simp only [Word.entry?, Option.some.injEq] at h; subst h
      show w % 2 ^ 23 < 2 ^ 23
      omega
    · simp [Word.entry?] at h

/-! ## Parsing is the longest-prefix decomposition -/

theorem parse_nil : parse [] = ([], []) := by
  rw [parse_of_noblock (by rfl)]; rfl

theorem not_starts_of_short {r : List UInt8} (h : r.length < 4) : ¬ StartsWithItem r := by
  rintro ⟨it, rest, -, rfl⟩
  cases it <;> simp [Item.bytes, tag] at h <;> omega

theorem not_starts_nil : ¬ StartsWithItem [] := not_starts_of_short (by simp)

/-- An incomplete scalers block is not (yet) an item. -/
theorem not_starts_incomplete_block {r : List UInt8} (h4 : r.take 4 = tag) (h : r.length < 244) :
    ¬ StartsWithItem r := by
  rintro ⟨it, rest, hv, rfl⟩
  cases it with
  | word b0 b1 b2 b3 =>
    simp only [Item.bytes, tag, List.cons_append, List.nil_append, List.take_succ_cons,
      List.take_zero, List.cons.injEq, and_true] at h4
    obtain ⟨rfl, rfl, rfl, rfl⟩ := h4
    exact block_not_word hv
  | block p =>
    have hp : p.length = 240 := hv
    simp [Item.bytes, tag, hp] at h
    omega

theorem parse_of_not_starts {r : List UInt8} (h : ¬ StartsWithItem r) : parse r = ([], r) := by
  have he : entries r = ([], r) := by
    match r, h with
    | b0 :: b1 :: b2 :: b3 :: rest, h =>
      apply entries_cons_other
      apply Classical.byContradiction
      intro hc
      exact h ⟨.word b0 b1 b2 b3, rest, (classify_ne_other_iff _ _ _ _).1 hc, rfl⟩
    | [], _ => rfl
    | [_], _ => rfl
    | [_, _], _ => rfl
    | [_, _, _], _ => rfl
  have hb : block? (entries r).2 = none := by
    rw [he]
    cases hb : block? r with
    | none => rfl
    | some r' =>
      obtain ⟨p, hp, rfl⟩ := block?_eq_some.1 hb
      exact absurd ⟨.block p, r', hp, by simp [Item.bytes, tag]⟩ h
  rw [parse_of_noblock hb, he]

theorem parse_word_item {b0 b1 b2 b3 : UInt8} (hv : IsEntryWord (word32 b0 b1 b2 b3))
    (rest : List UInt8) :
    ∃ e, (specWord (word32 b0 b1 b2 b3)).entry? = some e ∧
      parse ([b0, b1, b2, b3] ++ rest) = (e :: (parse rest).1, (parse rest).2) := by
  obtain ⟨e, he⟩ := (entry?_isSome_iff _).2 ((specWord_ne_other_iff _).2 hv)
  refine ⟨e, he, ?_⟩
  have hc : (classify b0 b1 b2 b3).entry? = some e := by rw [classify_spec]; exact he
  have h1 : entries [b0, b1, b2, b3] = ([e], []) := by
    rw [entries_cons_some [] hc]; rfl
  have h2 : parse [b0, b1, b2, b3] = ([e], []) := by
    rw [parse_of_noblock (by rw [h1]; rfl), h1]
  rw [parse_append, h2]
  simp

theorem parse_block_item {p : List UInt8} (hp : p.length = 240) (rest : List UInt8) :
    parse ((tag ++ p) ++ rest) = parse rest := by
  have h1 : entries (tag ++ p) = ([], tag ++ p) := by
    simp only [tag, List.cons_append, List.nil_append]
    exact entries_cons_other _ classify_tag
  have hb : block? (entries (tag ++ p)).2 = some [] := by
    rw [h1]
    exact block?_eq_some.2 ⟨p, hp, by simp [tag]⟩
  have h2 : parse (tag ++ p) = ([], []) := by
    rw [parse_of_block hb, h1, parse_nil]; rfl
  rw [parse_append, h2]
  simp

/-- Completeness/uniqueness: whatever decomposition satisfies the grammar is what the parser
returns. -/
theorem isParse_parse {items : List Item} {r i : List UInt8} (h : IsParse items r i) :
    parse i = (entriesOf items, r) := by
  obtain ⟨hv, hs, hm⟩ := h
  subst hs
  induction items with
  | nil => simpa [flatten, entriesOf] using parse_of_not_starts hm
  | cons it items ih =>
    have ih := ih (fun x hx => hv x (List.mem_cons_of_mem _ hx))
    have hit := hv it List.mem_cons_self
    cases it with
    | word b0 b1 b2 b3 =>
      obtain ⟨e, he, hp⟩ := parse_word_item hit (flatten items ++ r)
      have : flatten (Item.word b0 b1 b2 b3 :: items) ++ r
          = [b0, b1, b2, b3] ++ (flatten items ++ r) := by simp [flatten, Item.bytes]
      rw [this, hp, ih]
      simp [entriesOf, Item.entry?, he]
    | block p =>
      have : flatten (Item.block p :: items) ++ r = (tag ++ p) ++ (flatten items ++ r) := by
        simp [flatten, Item.bytes]
      rw [this, parse_block_item hit, ih]
      simp only [entriesOf, List.filterMap_cons, Item.entry?]

/-- Word items of a run of entries. -/
theorem entries_items (l : List UInt8) :
    ∃ items, (∀ it ∈ items, it.Valid) ∧ l = flatten items ++ (entries l).2
      ∧ (entries l).1 = entriesOf items
      ∧ ∀ b0 b1 b2 b3 rest, (entries l).2 = b0 :: b1 :: b2 :: b3 :: rest →
          ¬ IsEntryWord (word32 b0 b1 b2 b3) := by
  fun_induction entries l with
  | case1 b0 b1 b2 b3 rest ch e t h ih =>
    obtain ⟨items, hv, hs, he, hm⟩ := ih
    have hw : IsEntryWord (word32 b0 b1 b2 b3) := by
      rw [← classify_ne_other_iff, h]; simp
    refine ⟨.word b0 b1 b2 b3 :: items, ?_, ?_, ?_, hm⟩
    · intro it hit
      rcases List.mem_cons.1 hit with rfl | hit
      · exact hw
      · exact hv it hit
    · conv => lhs; rw [hs]
      simp [flatten, Item.bytes]
    · have : (specWord (word32 b0 b1 b2 b3)).entry? = some (.ts ch e t) := by
        rw [← classify_spec, h]; rfl
      simp [entriesOf, Item.entry?, this, he]
  | case2 b0 b1 b2 b3 rest top c h ih =>
    obtain ⟨items, hv, hs, he, hm⟩ := ih
    have hw : IsEntryWord (word32 b0 b1 b2 b3) := by
      rw [← classify_ne_other_iff, h]; simp
    refine ⟨.word b0 b1 b2 b3 :: items, ?_, ?_, ?_, hm⟩
    · intro it hit
      rcases List.mem_cons.1 hit with rfl | hit
      · exact hw
      · exact hv it hit
    · conv => lhs; rw [hs]
      simp [flatten, Item.bytes]
    · have : (specWord (word32 b0 b1 b2 b3)).entry? = some (.marker top c) := by
        rw [← classify_spec, h]; rfl
      simp [entriesOf, Item.entry?, this, he]
  | case3 b0 b1 b2 b3 rest h =>
    refine ⟨[], by simp, by simp [flatten], by simp [entriesOf], ?_⟩
    intro c0 c1 c2 c3 rest' heq
    simp only [List.cons.injEq] at heq
    obtain ⟨rfl, rfl, rfl, rfl, -⟩ := heq
    rw [← classify_ne_other_iff, h]; simp
  | case4 l h =>
    refine ⟨[], by simp, by simp [flatten], by simp [entriesOf], ?_⟩
    intro c0 c1 c2 c3 rest' heq
    exact absurd heq (h c0 c1 c2 c3 rest')

/-- Soundness: the parser's answer is a grammar decomposition of its input. -/
theorem parse_isParse (i : List UInt8) :
    ∃ items, IsParse items (parse i).2 i ∧ (parse i).1 = entriesOf items := by
  fun_induction parse i with
  | case1 l r' h ih =>
    obtain ⟨items', ⟨hv', hs', hm'⟩, he'⟩ := ih
    obtain ⟨items, hv, hs, he, -⟩ := entries_items l
    obtain ⟨p, hp, hbl⟩ := block?_eq_some.1 h
    have hp240 : p.length = 240 := by simpa [blockPayload, numInputChannels] using hp
    refine ⟨items ++ .block p :: items', ⟨?_, ?_, hm'⟩, ?_⟩
    · intro it hit
      rcases List.mem_append.1 hit with hit | hit
      · exact hv it hit
      · rcases List.mem_cons.1 hit with rfl | hit
        · exact hp240
        · exact hv' it hit
    · conv => lhs; rw [hs, hbl, hs']
      simp [flatten, Item.bytes, tag]
    · rw [he, he']
      simp only [entriesOf, List.filterMap_append, List.filterMap_cons, Item.entry?]
  | case2 l h =>
    obtain ⟨items, hv, hs, he, hm⟩ := entries_items l
    refine ⟨items, ⟨hv, hs, ?_⟩, he⟩
    rintro ⟨it, rest, hit, hr⟩
    cases it with
    | word b0 b1 b2 b3 => exact hm b0 b1 b2 b3 rest hr hit
    | block p =>
      have hp : p.length = 240 := hit
      have : block? (entries l).2 = some rest := by
        rw [hr]
        exact block?_eq_some.2 ⟨p, by simp [blockPayload, numInputChannels, hp], by simp [Item.bytes, tag]⟩
      rw [h] at this; cases this

/-- C07 (faithfulness): `parse` returns `(es, r)` exactly when the input is a sequence of valid
items followed by `r`, `es` are the items' entries in order, and no item starts at `r`: the
longest-prefix decomposition, with `r` literally a suffix of the input. -/
theorem parse_sound_complete (i : List UInt8) (es : List Entry) (r : List UInt8) :
    parse i = (es, r) ↔ ∃ items, IsParse items r i ∧ es = entriesOf items := by
  constructor
  · intro h
    obtain ⟨items, hp, he⟩ := parse_isParse i
    rw [h] at hp he
    exact ⟨items, hp, he⟩
  · rintro ⟨items, hp, rfl⟩
    exact isParse_parse hp

/-- C07: the unconsumed remainder is literally a suffix of the input. -/
theorem parse_rest_suffix (i : List UInt8) : (parse i).2 <:+ i := by
  obtain ⟨items, hp, -⟩ := parse_isParse i
  exact ⟨flatten items, hp.split.symm⟩

/-- C07 (fields): every returned entry is the documented reading (`specWord`) of a word item of
the consumed prefix, in order, and its fields are in range: channel < 59, 24-bit timestamp with
bit 0 (the edge) cleared, 23-bit counter. -/
theorem parse_fields (i : List UInt8) (es : List Entry) (r : List UInt8) (h : parse i = (es, r)) :
    ∃ items, IsParse items r i ∧ es = items.filterMap Item.entry? ∧ ∀ e ∈ es, e.InRange := by
  obtain ⟨items, hp, he⟩ := (parse_sound_complete i es r).1 h
  refine ⟨items, hp, he, ?_⟩
  intro e hmem
  rw [he] at hmem
  obtain ⟨it, -, hit⟩ := List.mem_filterMap.1 hmem
  cases it with
  | word b0 b1 b2 b3 => exact specWord_inRange _ _ hit
  | block p => simp [Item.entry?] at hit

/-! ## The grammar is unambiguous -/

theorem item_prefix_unique {a b : Item} {x y : List UInt8} (ha : a.Valid) (hb : b.Valid)
    (h : a.bytes ++ x = b.bytes ++ y) : a = b ∧ x = y := by
  cases a with
  | word a0 a1 a2 a3 =>
    cases b with
    | word c0 c1 c2 c3 =>
      simp only [Item.bytes, List.cons_append, List.nil_append, List.cons.injEq] at h
      obtain ⟨rfl, rfl, rfl, rfl, rfl⟩ := h
      exact ⟨rfl, rfl⟩
    | block q =>
      simp only [Item.bytes, tag, List.cons_append, List.nil_append, List.cons.injEq] at h
      obtain ⟨rfl, rfl, rfl, rfl, -⟩ := h
      exact absurd ha block_not_word
  | block p =>
    cases b with
    | word c0 c1 c2 c3 =>
      simp only [Item.bytes, tag, List.cons_append, List.nil_append, List.cons.injEq] at h
      obtain ⟨rfl, rfl, rfl, rfl, -⟩ := h
      exact absurd hb block_not_word
    | block q =>
      have hp : p.length = 240 := ha
      have hq : q.length = 240 := hb
      simp only [Item.bytes, List.append_assoc] at h
      have h' := List.append_cancel_left h
      obtain ⟨rfl, rfl⟩ := List.append_inj h' (by omega)
      exact ⟨rfl, rfl⟩

/-- C07 (unambiguity): a byte string has at most one longest-prefix decomposition — same
items, same remainder (`block_not_word` is what rules out reading a block's tag as a word). -/
theorem isParse_unique {items items' : List Item} {r r' i : List UInt8}
    (h : IsParse items r i) (h' : IsParse items' r' i) : items = items' ∧ r = r' := by
  obtain ⟨hv, hs, hm⟩ := h
  obtain ⟨hv', hs', hm'⟩ := h'
  have heq : flatten items ++ r = flatten items' ++ r' := by rw [← hs, ← hs']
  clear hs hs'
  induction items generalizing items' with
  | nil =>
    cases items' with
    | nil => exact ⟨rfl, by simpa [flatten] using heq⟩
    | cons it' rest' =>
      refine absurd ⟨it', flatten rest' ++ r', hv' it' List.mem_cons_self, ?_⟩ hm
      simpa [flatten] using heq
  | cons it rest ih =>
    cases items' with
    | nil =>
      refine absurd ⟨it, flatten rest ++ r, hv it List.mem_cons_self, ?_⟩ hm'
      simpa [flatten] using heq.symm
    | cons it' rest' =>
      have e : it.bytes ++ (flatten rest ++ r) = it'.bytes ++ (flatten rest' ++ r') := by
        simpa [flatten] using heq
      obtain ⟨rfl, e'⟩ := item_prefix_unique (hv it List.mem_cons_self)
        (hv' it' List.mem_cons_self) e
      obtain ⟨rfl, rfl⟩ := ih (fun x hx => hv x (List.mem_cons_of_mem _ hx))
        (fun x hx => hv' x (List.mem_cons_of_mem _ hx)) e'
      exact ⟨rfl, rfl⟩

/-! ## Resumability and split invariance -/

/-- C07 (resume): parse `a`, append `b` to the remainder, parse again: the entries concatenate
to, and the remainder equals, those of parsing `a ++ b` at once. -/
theorem parse_resume (a b : List UInt8) (e₁ e₂ : List Entry) (r₁ r₂ : List UInt8)
    (h₁ : parse a = (e₁, r₁)) (h₂ : parse (r₁ ++ b) = (e₂, r₂)) :
    parse (a ++ b) = (e₁ ++ e₂, r₂) := by
  rw [parse_append, h₁, h₂]

theorem foldl_feedStep (a : List UInt8) (pieces : List (List UInt8)) :
    pieces.foldl feedStep (parse a) = parse (a ++ pieces.flatten) := by
  induction pieces generalizing a with
  | nil => simp
  | cons p ps ih =>
    have : feedStep (parse a) p = parse (a ++ p) := by
      unfold feedStep; rw [← parse_append]
    rw [List.foldl_cons, this, ih]
    simp [List.append_assoc]

/-- C07 (split invariance): the resume protocol over *any* list of pieces — any number, any
sizes, empty pieces included — yields exactly the entries and the remainder of parsing the
concatenation in one call. -/
theorem feedAll_eq_whole (pieces : List (List UInt8)) : feedAll pieces = parse pieces.flatten := by
  have := foldl_feedStep [] pieces
  rw [parse_nil] at this
  simpa [feedAll] using this

/-! ## Progress (C01) -/

/-- C01/C07 (progress): every entry accounts for four consumed bytes:
`4·entries + remainder ≤ input`, hence `entries ≤ input / 4`. -/
theorem parse_progress (i : List UInt8) :
    4 * (parse i).1.length + (parse i).2.length ≤ i.length ∧ (parse i).1.length ≤ i.length / 4 := by
  have := parse_length i
  omega

/-! ## Totality (C01) -/

/-- C01/C07 (totality): `chronobox_fifo`, transcribed combinator by combinator from winnow
(`Raw.chronoboxFifo`: backtracking, the "parsers must always consume" assertions of `repeat`
and `separated_foldl1`, and the final `.unwrap()` as panic sites), returns `parse i` on every
input — the `unwrap` is on a parser that always succeeds and no assertion is reachable. -/
theorem parse_total (i : List UInt8) :
    Raw.chronoboxFifo i = .ok (parse i) ∧ NoPanic (Raw.chronoboxFifo i) := by
  refine ⟨Raw.chronoboxFifo_eq i, ?_⟩
  rw [Raw.chronoboxFifo_eq]; exact noPanic_ok _

/-- C01: `ChannelId::try_from(u8)` never panics; it accepts exactly the numbers below 59. -/
theorem channelId_total (n : Nat) : NoPanic (channelId n) := by
  rw [Raw.channelId_eq]; split
  · exact noPanic_ok _
  · exact noPanic_err _

theorem channelId_ok_iff (n c : Nat) : channelId n = .ok c ↔ n < 59 ∧ c = n := by
  rw [Raw.channelId_eq]; unfold numInputChannels
  by_cases h : n < 59
  · simp [h, eq_comm]
  · simp [h]

/-- C01: `BoardId::try_from(&str)` never panics; it accepts exactly `cb01`…`cb04` and returns
the name itself. -/
theorem boardId_total (name : String) : NoPanic (boardId name) := by
  unfold boardId; split
  · exact noPanic_ok _
  · exact noPanic_err _

theorem boardId_ok_iff (name n : String) :
    boardId name = .ok n ↔ name ∈ ["cb01", "cb02", "cb03", "cb04"] ∧ n = name := by
  unfold boardId boardNames
  by_cases h1 : name = "cb01"
  · subst h1; simp [List.find?, eq_comm]
  by_cases h2 : name = "cb02"
  · subst h2; simp [List.find?, eq_comm]
  by_cases h3 : name = "cb03"
  · subst h3; simp [List.find?, eq_comm]
  by_cases h4 : name = "cb04"
  · subst h4; simp [List.find?, eq_comm]
  have e1 : ("cb01" == name) = false := by
    rw [beq_eq_false_iff_ne]; exact fun h => h1 h.symm
  have e2 : ("cb02" == name) = false := by
    rw [beq_eq_false_iff_ne]; exact fun h => h2 h.symm
  have e3 : ("cb03" == name) = false := by
    rw [beq_eq_false_iff_ne]; exact fun h => h3 h.symm
  have e4 : ("cb04" == name) = false := by
    rw [beq_eq_false_iff_ne]; exact fun h => h4 h.symm
  simp [List.find?, e1, e2, e3, e4, h1, h2, h3, h4]

/-! ## Non-vacuity: a stream cut inside a timestamp word and inside a scalers block -/

/-- First piece: half of a timestamp word. -/
def exPiece1 : List UInt8 := [0x10, 0x00]
/-- Second piece: the other half, then the tag and 100 payload bytes (which look like timestamp
top bytes) of a scalers block. -/
def exPiece2 : List UInt8 := [0x00, 0x85] ++ tag ++ List.replicate 100 0x85
/-- Third piece: the remaining 140 payload bytes (which look like markers), then a marker. -/
def exPiece3 : List UInt8 := List.replicate 140 0xFF ++ [0x01, 0x00, 0x80, 0xFF]

private theorem exWord1 : IsEntryWord (word32 0x10 0x00 0x00 0x85) := by
  unfold IsEntryWord; decide
private theorem exWord2 : IsEntryWord (word32 0x01 0x00 0x80 0xFF) := by
  unfold IsEntryWord; decide

/-- Nothing can be parsed from half a word; it is kept as the remainder. -/
theorem ex_step1 : parse exPiece1 = ([], exPiece1) :=
  parse_of_not_starts (not_starts_of_short (by decide))

/-- The completed word is returned; the incomplete block is kept as the remainder. -/
theorem ex_step2 :
    parse (exPiece1 ++ exPiece2) = ([.ts 5 false 16], tag ++ List.replicate 100 0x85) := by
  have h : IsParse [.word 0x10 0x00 0x00 0x85] (tag ++ List.replicate 100 0x85)
      (exPiece1 ++ exPiece2) :=
    ⟨by intro it hit; rw [List.mem_singleton] at hit; subst hit; exact exWord1,
     by rfl, not_starts_incomplete_block (by rfl) (by simp [tag])⟩
  rw [isParse_parse h]; rfl

/-- The completed block is skipped, the marker after it is returned, nothing remains. -/
theorem ex_step3 :
    parse ((tag ++ List.replicate 100 0x85) ++ exPiece3) = ([.marker true 1], []) := by
  have h : IsParse [.block (List.replicate 100 0x85 ++ List.replicate 140 0xFF),
        .word 0x01 0x00 0x80 0xFF] [] ((tag ++ List.replicate 100 0x85) ++ exPiece3) :=
    ⟨by
      intro it hit
      rcases List.mem_cons.1 hit with rfl | hit
      · show (List.replicate 100 (0x85 : UInt8) ++ List.replicate 140 0xFF).length = 240
        simp only [List.length_append, List.length_replicate]
      · rw [List.mem_singleton] at hit; subst hit; exact exWord2,
     by simp [flatten, Item.bytes, exPiece3],
     not_starts_nil⟩
  rw [isParse_parse h]; rfl

/-- The resume protocol on the three pieces returns the two entries and an empty remainder —
the same as the one-shot parse of the concatenation (`feedAll_eq_whole`). -/
theorem ex_feed :
    feedAll [exPiece1, exPiece2, exPiece3] = ([.ts 5 false 16, .marker true 1], []) := by
  simp only [feedAll, List.foldl, feedStep, List.nil_append, ex_step1, ex_step2, ex_step3,
    List.cons_append]

example : parse (exPiece1 ++ exPiece2 ++ exPiece3) = ([.ts 5 false 16, .marker true 1], []) := by
  have := feedAll_eq_whole [exPiece1, exPiece2, exPiece3]
  rw [ex_feed] at this
  simpa using this.symm

end AlphaG.Chronobox
