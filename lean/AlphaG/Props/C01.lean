import AlphaG.Model.EventChunks
import AlphaG.Props.C02
import AlphaG.Props.C03
import AlphaG.Props.C04
import AlphaG.Props.C05
import AlphaG.Props.C06
import AlphaG.Props.C07
/-
C01 — raw-data decoders are total: any bytes give Ok or a typed Err, never a panic.

Every decoder model is written panic-aware (each slice index, `try_into().unwrap()`, `usize`
subtraction, `unwrap()` is a guard that yields `.panic site`); the theorems below state that
`.panic` is unreachable for **every** input. This file only collects the per-decoder totality
theorems (proved in the decoders' own property files) and adds the composition for PWB packets
from chunk byte strings. Bank-name parsers and map lookups are in Props/C08.lean.
-/
namespace AlphaG.C01
open AlphaG

/-- ADC packets: `AdcV3Packet::try_from` / `AdcPacket::try_from`, all byte strings. -/
theorem adc_total (b : List UInt8) : NoPanic (Adc.decode b) ∧ NoPanic (Adc.decodeAdcPacket b) :=
  ⟨Adc.adc_total b, Adc.adcPacket_total b⟩

/-- ADC: the `usize` values that only feed error payloads stay below 2^64 (so builds with and
without overflow checks compute the same thing). -/
theorem adc_no_overflow (b : List UInt8) (h : b.length < 2 ^ 63) :
    b.length - 36 + 37 < 2 ^ 64 ∧ (Adc.keepLast b - 1) * 2 < 2 ^ 64 ∧ Adc.lastIndex b + 1 < 2 ^ 64 :=
  Adc.adc_no_overflow b h

/-- Alpha16 id conversions. -/
theorem alpha16_ids_total (n : Nat) (mac : List Nat) (name : String) :
    NoPanic (Adc.moduleIdFromU8 n) ∧ NoPanic (Adc.adc16FromU8 n) ∧ NoPanic (Adc.adc32FromU8 n)
      ∧ NoPanic (Adc.boardFromMac mac) ∧ NoPanic (Adc.boardFromName name) :=
  ⟨Adc.moduleId_total n, Adc.adc16_total n, Adc.adc32_total n, Adc.boardFromMac_total mac,
    Adc.boardFromName_total name⟩

/-- PWB chunks: `Chunk::try_from`, all byte strings; the unwrapping accessors of a decoded chunk. -/
theorem chunk_total (b : List UInt8) : NoPanic (Chunk.decodeChunk b) := Chunk.chunk_total b

theorem chunk_accessors_total (b : List UInt8) (c : Chunk.Chunk) (h : Chunk.decodeChunk b = .ok c) :
    NoPanic (Chunk.boardId c) ∧ NoPanic (Chunk.afterId c) ∧ NoPanic (Chunk.headerCrc32c c)
      ∧ NoPanic (Chunk.payloadCrc32c c) :=
  Chunk.chunk_accessors_total b c h

/-- PWB packets from a payload, `waveform_at`, `suppression_baseline`. -/
theorem pwb_total (b : List UInt8) : NoPanic (Pwb.decodePwb b) := Pwb.pwb_total b

theorem waveformAt_total (b : List UInt8) (p : Pwb.PwbPacket) (h : Pwb.decodePwb b = .ok p)
    (c : Pwb.ChannelId) : NoPanic (Pwb.waveformAt p c) :=
  Pwb.waveformAt_total b p h c

/-- A decoded chunk satisfies the invariant the reassembly relies on (its `board_id()` /
`after_id()` unwraps, the `u16` payload length). -/
theorem decoded_chunk_valid (b : List UInt8) (c : Chunk.Chunk) (h : Chunk.decodeChunk b = .ok c) :
    (toChunkV c).Valid := by
  obtain ⟨wf, rfl⟩ := (Chunk.decode_ok_iff b c).1 h
  have hlen := (Chunk.chunk_payload_len b _ h).2.1
  have hid := leAt_lt b 12 2
  refine ⟨?_, wf.chipKnown, wf.flagsKnown, by simpa [toChunkV, Chunk.fields] using hid, hlen⟩
  have hk := wf.deviceKnown
  unfold Chunk.knownDeviceIds at hk
  obtain ⟨t, ht, hte⟩ := List.mem_map.1 hk
  simp only [toChunkV, Chunk.fields, Pwb.boardOfDevice]
  rw [Option.isSome_iff_ne_none]
  intro hnone
  have := List.find?_eq_none.1 hnone t ht
  simp [hte] at this

theorem decodeAll_spec (bs : List (List UInt8)) :
    NoPanic (decodeAll bs) ∧ ∀ cs, decodeAll bs = .ok cs → ∀ c ∈ cs, c.Valid := by
  induction bs with
  | nil =>
    refine ⟨noPanic_ok _, ?_⟩
    intro cs h c hc
    simp only [decodeAll, ok_eq_ok] at h
    subst h; cases hc
  | cons b bs ih =>
    unfold decodeAll
    cases hd : Chunk.decodeChunk b with
    | panic s => exact absurd hd (Chunk.chunk_total b s)
    | err e => exact ⟨noPanic_err _, fun cs h => by cases h⟩
    | ok c =>
      cases hr : decodeAll bs with
      | panic s => exact absurd hr (ih.1 s)
      | err e => exact ⟨noPanic_err _, fun cs h => by cases h⟩
      | ok cs0 =>
        refine ⟨noPanic_ok _, ?_⟩
        intro cs h c' hc'
        simp only [ok_eq_ok] at h
        subst h
        rcases List.mem_cons.1 hc' with rfl | hm
        · exact decoded_chunk_valid b c hd
        · exact ih.2 cs0 hr c' hm

/-- PWB packets from a list of chunks: for **any** list of byte strings, decoding each with
`Chunk::try_from` and reassembling with `PwbPacket::try_from(Vec<Chunk>)` never panics. -/
theorem pwbFromChunkBytes_total (banks : List (List UInt8)) : NoPanic (pwbFromChunkBytes banks) := by
  unfold pwbFromChunkBytes
  have hs := decodeAll_spec banks
  cases hd : decodeAll banks with
  | panic s => exact absurd hd (hs.1 s)
  | err e => exact noPanic_err _
  | ok cs =>
    have hv := hs.2 cs hd
    have ht := Pwb.reassemble_total cs hv
    simp only []
    cases hr : Pwb.reassemble cs with
    | panic s => exact absurd hr (ht s)
    | err e => simp only []; exact noPanic_err _
    | ok p => simp only []; exact noPanic_ok _

/-- TRG packets, all byte strings. -/
theorem trg_total (b : List UInt8) : NoPanic (Trg.decode b) := Trg.trg_total b

/-- Chronobox FIFO: the winnow transcription never panics (its `unwrap()` and winnow's own
infinite-loop assertions are unreachable), always makes progress, and equals the direct parser. -/
theorem cbfifo_total (i : List UInt8) :
    NoPanic (Chronobox.Raw.chronoboxFifo i)
      ∧ 4 * (Chronobox.parse i).1.length + (Chronobox.parse i).2.length ≤ i.length :=
  ⟨(Chronobox.parse_total i).2, (Chronobox.parse_progress i).1⟩

theorem chronobox_ids_total (n : Nat) (name : String) :
    NoPanic (Chronobox.channelId n) ∧ NoPanic (Chronobox.boardId name) :=
  ⟨Chronobox.channelId_total n, Chronobox.boardId_total name⟩

/-- Non-vacuity: the documented TRG packet decodes, so the decoders are not trivially erroring. -/
example : (Trg.decode Trg.examplePacket).isOk = true := by decide

end AlphaG.C01
