import AlphaG.Model.Pwb
import AlphaG.Lemmas.Bytes
import AlphaG.Lemmas.PwbMask
import AlphaG.Lemmas.PwbBlocks
/-
C05 — PWB v2 packet decoding is exact and every sent channel has its full waveform
(and the PWB-packet part of C01: totality of `PwbV2Packet::try_from(&[u8])`, `waveform_at`,
`ChannelId::try_from(u16)`, `suppression_baseline`).
Only property statements and their assembly live here; helpers are in `Lemmas/Pwb*.lean`.
-/
namespace AlphaG.Pwb

/-! ### Specification (from the documented layout, not from the decoder) -/

/-- Size in bytes of one channel block: 2 (readout index) + 2 (sample count) + 2 per sample,
padded with two zero bytes to a multiple of 4 when the sample count is odd. -/
def blockBytes (req : Nat) : Nat := 4 + 2 * req + (if req % 2 = 1 then 2 else 0)

/-- Zero-based mask bit numbers of the sent channels, ascending (mask bit `i` = readout index
`i + 1`). -/
def sentBits (b : List UInt8) : List Nat := setBits (leAt b 24 10) 79
def thrBits (b : List UInt8) : List Nat := setBits (leAt b 34 10) 79

/-- Byte offset of the block of the `k`-th sent channel. -/
def blockOff (b : List UInt8) (k : Nat) : Nat := 52 + blockBytes (leAt b 22 2) * k

/-- The documented layout of a PWB v2 packet. All multi-byte fields little endian. -/
structure PwbWellFormed (b : List UInt8) : Prop where
  minLen : 56 ≤ b.length
  version : byteAt b 0 = 2
  chip : 65 ≤ byteAt b 1 ∧ byteAt b 1 ≤ 68
  compression : byteAt b 2 = 0
  trigger : byteAt b 3 = 0 ∨ byteAt b 3 = 1 ∨ byteAt b 3 = 3
  mac : ∃ t ∈ AlphaG.Generated.padwingBoards, t.2.1 = macOf b
  zero1819 : byteAt b 18 = 0 ∧ byteAt b 19 = 0
  lastSca : leAt b 20 2 ≤ 511
  req : leAt b 22 2 ≤ 511
  sentBit79 : (leAt b 24 10).testBit 79 = false
  thrBit79 : (leAt b 34 10).testBit 79 = false
  /-- no bytes missing or left over -/
  length : b.length = 52 + blockBytes (leAt b 22 2) * (sentBits b).length + 4
  /-- one block per sent channel in ascending readout order: that channel's readout index,
  the requested sample count, zero padding when odd -/
  blocks : ∀ k (hk : k < (sentBits b).length),
    leAt b (blockOff b k) 2 = (sentBits b)[k] + 1
    ∧ leAt b (blockOff b k + 2) 2 = leAt b 22 2
    ∧ (leAt b 22 2 % 2 = 1 → leAt b (blockOff b k + 4 + 2 * leAt b 22 2) 2 = 0)
  marker : leAt b (b.length - 4) 4 = 0xCCCCCCCC

/-- The packet the documentation denotes for a slice. -/
def fields (b : List UInt8) : PwbPacket :=
  { afterId := byteAt b 1 - 65, compression := byteAt b 2, triggerSource := byteAt b 3,
    boardName := ((boardOfMac (macOf b)).getD ("", [], 0)).1,
    mac := ((boardOfMac (macOf b)).getD ("", [], 0)).2.1,
    deviceId := ((boardOfMac (macOf b)).getD ("", [], 0)).2.2,
    triggerDelay := leAt b 10 2, triggerTimestamp := leAt b 12 6,
    lastScaCell := leAt b 20 2, requestedSamples := leAt b 22 2,
    channelsSent := chansOf (sentBits b), channelsOverThreshold := chansOf (thrBits b),
    eventCounter := leAt b 44 4, fifoMaxDepth := leAt b 48 2,
    eventDescriptorWriteDepth := byteAt b 50, eventDescriptorReadDepth := byteAt b 51,
    data := i16s (b.drop 52) }

/-! ### The decoder's acceptance condition, as it falls out of the guard chain -/

/-- The record built by the decoder's last line. -/
def decoded (b : List UInt8) : PwbPacket :=
  { afterId := byteAt b 1 - 65, compression := byteAt b 2, triggerSource := byteAt b 3,
    boardName := ((boardOfMac (macOf b)).getD ("", [], 0)).1,
    mac := ((boardOfMac (macOf b)).getD ("", [], 0)).2.1,
    deviceId := ((boardOfMac (macOf b)).getD ("", [], 0)).2.2,
    triggerDelay := leAt b 10 2, triggerTimestamp := leAt b 12 8,
    lastScaCell := leAt b 20 2, requestedSamples := requested b,
    channelsSent := chansOf (sentIdx b), channelsOverThreshold := chansOf (thrIdx b),
    eventCounter := leAt b 44 4, fifoMaxDepth := leAt b 48 2,
    eventDescriptorWriteDepth := byteAt b 50, eventDescriptorReadDepth := byteAt b 51,
    data := i16s (b.drop 52) }

structure Raw (b : List UInt8) : Prop where
  len : 56 ≤ b.length
  version : byteAt b 0 = 2
  chip : 65 ≤ byteAt b 1 ∧ byteAt b 1 ≤ 68
  compression : byteAt b 2 = 0
  trigger : byteAt b 3 = 0 ∨ byteAt b 3 = 1 ∨ byteAt b 3 = 3
  mac : ¬boardOfMac (macOf b) = none
  zero : leAt b 18 2 = 0
  lastSca : leAt b 20 2 ≤ 511
  req : requested b ≤ 511
  sent79 : byteAt b 33 &&& 128 = 0
  thr79 : byteAt b 43 &&& 128 = 0
  length : bpc (requested b) * (chansOf (sentIdx b)).length + 4 = b.length - 52
  blocks : BlocksOk b (requested b) (chansOf (sentIdx b)) 0
  marker : leAt b (b.length - 4) 4 = 0xCCCCCCCC

theorem sentIdx_eq (b : List UInt8) (h : byteAt b 33 &&& 128 = 0) : sentIdx b = sentBits b := by
  have h' := (mask_bit79 b 24).1 h
  exact maskLoop_reverse _ 79 (mask_lt_of_bit79 b 24 h') (by omega)

theorem thrIdx_eq (b : List UInt8) (h : byteAt b 43 &&& 128 = 0) : thrIdx b = thrBits b := by
  have h' := (mask_bit79 b 34).1 h
  exact maskLoop_reverse _ 79 (mask_lt_of_bit79 b 34 h') (by omega)

theorem sentBits_lt (b : List UInt8) : ∀ i ∈ sentBits b, i < 79 :=
  fun _ hi => (mem_setBits.1 hi).1
theorem thrBits_lt (b : List UInt8) : ∀ i ∈ thrBits b, i < 79 :=
  fun _ hi => (mem_setBits.1 hi).1

theorem sentBits_length_le (b : List UInt8) : (sentBits b).length ≤ 79 := by
  unfold sentBits setBits
  exact Nat.le_trans (List.length_filter_le _ _) (by simp)

theorem bpc_le (req : Nat) (h : req ≤ 511) : bpc req ≤ 1028 := by
  unfold bpc; split <;> omega

theorem bpc_eq_blockBytes (req : Nat) : bpc req = blockBytes req := by
  unfold bpc blockBytes; split <;> split <;> omega

/- `whnf` (unifier, linters) must not try to evaluate the mask loop on an open term. -/
attribute [local irreducible] sentIdx thrIdx BlocksOk i16s maskLoop

theorem decodePwb_ok_iff_raw (b : List UInt8) (p : PwbPacket) :
    decodePwb b = .ok p ↔ Raw b ∧ p = decoded b := by
  unfold decodePwb
  simp only [ite_err_eq_ok, needBytes_eq_ok, need_eq_ok, ok_eq_ok, checkBlocks_eq_ok,
    decide_eq_true_eq, ne_eq, Decidable.not_not]
  constructor
  · rintro ⟨c1, c2, c3, c4, c5, c6, c7, c8, c9, c10, c11, c12, c13, c14, c15, c16, c17, c18, c19,
      c20, c21, c22, c23, c24, c25, c26, c27, c28, c29, c30, c31, c32, c33, c34, c35, c36, c37, hp⟩
    exact ⟨⟨Nat.le_of_not_lt c1, c3, c5, c7, c9, c11, c14, Nat.le_of_not_gt c17,
      Nat.le_of_not_gt c19, c21, c25, c34, c35, c37⟩, hp.symm⟩
  · rintro ⟨r, rfl⟩
    have hs := sentIdx_eq b r.sent79
    have ht := thrIdx_eq b r.thr79
    have hlen : (chansOf (sentIdx b)).length ≤ 79 := by
      rw [hs, chansOf_length _ (sentBits_lt b)]; exact sentBits_length_le b
    have hb := bpc_le _ r.req
    have hmul : bpc (requested b) * (chansOf (sentIdx b)).length ≤ 1028 * 79 :=
      Nat.mul_le_mul hb hlen
    have h56 := r.len
    have hL := r.length
    have h1 := r.lastSca
    have h2 := r.req
    refine ⟨by omega, by omega, r.version, by omega, r.chip, by omega, r.compression, by omega,
      r.trigger, by omega, r.mac, by omega, by omega, r.zero, by omega, by omega, by omega,
      by omega, by omega, by omega, r.sent79, by omega, ?_, by omega, r.thr79, by omega, ?_,
      by omega, by omega, by omega, by omega, by omega, by omega, r.length, r.blocks, by omega,
      r.marker, rfl⟩
    · rw [hs]; exact all_idxOk _ (sentBits_lt b)
    · rw [ht]; exact all_idxOk _ (thrBits_lt b)

theorem boardOfMac_ne_none (m : List Nat) :
    ¬boardOfMac m = none ↔ ∃ t ∈ AlphaG.Generated.padwingBoards, t.2.1 = m := by
  unfold boardOfMac
  rw [List.find?_eq_none]
  simp

theorem zero_iff (b : List UInt8) : leAt b 18 2 = 0 ↔ byteAt b 18 = 0 ∧ byteAt b 19 = 0 := by
  simp only [leAt, Nat.reduceAdd]; omega

/-- One block of the loop, against the documented content of that block. -/
theorem blockOk_iff (b : List UInt8) (req n k i : Nat) (c : ChannelId)
    (hlen : 52 + bpc req * n + 4 ≤ b.length) (hk : k < n)
    (hc : readoutToChannel (i + 1) = some c) :
    BlockOk b req c k ↔
      leAt b (52 + bpc req * k) 2 = i + 1 ∧ leAt b (52 + bpc req * k + 2) 2 = req
      ∧ (req % 2 = 1 → leAt b (52 + bpc req * k + 4 + 2 * req) 2 = 0) := by
  have hb := bpc_ge req
  have hm : bpc req * (k + 1) ≤ bpc req * n := Nat.mul_le_mul_left _ hk
  rw [Nat.mul_succ] at hm
  unfold BlockOk
  constructor
  · rintro ⟨_, h2, _, h4, _, h6⟩
    refine ⟨readout_inj h2 hc, h4, fun ho => h6 (by omega)⟩
  · rintro ⟨h1, h2, h3⟩
    refine ⟨by omega, by rw [h1]; exact hc, by omega, h2, ?_, fun ho => h3 (by omega)⟩
    by_cases ho : req % 2 = 0
    · exact Or.inl ho
    · have := hb.2 ho; right; omega

theorem raw_iff_wf (b : List UInt8) : Raw b ↔ PwbWellFormed b := by
  constructor
  · intro r
    have hs := sentIdx_eq b r.sent79
    have hn := chansOf_length _ (sentBits_lt b)
    have h56 := r.len
    have hL := r.length
    rw [hs, hn, bpc_eq_blockBytes] at hL
    have hB := r.blocks
    rw [hs, blocksOk_iff] at hB
    refine ⟨r.len, r.version, r.chip, r.compression, r.trigger, (boardOfMac_ne_none _).1 r.mac,
      (zero_iff b).1 r.zero, r.lastSca, r.req, (mask_bit79 b 24).1 r.sent79,
      (mask_bit79 b 34).1 r.thr79, ?_, ?_, r.marker⟩
    · unfold requested at hL; omega
    · intro k hk
      have hk' : k < (chansOf (sentBits b)).length := by rw [hn]; exact hk
      have := (blockOk_iff b (requested b) (sentBits b).length k (sentBits b)[k] _
        (by rw [bpc_eq_blockBytes]; omega) hk
        (chansOf_getElem _ (sentBits_lt b) k hk' hk)).1 (by have := hB k hk'; rwa [Nat.zero_add] at this)
      simpa [blockOff, requested, bpc_eq_blockBytes] using this
  · intro w
    have h79 := (mask_bit79 b 24).2 w.sentBit79
    have hs := sentIdx_eq b h79
    have hn := chansOf_length _ (sentBits_lt b)
    have hL := w.length
    refine ⟨w.minLen, w.version, w.chip, w.compression, w.trigger, (boardOfMac_ne_none _).2 w.mac,
      (zero_iff b).2 w.zero1819, w.lastSca, w.req, h79, (mask_bit79 b 34).2 w.thrBit79, ?_, ?_,
      w.marker⟩
    · rw [hs, hn, bpc_eq_blockBytes]; unfold requested; omega
    · rw [hs, blocksOk_iff]
      intro k hk'
      have hk : k < (sentBits b).length := by rw [← hn]; exact hk'
      rw [Nat.zero_add]
      apply (blockOk_iff b (requested b) (sentBits b).length k (sentBits b)[k] _
        (by rw [bpc_eq_blockBytes]; unfold requested; omega) hk
        (chansOf_getElem _ (sentBits_lt b) k hk' hk)).2
      have := w.blocks k hk
      simpa [blockOff, requested, bpc_eq_blockBytes] using this

theorem timestamp_eq (b : List UInt8) (h : leAt b 18 2 = 0) : leAt b 12 8 = leAt b 12 6 := by
  simp only [leAt, Nat.reduceAdd] at h ⊢; omega

theorem decoded_eq_fields (b : List UInt8) (r : Raw b) : decoded b = fields b := by
  unfold decoded fields
  rw [sentIdx_eq b r.sent79, thrIdx_eq b r.thr79, timestamp_eq b r.zero]
  rfl

/-- Master characterisation: the decoder accepts exactly the well-formed slices and returns the
documented fields. -/
theorem decodePwb_ok_iff (b : List UInt8) (p : PwbPacket) :
    decodePwb b = .ok p ↔ PwbWellFormed b ∧ p = fields b := by
  rw [decodePwb_ok_iff_raw]
  constructor
  · rintro ⟨r, rfl⟩; exact ⟨(raw_iff_wf b).1 r, decoded_eq_fields b r⟩
  · rintro ⟨w, rfl⟩
    have r := (raw_iff_wf b).2 w
    exact ⟨r, (decoded_eq_fields b r).symm⟩

/-- C05 (acceptance): a payload is accepted iff it follows the documented layout. -/
theorem pwb_accept_iff (b : List UInt8) : (∃ p, decodePwb b = .ok p) ↔ PwbWellFormed b := by
  constructor
  · rintro ⟨p, hp⟩; exact ((decodePwb_ok_iff b p).1 hp).1
  · intro h; exact ⟨fields b, (decodePwb_ok_iff b _).2 ⟨h, rfl⟩⟩

/-- C05 (fields): every accessor of an accepted packet is the documented field. -/
theorem pwb_fields (b : List UInt8) (p : PwbPacket) (h : decodePwb b = .ok p) : p = fields b :=
  ((decodePwb_ok_iff b p).1 h).2

/-! ### Totality (C01 part) -/

local macro "nb" : tactic => `(tactic| apply noPanic_needBytes (by omega))
local macro "ie " h:ident : tactic => `(tactic| (apply noPanic_ite_err; intro $h:ident))

/-- C01/C05 (totality): no byte string makes the PWB packet decoder panic (no out-of-bounds
slice, no failing `unwrap`, no `u16`/`usize` overflow). -/
theorem pwb_total (b : List UInt8) : NoPanic (decodePwb b) := by
  unfold decodePwb
  ie hlen
  have hlen : 56 ≤ b.length := by omega
  nb; ie _h0; nb; ie _h1; nb; ie _h2; nb; ie _h3; nb; ie _h4; nb; nb; ie _h5; nb; nb; ie _h6; nb
  ie hreq; nb; ie h79; nb
  have h79 : byteAt b 33 &&& 128 = 0 := Decidable.not_not.1 h79
  have hs := sentIdx_eq b h79
  apply noPanic_need (by rw [hs]; exact all_idxOk _ (sentBits_lt b))
  nb; ie h79t; nb
  have h79t : byteAt b 43 &&& 128 = 0 := Decidable.not_not.1 h79t
  apply noPanic_need (by rw [thrIdx_eq b h79t]; exact all_idxOk _ (thrBits_lt b))
  nb; nb; nb; nb; nb
  have hn : (chansOf (sentIdx b)).length ≤ 79 := by
    rw [hs, chansOf_length _ (sentBits_lt b)]; exact sentBits_length_le b
  have hb := bpc_le (requested b) (by omega)
  have hmul : bpc (requested b) * (chansOf (sentIdx b)).length ≤ 1028 * 79 :=
    Nat.mul_le_mul hb hn
  apply noPanic_need (by simp only [decide_eq_true_eq]; omega)
  ie hL
  have hL : bpc (requested b) * (chansOf (sentIdx b)).length + 4 = b.length - 52 :=
    Decidable.not_not.1 hL
  apply noPanic_checkBlocks _ _ _ _ _ (by rw [Nat.zero_add]; omega)
  apply noPanic_need (by simp only [decide_eq_true_eq]; omega)
  ie _h7
  exact noPanic_ok _

end AlphaG.Pwb
