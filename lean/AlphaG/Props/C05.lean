import AlphaG.Model.Pwb
import AlphaG.Lemmas.Bytes
import AlphaG.Lemmas.PwbMask
import AlphaG.Lemmas.PwbBlocks
/-
C05 — PWB v2 packet decoding is exact and every sent channel has its full waveform
(and the PWB-packet part of C01: totality of `PwbV2Packet::try_from(&[u8])`, `waveform_at`,
`ChannelId::try_from(u16)`, `suppression_baseline`).
Only property statements and their assembly live here; helpers are in `Lemmas/Pwb*.lean`.
-/
namespace AlphaG.Pwb

/-! ### Specification (from the documented layout, not from the decoder) -/

/-- Size in bytes of one channel block: 2 (readout index) + 2 (sample count) + 2 per sample,
padded with two zero bytes to a multiple of 4 when the sample count is odd. -/
def blockBytes (req : Nat) : Nat := 4 + 2 * req + (if req % 2 = 1 then 2 else 0)

/-- Zero-based mask bit numbers of the sent channels, ascending (mask bit `i` = readout index
`i + 1`). -/
def sentBits (b : List UInt8) : List Nat := setBits (leAt b 24 10) 79
def thrBits (b : List UInt8) : List Nat := setBits (leAt b 34 10) 79

/-- Byte offset of the block of the `k`-th sent channel. -/
def blockOff (b : List UInt8) (k : Nat) : Nat := 52 + blockBytes (leAt b 22 2) * k

/-- The documented layout of a PWB v2 packet. All multi-byte fields little endian. -/
structure PwbWellFormed (b : List UInt8) : Prop where
  minLen : 56 ≤ b.length
  version : byteAt b 0 = 2
  chip : 65 ≤ byteAt b 1 ∧ byteAt b 1 ≤ 68
  compression : byteAt b 2 = 0
  trigger : byteAt b 3 = 0 ∨ byteAt b 3 = 1 ∨ byteAt b 3 = 3
  mac : ∃ t ∈ AlphaG.Generated.padwingBoards, t.2.1 = macOf b
  zero1819 : byteAt b 18 = 0 ∧ byteAt b 19 = 0
  lastSca : leAt b 20 2 ≤ 511
  req : leAt b 22 2 ≤ 511
  sentBit79 : (leAt b 24 10).testBit 79 = false
  thrBit79 : (leAt b 34 10).testBit 79 = false
  /-- no bytes missing or left over -/
  length : b.length = 52 + blockBytes (leAt b 22 2) * (sentBits b).length + 4
  /-- one block per sent channel in ascending readout order: that channel's readout index,
  the requested sample count, zero padding when odd -/
  blocks : ∀ k (hk : k < (sentBits b).length),
    leAt b (blockOff b k) 2 = (sentBits b)[k] + 1
    ∧ leAt b (blockOff b k + 2) 2 = leAt b 22 2
    ∧ (leAt b 22 2 % 2 = 1 → leAt b (blockOff b k + 4 + 2 * leAt b 22 2) 2 = 0)
  marker : leAt b (b.length - 4) 4 = 0xCCCCCCCC

/-- The packet the documentation denotes for a slice. -/
def fields (b : List UInt8) : PwbPacket :=
  { afterId := byteAt b 1 - 65, compression := byteAt b 2, triggerSource := byteAt b 3,
    boardName := ((boardOfMac (macOf b)).getD ("", [], 0)).1,
    mac := ((boardOfMac (macOf b)).getD ("", [], 0)).2.1,
    deviceId := ((boardOfMac (macOf b)).getD ("", [], 0)).2.2,
    triggerDelay := leAt b 10 2, triggerTimestamp := leAt b 12 6,
    lastScaCell := leAt b 20 2, requestedSamples := leAt b 22 2,
    channelsSent := chansOf (sentBits b), channelsOverThreshold := chansOf (thrBits b),
    eventCounter := leAt b 44 4, fifoMaxDepth := leAt b 48 2,
    eventDescriptorWriteDepth := byteAt b 50, eventDescriptorReadDepth := byteAt b 51,
    data := i16s (b.drop 52) }

/-! ### The decoder's acceptance condition, as it falls out of the guard chain -/

/-- The record built by the decoder's last line. -/
def decoded (b : List UInt8) : PwbPacket :=
  { afterId := byteAt b 1 - 65, compression := byteAt b 2, triggerSource := byteAt b 3,
    boardName := ((boardOfMac (macOf b)).getD ("", [], 0)).1,
    mac := ((boardOfMac (macOf b)).getD ("", [], 0)).2.1,
    deviceId := ((boardOfMac (macOf b)).getD ("", [], 0)).2.2,
    triggerDelay := leAt b 10 2, triggerTimestamp := leAt b 12 8,
    lastScaCell := leAt b 20 2, requestedSamples := requested b,
    channelsSent := chansOf (sentIdx b), channelsOverThreshold := chansOf (thrIdx b),
    eventCounter := leAt b 44 4, fifoMaxDepth := leAt b 48 2,
    eventDescriptorWriteDepth := byteAt b 50, eventDescriptorReadDepth := byteAt b 51,
    data := i16s (b.drop 52) }

structure Raw (b : List UInt8) : Prop where
  len : 56 ≤ b.length
  version : byteAt b 0 = 2
  chip : 65 ≤ byteAt b 1 ∧ byteAt b 1 ≤ 68
  compression : byteAt b 2 = 0
  trigger : byteAt b 3 = 0 ∨ byteAt b 3 = 1 ∨ byteAt b 3 = 3
  mac : ¬boardOfMac (macOf b) = none
  zero : leAt b 18 2 = 0
  lastSca : leAt b 20 2 ≤ 511
  req : requested b ≤ 511
  sent79 : byteAt b 33 &&& 128 = 0
  thr79 : byteAt b 43 &&& 128 = 0
  length : bpc (requested b) * (chansOf (sentIdx b)).length + 4 = b.length - 52
  blocks : BlocksOk b (requested b) (chansOf (sentIdx b)) 0
  marker : leAt b (b.length - 4) 4 = 0xCCCCCCCC

theorem sentIdx_eq (b : List UInt8) (h : byteAt b 33 &&& 128 = 0) : sentIdx b = sentBits b := by
  have h' := (mask_bit79 b 24).1 h
  exact maskLoop_reverse _ 79 (mask_lt_of_bit79 b 24 h') (by omega)

theorem thrIdx_eq (b : List UInt8) (h : byteAt b 43 &&& 128 = 0) : thrIdx b = thrBits b := by
  have h' := (mask_bit79 b 34).1 h
  exact maskLoop_reverse _ 79 (mask_lt_of_bit79 b 34 h') (by omega)

theorem sentBits_lt (b : List UInt8) : ∀ i ∈ sentBits b, i < 79 :=
  fun _ hi => (mem_setBits.1 hi).1
theorem thrBits_lt (b : List UInt8) : ∀ i ∈ thrBits b, i < 79 :=
  fun _ hi => (mem_setBits.1 hi).1

theorem sentBits_length_le (b : List UInt8) : (sentBits b).length ≤ 79 := by
  unfold sentBits setBits
  exact Nat.le_trans (List.length_filter_le _ _) (by simp)

theorem bpc_le (req : Nat) (h : req ≤ 511) : bpc req ≤ 1028 := by
  unfold bpc; split <;> omega

theorem bpc_eq_blockBytes (req : Nat) : bpc req = blockBytes req := by
  unfold bpc blockBytes; split <;> split <;> omega

theorem decodePwb_ok_iff_raw (b : List UInt8) (p : PwbPacket) :
    decodePwb b = .ok p ↔ Raw b ∧ p = decoded b := by
  unfold decodePwb
  simp only [ite_err_eq_ok, needBytes_eq_ok, need_eq_ok, ok_eq_ok, checkBlocks_eq_ok,
    decide_eq_true_eq, ne_eq, Decidable.not_not]
  constructor
  · rintro ⟨c1, c2, c3, c4, c5, c6, c7, c8, c9, c10, c11, c12, c13, c14, c15, c16, c17, c18, c19,
      c20, c21, c22, c23, c24, c25, c26, c27, c28, c29, c30, c31, c32, c33, c34, c35, c36, c37, hp⟩
    exact ⟨⟨Nat.le_of_not_lt c1, c3, c5, c7, c9, c11, c14, Nat.le_of_not_gt c17,
      Nat.le_of_not_gt c19, c21, c25, c34, c35, c37⟩, hp.symm⟩
  · rintro ⟨⟨r1, r2, r3, r4, r5, r6, r7, r8, r9, r10, r11, r12, r13, r14⟩, rfl⟩
    have hs := sentIdx_eq b r10
    have ht := thrIdx_eq b r11
    have hlen : (chansOf (sentIdx b)).length ≤ 79 := by
      rw [hs, chansOf_length _ (sentBits_lt b)]; exact sentBits_length_le b
    have hb := bpc_le _ r9
    have hmul : bpc (requested b) * (chansOf (sentIdx b)).length ≤ 1028 * 79 :=
      Nat.mul_le_mul hb hlen
    refine ⟨by omega, by omega, r2, by omega, r3, by omega, r4, by omega, r5, by omega, r6,
      by omega, by omega, r7, by omega, by omega, by omega, by omega, by omega, by omega, r10,
      by omega, ?_, by omega, r11, by omega, ?_, by omega, by omega, by omega, by omega, by omega,
      by omega, r12, r13, by omega, r14, rfl⟩
    · rw [hs]; exact all_idxOk _ (sentBits_lt b)
    · rw [ht]; exact all_idxOk _ (thrBits_lt b)

end AlphaG.Pwb
