import AlphaG.Model.Pwb
import AlphaG.Lemmas.Bytes
import AlphaG.Lemmas.PwbMask
import AlphaG.Lemmas.PwbBlocks
import AlphaG.Lemmas.PwbWave
import AlphaG.Lemmas.PwbEncode
/-
C05 — PWB v2 packet decoding is exact and every sent channel has its full waveform
(and the PWB-packet part of C01: totality of `PwbV2Packet::try_from(&[u8])`, `waveform_at`,
`ChannelId::try_from(u16)`, `suppression_baseline`).
Only property statements and their assembly live here; helpers are in `Lemmas/Pwb*.lean`.
-/
namespace AlphaG.Pwb

/-! ### Specification (from the documented layout, not from the decoder) -/

/-- Size in bytes of one channel block: 2 (readout index) + 2 (sample count) + 2 per sample,
padded with two zero bytes to a multiple of 4 when the sample count is odd. -/
def blockBytes (req : Nat) : Nat := 4 + 2 * req + (if req % 2 = 1 then 2 else 0)

/-- Zero-based mask bit numbers of the sent channels, ascending (mask bit `i` = readout index
`i + 1`). -/
def sentBits (b : List UInt8) : List Nat := setBits (leAt b 24 10) 79
def thrBits (b : List UInt8) : List Nat := setBits (leAt b 34 10) 79

/-- Byte offset of the block of the `k`-th sent channel. -/
def blockOff (b : List UInt8) (k : Nat) : Nat := 52 + blockBytes (leAt b 22 2) * k

/-- The documented layout of a PWB v2 packet. All multi-byte fields little endian. -/
structure PwbWellFormed (b : List UInt8) : Prop where
  minLen : 56 ≤ b.length
  version : byteAt b 0 = 2
  chip : 65 ≤ byteAt b 1 ∧ byteAt b 1 ≤ 68
  compression : byteAt b 2 = 0
  trigger : byteAt b 3 = 0 ∨ byteAt b 3 = 1 ∨ byteAt b 3 = 3
  mac : ∃ t ∈ AlphaG.Generated.padwingBoards, t.2.1 = macOf b
  zero1819 : byteAt b 18 = 0 ∧ byteAt b 19 = 0
  lastSca : leAt b 20 2 ≤ 511
  req : leAt b 22 2 ≤ 511
  sentBit79 : (leAt b 24 10).testBit 79 = false
  thrBit79 : (leAt b 34 10).testBit 79 = false
  /-- no bytes missing or left over -/
  length : b.length = 52 + blockBytes (leAt b 22 2) * (sentBits b).length + 4
  /-- one block per sent channel in ascending readout order: that channel's readout index,
  the requested sample count, zero padding when odd -/
  blocks : ∀ k (hk : k < (sentBits b).length),
    leAt b (blockOff b k) 2 = (sentBits b)[k] + 1
    ∧ leAt b (blockOff b k + 2) 2 = leAt b 22 2
    ∧ (leAt b 22 2 % 2 = 1 → leAt b (blockOff b k + 4 + 2 * leAt b 22 2) 2 = 0)
  marker : leAt b (b.length - 4) 4 = 0xCCCCCCCC

/-- The packet the documentation denotes for a slice. -/
def fields (b : List UInt8) : PwbPacket :=
  { afterId := byteAt b 1 - 65, compression := byteAt b 2, triggerSource := byteAt b 3,
    boardName := ((boardOfMac (macOf b)).getD ("", [], 0)).1,
    mac := ((boardOfMac (macOf b)).getD ("", [], 0)).2.1,
    deviceId := ((boardOfMac (macOf b)).getD ("", [], 0)).2.2,
    triggerDelay := leAt b 10 2, triggerTimestamp := leAt b 12 6,
    lastScaCell := leAt b 20 2, requestedSamples := leAt b 22 2,
    channelsSent := chansOf (sentBits b), channelsOverThreshold := chansOf (thrBits b),
    eventCounter := leAt b 44 4, fifoMaxDepth := leAt b 48 2,
    eventDescriptorWriteDepth := byteAt b 50, eventDescriptorReadDepth := byteAt b 51,
    data := i16s (b.drop 52) }

/-! ### The decoder's acceptance condition, as it falls out of the guard chain -/

/-- The record built by the decoder's last line. -/
def decoded (b : List UInt8) : PwbPacket :=
  { afterId := byteAt b 1 - 65, compression := byteAt b 2, triggerSource := byteAt b 3,
    boardName := ((boardOfMac (macOf b)).getD ("", [], 0)).1,
    mac := ((boardOfMac (macOf b)).getD ("", [], 0)).2.1,
    deviceId := ((boardOfMac (macOf b)).getD ("", [], 0)).2.2,
    triggerDelay := leAt b 10 2, triggerTimestamp := leAt b 12 8,
    lastScaCell := leAt b 20 2, requestedSamples := requested b,
    channelsSent := chansOf (sentIdx b), channelsOverThreshold := chansOf (thrIdx b),
    eventCounter := leAt b 44 4, fifoMaxDepth := leAt b 48 2,
    eventDescriptorWriteDepth := byteAt b 50, eventDescriptorReadDepth := byteAt b 51,
    data := i16s (b.drop 52) }

structure Raw (b : List UInt8) : Prop where
  len : 56 ≤ b.length
  version : byteAt b 0 = 2
  chip : 65 ≤ byteAt b 1 ∧ byteAt b 1 ≤ 68
  compression : byteAt b 2 = 0
  trigger : byteAt b 3 = 0 ∨ byteAt b 3 = 1 ∨ byteAt b 3 = 3
  mac : ¬boardOfMac (macOf b) = none
  zero : leAt b 18 2 = 0
  lastSca : leAt b 20 2 ≤ 511
  req : requested b ≤ 511
  sent79 : byteAt b 33 &&& 128 = 0
  thr79 : byteAt b 43 &&& 128 = 0
  length : bpc (requested b) * (chansOf (sentIdx b)).length + 4 = b.length - 52
  blocks : BlocksOk b (requested b) (chansOf (sentIdx b)) 0
  marker : leAt b (b.length - 4) 4 = 0xCCCCCCCC

theorem sentIdx_eq (b : List UInt8) (h : byteAt b 33 &&& 128 = 0) : sentIdx b = sentBits b := by
  have h' := (mask_bit79 b 24).1 h
  exact maskLoop_reverse _ 79 (mask_lt_of_bit79 b 24 h') (by omega)

theorem thrIdx_eq (b : List UInt8) (h : byteAt b 43 &&& 128 = 0) : thrIdx b = thrBits b := by
  have h' := (mask_bit79 b 34).1 h
  exact maskLoop_reverse _ 79 (mask_lt_of_bit79 b 34 h') (by omega)

theorem sentBits_lt (b : List UInt8) : ∀ i ∈ sentBits b, i < 79 :=
  fun _ hi => (mem_setBits.1 hi).1
theorem thrBits_lt (b : List UInt8) : ∀ i ∈ thrBits b, i < 79 :=
  fun _ hi => (mem_setBits.1 hi).1

theorem sentBits_length_le (b : List UInt8) : (sentBits b).length ≤ 79 := by
  unfold sentBits setBits
  exact Nat.le_trans (List.length_filter_le _ _) (by simp)

theorem bpc_le (req : Nat) (h : req ≤ 511) : bpc req ≤ 1028 := by
  unfold bpc; split <;> omega

theorem bpc_eq_blockBytes (req : Nat) : bpc req = blockBytes req := by
  unfold bpc blockBytes; split <;> split <;> omega

/- `whnf` (unifier, linters) must not try to evaluate the mask loop on an open term. -/
attribute [local irreducible] sentIdx thrIdx BlocksOk i16s maskLoop

theorem decodePwb_ok_iff_raw (b : List UInt8) (p : PwbPacket) :
    decodePwb b = .ok p ↔ Raw b ∧ p = decoded b := by
  unfold decodePwb
  simp only [ite_err_eq_ok, needBytes_eq_ok, need_eq_ok, ok_eq_ok, checkBlocks_eq_ok,
    decide_eq_true_eq, ne_eq, Decidable.not_not]
  constructor
  · rintro ⟨c1, c2, c3, c4, c5, c6, c7, c8, c9, c10, c11, c12, c13, c14, c15, c16, c17, c18, c19,
      c20, c21, c22, c23, c24, c25, c26, c27, c28, c29, c30, c31, c32, c33, c34, c35, c36, c37, hp⟩
    exact ⟨⟨Nat.le_of_not_lt c1, c3, c5, c7, c9, c11, c14, Nat.le_of_not_gt c17,
      Nat.le_of_not_gt c19, c21, c25, c34, c35, c37⟩, hp.symm⟩
  · rintro ⟨r, rfl⟩
    have hs := sentIdx_eq b r.sent79
    have ht := thrIdx_eq b r.thr79
    have hlen : (chansOf (sentIdx b)).length ≤ 79 := by
      rw [hs, chansOf_length _ (sentBits_lt b)]; exact sentBits_length_le b
    have hb := bpc_le _ r.req
    have hmul : bpc (requested b) * (chansOf (sentIdx b)).length ≤ 1028 * 79 :=
      Nat.mul_le_mul hb hlen
    have h56 := r.len
    have hL := r.length
    have h1 := r.lastSca
    have h2 := r.req
    refine ⟨by omega, by omega, r.version, by omega, r.chip, by omega, r.compression, by omega,
      r.trigger, by omega, r.mac, by omega, by omega, r.zero, by omega, by omega, by omega,
      by omega, by omega, by omega, r.sent79, by omega, ?_, by omega, r.thr79, by omega, ?_,
      by omega, by omega, by omega, by omega, by omega, by omega, r.length, r.blocks, by omega,
      r.marker, rfl⟩
    · rw [hs]; exact all_idxOk _ (sentBits_lt b)
    · rw [ht]; exact all_idxOk _ (thrBits_lt b)

theorem boardOfMac_ne_none (m : List Nat) :
    ¬boardOfMac m = none ↔ ∃ t ∈ AlphaG.Generated.padwingBoards, t.2.1 = m := by
  unfold boardOfMac
  rw [List.find?_eq_none]
  simp

theorem zero_iff (b : List UInt8) : leAt b 18 2 = 0 ↔ byteAt b 18 = 0 ∧ byteAt b 19 = 0 := by
  simp only [leAt, Nat.reduceAdd]; omega

/-- One block of the loop, against the documented content of that block. -/
theorem blockOk_iff (b : List UInt8) (req n k i : Nat) (c : ChannelId)
    (hlen : 52 + bpc req * n + 4 ≤ b.length) (hk : k < n)
    (hc : readoutToChannel (i + 1) = some c) :
    BlockOk b req c k ↔
      leAt b (52 + bpc req * k) 2 = i + 1 ∧ leAt b (52 + bpc req * k + 2) 2 = req
      ∧ (req % 2 = 1 → leAt b (52 + bpc req * k + 4 + 2 * req) 2 = 0) := by
  have hb := bpc_ge req
  have hm : bpc req * (k + 1) ≤ bpc req * n := Nat.mul_le_mul_left _ hk
  rw [Nat.mul_succ] at hm
  unfold BlockOk
  constructor
  · rintro ⟨_, h2, _, h4, _, h6⟩
    refine ⟨readout_inj h2 hc, h4, fun ho => h6 (by omega)⟩
  · rintro ⟨h1, h2, h3⟩
    refine ⟨by omega, by rw [h1]; exact hc, by omega, h2, ?_, fun ho => h3 (by omega)⟩
    by_cases ho : req % 2 = 0
    · exact Or.inl ho
    · have := hb.2 ho; right; omega

theorem raw_iff_wf (b : List UInt8) : Raw b ↔ PwbWellFormed b := by
  constructor
  · intro r
    have hs := sentIdx_eq b r.sent79
    have hn := chansOf_length _ (sentBits_lt b)
    have h56 := r.len
    have hL := r.length
    rw [hs, hn, bpc_eq_blockBytes] at hL
    have hB := r.blocks
    rw [hs, blocksOk_iff] at hB
    refine ⟨r.len, r.version, r.chip, r.compression, r.trigger, (boardOfMac_ne_none _).1 r.mac,
      (zero_iff b).1 r.zero, r.lastSca, r.req, (mask_bit79 b 24).1 r.sent79,
      (mask_bit79 b 34).1 r.thr79, ?_, ?_, r.marker⟩
    · unfold requested at hL; omega
    · intro k hk
      have hk' : k < (chansOf (sentBits b)).length := by rw [hn]; exact hk
      have := (blockOk_iff b (requested b) (sentBits b).length k (sentBits b)[k] _
        (by rw [bpc_eq_blockBytes]; omega) hk
        (chansOf_getElem _ (sentBits_lt b) k hk' hk)).1 (by have := hB k hk'; rwa [Nat.zero_add] at this)
      simpa [blockOff, requested, bpc_eq_blockBytes] using this
  · intro w
    have h79 := (mask_bit79 b 24).2 w.sentBit79
    have hs := sentIdx_eq b h79
    have hn := chansOf_length _ (sentBits_lt b)
    have hL := w.length
    refine ⟨w.minLen, w.version, w.chip, w.compression, w.trigger, (boardOfMac_ne_none _).2 w.mac,
      (zero_iff b).2 w.zero1819, w.lastSca, w.req, h79, (mask_bit79 b 34).2 w.thrBit79, ?_, ?_,
      w.marker⟩
    · rw [hs, hn, bpc_eq_blockBytes]; unfold requested; omega
    · rw [hs, blocksOk_iff]
      intro k hk'
      have hk : k < (sentBits b).length := by rw [← hn]; exact hk'
      rw [Nat.zero_add]
      apply (blockOk_iff b (requested b) (sentBits b).length k (sentBits b)[k] _
        (by rw [bpc_eq_blockBytes]; unfold requested; omega) hk
        (chansOf_getElem _ (sentBits_lt b) k hk' hk)).2
      have := w.blocks k hk
      simpa [blockOff, requested, bpc_eq_blockBytes] using this

theorem timestamp_eq (b : List UInt8) (h : leAt b 18 2 = 0) : leAt b 12 8 = leAt b 12 6 := by
  simp only [leAt, Nat.reduceAdd] at h ⊢; omega

theorem decoded_eq_fields (b : List UInt8) (r : Raw b) : decoded b = fields b := by
  unfold decoded fields
  rw [sentIdx_eq b r.sent79, thrIdx_eq b r.thr79, timestamp_eq b r.zero]
  rfl

/-- Master characterisation: the decoder accepts exactly the well-formed slices and returns the
documented fields. -/
theorem decodePwb_ok_iff (b : List UInt8) (p : PwbPacket) :
    decodePwb b = .ok p ↔ PwbWellFormed b ∧ p = fields b := by
  rw [decodePwb_ok_iff_raw]
  constructor
  · rintro ⟨r, rfl⟩; exact ⟨(raw_iff_wf b).1 r, decoded_eq_fields b r⟩
  · rintro ⟨w, rfl⟩
    have r := (raw_iff_wf b).2 w
    exact ⟨r, (decoded_eq_fields b r).symm⟩

/-- C05 (acceptance): a payload is accepted iff it follows the documented layout. -/
theorem pwb_accept_iff (b : List UInt8) : (∃ p, decodePwb b = .ok p) ↔ PwbWellFormed b := by
  constructor
  · rintro ⟨p, hp⟩; exact ((decodePwb_ok_iff b p).1 hp).1
  · intro h; exact ⟨fields b, (decodePwb_ok_iff b _).2 ⟨h, rfl⟩⟩

/-- C05 (fields): every accessor of an accepted packet is the documented field. -/
theorem pwb_fields (b : List UInt8) (p : PwbPacket) (h : decodePwb b = .ok p) : p = fields b :=
  ((decodePwb_ok_iff b p).1 h).2

/-! ### Totality (C01 part) -/

local macro "nb" : tactic => `(tactic| apply noPanic_needBytes (by omega))
local macro "ie " h:ident : tactic => `(tactic| (apply noPanic_ite_err; intro $h:ident))

/-- C01/C05 (totality): no byte string makes the PWB packet decoder panic (no out-of-bounds
slice, no failing `unwrap`, no `u16`/`usize` overflow). -/
theorem pwb_total (b : List UInt8) : NoPanic (decodePwb b) := by
  unfold decodePwb
  ie hlen
  have hlen : 56 ≤ b.length := by omega
  nb; ie _h0; nb; ie _h1; nb; ie _h2; nb; ie _h3; nb; ie _h4; nb; nb; ie _h5; nb; nb; ie _h6; nb
  ie hreq; nb; ie h79; nb
  have h79 : byteAt b 33 &&& 128 = 0 := Decidable.not_not.1 h79
  have hs := sentIdx_eq b h79
  apply noPanic_need (by rw [hs]; exact all_idxOk _ (sentBits_lt b))
  nb; ie h79t; nb
  have h79t : byteAt b 43 &&& 128 = 0 := Decidable.not_not.1 h79t
  apply noPanic_need (by rw [thrIdx_eq b h79t]; exact all_idxOk _ (thrBits_lt b))
  nb; nb; nb; nb; nb
  have hn : (chansOf (sentIdx b)).length ≤ 79 := by
    rw [hs, chansOf_length _ (sentBits_lt b)]; exact sentBits_length_le b
  have hb := bpc_le (requested b) (by omega)
  have hmul : bpc (requested b) * (chansOf (sentIdx b)).length ≤ 1028 * 79 :=
    Nat.mul_le_mul hb hn
  apply noPanic_need (by simp only [decide_eq_true_eq]; omega)
  ie hL
  have hL : bpc (requested b) * (chansOf (sentIdx b)).length + 4 = b.length - 52 :=
    Decidable.not_not.1 hL
  apply noPanic_checkBlocks _ _ _ _ _ (by rw [Nat.zero_add]; omega)
  apply noPanic_need (by simp only [decide_eq_true_eq]; omega)
  ie _h7
  exact noPanic_ok _

/-! ### Channel lists and the readout mapping -/

/-- C05 (channel lists): the sent and over-threshold lists are the set bits of the two masks in
ascending order (mask bit `i` is readout index `i + 1`), each mapped through
`ChannelId::try_from`. -/
theorem pwb_channels_sent (b : List UInt8) (p : PwbPacket) (h : decodePwb b = .ok p) :
    p.channelsSent.map some
        = ((List.range 79).filter (fun i => (leAt b 24 10).testBit i)).map
            (fun i => readoutToChannel (i + 1))
    ∧ p.channelsOverThreshold.map some
        = ((List.range 79).filter (fun i => (leAt b 34 10).testBit i)).map
            (fun i => readoutToChannel (i + 1))
    ∧ p.channelsSent.Nodup ∧ p.channelsOverThreshold.Nodup := by
  rw [pwb_fields b p h]
  exact ⟨chansOf_map_some _ (sentBits_lt b), chansOf_map_some _ (thrBits_lt b),
    chansOf_nodup _ (sentBits_lt b) (setBits_nodup _ _),
    chansOf_nodup _ (thrBits_lt b) (setBits_nodup _ _)⟩

/-- C05/C01 (readout mapping): `ChannelId::try_from(u16)` is defined exactly on 1..=79, never
underflows, is injective there, and is onto the 3 reset + 4 FPN + 72 pad channel ids. -/
theorem readout_bijective :
    (∀ i, (readoutToChannel i).isSome = true ↔ 1 ≤ i ∧ i ≤ 79)
    ∧ (∀ i, readoutUnderflows i = false)
    ∧ (∀ i j c, readoutToChannel i = some c → readoutToChannel j = some c → i = j)
    ∧ (∀ i c, readoutToChannel i = some c → c.Valid)
    ∧ (∀ c : ChannelId, c.Valid → ∃ i, 1 ≤ i ∧ i ≤ 79 ∧ readoutToChannel i = some c) :=
  ⟨readout_some_iff, readout_no_underflow, fun _ _ _ hi hj => readout_inj hi hj,
    fun _ _ h => (readout_eq_some h).2.2.1,
    fun c hc => ⟨channelToReadout c, (readout_right_inv c hc).1, (readout_right_inv c hc).2.1,
      (readout_right_inv c hc).2.2⟩⟩

/-! ### Waveforms -/

theorem data_length (b : List UInt8) (w : PwbWellFormed b) :
    (i16s (b.drop 52)).length = spc (leAt b 22 2) * (sentBits b).length + 2 := by
  rw [i16s_length, List.length_drop, w.length, ← bpc_eq_blockBytes, bpc_eq_two_spc, Nat.mul_assoc]
  generalize spc (leAt b 22 2) * (sentBits b).length = q
  omega

/-- C05 (waveforms): the waveform of the `k`-th sent channel is exactly the `requested_samples`
little-endian `i16` samples of its block (which starts at `blockOff b k`, after the 4 header
bytes); a channel that was not sent has no waveform; `waveform_at` never panics. -/
theorem pwb_waveform (b : List UInt8) (p : PwbPacket) (h : decodePwb b = .ok p) :
    (∀ k (hk : k < p.channelsSent.length),
      waveformAt p p.channelsSent[k] = .ok (some ((List.range p.requestedSamples).map
        (fun j => toSigned 16 (leAt b (blockOff b k + 4 + 2 * j) 2)))))
    ∧ (∀ c, c ∉ p.channelsSent → waveformAt p c = .ok none) := by
  obtain ⟨w, rfl⟩ := (decodePwb_ok_iff b p).1 h
  constructor
  · intro k hk
    have hn : (chansOf (sentBits b)).length = (sentBits b).length :=
      chansOf_length _ (sentBits_lt b)
    have hk' : k < (sentBits b).length := by simpa [fields, hn] using hk
    have hnd : (chansOf (sentBits b)).Nodup := chansOf_nodup _ (sentBits_lt b) (setBits_nodup _ _)
    have hpos : position? (fields b).channelsSent[k] (fields b).channelsSent = some k :=
      position?_getElem _ hnd k hk
    have hdl := data_length b w
    have hs := spc_ge (leAt b 22 2)
    have hm : spc (leAt b 22 2) * (k + 1) ≤ spc (leAt b 22 2) * (sentBits b).length :=
      Nat.mul_le_mul_left _ hk'
    rw [Nat.mul_succ] at hm
    have hL := w.length
    rw [← bpc_eq_blockBytes, bpc_eq_two_spc] at hL
    have hwin := i16s_window b 52 (spc (leAt b 22 2) * k + 2) (leAt b 22 2) (by
      rw [hL, Nat.mul_assoc]
      generalize spc (leAt b 22 2) * (sentBits b).length = q at *
      generalize spc (leAt b 22 2) * k = r at *
      omega)
    unfold waveformAt
    rw [hpos]
    simp only [reduceCtorEq, if_false, Option.getD_some]
    have e1 : (fields b).requestedSamples = leAt b 22 2 := rfl
    have e2 : (fields b).data = i16s (b.drop 52) := rfl
    rw [e1, e2, need_eq (by simp only [decide_eq_true_eq]; omega),
      need_eq (by simp only [decide_eq_true_eq]; omega), hwin]
    congr 2
    apply List.map_congr_left
    intro j _
    unfold blockOff
    rw [← bpc_eq_blockBytes, bpc_eq_two_spc]
    congr 2
    rw [Nat.mul_add, Nat.mul_assoc]
    omega
  · intro c hc
    unfold waveformAt
    rw [(position?_eq_none_iff c _).2 hc]
    simp

/-- C01 (totality of `waveform_at`): on a decoded packet `waveform_at` never panics, for any
channel id. -/
theorem waveformAt_total (b : List UInt8) (p : PwbPacket) (h : decodePwb b = .ok p)
    (c : ChannelId) : NoPanic (waveformAt p c) := by
  obtain ⟨h1, h2⟩ := pwb_waveform b p h
  by_cases hc : c ∈ p.channelsSent
  · obtain ⟨k, hk, rfl⟩ := List.mem_iff_getElem.1 hc
    rw [h1 k hk]; exact noPanic_ok _
  · rw [h2 c hc]; exact noPanic_ok _

/-! ### Round trip -/

theorem ofNat_bytes (b : List UInt8) (i : Nat) : ∀ k, i + k ≤ b.length →
    (List.range k).map (fun j => UInt8.ofNat (byteAt b (i + j))) = (b.drop i).take k
  | 0, _ => by simp
  | k + 1, h => by
    rw [List.range_succ, List.map_append, ofNat_bytes b i k (by omega), List.take_add,
      List.drop_drop]
    simp only [List.map_cons, List.map_nil]
    rw [take1 b (i + k) (by omega)]

theorem boardOfMac_mac (b : List UInt8) (w : PwbWellFormed b) :
    ((boardOfMac (macOf b)).getD ("", [], 0)).2.1 = macOf b := by
  have hne := (boardOfMac_ne_none (macOf b)).2 w.mac
  cases hm : boardOfMac (macOf b) with
  | none => exact absurd hm hne
  | some t =>
    unfold boardOfMac at hm
    have := List.find?_some hm
    simpa using this

/-- The encoding of the `k`-th sent channel's block is the `k`-th `bpc`-byte window of the data
section. -/
theorem encodeBlock_eq (b : List UInt8) (w : PwbWellFormed b) (h : decodePwb b = .ok (fields b))
    (k : Nat) (hk : k < (chansOf (sentBits b)).length) :
    encodeBlock (fields b) (chansOf (sentBits b))[k]
      = ((b.drop 52).drop (bpc (leAt b 22 2) * k)).take (bpc (leAt b 22 2)) := by
  have hn : (chansOf (sentBits b)).length = (sentBits b).length :=
    chansOf_length _ (sentBits_lt b)
  have hk' : k < (sentBits b).length := by rw [← hn]; exact hk
  have hw := (pwb_waveform b _ h).1 k hk
  have hc := (readout_eq_some (chansOf_getElem _ (sentBits_lt b) k hk hk')).2.2.2
  obtain ⟨b1, b2, b3⟩ := w.blocks k hk'
  have hL := w.length
  have hm : blockBytes (leAt b 22 2) * (k + 1) ≤ blockBytes (leAt b 22 2) * (sentBits b).length :=
    Nat.mul_le_mul_left _ hk'
  rw [Nat.mul_succ] at hm
  have e1 : (fields b).requestedSamples = leAt b 22 2 := rfl
  have e2 : (fields b).channelsSent = chansOf (sentBits b) := rfl
  simp only [e2] at hw
  unfold encodeBlock
  rw [hw, hc, e1, ← b1]
  simp only []
  rw [List.drop_drop, bpc_eq_blockBytes]
  unfold blockOff at b1 b2 b3 ⊢
  generalize hoff : 52 + blockBytes (leAt b 22 2) * k = off at *
  have hbb : blockBytes (leAt b 22 2) = 4 + 2 * leAt b 22 2 + (if leAt b 22 2 % 2 = 1 then 2 else 0) := rfl
  rw [leBytes_leAt b off 2 (by omega)]
  have hsz : leBytes (leAt b 22 2) 2 = (b.drop (off + 2)).take 2 := by
    rw [← b2]; exact leBytes_leAt b (off + 2) 2 (by omega)
  rw [hsz, waveBytes_range b (off + 4) (leAt b 22 2) (by omega)]
  have cat : ∀ a c, (b.drop off).take (a + c) = (b.drop off).take a ++ (b.drop (off + a)).take c := by
    intro a c; rw [List.take_add, List.drop_drop]
  by_cases ho : leAt b 22 2 % 2 = 0
  · have hne : ¬leAt b 22 2 % 2 = 1 := by omega
    rw [if_pos ho, hbb, if_neg hne, List.append_nil,
      show 4 + 2 * leAt b 22 2 + 0 = (2 + 2) + 2 * leAt b 22 2 by omega,
      cat (2 + 2) (2 * leAt b 22 2), cat 2 2]
  · have h1 : leAt b 22 2 % 2 = 1 := by omega
    have hz : ([0, 0] : List UInt8) = leBytes (leAt b (off + 4 + 2 * leAt b 22 2) 2) 2 := by
      rw [b3 h1]; rfl
    rw [if_neg ho, hbb, if_pos h1, hz, leBytes_leAt b _ 2 (by omega),
      show 4 + 2 * leAt b 22 2 + 2 = ((2 + 2) + 2 * leAt b 22 2) + 2 by omega,
      cat ((2 + 2) + 2 * leAt b 22 2) 2, cat (2 + 2) (2 * leAt b 22 2), cat 2 2]
    simp only [Nat.reduceAdd, Nat.add_assoc]

/-- C05 (round trip): re-encoding the accessors of an accepted packet (header fields, the two
channel lists, `waveform_at` of every sent channel) in the documented layout reproduces the
input bytes exactly. -/
theorem pwb_roundtrip (b : List UInt8) (p : PwbPacket) (h : decodePwb b = .ok p) :
    encodePwb p = b := by
  obtain ⟨w, rfl⟩ := (decodePwb_ok_iff b p).1 h
  have hn : (chansOf (sentBits b)).length = (sentBits b).length :=
    chansOf_length _ (sentBits_lt b)
  have hL := w.length
  have h56 := w.minLen
  have hb1 := byteAt_lt b 1
  -- the data section
  have hblocks : (fields b).channelsSent.flatMap (encodeBlock (fields b))
      = (b.drop 52).take (bpc (leAt b 22 2) * (sentBits b).length) := by
    rw [← hn]
    exact flatMap_blocks _ _ _ _ (fun k hk => encodeBlock_eq b w h k hk)
  rw [bpc_eq_blockBytes] at hblocks
  generalize hB : blockBytes (leAt b 22 2) * (sentBits b).length = B at *
  have hmark : ([0xCC, 0xCC, 0xCC, 0xCC] : List UInt8) = (b.drop (52 + B)).take 4 := by
    have : ([0xCC, 0xCC, 0xCC, 0xCC] : List UInt8) = leBytes (leAt b (b.length - 4) 4) 4 := by
      rw [w.marker]; rfl
    rw [this, leBytes_leAt b _ 4 (by omega), show b.length - 4 = 52 + B by omega]
  -- the 52 header bytes
  have p0 : ([2, UInt8.ofNat (65 + (fields b).afterId), UInt8.ofNat (fields b).compression,
      UInt8.ofNat (fields b).triggerSource] : List UInt8) = (b.drop 0).take 4 := by
    rw [← ofNat_bytes b 0 4 (by omega)]
    have e : 65 + (fields b).afterId = byteAt b 1 := by
      show 65 + (byteAt b 1 - 65) = byteAt b 1
      have := w.chip; omega
    have e0 : (2 : UInt8) = UInt8.ofNat (byteAt b 0) := by rw [w.version]; rfl
    rw [e, e0]; rfl
  have p1 : (fields b).mac.map UInt8.ofNat = (b.drop 4).take 6 := by
    show (((boardOfMac (macOf b)).getD ("", [], 0)).2.1).map UInt8.ofNat = _
    rw [boardOfMac_mac b w, ← ofNat_bytes b 4 6 (by omega)]; rfl
  have p2 : leBytes (fields b).triggerDelay 2 = (b.drop 10).take 2 := leBytes_leAt b 10 2 (by omega)
  have p3 : leBytes (fields b).triggerTimestamp 6 = (b.drop 12).take 6 :=
    leBytes_leAt b 12 6 (by omega)
  have p4 : ([0, 0] : List UInt8) = (b.drop 18).take 2 := by
    rw [← ofNat_bytes b 18 2 (by omega)]
    show _ = [UInt8.ofNat (byteAt b (18 + 0)), UInt8.ofNat (byteAt b (18 + 1))]
    rw [show 18 + 0 = 18 by rfl, show 18 + 1 = 19 by rfl, w.zero1819.1, w.zero1819.2]; rfl
  have p5 : leBytes (fields b).lastScaCell 2 = (b.drop 20).take 2 := leBytes_leAt b 20 2 (by omega)
  have p6 : leBytes (fields b).requestedSamples 2 = (b.drop 22).take 2 :=
    leBytes_leAt b 22 2 (by omega)
  have p7 : leBytes (maskOf (fields b).channelsSent) 10 = (b.drop 24).take 10 := by
    show leBytes (maskOf (chansOf (setBits (leAt b 24 10) 79))) 10 = _
    rw [maskOf_setBits _ (mask_lt_of_bit79 b 24 w.sentBit79)]
    exact leBytes_leAt b 24 10 (by omega)
  have p8 : leBytes (maskOf (fields b).channelsOverThreshold) 10 = (b.drop 34).take 10 := by
    show leBytes (maskOf (chansOf (setBits (leAt b 34 10) 79))) 10 = _
    rw [maskOf_setBits _ (mask_lt_of_bit79 b 34 w.thrBit79)]
    exact leBytes_leAt b 34 10 (by omega)
  have p9 : leBytes (fields b).eventCounter 4 = (b.drop 44).take 4 := leBytes_leAt b 44 4 (by omega)
  have p10 : leBytes (fields b).fifoMaxDepth 2 = (b.drop 48).take 2 := leBytes_leAt b 48 2 (by omega)
  have p11 : ([UInt8.ofNat (fields b).eventDescriptorWriteDepth,
      UInt8.ofNat (fields b).eventDescriptorReadDepth] : List UInt8) = (b.drop 50).take 2 := by
    rw [← ofNat_bytes b 50 2 (by omega)]; rfl
  unfold encodePwb
  rw [p0, p1, p2, p3, p4, p5, p6, p7, p8, p9, p10, p11, hblocks, hmark]
  have hend : b.drop (52 + B + 4) = [] := List.drop_eq_nil_of_le (by omega)
  conv => rhs; rw [← List.drop_zero (l := b), drop_split b 0 4, drop_split b 4 6,
    drop_split b 10 2, drop_split b 12 6, drop_split b 18 2, drop_split b 20 2,
    drop_split b 22 2, drop_split b 24 10, drop_split b 34 10, drop_split b 44 4,
    drop_split b 48 2, drop_split b 50 2, drop_split b 52 B, drop_split b (52 + B) 4, hend]
  simp only [List.append_assoc, List.append_nil]

/-! ### `suppression_baseline` (C01 part) -/

theorem sum_bounds (lo hi : Int) : ∀ (l : List Int), (∀ x ∈ l, lo ≤ x ∧ x ≤ hi) →
    lo * l.length ≤ l.sum ∧ l.sum ≤ hi * l.length
  | [], _ => by simp
  | x :: l, h => by
    have hx := h x List.mem_cons_self
    have ih := sum_bounds lo hi l (fun y hy => h y (List.mem_cons_of_mem _ hy))
    simp only [List.sum_cons, List.length_cons, Int.natCast_add, Int.mul_add]
    omega

theorem tdiv64_bounds (s : Int) (h1 : -32768 * 64 ≤ s) (h2 : s ≤ 32767 * 64) :
    -32768 ≤ Int.tdiv s 64 ∧ Int.tdiv s 64 < 32768 := by
  by_cases hs : 0 ≤ s
  · rw [Int.tdiv_eq_ediv_of_nonneg hs]; omega
  · have : s = -(-s) := by omega
    rw [this, Int.neg_tdiv, Int.tdiv_eq_ediv_of_nonneg (by omega)]; omega

/-- C01 (totality of `suppression_baseline`): for every slice of `i16` samples the function
returns `Ok`/`Err`; the `i32` sum cannot overflow and the mean always fits an `i16`. -/
theorem baseline_total (w : List Int) (hw : ∀ x ∈ w, -32768 ≤ x ∧ x ≤ 32767) :
    NoPanic (suppressionBaseline w) := by
  unfold suppressionBaseline
  apply noPanic_ite_err; intro hlen
  have hl : ((w.drop 4).take 64).length = 64 := by
    rw [List.length_take, List.length_drop]; omega
  have hb := sum_bounds (-32768) 32767 ((w.drop 4).take 64)
    (fun x hx => hw x (List.mem_of_mem_drop (List.mem_of_mem_take hx)))
  rw [hl] at hb
  have ht := tdiv64_bounds ((w.drop 4).take 64).sum (by omega) (by omega)
  apply noPanic_need (by simp only [decide_eq_true_eq]; omega)
  apply noPanic_need (by simp only [decide_eq_true_eq]; omega)
  apply noPanic_need (by simp only [decide_eq_true_eq]; omega)
  apply noPanic_need (by simp only [decide_eq_true_eq]; exact ⟨by omega, by omega⟩)
  exact noPanic_ok _

/-! ### Non-vacuity -/

/-- The documentation's example packet (tests.rs `ODD_PWB_V2_PACKET`): 3 channels, 5 samples. -/
def docPacket : List UInt8 :=
  [2, 68, 0, 0, 236, 40, 255, 135, 84, 2, 1, 0, 2, 0, 0, 0, 0, 0, 0, 0, 3, 0, 5, 0, 0, 0, 0, 0, 0,
   0, 0, 1, 1, 1, 1, 1, 1, 0, 0, 0, 0, 0, 0, 0, 4, 0, 0, 0, 5, 0, 6, 7, 57, 0, 5, 0, 1, 2, 3, 4,
   5, 6, 7, 8, 9, 10, 0, 0, 65, 0, 5, 0, 11, 12, 13, 14, 15, 16, 17, 18, 19, 20, 0, 0, 73, 0, 5,
   0, 21, 22, 23, 24, 25, 26, 27, 28, 29, 30, 0, 0, 204, 204, 204, 204]

set_option maxRecDepth 100000 in
example : (decodePwb docPacket).isOk = true := by decide +kernel
set_option maxRecDepth 100000 in
example : encodePwb (fields docPacket) = docPacket := by decide +kernel

end AlphaG.Pwb
