import AlphaG.Props.C04
/-
C04 — completeness of reassembly. `Props/C04.lean` proves order-independence and that every listed
fault is rejected; this file proves the other half: the acceptance condition is *exactly*
"non-empty, one board, one chip, gap-free ids from 0, end-of-message on the last chunk only, equal
non-final sizes, concatenated payloads decode" (`reassemble_ok_iff`), so no further hidden
condition can reject a correct chunk set in any arrival order (`reassemble_complete`), and the
`usize` product of the pre-allocation cannot overflow on decoder-produced chunks
(`bound_of_valid`).
-/
namespace AlphaG.Pwb

/-- Completeness on the sorted vector. -/

theorem reassembleSorted_complete (s : List ChunkV) (p : PwbPacket) (g : SortedGood s)
    (hb : len0 s * s.length < 2 ^ 64) (hd : decodePwb (s.flatMap (·.payload)) = .ok p) :
    reassembleSorted s = .ok p := by
  unfold reassembleSorted
  simp only [ite_err_eq_ok, need_eq_ok, liftPayload_eq_ok, decide_eq_true_eq, Bool.not_eq_true,
    Option.isSome_eq_false_iff, Option.isNone_iff_eq_none, List.findIdx?_eq_none_iff,
    List.find?_eq_none, Bool.not_eq_eq_eq_not, Bool.not_true, bne_eq_false_iff_eq]
  have hne := g.ne
  refine ⟨(idMismatchPos_none_iff s 0).2 g.ids, ?_, ?_, by omega, g.noEarlyEom, g.ne, g.sameLen, hb, hd⟩
  · cases s with
    | nil => simp at hne
    | cons a t => simp
  · simpa using g.last


theorem dev0_valid (l : List ChunkV) (hne : l ≠ []) (hv : ∀ c ∈ l, c.Valid) :
    (boardOfDevice (dev0 l)).isSome = true ∧ chip0 l ≤ 3 := by
  cases l with
  | nil => exact absurd rfl hne
  | cons a t => exact ⟨(hv a (by simp)).1, (hv a (by simp)).2.1⟩

/-- C04 (completeness): a non-empty set of valid chunks of one board and one chip whose sorted
order is a gap-free id sequence ending in the only end-of-message chunk, with equal non-final
sizes, reassembles — in any arrival order — to exactly the packet decoded from the concatenated
payloads. -/
theorem reassemble_complete (l : List ChunkV) (p : PwbPacket) (hne : l ≠ [])
    (hv : ∀ c ∈ l, c.Valid) (hdev : ∀ c ∈ l, c.deviceId = dev0 l)
    (hchip : ∀ c ∈ l, c.chip = chip0 l) (g : SortedGood (sortById l))
    (hb : len0 (sortById l) * (sortById l).length < 2 ^ 64)
    (hd : decodePwb ((sortById l).flatMap (·.payload)) = .ok p) : reassemble l = .ok p := by
  obtain ⟨hd0, hc0⟩ := dev0_valid l hne hv
  have hbs := boardScan_valid (dev0 l) hd0 l (fun c hc => (hv c hc).1)
  have hcs := chipScan_valid (chip0 l) hc0 l (fun c hc => (hv c hc).2.1)
  rw [if_pos hdev] at hbs
  rw [if_pos hchip] at hcs
  unfold reassemble reassembleWith
  have he : l.isEmpty = false := by cases l <;> simp_all
  simp only [he, hbs, hcs, Bool.false_eq_true, if_false, reduceCtorEq]
  exact reassembleSorted_complete _ p g hb hd


/-- The `usize` product `chunks[0].payload().len() * chunks.len()` cannot overflow on chunks that
came out of the chunk decoder: at most 65536 gap-free ids, at most 65535 payload bytes each. -/
theorem bound_of_valid (s : List ChunkV) (hv : ∀ c ∈ s, c.Valid) (g : SortedGood s) :
    len0 s * s.length < 2 ^ 64 := by
  have hne := g.ne
  have h0 : len0 s ≤ 65535 := by
    cases s with
    | nil => simp [len0]
    | cons a t => exact (hv a (by simp)).2.2.2.2
  have hn : s.length ≤ 65536 := by
    have hlast : (s.map (·.chunkId))[s.length - 1]'(by simp; omega) = s.length - 1 := by
      simp only [g.ids, List.getElem_range']; omega
    rw [List.getElem_map] at hlast
    have hi : s.length - 1 < s.length := by omega
    have := (hv _ (List.getElem_mem hi)).2.2.2.1
    omega
  calc len0 s * s.length ≤ 65535 * 65536 := Nat.mul_le_mul h0 hn
    _ < 2 ^ 64 := by decide

/-- C04 (exact acceptance condition): for chunks that came out of the chunk decoder, reassembly
succeeds with `p` iff the set is non-empty, of one board and one chip, its sorted order is
`SortedGood`, and the concatenated payloads decode to `p`. -/
theorem reassemble_ok_iff (l : List ChunkV) (p : PwbPacket) (hv : ∀ c ∈ l, c.Valid) :
    reassemble l = .ok p ↔
      l ≠ [] ∧ (∀ c ∈ l, c.deviceId = dev0 l) ∧ (∀ c ∈ l, c.chip = chip0 l)
        ∧ SortedGood (sortById l) ∧ decodePwb ((sortById l).flatMap (·.payload)) = .ok p := by
  constructor
  · intro h
    have hs := reassembleSorted_ok (reassemble_ok_sorted h)
    have hne : l ≠ [] := by
      intro e; subst e; simp [reassemble, reassembleWith] at h
    obtain ⟨hd0, hc0⟩ := dev0_valid l hne hv
    have hbs := boardScan_valid (dev0 l) hd0 l (fun c hc => (hv c hc).1)
    have hcs := chipScan_valid (chip0 l) hc0 l (fun c hc => (hv c hc).2.1)
    unfold reassemble reassembleWith at h
    simp only [ite_err_eq_ok, ite_panic_eq_ok'] at h
    obtain ⟨_, _, h3, _, h5, _⟩ := h
    refine ⟨hne, ?_, ?_, hs.1, hs.2⟩
    · by_cases hc : ∀ c ∈ l, c.deviceId = dev0 l
      · exact hc
      · rw [if_neg hc] at hbs; exact absurd hbs h3
    · by_cases hc : ∀ c ∈ l, c.chip = chip0 l
      · exact hc
      · rw [if_neg hc] at hcs; exact absurd hcs h5
  · rintro ⟨hne, hdev, hchip, g, hd⟩
    have hvs : ∀ c ∈ sortById l, c.Valid := fun c hc => hv c ((sortById_perm l).mem_iff.1 hc)
    exact reassemble_complete l p hne hv hdev hchip g (bound_of_valid _ hvs g) hd

/-- C04 (transport): chunks `cs` cut from a message in id order (one board, one chip, `SortedGood`)
and delivered in *any* order `l` reassemble to exactly the packet that the concatenation of their
payloads decodes to. -/
theorem reassemble_of_sorted_perm (cs l : List ChunkV) (p : PwbPacket) (hp : cs.Perm l)
    (hs : cs.Pairwise (fun a b => a.chunkId ≤ b.chunkId)) (hv : ∀ c ∈ cs, c.Valid) (d k : Nat)
    (hdev : ∀ c ∈ cs, c.deviceId = d) (hchip : ∀ c ∈ cs, c.chip = k) (g : SortedGood cs)
    (hd : decodePwb (cs.flatMap (·.payload)) = .ok p) : reassemble l = .ok p := by
  have hvl : ∀ c ∈ l, c.Valid := fun c hc => hv c (hp.mem_iff.2 hc)
  have hne : l ≠ [] := by
    intro e; subst e
    have := hp.length_eq; have := g.ne; simp_all
  have hd0 : dev0 l = d := by
    cases l with
    | nil => exact absurd rfl hne
    | cons a t => exact hdev a (hp.mem_iff.2 (by simp))
  have hc0 : chip0 l = k := by
    cases l with
    | nil => exact absurd rfl hne
    | cons a t => exact hchip a (hp.mem_iff.2 (by simp))
  have hg : reassembleSorted (sortById l) = .ok p := by
    rw [reassembleSorted_sort_irrelevant _ cs ((sortById_perm l).trans hp.symm)
      (sortById_sorted l) hs]
    exact reassembleSorted_complete cs p g (bound_of_valid cs hv g) hd
  obtain ⟨g', hd'⟩ := reassembleSorted_ok hg
  exact (reassemble_ok_iff l p hvl).2 ⟨hne,
    fun c hc => by rw [hd0]; exact hdev c (hp.mem_iff.2 hc),
    fun c hc => by rw [hc0]; exact hchip c (hp.mem_iff.2 hc), g', hd'⟩

/-- Non-vacuity: the right-hand side of `reassemble_ok_iff` holds for the 3-chunk example message
in a shuffled arrival order. -/
example : [c2, c0, c1] ≠ [] ∧ (∀ c ∈ [c2, c0, c1], c.deviceId = dev0 [c2, c0, c1])
    ∧ (∀ c ∈ [c2, c0, c1], c.chip = chip0 [c2, c0, c1]) ∧ SortedGood (sortById [c2, c0, c1])
    ∧ decodePwb ((sortById [c2, c0, c1]).flatMap (·.payload)) = .ok (fields docPacket) :=
  (reassemble_ok_iff _ _ (by decide +kernel)).1 (by
    rw [reassemble_eq_of_sorted _ [c0, c1, c2] ⟨by decide, sorted012⟩]; decide +kernel)

end AlphaG.Pwb
