import AlphaG.Props.C20
/-
C20, stream level — the per-timestamp theorems of `Props/C20.lean` lifted to whole FIFO streams
of the hardware model. Core Lean only.

A *legal hardware stream* is generated from lists of edges per marker interval:

  pre-epoch edges ++ marker 0 ++ interval 1 ++ marker 1 ++ … ++ interval n-1 ++ marker (n-1) ++ tail

(`hwStream pre intervals tail`, `n - 1 = intervals.length`; the tail is interval `n`, which has
no closing marker). An edge *placed* in interval `k` has a tick `T` with `T / 2^23 ∈ {k-1, k, k+1}`
(FIFO arbitration displaces an edge by at most one interval), and the marker counters stay below
`2^23` (the wire counter is 23 bits wide: above that the hardware counter wraps and `hwMarker`
no longer describes it). `hwStream_rows` gives the exact rows of such a stream; the fault
theorems show that dropping or duplicating a marker never produces a wrong time.
-/
namespace AlphaG.Csv

/-! ### Generator of legal hardware streams -/

/-- An edge of the hardware model: true tick, channel, edge flag. -/
structure Edge where
  T : Nat
  ch : Nat
  leading : Bool
deriving Repr, DecidableEq

/-- The FIFO word of an edge. -/
def Edge.tsc (e : Edge) : Tsc := hwTsc e.T e.ch e.leading

def edgeEntries (es : List Edge) : List Entry := es.map (fun e => Entry.ts e.tsc)

/-- The stream after marker `k-1`: the edges placed in interval `k`, marker `k`, …; the last list
(`tail`) has no closing marker. -/
def hwFrom (k : Nat) : List (List Edge) → List Edge → List Entry
  | [], tail => edgeEntries tail
  | es :: rest, tail => edgeEntries es ++ Entry.marker (hwMarker k) :: hwFrom (k + 1) rest tail

/-- A hardware stream: pre-epoch edges, marker 0, then interval 1, marker 1, …, tail. -/
def hwStream (pre : List Edge) (intervals : List (List Edge)) (tail : List Edge) : List Entry :=
  edgeEntries pre ++ Entry.marker (hwMarker 0) :: hwFrom 1 intervals tail

/-- An edge together with the interval it was placed in and whether that interval is closed by a
marker (everything but the tail). -/
structure PlacedEdge where
  edge : Edge
  interval : Nat
  enclosed : Bool
deriving Repr, DecidableEq

/-- The edges after marker 0 in stream order, with their placement. -/
def placedFrom (k : Nat) : List (List Edge) → List Edge → List PlacedEdge
  | [], tail => tail.map (fun e => ⟨e, k, false⟩)
  | es :: rest, tail => es.map (fun e => ⟨e, k, true⟩) ++ placedFrom (k + 1) rest tail

/-- Displacement bound: the tick belongs to interval `k - 1`, `k` or `k + 1`. -/
def Near (e : Edge) (k : Nat) : Prop :=
  e.T / 2 ^ 23 + 1 = k ∨ e.T / 2 ^ 23 = k ∨ e.T / 2 ^ 23 = k + 1

instance (e : Edge) (k : Nat) : Decidable (Near e k) := by unfold Near; infer_instance

/-- Legality of a generated stream: every edge is displaced by at most one interval from where
its tick belongs (pre-epoch edges sit in interval 0) and the marker counters `0 … intervals.length`
stay below `2^23`. -/
structure Legal (pre : List Edge) (intervals : List (List Edge)) (tail : List Edge) : Prop where
  pre : ∀ e ∈ pre, Near e 0
  placed : ∀ p ∈ placedFrom 1 intervals tail, Near p.edge p.interval
  counters : intervals.length < 2 ^ 23

instance (pre : List Edge) (ivs : List (List Edge)) (tail : List Edge) :
    Decidable (Legal pre ivs tail) :=
  decidable_of_iff ((∀ e ∈ pre, Near e 0) ∧ (∀ p ∈ placedFrom 1 ivs tail, Near p.edge p.interval)
      ∧ ivs.length < 2 ^ 23)
    ⟨fun ⟨a, b, c⟩ => ⟨a, b, c⟩, fun ⟨a, b, c⟩ => ⟨a, b, c⟩⟩

/-- The row the CSV must contain for a placed edge: its channel and edge flag, and the true time
exactly when the edge sits in its own interval and that interval is enclosed by two markers. -/
def expRow (p : PlacedEdge) : CbRow :=
  { channel := p.edge.ch, leading := p.edge.leading,
    time := if p.enclosed = true ∧ p.edge.T / 2 ^ 23 = p.interval then some (trueTime p.edge.T)
            else none }

/-- One row per edge placed after marker 0, in stream order. -/
def expectedRows (intervals : List (List Edge)) (tail : List Edge) : List CbRow :=
  (placedFrom 1 intervals tail).map expRow

/-- The edges after marker 0, in stream order. -/
def postEdges (intervals : List (List Edge)) (tail : List Edge) : List Edge :=
  intervals.flatten ++ tail

theorem placedFrom_edges (k : Nat) (ivs : List (List Edge)) (tail : List Edge) :
    (placedFrom k ivs tail).map (·.edge) = postEdges ivs tail := by
  induction ivs generalizing k with
  | nil => simp [placedFrom, postEdges, Function.comp_def]
  | cons es rest ih =>
    simp [placedFrom, ih, postEdges, Function.comp_def]

/-! ### The row loop on generated streams -/

theorem rowsGo_edges (prev : Option Marker) (pend : List Tsc) (es : List Edge)
    (rest : List Entry) :
    rowsGo prev pend (edgeEntries es ++ rest) = rowsGo prev (pend ++ es.map Edge.tsc) rest := by
  induction es generalizing pend with
  | nil => simp [edgeEntries]
  | cons e es ih =>
    have : edgeEntries (e :: es) ++ rest = Entry.ts e.tsc :: (edgeEntries es ++ rest) := rfl
    rw [this, rowsGo, ih, List.map_cons, List.append_assoc]
    rfl

theorem rowsGo_edges_nil (prev : Option Marker) (es : List Edge) :
    rowsGo prev [] (edgeEntries es) = (es.map Edge.tsc).map (rowFor prev none) := by
  have := rowsGo_edges prev [] es []
  rw [List.append_nil, List.nil_append] at this
  rw [this, rowsGo]

theorem rowsGo_edges_marker (prev : Option Marker) (es : List Edge) (m : Marker)
    (rest : List Entry) :
    rowsGo prev [] (edgeEntries es ++ Entry.marker m :: rest)
      = (es.map Edge.tsc).map (rowFor prev (some m)) ++ rowsGo (some m) [] rest := by
  rw [rowsGo_edges, List.nil_append, rowsGo]

/-- Skipping to the counter-0 marker of a generated stream. -/
theorem boardRows_epoch (pre : List Edge) (rest : List Entry) :
    boardRows true (edgeEntries pre ++ Entry.marker (hwMarker 0) :: rest)
      = .ok (rowsGo (some (hwMarker 0)) [] rest) := by
  unfold boardRows
  have : (edgeEntries pre ++ Entry.marker (hwMarker 0) :: rest).dropWhile (fun e => !isEpoch0 e)
      = Entry.marker (hwMarker 0) :: rest := by
    induction pre with
    | nil => rfl
    | cons p ps ih => exact ih
  rw [this]
  rfl

/-- The epoch logic on an edge placed between markers `k-1` and `k` with a displacement of at
most one interval: the true time iff the edge is in its own interval. -/
theorem cbtime_placed (e : Edge) (k : Nat) (hk : 1 ≤ k) (hn : Near e k) :
    chronoboxTime e.tsc (some (hwMarker (k - 1))) (some (hwMarker k))
      = if e.T / 2 ^ 23 = k then some (trueTime e.T) else none := by
  by_cases h : e.T / 2 ^ 23 = k
  · rw [if_pos h]; exact cbtime_correct e.T e.ch e.leading k hk h
  · rw [if_neg h]
    unfold Near at hn
    unfold Edge.tsc chronoboxTime hwMarker hwTsc
    simp only [shift23]
    have hc : k - 1 + 1 = k := by omega
    have htop : decide ((k - 1) % 2 = 1) ≠ decide (k % 2 = 1) := by
      simp only [ne_eq, decide_eq_decide]; omega
    rw [if_pos ⟨hc, htop⟩]
    have hbit : ¬ (decide (e.T % 2 ^ 24 / 2 * 2 / 2 ^ 23 = 1) ≠ decide ((k - 1) % 2 = 1)) := by
      simp only [ne_eq, decide_eq_decide, Decidable.not_not]; omega
    rw [if_neg hbit]

theorem rowFor_enclosed (e : Edge) (k : Nat) (hk : 1 ≤ k) (hn : Near e k) :
    rowFor (some (hwMarker (k - 1))) (some (hwMarker k)) e.tsc = expRow ⟨e, k, true⟩ := by
  unfold rowFor expRow
  rw [cbtime_placed e k hk hn]
  simp [Edge.tsc, hwTsc]

theorem rowFor_open (e : Edge) (k : Nat) (prev : Option Marker) :
    rowFor prev none e.tsc = expRow ⟨e, k, false⟩ := by
  unfold rowFor expRow
  cases prev <;> simp [chronoboxTime, Edge.tsc, hwTsc]

/-- The rows of the stream after marker `k-1`. -/
theorem rowsGo_hwFrom (k : Nat) (hk : 1 ≤ k) (ivs : List (List Edge)) (tail : List Edge)
    (hl : ∀ p ∈ placedFrom k ivs tail, Near p.edge p.interval) :
    rowsGo (some (hwMarker (k - 1))) [] (hwFrom k ivs tail) = (placedFrom k ivs tail).map expRow := by
  induction ivs generalizing k with
  | nil =>
    rw [hwFrom, rowsGo_edges_nil, placedFrom, List.map_map, List.map_map]
    apply List.map_congr_left
    intro e _
    exact rowFor_open e k _
  | cons es rest ih =>
    rw [placedFrom, List.forall_mem_append] at hl
    rw [hwFrom, rowsGo_edges_marker, placedFrom, List.map_append, List.map_map, List.map_map]
    have h1 := ih (k + 1) (by omega) hl.2
    rw [Nat.add_sub_cancel] at h1
    rw [h1]
    congr 1
    apply List.map_congr_left
    intro e he
    exact rowFor_enclosed e k hk (hl.1 _ (List.mem_map_of_mem he))

/-- **Rows of a legal stream.** The program writes exactly one row per edge after marker 0, in
stream order, with its channel and edge flag; the time is the true time of the edge exactly when
the edge sits in its own marker interval and is enclosed by two markers, and empty otherwise
(displaced edges, the unclosed tail). Pre-epoch edges give no row. -/
theorem hwStream_rows (pre : List Edge) (ivs : List (List Edge)) (tail : List Edge)
    (hl : Legal pre ivs tail) :
    boardRows true (hwStream pre ivs tail) = .ok (expectedRows ivs tail) := by
  unfold hwStream expectedRows
  rw [boardRows_epoch]
  exact congrArg _ (rowsGo_hwFrom 1 (Nat.le_refl 1) ivs tail hl.placed)

/-- The counters of a legal stream are the consecutive numbers `0 … intervals.length`, all below
`2^23`, i.e. representable in the 23-bit wire field (so `hwMarker` is the hardware's marker). -/
theorem hwFrom_counters (k : Nat) (ivs : List (List Edge)) (tail : List Edge) (m : Marker)
    (h : Entry.marker m ∈ hwFrom k ivs tail) : k ≤ m.counter ∧ m.counter < k + ivs.length := by
  induction ivs generalizing k with
  | nil => simp [hwFrom, edgeEntries] at h
  | cons es rest ih =>
    simp only [hwFrom, edgeEntries, List.mem_append, List.mem_map, List.mem_cons, reduceCtorEq,
      and_false, exists_false, false_or, Entry.marker.injEq] at h
    rcases h with rfl | h
    · simp only [hwMarker, List.length_cons]; omega
    · have := ih (k + 1) h
      simp only [List.length_cons]; omega

theorem hwStream_counters (pre : List Edge) (ivs : List (List Edge)) (tail : List Edge)
    (hl : Legal pre ivs tail) (m : Marker) (h : Entry.marker m ∈ hwStream pre ivs tail) :
    m.counter < 2 ^ 23 := by
  have hc := hl.counters
  simp only [hwStream, edgeEntries, List.mem_append, List.mem_map, List.mem_cons, reduceCtorEq,
    and_false, exists_false, false_or, Entry.marker.injEq] at h
  rcases h with rfl | h
  · simp [hwMarker]
  · have := hwFrom_counters 1 ivs tail m h
    omega

/-! ### Corollaries: never a wrong time, empty exactly when stated -/

/-- Row-by-row relation "right channel, right edge flag, and any reported time is the true time"
between the CSV rows and the edges they belong to (same length, same order). -/
def RowsNeverWrong : List CbRow → List Edge → Prop
  | [], [] => True
  | r :: rs, e :: es =>
    (r.channel = e.ch ∧ r.leading = e.leading ∧ ∀ t, r.time = some t → t = trueTime e.T)
      ∧ RowsNeverWrong rs es
  | _, _ => False

theorem RowsNeverWrong.append {r1 r2 : List CbRow} {e1 e2 : List Edge}
    (h1 : RowsNeverWrong r1 e1) (h2 : RowsNeverWrong r2 e2) :
    RowsNeverWrong (r1 ++ r2) (e1 ++ e2) := by
  induction r1 generalizing e1 with
  | nil => cases e1 with
    | nil => exact h2
    | cons _ _ => exact h1.elim
  | cons r rs ih => cases e1 with
    | nil => exact h1.elim
    | cons e es => exact ⟨h1.1, ih h1.2⟩

/-- Indexed reading of `RowsNeverWrong`. -/
theorem RowsNeverWrong.index {rows : List CbRow} {es : List Edge} (h : RowsNeverWrong rows es) :
    rows.length = es.length ∧
    ∀ i (h1 : i < rows.length) (h2 : i < es.length),
      rows[i].channel = es[i].ch ∧ rows[i].leading = es[i].leading ∧
      ∀ t, rows[i].time = some t → t = trueTime es[i].T := by
  induction rows generalizing es with
  | nil => cases es with
    | nil => exact ⟨rfl, fun i h1 => absurd h1 (Nat.not_lt_zero i)⟩
    | cons _ _ => exact h.elim
  | cons r rs ih => cases es with
    | nil => exact h.elim
    | cons e es =>
      obtain ⟨hl, hi⟩ := ih h.2
      refine ⟨by simp [hl], ?_⟩
      intro i h1 h2
      cases i with
      | zero => exact h.1
      | succ i => exact hi i (Nat.lt_of_succ_lt_succ h1) (Nat.lt_of_succ_lt_succ h2)

theorem rowsNeverWrong_expected (ps : List PlacedEdge) :
    RowsNeverWrong (ps.map expRow) (ps.map (·.edge)) := by
  induction ps with
  | nil => exact trivial
  | cons p ps ih =>
    refine ⟨⟨rfl, rfl, ?_⟩, ih⟩
    intro t ht
    unfold expRow at ht
    simp only at ht
    split at ht
    · injection ht with ht; exact ht.symm
    · cases ht

/-- **Never a wrong time, stream level.** For every legal hardware stream the program succeeds
and its rows correspond one to one, in order, to the edges after marker 0, each with the right
channel and edge flag, and every reported time is the true time of that edge. -/
theorem stream_never_wrong (pre : List Edge) (ivs : List (List Edge)) (tail : List Edge)
    (hl : Legal pre ivs tail) :
    ∃ rows, boardRows true (hwStream pre ivs tail) = .ok rows
      ∧ RowsNeverWrong rows (postEdges ivs tail) := by
  refine ⟨_, hwStream_rows pre ivs tail hl, ?_⟩
  unfold expectedRows
  rw [← placedFrom_edges 1 ivs tail]
  exact rowsNeverWrong_expected _

/-- **Empty exactly when stated.** Row `i` of a legal stream has an empty time iff its edge is
not enclosed by two markers (it sits in the tail) or lies on the wrong side of a marker (it was
displaced out of the interval its tick belongs to). -/
theorem stream_empty_iff (pre : List Edge) (ivs : List (List Edge)) (tail : List Edge)
    (hl : Legal pre ivs tail) (rows : List CbRow)
    (h : boardRows true (hwStream pre ivs tail) = .ok rows) :
    rows.length = (placedFrom 1 ivs tail).length ∧
    ∀ i (h1 : i < rows.length) (h2 : i < (placedFrom 1 ivs tail).length),
      (rows[i].time = none ↔
        ((placedFrom 1 ivs tail)[i].enclosed = false ∨
          (placedFrom 1 ivs tail)[i].edge.T / 2 ^ 23 ≠ (placedFrom 1 ivs tail)[i].interval)) := by
  rw [hwStream_rows pre ivs tail hl] at h
  injection h with h
  subst h
  refine ⟨by simp [expectedRows], ?_⟩
  intro i h1 h2
  simp only [expectedRows, List.getElem_map, expRow]
  generalize (placedFrom 1 ivs tail)[i] = p
  cases he : p.enclosed <;> by_cases ht : p.edge.T / 2 ^ 23 = p.interval <;> simp [ht]

/-! ### Faulty streams: a general invariant

Items of a stream carry a sort key: an edge placed in interval `k` has key `2k`, marker `c` has
key `2c+1`. A legal stream has non-decreasing keys, and so has every stream obtained from it by
dropping or duplicating markers (any number of them). On every such stream the program never
reports a wrong time: an edge placed in interval `k` ends up between markers `a < k ≤ b`, the
epoch logic refuses unless `b = a + 1`, which forces `k = b`, and then `never_wrong` applies. -/

inductive Item where
  | edge (e : Edge) (k : Nat)
  | mark (c : Nat)
deriving Repr, DecidableEq

def Item.key : Item → Nat
  | .edge _ k => 2 * k
  | .mark c => 2 * c + 1

def Item.entry : Item → Entry
  | .edge e _ => Entry.ts e.tsc
  | .mark c => Entry.marker (hwMarker c)

def Item.ok : Item → Prop
  | .edge e k => Near e k
  | .mark _ => True

def itemEdges : List Item → List Edge
  | [] => []
  | .edge e _ :: rest => e :: itemEdges rest
  | .mark _ :: rest => itemEdges rest

/-- A stream with non-decreasing keys, all at least `lo`, whose edges obey the displacement bound. -/
structure Ordered (lo : Nat) (its : List Item) : Prop where
  sorted : its.Pairwise (fun x y => x.key ≤ y.key)
  ok : ∀ x ∈ its, x.ok
  lo : ∀ x ∈ its, lo ≤ x.key

theorem cbtime_some_consecutive (t : Tsc) (a b : Nat) (x : Nat)
    (h : chronoboxTime t (some (hwMarker a)) (some (hwMarker b)) = some x) : b = a + 1 := by
  by_cases hb : b = a + 1
  · exact hb
  · have : chronoboxTime t (some (hwMarker a)) (some (hwMarker b)) = none :=
      (cbtime_none_iff _ _ _).2
        (.inr (.inr ⟨_, _, rfl, rfl, .inl (by simp only [hwMarker]; omega)⟩))
    rw [this] at h; cases h

theorem rowsNeverWrong_map (es : List Edge) (p n : Option Marker)
    (h : ∀ e ∈ es, ∀ t, chronoboxTime e.tsc p n = some t → t = trueTime e.T) :
    RowsNeverWrong ((es.map Edge.tsc).map (rowFor p n)) es := by
  induction es with
  | nil => exact trivial
  | cons e es ih =>
    exact ⟨⟨rfl, rfl, h e List.mem_cons_self⟩, ih (fun e' he' => h e' (List.mem_cons_of_mem _ he'))⟩

/-- The row loop after marker `a` on an ordered stream, with pending edges `pend` (each with the
interval it was placed in, above `a` and not above any later marker). -/
theorem rowsGo_ordered (a : Nat) (pend : List (Edge × Nat)) (its : List Item)
    (hp : ∀ p ∈ pend, Near p.1 p.2 ∧ a < p.2 ∧ ∀ c, Item.mark c ∈ its → p.2 ≤ c)
    (ho : Ordered (2 * a + 1) its) :
    RowsNeverWrong
      (rowsGo (some (hwMarker a)) ((pend.map (·.1)).map Edge.tsc) (its.map Item.entry))
      (pend.map (·.1) ++ itemEdges its) := by
  induction its generalizing a pend with
  | nil =>
    rw [List.map_nil, rowsGo, itemEdges, List.append_nil]
    apply rowsNeverWrong_map
    intro e _ t ht
    simp [chronoboxTime] at ht
  | cons x rest ih =>
    obtain ⟨hs, hok, hlo⟩ := ho
    rw [List.pairwise_cons] at hs
    have ho' : ∀ lo, (∀ y ∈ rest, lo ≤ y.key) → Ordered lo rest := fun lo h =>
      ⟨hs.2, fun y hy => hok y (List.mem_cons_of_mem _ hy), h⟩
    cases x with
    | edge e k =>
      have hk : 2 * a + 1 ≤ 2 * k := hlo _ List.mem_cons_self
      have hnear : Near e k := hok _ List.mem_cons_self
      have := ih a (pend ++ [(e, k)])
        (by
          intro p hp'
          rw [List.mem_append, List.mem_singleton] at hp'
          rcases hp' with hp' | rfl
          · obtain ⟨h1, h2, h3⟩ := hp p hp'
            exact ⟨h1, h2, fun c hc => h3 c (List.mem_cons_of_mem _ hc)⟩
          · refine ⟨hnear, by omega, fun c hc => ?_⟩
            have := hs.1 _ hc
            simp only [Item.key] at this
            omega)
        (ho' _ (fun y hy => hlo y (List.mem_cons_of_mem _ hy)))
      rw [List.map_append, List.map_append, List.map_cons, List.map_nil, List.map_cons,
        List.map_nil, List.append_assoc] at this
      rw [List.map_cons, Item.entry, rowsGo, itemEdges]
      exact this
    | mark b =>
      rw [List.map_cons, Item.entry, rowsGo, itemEdges]
      apply RowsNeverWrong.append
      · apply rowsNeverWrong_map
        intro e he t ht
        rw [List.mem_map] at he
        obtain ⟨p, hp', rfl⟩ := he
        obtain ⟨h1, h2, h3⟩ := hp p hp'
        have hb := h3 b List.mem_cons_self
        have hab := cbtime_some_consecutive _ a b t ht
        unfold Near at h1
        exact never_wrong p.1.T p.1.ch p.1.leading a b t (by omega) ht
      · have := ih b [] (fun p hp' => absurd hp' List.not_mem_nil)
          (ho' _ (fun y hy => by
            have := hs.1 y hy
            simp only [Item.key] at this
            exact this))
        exact this

/-! ### The generated stream as an ordered item list -/

def itemsFrom (k : Nat) : List (List Edge) → List Edge → List Item
  | [], tail => tail.map (fun e => Item.edge e k)
  | es :: rest, tail => es.map (fun e => Item.edge e k) ++ Item.mark k :: itemsFrom (k + 1) rest tail

theorem edgeEntries_eq (es : List Edge) (k : Nat) :
    edgeEntries es = (es.map (fun e => Item.edge e k)).map Item.entry := by
  simp [edgeEntries, Item.entry]

theorem hwFrom_items (k : Nat) (ivs : List (List Edge)) (tail : List Edge) :
    hwFrom k ivs tail = (itemsFrom k ivs tail).map Item.entry := by
  induction ivs generalizing k with
  | nil => exact edgeEntries_eq tail k
  | cons es rest ih =>
    rw [hwFrom, itemsFrom, List.map_append, List.map_cons, ← edgeEntries_eq, ih]
    rfl

theorem itemEdges_append (a b : List Item) : itemEdges (a ++ b) = itemEdges a ++ itemEdges b := by
  induction a with
  | nil => rfl
  | cons x xs ih => cases x <;> simp [itemEdges, ih]

theorem itemEdges_edges (es : List Edge) (k : Nat) :
    itemEdges (es.map (fun e => Item.edge e k)) = es := by
  induction es with
  | nil => rfl
  | cons e es ih => simp [itemEdges, ih]

theorem itemEdges_itemsFrom (k : Nat) (ivs : List (List Edge)) (tail : List Edge) :
    itemEdges (itemsFrom k ivs tail) = postEdges ivs tail := by
  induction ivs generalizing k with
  | nil => simp [itemsFrom, itemEdges_edges, postEdges]
  | cons es rest ih =>
    simp only [itemsFrom, itemEdges_append, itemEdges_edges, itemEdges, ih, postEdges,
      List.flatten_cons, List.append_assoc]

theorem itemsFrom_ordered (k : Nat) (ivs : List (List Edge)) (tail : List Edge)
    (hl : ∀ p ∈ placedFrom k ivs tail, Near p.edge p.interval) :
    Ordered (2 * k) (itemsFrom k ivs tail) := by
  induction ivs generalizing k with
  | nil =>
    simp only [placedFrom, List.mem_map, forall_exists_index, and_imp] at hl
    refine ⟨?_, ?_, ?_⟩
    · rw [itemsFrom, List.pairwise_map]
      exact List.pairwise_of_forall (fun _ _ => Nat.le_refl _)
    · intro x hx
      simp only [itemsFrom, List.mem_map] at hx
      obtain ⟨e, he, rfl⟩ := hx
      exact hl _ e he rfl
    · intro x hx
      simp only [itemsFrom, List.mem_map] at hx
      obtain ⟨e, _, rfl⟩ := hx
      exact Nat.le_refl _
  | cons es rest ih =>
    rw [placedFrom, List.forall_mem_append] at hl
    obtain ⟨hs, hok, hlo⟩ := ih (k + 1) hl.2
    have hes : ∀ x ∈ es.map (fun e => Item.edge e k), x.key = 2 * k ∧ x.ok := by
      intro x hx
      rw [List.mem_map] at hx
      obtain ⟨e, he, rfl⟩ := hx
      exact ⟨rfl, hl.1 _ (List.mem_map_of_mem he)⟩
    refine ⟨?_, ?_, ?_⟩
    · rw [itemsFrom, List.pairwise_append]
      refine ⟨?_, ?_, ?_⟩
      · rw [List.pairwise_map]
        exact List.pairwise_of_forall (fun _ _ => Nat.le_refl _)
      · rw [List.pairwise_cons]
        refine ⟨fun y hy => ?_, hs⟩
        have := hlo y hy
        show 2 * k + 1 ≤ y.key
        omega
      · intro x hx y hy
        rw [(hes x hx).1]
        rw [List.mem_cons] at hy
        rcases hy with rfl | hy
        · simp only [Item.key]; omega
        · have := hlo y hy; omega
    · intro x hx
      rw [itemsFrom, List.mem_append, List.mem_cons] at hx
      rcases hx with hx | rfl | hx
      · exact (hes x hx).2
      · exact trivial
      · exact hok x hx
    · intro x hx
      rw [itemsFrom, List.mem_append, List.mem_cons] at hx
      rcases hx with hx | rfl | hx
      · rw [(hes x hx).1]; exact Nat.le_refl _
      · simp only [Item.key]; omega
      · have := hlo x hx; omega

/-! ### Single faults: a dropped marker, a duplicated marker -/

/-- The stream with (the first occurrence of) marker `j` removed. -/
def dropMarker (j : Nat) : List Entry → List Entry
  | [] => []
  | .ts t :: rest => .ts t :: dropMarker j rest
  | .marker m :: rest => if m.counter = j then rest else .marker m :: dropMarker j rest

/-- The stream with (the first occurrence of) marker `j` emitted twice. -/
def dupMarker (j : Nat) : List Entry → List Entry
  | [] => []
  | .ts t :: rest => .ts t :: dupMarker j rest
  | .marker m :: rest =>
    if m.counter = j then .marker m :: .marker m :: rest else .marker m :: dupMarker j rest

def dropItem (j : Nat) : List Item → List Item
  | [] => []
  | .edge e k :: rest => .edge e k :: dropItem j rest
  | .mark c :: rest => if c = j then rest else .mark c :: dropItem j rest

def dupItem (j : Nat) : List Item → List Item
  | [] => []
  | .edge e k :: rest => .edge e k :: dupItem j rest
  | .mark c :: rest => if c = j then .mark c :: .mark c :: rest else .mark c :: dupItem j rest

theorem dropMarker_items (j : Nat) (its : List Item) :
    dropMarker j (its.map Item.entry) = (dropItem j its).map Item.entry := by
  induction its with
  | nil => rfl
  | cons x xs ih =>
    cases x with
    | edge e k => simp only [List.map_cons, Item.entry, dropMarker, dropItem, ih]
    | mark c =>
      simp only [List.map_cons, Item.entry, dropMarker, dropItem, hwMarker]
      by_cases h : c = j
      · rw [if_pos h, if_pos h]
      · rw [if_neg h, if_neg h, List.map_cons, ih]; rfl

theorem dupMarker_items (j : Nat) (its : List Item) :
    dupMarker j (its.map Item.entry) = (dupItem j its).map Item.entry := by
  induction its with
  | nil => rfl
  | cons x xs ih =>
    cases x with
    | edge e k => simp only [List.map_cons, Item.entry, dupMarker, dupItem, ih]
    | mark c =>
      simp only [List.map_cons, Item.entry, dupMarker, dupItem, hwMarker]
      by_cases h : c = j
      · rw [if_pos h, if_pos h]; rfl
      · rw [if_neg h, if_neg h, List.map_cons, ih]; rfl

theorem dropItem_sublist (j : Nat) (its : List Item) : (dropItem j its).Sublist its := by
  induction its with
  | nil => exact List.Sublist.slnil
  | cons x xs ih =>
    cases x with
    | edge e k => exact ih.cons_cons _
    | mark c =>
      simp only [dropItem]
      split
      · exact List.sublist_cons_self _ _
      · exact ih.cons_cons _

theorem dropItem_edges (j : Nat) (its : List Item) : itemEdges (dropItem j its) = itemEdges its := by
  induction its with
  | nil => rfl
  | cons x xs ih =>
    cases x with
    | edge e k => simp only [dropItem, itemEdges, ih]
    | mark c =>
      simp only [dropItem]
      split
      · rfl
      · simp only [itemEdges, ih]

theorem dupItem_edges (j : Nat) (its : List Item) : itemEdges (dupItem j its) = itemEdges its := by
  induction its with
  | nil => rfl
  | cons x xs ih =>
    cases x with
    | edge e k => simp only [dupItem, itemEdges, ih]
    | mark c =>
      simp only [dupItem]
      split
      · rfl
      · simp only [itemEdges, ih]

theorem dupItem_mem (j : Nat) (its : List Item) : ∀ x ∈ dupItem j its, x ∈ its := by
  induction its with
  | nil => intro x hx; exact hx
  | cons y ys ih =>
    intro x hx
    cases y with
    | edge e k =>
      simp only [dupItem, List.mem_cons] at hx ⊢
      rcases hx with rfl | hx
      · exact .inl rfl
      · exact .inr (ih x hx)
    | mark c =>
      simp only [dupItem] at hx
      split at hx
      · simp only [List.mem_cons] at hx ⊢
        rcases hx with rfl | rfl | hx
        · exact .inl rfl
        · exact .inl rfl
        · exact .inr hx
      · simp only [List.mem_cons] at hx ⊢
        rcases hx with rfl | hx
        · exact .inl rfl
        · exact .inr (ih x hx)

theorem dropItem_ordered (j lo : Nat) (its : List Item) (h : Ordered lo its) :
    Ordered lo (dropItem j its) :=
  ⟨h.sorted.sublist (dropItem_sublist j its),
   fun x hx => h.ok x ((dropItem_sublist j its).subset hx),
   fun x hx => h.lo x ((dropItem_sublist j its).subset hx)⟩

theorem dupItem_sorted (j : Nat) (its : List Item)
    (h : its.Pairwise (fun x y => x.key ≤ y.key)) :
    (dupItem j its).Pairwise (fun x y => x.key ≤ y.key) := by
  induction its with
  | nil => exact h
  | cons y ys ih =>
    rw [List.pairwise_cons] at h
    cases y with
    | edge e k =>
      simp only [dupItem]
      rw [List.pairwise_cons]
      exact ⟨fun x hx => h.1 x (dupItem_mem j ys x hx), ih h.2⟩
    | mark c =>
      simp only [dupItem]
      split
      · rw [List.pairwise_cons, List.pairwise_cons]
        refine ⟨fun x hx => ?_, h.1, h.2⟩
        rw [List.mem_cons] at hx
        rcases hx with rfl | hx
        · exact Nat.le_refl _
        · exact h.1 x hx
      · rw [List.pairwise_cons]
        exact ⟨fun x hx => h.1 x (dupItem_mem j ys x hx), ih h.2⟩

theorem dupItem_ordered (j lo : Nat) (its : List Item) (h : Ordered lo its) :
    Ordered lo (dupItem j its) :=
  ⟨dupItem_sorted j its h.sorted,
   fun x hx => h.ok x (dupItem_mem j its x hx),
   fun x hx => h.lo x (dupItem_mem j its x hx)⟩

theorem dropMarker_edges (j : Nat) (es : List Edge) (rest : List Entry) :
    dropMarker j (edgeEntries es ++ rest) = edgeEntries es ++ dropMarker j rest := by
  induction es with
  | nil => rfl
  | cons e es ih =>
    have : edgeEntries (e :: es) ++ rest = Entry.ts e.tsc :: (edgeEntries es ++ rest) := rfl
    rw [this, dropMarker, ih]; rfl

theorem dupMarker_edges (j : Nat) (es : List Edge) (rest : List Entry) :
    dupMarker j (edgeEntries es ++ rest) = edgeEntries es ++ dupMarker j rest := by
  induction es with
  | nil => rfl
  | cons e es ih =>
    have : edgeEntries (e :: es) ++ rest = Entry.ts e.tsc :: (edgeEntries es ++ rest) := rfl
    rw [this, dupMarker, ih]; rfl

/-- The rows after marker 0 of any ordered continuation are never wrong. -/
theorem rows_after_epoch (pre : List Edge) (its : List Item) (ho : Ordered 1 its)
    (rows : List CbRow)
    (h : boardRows true (edgeEntries pre ++ Entry.marker (hwMarker 0) :: its.map Item.entry)
      = .ok rows) : RowsNeverWrong rows (itemEdges its) := by
  rw [boardRows_epoch] at h
  injection h with h
  subst h
  have := rowsGo_ordered 0 [] its (fun p hp => absurd hp List.not_mem_nil) ho
  simpa using this

/-- Dropping marker 0 leaves no epoch: the program fails (no CSV). -/
theorem dropped_epoch_fails (pre : List Edge) (ivs : List (List Edge)) (tail : List Edge) :
    boardRows true (dropMarker 0 (hwStream pre ivs tail)) = .err .missingEpoch0 := by
  unfold hwStream
  rw [dropMarker_edges]
  simp only [dropMarker, hwMarker, if_true]
  apply fails_closed_no_epoch0
  intro e he
  rw [List.mem_append] at he
  rcases he with he | he
  · simp only [edgeEntries, List.mem_map] at he
    obtain ⟨x, _, rfl⟩ := he
    rfl
  · cases e with
    | ts t => rfl
    | marker m =>
      have := hwFrom_counters 1 ivs tail m he
      simp only [isEpoch0, beq_eq_false_iff_ne, ne_eq]
      omega

/-- **Dropped marker.** In a legal stream with marker `j` removed (any `j`), whenever the
program produces rows they are one per edge after marker 0, in order, with the right channel and
edge flag, and every reported time is still the true time of its edge (the two intervals merged
by the missing marker are enclosed by non-consecutive counters and get no time). For `j = 0` the
program fails instead (`dropped_epoch_fails`). -/
theorem dropped_marker_never_wrong (pre : List Edge) (ivs : List (List Edge)) (tail : List Edge)
    (hl : Legal pre ivs tail) (j : Nat) (rows : List CbRow)
    (h : boardRows true (dropMarker j (hwStream pre ivs tail)) = .ok rows) :
    RowsNeverWrong rows (postEdges ivs tail) := by
  cases j with
  | zero => rw [dropped_epoch_fails] at h; cases h
  | succ j =>
    unfold hwStream at h
    rw [dropMarker_edges] at h
    have h0 : (hwMarker 0).counter ≠ j + 1 := by simp [hwMarker]
    rw [dropMarker, if_neg h0, hwFrom_items, dropMarker_items] at h
    have ho : Ordered 1 (itemsFrom 1 ivs tail) := by
      have := itemsFrom_ordered 1 ivs tail hl.placed
      exact ⟨this.sorted, this.ok, fun x hx => by have := this.lo x hx; omega⟩
    have := rows_after_epoch pre _ (dropItem_ordered (j + 1) 1 _ ho) rows h
    rwa [dropItem_edges, itemEdges_itemsFrom] at this

/-- **Duplicated marker.** In a legal stream with marker `j` emitted twice (any `j`), the
program's rows are one per edge after marker 0, in order, with the right channel and edge flag,
and every reported time is still the true time of its edge. -/
theorem duplicated_marker_never_wrong (pre : List Edge) (ivs : List (List Edge))
    (tail : List Edge) (hl : Legal pre ivs tail) (j : Nat) (rows : List CbRow)
    (h : boardRows true (dupMarker j (hwStream pre ivs tail)) = .ok rows) :
    RowsNeverWrong rows (postEdges ivs tail) := by
  have ho2 := itemsFrom_ordered 1 ivs tail hl.placed
  have ho : Ordered 1 (itemsFrom 1 ivs tail) :=
    ⟨ho2.sorted, ho2.ok, fun x hx => by have := ho2.lo x hx; omega⟩
  unfold hwStream at h
  rw [dupMarker_edges] at h
  cases j with
  | zero =>
    have h0 : (hwMarker 0).counter = 0 := rfl
    rw [dupMarker, if_pos h0, hwFrom_items] at h
    have ho' : Ordered 1 (Item.mark 0 :: itemsFrom 1 ivs tail) := by
      refine ⟨?_, ?_, ?_⟩
      · rw [List.pairwise_cons]
        exact ⟨fun y hy => by have := ho2.lo y hy; show 2 * 0 + 1 ≤ y.key; omega, ho2.sorted⟩
      · intro x hx
        rw [List.mem_cons] at hx
        rcases hx with rfl | hx
        · exact trivial
        · exact ho2.ok x hx
      · intro x hx
        rw [List.mem_cons] at hx
        rcases hx with rfl | hx
        · exact Nat.le_refl _
        · exact ho.lo x hx
    have := rows_after_epoch pre (Item.mark 0 :: itemsFrom 1 ivs tail) ho' rows h
    rwa [itemEdges, itemEdges_itemsFrom] at this
  | succ j =>
    have h0 : (hwMarker 0).counter ≠ j + 1 := by simp [hwMarker]
    rw [dupMarker, if_neg h0, hwFrom_items, dupMarker_items] at h
    have := rows_after_epoch pre _ (dupItem_ordered (j + 1) 1 _ ho) rows h
    rwa [dupItem_edges, itemEdges_itemsFrom] at this

/-- The duplicated-marker stream is always accepted (the statement above is not vacuous). -/
theorem duplicated_marker_accepted (pre : List Edge) (ivs : List (List Edge)) (tail : List Edge)
    (j : Nat) : ∃ rows, boardRows true (dupMarker j (hwStream pre ivs tail)) = .ok rows := by
  unfold hwStream
  rw [dupMarker_edges]
  by_cases h0 : (hwMarker 0).counter = j
  · rw [dupMarker, if_pos h0]; exact ⟨_, boardRows_epoch pre _⟩
  · rw [dupMarker, if_neg h0]; exact ⟨_, boardRows_epoch pre _⟩

/-- So is the dropped-marker stream for `j ≥ 1`. -/
theorem dropped_marker_accepted (pre : List Edge) (ivs : List (List Edge)) (tail : List Edge)
    (j : Nat) (hj : 1 ≤ j) :
    ∃ rows, boardRows true (dropMarker j (hwStream pre ivs tail)) = .ok rows := by
  unfold hwStream
  rw [dropMarker_edges]
  have h0 : (hwMarker 0).counter ≠ j := by simp only [hwMarker]; omega
  rw [dropMarker, if_neg h0]
  exact ⟨_, boardRows_epoch pre _⟩

/-! ### Non-vacuity: a concrete two-wrap stream (markers 0 … 3) -/

/-- Two full wraps = four half wraps: a pre-epoch edge, intervals 1–4 (4 is the open tail), one
edge displaced late (tick of interval 1 placed in interval 2), one displaced early (tick of
interval 4 placed in interval 3), edges right at a marker tick. -/
def exPre : List Edge := [⟨5, 3, true⟩]
def exIntervals : List (List Edge) :=
  [ [⟨2 ^ 23, 1, true⟩, ⟨2 ^ 23 + 10, 7, false⟩],              -- interval 1, in place
    [⟨2 ^ 24 - 1, 2, false⟩, ⟨2 ^ 24 + 7, 4, true⟩],            -- interval 2: one late, one in place
    [⟨3 * 2 ^ 23 + 9, 5, true⟩, ⟨2 ^ 25, 6, false⟩] ]           -- interval 3: in place, one early
def exTail : List Edge := [⟨2 ^ 25 + 100, 8, true⟩]            -- interval 4, no closing marker

example : Legal exPre exIntervals exTail := by decide

example : boardRows true (hwStream exPre exIntervals exTail)
    = .ok [ ⟨1, true, some (2 ^ 23)⟩, ⟨7, false, some (2 ^ 23 + 10)⟩,
            ⟨2, false, none⟩, ⟨4, true, some (2 ^ 24 + 6)⟩,
            ⟨5, true, some (3 * 2 ^ 23 + 8)⟩, ⟨6, false, none⟩,
            ⟨8, true, none⟩ ] := by decide

example : expectedRows exIntervals exTail
    = [ ⟨1, true, some (2 ^ 23)⟩, ⟨7, false, some (2 ^ 23 + 10)⟩,
        ⟨2, false, none⟩, ⟨4, true, some (2 ^ 24 + 6)⟩,
        ⟨5, true, some (3 * 2 ^ 23 + 8)⟩, ⟨6, false, none⟩,
        ⟨8, true, none⟩ ] := by decide

/-- Marker 1 dropped: intervals 1 and 2 merge between counters 0 and 2 and lose their times;
marker 2 duplicated: nothing changes (no edge sits between the copies). -/
example : boardRows true (dropMarker 1 (hwStream exPre exIntervals exTail))
    = .ok [ ⟨1, true, none⟩, ⟨7, false, none⟩, ⟨2, false, none⟩, ⟨4, true, none⟩,
            ⟨5, true, some (3 * 2 ^ 23 + 8)⟩, ⟨6, false, none⟩, ⟨8, true, none⟩ ] := by decide

example : boardRows true (dupMarker 2 (hwStream exPre exIntervals exTail))
    = boardRows true (hwStream exPre exIntervals exTail) := by decide

end AlphaG.Csv
