import AlphaG.Model.Trg
import AlphaG.Lemmas.Bytes
/-
C06 — TRG packet decoding is exact and decoded counters are ordered.
Only property statements live here; helpers are in `Lemmas/`.
-/
namespace AlphaG.Trg

/-- The documented layout, phrased on *fields* (not on the decoder's masks). -/
structure WellFormed (b : List UInt8) : Prop where
  len : b.length = 80
  udpTopClear : word b 0 < 2 ^ 31
  headerMark : word b 1 / 2 ^ 28 = 0x8
  footerMark : word b 19 / 2 ^ 28 = 0xE
  headerOut : word b 1 % 2 ^ 28 = word b 3 % 2 ^ 28
  footerOut : word b 19 % 2 ^ 28 = word b 3 % 2 ^ 28
  w9Reserved : (word b 9 / 2 ^ 16) % 2 ^ 15 = 0
  w12Zero : word b 12 = 0
  w13Reserved : word b 13 / 2 ^ 24 = 0
  w16Reserved : word b 16 / 2 ^ 8 = 0
  w17Reserved : word b 17 / 2 ^ 8 = 0
  outLeScaledown : word b 3 ≤ word b 11
  scaledownLeDrift : word b 11 ≤ word b 10
  driftLeIn : word b 10 ≤ word b 4

/-- The packet the documentation table denotes for a slice. -/
def fields (b : List UInt8) : Packet :=
  { udpCounter := word b 0, timestamp := word b 2, outputCounter := word b 3,
    inputCounter := word b 4, pulserCounter := word b 5, triggerBitmap := word b 6,
    nimBitmap := word b 7, esataBitmap := word b 8,
    satisfiedMlu := decide (word b 9 / 2 ^ 31 = 1), aw16Prompt := word b 9 % 2 ^ 16,
    driftVetoCounter := word b 10, scaledownCounter := word b 11,
    aw16Multiplicity := (word b 13 / 2 ^ 16) % 2 ^ 8, aw16Bus := word b 13 % 2 ^ 16,
    bsc64Bus := leAt b 56 8, bsc64Multiplicity := word b 16 % 2 ^ 8,
    coincidenceLatch := word b 17 % 2 ^ 8, firmwareRevision := word b 18 }

private theorem m31 (x : Nat) : x &&& 0x80000000 = ((x / 2 ^ 31) % 2 ^ 1) * 2 ^ 31 := and_mask x 1 31
private theorem m28_4 (x : Nat) : x &&& 0xF0000000 = ((x / 2 ^ 28) % 2 ^ 4) * 2 ^ 28 := and_mask x 4 28
private theorem m16_15 (x : Nat) : x &&& 0x7FFF0000 = ((x / 2 ^ 16) % 2 ^ 15) * 2 ^ 16 := and_mask x 15 16
private theorem m24_8 (x : Nat) : x &&& 0xFF000000 = ((x / 2 ^ 24) % 2 ^ 8) * 2 ^ 24 := and_mask x 8 24
private theorem m8_24 (x : Nat) : x &&& 0xFFFFFF00 = ((x / 2 ^ 8) % 2 ^ 24) * 2 ^ 8 := and_mask x 24 8
private theorem l16 (x : Nat) : x &&& 0xFFFF = x % 2 ^ 16 := and_low x 16
private theorem l8 (x : Nat) : x &&& 0xFF = x % 2 ^ 8 := and_low x 8
private theorem l28 (x : Nat) : x &&& 0xFFFFFFF = x % 2 ^ 28 := and_low x 28

theorem decode_ok_iff (b : List UInt8) (p : Packet) :
    decode b = .ok p ↔ WellFormed b ∧ p = fields b := by
  have hw : ∀ i, word b i < 2 ^ 32 := fun i => leAt_lt b (4 * i) 4
  have h0 := hw 0; have h1 := hw 1; have h3 := hw 3; have h4 := hw 4; have h9 := hw 9
  have h10 := hw 10; have h11 := hw 11; have h12 := hw 12; have h13 := hw 13
  have h16 := hw 16; have h17 := hw 17; have h19 := hw 19
  unfold decode
  simp only [ite_err_eq_ok, needBytes_eq_ok, need_eq_ok, ok_eq_ok, m31, m28_4, m16_15, m24_8,
    m8_24, l16, l8, l28, Nat.shiftRight_eq_div_pow, decide_eq_true_eq]
  constructor
  · intro h
    obtain ⟨c1, c2, c3, c4, c5, c6, c7, c8, c9, c10, c11, c12, c13, c14, c15, c16, c17, c18, c19,
      c20, c21, c22, c23, c24, c25, c26, c27, c28, c29, c30, c31, c32, c33, c34, c35, c36, c37,
      hp⟩ := h
    subst hp
    refine ⟨⟨?_, ?_, ?_, ?_, ?_, ?_, ?_, ?_, ?_, ?_, ?_, ?_, ?_, ?_⟩, ?_⟩
    all_goals first
      | omega
      | (simp only [fields, Packet.mk.injEq, decide_eq_decide]
         refine ⟨?_, ?_, ?_, ?_, ?_, ?_, ?_, ?_, ?_, ?_, ?_, ?_, ?_, ?_, ?_, ?_, ?_, ?_⟩
         all_goals first | trivial | omega)
  · rintro ⟨⟨w1, w2, w3, w4, w5, w6, w7, w8, w9, w10, w11, w12, w13, w14⟩, rfl⟩
    repeat' apply And.intro
    all_goals first
      | omega
      | (simp only [fields, Packet.mk.injEq, decide_eq_decide]
         refine ⟨?_, ?_, ?_, ?_, ?_, ?_, ?_, ?_, ?_, ?_, ?_, ?_, ?_, ?_, ?_, ?_, ?_, ?_⟩
         all_goals first | trivial | omega)

/-- C06 (acceptance): a slice is accepted iff it obeys the documented layout. -/
theorem trg_accept_iff (b : List UInt8) : (∃ p, decode b = .ok p) ↔ WellFormed b := by
  constructor
  · rintro ⟨p, hp⟩; exact ((decode_ok_iff b p).1 hp).1
  · intro h; exact ⟨fields b, (decode_ok_iff b _).2 ⟨h, rfl⟩⟩

/-- C06 (fields): every accessor of an accepted packet is the documented little-endian field. -/
theorem trg_fields (b : List UInt8) (p : Packet) (h : decode b = .ok p) : p = fields b :=
  ((decode_ok_iff b p).1 h).2

/-- C06 (length): any other length is rejected. -/
theorem trg_len (b : List UInt8) (h : b.length ≠ 80) : decode b = .err .sliceLengthMismatch := by
  simp [decode, h]

/-- C06 (ordering): decoded counters obey output ≤ scaledown ≤ drift-veto ≤ input. -/
theorem trg_ordering (b : List UInt8) (p : Packet) (h : decode b = .ok p) :
    p.outputCounter ≤ p.scaledownCounter ∧ p.scaledownCounter ≤ p.driftVetoCounter
      ∧ p.driftVetoCounter ≤ p.inputCounter := by
  obtain ⟨wf, rfl⟩ := (decode_ok_iff b p).1 h
  exact ⟨wf.outLeScaledown, wf.scaledownLeDrift, wf.driftLeIn⟩

/-- C01/C06 (totality): no byte string makes the TRG decoder panic. -/
theorem trg_total (b : List UInt8) : NoPanic (decode b) := by
  unfold decode
  apply noPanic_ite_err; intro hlen
  have hlen : b.length = 80 := by omega
  have h9 := leAt_lt b (4 * 9) 4; have h13 := leAt_lt b (4 * 13) 4
  have h16 := leAt_lt b (4 * 16) 4; have h17 := leAt_lt b (4 * 17) 4
  repeat (first
    | exact noPanic_ok _
    | exact noPanic_err _
    | (apply noPanic_ite_err; intro _)
    | apply noPanic_needBytes (by omega)
    | (apply noPanic_need (by
        simp only [decide_eq_true_eq, m24_8, l16, l8, Nat.shiftRight_eq_div_pow, ne_eq,
          Decidable.not_not, word] at *
        omega)))

/-- C06 (round trip): re-encoding the accessors of an accepted packet reproduces the 80 input
bytes exactly. -/
theorem trg_roundtrip (b : List UInt8) (p : Packet) (h : decode b = .ok p) : encode p = b := by
  obtain ⟨⟨hlen, w0, w1, w19, w1o, w19o, w9, w12, w13, w16, w17, -, -, -⟩, rfl⟩ :=
    (decode_ok_iff b p).1 h
  have hw : ∀ i, word b i < 2 ^ 32 := fun i => leAt_lt b (4 * i) 4
  have h1 := hw 1; have h3 := hw 3; have h9 := hw 9; have h13 := hw 13
  have h16 := hw 16; have h17 := hw 17; have h19 := hw 19
  have e1 : 0x80000000 + word b 3 % 0x10000000 = word b 1 := by omega
  have e19 : 0xE0000000 + word b 3 % 0x10000000 = word b 19 := by omega
  have e9 : (if decide (word b 9 / 2 ^ 31 = 1) = true then 0x80000000 else 0) + word b 9 % 2 ^ 16
      = word b 9 := by
    by_cases hc : word b 9 / 2 ^ 31 = 1
    · simp only [hc, decide_true, if_true]; omega
    · simp only [hc, decide_false, if_false, Bool.false_eq_true]; omega
  have e13 : (word b 13 / 2 ^ 16) % 2 ^ 8 * 65536 + word b 13 % 2 ^ 16 = word b 13 := by omega
  have e16 : word b 16 % 2 ^ 8 = word b 16 := by omega
  have e17 : word b 17 % 2 ^ 8 = word b 17 := by omega
  have e12 : leBytes 0 4 = leBytes (word b 12) 4 := by rw [w12]
  have wb : ∀ i, i < 20 → leBytes (word b i) 4 = (b.drop (4 * i)).take 4 :=
    fun i hi => leBytes_leAt b (4 * i) 4 (by omega)
  have wb8 : leBytes (leAt b 56 8) 8 = (b.drop 56).take 8 := leBytes_leAt b 56 8 (by omega)
  unfold encode fields
  simp only [e1, e19, e9, e13, e16, e17]
  rw [e12, wb 0 (by omega), wb 1 (by omega), wb 2 (by omega), wb 3 (by omega), wb 4 (by omega),
    wb 5 (by omega), wb 6 (by omega), wb 7 (by omega), wb 8 (by omega), wb 9 (by omega),
    wb 10 (by omega), wb 11 (by omega), wb 12 (by omega), wb 13 (by omega), wb8,
    wb 16 (by omega), wb 17 (by omega), wb 18 (by omega), wb 19 (by omega)]
  have hend : b.drop 80 = [] := List.drop_eq_nil_of_le (by omega)
  conv => rhs; rw [← List.drop_zero (l := b), drop_split b 0 4, drop_split b 4 4,
    drop_split b 8 4, drop_split b 12 4, drop_split b 16 4, drop_split b 20 4,
    drop_split b 24 4, drop_split b 28 4, drop_split b 32 4, drop_split b 36 4,
    drop_split b 40 4, drop_split b 44 4, drop_split b 48 4, drop_split b 52 4,
    drop_split b 56 8, drop_split b 64 4, drop_split b 68 4, drop_split b 72 4,
    drop_split b 76 4, hend]
  simp only [List.append_assoc, List.append_nil]

/-- Non-vacuity: the documentation's example packet is well formed and decodes. -/
def examplePacket : List UInt8 :=
  [255, 0, 0, 0, 0, 0, 0, 128, 254, 0, 0, 0, 0, 0, 0, 0, 3, 0, 0, 0, 0, 0, 0, 0, 5, 0, 0, 0, 6, 0,
   0, 0, 7, 0, 0, 0, 8, 0, 0, 128, 2, 0, 0, 0, 1, 0, 0, 0, 0, 0, 0, 0, 9, 0, 10, 0, 11, 0, 0, 0,
   0, 0, 0, 0, 12, 0, 0, 0, 13, 0, 0, 0, 14, 0, 0, 0, 0, 0, 0, 224]

example : (decode examplePacket).isOk = true := by decide
example : encode (fields examplePacket) = examplePacket := by decide

end AlphaG.Trg
