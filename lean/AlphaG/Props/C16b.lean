import AlphaG.Props.C16
import Mathlib.Analysis.Convex.Deriv
import Mathlib.Topology.Order.Compact
import Mathlib.Topology.Order.MonotoneConvergence
/-
C16b — real-analysis theorems narrowing the optimality gap of C16 (`Helix::closest_t`, h ≠ 0).

All statements are over ℝ (exact arithmetic), about the squared distance `AlphaG.Helix.distSq`
of Props/C16.lean and about Kepler's equation `E − e sin E = M` as the code sets it up
(`e = 4π²ρR/h²`, Newton started at ±π).

Proved here (the convexity hypothesis is written division-free: `4π²ρ|R| < h²`, which is
`h ≠ 0 ∧ |e| < 1`, see `e_lt_one_iff`; no sign condition on R is needed before part (4))
 (0) `distSq_formula`: distSq(t) = R² + ρ² − 2Rρ cos(t + φ₀ − δ) + (h t/2π + z₀ − p_z)².
 (1) `distSq_strictConvex_of_e_lt_one`: |e| < 1 ⇒ distSq strictly convex on ℝ; `deriv2_distSq`.
 (2) `stationary_is_global_min_of_e_lt_one` (+ `_strict`, `stationary_unique_of_e_lt_one`,
     `exists_unique_stationary_of_e_lt_one`), the Kepler phrasing
     `kepler_root_is_global_min_of_e_lt_one`, the tie to the model
     `closestT_eq` / `closestT_optimal_of_exact_root_of_e_lt_one` /
     `closestT_interval_optimal_of_exact_root_of_e_lt_one`, and
     `clamp_is_interval_min_of_e_lt_one` (for |e| < 1 the clamp yields the constrained optimum).
 (3) `global_min_on_interval_is_stationary_or_endpoint` (any e).
 (4) Newton for Kepler with 0 ≤ e < 1, M ∈ [0, π], start π: invariant [E⋆, π], antitone,
     convergence to the unique root (`newton_kepler_tendsto_root`), mirrored for M ∈ [−π, 0] with
     start −π (`newton_kepler_tendsto_root_neg`); the code's M lies in (−π, π]
     (`keplerM_codeN_mem`); the model's own loop `newton realOps` stays in [E⋆, π]
     (`newton_model_mem`, `newton_model_mem_pi`); (2)+(4) combined:
     `newton_limit_is_global_min_of_e_lt_one`.
 (5) e ≥ 1: the derivative of Kepler's function vanishes somewhere (`kepler_deriv_vanishes_of_one_le`),
     for e > 1 distSq is not convex (`distSq_not_convex_of_one_lt_e`); any limit of a Newton
     sequence at which the derivative is non-zero is a root (`newton_limit_is_root`, any e, M).

NOT proved (stays with the harness oracle): anything about `f64` rounding, about the result after
≤ 20 iterations with a tolerance (only the limit and the invariant are covered), and global
optimality for e ≥ 1.
-/
namespace AlphaG.C16b

open AlphaG.Helix Set Filter Topology

/-! ### The abstract shape `C − A cos(t + θ) + (k t + c)²` -/

/-- `S C A θ k c t = C − A cos(t + θ) + (k t + c)²`. -/
noncomputable def S (C A θ k c : ℝ) (t : ℝ) : ℝ := C - A * Real.cos (t + θ) + (k * t + c) ^ 2

/-- first derivative of `S` -/
noncomputable def S1 (A θ k c : ℝ) (t : ℝ) : ℝ := A * Real.sin (t + θ) + 2 * k * (k * t + c)

/-- second derivative of `S` -/
noncomputable def S2 (A θ k : ℝ) (t : ℝ) : ℝ := A * Real.cos (t + θ) + 2 * k ^ 2

theorem hasDerivAt_S (C A θ k c t : ℝ) : HasDerivAt (S C A θ k c) (S1 A θ k c t) t := by
  unfold S S1
  have h1 : HasDerivAt (fun s : ℝ => s + θ) 1 t := (hasDerivAt_id t).add_const _
  have hc : HasDerivAt (fun s => A * Real.cos (s + θ)) (-(A * Real.sin (t + θ))) t := by
    have := ((Real.hasDerivAt_cos (t + θ)).comp t h1).const_mul A
    simpa using this
  have hz : HasDerivAt (fun s => k * s + c) k t := by
    simpa using ((hasDerivAt_id t).const_mul k).add_const c
  have := ((hasDerivAt_const t C).sub hc).add (hz.pow 2)
  exact this.congr_deriv (by simp; ring)

theorem hasDerivAt_S1 (A θ k c t : ℝ) : HasDerivAt (S1 A θ k c) (S2 A θ k t) t := by
  unfold S1 S2
  have h1 : HasDerivAt (fun s : ℝ => s + θ) 1 t := (hasDerivAt_id t).add_const _
  have hs : HasDerivAt (fun s => A * Real.sin (s + θ)) (A * Real.cos (t + θ)) t := by
    have := ((Real.hasDerivAt_sin (t + θ)).comp t h1).const_mul A
    simpa using this
  have hz : HasDerivAt (fun s => 2 * k * (k * s + c)) (2 * k * k) t := by
    have : HasDerivAt (fun s => k * s + c) k t := by
      simpa using ((hasDerivAt_id t).const_mul k).add_const c
    exact this.const_mul (2 * k)
  exact (hs.add hz).congr_deriv (by ring)

theorem deriv_S (C A θ k c : ℝ) : deriv (S C A θ k c) = S1 A θ k c :=
  funext fun t => (hasDerivAt_S C A θ k c t).deriv

theorem deriv_S1 (A θ k c : ℝ) : deriv (S1 A θ k c) = S2 A θ k :=
  funext fun t => (hasDerivAt_S1 A θ k c t).deriv

theorem differentiable_S (C A θ k c : ℝ) : Differentiable ℝ (S C A θ k c) :=
  fun t => (hasDerivAt_S C A θ k c t).differentiableAt

theorem S2_pos {A k : ℝ} (hA : |A| < 2 * k ^ 2) (θ t : ℝ) : 0 < S2 A θ k t := by
  unfold S2
  have h1 : |A * Real.cos (t + θ)| ≤ |A| := by
    rw [abs_mul]
    exact mul_le_of_le_one_right (abs_nonneg _) (Real.abs_cos_le_one _)
  have := neg_abs_le (A * Real.cos (t + θ))
  linarith

theorem S1_strictMono {A k : ℝ} (hA : |A| < 2 * k ^ 2) (θ c : ℝ) : StrictMono (S1 A θ k c) :=
  strictMono_of_deriv_pos fun t => by rw [deriv_S1]; exact S2_pos hA θ t

theorem S_strictConvexOn {A k : ℝ} (hA : |A| < 2 * k ^ 2) (C θ c : ℝ) :
    StrictConvexOn ℝ univ (S C A θ k c) := by
  apply StrictMono.strictConvexOn_univ_of_deriv (differentiable_S C A θ k c).continuous
  rw [deriv_S]
  exact S1_strictMono hA θ c

/-- A stationary point of a strictly convex `S` is its strict global minimiser. -/
theorem S_stationary_lt {A k : ℝ} (hA : |A| < 2 * k ^ 2) (C θ c : ℝ) {ts : ℝ}
    (hs : S1 A θ k c ts = 0) {t : ℝ} (ht : t ≠ ts) : S C A θ k c ts < S C A θ k c t := by
  have hcv := S_strictConvexOn hA C θ c
  rcases lt_or_gt_of_ne ht with h | h
  · have := hcv.slope_lt_of_hasDerivAt (mem_univ t) (mem_univ ts) h (hasDerivAt_S C A θ k c ts)
    rw [hs, slope_def_field, div_neg_iff] at this
    rcases this with ⟨_, h2⟩ | ⟨h1, _⟩
    · linarith
    · linarith
  · have := hcv.lt_slope_of_hasDerivAt (mem_univ ts) (mem_univ t) h (hasDerivAt_S C A θ k c ts)
    rw [hs, slope_def_field, div_pos_iff] at this
    rcases this with ⟨h1, _⟩ | ⟨_, h2⟩
    · linarith
    · linarith

/-- For `k ≠ 0` (any `A`) the derivative of `S` has a zero. -/
theorem S1_exists_zero (A θ c : ℝ) {k : ℝ} (hk : k ≠ 0) : ∃ t, S1 A θ k c t = 0 := by
  have hk2 : 0 < 2 * k ^ 2 := by positivity
  set lo := (-|A| - 2 * k * c) / (2 * k ^ 2) with hlo
  set hi := (|A| - 2 * k * c) / (2 * k ^ 2) with hhi
  have hlohi : lo ≤ hi := by
    rw [hlo, hhi]
    apply div_le_div_of_nonneg_right _ hk2.le
    linarith [abs_nonneg A]
  have hb : ∀ t, |A * Real.sin (t + θ)| ≤ |A| := fun t => by
    rw [abs_mul]; exact mul_le_of_le_one_right (abs_nonneg _) (Real.abs_sin_le_one _)
  have hloeq : 2 * k * (k * lo + c) = -|A| := by rw [hlo]; field_simp; ring
  have hhieq : 2 * k * (k * hi + c) = |A| := by rw [hhi]; field_simp; ring
  have h1 : S1 A θ k c lo ≤ 0 := by
    unfold S1; rw [hloeq]; linarith [le_abs_self (A * Real.sin (lo + θ)), hb lo]
  have h2 : 0 ≤ S1 A θ k c hi := by
    unfold S1; rw [hhieq]; linarith [neg_abs_le (A * Real.sin (hi + θ)), hb hi]
  have hcont : ContinuousOn (S1 A θ k c) (Icc lo hi) :=
    fun t _ => (hasDerivAt_S1 A θ k c t).continuousAt.continuousWithinAt
  obtain ⟨t, _, ht⟩ := intermediate_value_Icc hlohi hcont ⟨h1, h2⟩
  exact ⟨t, ht⟩

/-! ### The squared distance of C16 has that shape -/

/-- distance of the point from the helix axis (`r` in the code, `hypot`) -/
noncomputable def rho (q : Params ℝ) (p : Point ℝ) : ℝ :=
  Real.sqrt ((px realOps p - q.x0) ^ 2 + (py realOps p - q.y0) ^ 2)

/-- polar angle of the point about the helix axis (`delta` in the code, `atan2`) -/
noncomputable def delta (q : Params ℝ) (p : Point ℝ) : ℝ :=
  Complex.arg ⟨px realOps p - q.x0, py realOps p - q.y0⟩

/-- the code's eccentricity `e = 4π²·r·R/h²` -/
noncomputable def ecc (q : Params ℝ) (p : Point ℝ) : ℝ :=
  4 * Real.pi ^ 2 * rho q p * q.r / q.h ^ 2

/-- the code's mean anomaly `M = π + 2πn − temp`, for an arbitrary integer `n` -/
noncomputable def keplerM (q : Params ℝ) (p : Point ℝ) (n : ℤ) : ℝ :=
  Real.pi + 2 * Real.pi * n - (q.phi0 + 2 * Real.pi * (p.z - q.z0) / q.h - delta q p)

/-- the code's back substitution `t = π − E + 2πn − φ₀ + δ` -/
noncomputable def tOfE (q : Params ℝ) (p : Point ℝ) (n : ℤ) (E : ℝ) : ℝ :=
  Real.pi - E + 2 * Real.pi * n - q.phi0 + delta q p

theorem rho_nonneg (q : Params ℝ) (p : Point ℝ) : 0 ≤ rho q p := Real.sqrt_nonneg _

/-- **Closed form** (`dist_sq_formula` of DESIGN.md):
`dist²(t) = R² + ρ² − 2Rρ cos(t + φ₀ − δ) + (h t/2π + z₀ − p_z)²`. -/
theorem distSq_formula (q : Params ℝ) (p : Point ℝ) (t : ℝ) :
    distSq q p t = q.r ^ 2 + rho q p ^ 2 - 2 * q.r * rho q p * Real.cos (t + q.phi0 - delta q p)
      + (q.h * t / (2 * Real.pi) + q.z0 - p.z) ^ 2 := by
  set a := px realOps p - q.x0 with ha
  set b := py realOps p - q.y0 with hb
  have hn : ‖(⟨a, b⟩ : ℂ)‖ = rho q p := by
    rw [Complex.norm_def, Complex.normSq_mk]; unfold rho; congr 1; ring
  have hca : rho q p * Real.cos (delta q p) = a := by
    rw [← hn]; exact Complex.norm_mul_cos_arg _
  have hsb : rho q p * Real.sin (delta q p) = b := by
    rw [← hn]; exact Complex.norm_mul_sin_arg _
  have hd : distSq q p t = (q.r * Real.cos (t + q.phi0) - a) ^ 2
      + (q.r * Real.sin (t + q.phi0) - b) ^ 2 + (q.h / (2 * Real.pi) * t + q.z0 - p.z) ^ 2 := by
    simp only [distSq, helixAt, realOps, ha, hb]
    ring
  rw [hd, ← hca, ← hsb, Real.cos_sub]
  have h1 := Real.sin_sq_add_cos_sq (t + q.phi0)
  have h2 := Real.sin_sq_add_cos_sq (delta q p)
  have e1 : Real.sin (t + q.phi0) ^ 2 = 1 - Real.cos (t + q.phi0) ^ 2 := by linarith
  have e2 : Real.sin (delta q p) ^ 2 = 1 - Real.cos (delta q p) ^ 2 := by linarith
  ring_nf
  rw [e1, e2]
  ring

theorem distSq_eq_S (q : Params ℝ) (p : Point ℝ) :
    distSq q p = S (q.r ^ 2 + rho q p ^ 2) (2 * q.r * rho q p) (q.phi0 - delta q p)
      (q.h / (2 * Real.pi)) (q.z0 - p.z) := by
  funext t
  rw [distSq_formula]
  unfold S
  ring_nf

/-- `|e| < 1` in the division-free form used below is exactly the strict-convexity condition. -/
theorem abs_A_lt_of_e_lt_one {q : Params ℝ} {p : Point ℝ}
    (he : 4 * Real.pi ^ 2 * rho q p * |q.r| < q.h ^ 2) :
    |2 * q.r * rho q p| < 2 * (q.h / (2 * Real.pi)) ^ 2 := by
  have hpi : 0 < Real.pi := Real.pi_pos
  rw [abs_mul, abs_mul, abs_of_nonneg (rho_nonneg q p), abs_of_pos (by norm_num : (0:ℝ) < 2),
    div_pow, mul_pow]
  rw [show 2 * (q.h ^ 2 / (2 ^ 2 * Real.pi ^ 2)) = q.h ^ 2 / (2 * Real.pi ^ 2) by field_simp,
    lt_div_iff₀ (by positivity)]
  linarith

/-- The hypothesis `4π²ρ|R| < h²` says `h ≠ 0 ∧ |e| < 1`. -/
theorem e_lt_one_iff (q : Params ℝ) (p : Point ℝ) :
    4 * Real.pi ^ 2 * rho q p * |q.r| < q.h ^ 2 ↔ q.h ≠ 0 ∧ |ecc q p| < 1 := by
  have hρ := rho_nonneg q p
  constructor
  · intro he
    have hh : q.h ≠ 0 := by
      rintro h0
      rw [h0] at he
      have : 0 ≤ 4 * Real.pi ^ 2 * rho q p * |q.r| := by positivity
      linarith
    refine ⟨hh, ?_⟩
    have hpos : 0 < q.h ^ 2 := by positivity
    unfold ecc
    rw [abs_div, abs_of_pos hpos, div_lt_one hpos, abs_mul, abs_mul,
      abs_of_nonneg (by positivity : (0:ℝ) ≤ 4 * Real.pi ^ 2), abs_of_nonneg hρ]
    exact he
  · rintro ⟨hh, he⟩
    have hpos : 0 < q.h ^ 2 := by positivity
    unfold ecc at he
    rw [abs_div, abs_of_pos hpos, div_lt_one hpos, abs_mul, abs_mul,
      abs_of_nonneg (by positivity : (0:ℝ) ≤ 4 * Real.pi ^ 2), abs_of_nonneg hρ] at he
    exact he

/-! ### (1) strict convexity for `|e| < 1` -/

/-- **(1)** If `4π²·ρ·|R| < h²` (i.e. `h ≠ 0` and `|e| < 1`, see `e_lt_one_iff`) the squared distance
is strictly convex on all of ℝ. No sign condition on `R` is needed. -/
theorem distSq_strictConvex_of_e_lt_one (q : Params ℝ) (p : Point ℝ)
    (he : 4 * Real.pi ^ 2 * rho q p * |q.r| < q.h ^ 2) :
    StrictConvexOn ℝ univ (distSq q p) := by
  rw [distSq_eq_S]
  exact S_strictConvexOn (abs_A_lt_of_e_lt_one he) _ _ _

/-- The second derivative, in closed form, with the explicit lower bound
`f'' ≥ 2((h/2π)² − |R|ρ)`. -/
theorem deriv2_distSq (q : Params ℝ) (p : Point ℝ) (t : ℝ) :
    deriv^[2] (distSq q p) t
        = 2 * q.r * rho q p * Real.cos (t + q.phi0 - delta q p) + 2 * (q.h / (2 * Real.pi)) ^ 2 ∧
      2 * ((q.h / (2 * Real.pi)) ^ 2 - |q.r| * rho q p) ≤ deriv^[2] (distSq q p) t := by
  have h : deriv^[2] (distSq q p) t
      = 2 * q.r * rho q p * Real.cos (t + q.phi0 - delta q p) + 2 * (q.h / (2 * Real.pi)) ^ 2 := by
    rw [Function.iterate_succ, Function.iterate_one, Function.comp_apply, distSq_eq_S, deriv_S,
      deriv_S1]
    unfold S2
    ring_nf
  refine ⟨h, ?_⟩
  rw [h]
  have h1 : |2 * q.r * rho q p * Real.cos (t + q.phi0 - delta q p)| ≤ 2 * (|q.r| * rho q p) := by
    rw [abs_mul, abs_mul, abs_mul, abs_of_nonneg (rho_nonneg q p),
      abs_of_pos (by norm_num : (0:ℝ) < 2)]
    calc 2 * |q.r| * rho q p * |Real.cos (t + q.phi0 - delta q p)|
        ≤ 2 * |q.r| * rho q p * 1 :=
          mul_le_mul_of_nonneg_left (Real.abs_cos_le_one _)
            (by have := rho_nonneg q p; positivity)
      _ = 2 * (|q.r| * rho q p) := by ring
  have := neg_abs_le (2 * q.r * rho q p * Real.cos (t + q.phi0 - delta q p))
  linarith

/-! ### (2) stationary ⇒ global minimiser, uniqueness, Kepler phrasing -/

theorem deriv_distSq_eq_S1 (q : Params ℝ) (p : Point ℝ) :
    deriv (distSq q p) = S1 (2 * q.r * rho q p) (q.phi0 - delta q p)
      (q.h / (2 * Real.pi)) (q.z0 - p.z) := by
  rw [distSq_eq_S, deriv_S]

/-- **(2)** Under `|e| < 1` a stationary point of the squared distance is a global minimiser over
*all* real `t` (in particular over the revolution `[−π, π]`). -/
theorem stationary_is_global_min_of_e_lt_one (q : Params ℝ) (p : Point ℝ)
    (he : 4 * Real.pi ^ 2 * rho q p * |q.r| < q.h ^ 2) {ts : ℝ}
    (hs : deriv (distSq q p) ts = 0) (t : ℝ) : distSq q p ts ≤ distSq q p t := by
  by_cases ht : t = ts
  · rw [ht]
  · rw [deriv_distSq_eq_S1] at hs
    rw [distSq_eq_S]
    exact (S_stationary_lt (abs_A_lt_of_e_lt_one he) _ _ _ hs ht).le

/-- strict form: every other parameter is strictly farther. -/
theorem stationary_is_global_min_of_e_lt_one_strict (q : Params ℝ) (p : Point ℝ)
    (he : 4 * Real.pi ^ 2 * rho q p * |q.r| < q.h ^ 2) {ts : ℝ}
    (hs : deriv (distSq q p) ts = 0) {t : ℝ} (ht : t ≠ ts) : distSq q p ts < distSq q p t := by
  rw [deriv_distSq_eq_S1] at hs
  rw [distSq_eq_S]
  exact S_stationary_lt (abs_A_lt_of_e_lt_one he) _ _ _ hs ht

/-- Under `|e| < 1` there is at most one stationary point. -/
theorem stationary_unique_of_e_lt_one (q : Params ℝ) (p : Point ℝ)
    (he : 4 * Real.pi ^ 2 * rho q p * |q.r| < q.h ^ 2) {t1 t2 : ℝ}
    (h1 : deriv (distSq q p) t1 = 0) (h2 : deriv (distSq q p) t2 = 0) : t1 = t2 := by
  rw [deriv_distSq_eq_S1] at h1 h2
  exact (S1_strictMono (abs_A_lt_of_e_lt_one he) _ _).injective (h1.trans h2.symm)

/-- For any pitch `h ≠ 0` (any `e`) a stationary point exists. -/
theorem exists_stationary (q : Params ℝ) (p : Point ℝ) (hh : q.h ≠ 0) :
    ∃ t, deriv (distSq q p) t = 0 := by
  rw [deriv_distSq_eq_S1]
  exact S1_exists_zero _ _ _ (div_ne_zero hh (by positivity))

/-- Under `|e| < 1` there is exactly one stationary point, and it is the global minimiser. -/
theorem exists_unique_stationary_of_e_lt_one (q : Params ℝ) (p : Point ℝ)
    (he : 4 * Real.pi ^ 2 * rho q p * |q.r| < q.h ^ 2) :
    ∃! ts, deriv (distSq q p) ts = 0 ∧ ∀ t, distSq q p ts ≤ distSq q p t := by
  obtain ⟨ts, hts⟩ := exists_stationary q p ((e_lt_one_iff q p).1 he).1
  exact ⟨ts, ⟨hts, stationary_is_global_min_of_e_lt_one q p he hts⟩,
    fun y hy => stationary_unique_of_e_lt_one q p he hy.1 hts⟩

/-- `kepler_iff_stationary` of C16.lean, restated with the names of this file:
`t = tOfE n E` is stationary iff `M_n = E − e sin E`. -/
theorem kepler_iff_stationary' (q : Params ℝ) (p : Point ℝ) (hh : q.h ≠ 0) (n : ℤ) (E : ℝ) :
    deriv (distSq q p) (tOfE q p n E) = 0 ↔ keplerM q p n = E - ecc q p * Real.sin E := by
  have hE : Real.pi - (tOfE q p n E + q.phi0
      - Complex.arg ⟨px realOps p - q.x0, py realOps p - q.y0⟩) + 2 * Real.pi * n = E := by
    unfold tOfE delta; ring
  have := kepler_iff_stationary q p hh (tOfE q p n E) n
  rw [hE] at this
  exact this

/-- **(2, Kepler form)** For `|e| < 1`: every solution `E` of Kepler's equation `M_n = E − e sin E`
(for any integer `n`, in particular the code's `n = ⌊temp/2π⌋`) maps back to the global minimiser
of the distance over all `t`. So for `|e| < 1` the optimality clause of C16 holds for the exact
root — whether or not `t` falls inside `(−π, π)`. -/
theorem kepler_root_is_global_min_of_e_lt_one (q : Params ℝ) (p : Point ℝ)
    (he : 4 * Real.pi ^ 2 * rho q p * |q.r| < q.h ^ 2) (n : ℤ) {E : ℝ}
    (hK : keplerM q p n = E - ecc q p * Real.sin E) (t : ℝ) :
    distSq q p (tOfE q p n E) ≤ distSq q p t :=
  stationary_is_global_min_of_e_lt_one q p he
    ((kepler_iff_stationary' q p ((e_lt_one_iff q p).1 he).1 n E).2 hK) t

/-! ### (3) a minimiser on the revolution exists and is an endpoint or a stationary point (any e) -/

theorem differentiable_distSq (q : Params ℝ) (p : Point ℝ) : Differentiable ℝ (distSq q p) :=
  fun t => (hasDerivAt_distSq q p t).differentiableAt

/-- Any minimiser of the distance over `[lo, hi]` is an endpoint or a stationary point. -/
theorem isMinOn_Icc_is_stationary_or_endpoint (q : Params ℝ) (p : Point ℝ) {lo hi t : ℝ}
    (ht : t ∈ Icc lo hi) (hmin : IsMinOn (distSq q p) (Icc lo hi) t) :
    t = lo ∨ t = hi ∨ deriv (distSq q p) t = 0 := by
  rcases eq_or_lt_of_le ht.1 with h1 | h1
  · exact Or.inl h1.symm
  rcases eq_or_lt_of_le ht.2 with h2 | h2
  · exact Or.inr (Or.inl h2)
  · exact Or.inr (Or.inr (hmin.isLocalMin (Icc_mem_nhds h1 h2)).deriv_eq_zero)

/-- **(3)** For any pitch and any `e`: the distance attains its minimum over the revolution
`[−π, π]`, and every minimiser is `−π`, `π` or a stationary point (a root of Kepler's equation
when `h ≠ 0`, by `kepler_iff_stationary'`). This is what the final clamp of `closest_t` relies on. -/
theorem global_min_on_interval_is_stationary_or_endpoint (q : Params ℝ) (p : Point ℝ) :
    (∃ t ∈ Icc (-Real.pi) Real.pi, IsMinOn (distSq q p) (Icc (-Real.pi) Real.pi) t) ∧
    ∀ t ∈ Icc (-Real.pi) Real.pi, IsMinOn (distSq q p) (Icc (-Real.pi) Real.pi) t →
      t = -Real.pi ∨ t = Real.pi ∨ deriv (distSq q p) t = 0 := by
  refine ⟨?_, fun t ht hmin => isMinOn_Icc_is_stationary_or_endpoint q p ht hmin⟩
  exact isCompact_Icc.exists_isMinOn
    (nonempty_Icc.2 (by linarith [Real.pi_pos]))
    (differentiable_distSq q p).continuous.continuousOn

/-- The real-number `clamp` of the model. -/
theorem clamp_real (x lo hi : ℝ) :
    clamp realOps x lo hi = if x < lo then lo else if hi < x then hi else x := by
  simp only [clamp, realOps, decide_eq_true_eq]

/-- For `|e| < 1` the clamp is exact: clamping the (unique) stationary point to `[lo, hi]` gives
the minimiser of the distance over `[lo, hi]` (the source comment only claims "good enough to
penalize the helix"; for `|e| < 1` it is the constrained optimum, by convexity). -/
theorem clamp_is_interval_min_of_e_lt_one (q : Params ℝ) (p : Point ℝ)
    (he : 4 * Real.pi ^ 2 * rho q p * |q.r| < q.h ^ 2) {ts : ℝ}
    (hs : deriv (distSq q p) ts = 0) {lo hi : ℝ} {t : ℝ} (ht : t ∈ Icc lo hi) :
    distSq q p (clamp realOps ts lo hi) ≤ distSq q p t := by
  have hcv := (distSq_strictConvex_of_e_lt_one q p he).convexOn
  have hmin := stationary_is_global_min_of_e_lt_one q p he hs
  rw [clamp_real]
  split_ifs with h1 h2
  · -- ts < lo ≤ t : lo lies between ts and t
    have := hcv.le_on_segment (mem_univ ts) (mem_univ t)
      (show lo ∈ segment ℝ ts t by rw [segment_eq_Icc (by linarith [ht.1])]; exact ⟨h1.le, ht.1⟩)
    rwa [max_eq_right (hmin t)] at this
  · -- t ≤ hi < ts
    have := hcv.le_on_segment (mem_univ t) (mem_univ ts)
      (show hi ∈ segment ℝ t ts by rw [segment_eq_Icc (by linarith [ht.2])]; exact ⟨ht.2, h2.le⟩)
    rwa [max_eq_left (hmin t)] at this
  · exact hmin t

/-! ### Tie to the model `closestT realOps` -/

/-- the code's `n = ⌊temp / 2π⌋` -/
noncomputable def codeN (q : Params ℝ) (p : Point ℝ) : ℤ :=
  ⌊(q.phi0 + 2 * Real.pi * (p.z - q.z0) / q.h - delta q p) / (2 * Real.pi)⌋

/-- the value of `E` the model's Newton loop ends with (exact arithmetic) -/
noncomputable def codeE (q : Params ℝ) (p : Point ℝ) (tol : ℝ) (maxIter : Nat) : ℝ :=
  newton realOps (ecc q p) (keplerM q p (codeN q p)) |tol| maxIter
    (if keplerM q p (codeN q p) < 0 then -Real.pi else Real.pi)

/-- The helix branch of the model, in the vocabulary of this file. -/
theorem closestT_eq (q : Params ℝ) (p : Point ℝ) (tol : ℝ) (maxIter : Nat)
    (hh : ¬ |q.h| < 2 ^ (-52 : ℤ)) :
    closestT realOps q p tol maxIter
      = clamp realOps (tOfE q p (codeN q p) (codeE q p tol maxIter)) (-Real.pi) Real.pi := by
  have hbranch : ¬ (realOps.lt (realOps.abs q.h) realOps.eps = true) := by
    simpa only [realOps, decide_eq_true_eq] using hh
  unfold closestT
  rw [if_neg hbranch]
  have hρ : Real.sqrt ((px realOps p - q.x0) ^ 2 + (py realOps p - q.y0) ^ 2) = rho q p := rfl
  have hδ : Complex.arg ⟨px realOps p - q.x0, py realOps p - q.y0⟩ = delta q p := rfl
  have he : 4 * (Real.pi * Real.pi) * rho q p * q.r / (q.h * q.h) = ecc q p := by
    unfold ecc; ring
  have hM : Real.pi + 2 * Real.pi *
        (⌊(q.phi0 + 2 * Real.pi * (p.z - q.z0) / q.h - delta q p) / (2 * Real.pi)⌋ : ℝ)
      - (q.phi0 + 2 * Real.pi * (p.z - q.z0) / q.h - delta q p) = keplerM q p (codeN q p) := rfl
  simp only [realOps, decide_eq_true_eq] at *
  simp only [hρ, hδ, he, hM]
  unfold codeE tOfE
  simp only [realOps, codeN]

/-- the code's `M` lies in `(−π, π]` — the range for which the Newton theorems below are stated -/
theorem keplerM_codeN_mem (q : Params ℝ) (p : Point ℝ) :
    -Real.pi < keplerM q p (codeN q p) ∧ keplerM q p (codeN q p) ≤ Real.pi := by
  have hpi := Real.pi_pos
  set temp := q.phi0 + 2 * Real.pi * (p.z - q.z0) / q.h - delta q p with htemp
  have h1 : ((codeN q p : ℤ) : ℝ) ≤ temp / (2 * Real.pi) := Int.floor_le _
  have h2 : temp / (2 * Real.pi) < (codeN q p : ℝ) + 1 := Int.lt_floor_add_one _
  rw [le_div_iff₀ (by positivity)] at h1
  rw [div_lt_iff₀ (by positivity)] at h2
  unfold keplerM
  rw [← htemp]
  constructor <;> nlinarith

/-- **(2, model form)** Exact arithmetic, helix branch (`|h| ≥ ε`), `|e| < 1`: if the value `E` the
Newton loop ends with solves Kepler's equation exactly and the reported `t` is strictly inside
`(−π, π)`, then the reported `t` minimises the distance over *all* real `t`. -/
theorem closestT_optimal_of_exact_root_of_e_lt_one (q : Params ℝ) (p : Point ℝ) (tol : ℝ)
    (maxIter : Nat) (hh : ¬ |q.h| < 2 ^ (-52 : ℤ))
    (he : 4 * Real.pi ^ 2 * rho q p * |q.r| < q.h ^ 2)
    (hroot : keplerM q p (codeN q p)
      = codeE q p tol maxIter - ecc q p * Real.sin (codeE q p tol maxIter))
    (hin : -Real.pi < closestT realOps q p tol maxIter ∧ closestT realOps q p tol maxIter < Real.pi)
    (t : ℝ) : distSq q p (closestT realOps q p tol maxIter) ≤ distSq q p t := by
  have hc := closestT_eq q p tol maxIter hh
  have : closestT realOps q p tol maxIter = tOfE q p (codeN q p) (codeE q p tol maxIter) := by
    rw [hc, clamp_real] at hin ⊢
    split_ifs with h1 h2
    · rw [if_pos h1] at hin; exact absurd hin.1 (lt_irrefl _)
    · rw [if_neg h1, if_pos h2] at hin; exact absurd hin.2 (lt_irrefl _)
    · rfl
  rw [this]
  exact kepler_root_is_global_min_of_e_lt_one q p he _ hroot t

/-- Same without the "strictly inside" hypothesis, over the revolution: for `|e| < 1` and an exact
root the reported (clamped) `t` minimises the distance over `[−π, π]`. -/
theorem closestT_interval_optimal_of_exact_root_of_e_lt_one (q : Params ℝ) (p : Point ℝ)
    (tol : ℝ) (maxIter : Nat) (hh : ¬ |q.h| < 2 ^ (-52 : ℤ))
    (he : 4 * Real.pi ^ 2 * rho q p * |q.r| < q.h ^ 2)
    (hroot : keplerM q p (codeN q p)
      = codeE q p tol maxIter - ecc q p * Real.sin (codeE q p tol maxIter))
    {t : ℝ} (ht : t ∈ Icc (-Real.pi) Real.pi) :
    distSq q p (closestT realOps q p tol maxIter) ≤ distSq q p t := by
  rw [closestT_eq q p tol maxIter hh]
  exact clamp_is_interval_min_of_e_lt_one q p he
    ((kepler_iff_stationary' q p ((e_lt_one_iff q p).1 he).1 _ _).2 hroot) ht

/-! ### (4) Newton's method for Kepler's equation, `0 ≤ e < 1` -/

/-- Kepler's function `g(E) = E − e sin E − M` (`f` in the code, `kf` in the model). -/
noncomputable def kep (e M E : ℝ) : ℝ := E - e * Real.sin E - M

/-- its derivative `1 − e cos E` (`df` in the code, `kdf` in the model) -/
noncomputable def kep' (e E : ℝ) : ℝ := 1 - e * Real.cos E

/-- one Newton step `E − g(E)/g'(E)` -/
noncomputable def kstep (e M E : ℝ) : ℝ := E - kep e M E / kep' e E

/-- the Newton sequence started at `E0` -/
noncomputable def newtonSeq (e M E0 : ℝ) : ℕ → ℝ
  | 0 => E0
  | n + 1 => kstep e M (newtonSeq e M E0 n)

theorem kf_real (e M E : ℝ) : kf realOps e M E = kep e M E := rfl
theorem kdf_real (e E : ℝ) : kdf realOps e E = kep' e E := rfl

theorem hasDerivAt_kep (e M E : ℝ) : HasDerivAt (kep e M) (kep' e E) E := by
  unfold kep kep'
  exact ((hasDerivAt_id E).sub ((Real.hasDerivAt_sin E).const_mul e)).sub_const M

theorem deriv_kep (e M : ℝ) : deriv (kep e M) = kep' e :=
  funext fun E => (hasDerivAt_kep e M E).deriv

theorem continuous_kep (e M : ℝ) : Continuous (kep e M) :=
  continuous_iff_continuousAt.2 fun E => (hasDerivAt_kep e M E).continuousAt

theorem continuous_kep' (e : ℝ) : Continuous (kep' e) := by
  unfold kep'; fun_prop

/-- `g' ≥ 1 − |e| > 0` for `|e| < 1`. -/
theorem kep'_pos {e : ℝ} (he : |e| < 1) (E : ℝ) : 0 < kep' e E := by
  unfold kep'
  have h1 : |e * Real.cos E| ≤ |e| := by
    rw [abs_mul]; exact mul_le_of_le_one_right (abs_nonneg _) (Real.abs_cos_le_one _)
  linarith [le_abs_self (e * Real.cos E)]

/-- `g` is strictly increasing on ℝ for `|e| < 1`. -/
theorem kep_strictMono {e : ℝ} (he : |e| < 1) (M : ℝ) : StrictMono (kep e M) :=
  strictMono_of_deriv_pos fun E => by rw [deriv_kep]; exact kep'_pos he E

theorem kep_pi (e M : ℝ) : kep e M Real.pi = Real.pi - M := by
  unfold kep; rw [Real.sin_pi]; ring

/-- `g` is convex on `[0, π]` for `e ≥ 0` (`g'' = e sin E ≥ 0` there). -/
theorem kep_convexOn {e : ℝ} (he0 : 0 ≤ e) (M : ℝ) : ConvexOn ℝ (Icc 0 Real.pi) (kep e M) := by
  apply MonotoneOn.convexOn_of_deriv (convex_Icc _ _) (continuous_kep e M).continuousOn
    (fun E _ => (hasDerivAt_kep e M E).differentiableAt.differentiableWithinAt)
  rw [interior_Icc, deriv_kep]
  intro a ha b hb hab
  unfold kep'
  have := Real.strictAntiOn_cos.antitoneOn (Ioo_subset_Icc_self ha) (Ioo_subset_Icc_self hb) hab
  nlinarith

/-- Existence of the root in `[M, π]` for `e ≥ 0`, `M ∈ [0, π]` (any `e ≥ 0`). -/
theorem kep_exists_root {e M : ℝ} (he0 : 0 ≤ e) (hM0 : 0 ≤ M) (hMpi : M ≤ Real.pi) :
    ∃ Es ∈ Icc M Real.pi, kep e M Es = 0 := by
  have h1 : kep e M M ≤ 0 := by
    unfold kep
    have := Real.sin_nonneg_of_nonneg_of_le_pi hM0 hMpi
    nlinarith
  have h2 : 0 ≤ kep e M Real.pi := by rw [kep_pi]; linarith
  exact intermediate_value_Icc hMpi (continuous_kep e M).continuousOn ⟨h1, h2⟩

/-- One Newton step from `E ∈ [E⋆, π]` lands in `[E⋆, E]`. -/
theorem kstep_mem {e M Es E : ℝ} (he0 : 0 ≤ e) (he1 : e < 1) (hEs0 : 0 ≤ Es)
    (hroot : kep e M Es = 0) (hE : E ∈ Icc Es Real.pi) :
    kstep e M E ∈ Icc Es E := by
  have habs : |e| < 1 := by rw [abs_of_nonneg he0]; exact he1
  have hd := kep'_pos habs E
  have hg : 0 ≤ kep e M E := by
    rw [← hroot]; exact (kep_strictMono habs M).monotone hE.1
  unfold kstep
  refine ⟨?_, by linarith [div_nonneg hg hd.le]⟩
  rcases eq_or_lt_of_le hE.1 with h | h
  · rw [← h, hroot]; simp
  · have hs := (kep_convexOn he0 M).slope_le_of_hasDerivAt (x := Es) (y := E)
      ⟨hEs0, h.le.trans hE.2⟩ ⟨hEs0.trans hE.1, hE.2⟩ h (hasDerivAt_kep e M E)
    rw [slope_def_field, hroot, sub_zero, div_le_iff₀ (by linarith)] at hs
    have : kep e M E / kep' e E ≤ E - Es := by
      rw [div_le_iff₀ hd]; linarith
    linarith

theorem newtonSeq_mem {e M Es E0 : ℝ} (he0 : 0 ≤ e) (he1 : e < 1) (hEs0 : 0 ≤ Es)
    (hroot : kep e M Es = 0) (hE0 : E0 ∈ Icc Es Real.pi) (n : ℕ) :
    newtonSeq e M E0 n ∈ Icc Es Real.pi := by
  induction n with
  | zero => exact hE0
  | succ n ih =>
    have := kstep_mem he0 he1 hEs0 hroot ih
    exact ⟨this.1, this.2.trans ih.2⟩

theorem newtonSeq_antitone {e M Es E0 : ℝ} (he0 : 0 ≤ e) (he1 : e < 1) (hEs0 : 0 ≤ Es)
    (hroot : kep e M Es = 0) (hE0 : E0 ∈ Icc Es Real.pi) : Antitone (newtonSeq e M E0) :=
  antitone_nat_of_succ_le fun n =>
    (kstep_mem he0 he1 hEs0 hroot (newtonSeq_mem he0 he1 hEs0 hroot hE0 n)).2

/-! ### (5b) any limit of a Newton sequence with non-vanishing derivative is a root (any e, M) -/

theorem newton_limit_is_root {e M E0 L : ℝ}
    (hlim : Tendsto (newtonSeq e M E0) atTop (𝓝 L)) (hd : kep' e L ≠ 0) : kep e M L = 0 := by
  have hc : ContinuousAt (kstep e M) L := by
    unfold kstep
    exact continuousAt_id.sub
      ((continuous_kep e M).continuousAt.div (continuous_kep' e).continuousAt hd)
  have h1 : Tendsto (fun n => newtonSeq e M E0 (n + 1)) atTop (𝓝 (kstep e M L)) :=
    (hc.tendsto.comp hlim)
  have h2 : Tendsto (fun n => newtonSeq e M E0 (n + 1)) atTop (𝓝 L) :=
    hlim.comp (tendsto_add_atTop_nat 1)
  have := tendsto_nhds_unique h1 h2
  unfold kstep at this
  have h3 : kep e M L / kep' e L = 0 := by linarith
  rcases div_eq_zero_iff.1 h3 with h | h
  · exact h
  · exact absurd h hd

/-- **(4)** Newton for Kepler, `0 ≤ e < 1`, `M ∈ [0, π]`, start `π` (the code's start for
`M ≥ 0`): Kepler's equation has exactly one real root `E⋆`, it lies in `[M, π]`; every Newton
iterate lies in `[E⋆, π]`, the sequence is non-increasing, and it converges to `E⋆`.
This is the "Newton method converges monotonically" claim of the source comment, for `e < 1`. -/
theorem newton_kepler_tendsto_root {e M : ℝ} (he0 : 0 ≤ e) (he1 : e < 1) (hM0 : 0 ≤ M)
    (hMpi : M ≤ Real.pi) :
    ∃ Es, (kep e M Es = 0 ∧ ∀ E, kep e M E = 0 → E = Es) ∧ Es ∈ Icc M Real.pi ∧
      (∀ n, newtonSeq e M Real.pi n ∈ Icc Es Real.pi) ∧
      Antitone (newtonSeq e M Real.pi) ∧
      Tendsto (newtonSeq e M Real.pi) atTop (𝓝 Es) := by
  have habs : |e| < 1 := by rw [abs_of_nonneg he0]; exact he1
  obtain ⟨Es, hEs, hroot⟩ := kep_exists_root he0 hM0 hMpi
  have hEs0 : 0 ≤ Es := hM0.trans hEs.1
  have hE0 : Real.pi ∈ Icc Es Real.pi := ⟨hEs.2, le_refl _⟩
  have hmem := newtonSeq_mem he0 he1 hEs0 hroot hE0
  have hanti := newtonSeq_antitone he0 he1 hEs0 hroot hE0
  have huniq : ∀ E, kep e M E = 0 → E = Es := fun E hE =>
    (kep_strictMono habs M).injective (hE.trans hroot.symm)
  refine ⟨Es, ⟨hroot, huniq⟩, hEs, hmem, hanti, ?_⟩
  have hbdd : BddBelow (range (newtonSeq e M Real.pi)) :=
    ⟨Es, by rintro _ ⟨n, rfl⟩; exact (hmem n).1⟩
  have hlim := tendsto_atTop_ciInf hanti hbdd
  have hL := newton_limit_is_root hlim (kep'_pos habs _).ne'
  rwa [huniq _ hL] at hlim

/-- Oddness: the Newton sequence for `(e, M)` from `−E0` is the mirror image of the one for
`(e, −M)` from `E0`. -/
theorem newtonSeq_neg (e M E0 : ℝ) (n : ℕ) :
    newtonSeq e M (-E0) n = -newtonSeq e (-M) E0 n := by
  induction n with
  | zero => rfl
  | succ n ih =>
    show kstep e M (newtonSeq e M (-E0) n) = -kstep e (-M) (newtonSeq e (-M) E0 n)
    rw [ih]
    unfold kstep kep kep'
    rw [Real.sin_neg, Real.cos_neg]
    ring

/-- **(4, mirrored)** `0 ≤ e < 1`, `M ∈ [−π, 0]`, start `−π` (the code's start for `M < 0`): unique
root `E⋆ ∈ [−π, M]`, iterates in `[−π, E⋆]`, non-decreasing, converging to `E⋆`. -/
theorem newton_kepler_tendsto_root_neg {e M : ℝ} (he0 : 0 ≤ e) (he1 : e < 1)
    (hMpi : -Real.pi ≤ M) (hM0 : M ≤ 0) :
    ∃ Es, (kep e M Es = 0 ∧ ∀ E, kep e M E = 0 → E = Es) ∧ Es ∈ Icc (-Real.pi) M ∧
      (∀ n, newtonSeq e M (-Real.pi) n ∈ Icc (-Real.pi) Es) ∧
      Monotone (newtonSeq e M (-Real.pi)) ∧
      Tendsto (newtonSeq e M (-Real.pi)) atTop (𝓝 Es) := by
  obtain ⟨Es, ⟨hroot, huniq⟩, hEs, hmem, hanti, hlim⟩ :=
    newton_kepler_tendsto_root (M := -M) he0 he1 (by linarith) (by linarith)
  have hodd : ∀ E, kep e M (-E) = -kep e (-M) E := fun E => by
    unfold kep; rw [Real.sin_neg]; ring
  refine ⟨-Es, ⟨by rw [hodd, hroot, neg_zero], fun E hE => ?_⟩, ⟨by linarith [hEs.2], by linarith [hEs.1]⟩,
    fun n => ?_, fun a b hab => ?_, ?_⟩
  · have := huniq (-E) (by have := hodd (-E); rw [neg_neg] at this; linarith)
    linarith
  · rw [newtonSeq_neg]; exact ⟨by linarith [(hmem n).2], by linarith [(hmem n).1]⟩
  · rw [newtonSeq_neg, newtonSeq_neg]; exact neg_le_neg (hanti hab)
  · have : newtonSeq e M (-Real.pi) = fun n => -newtonSeq e (-M) Real.pi n :=
      funext fun n => newtonSeq_neg e M Real.pi n
    rw [this]; exact hlim.neg

/-- The model's own loop (exact arithmetic, any tolerance, any fuel, early exit included) never
leaves `[E⋆, start]` when started in `[E⋆, π]`. -/
theorem newton_model_mem {e M Es : ℝ} (he0 : 0 ≤ e) (he1 : e < 1) (hEs0 : 0 ≤ Es)
    (hroot : kep e M Es = 0) (tol : ℝ) (fuel : ℕ) {E0 : ℝ} (hE0 : E0 ∈ Icc Es Real.pi) :
    newton realOps e M tol fuel E0 ∈ Icc Es E0 := by
  induction fuel generalizing E0 with
  | zero => exact ⟨hE0.1, le_refl _⟩
  | succ n ih =>
    have hk := kstep_mem he0 he1 hEs0 hroot hE0
    have hstep : realOps.sub E0 (realOps.div (kf realOps e M E0) (kdf realOps e E0))
        = kstep e M E0 := rfl
    simp only [newton, hstep]
    split_ifs
    · exact hk
    · have := ih (E0 := kstep e M E0) ⟨hk.1, hk.2.trans hE0.2⟩
      exact ⟨this.1, this.2.trans hk.2⟩

/-- Instantiated at the code's start: for `0 ≤ e < 1`, `M ∈ [0, π]` the value the model's loop
returns lies between the unique root and `π`, for every tolerance and iteration budget. -/
theorem newton_model_mem_pi {e M : ℝ} (he0 : 0 ≤ e) (he1 : e < 1) (hM0 : 0 ≤ M)
    (hMpi : M ≤ Real.pi) (tol : ℝ) (fuel : ℕ) :
    ∃ Es ∈ Icc M Real.pi, kep e M Es = 0 ∧ newton realOps e M tol fuel Real.pi ∈ Icc Es Real.pi := by
  obtain ⟨Es, hEs, hroot⟩ := kep_exists_root he0 hM0 hMpi
  exact ⟨Es, hEs, hroot,
    newton_model_mem he0 he1 (hM0.trans hEs.1) hroot tol fuel ⟨hEs.2, le_refl _⟩⟩

/-! ### (5) `e ≥ 1`: why the argument above does not extend -/

/-- For `e ≥ 1` the derivative of Kepler's function vanishes at `E = arccos(1/e) ∈ [0, π/2]`: `g` is
not strictly increasing with a positive lower bound on `g'`, the Newton step divides by zero there,
and `kep'_pos` fails. -/
theorem kepler_deriv_vanishes_of_one_le {e : ℝ} (he : 1 ≤ e) :
    ∃ E ∈ Icc 0 (Real.pi / 2), kep' e E = 0 := by
  have hpos : 0 < e := by linarith
  have h1 : (1 : ℝ) / e ≤ 1 := by rw [div_le_one hpos]; exact he
  have h0 : 0 ≤ (1 : ℝ) / e := by positivity
  refine ⟨Real.arccos (1 / e), ⟨Real.arccos_nonneg _, Real.arccos_le_pi_div_two.2 h0⟩, ?_⟩
  unfold kep'
  rw [Real.cos_arccos (by linarith) h1]
  field_simp
  ring

/-- For `e > 1` (written `h² < 4π²ρR`, which forces `R > 0`) the squared distance is *not* convex:
at `t = π − φ₀ + δ` its second derivative is `2((h/2π)² − Rρ) < 0`. So hypothesis `e < 1` of
`distSq_strictConvex_of_e_lt_one` cannot be dropped. -/
theorem distSq_not_convex_of_one_lt_e (q : Params ℝ) (p : Point ℝ)
    (he : q.h ^ 2 < 4 * Real.pi ^ 2 * rho q p * q.r) : ¬ ConvexOn ℝ univ (distSq q p) := by
  intro hcv
  have hmono : Monotone (deriv (distSq q p)) := by
    have := hcv.monotoneOn_deriv (fun x _ => (differentiable_distSq q p x))
    exact fun a b hab => this (mem_univ a) (mem_univ b) hab
  have h2 := hmono.deriv_nonneg (x := Real.pi - (q.phi0 - delta q p))
  rw [deriv_distSq_eq_S1, deriv_S1] at h2
  unfold S2 at h2
  rw [show Real.pi - (q.phi0 - delta q p) + (q.phi0 - delta q p) = Real.pi by ring,
    Real.cos_pi, div_pow, mul_pow] at h2
  have hpi : 0 < Real.pi := Real.pi_pos
  have : q.h ^ 2 / (2 ^ 2 * Real.pi ^ 2) < rho q p * q.r := by
    rw [div_lt_iff₀ (by positivity)]; linarith
  linarith

/-! ### (2)+(4) together: the limit of the code's Newton iteration is the global minimiser -/

/-- For any pitch `h ≠ 0` and any `n`, Kepler's equation of the code has a solution. -/
theorem exists_kepler_root (q : Params ℝ) (p : Point ℝ) (hh : q.h ≠ 0) (n : ℤ) :
    ∃ E, keplerM q p n = E - ecc q p * Real.sin E := by
  obtain ⟨ts, hts⟩ := exists_stationary q p hh
  refine ⟨Real.pi - ts + 2 * Real.pi * n - q.phi0 + delta q p, ?_⟩
  rw [← kepler_iff_stationary' q p hh n]
  have : tOfE q p n (Real.pi - ts + 2 * Real.pi * n - q.phi0 + delta q p) = ts := by
    unfold tOfE; ring
  rw [this]; exact hts

/-- **(2)+(4)** Exact arithmetic, `R ≥ 0`, `h ≠ 0`, `e < 1`, the code's `n = ⌊temp/2π⌋`, the code's
`M` and the code's start (`−π` if `M < 0`, else `π`): the Newton sequence converges, monotonically,
to a limit `E⋆`, and `t⋆ = π − E⋆ + 2πn − φ₀ + δ` minimises the distance over all real `t`.
(What the code returns is an iterate, not the limit; with a tolerance and ≤ 20 steps in `f64` —
that part stays with the harness.) -/
theorem newton_limit_is_global_min_of_e_lt_one (q : Params ℝ) (p : Point ℝ) (hr : 0 ≤ q.r)
    (he : 4 * Real.pi ^ 2 * rho q p * |q.r| < q.h ^ 2) :
    ∃ Es, Tendsto (newtonSeq (ecc q p) (keplerM q p (codeN q p))
              (if keplerM q p (codeN q p) < 0 then -Real.pi else Real.pi)) atTop (𝓝 Es) ∧
      (Antitone (newtonSeq (ecc q p) (keplerM q p (codeN q p))
              (if keplerM q p (codeN q p) < 0 then -Real.pi else Real.pi)) ∨
       Monotone (newtonSeq (ecc q p) (keplerM q p (codeN q p))
              (if keplerM q p (codeN q p) < 0 then -Real.pi else Real.pi))) ∧
      ∀ t, distSq q p (tOfE q p (codeN q p) Es) ≤ distSq q p t := by
  obtain ⟨hh, he1⟩ := (e_lt_one_iff q p).1 he
  have he0 : 0 ≤ ecc q p := by
    unfold ecc; have := rho_nonneg q p; positivity
  rw [abs_of_nonneg he0] at he1
  obtain ⟨hMlo, hMhi⟩ := keplerM_codeN_mem q p
  split_ifs with hneg
  · obtain ⟨Es, ⟨hroot, _⟩, _, _, hmono, hlim⟩ :=
      newton_kepler_tendsto_root_neg he0 he1 hMlo.le hneg.le
    refine ⟨Es, hlim, Or.inr hmono, ?_⟩
    exact kepler_root_is_global_min_of_e_lt_one q p he _ (by unfold kep at hroot; linarith)
  · obtain ⟨Es, ⟨hroot, _⟩, _, _, hanti, hlim⟩ :=
      newton_kepler_tendsto_root he0 he1 (not_lt.1 hneg) hMhi
    refine ⟨Es, hlim, Or.inl hanti, ?_⟩
    exact kepler_root_is_global_min_of_e_lt_one q p he _ (by unfold kep at hroot; linarith)

/-! ### Non-vacuity: concrete instances of every hypothesis -/

section Examples

/-- helix of radius 0.1 m about the z axis, pitch 1 m -/
noncomputable def qEx : Params ℝ := ⟨0, 0, 0, 0.1, 0, 1⟩
/-- the point (0.1, 0, 0), on that helix at `t = 0` -/
noncomputable def pEx : Point ℝ := ⟨0.1, 0, 0⟩
/-- helix of radius 1 m, pitch 1 m, and the point (1, 0, 0): `e = 4π² > 1` -/
noncomputable def qBig : Params ℝ := ⟨0, 0, 0, 1, 0, 1⟩
noncomputable def pBig : Point ℝ := ⟨1, 0, 0⟩

theorem rho_axis (q : Params ℝ) (p : Point ℝ) (hx : q.x0 = 0) (hy : q.y0 = 0) (hphi : p.phi = 0)
    (hr : 0 ≤ p.r) : rho q p = p.r := by
  unfold rho
  simp only [px, py, realOps, hx, hy, hphi, Real.cos_zero, Real.sin_zero, mul_one, mul_zero,
    sub_zero]
  rw [show p.r ^ 2 + (0:ℝ) ^ 2 = p.r ^ 2 by ring, Real.sqrt_sq hr]

theorem delta_axis (q : Params ℝ) (p : Point ℝ) (hx : q.x0 = 0) (hy : q.y0 = 0) (hphi : p.phi = 0)
    (hr : 0 ≤ p.r) : delta q p = 0 := by
  unfold delta
  simp only [px, py, realOps, hx, hy, hphi, Real.cos_zero, Real.sin_zero, mul_one, mul_zero,
    sub_zero]
  exact Complex.arg_ofReal_of_nonneg hr

theorem rho_ex : rho qEx pEx = 0.1 := rho_axis qEx pEx rfl rfl rfl (by norm_num [pEx])
theorem delta_ex : delta qEx pEx = 0 := delta_axis qEx pEx rfl rfl rfl (by norm_num [pEx])

theorem he_ex : 4 * Real.pi ^ 2 * rho qEx pEx * |qEx.r| < qEx.h ^ 2 := by
  rw [rho_ex]
  have h4 := Real.pi_le_four
  have h0 := Real.pi_pos
  have : Real.pi ^ 2 ≤ 16 := by nlinarith
  simp only [qEx]
  rw [abs_of_pos (by norm_num)]
  nlinarith

-- (1)
example : StrictConvexOn ℝ univ (distSq qEx pEx) := distSq_strictConvex_of_e_lt_one _ _ he_ex
-- (2): the hypotheses (e < 1 and a stationary point) are jointly satisfiable
example : ∃ ts, deriv (distSq qEx pEx) ts = 0 ∧ ∀ t, distSq qEx pEx ts ≤ distSq qEx pEx t :=
  (exists_unique_stationary_of_e_lt_one qEx pEx he_ex).exists
-- (2), Kepler form: e < 1 and a Kepler root, for the code's n
example : ∃ E, keplerM qEx pEx (codeN qEx pEx) = E - ecc qEx pEx * Real.sin E ∧
    ∀ t, distSq qEx pEx (tOfE qEx pEx (codeN qEx pEx) E) ≤ distSq qEx pEx t := by
  obtain ⟨E, hE⟩ := exists_kepler_root qEx pEx ((e_lt_one_iff _ _).1 he_ex).1 (codeN qEx pEx)
  exact ⟨E, hE, kepler_root_is_global_min_of_e_lt_one qEx pEx he_ex _ hE⟩
-- (3): no hypotheses
example : ∃ t ∈ Icc (-Real.pi) Real.pi, IsMinOn (distSq qBig pBig) (Icc (-Real.pi) Real.pi) t :=
  (global_min_on_interval_is_stationary_or_endpoint qBig pBig).1
-- (4): e = 1/2, M = 1 and M = −1
example : ∃ Es, Tendsto (newtonSeq (1/2) 1 Real.pi) atTop (𝓝 Es) ∧ kep (1/2) 1 Es = 0 := by
  obtain ⟨Es, ⟨h, _⟩, _, _, _, hl⟩ := newton_kepler_tendsto_root (e := 1/2) (M := 1)
    (by norm_num) (by norm_num) (by norm_num) (by linarith [Real.two_le_pi])
  exact ⟨Es, hl, h⟩
example : ∃ Es, Tendsto (newtonSeq (1/2) (-1) (-Real.pi)) atTop (𝓝 Es) ∧ kep (1/2) (-1) Es = 0 := by
  obtain ⟨Es, ⟨h, _⟩, _, _, _, hl⟩ := newton_kepler_tendsto_root_neg (e := 1/2) (M := -1)
    (by norm_num) (by norm_num) (by linarith [Real.two_le_pi]) (by norm_num)
  exact ⟨Es, hl, h⟩
-- (2)+(4)
example : ∃ Es, ∀ t, distSq qEx pEx (tOfE qEx pEx (codeN qEx pEx) Es) ≤ distSq qEx pEx t := by
  obtain ⟨Es, _, _, h⟩ := newton_limit_is_global_min_of_e_lt_one qEx pEx (by norm_num [qEx]) he_ex
  exact ⟨Es, h⟩
-- (5)
example : ∃ E ∈ Icc 0 (Real.pi / 2), kep' 2 E = 0 := kepler_deriv_vanishes_of_one_le (by norm_num)
example : ¬ ConvexOn ℝ univ (distSq qBig pBig) := by
  apply distSq_not_convex_of_one_lt_e
  rw [rho_axis qBig pBig rfl rfl rfl (by norm_num [pBig])]
  simp only [qBig, pBig]
  nlinarith [Real.two_le_pi]

/-- model form of (2), fully concrete: helix `qEx`, point `pEx` (which lies on the helix at `t = 0`),
zero iterations: `M = π`, the start `E = π` is already the exact root, the reported `t` is `0`. -/
example (tol : ℝ) (t : ℝ) :
    distSq qEx pEx (closestT realOps qEx pEx tol 0) ≤ distSq qEx pEx t := by
  have hN : codeN qEx pEx = 0 := by
    unfold codeN; rw [delta_ex]; simp [qEx, pEx]
  have hM : keplerM qEx pEx (codeN qEx pEx) = Real.pi := by
    rw [hN]; unfold keplerM; rw [delta_ex]; simp [qEx, pEx]
  have hE : codeE qEx pEx tol 0 = Real.pi := by
    unfold codeE
    rw [hM, if_neg (not_lt.2 Real.pi_pos.le)]
    rfl
  have hh : ¬ |qEx.h| < 2 ^ (-52 : ℤ) := by
    simp only [qEx, abs_one, not_lt]
    exact zpow_le_one_of_nonpos₀ (by norm_num) (by norm_num)
  have hval : closestT realOps qEx pEx tol 0 = 0 := by
    rw [closestT_eq _ _ _ _ hh, hE, hN, clamp_real]
    have : tOfE qEx pEx 0 Real.pi = 0 := by
      unfold tOfE; rw [delta_ex]; simp [qEx]
    rw [this, if_neg (by linarith [Real.pi_pos]), if_neg (by linarith [Real.pi_pos])]
  apply closestT_optimal_of_exact_root_of_e_lt_one qEx pEx tol 0 hh he_ex
  · rw [hM, hE, Real.sin_pi]; ring
  · rw [hval]; exact ⟨by linarith [Real.pi_pos], Real.pi_pos⟩

end Examples

end AlphaG.C16b
