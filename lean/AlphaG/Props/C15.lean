import AlphaG.Lemmas.ClusterLoop
import AlphaG.Lemmas.ClusterVertex
/-
C15 — clustering and vertexing conserve their inputs and honour the size and distance rules.

Model: `AlphaG.Cluster.cluster` (Model/Cluster.lean), `AlphaG.Vertexing.findVertices`
(Model/Vertexing.lean). All statements hold for inputs of **any size**, any `bins`, any `near`,
any `min ≥ 1` (the code passes 13), under `Ctx.Good`:

* `eq` (`SpacePoint ==`) is an equivalence — true for NaN-free points (`-0.0 == 0.0` is the only
  non-bitwise equality); with a NaN coordinate `p == p` is false and the Rust code itself panics
  in `remove_unchecked` (outside the quantifier of C15);
* `get_bins` respects `==` and never lists a bin twice for one point (the correspondence run
  checks both on every generated cloud; in `get_bins` the bins of one point have pairwise
  distinct `theta` or distinct `rho`);
* `near` symmetric, used by `cluster_connected` only (`distance` is symmetric bit for bit:
  `(a-b)² = (b-a)²`; also checked on every generated cloud).

"Multiset modulo `==`": the Rust code moves *values*; two `==` points are indistinguishable to
it, so conservation is stated on multiplicities of `==`-classes (`cnt ctx x l` = number of
elements of `l` that are `==` to `x`), and additionally as a genuine permutation up to
pointwise `==` (`cluster_partition_perm`), and as `List.Perm` when `==` is identity of indices.
Every statement below is proved at full strength (no `_partial` versions were needed).
-/
namespace AlphaG.Cluster

/-- Pointwise `==`. -/
inductive EqList (ctx : Ctx) : List Nat → List Nat → Prop
  | nil : EqList ctx [] []
  | cons {a b : Nat} {l l' : List Nat} : ctx.eq a b = true → EqList ctx l l' →
      EqList ctx (a :: l) (b :: l')

/-- Equal multiplicities of every `==`-class ⇒ a permutation up to pointwise `==`. -/
theorem exists_perm_of_cnt_eq {ctx : Ctx} (g : ctx.Good) :
    ∀ (l' l : List Nat), (∀ x, cnt ctx x l = cnt ctx x l') →
      ∃ l'', l''.Perm l ∧ EqList ctx l'' l' := by
  intro l'
  induction l' with
  | nil =>
    intro l h
    have : l = [] := by
      cases l with
      | nil => rfl
      | cons a t =>
        have := h a
        rw [cnt_cons] at this
        have : ind ctx a a = 1 := by simp [ind, g.eq_refl]
        simp at *; omega
    subst this
    exact ⟨[], List.Perm.refl _, EqList.nil⟩
  | cons a' t' ih =>
    intro l h
    have h1 : 0 < cnt ctx a' l := by
      have := h a'
      rw [cnt_cons] at this
      have : ind ctx a' a' = 1 := by simp [ind, g.eq_refl]
      omega
    obtain ⟨a, ha, haa⟩ := List.countP_pos_iff.1 h1
    have hp : l.Perm (a :: l.erase a) := List.perm_cons_erase ha
    have h2 : ∀ x, cnt ctx x (l.erase a) = cnt ctx x t' := by
      intro x
      have := h x
      rw [cnt_perm ctx x hp, cnt_cons, cnt_cons, ind_congr g (g.eq_symm _ _ haa) x] at this
      omega
    obtain ⟨l2, hp2, he2⟩ := ih _ h2
    exact ⟨a :: l2, (hp2.cons a).trans hp.symm, EqList.cons (g.eq_symm _ _ haa) he2⟩

/-! ## Clustering -/

/-- C14/C15 `cluster_total`: for every input, every `bins`/`near`, `min ≥ 1`, the model
terminates with fuel `|sp| + 1` in both loops and none of the bookkeeping `unwrap`s fires
(`get_mut(&bin).unwrap()`, the two `position(..).unwrap()`): the outcome is `.ok`. -/
theorem cluster_total {ctx : Ctx} (g : ctx.Good) (min : Nat) (hmin : 1 ≤ min) (sp : List Nat) :
    ∃ r, cluster ctx min sp = .ok r := by
  obtain ⟨r, hr, _⟩ := cluster_spec g min hmin sp (fun _ => True) (fun _ => trivial) trivial
  exact ⟨r, hr⟩

/-- C15 `cluster_partition`: every `==`-class occurs in `clusters.flatten ++ remainder`
exactly as often as in the input (in particular nothing else appears: a point that is not
`==` to an input point has multiplicity 0). -/
theorem cluster_partition {ctx : Ctx} (g : ctx.Good) (min : Nat) (hmin : 1 ≤ min)
    (sp : List Nat) (r : Result) (h : cluster ctx min sp = .ok r) :
    ∀ x, cnt ctx x (r.clusters.flatten ++ r.remainder) = cnt ctx x sp := by
  obtain ⟨r', hr, hpart, _⟩ :=
    cluster_spec g min hmin sp (fun _ => True) (fun _ => trivial) trivial
  rw [h] at hr
  cases hr
  intro x
  rw [cnt_append]
  exact hpart x

/-- The same as a permutation of the input up to pointwise `==`. -/
theorem cluster_partition_perm {ctx : Ctx} (g : ctx.Good) (min : Nat) (hmin : 1 ≤ min)
    (sp : List Nat) (r : Result) (h : cluster ctx min sp = .ok r) :
    ∃ l, l.Perm (r.clusters.flatten ++ r.remainder) ∧ EqList ctx l sp :=
  exists_perm_of_cnt_eq g sp _ (cluster_partition g min hmin sp r h)

/-- When `==` is identity of indices (no two input points are `==`-equal as indices are
distinct), conservation is `List.Perm`. -/
theorem cluster_partition_perm_of_eq {ctx : Ctx} (g : ctx.Good)
    (hid : ∀ a b, ctx.eq a b = true ↔ a = b) (min : Nat) (hmin : 1 ≤ min)
    (sp : List Nat) (r : Result) (h : cluster ctx min sp = .ok r) :
    (r.clusters.flatten ++ r.remainder).Perm sp := by
  rw [List.perm_iff_count]
  intro a
  have := cluster_partition g min hmin sp r h a
  have hc : ∀ l : List Nat, cnt ctx a l = l.count a := by
    intro l
    unfold cnt List.count
    congr 1
    funext q
    by_cases hq : a = q
    · subst hq; simp [(hid a a).2 rfl]
    · have h1 : ctx.eq a q = false := by
        cases h2 : ctx.eq a q with
        | false => rfl
        | true => exact absurd ((hid a q).1 h2) hq
      have h3 : (q == a) = false := by
        simp only [beq_eq_false_iff_ne, ne_eq]
        exact fun h => hq h.symm
      rw [h1, h3]
  rw [hc, hc] at this
  exact this

/-- C15 `cluster_min_size`: every cluster has at least `min` points. -/
theorem cluster_min_size {ctx : Ctx} (g : ctx.Good) (min : Nat) (hmin : 1 ≤ min)
    (sp : List Nat) (r : Result) (h : cluster ctx min sp = .ok r) :
    ∀ c ∈ r.clusters, min ≤ c.length := by
  obtain ⟨r', hr, _, hc⟩ :=
    cluster_spec g min hmin sp (fun _ => True) (fun _ => trivial) trivial
  rw [h] at hr
  cases hr
  exact fun c hcm => (hc c hcm).1

/-- C15 `cluster_connected`: any two points of a cluster are linked by a chain of `near`
steps (`distance ≤ max_distance`) through points of that cluster. -/
theorem cluster_connected {ctx : Ctx} (g : ctx.Good)
    (hsym : ∀ a b, ctx.near a b = true → ctx.near b a = true) (min : Nat) (hmin : 1 ≤ min)
    (sp : List Nat) (r : Result) (h : cluster ctx min sp = .ok r) :
    ∀ c ∈ r.clusters, ∀ p ∈ c, ∀ q ∈ c, Reach ctx.near c p q := by
  obtain ⟨r', hr, _, hc⟩ :=
    cluster_spec g min hmin sp (Conn ctx.near) (largestCluster_conn hsym) (Conn.nil _)
  rw [h] at hr
  cases hr
  exact fun c hcm => (hc c hcm).2

/-- C15 `clusters_disjoint`: the clusters together use no `==`-class more often than the
input holds it … -/
theorem clusters_disjoint {ctx : Ctx} (g : ctx.Good) (min : Nat) (hmin : 1 ≤ min)
    (sp : List Nat) (r : Result) (h : cluster ctx min sp = .ok r) :
    ∀ x, cnt ctx x r.clusters.flatten ≤ cnt ctx x sp := by
  intro x
  have := cluster_partition g min hmin sp r h x
  rw [cnt_append] at this
  omega

theorem pairwise_disjoint_of_cnt_le_one {ctx : Ctx} (g : ctx.Good) :
    ∀ (L : List (List Nat)), (∀ x, cnt ctx x L.flatten ≤ 1) →
      L.Pairwise (fun c d => ∀ a ∈ c, ∀ b ∈ d, ctx.eq a b = false) := by
  intro L
  induction L with
  | nil => intro _; exact List.Pairwise.nil
  | cons c L ih =>
    intro h
    refine List.Pairwise.cons ?_ (ih ?_)
    · intro d hd a ha b hb
      cases hab : ctx.eq a b with
      | false => rfl
      | true =>
        have h1 := h a
        rw [List.flatten_cons, cnt_append] at h1
        have h2 : 0 < cnt ctx a c := cnt_self_pos g ha
        have h3 : 0 < cnt ctx a d := List.countP_pos_iff.2 ⟨b, hb, hab⟩
        have h4 := cnt_flatten_le ctx a hd
        omega
    · intro x
      have := h x
      rw [List.flatten_cons, cnt_append] at this
      omega

/-- … in particular, when the input holds no two `==` points, no point (not even up to `==`)
belongs to two clusters. -/
theorem clusters_pairwise_disjoint {ctx : Ctx} (g : ctx.Good) (min : Nat) (hmin : 1 ≤ min)
    (sp : List Nat) (hnd : ∀ x, cnt ctx x sp ≤ 1) (r : Result) (h : cluster ctx min sp = .ok r) :
    r.clusters.Pairwise (fun c d => ∀ a ∈ c, ∀ b ∈ d, ctx.eq a b = false) :=
  pairwise_disjoint_of_cnt_le_one g _
    (fun x => Nat.le_trans (clusters_disjoint g min hmin sp r h x) (hnd x))

/-! ### Non-vacuity: a concrete context satisfying `Good`, and a concrete run -/

/-- Six points; 0,1,2 and 3,4 vote for a common bin, 5 is a twin (`==`) of 0;
chain 0–1–2 and 3–4 under `near`. -/
def exCtx : Ctx where
  eq := fun a b => a % 5 == b % 5
  bins := fun a => if a % 5 < 3 then [0, 1 + a % 5] else [4, 5 + a % 5]
  near := fun a b => (a % 5 + 1 == b % 5) || (b % 5 + 1 == a % 5) || (a % 5 == b % 5)

theorem exCtx_good : exCtx.Good where
  eq_refl := by intro a; simp [exCtx]
  eq_symm := by intro a b h; simp [exCtx] at *; omega
  eq_trans := by intro a b c h1 h2; simp [exCtx] at *; omega
  bins_nodup := by
    intro a; simp only [exCtx]; split
    · simp; omega
    · simp; omega
  bins_eq := by
    intro a b h k
    simp only [exCtx, beq_iff_eq] at *
    rw [h]

example : cluster exCtx 2 [0, 1, 2, 3, 4, 5] = .ok ⟨[[5, 0, 1, 2], [4, 3]], []⟩ := by decide
example : cluster exCtx 3 [0, 1, 2, 3, 4, 5] = .ok ⟨[[5, 0, 1, 2]], [4, 3]⟩ := by decide

end AlphaG.Cluster

/-! ## Vertex bookkeeping -/
namespace AlphaG.Vertexing
open AlphaG.Cluster (cnt cnt_append cnt_perm cnt_flatten_le)

/-- Tracks assigned to the primary vertex (none when there is no vertex). -/
def Result.primaryTracks (r : Result) : List Nat := r.primary.getD []

theorem findVertices_spec {ctx : Ctx} (g : ctx.Good) (tracks : List Nat) :
    (∀ r, findVertices ctx tracks = .ok r →
      (∀ x, cnt ctx.toCluster x (r.primaryTracks ++ r.remainder) = cnt ctx.toCluster x tracks) ∧
      r.secondaries = [] ∧ (∀ v, r.primary = some v → 2 ≤ v.length)) ∧
    ((∀ l, ctx.sort l ≠ none) → (∀ a b, ctx.cmp a b ≠ none) →
      ∃ r, findVertices ctx tracks = .ok r) := by
  -- facts that hold whenever the first two stages return
  have key : ∀ cls v, beamlineClusters ctx (tracks.filter ctx.keep) = .ok cls →
      maxBy ctx.cmp (maxSetByKey List.length (cls.filter (fun c => decide (1 < c.length))))
        = .ok v →
      (∀ x, cnt ctx.toCluster x (v.getD []) ≤ cnt ctx.toCluster x tracks) ∧
      (∀ w, v = some w → 2 ≤ w.length) := by
    intro cls v hb hm
    have hperm := beamlineClusters_perm g _ cls hb
    cases v with
    | none => exact ⟨by intro x; simp, by intro w hw; cases hw⟩
    | some w =>
      have hw1 := maxSetByKey_subset List.length _ w (maxBy_mem hm)
      rw [List.mem_filter] at hw1
      refine ⟨?_, ?_⟩
      · intro x
        simp only [Option.getD_some]
        have h1 := cnt_flatten_le ctx.toCluster x hw1.1
        have h2 := cnt_perm ctx.toCluster x hperm
        have h3 : cnt ctx.toCluster x (tracks.filter ctx.keep) ≤ cnt ctx.toCluster x tracks := by
          unfold cnt
          rw [List.countP_filter]
          exact List.countP_mono_left (by intro a _ h; simp at h; exact h.1)
        omega
      · intro w' hw'
        cases hw'
        have := hw1.2
        simp only [decide_eq_true_eq] at this
        omega
  constructor
  · intro r hr
    unfold findVertices at hr
    cases hb : beamlineClusters ctx (tracks.filter ctx.keep) with
    | err e => rw [hb] at hr; cases hr
    | panic s => rw [hb] at hr; cases hr
    | ok cls =>
      rw [hb] at hr
      simp only at hr
      cases hm : maxBy ctx.cmp
          (maxSetByKey List.length (cls.filter (fun c => decide (1 < c.length)))) with
      | err e => rw [hm] at hr; cases hr
      | panic s => rw [hm] at hr; cases hr
      | ok v =>
        rw [hm] at hr
        simp only at hr
        obtain ⟨hle, htwo⟩ := key cls v hb hm
        obtain ⟨rem, hrem, hcnt⟩ := removeTracks_spec g (v.getD []) tracks hle
        rw [hrem] at hr
        simp only [Outcome.ok.injEq] at hr
        subst hr
        refine ⟨?_, rfl, htwo⟩
        intro x
        simp only [Result.primaryTracks]
        rw [cnt_append]
        have := hcnt x
        omega
  · intro hs hc
    obtain ⟨cls, hb⟩ := beamlineClusters_total g (tracks.filter ctx.keep) (hs _)
    obtain ⟨v, hm⟩ := maxBy_total hc
      (maxSetByKey List.length (cls.filter (fun c => decide (1 < c.length))))
    obtain ⟨hle, _⟩ := key cls v hb hm
    obtain ⟨rem, hrem, _⟩ := removeTracks_spec g (v.getD []) tracks hle
    exact ⟨⟨v, [], rem⟩, by unfold findVertices; rw [hb]; simp only; rw [hm]; simp only; rw [hrem]⟩

/-- C15 `vertex_partition`: primary tracks ++ remainder is the input, as multisets modulo
`Track ==`. -/
theorem vertex_partition {ctx : Ctx} (g : ctx.Good) (tracks : List Nat) (r : Result)
    (h : findVertices ctx tracks = .ok r) :
    ∀ x, cnt ctx.toCluster x (r.primaryTracks ++ r.remainder) = cnt ctx.toCluster x tracks :=
  ((findVertices_spec g tracks).1 r h).1

/-- C15 `secondaries_empty`. -/
theorem secondaries_empty {ctx : Ctx} (g : ctx.Good) (tracks : List Nat) (r : Result)
    (h : findVertices ctx tracks = .ok r) : r.secondaries = [] :=
  ((findVertices_spec g tracks).1 r h).2.1

/-- C15 `primary_min_two`: a primary vertex is reported only with at least two tracks. -/
theorem primary_min_two {ctx : Ctx} (g : ctx.Good) (tracks : List Nat) (r : Result)
    (h : findVertices ctx tracks = .ok r) (v : List Nat) (hv : r.primary = some v) :
    2 ≤ v.length :=
  ((findVertices_spec g tracks).1 r h).2.2 v hv

/-- C14 (vertex bookkeeping sites): if no NaN reaches the two `partial_cmp().unwrap()`
(`sort` and `cmp` always answer), `find_vertices`' bookkeeping returns: `tracks[0]`,
`clusters.last().unwrap()`, `.last().unwrap()` and `position(..).unwrap()` are unreachable. -/
theorem vertex_total {ctx : Ctx} (g : ctx.Good) (tracks : List Nat)
    (hs : ∀ l, ctx.sort l ≠ none) (hc : ∀ a b, ctx.cmp a b ≠ none) :
    ∃ r, findVertices ctx tracks = .ok r :=
  (findVertices_spec g tracks).2 hs hc

/-- C14 (vertex bookkeeping sites, converse): whenever the bookkeeping of `find_vertices`
panics, the site is one of the two `partial_cmp().unwrap()` (B1, V1) and a NaN reached it. -/
theorem vertex_panic_sites {ctx : Ctx} (g : ctx.Good) (tracks : List Nat) (s : String)
    (h : findVertices ctx tracks = .panic s) :
    (s = "beamline_clusters:partial_cmp" ∧ ∃ l, ctx.sort l = none) ∨
    (s = "find_vertices:partial_cmp" ∧ ∃ a b, ctx.cmp a b = none) := by
  unfold findVertices at h
  cases hb : beamlineClusters ctx (tracks.filter ctx.keep) with
  | err e => rw [hb] at h; cases h
  | panic s' =>
    rw [hb] at h
    simp only [Outcome.panic.injEq] at h
    subst h
    obtain ⟨h1, h2⟩ := beamlineClusters_panic g _ _ hb
    exact Or.inl ⟨h1, _, h2⟩
  | ok cls =>
    rw [hb] at h
    simp only at h
    cases hm : maxBy ctx.cmp
        (maxSetByKey List.length (cls.filter (fun c => decide (1 < c.length)))) with
    | err e => rw [hm] at h; cases h
    | panic s' =>
      rw [hm] at h
      simp only [Outcome.panic.injEq] at h
      subst h
      exact Or.inr (maxBy_panic _ _ _ hm)
    | ok v =>
      -- the remainder loop cannot panic: `findVertices_spec` shows the whole call returns
      exfalso
      have hperm := beamlineClusters_perm g _ cls hb
      have hle : ∀ x, cnt ctx.toCluster x (v.getD []) ≤ cnt ctx.toCluster x tracks := by
        cases v with
        | none => intro x; simp
        | some w =>
          have hw1 := maxSetByKey_subset List.length _ w (maxBy_mem hm)
          rw [List.mem_filter] at hw1
          intro x
          simp only [Option.getD_some]
          have h1 := cnt_flatten_le ctx.toCluster x hw1.1
          have h2 := cnt_perm ctx.toCluster x hperm
          have h3 : cnt ctx.toCluster x (tracks.filter ctx.keep) ≤ cnt ctx.toCluster x tracks := by
            unfold cnt
            rw [List.countP_filter]
            exact List.countP_mono_left (by intro a _ h; simp at h; exact h.1)
          omega
      obtain ⟨rem, hrem, _⟩ := removeTracks_spec g (v.getD []) tracks hle
      rw [hm] at h
      simp only at h
      rw [hrem] at h
      cases h

/-! ### Non-vacuity -/

/-- Tracks are numbers; `z` is the tens digit (tracks within one decade are `close`), the
radius sum is the sum of the numbers, tracks ≥ 90 fail the filters. -/
def exCtx : Ctx where
  eq := fun a b => a == b
  keep := fun a => a < 90
  sort := fun l => some l
  close := fun a b => a / 10 == b / 10
  cmp := fun a b => some (compare a.sum b.sum)

theorem exCtx_good : exCtx.Good where
  eq_refl := by intro a; simp [exCtx]
  eq_symm := by intro a b h; simp [exCtx] at *; omega
  eq_trans := by intro a b c h1 h2; simp [exCtx] at *; omega
  sort_perm := by intro l l' h; simp [exCtx] at h; subst h; exact List.Perm.refl _

-- two clusters of two tracks (tie in size); `max_by` keeps the last maximal radius sum
example : findVertices exCtx [11, 12, 95, 31, 32, 50] = .ok ⟨some [31, 32], [], [11, 12, 95, 50]⟩ := by
  decide
example : findVertices exCtx [11, 95, 31, 50] = .ok ⟨none, [], [11, 95, 31, 50]⟩ := by decide
example : findVertices exCtx [] = .ok ⟨none, [], []⟩ := by decide

end AlphaG.Vertexing
