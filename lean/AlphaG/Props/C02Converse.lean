import AlphaG.Props.C02
import AlphaG.Lemmas.AdcConverse
/-
C02 — converse round trip at full strength: every well-formed field tuple (short *or* long
form) is reproduced by decoding its encoding, `decode (encode p) = .ok p`.
`Props/C02.lean` has the short form (`adc_encode_decode_partial`) and the forward round trip
(`adc_roundtrip`); this file adds the long form and the combined statement.

Route: `encode p` is `32 header bytes ++ sample block ++ 4 footer bytes` (`encode_long_eq`);
every documented field is read back out of that shape, which gives `AdcWellFormed (encode p)` and
`fields (encode p) = p`; `decode_ok_iff` concludes.
-/
namespace AlphaG.Adc
open AlphaG.Generated

/-- A field tuple that is a valid long-form packet (written from the documentation table: field
widths, the board table, the baseline rule, the flag ladder and the sample-count rule). The
footer word is rebuilt by `encode` as `keep_last + 2^12·keep_bit + 2^13·suppression`, so its two
unused bits 14, 15 are clear exactly when `keep_last` fits its 12 bits (`keepLast`). -/
structure WfLongPacket (p : Packet) : Prop where
  trig : p.acceptedTrigger < 65536
  module : p.moduleId ≤ 7
  chan : (∃ n, p.channelId = .a16 n ∧ n ≤ 15) ∨ (∃ n, p.channelId = .a32 n ∧ n ≤ 31)
  req : p.requestedSamples < 65536
  ts : p.eventTimestamp < 18446744073709551616
  /-- a board of `ALPHA16BOARDS` (name and MAC address) -/
  board : ∃ bd, p.boardId = some bd ∧ bd ∈ alpha16Boards
  trigOff : ∃ t, p.triggerOffset = some t ∧ -2147483648 ≤ t ∧ t ≤ 2147483647
  build : ∃ n, p.buildTimestamp = some n ∧ n < 4294967296
  minSamples : 64 ≤ p.waveform.length
  samples : ∀ x ∈ p.waveform, -32768 ≤ x ∧ x ≤ 32767
  /-- baseline = floor (toward −∞) of the mean of the first 64 samples -/
  baseline : p.suppressionBaseline = Int.fdiv (p.waveform.take 64).sum 64
  /-- `keep_last` is a 12-bit field: the unused footer bits 14, 15 stay clear -/
  keepLast : p.keepLast < 4096
  suppKeep : p.suppressionEnabled = true → p.keepBit = true
  noKeep : p.keepBit = false → p.keepLast = 0
  keep : p.keepBit = true →
    ∃ idx, 64 ≤ idx ∧ idx < p.waveform.length ∧ p.keepLast = (idx + 2) / 2 + 1
  reqMin : 2 ≤ p.requestedSamples
  countSupp : p.suppressionEnabled = true → p.waveform.length ≤ p.requestedSamples - 2
  countNoSupp : p.suppressionEnabled = false → p.waveform.length = p.requestedSamples - 2

/-- A valid packet of either form. -/
def WfPacket (p : Packet) : Prop := WfShortPacket p ∨ WfLongPacket p

/-- Facts about the generated board table used by the converse: the MAC addresses are pairwise
distinct (looking a board's MAC up finds that board), 6 bytes long, each a byte. -/
theorem board_table : ∀ bd ∈ alpha16Boards,
    findBoard bd.2 = some bd ∧ bd.2.length = 6 ∧ ∀ x ∈ bd.2, x < 256 := by decide

theorem list_len6 (l : List Nat) (h : l.length = 6) :
    ∃ a b c d e f, l = [a, b, c, d, e, f] := by
  rcases l with _ | ⟨a, _ | ⟨b, _ | ⟨c, _ | ⟨d, _ | ⟨e, _ | ⟨f, _ | ⟨g, r⟩⟩⟩⟩⟩⟩⟩ <;>
    simp at h
  exact ⟨a, b, c, d, e, f, rfl⟩

/-- The facts that identify a slice as the encoding of a long-form field tuple: everything the
documentation table names, read back from the bytes. -/
structure ReadsAs (b : List UInt8) (trig module chb req ts : Nat) (mac : List Nat) (off build : Nat)
    (w : List Int) (fw : Nat) (bl : Int) : Prop where
  len : b.length = 36 + 2 * w.length
  b0 : byteAt b 0 = 1
  b1 : byteAt b 1 = 3
  trig : beAt b 2 2 = trig
  module : byteAt b 4 = module
  chb : byteAt b 5 = chb
  req : beAt b 6 2 = req
  tsLo : beAt b 8 4 = ts % 4294967296
  z12 : byteAt b 12 = 0
  z13 : byteAt b 13 = 0
  mac : macAt b = mac
  tsHi : beAt b 20 4 = ts / 4294967296
  off : beAt b 24 4 = off
  build : beAt b 28 4 = build
  wave : wave b = w
  footer : footerF b = fw
  baseline : baselineF b = bl

/-- The long-form encoding reads back as its field tuple. -/
theorem encode_long_reads (trig module : Nat) (chan : ChannelId) (req ts : Nat) (name : String)
    (m0 m1 m2 m3 m4 m5 : Nat) (t : Int) (n : Nat) (w : List Int) (bl : Int) (kl : Nat)
    (kb se : Bool)
    (h1 : trig < 65536) (h2 : module < 256) (h3 : channelByte chan < 256) (h4 : req < 65536)
    (h5 : ts < 18446744073709551616) (g0 : m0 < 256) (g1 : m1 < 256) (g2 : m2 < 256)
    (g3 : m3 < 256) (g4 : m4 < 256) (g5 : m5 < 256) (h7 : n < 4294967296)
    (hs : ∀ x ∈ w, -32768 ≤ x ∧ x ≤ 32767) (hbl : -32768 ≤ bl ∧ bl ≤ 32767) (hkl : kl < 4096) :
    ReadsAs
      (encode { acceptedTrigger := trig, moduleId := module, channelId := chan,
                requestedSamples := req, eventTimestamp := ts,
                boardId := some (name, [m0, m1, m2, m3, m4, m5]), triggerOffset := some t,
                buildTimestamp := some n, waveform := w, suppressionBaseline := bl,
                keepLast := kl, keepBit := kb, suppressionEnabled := se })
      trig module (channelByte chan) req ts [m0, m1, m2, m3, m4, m5] (ofSigned 32 t) n w
      (kl + (if kb then 4096 else 0) + (if se then 8192 else 0)) bl := by
  rw [encode_long_eq]
  obtain ⟨r0, r1, r2, r3, r4, r5, r6, r7, r8, r9, r10, r11, r12⟩ :=
    longHeader_reads trig module (channelByte chan) req ts m0 m1 m2 m3 m4 m5 (ofSigned 32 t) n
      h1 h2 h3 h4 h5 g0 g1 g2 g3 g4 g5 (ofSigned32_lt t) h7
  have hfw : kl + (if kb then 4096 else 0) + (if se then 8192 else 0) < 65536 := by
    cases kb <;> cases se <;> simp <;> omega
  obtain ⟨f1, f2⟩ := longFooter_reads _ (ofSigned 16 bl) hfw (ofSigned16_lt bl)
  have hH := longHeader_length trig module (channelByte chan) req ts m0 m1 m2 m3 m4 m5
    (ofSigned 32 t) n
  have hF := longFooter_length (kl + (if kb then 4096 else 0) + (if se then 8192 else 0))
    (ofSigned 16 bl)
  have hW := encodeSamples_length w
  have hi := i16s_encodeSamples w hs
  generalize longHeader trig module (channelByte chan) req ts m0 m1 m2 m3 m4 m5
    (ofSigned 32 t) n = H at *
  generalize longFooter (kl + (if kb then 4096 else 0) + (if se then 8192 else 0))
    (ofSigned 16 bl) = F at *
  generalize encodeSamples w = W at *
  have hlen := shape_length H W F hH hF
  have bA : ∀ i, i < 32 → byteAt (H ++ (W ++ F)) i = byteAt H i :=
    fun i hi => byteAt_append_left H _ i (by omega)
  have eA : ∀ off k, off + k ≤ 32 → beAt (H ++ (W ++ F)) off k = beAt H off k :=
    fun off k hk => beAt_append_left H _ off k (by omega)
  refine ⟨by omega, ?_, ?_, ?_, ?_, ?_, ?_, ?_, ?_, ?_, ?_, ?_, ?_, ?_, ?_, ?_, ?_⟩
  · rw [bA 0 (by omega)]; exact r0
  · rw [bA 1 (by omega)]; exact r1
  · rw [eA 2 2 (by omega)]; exact r2
  · rw [bA 4 (by omega)]; exact r3
  · rw [bA 5 (by omega)]; exact r4
  · rw [eA 6 2 (by omega)]; exact r5
  · rw [eA 8 4 (by omega)]; exact r6
  · rw [bA 12 (by omega)]; exact r7
  · rw [bA 13 (by omega)]; exact r8
  · rw [← r9]
    unfold macAt
    rw [bA 14 (by omega), bA 15 (by omega), bA 16 (by omega), bA 17 (by omega),
      bA 18 (by omega), bA 19 (by omega)]
  · rw [eA 20 4 (by omega)]; exact r10
  · rw [eA 24 4 (by omega)]; exact r11
  · rw [eA 28 4 (by omega)]; exact r12
  · rw [shape_wave H W F hH hF, hi]
  · unfold footerF
    rw [shape_footer H W F hH _ 0 2 (by omega), f1]
  · unfold baselineF
    rw [shape_footer H W F hH _ 2 2 (by omega), f2, toSigned_ofSigned16 bl hbl]

/-- The floor mean of 64 `i16` samples is an `i16`. -/
theorem baseline_range (w : List Int) (h64 : 64 ≤ w.length)
    (hs : ∀ x ∈ w, -32768 ≤ x ∧ x ≤ 32767) :
    -32768 ≤ Int.fdiv (w.take 64).sum 64 ∧ Int.fdiv (w.take 64).sum 64 ≤ 32767 := by
  rw [Int.fdiv_eq_ediv_of_nonneg _ (by omega : (0 : Int) ≤ 64)]
  have hb := sum_bounds (w.take 64) (fun x hx => hs x (List.mem_of_mem_take hx))
  have : (w.take 64).length = 64 := by rw [List.length_take]; omega
  rw [this] at hb
  omega

/-- From the read-back facts and the consistency rules to acceptance with the same fields. -/
theorem decode_of_reads (b : List UInt8) (trig module : Nat) (chan : ChannelId) (req ts : Nat)
    (bd : String × List Nat) (t : Int) (n : Nat) (w : List Int) (bl : Int) (kl : Nat)
    (kb se : Bool)
    (r : ReadsAs b trig module (channelByte chan) req ts bd.2 (ofSigned 32 t) n w
      (kl + (if kb then 4096 else 0) + (if se then 8192 else 0)) bl)
    (h2 : module ≤ 7)
    (h3 : (∃ n, chan = .a16 n ∧ n ≤ 15) ∨ (∃ n, chan = .a32 n ∧ n ≤ 31))
    (hmem : bd ∈ alpha16Boards) (hfind : findBoard bd.2 = some bd)
    (ht : -2147483648 ≤ t ∧ t ≤ 2147483647)
    (h64 : 64 ≤ w.length)
    (hbase : bl = Int.fdiv (w.take 64).sum 64)
    (hkl : kl < 4096)
    (hsk : se = true → kb = true)
    (hnk : kb = false → kl = 0)
    (hk : kb = true → ∃ idx, 64 ≤ idx ∧ idx < w.length ∧ kl = (idx + 2) / 2 + 1)
    (hreq : 2 ≤ req)
    (hcs : se = true → w.length ≤ req - 2)
    (hcn : se = false → w.length = req - 2) :
    decode b = .ok { acceptedTrigger := trig, moduleId := module, channelId := chan,
                     requestedSamples := req, eventTimestamp := ts, boardId := some bd,
                     triggerOffset := some t, buildTimestamp := some n, waveform := w,
                     suppressionBaseline := bl, keepLast := kl, keepBit := kb,
                     suppressionEnabled := se } := by
  obtain ⟨L, B0, B1, T, M, C, R, TS, Z12, Z13, MAC, TSH, OFF, BT, WV, FT, BL⟩ := r
  have h36 : 36 ≤ b.length := by omega
  have heven : (b.length - 36) % 2 = 0 := by omega
  have hne : b.length ≠ 16 := by omega
  have hns : nSamplesF b = w.length := by unfold nSamplesF; omega
  have KL : keepLastF b = kl := by
    unfold keepLastF; rw [FT]; cases kb <;> cases se <;> simp <;> omega
  have KB : keepBitF b ↔ kb = true := by
    unfold keepBitF; rw [FT]; cases kb <;> cases se <;> simp <;> omega
  have SE : suppF b ↔ se = true := by
    unfold suppF; rw [FT]; cases kb <;> cases se <;> simp <;> omega
  have hchb : channelByte chan ≤ 15 ∨ (128 ≤ channelByte chan ∧ channelByte chan ≤ 159) := by
    rcases h3 with ⟨n, rfl, hn⟩ | ⟨n, rfl, hn⟩ <;> simp only [channelByte] <;> omega
  have hmacF : macF b = bd.2 := by rw [← macAt_eq]; exact MAC
  rw [decode_ok_iff]
  refine ⟨⟨by omega, B0, B1, by omega, by omega, .inr ?_⟩, ?_⟩
  · refine ⟨h36, Z12, Z13, ?_, heven, by omega, ?_, ?_, ?_, ?_, ?_, ?_, ?_⟩
    · rw [hmacF]; exact List.mem_map_of_mem hmem
    · rw [← wave_take64 b h36 heven (by omega), WV, BL]; exact hbase
    · intro h; exact KB.2 (hsk (SE.1 h))
    · intro h
      rw [KL]
      apply hnk
      cases kb
      · rfl
      · exact absurd (KB.2 rfl) h
    · intro h
      rw [KL, hns]
      exact hk (KB.1 h)
    · unfold requestedF; omega
    · intro h
      rw [hns]; unfold requestedF; rw [R]
      exact hcs (SE.1 h)
    · intro h
      rw [hns]; unfold requestedF; rw [R]
      apply hcn
      cases se
      · rfl
      · exact absurd (SE.2 rfl) h
  · unfold fields
    simp only [hne, if_false, Packet.mk.injEq]
    refine ⟨T.symm, M.symm, ?_, R.symm, ?_, ?_, ?_, ?_, ?_, BL.symm, KL.symm, ?_, ?_⟩
    · rw [C]
      rcases h3 with ⟨n, rfl, hn⟩ | ⟨n, rfl, hn⟩
      · have hcb : channelByte (ChannelId.a16 n) = n := rfl
        rw [hcb, if_pos hn]
      · have hcb : channelByte (ChannelId.a32 n) = 128 + n := rfl
        rw [hcb, if_neg (by omega), Nat.add_sub_cancel_left]
    · rw [TSH, TS]; omega
    · rw [← findBoard_eq, hmacF, hfind]
    · rw [OFF, toSigned_ofSigned32 t ht]
    · rw [BT]
    · rw [← wave_eq b h36 heven, WV]
    · cases kb
      · exact (decide_eq_false (fun h => Bool.noConfusion (KB.1 h))).symm
      · exact (decide_eq_true (KB.2 rfl)).symm
    · cases se
      · exact (decide_eq_false (fun h => Bool.noConfusion (SE.1 h))).symm
      · exact (decide_eq_true (SE.2 rfl)).symm

/-- **C02 (converse round trip, long form).** Encoding a valid long-form field tuple and
decoding the bytes gives the tuple back. -/
theorem adc_encode_decode_long (p : Packet) (h : WfLongPacket p) : decode (encode p) = .ok p := by
  obtain ⟨h1, h2, h3, h4, h5, ⟨bd, hbd, hmem⟩, ⟨t, ht, ht12⟩, ⟨n, hn, hn1⟩, h64, hs, hbase,
    hkl, hsk, hnk, hk, hreq, hcs, hcn⟩ := h
  obtain ⟨hfind, hlen, hlt⟩ := board_table bd hmem
  obtain ⟨name, mac⟩ := bd
  obtain ⟨m0, m1, m2, m3, m4, m5, rfl⟩ := list_len6 mac hlen
  cases p with
  | mk trig module chan req ts board trigOff build wave baseline keepLast keepBit supp =>
  simp only at h1 h2 h3 h4 h5 hbd ht hn h64 hs hbase hkl hsk hnk hk hreq hcs hcn
  subst hbd ht hn
  have hc : channelByte chan < 256 := by
    rcases h3 with ⟨n, rfl, hn⟩ | ⟨n, rfl, hn⟩ <;> simp only [channelByte] <;> omega
  have hbl := baseline_range wave h64 hs
  rw [← hbase] at hbl
  have g : ∀ x ∈ [m0, m1, m2, m3, m4, m5], x < 256 := hlt
  simp only [List.mem_cons, List.not_mem_nil, or_false, forall_eq_or_imp, forall_eq] at g
  obtain ⟨g0, g1, g2, g3, g4, g5⟩ := g
  exact decode_of_reads _ trig module chan req ts (name, [m0, m1, m2, m3, m4, m5]) t n wave
    baseline keepLast keepBit supp
    (encode_long_reads trig module chan req ts name m0 m1 m2 m3 m4 m5 t n wave baseline
      keepLast keepBit supp h1 (by omega) hc h4 h5 g0 g1 g2 g3 g4 g5 hn1 hs hbl hkl)
    h2 h3 hmem hfind ht12 h64 hbase hkl hsk hnk hk hreq hcs hcn

/-- **C02 (converse round trip), full statement.** Every valid field tuple, of the 16-byte or of
the long form, survives `encode` followed by `decode` unchanged. Together with `adc_roundtrip`
(`decode b = .ok p → encode p = clearFooterBits b`): `encode` and `decode` are mutually inverse
between valid field tuples and accepted slices with clear unused bits. -/
theorem adc_encode_decode (p : Packet) (h : WfPacket p) : decode (encode p) = .ok p := by
  rcases h with h | h
  · exact adc_encode_decode_partial p h
  · exact adc_encode_decode_long p h

/-- Encodings of valid field tuples are well-formed slices. -/
theorem encode_wf_accepted (p : Packet) (h : WfPacket p) : AdcWellFormed (encode p) :=
  (adc_accept_iff _).1 ⟨p, adc_encode_decode p h⟩

theorem toSigned32_bounds (n : Nat) (h : n < 4294967296) :
    -2147483648 ≤ toSigned 32 n ∧ toSigned 32 n ≤ 2147483647 := by
  unfold toSigned
  split <;> simp at * <;> omega

theorem fields_chan (b : List UInt8)
    (hc : byteAt b 5 ≤ 15 ∨ (128 ≤ byteAt b 5 ∧ byteAt b 5 ≤ 159)) :
    (∃ n, (fields b).channelId = .a16 n ∧ n ≤ 15) ∨ (∃ n, (fields b).channelId = .a32 n ∧ n ≤ 31) := by
  by_cases h : byteAt b 5 ≤ 15
  · exact .inl ⟨byteAt b 5, by simp only [fields, if_pos h], h⟩
  · exact .inr ⟨byteAt b 5 - 128, by simp only [fields, if_neg h], by omega⟩

/-- `WfPacket` is not too narrow: every packet the decoder returns satisfies it. With
`adc_encode_decode`, `WfPacket p ↔ ∃ b, decode b = .ok p` (`wfPacket_iff`). -/
theorem decoded_wf (b : List UInt8) (p : Packet) (h : decode b = .ok p) : WfPacket p := by
  obtain ⟨wf, hp⟩ := (decode_ok_iff b p).1 h
  rcases wf.form with sf | lf
  · subst hp
    have hl := sf.len
    refine .inl ⟨beAt_lt b 2 2, wf.module, fields_chan b wf.channel, beAt_lt b 6 2, ?_, ?_, ?_, ?_,
      ?_, toSigned16_bounds _ (beAt_lt b _ 2), sf.keepLast, decide_eq_false sf.keepBit,
      decide_eq_true sf.supp⟩
    · simp only [fields, hl, if_true]; exact beAt_lt b 8 4
    · simp only [fields, hl, if_true]
    · simp only [fields, hl, if_true]
    · simp only [fields, hl, if_true]
    · simp only [fields, hl, if_true]
  · have hne : b.length ≠ 16 := by have := lf.len; omega
    have hbase := adc_baseline_accepted b p h hne
    subst hp
    have hw : (fields b).waveform = (List.range (nSamplesF b)).map (sampleF b) := by
      simp only [fields, hne, if_false]
    have hwl : (fields b).waveform.length = nSamplesF b := by
      rw [hw, List.length_map, List.length_range]
    have h8 := beAt_lt b 8 4
    have h20 := beAt_lt b 20 4
    refine .inr ⟨beAt_lt b 2 2, wf.module, fields_chan b wf.channel, beAt_lt b 6 2, ?_, ?_,
      ⟨_, by simp only [fields, hne, if_false], toSigned32_bounds _ (beAt_lt b 24 4)⟩,
      ⟨_, by simp only [fields, hne, if_false], beAt_lt b 28 4⟩, ?_, ?_, hbase, ?_, ?_, ?_, ?_,
      lf.req, ?_, ?_⟩
    · simp only [fields, hne, if_false]; omega
    · have hsome : (findBoard (macF b)).isNone ≠ true := by
        rw [Ne, findBoard_isNone]; exact fun hn => hn lf.mac
      cases hfb : findBoard (macF b) with
      | none => rw [hfb] at hsome; exact absurd rfl hsome
      | some bd =>
        refine ⟨bd, ?_, List.mem_of_find?_eq_some hfb⟩
        simp only [fields, hne, if_false]
        rw [← findBoard_eq, hfb]
    · rw [hwl]; exact lf.minSamples
    · intro x hx
      rw [hw, List.mem_map] at hx
      obtain ⟨i, _, rfl⟩ := hx
      exact toSigned16_bounds _ (beAt_lt b _ 2)
    · show keepLastF b < 4096
      unfold keepLastF; omega
    · intro hs
      exact decide_eq_true (lf.suppKeep (of_decide_eq_true hs))
    · intro hk
      exact lf.noKeep (of_decide_eq_false hk)
    · intro hk
      rw [hwl]
      exact lf.keep (of_decide_eq_true hk)
    · intro hs
      rw [hwl]
      exact lf.countSupp (of_decide_eq_true hs)
    · intro hs
      rw [hwl]
      exact lf.countNoSupp (of_decide_eq_false hs)

/-- The valid field tuples are exactly the packets the decoder can return. -/
theorem wfPacket_iff (p : Packet) : WfPacket p ↔ ∃ b, decode b = .ok p :=
  ⟨fun h => ⟨encode p, adc_encode_decode p h⟩, fun ⟨b, h⟩ => decoded_wf b p h⟩

/-! ### Non-vacuity -/

/-- 66 samples alternating between the `i16` extremes (one replaced by 100), suppression on,
keep bit set, `keep_last` 34 (index 64), 70 requested: the field tuple of `exampleLongSupp`. -/
def exampleLongPacket : Packet :=
  { acceptedTrigger := 4, moduleId := 5, channelId := .a32 5, requestedSamples := 70,
    eventTimestamp := 4294967296 + 7, boardId := some ("09", [216, 128, 57, 104, 55, 76]),
    triggerOffset := some (-2), buildTimestamp := some 9,
    waveform := (List.range 66).map (fun i => if i = 5 then 100 else if i % 2 = 0 then 32767
      else -32768),
    suppressionBaseline := 513, keepLast := 34, keepBit := true, suppressionEnabled := true }

theorem exampleLongPacket_wf : WfLongPacket exampleLongPacket where
  trig := by decide
  module := by decide
  chan := .inr ⟨5, rfl, by decide⟩
  req := by decide
  ts := by decide
  board := ⟨_, rfl, by decide⟩
  trigOff := ⟨-2, rfl, by decide⟩
  build := ⟨9, rfl, by decide⟩
  minSamples := by decide
  samples := by decide
  baseline := by decide +kernel
  keepLast := by decide
  suppKeep := fun _ => rfl
  noKeep := fun h => Bool.noConfusion h
  keep := fun _ => ⟨64, by decide, by decide, by decide⟩
  reqMin := by decide
  countSupp := fun _ => by decide
  countNoSupp := fun h => Bool.noConfusion h

example : WfPacket exampleLongPacket := .inr exampleLongPacket_wf

/-- The theorem on the example, checked independently by evaluation. -/
example : decode (encode exampleLongPacket) = .ok exampleLongPacket := by decide +kernel

/-- A suppression-off example (keep bit clear, `keep_last` 0, exactly `requested - 2` samples,
negative floor baseline). -/
def exampleLongPacketNoSupp : Packet :=
  { acceptedTrigger := 65535, moduleId := 7, channelId := .a16 15, requestedSamples := 66,
    eventTimestamp := 18446744073709551615,
    boardId := some ("18", [216, 128, 57, 104, 142, 82]),
    triggerOffset := some 2147483647, buildTimestamp := some 4294967295,
    waveform := (List.range 64).map (fun i => if i < 10 then -3 else 0),
    suppressionBaseline := -1, keepLast := 0, keepBit := false, suppressionEnabled := false }

example : WfLongPacket exampleLongPacketNoSupp where
  trig := by decide
  module := by decide
  chan := .inl ⟨15, rfl, by decide⟩
  req := by decide
  ts := by decide
  board := ⟨_, rfl, by decide⟩
  trigOff := ⟨_, rfl, by decide⟩
  build := ⟨_, rfl, by decide⟩
  minSamples := by decide
  samples := by decide
  baseline := by decide +kernel
  keepLast := by decide
  suppKeep := fun h => Bool.noConfusion h
  noKeep := fun _ => rfl
  keep := fun h => Bool.noConfusion h
  reqMin := by decide
  countSupp := fun h => Bool.noConfusion h
  countNoSupp := fun _ => by decide

end AlphaG.Adc
