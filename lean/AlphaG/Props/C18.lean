import AlphaG.Lemmas.DriftBits
import AlphaG.Generated.DriftTablesOk
import Mathlib.Algebra.Order.Field.Rat
/-
C18 — drift-time lookup is bounded, monotone, continuous and symmetric.

Model: `AlphaG/Model/Drift.lean` (`tableAt` = `DriftTable::at`, `tablesAt` = `DriftTables::at`,
`spacePoint` = `TryFrom<Avalanche> for SpacePoint`), instantiated here with the exact arithmetic
of an arbitrary linear ordered field `K` (`fieldOps K`). The theorems of the first part hold for
*any* tables satisfying `TablesOk`; the second part instantiates them with the generated table
(`exactTables K driftBits`: the f64 values held by the built code, as exact dyadic rationals),
whose `TablesOk` is re-checked by the kernel on every run (`Generated/DriftTablesOk*.lean`).

Not covered (declared gap): `f64` rounding, ±∞, NaN — the correspondence harness compares the
`Float` instance of the same model bit-for-bit with the Rust code.
-/
set_option linter.unusedSectionVars false

namespace AlphaG.Drift

variable {K : Type} [Field K] [LinearOrder K] [IsStrictOrderedRing K]
variable {ts : List (Slice K)}

/-! ## Part 1: any well-formed tables -/

/-- `|z|` beyond the largest tabulated bound: the axial-position error. -/
theorem lookup_err_z (ok : TablesOk ts) {z : K} (t : K) (h : zMax ts < |z|) :
    tablesAt (fieldOps K) ts z t = .err .axialPositionOutOfRange :=
  tablesAt_err_z ok.one t h

/-- `|z|` in the region of slice `i`, `t` before the first or after the last tabulated time of
that slice: the drift-time error. -/
theorem lookup_err_t (ok : TablesOk ts) {i : Nat} (hi : i < ts.length) {z t : K}
    (hz : InSlice ts i |z|)
    (ht : t < tFirst (sl ts i).table ∨ tLast (sl ts i).table < t) :
    tablesAt (fieldOps K) ts z t = .err .driftTimeOutOfRange := by
  rw [tablesAt_inSlice hi t hz (inSlice_le_zMax ok hi hz), tableAt_eq (ok.slice i hi), if_pos ht]

/-- In range: the interpolation between two knots that bracket `t`. -/
theorem lookup_ok (ok : TablesOk ts) {i : Nat} (hi : i < ts.length) {z t : K}
    (hz : InSlice ts i |z|) (h0 : tFirst (sl ts i).table ≤ t) (h1 : t ≤ tLast (sl ts i).table) :
    ∃ k, Bracket (sl ts i).table t k ∧
      tablesAt (fieldOps K) ts z t = .ok (rOf (sl ts i).table k t, cOf (sl ts i).table k t) := by
  refine ⟨rhsIndex (fieldOps K) (sl ts i).table t, rhs_bracket (ok.slice i hi) h0 h1, ?_⟩
  rw [tablesAt_inSlice hi t hz (inSlice_le_zMax ok hi hz), tableAt_eq (ok.slice i hi),
    if_neg (by rintro (h | h); exact absurd h0 (not_le.2 h); exact absurd h1 (not_le.2 h))]
  rfl

/-- What a successful lookup returned. -/
theorem lookup_ok_spec (ok : TablesOk ts) {i : Nat} (hi : i < ts.length) {z t : K} {rc : K × K}
    (hz : InSlice ts i |z|) (h : tablesAt (fieldOps K) ts z t = .ok rc) :
    tFirst (sl ts i).table ≤ t ∧ t ≤ tLast (sl ts i).table ∧
      ∃ k, Bracket (sl ts i).table t k ∧ rc = (rOf (sl ts i).table k t, cOf (sl ts i).table k t) := by
  by_cases ht : t < tFirst (sl ts i).table ∨ tLast (sl ts i).table < t
  · rw [lookup_err_t ok hi hz ht] at h; cases h
  · have h0 : tFirst (sl ts i).table ≤ t := not_lt.1 fun h => ht (Or.inl h)
    have h1 : t ≤ tLast (sl ts i).table := not_lt.1 fun h => ht (Or.inr h)
    obtain ⟨k, hb, hk⟩ := lookup_ok ok hi hz h0 h1
    rw [hk] at h
    exact ⟨h0, h1, k, hb, by cases h; rfl⟩

/-- C18 (acceptance): the lookup succeeds exactly when `|z|` does not exceed the largest
tabulated bound and `t` lies within the first and last tabulated time of the slice of `|z|`,
inclusive. -/
theorem lookup_ok_iff (ok : TablesOk ts) (z t : K) :
    (∃ rc, tablesAt (fieldOps K) ts z t = .ok rc) ↔
      |z| ≤ zMax ts ∧ ∃ i, i < ts.length ∧ InSlice ts i |z| ∧
        tFirst (sl ts i).table ≤ t ∧ t ≤ tLast (sl ts i).table := by
  constructor
  · rintro ⟨rc, h⟩
    by_cases hz : |z| ≤ zMax ts
    · obtain ⟨i, hi, his⟩ := exists_inSlice |z| hz ok.one
      obtain ⟨h0, h1, -⟩ := lookup_ok_spec ok hi his h
      exact ⟨hz, i, hi, his, h0, h1⟩
    · rw [lookup_err_z ok t (not_le.1 hz)] at h; cases h
  · rintro ⟨-, i, hi, his, h0, h1⟩
    obtain ⟨k, -, hk⟩ := lookup_ok ok hi his h0 h1
    exact ⟨_, hk⟩

/-- Every `|z|` up to the largest bound belongs to exactly one slice. -/
theorem slice_exists_unique (ok : TablesOk ts) {a : K} (h : a ≤ zMax ts) :
    ∃ i, (i < ts.length ∧ InSlice ts i a) ∧ ∀ j, InSlice ts j a → j = i := by
  obtain ⟨i, hi, his⟩ := exists_inSlice a h ok.one
  exact ⟨i, ⟨hi, his⟩, fun j hj => inSlice_unique hj his⟩

/-- C18 (bracket search): for a time within the tabulated range, `rhs_index ≥ 1` (no `- 1`
underflow at the first knot), `rhs_index < len`, and the two knots bracket `t`. -/
theorem bracket_ok {tb : List (Knot K)} (ok : SliceOk tb) {t : K} (h0 : tFirst tb ≤ t)
    (h1 : t ≤ tLast tb) :
    1 ≤ rhsIndex (fieldOps K) tb t ∧ rhsIndex (fieldOps K) tb t < tb.length ∧
      (kn tb (rhsIndex (fieldOps K) tb t - 1)).t ≤ t ∧ t ≤ (kn tb (rhsIndex (fieldOps K) tb t)).t :=
  rhs_bracket ok h0 h1

/-- C18 (totality): on well-formed tables no input makes the lookup panic. -/
theorem lookup_total (ok : TablesOk ts) (z t : K) : NoPanic (tablesAt (fieldOps K) ts z t) := by
  by_cases hz : |z| ≤ zMax ts
  · obtain ⟨i, hi, his⟩ := exists_inSlice |z| hz ok.one
    by_cases ht : t < tFirst (sl ts i).table ∨ tLast (sl ts i).table < t
    · rw [lookup_err_t ok hi his ht]; exact noPanic_err _
    · obtain ⟨k, -, hk⟩ := lookup_ok ok hi his (not_lt.1 fun h => ht (Or.inl h))
        (not_lt.1 fun h => ht (Or.inr h))
      rw [hk]; exact noPanic_ok _
  · rw [lookup_err_z ok t (not_le.1 hz)]; exact noPanic_err _

/-- The first radius of a well-formed table is its largest, the last its smallest. -/
theorem radius_extremes {tb : List (Knot K)} (ok : SliceOk tb) {j : Nat} (hj : j < tb.length) :
    (kn tb (tb.length - 1)).r ≤ (kn tb j).r ∧ (kn tb j).r ≤ (kn tb 0).r :=
  ⟨ok.radius_anti (by omega) (by omega), ok.radius_anti (Nat.zero_le j) hj⟩

/-- C18 (range): the radius lies between the smallest and the largest radius tabulated for the
slice (by `radius_extremes`: the last and the first). -/
theorem radius_in_range (ok : TablesOk ts) {i : Nat} (hi : i < ts.length) {z t : K} {rc : K × K}
    (hz : InSlice ts i |z|) (h : tablesAt (fieldOps K) ts z t = .ok rc) :
    (kn (sl ts i).table ((sl ts i).table.length - 1)).r ≤ rc.1 ∧ rc.1 ≤ (kn (sl ts i).table 0).r := by
  obtain ⟨-, -, k, hb, rfl⟩ := lookup_ok_spec ok hi hz h
  have sok := ok.slice i hi
  obtain ⟨hlo, hhi⟩ := rOf_bounds sok hb
  exact ⟨le_trans (sok.radius_anti (by have := hb.2.1; omega) (by have := hb.2.1; omega)) hlo,
    le_trans hhi (sok.radius_anti (Nat.zero_le _) (by have := hb.2.1; omega))⟩

/-- C18 (monotone): at a fixed `z` the radius does not increase with the drift time. -/
theorem radius_antitone (ok : TablesOk ts) {z t t' : K} {rc rc' : K × K}
    (h : tablesAt (fieldOps K) ts z t = .ok rc) (h' : tablesAt (fieldOps K) ts z t' = .ok rc')
    (htt : t ≤ t') : rc'.1 ≤ rc.1 := by
  obtain ⟨hzm, i, hi, hz, -⟩ := (lookup_ok_iff ok z t).1 ⟨rc, h⟩
  obtain ⟨-, -, k, hb, rfl⟩ := lookup_ok_spec ok hi hz h
  obtain ⟨-, -, k', hb', rfl⟩ := lookup_ok_spec ok hi hz h'
  -- `rOf_two` wants some slope bound; any one will do for the monotonicity half
  have sok := ok.slice i hi
  classical
  obtain ⟨M, -, -, hM⟩ := exists_slope_bound (D := (0 : K)) (B := 1) one_pos (sl ts i).table.length
    (fun j => (kn (sl ts i).table j).r - (kn (sl ts i).table (j + 1)).r)
    (fun j => (kn (sl ts i).table (j + 1)).t - (kn (sl ts i).table j).t)
    (fun j => j + 1 < (sl ts i).table.length)
    (fun j _ hj => ⟨sub_pos.2 (sok.time_lt j hj), by simpa using sok.time_lt j hj⟩)
  exact (rOf_two sok hb hb' htt (fun j hj _ _ => hM j (by omega) hj)).1

/-- C18 (symmetric): the lookup is identical for `z` and `-z` (no hypothesis on the tables). -/
theorem lookup_even (ts : List (Slice K)) (z t : K) :
    tablesAt (fieldOps K) ts z t = tablesAt (fieldOps K) ts (-z) t := by
  have e : (fieldOps K).abs (-z) = (fieldOps K).abs z := by simp [fieldOps]
  unfold tablesAt
  rw [e]

/-- C18 (symmetric), carrier-generic, no laws assumed: the lookup depends on `z` only through
`abs z`. Covers `f64` including ±0, ±∞ and NaN (`f64::abs` clears the sign bit, so
`abs (-z)` and `abs z` are the same bit pattern). -/
theorem lookup_even_generic {α : Type} (O : Ops α) (ts : List (Slice α)) (z z' t : α)
    (h : O.abs z = O.abs z') : tablesAt O ts z t = tablesAt O ts z' t := by
  unfold tablesAt
  rw [h]

/-- C18 (azimuth), carrier-generic, no laws assumed (covers `f64`): the conversion succeeds
exactly when the lookup does; the space point takes the looked-up radius, the avalanche's `z`,
and `phi - correction`. -/
theorem phi_eq_generic {α : Type} (O : Ops α) (ts : List (Slice α)) (av : Avalanche α)
    (sp : SpacePoint α) :
    spacePoint O ts av = .ok sp ↔
      ∃ rc, tablesAt O ts av.z av.t = .ok rc ∧ sp = ⟨rc.1, O.sub av.phi rc.2, av.z⟩ := by
  unfold spacePoint
  cases h : tablesAt O ts av.z av.t with
  | ok rc =>
    simp only [ok_eq_ok]
    constructor
    · rintro rfl; exact ⟨rc, rfl, rfl⟩
    · rintro ⟨rc', hrc, rfl⟩
      cases hrc; rfl
  | err e => simp
  | panic s => simp

/-- the last z bound is the largest -/
theorem zMax_largest (ok : TablesOk ts) {i : Nat} (hi : i < ts.length) : zb ts i ≤ zMax ts :=
  ok.z_mono (by omega) (by have := ok.one; omega)

/-- C18 (knots): at every tabulated time the lookup returns the tabulated radius (and
correction) exactly. -/
theorem knot_exact (ok : TablesOk ts) {i : Nat} (hi : i < ts.length) {z : K}
    (hz : InSlice ts i |z|) {j : Nat} (hj : j < (sl ts i).table.length) :
    tablesAt (fieldOps K) ts z (kn (sl ts i).table j).t
      = .ok ((kn (sl ts i).table j).r, (kn (sl ts i).table j).c) := by
  have sok := ok.slice i hi
  obtain ⟨k, hb, hk⟩ := lookup_ok ok hi hz
    (sok.time_mono (Nat.zero_le j) hj) (sok.time_mono (by omega : j ≤ (sl ts i).table.length - 1) (by omega))
  rw [hk, rOf_knot sok hj hb, cOf_knot sok hj hb]

/-- C18 (Lorentz range): the correction lies between 0 and the slice's tabulated maximum (its
last entry; `SliceOk.corr_mono`). -/
theorem lorentz_range (ok : TablesOk ts) {i : Nat} (hi : i < ts.length) {z t : K} {rc : K × K}
    (hz : InSlice ts i |z|) (h : tablesAt (fieldOps K) ts z t = .ok rc) :
    0 ≤ rc.2 ∧ rc.2 ≤ (kn (sl ts i).table ((sl ts i).table.length - 1)).c := by
  obtain ⟨-, -, k, hb, rfl⟩ := lookup_ok_spec ok hi hz h
  have sok := ok.slice i hi
  obtain ⟨hlo, hhi⟩ := cOf_bounds sok hb
  exact ⟨le_trans (sok.corr_nonneg (by have := hb.2.1; omega)) hlo,
    le_trans hhi (sok.corr_mono (by have := hb.2.1; omega) (by have := hb.2.1; omega))⟩

/-- C18 (azimuth): the space point keeps `z`, takes the looked-up radius, and its azimuth is the
avalanche azimuth minus the Lorentz correction; errors are those of the lookup. -/
theorem phi_eq (ts : List (Slice K)) (av : Avalanche K) (sp : SpacePoint K) :
    spacePoint (fieldOps K) ts av = .ok sp ↔
      ∃ rc, tablesAt (fieldOps K) ts av.z av.t = .ok rc ∧
        sp.r = rc.1 ∧ sp.phi = av.phi - rc.2 ∧ sp.z = av.z := by
  unfold spacePoint
  cases h : tablesAt (fieldOps K) ts av.z av.t with
  | ok rc =>
    simp only [ok_eq_ok]
    constructor
    · rintro rfl; exact ⟨rc, rfl, rfl, rfl, rfl⟩
    · rintro ⟨rc', hrc, h1, h2, h3⟩
      cases hrc
      cases sp; simp_all [fieldOps]
  | err e => simp
  | panic s => simp

theorem spacePoint_err (ts : List (Slice K)) (av : Avalanche K) (e : Err) :
    spacePoint (fieldOps K) ts av = .err e ↔ tablesAt (fieldOps K) ts av.z av.t = .err e := by
  unfold spacePoint
  cases h : tablesAt (fieldOps K) ts av.z av.t <;> simp

/-- C18 (continuity, quantitative): two lookups at the same `z`, `t ≤ t'`, differ by at most
`M · (t' - t)` when `M` bounds the slope `(rⱼ - rⱼ₊₁)/(tⱼ₊₁ - tⱼ)` of every knot interval that
touches `[t, t']`. -/
theorem lipschitz (ok : TablesOk ts) {i : Nat} (hi : i < ts.length) {z t t' M : K} {rc rc' : K × K}
    (hz : InSlice ts i |z|)
    (h : tablesAt (fieldOps K) ts z t = .ok rc) (h' : tablesAt (fieldOps K) ts z t' = .ok rc')
    (htt : t ≤ t')
    (hM : ∀ j, j + 1 < (sl ts i).table.length → (kn (sl ts i).table j).t ≤ t' →
      t ≤ (kn (sl ts i).table (j + 1)).t →
      (kn (sl ts i).table j).r - (kn (sl ts i).table (j + 1)).r
        ≤ M * ((kn (sl ts i).table (j + 1)).t - (kn (sl ts i).table j).t)) :
    |rc'.1 - rc.1| ≤ M * (t' - t) := by
  obtain ⟨-, -, k, hb, rfl⟩ := lookup_ok_spec ok hi hz h
  obtain ⟨-, -, k', hb', rfl⟩ := lookup_ok_spec ok hi hz h'
  obtain ⟨h1, h2⟩ := rOf_two (ok.slice i hi) hb hb' htt hM
  rw [abs_sub_comm, abs_of_nonneg (sub_nonneg.2 h1)]
  exact h2

/-- C18 (step bound from a slope bound): if `M` bounds the slopes of the intervals touching
`[t, t']`, `t' - t ≤ D` and `M · D < B`, the two radii differ by less than `B`
(`D` = 8 ns, `B` = 0.5 mm in the property). -/
theorem step_bound_of_table (ok : TablesOk ts) {i : Nat} (hi : i < ts.length)
    {z t t' M D B : K} {rc rc' : K × K} (hz : InSlice ts i |z|)
    (h : tablesAt (fieldOps K) ts z t = .ok rc) (h' : tablesAt (fieldOps K) ts z t' = .ok rc')
    (htt : t ≤ t') (hD : t' - t ≤ D) (hM0 : 0 ≤ M) (hMD : M * D < B)
    (hM : ∀ j, j + 1 < (sl ts i).table.length → (kn (sl ts i).table j).t ≤ t' →
      t ≤ (kn (sl ts i).table (j + 1)).t →
      (kn (sl ts i).table j).r - (kn (sl ts i).table (j + 1)).r
        ≤ M * ((kn (sl ts i).table (j + 1)).t - (kn (sl ts i).table j).t)) :
    |rc'.1 - rc.1| < B :=
  lt_of_le_of_lt (le_trans (lipschitz ok hi hz h h' htt hM) (mul_le_mul_of_nonneg_left hD hM0)) hMD

/-- C18 (step bound from per-interval bounds): if every knot interval touching `[t, t']`
satisfies `|Δr| · D < B · Δt`, two lookups at most `D` apart differ by less than `B`. -/
theorem step_bound_of_intervals (ok : TablesOk ts) {i : Nat} (hi : i < ts.length)
    {z t t' D B : K} {rc rc' : K × K} (hB : 0 < B) (hz : InSlice ts i |z|)
    (h : tablesAt (fieldOps K) ts z t = .ok rc) (h' : tablesAt (fieldOps K) ts z t' = .ok rc')
    (htt : t ≤ t') (hD : t' - t ≤ D)
    (hI : ∀ j, j + 1 < (sl ts i).table.length → (kn (sl ts i).table j).t ≤ t' →
      t ≤ (kn (sl ts i).table (j + 1)).t →
      |(kn (sl ts i).table j).r - (kn (sl ts i).table (j + 1)).r| * D
        < B * ((kn (sl ts i).table (j + 1)).t - (kn (sl ts i).table j).t)) :
    |rc'.1 - rc.1| < B := by
  have sok := ok.slice i hi
  classical
  obtain ⟨M, hM0, hMD, hM⟩ := exists_slope_bound (D := D) hB (sl ts i).table.length
    (fun j => (kn (sl ts i).table j).r - (kn (sl ts i).table (j + 1)).r)
    (fun j => (kn (sl ts i).table (j + 1)).t - (kn (sl ts i).table j).t)
    (fun j => j + 1 < (sl ts i).table.length ∧ (kn (sl ts i).table j).t ≤ t' ∧
      t ≤ (kn (sl ts i).table (j + 1)).t)
    (fun j _ hj => ⟨sub_pos.2 (sok.time_lt j hj.1), by
      have := hI j hj.1 hj.2.1 hj.2.2
      rwa [abs_of_nonneg (sub_nonneg.2 (sok.radius_ge j hj.1))] at this⟩)
  exact step_bound_of_table ok hi hz h h' htt hD hM0 hMD
    (fun j hj h1 h2 => hM j (by omega) ⟨hj, h1, h2⟩)

/-! ## Part 2: the generated table (the f64 values held by the built code, exactly) -/

open AlphaG.Generated

/-- The shipped tables are well formed: 92 slices with at least 2 knots, times strictly
ascending, radii non-increasing, corrections non-decreasing from 0, z bounds positive and
ascending (kernel decision per slice in `Generated/DriftTablesOk*.lean`). -/
theorem generated_tables_ok : TablesOk (exactTables K driftBits) :=
  tablesOk_of_check driftBits_slices_ok driftBits_z_ok

/-- C18 on the shipped tables: acceptance. -/
theorem generated_lookup_ok_iff (z t : K) :
    (∃ rc, tablesAt (fieldOps K) (exactTables K driftBits) z t = .ok rc) ↔
      |z| ≤ zMax (exactTables K driftBits) ∧ ∃ i, i < (exactTables K driftBits).length ∧
        InSlice (exactTables K driftBits) i |z| ∧
        tFirst (sl (exactTables K driftBits) i).table ≤ t ∧
        t ≤ tLast (sl (exactTables K driftBits) i).table :=
  lookup_ok_iff generated_tables_ok z t

/-- C18 on the shipped tables: no panic. -/
theorem generated_lookup_total (z t : K) :
    NoPanic (tablesAt (fieldOps K) (exactTables K driftBits) z t) :=
  lookup_total generated_tables_ok z t

/-
Full-strength statement (FALSE for the shipped data, finding F5: 134 knot intervals of the first
150 ns have a slope of 0.5 mm / 8 ns or more, worst 0.652 mm in slice 72, knot 17):

  theorem step_bound : tablesAt … z t = .ok rc → tablesAt … z t' = .ok rc' →
      t ≤ t' → t' - t ≤ 8 / 10^9 → |rc'.1 - rc.1| < 1 / 2000

Proved instead: the same conclusion whenever no knot interval touching `[t, t']` is in the
generated exception list `driftStepExceptions` (hypothesis `hE`), and
`step_exceptions_known`: every generated exception is in the committed list
`/verif/known_drift_exceptions.json`, so that a new interval over 0.5 mm fails the build.
-/

/-- C18 (8 ns step, partial): on the shipped tables two lookups at the same `z` at most 8 ns apart
differ by less than 0.5 mm, provided no knot interval `[tⱼ, tⱼ₊₁]` of the slice that touches
`[t, t']` is one of the listed exceptions. -/
theorem step_bound_partial {i : Nat} (hi : i < (exactTables K driftBits).length)
    {z t t' : K} {rc rc' : K × K} (hz : InSlice (exactTables K driftBits) i |z|)
    (h : tablesAt (fieldOps K) (exactTables K driftBits) z t = .ok rc)
    (h' : tablesAt (fieldOps K) (exactTables K driftBits) z t' = .ok rc')
    (htt : t ≤ t') (hD : t' - t ≤ 8 / 1000000000)
    (hE : ∀ j, j + 1 < (sl (exactTables K driftBits) i).table.length →
      (kn (sl (exactTables K driftBits) i).table j).t ≤ t' →
      t ≤ (kn (sl (exactTables K driftBits) i).table (j + 1)).t → (i, j) ∉ driftStepExceptions) :
    |rc'.1 - rc.1| < 1 / 2000 := by
  have hi' : i < driftBits.length := by rwa [exactTables_length] at hi
  refine step_bound_of_intervals generated_tables_ok hi (by norm_num) hz h h' htt hD ?_
  intro j hj h1 h2
  have hne := hE j hj h1 h2
  rw [sl_exact driftBits hi'] at hj h1 h2 ⊢
  simp only [List.length_map] at hj
  have hbs : bs driftBits i = driftBits[i] := by
    simp [bs, List.getD_eq_getElem?_getD, List.getElem?_eq_getElem hi']
  have hstep := step_of_check (K := K) (by rw [hbs]; exact driftBits_step_ok i hi') j hj
    (fun hm => hne (mem_exceptionsOf.1 hm))
  simp only []
  rw [kn_map _ _ (by omega : j < (bs driftBits i).1.length), kn_map _ _ hj]
  exact hstep

/-- No exception outside the committed list `/verif/known_drift_exceptions.json`. -/
theorem step_exceptions_known : ∀ e ∈ driftStepExceptions, e ∈ driftStepKnown := by
  intro e he
  have := List.all_eq_true.1 driftStepExceptions_known e he
  simpa using this

/-! ## Non-vacuity -/

/-- The hypotheses are satisfiable: the shipped tables over ℚ, and a successful lookup at
`z = 0` at the first tabulated time of slice 0. -/
example : TablesOk (exactTables ℚ driftBits) := generated_tables_ok

example : ∃ rc, tablesAt (fieldOps ℚ) (exactTables ℚ driftBits) 0
    (tFirst (sl (exactTables ℚ driftBits) 0).table) = .ok rc := by
  have ok : TablesOk (exactTables ℚ driftBits) := generated_tables_ok
  have hlen : 0 < (exactTables ℚ driftBits).length := ok.one
  rw [lookup_ok_iff ok]
  have h0 : InSlice (exactTables ℚ driftBits) 0 |(0 : ℚ)| :=
    ⟨by rw [abs_zero]; exact le_of_lt ok.z_pos, fun j hj => absurd hj (Nat.not_lt_zero _)⟩
  refine ⟨inSlice_le_zMax ok hlen h0, 0, hlen, h0, le_refl _, ?_⟩
  exact (ok.slice 0 hlen).time_mono (Nat.zero_le _) (by have := (ok.slice 0 hlen).two; omega)

/-- A small concrete table: two slices, interpolation at the midpoint. -/
example : tablesAt (fieldOps ℚ)
    [⟨[⟨0, 10, 0⟩, ⟨2, 6, 1⟩, ⟨4, 5, 3⟩], 1⟩, ⟨[⟨0, 9, 0⟩, ⟨3, 3, 2⟩], 2⟩] (-3/2) 1
    = .ok (7, 2/3) := by
  norm_num [tablesAt, tableAt, rhsIndex, interp, fraction, fieldOps, Ops.gt, Ops.ge, abs_of_neg,
    List.findIdx?, List.find?, List.findIdx?.go]

end AlphaG.Drift
