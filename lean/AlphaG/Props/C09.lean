import AlphaG.Lemmas.EventInv
/-
C09 — every main event yields a result: assembling never crashes.

Proved here (full strength, for every carrier, every `into_values()` order, every run number
and every list of banks):
* `buildEvent_total`   `try_from_banks` never panics. Sites covered: the bank-name parser's slices
                       and unwraps (C08 `bankName_total`), the three decoders (C02/C03/C06 totality),
                       `Chunk::board_id()` /
                       `after_id()`, reassembly (C04 `reassemble_total` on decoded chunks),
                       `waveform_at(..).unwrap()` for sent channels (C05 `pwb_waveform`), the maps
                       (C08 bijections: no `unreachable!`, no table index out of range), slot indices
                       `< 256`, `< 32`, `< 576`, `i32::from(v) - i32::from(baseline)`, the calibration
                       dispatch.
* `timestamp_total`.

Inventory of the panic sites of `avalanches()` / `vertex()` (physics/src/lib.rs 377–430):
  1. `wire_indices.clone().collect::<Vec<_>>().try_into::<[usize; 8]>().unwrap()`
       — `avalanches_wire_range` below: `pad_column_to_wires c` is a range of exactly 8 indices.
  2. `wire_inputs[wire_indices].try_into::<&[_; 8]>().unwrap()` and the slice itself
       — `avalanches_wire_range`: `first + 8 ≤ 256` for every column `< 32`.
  3. `pad_columns` only holds `wire_to_pad_column(i)` with `i < 256`, hence `< 32`
       — `avalanches_column_lt` (so `self.pad_signals[column]` is in range).
  4. `wire_inputs[i] = input` with `i` from `wire_range_deconvolution` (indices of the range,
     taken modulo 256) — C13 `Lemmas/RangesAvalanches.lean` (`assignments_fst_lt`).
  5. inside `match_column_inputs`: `TpcWirePosition::try_from(i).unwrap()` (`i < 256` by 2.),
     `TpcPadRow::try_from(row - 1)` — the code uses `filter_map(..ok())`, no unwrap —,
     `max().unwrap()` on the 8 lengths (non-empty array: cannot fail),
     `partial_cmp().unwrap()` in the two amplitude sorts (amplitudes passed `> 0.0`, hence are
     not NaN) — argued in `Model/Matching.lean`, sampled by the C13 and C09 harnesses; not
     restated here.
  6. `f64` code below (`wire_range_deconvolution` Cholesky, `pad_deconvolution`,
     `cluster_spacepoints`, track and vertex fitting with `argmin`/`faer`, their
     `assert!(!x.is_nan())` tripwires): NaN-freedom of `f64` optimisers is **not provable here**
     (Lean's `Float` is opaque to the kernel and no IEEE model is available); it is *sampled* by
     harness/src/c09.rs on the implementation (dev and release), see also C14.
-/
namespace AlphaG.C09
open AlphaG AlphaG.Event AlphaG.Generated AlphaG.Maps

variable {α : Type} (ops : Ops α)

theorem wireStore_noPanic (run board ch : Nat) (wf : List Int) (st : St α) (hb : board < 8)
    (hc : ch < 32) (hw : ∀ v ∈ wf, -32768 ≤ v ∧ v ≤ 32767) :
    NoPanic (wireStore ops run board ch wf st) := by
  unfold wireStore
  split
  · rename_i s h; exact absurd h (wire_total run board ch hb hc s)
  · exact noPanic_err _
  · rename_i w h
    have hlt := wirePosition_ok_lt run board ch w hb hc h
    rw [need_eq (decide_eq_true (show w < nWires from hlt))]
    split
    · exact noPanic_err _
    · split
      · rename_i s h; exact absurd h (wireBaseline_noPanic run w s)
      · exact noPanic_err _
      · rename_i bl hbl
        split
        · rename_i s h; exact absurd h (wireGainBits_noPanic run w s)
        · exact noPanic_err _
        · split
          · rename_i s h; exact absurd h (wireDelay_noPanic run s)
          · exact noPanic_err _
          · rename_i d _
            rw [need_eq (subFitsI32_of_range bl _ (wireBaseline_range run w bl hbl)
              (fun v hv => hw v (List.mem_of_mem_drop hv)))]
            exact noPanic_ok _

theorem wireBank_noPanic (run : Nat) (nm : BankName.Name) (data : List UInt8) (st : St α) :
    NoPanic (wireBank ops run nm data st) := by
  unfold wireBank
  split
  · rename_i s h; exact absurd h (Adc.adcPacket_total data s)
  · exact noPanic_err _
  · rename_i p h
    obtain ⟨_, f2, f3⟩ := adc_facts data p h
    unfold wirePacket
    split
    · exact noPanic_err _
    · split
      · exact noPanic_err _
      · rename_i ch hch
        split
        · exact noPanic_err _
        · split
          · exact noPanic_ok _
          · exact wireStore_noPanic ops run _ ch _ _ (a16Row_lt _) (f2 ch hch) f3

/-- Invariant of the first loop: every grouped chunk came out of `Chunk::try_from`. -/
def GroupsValid (gs : List Group) : Prop := ∀ g ∈ gs, ∀ c ∈ g.2, c.Valid

theorem pushChunk_valid (k : Key) (c : Pwb.ChunkV) (hc : c.Valid) :
    ∀ gs, GroupsValid gs → GroupsValid (pushChunk k c gs)
  | [], _ => by
    intro g hg
    simp only [pushChunk, List.mem_singleton] at hg
    subst hg
    intro c' hc'
    simp only [List.mem_singleton] at hc'
    subst hc'; exact hc
  | g :: rest, h => by
    unfold pushChunk
    split
    · intro g' hg'
      rcases List.mem_cons.1 hg' with e | hr
      · subst e
        intro c' hc'
        rcases List.mem_append.1 hc' with h1 | h1
        · exact h g (List.mem_cons_self) c' h1
        · simp only [List.mem_singleton] at h1; subst h1; exact hc
      · exact h g' (List.mem_cons_of_mem _ hr)
    · intro g' hg'
      rcases List.mem_cons.1 hg' with e | hr
      · subst e; exact h g' List.mem_cons_self
      · exact pushChunk_valid k c hc rest (fun g hg => h g (List.mem_cons_of_mem _ hg)) g' hr

theorem padwingBank_spec (nm : BankName.Name) (data : List UInt8) (st : St α)
    (hst : GroupsValid st.groups) :
    NoPanic (padwingBank nm data st)
      ∧ ∀ st', padwingBank nm data st = .ok st' → GroupsValid st'.groups := by
  unfold padwingBank
  split
  · rename_i s h; exact absurd h (Chunk.chunk_total data s)
  · exact ⟨noPanic_err _, fun _ h => by cases h⟩
  · rename_i c h
    have hv := C01.decoded_chunk_valid data c h
    have hb : (Chunk.boardOfDeviceId c.deviceId).isSome = true := hv.1
    have ha : (Chunk.afterOfNat c.channelId).isSome = true := by
      have : c.channelId ≤ 3 := hv.2.1
      exact (Chunk.afterOfNat_some_iff _).2 this
    rw [need_eq hb, need_eq ha]
    split
    · exact ⟨noPanic_err _, fun _ h => by cases h⟩
    · refine ⟨noPanic_ok _, fun st' h => ?_⟩
      cases h
      exact pushChunk_valid _ _ hv _ hst

theorem trgBank_noPanic (data : List UInt8) (st : St α) : NoPanic (trgBank data st) := by
  unfold trgBank
  split
  · rename_i s h; exact absurd h (Trg.trg_total data s)
  · exact noPanic_err _
  · split
    · exact noPanic_err _
    · exact noPanic_ok _

theorem wireStore_groups (run board ch : Nat) (wf : List Int) (st st' : St α)
    (h : wireStore ops run board ch wf st = .ok st') : st'.groups = st.groups := by
  unfold wireStore at h
  split at h
  · cases h
  · cases h
  · simp only [need_eq_ok] at h
    obtain ⟨_, h⟩ := h
    split at h
    · cases h
    · split at h
      · cases h
      · cases h
      · split at h
        · cases h
        · cases h
        · split at h
          · cases h
          · cases h
          · simp only [need_eq_ok, ok_eq_ok] at h
            obtain ⟨_, h⟩ := h
            subst h
            split <;> rfl

theorem wireBank_groups (run : Nat) (nm : BankName.Name) (data : List UInt8) (st st' : St α)
    (h : wireBank ops run nm data st = .ok st') : st'.groups = st.groups := by
  unfold wireBank at h
  split at h
  · cases h
  · cases h
  · unfold wirePacket at h
    split at h
    · cases h
    · split at h
      · cases h
      · split at h
        · cases h
        · split at h
          · cases h; rfl
          · have := wireStore_groups ops run _ _ _ _ st' h
            exact this

theorem trgBank_groups (data : List UInt8) (st st' : St α) (h : trgBank data st = .ok st') :
    st'.groups = st.groups := by
  unfold trgBank at h
  split at h
  · cases h
  · cases h
  · split at h
    · cases h
    · cases h; rfl

theorem bankStep_spec (run : Nat) (b : Bank) (st : St α) (hst : GroupsValid st.groups) :
    NoPanic (bankStep ops run b st)
      ∧ ∀ st', bankStep ops run b st = .ok st' → GroupsValid st'.groups := by
  unfold bankStep
  split
  · rename_i s h; exact absurd h (BankName.bankName_total b.1 s)
  · exact ⟨noPanic_err _, fun _ h => by cases h⟩
  · rename_i nm _
    split
    · exact ⟨wireBank_noPanic ops run nm b.2 st,
        fun st' h => by rw [wireBank_groups ops run nm b.2 st st' h]; exact hst⟩
    · exact padwingBank_spec nm b.2 st hst
    · exact ⟨trgBank_noPanic b.2 st, fun st' h => by rw [trgBank_groups b.2 st st' h]; exact hst⟩
    · exact ⟨noPanic_ok _, fun st' h => by cases h; exact hst⟩

theorem bankLoop_spec (run : Nat) : ∀ (banks : List Bank) (st : St α), GroupsValid st.groups →
    NoPanic (bankLoop ops run banks st)
      ∧ ∀ st', bankLoop ops run banks st = .ok st' → GroupsValid st'.groups
  | [], st, hst => ⟨noPanic_ok _, fun st' h => by cases h; exact hst⟩
  | b :: bs, st, hst => by
    obtain ⟨h1, h2⟩ := bankStep_spec ops run b st hst
    unfold bankLoop
    split
    · rename_i st1 h; exact bankLoop_spec run bs st1 (h2 st1 h)
    · exact ⟨noPanic_err _, fun _ h => by cases h⟩
    · rename_i s h; exact absurd h (h1 s)

theorem padStore_noPanic (run board chip ch : Nat) (wf : List Int)
    (pad : Array (Option (List α))) (hb : board < padwingBoards.length) (hchip : chip < 4)
    (h1 : 1 ≤ ch) (h2 : ch ≤ 72) (hw : ∀ v ∈ wf, -32768 ≤ v ∧ v ≤ 32767) :
    NoPanic (padStore ops run board chip ch wf pad) := by
  unfold padStore
  split
  · rename_i s h; exact absurd h (padPosition_noPanic run board chip ch hb hchip h1 h2 s)
  · exact noPanic_err _
  · rename_i pos h
    obtain ⟨hc, hr⟩ := padPosition_ok_lt run board chip ch pos hb hchip h1 h2 h
    rw [need_eq (decide_eq_true (show pos.1 < nPadColumns from hc)),
      need_eq (decide_eq_true (show pos.2 < nPadRows from hr))]
    split
    · exact noPanic_err _
    · split
      · rename_i s h; exact absurd h (padBaseline_noPanic run pos.1 pos.2 s)
      · exact noPanic_err _
      · rename_i bl hbl
        split
        · rename_i s h; exact absurd h (padGainBits_noPanic run pos.1 pos.2 s)
        · exact noPanic_err _
        · split
          · rename_i s h; exact absurd h (padDelay_noPanic run s)
          · exact noPanic_err _
          · rw [need_eq (subFitsI32_of_range bl _ (padBaseline_range run _ _ bl hbl)
              (fun v hv => hw v (List.mem_of_mem_drop hv)))]
            exact noPanic_ok _

theorem channelLoop_noPanic (run board chip : Nat) (b : List UInt8) (p : Pwb.PwbPacket)
    (hp : Pwb.decodePwb b = .ok p) (hb : board < padwingBoards.length) (hchip : chip < 4) :
    ∀ (cs : List Pwb.ChannelId) (pad : Array (Option (List α))),
    (∀ c ∈ cs, c ∈ p.channelsSent) → NoPanic (channelLoop ops run board chip p cs pad)
  | [], _, _ => noPanic_ok _
  | .reset _ :: cs, pad, h => by
    unfold channelLoop
    exact channelLoop_noPanic run board chip b p hp hb hchip cs pad
      (fun c hc => h c (List.mem_cons_of_mem _ hc))
  | .fpn _ :: cs, pad, h => by
    unfold channelLoop
    exact channelLoop_noPanic run board chip b p hp hb hchip cs pad
      (fun c hc => h c (List.mem_cons_of_mem _ hc))
  | .pad n :: cs, pad, h => by
    obtain ⟨_, f2, f3⟩ := pwb_facts b p hp
    have hmem := h (.pad n) List.mem_cons_self
    obtain ⟨wf, hwf, hr⟩ := f3 _ hmem
    obtain ⟨n1, n2⟩ := f2 n hmem
    unfold channelLoop
    rw [hwf]
    simp only
    have hs := padStore_noPanic ops run board chip n wf pad hb hchip n1 n2 hr
    split
    · rename_i pad' _
      exact channelLoop_noPanic run board chip b p hp hb hchip cs pad'
        (fun c hc => h c (List.mem_cons_of_mem _ hc))
    · exact noPanic_err _
    · rename_i s hh; exact absurd hh (hs s)

theorem groupStep_noPanic (run : Nat) (g : Group) (hv : ∀ c ∈ g.2, c.Valid)
    (pad : Array (Option (List α))) : NoPanic (groupStep ops run g pad) := by
  unfold groupStep
  split
  · rename_i s h; exact absurd h (Pwb.reassemble_total g.2 hv s)
  · exact noPanic_err _
  · rename_i p h
    split
    · exact noPanic_err _
    · split
      · exact noPanic_err _
      · exact channelLoop_noPanic ops run _ _ _ p (Pwb.reassemble_ok_eq_direct g.2 p h)
          (keyRow_lt _) (keyChip_lt _) _ pad (fun _ hc => hc)

theorem groupLoop_noPanic (run : Nat) : ∀ (gs : List Group) (pad : Array (Option (List α))),
    GroupsValid gs → NoPanic (groupLoop ops run gs pad)
  | [], _, _ => noPanic_ok _
  | g :: gs, pad, h => by
    unfold groupLoop
    have hs := groupStep_noPanic ops run g (h g List.mem_cons_self) pad
    split
    · rename_i pad' _
      exact groupLoop_noPanic run gs pad' (fun g hg => h g (List.mem_cons_of_mem _ hg))
    · exact noPanic_err _
    · rename_i s hh; exact absurd hh (hs s)

theorem finish_noPanic (order : GroupOrder) (run : Nat) (st : St α) (hst : GroupsValid st.groups) :
    NoPanic (finish ops order run st) := by
  unfold finish
  have hg : GroupsValid (order.f st.groups) :=
    fun g hg => hst g ((order.perm st.groups).mem_iff.1 hg)
  have hl := groupLoop_noPanic ops run (order.f st.groups) st.pad hg
  split
  · rename_i s hh; exact absurd hh (hl s)
  · exact noPanic_err _
  · split
    · exact noPanic_err _
    · exact noPanic_ok _

/-- **C09.** `MainEvent::try_from_banks` never panics: for every carrier, every order in which
`HashMap::into_values()` may yield the chunk groups, every run number and every list of
(bank name, data) pairs. -/
theorem buildEvent_total (order : GroupOrder) (run : Nat) (banks : List Bank) :
    NoPanic (buildEventWith ops order run banks) := by
  unfold buildEventWith
  have hinit : GroupsValid (St.init (α := α)).groups := by
    intro g hg; cases hg
  obtain ⟨h1, h2⟩ := bankLoop_spec ops run banks St.init hinit
  split
  · rename_i s hh; exact absurd hh (h1 s)
  · exact noPanic_err _
  · rename_i st hh; exact finish_noPanic ops order run st (h2 st hh)

/-- **C09.** `MainEvent::timestamp` returns normally. -/
theorem timestamp_total (ev : Event α) : NoPanic (timestamp ev) := noPanic_ok _

/-! ### `avalanches()`: index and array-length sites -/

/-- Sites 1 and 2: for every pad column, `pad_column_to_wires` is a range of exactly 8 wire
indices that ends inside the 256 wires (`first ≤ 248`), so both `try_into::<[_; 8]>().unwrap()`
and the slice `wire_inputs[first..first + 8]` are in order. -/
theorem avalanches_wire_range : ∀ c, c < 32 →
    (padColumnToWires c).2 = (padColumnToWires c).1 + 8 ∧ (padColumnToWires c).1 ≤ 248 := by
  intro c hc
  obtain ⟨h1, h2, _⟩ := C08.padColumnToWires_fibre c hc
  omega

/-- Site 3: every column inserted into `pad_columns` is `< 32`. -/
theorem avalanches_column_lt : ∀ w, w < 256 → wireToPadColumn w < 32 :=
  fun w hw => (C08.wire_in_column w hw).1

end AlphaG.C09
