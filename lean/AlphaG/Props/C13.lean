import AlphaG.Lemmas.Ranges
import AlphaG.Lemmas.RangesAvalanches
import AlphaG.Lemmas.RangesMirror
/-
C13 — reconstruction respects the detector's cylindrical and mirror symmetry.

Only the property statements live here (proofs: `Lemmas/RangesLin.lean`, `Ranges.lean`,
`RangesAvalanches.lean`, `RangesMirror.lean`). Rotation: for every carrier `α` (no laws), every
`deconvBlock` / `padDeconv`, every sorter that is a function of the key sequence, every occupancy
that is **not the full ring**, all rotations. Full ring: `contiguous_ranges` returns the single
linear block `(0, n)` starting at wire 0 and equivariance fails (known finding F4). Mirror: exact
arithmetic over a linearly ordered field, `ln` constrained only by `ln (a/b) = −ln (b/a)`, pad-hit
amplitudes pairwise distinct within one (column, time bin).
-/
namespace AlphaG.C13
open AlphaG AlphaG.Ranges AlphaG.Matching AlphaG.Deconv Lean Grind Std

/-- C13 (blocks = maximal runs): when the ring is not fully occupied, the ranges returned by
`contiguous_ranges` are — without repetition, i.e. up to a permutation — exactly the maximal
runs of occupied wires on the ring (`IsRingRun`, a specification independent of the scan). -/
theorem ranges_spec (occ : List Bool) (hnf : false ∈ occ) :
    (∀ r, r ∈ contiguousRanges occ ↔ IsRingRun occ r) ∧ (contiguousRanges occ).Nodup :=
  Ranges.ranges_spec occ hnf

/-- Every occupied wire is in some block and blocks hold occupied wires only (any occupancy). -/
theorem ranges_cover (occ : List Bool) (w : Nat) :
    (w < occ.length ∧ occ.getD w false = true)
      ↔ ∃ r ∈ contiguousRanges occ, w ∈ rangeToIndices occ.length r :=
  Ranges.ranges_cover occ w

/-- No wire is in two blocks or twice in one block (any occupancy). -/
theorem ranges_disjoint (occ : List Bool) :
    ((contiguousRanges occ).flatMap (rangeToIndices occ.length)).Nodup :=
  Ranges.ranges_disjoint occ

/-- Each block is a maximal run: its ring predecessor and ring successor are free; its indices
are `rangeToLen` consecutive ring positions from its start, in ring order. -/
theorem ranges_maximal (occ : List Bool) (hnf : false ∈ occ) (r : Nat × Nat)
    (hr : r ∈ contiguousRanges occ) :
    occAt occ (r.1 + occ.length - 1) = false ∧ occAt occ (r.1 + rangeToLen occ.length r) = false
      ∧ rangeToIndices occ.length r = ringSeq occ.length r.1 (rangeToLen occ.length r) :=
  ⟨(Ranges.ranges_maximal occ hnf r hr).1, (Ranges.ranges_maximal occ hnf r hr).2,
    (Ranges.ranges_ringSeq occ r hr).1⟩

/-- C13 (blocks rotate): the blocks of the rotated occupancy are the shifted blocks, as the same
sequences in ring order (a block straddling the 255/0 seam is the same sequence as the same
block elsewhere), up to the order of the blocks in the list. -/
theorem ranges_rot (occ : List Bool) (k : Nat) (hnf : false ∈ occ) :
    (blocks (rotOcc k occ)).Perm ((blocks occ).map (shiftBlock occ.length k)) :=
  Ranges.ranges_rot occ k hnf

variable {α : Type}

/-- C13 (rotation): occupancy ≠ full ring ⇒ the avalanches of the event rotated by `k` pad
columns (wires by `8k`) are, as a multiset, the avalanches of the event with each wire moved by
`8k`; time bin, `z`, wire and pad amplitude are identical **as values of `α`** — any carrier, any
`deconvBlock`, any `padDeconv`, any sorter, any `k`. In particular bit for bit in `f64`. -/
theorem avalanches_rot (o : Ops α) (g : Geo α) (s : Sorter α) (P : Params α) (ev : Event α)
    (k : Nat) (hnf : false ∈ occupancy ev) :
    (avalanches o g s P (rot k ev)).Perm ((avalanches o g s P ev).map (rotAvalanche k)) :=
  avalanches_rot_of P o g s Ranges.ranges_rot Ranges.ranges_disjoint Ranges.ranges_cover ev k hnf

/-- C13 (full ring, known finding F4): with every wire occupied `contiguous_ranges` returns the
single *linear* block `(0, n)` from wire 0 (the merge needs `len > 1`), for the rotated event
too; so the block's signal sequence of the rotated event is a cyclic shift of the original
one, and a position-dependent `deconvBlock` (like the banded, non-circulant `a_matrix` of the
code, in which wires 255 and 0 are not neighbours) breaks the key equality
`wireInput (rot k ev) (w + 8k) = wireInput ev w` on which `avalanches_rot` rests: concrete
counter-model `cmParams`/`cmEvent`. The implementation shows the same on the real `f64` code
(harness oracle text `full-ring occupancy (256/256 wires)`). -/
theorem full_ring_not_equivariant :
    (∀ occ : List Bool, occ ≠ [] → (∀ b ∈ occ, b = true) →
      contiguousRanges occ = [(0, occ.length)] ∧ blocks occ = [List.range occ.length])
    ∧ ((∀ b ∈ occupancy cmEvent, b = true)
      ∧ contiguousRanges (occupancy (rot 1 cmEvent)) = [(0, 256)]
      ∧ wireInput (assignments cmParams (rot 1 cmEvent)) ((0 + 8 * 1) % 256)
          ≠ wireInput (assignments cmParams cmEvent) 0) :=
  ⟨Ranges.full_ring_ranges,
    full_ring_not_equivariant_model.1, full_ring_not_equivariant_model.2.2.1,
    full_ring_not_equivariant_model.2.2.2.2.2⟩

section field
variable {F : Type} [Field F] [LE F] [LT F] [LawfulOrderLT F] [IsLinearOrder F] [OrderedRing F]
  [DecidableLT F] [DecidableLE F]

omit [LawfulOrderLT F] [IsLinearOrder F] [OrderedRing F] in
/-- C13 (mirror, pad hits), exact arithmetic: the pad column read in reverse row order yields
the same hits in reverse order, each with the same amplitude and `z` negated exactly. Hypotheses
on the geometry: `ln (a/b) = −ln (b/a)` and `rowZ (575 − r) = −rowZ r` (the latter follows from
`PAD_PITCH_Z = L/576`, half length `L/2`: `rowZ_mirror`). -/
theorem padHits_mirror (top : F) (g : Geo F)
    (hlog : ∀ a b : F, 0 < a → 0 < b → g.log (a / b) = - g.log (b / a))
    (hrow : ∀ r, r < 576 → rowZ (fieldOps top) g (575 - r) = - rowZ (fieldOps top) g r)
    (column : List (List F)) (hlen : column.length = 576) (t : Nat) :
    padHitsAtT (fieldOps top) g column.reverse t
      = ((padHitsAtT (fieldOps top) g column t).map
          fun h => (⟨-h.z, h.amplitude⟩ : PadHit F)).reverse :=
  Matching.padHits_mirror top g hlog hrow column hlen t

/-- C13 (mirror, avalanches): mirroring the pad rows maps every avalanche to the same wire, time
bin and amplitudes with `z` negated, provided the sorter is a correct descending sort and the
pad-hit amplitudes within one (column, time bin) are pairwise distinct (with ties an unstable
sort may pair differently after the reversal — the excluded point, DESIGN F8). -/
theorem avalanches_mirror (top : F) (g : Geo F) (s : Sorter F) (hs : IsDescSort (fieldOps top) s)
    (hlog : ∀ a b : F, 0 < a → 0 < b → g.log (a / b) = - g.log (b / a))
    (hrow : ∀ r, r < 576 → rowZ (fieldOps top) g (575 - r) = - rowZ (fieldOps top) g r)
    (P : Params F) (ev : Event F)
    (hnd : ∀ c, c < 32 → ∀ t,
      ((padHitsAtT (fieldOps top) g (padInputs P ev c) t).map (·.amplitude)).Nodup) :
    avalanches (fieldOps top) g s P (mirror ev)
      = (avalanches (fieldOps top) g s P ev).map fun a => { a with z := -a.z } :=
  Matching.avalanches_mirror top g s hs hlog hrow P ev hnd

attribute [local instance] Semiring.natCast in
/-- The row hypothesis of the mirror theorems from the code's constants (`(n : F)` is the
field's cast of a natural number). -/
theorem rowZ_mirror (top : F) (g : Geo F) (hofNat : ∀ n, g.ofNat n = (n : F))
    (hhalf : g.half + g.half = 1) (hlen : g.halfLength = 288 * g.width) (r : Nat) (hr : r < 576) :
    rowZ (fieldOps top) g (575 - r) = - rowZ (fieldOps top) g r :=
  Matching.rowZ_mirror top g hofNat hhalf hlen r hr

end field

/-! Non-vacuity: a non-full occupancy with a block across the seam, and a sorter / geometry
satisfying the mirror hypotheses (`mergeSorter_isDescSort`, `exGeo_hlog`, `exGeo_hrow` in
`Lemmas/RangesMirror.lean`). -/
example : false ∈ [true, true, false, true, false, true] := by decide
example : contiguousRanges [true, true, false, true, false, true] = [(3, 4), (5, 2)] := by decide
example : IsDescSort (fieldOps (0 : Rat)) mergeSorter := mergeSorter_isDescSort 0

end AlphaG.C13
