import AlphaG.Props.C08Names
import AlphaG.Props.C08Maps
/-
C08 — channel identity is unambiguous: bank names, boards and detector elements biject
(and the bank-name part of C01: the string parsers are total).

The proofs live in `Props/C08Names.lean` (names) and `Props/C08Maps.lean` (maps, run-number
dispatch, geometry); this file states the property's theorems under their fixed names. All
tables, thresholds and `match run_number` arms are `AlphaG.Generated.*`, regenerated from the
source text on every run, so every `decide +kernel` obligation is re-checked against the
current source.
-/
namespace AlphaG.C08
open AlphaG AlphaG.Generated AlphaG.BankName AlphaG.Maps

/-- Among all strings exactly the documented main-event bank names are accepted. -/
theorem name_accept_iff (s : String) : (∃ n, parseBankName s = .ok n) ↔ s ∈ documentedNames :=
  BankName.name_accept_iff s

/-- Exactly `CBF1 … CBF4` are accepted by the Chronobox parser. -/
theorem chronobox_accept_iff (s : String) :
    (∃ i, parseChronoboxBankName s = .ok i) ↔ s ∈ documentedChronoboxNames :=
  BankName.chronobox_accept_iff s

/-- Exactly `SEQ2` is accepted by the sequencer parser. -/
theorem seq2_accept_iff (s : String) : parseSeq2BankName s = .ok () ↔ s ∈ documentedSeq2Names :=
  BankName.seq2_accept_iff s

/-- Distinct accepted names denote distinct (kind, board, channel). -/
theorem name_injective (s t : String) (n : Name) (hs : parseBankName s = .ok n)
    (ht : parseBankName t = .ok n) : s = t := BankName.name_injective s t n hs ht

/-- Each documented name denotes exactly one existing (kind, board, channel). -/
theorem name_denotes_one (s : String) (h : s ∈ documentedNames) :
    ∃ n, parseBankName s = .ok n ∧ ValidName n ∧ ∀ m, parseBankName s = .ok m → m = n :=
  BankName.name_denotes_one s h

/-- Every existing (kind, board, channel) has a documented name. -/
theorem name_surjective (n : Name) (h : ValidName n) :
    ∃ s, s ∈ documentedNames ∧ parseBankName s = .ok n := BankName.name_surjective n h

/-- Board tables: names, MAC addresses and device ids pairwise distinct; a PadWing device id is
the little-endian u32 of the first four MAC bytes; names are two characters. -/
theorem board_tables_distinct :
    (alpha16Boards.map (fun r => r.1)).Nodup ∧ (alpha16Boards.map (fun r => r.2)).Nodup
    ∧ (padwingBoards.map (fun r => r.1)).Nodup ∧ (padwingBoards.map (fun r => r.2.1)).Nodup
    ∧ (padwingBoards.map (fun r => r.2.2)).Nodup
    ∧ (∀ r, r ∈ padwingBoards → r.2.1.length = 6 ∧ (∀ x, x ∈ r.2.1 → x < 256)
        ∧ r.2.2 = r.2.1.getD 0 0 + 256 * (r.2.1.getD 1 0 + 256 * (r.2.1.getD 2 0 + 256 * r.2.1.getD 3 0)))
    ∧ (∀ r, r ∈ alpha16Boards → r.2.length = 6 ∧ (∀ x, x ∈ r.2 → x < 256))
    ∧ (∀ r, r ∈ alpha16Boards → r.1.toList.length = 2)
    ∧ (∀ r, r ∈ padwingBoards → r.1.toList.length = 2) := BankName.board_tables_distinct

/-- No `match run_number` arm of the three map dispatches is shadowed by an earlier one. -/
theorem no_shadowed_arm :
    (noShadowedArm wirePreampArms && noShadowedArm wireChannelArms && noShadowedArm pwbArms)
      = true := Maps.no_shadowed_arm

/-- The six calibration dispatches: errors below their first run, a map from there on (no gap),
no shadowed arm. -/
theorem calibration_dispatch (c : String × Arms × List (String × String)) (hc : c ∈ calArms)
    (run : UInt32) :
    (run.toNat < firstMapRun c.2.1 → isErrAt c.2.1 run.toNat = true)
    ∧ (firstMapRun c.2.1 ≤ run.toNat → hasMapAt c.2.1 run.toNat = true) :=
  ⟨fun h => cal_before_first c hc _ run.toNat_lt h, fun h => cal_no_gap c hc _ run.toNat_lt h⟩

/-- No string makes a bank-name parser panic. -/
theorem bankName_total (s : String) : NoPanic (parseBankName s) := BankName.bankName_total s

theorem chronoboxBankName_total (s : String) : NoPanic (parseChronoboxBankName s) :=
  BankName.chronobox_total s

/-- (Alpha16 board, channel) ↦ wire is a bijection 8 × 32 → 256 for every run with a map. -/
theorem wire_bijection (run : UInt32) (h : wireMapExists run.toNat) :
    WireBij (wirePosition run.toNat) := Maps.wire_bijection run.toNat h

/-- The same as a bijection between finite types `Fin 8 × Fin 32 → Fin 256`. -/
theorem wire_bijection_fin (run : UInt32) (h : wireMapExists run.toNat) :
    Function.Injective (wireFin run.toNat) ∧ Function.Surjective (wireFin run.toNat) :=
  Maps.wireFin_bijective run.toNat h

/-- (installed PadWing board, chip, pad channel) ↦ pad is a bijection onto the 32 × 576 pads for
every run with a map. -/
theorem pad_bijection (run : UInt32) (h : pwbMapExists run.toNat) :
    TpcPadBij (padPosition run.toNat) (installed run.toNat) padwingBoards.length :=
  Maps.pad_bijection run.toNat h

/-- The simulation run number maps exactly like run 5000 (wires, boards, pads). -/
theorem sim_eq_5000 :
    (∀ b c, wirePosition 4294967295 b c = wirePosition 5000 b c)
    ∧ (∀ b, pwbPosition 4294967295 b = pwbPosition 5000 b)
    ∧ (∀ b chip ch, padPosition 4294967295 b chip ch = padPosition 5000 b chip ch) :=
  ⟨wire_sim_eq_5000, pwb_sim_eq_5000, pad_sim_eq_5000⟩

/-- Run numbers before the first map give an error, never a value. -/
theorem before_first_map_errors (run : UInt32) :
    (run.toNat < wireFirstRun → ∀ b c, ∃ e, wirePosition run.toNat b c = .err e)
    ∧ (run.toNat < pwbFirstRun → ∀ b chip ch, ∃ e, padPosition run.toNat b chip ch = .err e) :=
  ⟨fun h b c => wire_before_first_map_errors _ run.toNat_lt h b c,
   fun h b chip ch => pad_before_first_map_errors _ run.toNat_lt h b chip ch⟩

/-- Every run number from the first map on has a map. -/
theorem no_gap (run : UInt32) :
    (wireFirstRun ≤ run.toNat → wireMapExists run.toNat)
    ∧ (pwbFirstRun ≤ run.toNat → pwbMapExists run.toNat) :=
  ⟨fun h => wire_no_gap _ run.toNat_lt h, fun h => pwb_no_gap _ run.toNat_lt h⟩

/-- Every wire lies within half a column pitch (1/64 turn) of its pad column's centre. -/
theorem wire_in_column : ∀ w, w < 256 →
    wireToPadColumn w < 32 ∧ ratAbs (phiWire w - phiCol (wireToPadColumn w)) < 1 / 64 :=
  Maps.wire_in_column

/-- `pad_column_to_wires c` is exactly the fibre of `wire_to_pad_column` over `c`, never wraps. -/
theorem padColumnToWires_fibre : ∀ c, c < 32 →
    (padColumnToWires c).2 = (padColumnToWires c).1 + 8 ∧ (padColumnToWires c).2 ≤ 256 ∧
    ∀ w, w < 256 → (((padColumnToWires c).1 ≤ w ∧ w < (padColumnToWires c).2) ↔ wireToPadColumn w = c) :=
  Maps.padColumnToWires_fibre

end AlphaG.C08
