import AlphaG.Lemmas.MapsNames
/-
C08, names part (and the bank-name part of C01): exactly the documented bank names are
accepted, each denotes exactly one (kind, board, channel), distinct names denote distinct
channels, the board tables are duplicate free, and no string makes a parser panic.
-/
namespace AlphaG.BankName
open AlphaG AlphaG.Generated

/-! ### Specification: the documented grammar over the generated board tables -/

/-- The documented main-event bank names as character lists: `B` + Alpha16 board + one of
`0-9A-F`; `C` + Alpha16 board + one of `0-9A-V`; `PC` + PadWing board; `ATAT`, `TRBA`, `MCVX`. -/
def documentedChars : List (List Char) :=
  (alpha16Boards.flatMap fun r => "0123456789ABCDEF".toList.map fun d => 'B' :: r.1.toList ++ [d])
  ++ (alpha16Boards.flatMap fun r =>
        "0123456789ABCDEFGHIJKLMNOPQRSTUV".toList.map fun d => 'C' :: r.1.toList ++ [d])
  ++ (padwingBoards.map fun r => 'P' :: 'C' :: r.1.toList)
  ++ ["ATAT".toList, "TRBA".toList, "MCVX".toList]

/-- The documented main-event bank names. -/
def documentedNames : List String := documentedChars.map String.ofList

/-- The documented Chronobox bank names. -/
def documentedChronoboxNames : List String := ["CBF1", "CBF2", "CBF3", "CBF4"]

/-- The documented sequencer bank name. -/
def documentedSeq2Names : List String := ["SEQ2"]

def documentedCodes : List (List Nat) := documentedChars.map (fun l => l.map Char.toNat)

/-- The name that denotes `n` (inverse of the parser on its range). -/
def render (n : Name) : List Nat :=
  match n.kind with
  | .adc16 => 66 :: (a16Codes.getD n.board [] ++ [digitCode n.channel])
  | .adc32 => 67 :: (a16Codes.getD n.board [] ++ [digitCode n.channel])
  | .padwing => 80 :: 67 :: pwbCodes.getD n.board []
  | .trg => codes triggerName
  | .trb3 => codes trb3Name
  | .mcvx => codes mcVertexName

/-- The (kind, board, channel) triples that exist. -/
def ValidName (n : Name) : Prop :=
  match n.kind with
  | .adc16 => n.board < alpha16Boards.length ∧ n.channel < 16
  | .adc32 => n.board < alpha16Boards.length ∧ n.channel < 32
  | .padwing => n.board < padwingBoards.length ∧ n.channel = 0
  | .trg => n.board = 0 ∧ n.channel = 0
  | .trb3 => n.board = 0 ∧ n.channel = 0
  | .mcvx => n.board = 0 ∧ n.channel = 0

/-! ### Kernel obligations on the generated tables -/

/-- Every documented name is accepted. -/
theorem documented_accepted : documentedCodes.all (fun d => (mainName d).isOk) = true := by
  decide +kernel

/-- Position of the name of `n` in `documentedChars` (the lists are laid out board by board). -/
def docIndex (n : Name) : Nat :=
  match n.kind with
  | .adc16 => n.board * 16 + n.channel
  | .adc32 => alpha16Boards.length * 16 + n.board * 32 + n.channel
  | .padwing => alpha16Boards.length * 48 + n.board
  | .trg => alpha16Boards.length * 48 + padwingBoards.length
  | .trb3 => alpha16Boards.length * 48 + padwingBoards.length + 1
  | .mcvx => alpha16Boards.length * 48 + padwingBoards.length + 2

/-- Is the documented name at `docIndex n` the rendering of `n`, and does it parse back to `n`? -/
def nameOk (n : Name) : Bool :=
  documentedCodes[docIndex n]? == some (render n) && mainName (render n) == .ok n

/-- Every existing (kind, board, channel) has a documented name, which parses back to it. -/
theorem valid_documented :
    (∀ i, i < alpha16Boards.length → ∀ v, v < 16 → nameOk ⟨.adc16, i, v⟩ = true)
    ∧ (∀ i, i < alpha16Boards.length → ∀ v, v < 32 → nameOk ⟨.adc32, i, v⟩ = true)
    ∧ (∀ i, i < padwingBoards.length → nameOk ⟨.padwing, i, 0⟩ = true)
    ∧ nameOk ⟨.trg, 0, 0⟩ = true ∧ nameOk ⟨.trb3, 0, 0⟩ = true ∧ nameOk ⟨.mcvx, 0, 0⟩ = true := by
  decide +kernel

/-- **C08 board tables.** Names, MAC addresses and device ids are pairwise distinct, and a
PadWing device id is the little-endian 32-bit value of the first four MAC bytes. -/
theorem board_tables_distinct :
    (alpha16Boards.map (fun r => r.1)).Nodup ∧ (alpha16Boards.map (fun r => r.2)).Nodup
    ∧ (padwingBoards.map (fun r => r.1)).Nodup ∧ (padwingBoards.map (fun r => r.2.1)).Nodup
    ∧ (padwingBoards.map (fun r => r.2.2)).Nodup
    ∧ (∀ r, r ∈ padwingBoards → r.2.1.length = 6 ∧ (∀ x, x ∈ r.2.1 → x < 256)
        ∧ r.2.2 = r.2.1.getD 0 0 + 256 * (r.2.1.getD 1 0 + 256 * (r.2.1.getD 2 0 + 256 * r.2.1.getD 3 0)))
    ∧ (∀ r, r ∈ alpha16Boards → r.2.length = 6 ∧ (∀ x, x ∈ r.2 → x < 256))
    ∧ (∀ r, r ∈ alpha16Boards → r.1.toList.length = 2)
    ∧ (∀ r, r ∈ padwingBoards → r.1.toList.length = 2) := by
  decide +kernel

theorem consts_ok : adc16Name = adcName 66 4 1 2 3 16 15 ∧ adc32Name = adcName 67 4 1 2 3 32 31 := by
  constructor <;> rfl

/-- The first-character dispatch of `MainEventBankName::try_from` / `Alpha16BankName::try_from`
(transcribed by hand in `mainName` / `alpha16Name`) is still what the source says. -/
theorem dispatch_tie :
    mainDispatch = [(['A'], "TriggerBankName"), (['B', 'C'], "Alpha16BankName"),
      (['P'], "PadwingBankName"), (['T'], "Trb3BankName"), (['M'], "McVertexBankName")]
    ∧ alpha16Dispatch = [(['C'], "Adc32BankName"), (['B'], "Adc16BankName")]
    ∧ triggerName = "ATAT" ∧ trb3Name = "TRBA" ∧ mcVertexName = "MCVX" := by decide

/-! ### Accepted strings -/

theorem a16Codes_length : a16Codes.length = alpha16Boards.length := by simp [a16Codes]
theorem pwbCodes_length : pwbCodes.length = padwingBoards.length := by simp [pwbCodes]

theorem getD_of_lookup (ns : List (List Nat)) (x : List Nat) (i : Nat)
    (h : lookupIdx ns x = some i) : ns.getD i [] = x := by
  have := lookupIdx_some ns x i h
  simp [List.getD, this]

/-- An accepted string is the rendering of what it denotes, and that exists. -/
theorem mainName_ok (cs : List Nat) (n : Name) (h : mainName cs = .ok n) :
    cs = render n ∧ ValidName n := by
  unfold mainName at h
  split at h
  · obtain ⟨u, hu, rfl⟩ := (mapOut_ok _ _ _ _).1 h
    exact ⟨(literalName_ok _ _ _).1 hu, rfl, rfl⟩
  · split at h
    · obtain ⟨m, hm, rfl⟩ := (mapOut_ok _ _ _ _).1 h
      unfold alpha16Name at hm
      split at hm
      · obtain ⟨p, hp, rfl⟩ := (mapOut_ok _ _ _ _).1 hm
        rw [consts_ok.2] at hp
        obtain ⟨x, y, d, rfl, hl, hv, hd, _⟩ := adcName_ok _ _ _ _ _ hp
        refine ⟨?_, ?_⟩
        · simp only [render, id, getD_of_lookup _ _ _ hl, hd]; rfl
        · exact ⟨by rw [← a16Codes_length]; exact lookupIdx_lt _ _ _ hl, hv⟩
      · split at hm
        · obtain ⟨p, hp, rfl⟩ := (mapOut_ok _ _ _ _).1 hm
          rw [consts_ok.1] at hp
          obtain ⟨x, y, d, rfl, hl, hv, hd, _⟩ := adcName_ok _ _ _ _ _ hp
          refine ⟨?_, ?_⟩
          · simp only [render, id, getD_of_lookup _ _ _ hl, hd]; rfl
          · exact ⟨by rw [← a16Codes_length]; exact lookupIdx_lt _ _ _ hl, hv⟩
        · cases hm
    · split at h
      · obtain ⟨b, hb, rfl⟩ := (mapOut_ok _ _ _ _).1 h
        obtain ⟨x, y, rfl, hl⟩ := padwingName_ok _ _ hb
        refine ⟨?_, ?_⟩
        · simp only [render, getD_of_lookup _ _ _ hl]
        · exact ⟨by rw [← pwbCodes_length]; exact lookupIdx_lt _ _ _ hl, rfl⟩
      · split at h
        · obtain ⟨u, hu, rfl⟩ := (mapOut_ok _ _ _ _).1 h
          exact ⟨(literalName_ok _ _ _).1 hu, rfl, rfl⟩
        · split at h
          · obtain ⟨u, hu, rfl⟩ := (mapOut_ok _ _ _ _).1 h
            exact ⟨(literalName_ok _ _ _).1 hu, rfl, rfl⟩
          · cases h

theorem nameOk_of_valid (n : Name) (h : ValidName n) : nameOk n = true := by
  obtain ⟨v1, v2, v3, v4, v5, v6⟩ := valid_documented
  obtain ⟨k, b, c⟩ := n
  cases k <;> simp only [ValidName] at h
  · exact v1 b h.1 c h.2
  · exact v2 b h.1 c h.2
  · obtain ⟨h1, rfl⟩ := h; exact v3 b h1
  · obtain ⟨rfl, rfl⟩ := h; exact v4
  · obtain ⟨rfl, rfl⟩ := h; exact v5
  · obtain ⟨rfl, rfl⟩ := h; exact v6

theorem render_documented (n : Name) (h : ValidName n) : render n ∈ documentedCodes := by
  have := nameOk_of_valid n h
  simp only [nameOk, Bool.and_eq_true, beq_iff_eq] at this
  exact List.mem_of_getElem? this.1

/-- The parser inverts `render` on the existing triples. -/
theorem parse_render (n : Name) (h : ValidName n) : mainName (render n) = .ok n := by
  have := nameOk_of_valid n h
  simp only [nameOk, Bool.and_eq_true, beq_iff_eq] at this
  exact this.2

theorem toNat_map_injective (l l' : List Char) (h : l.map Char.toNat = l'.map Char.toNat) : l = l' :=
  (List.map_inj_right (fun _ _ e => Char.toNat_inj.1 e)).1 h

theorem mem_documentedNames (s : String) : s ∈ documentedNames ↔ codes s ∈ documentedCodes := by
  unfold documentedNames documentedCodes codes
  simp only [List.mem_map]
  constructor
  · rintro ⟨l, hl, rfl⟩
    exact ⟨l, hl, by rw [String.toList_ofList]⟩
  · rintro ⟨l, hl, e⟩
    refine ⟨l, hl, ?_⟩
    have := toNat_map_injective _ _ e
    rw [this, String.ofList_toList]

/-- **C08 name_accept_iff.** Among *all* strings (any length, any Unicode) exactly the documented
main-event bank names are accepted. -/
theorem name_accept_iff (s : String) : (∃ n, parseBankName s = .ok n) ↔ s ∈ documentedNames := by
  rw [mem_documentedNames]
  constructor
  · rintro ⟨n, hn⟩
    obtain ⟨e, v⟩ := mainName_ok _ _ hn
    unfold parseBankName at hn
    rw [e]; exact render_documented n v
  · intro h
    have := documented_accepted
    rw [List.all_eq_true] at this
    have ok := this _ h
    unfold parseBankName
    cases hx : mainName (codes s) with
    | ok n => exact ⟨n, rfl⟩
    | err e => rw [hx] at ok; cases ok
    | panic p => rw [hx] at ok; cases ok

theorem codes_injective (s t : String) (h : codes s = codes t) : s = t :=
  String.toList_inj.1 (toNat_map_injective _ _ h)

/-- **C08 name_injective.** Distinct accepted names denote distinct (kind, board, channel). -/
theorem name_injective (s t : String) (n : Name) (hs : parseBankName s = .ok n)
    (ht : parseBankName t = .ok n) : s = t :=
  codes_injective s t (((mainName_ok _ _ hs).1).trans ((mainName_ok _ _ ht).1).symm)

/-- **C08 name_denotes_one.** A documented name denotes exactly one (kind, board, channel), and
that triple exists. -/
theorem name_denotes_one (s : String) (h : s ∈ documentedNames) :
    ∃ n, parseBankName s = .ok n ∧ ValidName n ∧ ∀ m, parseBankName s = .ok m → m = n := by
  obtain ⟨n, hn⟩ := (name_accept_iff s).2 h
  refine ⟨n, hn, (mainName_ok _ _ hn).2, ?_⟩
  intro m hm
  rw [hn] at hm
  exact (ok_eq_ok.1 hm).symm

/-- Every existing (kind, board, channel) has a name (the parser is onto the valid triples). -/
theorem name_surjective (n : Name) (h : ValidName n) :
    ∃ s, s ∈ documentedNames ∧ parseBankName s = .ok n := by
  have hd := render_documented n h
  unfold documentedCodes at hd
  simp only [List.mem_map] at hd
  obtain ⟨l, hl, e⟩ := hd
  have hs : String.ofList l ∈ documentedNames := List.mem_map.2 ⟨l, hl, rfl⟩
  refine ⟨String.ofList l, hs, ?_⟩
  have e2 : codes (String.ofList l) = render n := by
    unfold codes; rw [String.toList_ofList]; exact e
  unfold parseBankName
  rw [e2]; exact parse_render n h


/-! ### Totality (bank-name part of C01) -/

theorem alpha16Name_noPanic (cs : List Nat) : NoPanic (alpha16Name cs) := by
  unfold alpha16Name
  split
  · apply mapOut_noPanic; rw [consts_ok.2]
    exact adcName_noPanic 67 32 31 (by omega) (by omega) (by omega) cs
  · split
    · apply mapOut_noPanic; rw [consts_ok.1]
      exact adcName_noPanic 66 16 15 (by omega) (by omega) (by omega) cs
    · exact noPanic_err _

theorem mainName_noPanic (cs : List Nat) : NoPanic (mainName cs) := by
  unfold mainName
  split
  · exact mapOut_noPanic _ _ _ (literalName_noPanic _ _)
  · split
    · exact mapOut_noPanic _ _ _ (alpha16Name_noPanic _)
    · split
      · exact mapOut_noPanic _ _ _ (padwingName_noPanic _)
      · split
        · exact mapOut_noPanic _ _ _ (literalName_noPanic _ _)
        · split
          · exact mapOut_noPanic _ _ _ (literalName_noPanic _ _)
          · exact noPanic_err _

/-- **C01 (bank names) bankName_total.** `MainEventBankName::try_from` panics on no string: the
ASCII screening guarantees that every later `&name[a..][..b]` is on a character boundary, the
radix is legal and the channel `unwrap` cannot fail. -/
theorem bankName_total (s : String) : NoPanic (parseBankName s) := mainName_noPanic _

/-- The sub-parsers, called directly, are total as well. -/
theorem subParsers_total (s : String) :
    NoPanic (adc16Name (codes s)) ∧ NoPanic (adc32Name (codes s)) ∧ NoPanic (alpha16Name (codes s))
    ∧ NoPanic (padwingName (codes s)) ∧ NoPanic (literalName triggerName (codes s))
    ∧ NoPanic (literalName trb3Name (codes s)) ∧ NoPanic (literalName mcVertexName (codes s))
    ∧ NoPanic (parseSeq2BankName s) := by
  refine ⟨?_, ?_, alpha16Name_noPanic _, padwingName_noPanic _, literalName_noPanic _ _,
    literalName_noPanic _ _, literalName_noPanic _ _, literalName_noPanic _ _⟩
  · rw [consts_ok.1]; exact adcName_noPanic 66 16 15 (by omega) (by omega) (by omega) _
  · rw [consts_ok.2]; exact adcName_noPanic 67 32 31 (by omega) (by omega) (by omega) _

/-! ### Chronobox, sequencer and event ids -/

theorem chronoboxAux_ok (l : List (List Nat × List Nat)) (cs : List Nat) (i : Nat)
    (h : chronoboxNameAux l cs = .ok i) : cs ∈ l.map (fun p => p.1) := by
  induction l with
  | nil => simp [chronoboxNameAux] at h
  | cons p l ih =>
    obtain ⟨bank, board⟩ := p
    simp only [chronoboxNameAux] at h
    split at h
    · subst_vars; simp
    · simp only [List.map_cons, List.mem_cons]; exact Or.inr (ih h)

theorem chronoboxAux_noPanic (l : List (List Nat × List Nat))
    (hl : l.all (fun p => (lookupIdx cbCodes p.2).isSome) = true) (cs : List Nat) :
    NoPanic (chronoboxNameAux l cs) := by
  induction l with
  | nil => exact noPanic_err _
  | cons p l ih =>
    obtain ⟨bank, board⟩ := p
    simp only [List.all_cons, Bool.and_eq_true] at hl
    simp only [chronoboxNameAux]
    split
    · exact noPanic_need hl.1 (noPanic_ok _)
    · exact ih hl.2

theorem chronobox_tables :
    cbBankCodes.map (fun p => p.1) = documentedChronoboxNames.map codes
    ∧ cbBankCodes.all (fun p => (lookupIdx cbCodes p.2).isSome) = true
    ∧ (documentedChronoboxNames.map fun s => parseChronoboxBankName s)
        = [.ok 0, .ok 1, .ok 2, .ok 3]
    ∧ chronoboxNames = ["cb01", "cb02", "cb03", "cb04"] ∧ numInputChannels = 59 := by
  decide +kernel

/-- **C08 (Chronobox).** Exactly `CBF1 … CBF4` are accepted (and denote `cb01 … cb04`,
see `chronobox_tables`). -/
theorem chronobox_accept_iff (s : String) :
    (∃ i, parseChronoboxBankName s = .ok i) ↔ s ∈ documentedChronoboxNames := by
  constructor
  · rintro ⟨i, hi⟩
    have := chronoboxAux_ok _ _ _ hi
    rw [chronobox_tables.1, List.mem_map] at this
    obtain ⟨t, ht, e⟩ := this
    rw [← codes_injective _ _ e]; exact ht
  · intro h
    simp only [documentedChronoboxNames, List.mem_cons, List.not_mem_nil, or_false] at h
    rcases h with rfl | rfl | rfl | rfl
    · exact ⟨0, by decide +kernel⟩
    · exact ⟨1, by decide +kernel⟩
    · exact ⟨2, by decide +kernel⟩
    · exact ⟨3, by decide +kernel⟩

theorem chronobox_total (s : String) : NoPanic (parseChronoboxBankName s) :=
  chronoboxAux_noPanic _ chronobox_tables.2.1 _

/-- **C08 (sequencer).** Exactly `SEQ2` is accepted. -/
theorem seq2_accept_iff (s : String) : parseSeq2BankName s = .ok () ↔ s ∈ documentedSeq2Names := by
  unfold parseSeq2BankName seq2BankName
  rw [literalName_ok]
  have : Generated.seq2Name = "SEQ2" := by decide
  rw [this]
  simp only [documentedSeq2Names, List.mem_cons, List.not_mem_nil, or_false]
  constructor
  · exact codes_injective _ _
  · rintro rfl; rfl

/-- `EventId::try_from` accepts exactly 1, 4 and 8. -/
theorem eventId_accept_iff (n : Nat) : (∃ v, eventId n = .ok v) ↔ n = 1 ∨ n = 4 ∨ n = 8 := by
  have e : eventIds = [(1, "Main"), (4, "Chronobox"), (8, "Sequencer2")] := by decide
  unfold eventId
  rw [e]
  by_cases h1 : n = 1
  · subst h1; simp [List.find?]
  · by_cases h4 : n = 4
    · subst h4; simp [List.find?]
    · by_cases h8 : n = 8
      · subst h8; simp [List.find?]
      · have a1 : ((1 : Nat) == n) = false := by simp; omega
        have a4 : ((4 : Nat) == n) = false := by simp; omega
        have a8 : ((8 : Nat) == n) = false := by simp; omega
        simp [List.find?, a1, a4, a8, h1, h4, h8]

/-! ### Non-vacuity -/

example : parseBankName "B09A" = .ok ⟨.adc16, 0, 10⟩ := by decide +kernel
example : parseBankName "C18V" = .ok ⟨.adc32, 7, 31⟩ := by decide +kernel
example : parseBankName "C18W" = .err (.badAlpha16 .unknownChannelId) := by decide +kernel
example : parseBankName "B09a" = .err (.badAlpha16 .patternMismatch) := by decide +kernel
example : parseBankName "Bé1" = .err (.badAlpha16 .patternMismatch) := by decide +kernel
example : "B09A" ∈ documentedNames ∧ "PC12" ∈ documentedNames ∧ "ATAT" ∈ documentedNames := by
  decide +kernel
example : documentedNames.length = 458 := by decide +kernel
example : ValidName ⟨.adc32, 7, 31⟩ := by simp only [ValidName]; decide
example : byteLen (codes "Bé1") = 4 ∧ (codes "Bé1").length = 3 := by decide +kernel

end AlphaG.BankName
