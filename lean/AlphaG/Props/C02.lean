import AlphaG.Model.Adc
import AlphaG.Lemmas.Bytes
import AlphaG.Lemmas.Adc
/-
C02 — ADC (Alpha16) v3 packet decoding is exact; ADC part of C01 (totality).
The specification below is written from the documentation table of `AdcV3Packet` and the
property text, on *fields* (`/`, `%`, indices), not from the decoder's control flow or masks.
-/
namespace AlphaG.Adc
open AlphaG.Generated

/-! ### Specification: the documented fields -/

/-- "Last 4 bytes: data suppression info": a big-endian `u16` of flags followed by the
big-endian `i16` suppression baseline. -/
def footerF (b : List UInt8) : Nat := beAt b (b.length - 4) 2
/-- bits 0–11 of the footer word -/
def keepLastF (b : List UInt8) : Nat := footerF b % 2 ^ 12
/-- bit 12 of the footer word -/
def keepBitF (b : List UInt8) : Prop := (footerF b / 2 ^ 12) % 2 = 1
/-- bit 13 of the footer word (bits 14, 15 are unused) -/
def suppF (b : List UInt8) : Prop := (footerF b / 2 ^ 13) % 2 = 1
def baselineF (b : List UInt8) : Int := toSigned 16 (beAt b (b.length - 2) 2)
def requestedF (b : List UInt8) : Nat := beAt b 6 2
/-- number of waveform samples of a long packet: 32 header bytes, 4 footer bytes -/
def nSamplesF (b : List UInt8) : Nat := (b.length - 36) / 2
/-- sample `i`: big-endian two's-complement 16-bit value at bytes `32+2i`, `33+2i` -/
def sampleF (b : List UInt8) (i : Nat) : Int := toSigned 16 (beAt b (32 + 2 * i) 2)
/-- bytes 14–19 -/
def macF (b : List UInt8) : List Nat := (List.range 6).map (fun i => byteAt b (14 + i))
/-- the known MAC addresses (generated from `ALPHA16BOARDS`) -/
def knownMacs : List (List Nat) := alpha16Boards.map (·.2)

instance (b : List UInt8) : Decidable (keepBitF b) := by unfold keepBitF; infer_instance
instance (b : List UInt8) : Decidable (suppF b) := by unfold suppF; infer_instance

/-- The 16-byte form: only with suppression on, `keep_bit` clear and `keep_last` 0. -/
structure ShortForm (b : List UInt8) : Prop where
  len : b.length = 16
  supp : suppF b
  keepBit : ¬ keepBitF b
  keepLast : keepLastF b = 0

/-- The long form. -/
structure LongForm (b : List UInt8) : Prop where
  len : 36 ≤ b.length
  zero12 : byteAt b 12 = 0
  zero13 : byteAt b 13 = 0
  mac : macF b ∈ knownMacs
  even : (b.length - 36) % 2 = 0
  minSamples : 64 ≤ nSamplesF b
  /-- footer baseline = floor (toward −∞) of the mean of the first 64 samples -/
  baseline : baselineF b = Int.fdiv ((List.range 64).map (sampleF b)).sum 64
  /-- the waveform is only included under suppression if the keep bit is set -/
  suppKeep : suppF b → keepBitF b
  /-- "if the `keep_bit` is not set, then `keep_last` is equal to 0" -/
  noKeep : ¬ keepBitF b → keepLastF b = 0
  /-- `keep_last = (index + 2) / 2 + 1` for the index of some sample after the baseline -/
  keep : keepBitF b → ∃ idx, 64 ≤ idx ∧ idx < nSamplesF b ∧ keepLastF b = (idx + 2) / 2 + 1
  req : 2 ≤ requestedF b
  countSupp : suppF b → nSamplesF b ≤ requestedF b - 2
  countNoSupp : ¬ suppF b → nSamplesF b = requestedF b - 2

/-- C02: the documented layout and consistency rules of an Alpha16 ADC v3 packet. -/
structure AdcWellFormed (b : List UInt8) : Prop where
  minLen : 16 ≤ b.length
  type1 : byteAt b 0 = 1
  version3 : byteAt b 1 = 3
  module : byteAt b 4 ≤ 7
  channel : byteAt b 5 ≤ 15 ∨ (128 ≤ byteAt b 5 ∧ byteAt b 5 ≤ 159)
  form : ShortForm b ∨ LongForm b

/-- The packet the documentation table denotes for a slice (big-endian fields; two's
complement for the trigger offset, the samples and the baseline). -/
def fields (b : List UInt8) : Packet :=
  { acceptedTrigger := beAt b 2 2
    moduleId := byteAt b 4
    channelId := if byteAt b 5 ≤ 15 then .a16 (byteAt b 5) else .a32 (byteAt b 5 - 128)
    requestedSamples := beAt b 6 2
    eventTimestamp := if b.length = 16 then beAt b 8 4 else beAt b 20 4 * 2 ^ 32 + beAt b 8 4
    boardId := if b.length = 16 then none
      else (alpha16Boards.filter (fun p => decide (p.2 = macF b))).head?
    triggerOffset := if b.length = 16 then none else some (toSigned 32 (beAt b 24 4))
    buildTimestamp := if b.length = 16 then none else some (beAt b 28 4)
    waveform := if b.length = 16 then [] else (List.range (nSamplesF b)).map (sampleF b)
    suppressionBaseline := baselineF b
    keepLast := keepLastF b
    keepBit := decide (keepBitF b)
    suppressionEnabled := decide (suppF b) }

/-- The input with the two unused footer bits (14, 15: the top bits of byte `len-4`) cleared. -/
def clearFooterBits (b : List UInt8) : List UInt8 :=
  b.take (b.length - 4) ++ [UInt8.ofNat (byteAt b (b.length - 4) % 64)] ++ b.drop (b.length - 3)

/-! ### Bridges between the code's masks/shifts/loops and the fields -/

theorem keepLast_eq (b : List UInt8) : keepLast b = keepLastF b := and_low (footer b) 12

theorem keepBit_iff (b : List UInt8) : keepBit b = true ↔ keepBitF b := by
  unfold keepBit keepBitF footerF
  rw [decide_eq_true_eq, Nat.shiftRight_eq_div_pow, show (1 : Nat) = 2 ^ 1 - 1 from rfl, and_low]
  rfl

theorem supp_iff (b : List UInt8) : supp b = true ↔ suppF b := by
  unfold supp suppF footerF
  rw [decide_eq_true_eq, Nat.shiftRight_eq_div_pow, show (1 : Nat) = 2 ^ 1 - 1 from rfl, and_low]
  rfl

theorem keepBit_eq (b : List UInt8) : keepBit b = decide (keepBitF b) := by
  rw [Bool.eq_iff_iff, keepBit_iff, decide_eq_true_eq]

theorem supp_eq (b : List UInt8) : supp b = decide (suppF b) := by
  rw [Bool.eq_iff_iff, supp_iff, decide_eq_true_eq]

theorem macAt_eq (b : List UInt8) : macAt b = macF b := rfl

theorem wave_length (b : List UInt8) : (wave b).length = nSamplesF b := by
  unfold wave nSamplesF
  rw [i16s_length, List.length_take, List.length_drop]
  congr 1; omega

theorem wave_eq (b : List UInt8) (h36 : 36 ≤ b.length) (heven : (b.length - 36) % 2 = 0) :
    wave b = (List.range (nSamplesF b)).map (sampleF b) := by
  unfold wave nSamplesF
  have e : b.length - 36 = 2 * ((b.length - 36) / 2) := by omega
  conv => lhs; rw [e]
  rw [i16s_take_eq_map _ _ (by rw [List.length_drop]; omega)]
  apply List.map_congr_left
  intro i _
  simp only [sampleF, beAt_two, byteAt_drop]
  rw [Nat.add_assoc]

theorem wave_take64 (b : List UInt8) (h36 : 36 ≤ b.length) (heven : (b.length - 36) % 2 = 0)
    (h64 : 64 ≤ nSamplesF b) : (wave b).take 64 = (List.range 64).map (sampleF b) := by
  rw [wave_eq b h36 heven, ← List.map_take, List.take_range, Nat.min_eq_left h64]

theorem dataBaseline_eq (b : List UInt8) (h36 : 36 ≤ b.length)
    (heven : (b.length - 36) % 2 = 0) (h64 : 64 ≤ nSamplesF b) :
    dataBaseline b = Int.fdiv ((List.range 64).map (sampleF b)).sum 64 := by
  unfold dataBaseline
  rw [floorDiv64_eq_fdiv, wave_take64 b h36 heven h64]

theorem findBoard_isNone (m : List Nat) : (findBoard m).isNone = true ↔ m ∉ knownMacs := by
  rw [← Option.not_isSome, Bool.not_eq_true', ← Bool.not_eq_true, findBoard, List.find?_isSome]
  unfold knownMacs
  simp only [List.mem_map, beq_iff_eq]

theorem findBoard_eq (m : List Nat) :
    findBoard m = (alpha16Boards.filter (fun p => decide (p.2 = m))).head? := by
  rw [List.head?_filter, findBoard]
  congr 1
  funext p
  rw [Bool.eq_iff_iff, beq_iff_eq, decide_eq_true_eq]

theorem beAt12_zero (b : List UInt8) : beAt b 12 2 = 0 ↔ byteAt b 12 = 0 ∧ byteAt b 13 = 0 := by
  rw [beAt_two, show 12 + 1 = 13 from rfl]; omega

/-- The `i32` accumulation of 64 `i16` samples never overflows. -/
theorem sumFits_wave (b : List UInt8) : sumFitsI32 0 ((wave b).take 64) = true := by
  apply sumFitsI32_of_bounds
  · intro x hx; exact i16s_bounds _ x (List.mem_of_mem_take hx)
  · have : ((wave b).take 64).length ≤ 64 := by rw [List.length_take]; omega
    omega
  · have : ((wave b).take 64).length ≤ 64 := by rw [List.length_take]; omega
    omega

/-- The recomputed baseline always fits an `i16` (the `try_into().unwrap()` of the error path). -/
theorem dataBaseline_bounds (b : List UInt8) :
    -32768 ≤ dataBaseline b ∧ dataBaseline b ≤ 32767 := by
  unfold dataBaseline
  rw [floorDiv64_eq_fdiv, Int.fdiv_eq_ediv_of_nonneg _ (by omega : (0 : Int) ≤ 64)]
  have hb := sum_bounds ((wave b).take 64)
    (fun x hx => i16s_bounds _ x (List.mem_of_mem_take hx))
  have : ((wave b).take 64).length ≤ 64 := by rw [List.length_take]; omega
  omega

theorem chan_eq (b : List UInt8) (hch : byteAt b 5 ≤ 15 ∨ 128 ≤ byteAt b 5) :
    chan b = if byteAt b 5 ≤ 15 then .a16 (byteAt b 5) else .a32 (byteAt b 5 - 128) := by
  unfold chan
  split <;> split <;> first | rfl | omega

theorem shortPacket_eq_fields (b : List UInt8) (h : b.length = 16)
    (hch : byteAt b 5 ≤ 15 ∨ 128 ≤ byteAt b 5) : shortPacket b = fields b := by
  simp only [shortPacket, fields, h, if_true, chan_eq b hch, keepLast_eq, keepBit_eq, supp_eq]
  rfl

theorem longPacket_eq_fields (b : List UInt8) (h36 : 36 ≤ b.length)
    (heven : (b.length - 36) % 2 = 0) (hch : byteAt b 5 ≤ 15 ∨ 128 ≤ byteAt b 5) :
    longPacket b = fields b := by
  have hne : b.length ≠ 16 := by omega
  simp only [longPacket, fields, hne, if_false, chan_eq b hch, keepLast_eq, keepBit_eq, supp_eq,
    wave_eq b h36 heven, findBoard_eq, macAt_eq]
  rfl

set_option linter.unusedSimpArgs false in
/-- Characterisation of acceptance: the guard chain of the model collapses to the documented
well-formedness predicate, and the decoded packet is the documented field tuple. -/
theorem decode_ok_iff (b : List UInt8) (p : Packet) :
    decode b = .ok p ↔ AdcWellFormed b ∧ p = fields b := by
  have hsum := sumFits_wave b
  unfold decode
  simp only [ite_need_err_eq_ok, ite_needBytes_err_eq_ok, ite_err_eq_ok, needBytes_eq_ok,
    need_eq_ok, ite_eq_ok, ok_eq_ok, decide_eq_true_eq, reduceCtorEq, and_false, false_or,
    or_false, ne_eq, Decidable.not_not, Nat.not_lt, gt_iff_lt, Nat.not_le,
    lastIndex, maxSamples, keepLast_eq, keepBit_iff, supp_iff, wave_length, findBoard_isNone,
    macAt_eq, beAt12_zero, hsum, true_and]
  constructor
  · rintro ⟨h16, -, t1, -, v3, -, -, m, -, c1, -, c2, -, -, -, -, -, -,
      (⟨hl, hs, hk, hkl, rfl⟩ |
       ⟨hne, h36, -, ⟨z12, z13⟩, -, hmac, -, -, -, -, heven, -, -, h64, -, hbase, hl⟩)⟩
    · exact ⟨⟨h16, t1, v3, m, by omega, .inl ⟨hl, hs, hk, hkl⟩⟩,
        shortPacket_eq_fields b hl (by omega)⟩
    · rw [dataBaseline_eq b h36 heven h64] at hbase
      rcases hl with ⟨hs, hk, h34, -, -, hli, hmax, rfl⟩ |
        ⟨hs, (⟨hk, h34, -, -, hli, hmax, rfl⟩ | ⟨hk, hkl, hmax, rfl⟩)⟩
      · refine ⟨⟨h16, t1, v3, m, by omega, .inr ⟨h36, z12, z13, hmac, heven, h64, hbase.symm,
          fun _ => hk, fun h => absurd hk h,
          fun _ => ⟨(keepLastF b - 1) * 2 - 2, by omega, by omega, by omega⟩,
          by unfold requestedF; omega, fun _ => hmax, fun h => absurd hs h⟩⟩,
          longPacket_eq_fields b h36 heven (by omega)⟩
      · refine ⟨⟨h16, t1, v3, m, by omega, .inr ⟨h36, z12, z13, hmac, heven, h64, hbase.symm,
          fun h => absurd h hs, fun h => absurd hk h,
          fun _ => ⟨(keepLastF b - 1) * 2 - 2, by omega, by omega, by omega⟩,
          by unfold requestedF; omega, fun h => absurd h hs, fun _ => hmax⟩⟩,
          longPacket_eq_fields b h36 heven (by omega)⟩
      · refine ⟨⟨h16, t1, v3, m, by omega, .inr ⟨h36, z12, z13, hmac, heven, h64, hbase.symm,
          fun h => absurd h hs, fun _ => hkl, fun h => absurd h hk,
          by unfold requestedF; omega, fun h => absurd h hs, fun _ => hmax⟩⟩,
          longPacket_eq_fields b h36 heven (by omega)⟩
  · rintro ⟨⟨h16, t1, v3, m, c, form⟩, rfl⟩
    refine ⟨h16, by omega, t1, by omega, v3, by omega, by omega, m, by omega, by omega, by omega,
      by omega, by omega, by omega, by omega, by omega, by omega, by omega, ?_⟩
    rcases form with sf | lf
    · exact .inl ⟨sf.len, sf.supp, sf.keepBit, sf.keepLast,
        shortPacket_eq_fields b sf.len (by omega)⟩
    · have h36 := lf.len
      have h64 := lf.minSamples
      have hreq := lf.req
      unfold requestedF at hreq
      refine .inr ⟨by omega, h36, by omega, ⟨lf.zero12, lf.zero13⟩, by omega, lf.mac, by omega,
        by omega, by omega, h36, lf.even, by omega, by omega, h64, h64,
        (dataBaseline_eq b h36 lf.even h64).trans lf.baseline.symm, ?_⟩
      by_cases hs : suppF b
      · have hk := lf.suppKeep hs
        obtain ⟨idx, i1, i2, i3⟩ := lf.keep hk
        have hc := lf.countSupp hs
        unfold requestedF at hc
        exact .inl ⟨hs, hk, by omega, by omega, by omega, by omega, hc,
          longPacket_eq_fields b h36 lf.even (by omega)⟩
      · have hc := lf.countNoSupp hs
        unfold requestedF at hc
        by_cases hk : keepBitF b
        · obtain ⟨idx, i1, i2, i3⟩ := lf.keep hk
          exact .inr ⟨hs, .inl ⟨hk, by omega, by omega, by omega, by omega, hc,
            longPacket_eq_fields b h36 lf.even (by omega)⟩⟩
        · exact .inr ⟨hs, .inr ⟨hk, lf.noKeep hk, hc,
            longPacket_eq_fields b h36 lf.even (by omega)⟩⟩

/-- C02 (acceptance): a slice is accepted iff it obeys the documented layout and rules. -/
theorem adc_accept_iff (b : List UInt8) : (∃ p, decode b = .ok p) ↔ AdcWellFormed b := by
  constructor
  · rintro ⟨p, hp⟩; exact ((decode_ok_iff b p).1 hp).1
  · intro h; exact ⟨fields b, (decode_ok_iff b _).2 ⟨h, rfl⟩⟩

/-- C02 (fields): every accessor of an accepted packet is the documented big-endian field
(`fields`: unsigned `beAt`, two's complement `toSigned` for trigger offset, samples, baseline;
optional accessors are `none` exactly in the 16-byte form). -/
theorem adc_fields (b : List UInt8) (p : Packet) (h : decode b = .ok p) : p = fields b :=
  ((decode_ok_iff b p).1 h).2

/-- C02 (fields, samples): sample `i` of the waveform is the two's-complement big-endian 16-bit
value at bytes `32+2i`, `33+2i`, and the waveform has `(len-36)/2` samples (none in the short
form). -/
theorem adc_waveform (b : List UInt8) (p : Packet) (h : decode b = .ok p) :
    p.waveform.length = (if b.length = 16 then 0 else (b.length - 36) / 2) ∧
    ∀ i (hi : i < p.waveform.length),
      p.waveform[i] = toSigned 16 (byteAt b (32 + 2 * i) * 256 + byteAt b (32 + 2 * i + 1)) := by
  rw [adc_fields b p h]
  unfold fields
  by_cases hl : b.length = 16
  · simp [hl]
  · simp only [hl, if_false, List.length_map, List.length_range, nSamplesF, true_and]
    intro i hi
    simp [sampleF, beAt_two]

/-- The AdcPacket wrapper decodes exactly as the V3 packet. -/
theorem adcPacket_eq (b : List UInt8) : decodeAdcPacket b = decode b := rfl

/-- C02 (baseline): the decoder's `num / 64`, `num % 64 < 0 → d - 1` computation (truncating
division) is the floor of the mean, and an accepted long packet's footer baseline equals it. -/
theorem adc_baseline_floor (num : Int) : floorDiv64 num = Int.fdiv num 64 :=
  floorDiv64_eq_fdiv num

theorem adc_baseline_accepted (b : List UInt8) (p : Packet) (h : decode b = .ok p)
    (hl : b.length ≠ 16) :
    p.suppressionBaseline = Int.fdiv ((p.waveform.take 64).sum) 64 := by
  obtain ⟨wf, rfl⟩ := (decode_ok_iff b p).1 h
  rcases wf.form with sf | lf
  · exact absurd sf.len hl
  · have : (fields b).waveform.take 64 = (List.range 64).map (sampleF b) := by
      simp only [fields, hl, if_false]
      rw [← List.map_take, List.take_range, Nat.min_eq_left lf.minSamples]
    rw [this]; exact lf.baseline

attribute [local irreducible] needBytes need supp keepBit keepLast wave dataBaseline suppBaseline
  findBoard lastIndex maxSamples macAt shortPacket longPacket in
/-- C01/C02 (totality): no byte string makes the ADC decoder panic: every slice index,
`try_into().unwrap()`, `usize`/`u8` subtraction and the `i32` baseline sum is safe. -/
theorem adc_total (b : List UInt8) : NoPanic (decode b) := by
  unfold decode
  apply noPanic_ite_err; intro hlen
  have hs := sumFits_wave b
  have hd := dataBaseline_bounds b
  repeat (first
    | exact noPanic_ok _
    | exact noPanic_err _
    | apply noPanic_needBytes (by omega)
    | apply noPanic_need hs
    | apply noPanic_need (by simp only [decide_eq_true_eq]; omega)
    | (apply noPanic_ite_needBytes_err (by omega); intro _)
    | (apply noPanic_ite_need_err (fun _ => by simp only [decide_eq_true_eq]; omega); intro _)
    | (apply noPanic_ite_err; intro _)
    | (apply noPanic_ite <;> intro _))

theorem adcPacket_total (b : List UInt8) : NoPanic (decodeAdcPacket b) := adc_total b

/-- Intermediate `usize` values stay far below `2^64` for every slice a Rust program can hold
(`len ≤ isize::MAX`), so overflow-checked and unchecked builds compute the same thing: the
additions that only feed error payloads (`waveform_bytes + 36`, `+ 37`, `last_index + 1`) and
the `last_index` product. Subtractions are covered by `adc_total`. -/
theorem adc_no_overflow (b : List UInt8) (h : b.length < 2 ^ 63) :
    b.length - 36 + 37 < 2 ^ 64 ∧ (keepLast b - 1) * 2 < 2 ^ 64 ∧ lastIndex b + 1 < 2 ^ 64 := by
  have hk : keepLast b < 4096 := by rw [keepLast_eq]; unfold keepLastF; omega
  unfold lastIndex
  omega

/-! ### Totality of the id conversions (C01) -/

theorem moduleId_total (n : Nat) : NoPanic (moduleIdFromU8 n) := by
  unfold moduleIdFromU8; split
  · exact noPanic_err _
  · exact noPanic_ok _
theorem adc16_total (n : Nat) : NoPanic (adc16FromU8 n) := by
  unfold adc16FromU8; split
  · exact noPanic_err _
  · exact noPanic_ok _
theorem adc32_total (n : Nat) : NoPanic (adc32FromU8 n) := by
  unfold adc32FromU8; split
  · exact noPanic_err _
  · exact noPanic_ok _
theorem boardFromMac_total (mac : List Nat) : NoPanic (boardFromMac mac) := by
  unfold boardFromMac; split
  · exact noPanic_ok _
  · exact noPanic_err _
theorem boardFromName_total (name : String) : NoPanic (boardFromName name) := by
  unfold boardFromName; split
  · exact noPanic_ok _
  · exact noPanic_err _

/-- The id conversions accept exactly the documented ranges and keep the value. -/
theorem moduleId_ok_iff (n m : Nat) : moduleIdFromU8 n = .ok m ↔ n ≤ 7 ∧ m = n := by
  unfold moduleIdFromU8; split <;> simp <;> omega
theorem adc16_ok_iff (n m : Nat) : adc16FromU8 n = .ok m ↔ n ≤ 15 ∧ m = n := by
  unfold adc16FromU8; split <;> simp <;> omega
theorem adc32_ok_iff (n m : Nat) : adc32FromU8 n = .ok m ↔ n ≤ 31 ∧ m = n := by
  unfold adc32FromU8; split <;> simp <;> omega
/-- A board is found from a MAC iff the MAC is in the table; the board found carries it. -/
theorem boardFromMac_ok_iff (mac : List Nat) :
    (∃ p, boardFromMac mac = .ok p) ↔ mac ∈ knownMacs := by
  have h := findBoard_isNone mac
  unfold boardFromMac
  cases hf : findBoard mac with
  | none => simp [hf] at h ⊢; exact h
  | some p => simp [hf] at h ⊢; exact h
theorem boardFromMac_mac (mac : List Nat) (p : String × List Nat)
    (h : boardFromMac mac = .ok p) : p.2 = mac ∧ p ∈ alpha16Boards := by
  unfold boardFromMac at h
  cases hf : findBoard mac with
  | none => simp [hf] at h
  | some q =>
    simp [hf] at h; subst h
    exact ⟨by simpa using List.find?_some hf, List.mem_of_find?_eq_some hf⟩

/-! ### Round trip -/

theorem channelByte_chan (b : List UInt8) (hch : byteAt b 5 ≤ 15 ∨ 128 ≤ byteAt b 5) :
    channelByte (chan b) = byteAt b 5 := by
  have := hch
  unfold chan
  split
  · rfl
  · simp only [channelByte]; omega

/-- The footer word rebuilt from `keep_last`, `keep_bit`, `suppression_enabled` is the wire
footer without its two unused top bits. -/
theorem footerWord_eq (b : List UInt8) (p : Packet) (h1 : p.keepLast = keepLast b)
    (h2 : p.keepBit = keepBit b) (h3 : p.suppressionEnabled = supp b) :
    footerWord p = footerF b % 2 ^ 14 := by
  unfold footerWord
  rw [h1, h2, h3, keepLast_eq, keepBit_eq, supp_eq]
  unfold keepLastF keepBitF suppF
  by_cases hk : footerF b / 2 ^ 12 % 2 = 1 <;> by_cases hs : footerF b / 2 ^ 13 % 2 = 1 <;>
    simp only [hk, hs, decide_true, decide_false, if_true, if_false, Bool.false_eq_true] <;> omega

theorem encodeFooter_eq (b : List UInt8) (p : Packet) (h4 : 4 ≤ b.length)
    (h1 : p.keepLast = keepLast b) (h2 : p.keepBit = keepBit b)
    (h3 : p.suppressionEnabled = supp b) (h5 : p.suppressionBaseline = suppBaseline b) :
    encodeFooter p = [UInt8.ofNat (byteAt b (b.length - 4) % 64)] ++ b.drop (b.length - 3) := by
  unfold encodeFooter
  rw [footerWord_eq b p h1 h2 h3, h5, suppBaseline, ofSigned_toSigned16 _ (beAt_lt b _ 2),
    beBytes_beAt b (b.length - 2) 2 (by omega), beBytes_two]
  have hb0 := byteAt_lt b (b.length - 4)
  have hb1 := byteAt_lt b (b.length - 4 + 1)
  have e0 : footerF b % 2 ^ 14 / 256 % 256 = byteAt b (b.length - 4) % 64 := by
    unfold footerF; rw [beAt_two]; omega
  have e1 : footerF b % 2 ^ 14 % 256 = byteAt b (b.length - 3) := by
    unfold footerF; rw [beAt_two, show b.length - 4 + 1 = b.length - 3 by omega]
    have := byteAt_lt b (b.length - 3); omega
  rw [e0, e1, drop_split' b (b.length - 3) 1 (b.length - 2) (by omega),
    ← byte_take b (b.length - 3) (by omega),
    drop_split' b (b.length - 2) 2 b.length (by omega), List.drop_length]
  simp [List.take_take]

theorem lit1 : (1 : UInt8) = UInt8.ofNat 1 := rfl
theorem lit3 : (3 : UInt8) = UInt8.ofNat 3 := rfl

theorem encode_short (b : List UInt8) (hl : b.length = 16) (t1 : byteAt b 0 = 1)
    (v3 : byteAt b 1 = 3) (hch : byteAt b 5 ≤ 15 ∨ 128 ≤ byteAt b 5) :
    encode (shortPacket b) = clearFooterBits b := by
  have hts : beAt b 8 4 % 4294967296 = beAt b 8 4 := Nat.mod_eq_of_lt (beAt_lt b 8 4)
  have hf := encodeFooter_eq b (shortPacket b) (by omega) rfl rfl rfl rfl
  have hA : b.take (b.length - 4) = [] ++ (b.drop 0).take 1 ++ (b.drop 1).take 1
      ++ (b.drop 2).take 2 ++ (b.drop 4).take 1 ++ (b.drop 5).take 1 ++ (b.drop 6).take 2
      ++ (b.drop 8).take 4 := by
    rw [← List.take_zero (l := b), take_append_piece b 0 1 1 rfl, take_append_piece b 1 1 2 rfl,
      take_append_piece b 2 2 4 rfl, take_append_piece b 4 1 5 rfl, take_append_piece b 5 1 6 rfl,
      take_append_piece b 6 2 8 rfl, take_append_piece b 8 4 (b.length - 4) (by omega)]
  unfold clearFooterBits
  rw [List.append_assoc, ← hf, hA]
  unfold encode
  simp only [shortPacket, hts, channelByte_chan b hch]
  rw [← byte_take b 0 (by omega), ← byte_take b 1 (by omega), ← byte_take b 4 (by omega),
    ← byte_take b 5 (by omega), ← beBytes_beAt b 2 2 (by omega), ← beBytes_beAt b 6 2 (by omega),
    ← beBytes_beAt b 8 4 (by omega), t1, v3]
  simp only [List.append_assoc, List.nil_append, List.cons_append, lit1, lit3]

theorem mac_bytes (b : List UInt8) (h : 20 ≤ b.length) :
    (macAt b).map UInt8.ofNat = (b.drop 14).take 6 := by
  rw [macAt_eq, macF, List.map_map, ← bytes_take b 6 14 (by omega)]
  rfl

theorem encode_unfold (p : Packet) (board : String × List Nat) (h : p.boardId = some board) :
    encode p = [1, 3] ++ beBytes p.acceptedTrigger 2 ++ [UInt8.ofNat p.moduleId]
      ++ [UInt8.ofNat (channelByte p.channelId)] ++ beBytes p.requestedSamples 2
      ++ beBytes (p.eventTimestamp % 4294967296) 4
      ++ (beBytes 0 2 ++ board.2.map UInt8.ofNat ++ beBytes (p.eventTimestamp / 4294967296) 4
        ++ beBytes (ofSigned 32 (p.triggerOffset.getD 0)) 4 ++ beBytes (p.buildTimestamp.getD 0) 4
        ++ encodeSamples p.waveform ++ encodeFooter p) := by
  unfold encode
  rw [h]

theorem encode_long (b : List UInt8) (h36 : 36 ≤ b.length) (heven : (b.length - 36) % 2 = 0)
    (t1 : byteAt b 0 = 1) (v3 : byteAt b 1 = 3) (hch : byteAt b 5 ≤ 15 ∨ 128 ≤ byteAt b 5)
    (z : beAt b 12 2 = 0) (hmac : macF b ∈ knownMacs) :
    encode (longPacket b) = clearFooterBits b := by
  have h8 := beAt_lt b 8 4
  have h20 := beAt_lt b 20 4
  have hts : (beAt b 20 4 * 4294967296 + beAt b 8 4) % 4294967296 = beAt b 8 4 := by omega
  have hts2 : (beAt b 20 4 * 4294967296 + beAt b 8 4) / 4294967296 = beAt b 20 4 := by omega
  have hf := encodeFooter_eq b (longPacket b) (by omega) rfl rfl rfl rfl
  have hsome : (findBoard (macAt b)).isNone ≠ true := by
    rw [Ne, findBoard_isNone, macAt_eq]; exact fun h => h hmac
  cases hfb : findBoard (macAt b) with
  | none => rw [hfb] at hsome; exact absurd rfl hsome
  | some board =>
    have hb2 : board.2 = macAt b := by
      have := List.find?_some hfb
      simpa using this
    have hw : encodeSamples (wave b) = (b.drop 32).take (b.length - 36) := by
      unfold wave
      apply encodeSamples_i16s
      rw [List.length_take, List.length_drop]
      omega
    have hA : b.take (b.length - 4) = [] ++ (b.drop 0).take 1 ++ (b.drop 1).take 1
        ++ (b.drop 2).take 2 ++ (b.drop 4).take 1 ++ (b.drop 5).take 1 ++ (b.drop 6).take 2
        ++ (b.drop 8).take 4 ++ (b.drop 12).take 2 ++ (b.drop 14).take 6 ++ (b.drop 20).take 4
        ++ (b.drop 24).take 4 ++ (b.drop 28).take 4 ++ (b.drop 32).take (b.length - 36) := by
      rw [← List.take_zero (l := b), take_append_piece b 0 1 1 rfl,
        take_append_piece b 1 1 2 rfl, take_append_piece b 2 2 4 rfl,
        take_append_piece b 4 1 5 rfl, take_append_piece b 5 1 6 rfl,
        take_append_piece b 6 2 8 rfl, take_append_piece b 8 4 12 rfl,
        take_append_piece b 12 2 14 rfl, take_append_piece b 14 6 20 rfl,
        take_append_piece b 20 4 24 rfl, take_append_piece b 24 4 28 rfl,
        take_append_piece b 28 4 32 rfl,
        take_append_piece b 32 (b.length - 36) (b.length - 4) (by omega)]
    unfold clearFooterBits
    rw [List.append_assoc, ← hf, hA, encode_unfold (longPacket b) board hfb]
    have p1 : (longPacket b).acceptedTrigger = beAt b 2 2 := rfl
    have p2 : (longPacket b).moduleId = byteAt b 4 := rfl
    have p3 : (longPacket b).channelId = chan b := rfl
    have p4 : (longPacket b).requestedSamples = beAt b 6 2 := rfl
    have p5 : (longPacket b).eventTimestamp = beAt b 20 4 * 4294967296 + beAt b 8 4 := rfl
    have p6 : (longPacket b).triggerOffset = some (toSigned 32 (beAt b 24 4)) := rfl
    have p7 : (longPacket b).buildTimestamp = some (beAt b 28 4) := rfl
    have p8 : (longPacket b).waveform = wave b := rfl
    rw [p1, p2, p3, p4, p5, p6, p7, p8, hts, hts2, channelByte_chan b hch, Option.getD_some,
      Option.getD_some, hb2, mac_bytes b (by omega), ofSigned_toSigned32 _ (beAt_lt b 24 4)]
    rw [← byte_take b 0 (by omega), ← byte_take b 1 (by omega), ← byte_take b 4 (by omega),
      ← byte_take b 5 (by omega), ← beBytes_beAt b 2 2 (by omega),
      ← beBytes_beAt b 6 2 (by omega), ← beBytes_beAt b 8 4 (by omega),
      ← beBytes_beAt b 12 2 (by omega), ← beBytes_beAt b 20 4 (by omega),
      ← beBytes_beAt b 24 4 (by omega), ← beBytes_beAt b 28 4 (by omega), t1, v3, z]
    rw [hw]
    simp only [List.append_assoc, List.nil_append, List.cons_append, lit1, lit3]

/-- C02 (round trip): re-encoding the accessor values of an accepted packet reproduces the
input byte for byte, apart from the two unused footer bits 14 and 15. -/
theorem adc_roundtrip (b : List UInt8) (p : Packet) (h : decode b = .ok p) :
    encode p = clearFooterBits b := by
  obtain ⟨wf, rfl⟩ := (decode_ok_iff b p).1 h
  have hch : byteAt b 5 ≤ 15 ∨ 128 ≤ byteAt b 5 := by have := wf.channel; omega
  rcases wf.form with sf | lf
  · rw [← shortPacket_eq_fields b sf.len hch]
    exact encode_short b sf.len wf.type1 wf.version3 hch
  · rw [← longPacket_eq_fields b lf.len lf.even hch]
    exact encode_long b lf.len lf.even wf.type1 wf.version3 hch
      ((beAt12_zero b).2 ⟨lf.zero12, lf.zero13⟩) lf.mac

/-- When the unused bits are clear the round trip is exact. -/
theorem adc_roundtrip_exact (b : List UInt8) (p : Packet) (h : decode b = .ok p)
    (hu : byteAt b (b.length - 4) < 64) : encode p = b := by
  have h16 : 16 ≤ b.length := ((decode_ok_iff b p).1 h).1.minLen
  rw [adc_roundtrip b p h, clearFooterBits, Nat.mod_eq_of_lt hu,
    byte_take b (b.length - 4) (by omega), take_append_piece b (b.length - 4) 1 (b.length - 3)
      (by omega), List.take_append_drop]

/-- Two byte strings that decode to the same packet differ at most in the two unused bits:
decoding loses no other information. -/
theorem adc_decode_injective (b c : List UInt8) (p : Packet) (hb : decode b = .ok p)
    (hc : decode c = .ok p) : clearFooterBits b = clearFooterBits c := by
  rw [← adc_roundtrip b p hb, ← adc_roundtrip c p hc]

/-
NOT PROVED at full strength (DESIGN.md lists it, the task marks it optional): the converse

  theorem adc_encode_decode (p : Packet) (h : WfPacket p) : decode (encode p) = .ok p

(`WfPacket`: every field in its wire range, short form ⇔ no board id, long form with a board of
the table, ≥ 64 in-range samples, baseline = floor mean, the flag ladder and the count rule).
Proved below: `adc_encode_decode_partial`, the statement for packets of the 16-byte form
(`WfShortPacket`). Missing for the full statement: the long form, i.e. reading every field back
out of `encode p` through the variable-length sample block (append re-associations, a case
split over the MAC table, `i16s (encodeSamples w) = w`). Also proved in this direction:
`adc_decode_injective` (decoding loses only the two unused bits). The harness covers the long
form by sampling: every packet of the `valid-*` builders is `encode f` of a well-formed field
tuple and must be accepted with accessors that re-encode to the same bytes.
-/

/-- Shape of a packet that is encoded in the 16-byte form. -/
structure WfShortPacket (p : Packet) : Prop where
  trig : p.acceptedTrigger < 65536
  module : p.moduleId ≤ 7
  chan : (∃ n, p.channelId = .a16 n ∧ n ≤ 15) ∨ (∃ n, p.channelId = .a32 n ∧ n ≤ 31)
  req : p.requestedSamples < 65536
  ts : p.eventTimestamp < 4294967296
  board : p.boardId = none
  trigOff : p.triggerOffset = none
  build : p.buildTimestamp = none
  wave : p.waveform = []
  baseline : -32768 ≤ p.suppressionBaseline ∧ p.suppressionBaseline ≤ 32767
  keepLast : p.keepLast = 0
  keepBit : p.keepBit = false
  supp : p.suppressionEnabled = true

/-- C02 (converse round trip, short form only — see the comment above). -/
theorem adc_encode_decode_partial (p : Packet) (h : WfShortPacket p) : decode (encode p) = .ok p := by
  obtain ⟨h1, h2, h3, h4, h5, h6, h7, h8, h9, h10, h11, h12, h13⟩ := h
  rw [decode_ok_iff]
  cases p with
  | mk trig module chan req ts board trigOff build wave baseline keepLast keepBit supp =>
  simp only at h1 h2 h3 h4 h5 h6 h7 h8 h9 h10 h11 h12 h13
  subst h6 h7 h8 h9 h11 h12 h13
  have ho := ofSigned16_lt baseline
  have hso := toSigned_ofSigned16 baseline h10
  have hb : encode { acceptedTrigger := trig, moduleId := module, channelId := chan, requestedSamples := req, eventTimestamp := ts, boardId := none, triggerOffset := none, buildTimestamp := none, waveform := [], suppressionBaseline := baseline, keepLast := 0, keepBit := false, suppressionEnabled := true }
      = [1, 3, UInt8.ofNat (trig / 256 % 256), UInt8.ofNat (trig % 256), UInt8.ofNat module, UInt8.ofNat (channelByte chan), UInt8.ofNat (req / 256 % 256), UInt8.ofNat (req % 256), UInt8.ofNat (ts % 4294967296 / 256 / 256 / 256 % 256), UInt8.ofNat (ts % 4294967296 / 256 / 256 % 256), UInt8.ofNat (ts % 4294967296 / 256 % 256), UInt8.ofNat (ts % 4294967296 % 256), 32, 0, UInt8.ofNat (ofSigned 16 baseline / 256 % 256), UInt8.ofNat (ofSigned 16 baseline % 256)] := by
    simp [encode, encodeFooter, footerWord, beBytes, leBytes]
  rw [hb]
  generalize ofSigned 16 baseline = o at *
  have hc : channelByte chan ≤ 15 ∨ (128 ≤ channelByte chan ∧ channelByte chan ≤ 159) := by
    rcases h3 with ⟨n, rfl, hn⟩ | ⟨n, rfl, hn⟩ <;> simp only [channelByte] <;> omega
  refine ⟨⟨by simp, by simp [byteAt], by simp [byteAt], ?_, ?_, .inl ⟨by simp, ?_, ?_, ?_⟩⟩, ?_⟩
  · simp [byteAt]; omega
  · simp [byteAt]; omega
  · simp [suppF, footerF, beAt, byteAt]
  · simp [keepBitF, footerF, beAt, byteAt]
  · simp [keepLastF, footerF, beAt, byteAt]
  · simp [fields, baselineF, keepLastF, keepBitF, suppF, footerF, beAt, byteAt]
    have eo : o / 256 % 256 * 256 + o % 256 = o := by omega
    rw [eo, hso]
    refine ⟨by omega, by omega, ?_, by omega, by omega, rfl⟩
    rcases h3 with ⟨n, rfl, hn⟩ | ⟨n, rfl, hn⟩
    · simp only [channelByte, Nat.mod_eq_of_lt (by omega : n < 256), if_pos hn]
    · have e : (128 + n) % 256 = 128 + n := Nat.mod_eq_of_lt (by omega)
      have hne : ¬ 128 + n ≤ 15 := by omega
      have e2 : 128 + n - 128 = n := by omega
      simp only [channelByte, e, hne, if_false, e2]


/-- Non-vacuity of `adc_encode_decode_partial`. -/
example : WfShortPacket
    { acceptedTrigger := 4, moduleId := 5, channelId := .a16 6, requestedSamples := 699,
      eventTimestamp := 7, boardId := none, triggerOffset := none, buildTimestamp := none,
      waveform := [], suppressionBaseline := -3, keepLast := 0, keepBit := false,
      suppressionEnabled := true } :=
  ⟨by decide, by decide, .inl ⟨6, rfl, by decide⟩, by decide, by decide, rfl, rfl, rfl, rfl,
    by decide, rfl, rfl, rfl⟩

/-! ### Non-vacuity -/

/-- The 16-byte packet of the crate's documentation examples (footer `0xE000`: suppression on,
both unused bits set). -/
def exampleShort : List UInt8 := [1, 3, 0, 4, 5, 6, 2, 187, 0, 0, 0, 7, 224, 0, 0, 0]

/-- 64 samples (ten of them -3, so the sum is negative and the floor is -1), suppression off. -/
def exampleLong : List UInt8 :=
  [1, 3, 0, 4, 5, 6, 0, 66, 0, 0, 0, 7, 0, 0, 216, 128, 57, 104, 55, 76, 0, 0, 0, 1, 255, 255, 255, 254, 0, 0, 0, 9, 255, 253, 255, 253, 255, 253, 255, 253, 255, 253, 255, 253, 255, 253, 255, 253, 255, 253, 255, 253, 0, 0, 0, 0, 0, 0, 0, 0, 0, 0, 0, 0, 0, 0, 0, 0, 0, 0, 0, 0, 0, 0, 0, 0, 0, 0, 0, 0, 0, 0, 0, 0, 0, 0, 0, 0, 0, 0, 0, 0, 0, 0, 0, 0, 0, 0, 0, 0, 0, 0, 0, 0, 0, 0, 0, 0, 0, 0, 0, 0, 0, 0, 0, 0, 0, 0, 0, 0, 0, 0, 0, 0, 0, 0, 0, 0, 0, 0, 0, 0, 0, 0, 0, 0, 0, 0, 0, 0, 0, 0, 0, 0, 0, 0, 0, 0, 0, 0, 0, 0, 0, 0, 0, 0, 0, 0, 0, 0, 0, 0, 255, 255]

/-- 66 samples at the `i16` extremes, suppression on, keep bit set, `keep_last` 34 (index 64),
both unused footer bits set, requested 70. -/
def exampleLongSupp : List UInt8 :=
  [1, 3, 0, 4, 5, 133, 0, 70, 0, 0, 0, 7, 0, 0, 216, 128, 57, 104, 55, 76, 0, 0, 0, 1, 255, 255, 255, 254, 0, 0, 0, 9, 127, 255, 128, 0, 127, 255, 128, 0, 127, 255, 0, 100, 127, 255, 128, 0, 127, 255, 128, 0, 127, 255, 128, 0, 127, 255, 128, 0, 127, 255, 128, 0, 127, 255, 128, 0, 127, 255, 128, 0, 127, 255, 128, 0, 127, 255, 128, 0, 127, 255, 128, 0, 127, 255, 128, 0, 127, 255, 128, 0, 127, 255, 128, 0, 127, 255, 128, 0, 127, 255, 128, 0, 127, 255, 128, 0, 127, 255, 128, 0, 127, 255, 128, 0, 127, 255, 128, 0, 127, 255, 128, 0, 127, 255, 128, 0, 127, 255, 128, 0, 127, 255, 128, 0, 127, 255, 128, 0, 127, 255, 128, 0, 127, 255, 128, 0, 127, 255, 128, 0, 127, 255, 128, 0, 127, 255, 128, 0, 127, 255, 128, 0, 240, 34, 2, 1]

example : (decode exampleShort).isOk = true := by decide
example : (decode exampleLong).isOk = true := by decide +kernel
example : decode exampleLongSupp = .ok (fields exampleLongSupp) := by decide +kernel
example : AdcWellFormed exampleShort := (adc_accept_iff _).1 ⟨fields exampleShort, by decide +kernel⟩
example : AdcWellFormed exampleLong := (adc_accept_iff _).1 ⟨fields exampleLong, by decide +kernel⟩
example : (fields exampleLong).suppressionBaseline = -1 := by decide +kernel
example : (fields exampleLongSupp).keepLast = 34 ∧ (fields exampleLongSupp).waveform.length = 66
    ∧ (fields exampleLongSupp).suppressionBaseline = 513 := by decide +kernel
example : encode (fields exampleLongSupp) = clearFooterBits exampleLongSupp := by decide +kernel
example : encode (fields exampleLongSupp) ≠ exampleLongSupp := by decide +kernel
/-- flipping one sample bit, one MAC bit or the requested count breaks acceptance -/
example : decode (exampleLong.set 32 (0x7F : UInt8)) = .err .baselineMismatch := by decide +kernel
example : decode (exampleLong.set 19 (0x4d : UInt8)) = .err .unknownMac := by decide +kernel
example : decode (exampleLong.set 7 (67 : UInt8)) = .err .badNumberOfSamples := by decide +kernel
example : decode (exampleLong.set 7 (1 : UInt8) |>.set 6 0) = .err .badNumberOfSamples := by
  decide +kernel

end AlphaG.Adc
