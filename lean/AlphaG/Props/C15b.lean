import AlphaG.Props.C15
import AlphaG.Model.Hough
import AlphaG.Driver.C15b
/-
C15b — the concrete ingredients of `cluster_spacepoints`: `get_bins`, `SpacePoint::distance`,
`SpacePoint ==` (Model/Hough.lean), and the C15 theorems instantiated to them.

Part 1 holds for **every** carrier and every operation table, in fact for every sequence of
rho bins (`getBinsSeq`): no law of arithmetic is used.
  * `getBins_no_panic`   — the `try_into().unwrap()` of `get_bins` is unreachable;
  * `getBins_mem_iff`    — which bins are listed (specification of the vote of one theta step);
  * `getBins_nodup`      — no bin is listed twice;
  * `getBins_bounds`     — `theta < theta_bins`.
Part 2 states exactly what is needed of the carrier for the two remaining hypotheses of C15:
  * `getBins_respects_eq` — under `EqCompat o E` (a relation `E` containing `==` that the
    operations respect — **only** in the numerator for `/`, which is what IEEE offers);
  * `distance_symm`, `near_symm` — under `SubSqSymm o` (`(a-b)² = (b-a)²`), which holds in every
    commutative ring (`subSqSymm_of_commRing`).
Part 3: `ctxOf_good` and the corollaries `cluster_*_concrete`, with non-vacuity examples on a
fixed-point integer carrier; Part 4: the driver's renaming of bin codes is injective.

What is *not* proved: that `Float` satisfies `EqCompat`/`SubSqSymm`/`BeqPER` (`Float` is opaque
in Lean). Analysis for IEEE binary64, `E a b := same bits ∨ both zero ∨ both NaN`: every field
holds (`x / ±0` is the one operation that does not respect `==`, and `get_bins` divides only by
`r * r`, which is `+0` for both zeros, and by the constant `delta_rho`); `SubSqSymm` holds bit for
bit except for the payload of a NaN result, and `near` is symmetric without exception because
`NaN <= max` is false both ways. The harness samples all of this on `f64` and on Lean's `Float`
(`eqlaws`, `dist`, `bins-twins`).
-/
namespace AlphaG.Hough
open AlphaG AlphaG.Cluster

/-! ## Part 1: `get_bins` for an arbitrary sequence of rho bins -/

theorem mem_rangeIncl {lo hi x : Int} : x ∈ rangeIncl lo hi ↔ lo ≤ x ∧ x ≤ hi := by
  unfold rangeIncl
  simp only [List.mem_map, List.mem_range]
  constructor
  · rintro ⟨i, hi', rfl⟩
    omega
  · intro h
    exact ⟨(x - lo).toNat, by omega, by omega⟩

theorem rangeIncl_nodup (lo hi : Int) : (rangeIncl lo hi).Nodup := by
  unfold rangeIncl List.Nodup
  rw [List.pairwise_map]
  exact List.Pairwise.imp (fun {a b} (h : a ≠ b) => by omega) List.nodup_range

/-- The pushes of one range never panic when the range is non-negative. -/
theorem pushBins_ok (t : Nat) (l : List Int) (h : ∀ b ∈ l, 0 ≤ b) :
    pushBins t l = .ok (l.map (fun b => (t, b.toNat))) := by
  induction l with
  | nil => rfl
  | cons b bs ih =>
    have hb : ¬ b < 0 := by have := h b (by simp); omega
    have := ih (fun x hx => h x (by simp [hx]))
    simp [pushBins, hb, this]

/-- The votes of one theta step as a list (what `stepBins` returns). -/
def stepList (t : Nat) (prev cur : Int) : List (Nat × Nat) :=
  if 0 ≤ cur ∨ 0 ≤ prev then
    (rangeIncl (max (min prev cur) 0) (max prev cur)).map (fun b => (t, b.toNat))
  else []

theorem stepBins_eq (t : Nat) (prev cur : Int) : stepBins t prev cur = .ok (stepList t prev cur) := by
  unfold stepBins stepList
  by_cases h : 0 ≤ cur ∨ 0 ≤ prev
  · have hc : (!(decide (cur < 0)) || !(decide (prev < 0))) = true := by
      rcases h with h | h
      · have : ¬ cur < 0 := by omega
        simp [this]
      · have : ¬ prev < 0 := by omega
        simp [this]
    rw [if_pos hc, if_pos h]
    apply pushBins_ok
    intro b hb
    have := (mem_rangeIncl.1 hb).1
    omega
  · have hc : ¬ (!(decide (cur < 0)) || !(decide (prev < 0))) = true := by
      have h1 : cur < 0 := by omega
      have h2 : prev < 0 := by omega
      simp [h1, h2]
    rw [if_neg hc, if_neg h]

theorem mem_stepList {t : Nat} {prev cur : Int} {x : Nat × Nat} :
    x ∈ stepList t prev cur ↔
      x.1 = t ∧ (0 ≤ cur ∨ 0 ≤ prev) ∧ min prev cur ≤ (x.2 : Int) ∧ (x.2 : Int) ≤ max prev cur := by
  unfold stepList
  by_cases h : 0 ≤ cur ∨ 0 ≤ prev
  · rw [if_pos h]
    simp only [List.mem_map, mem_rangeIncl]
    constructor
    · rintro ⟨b, ⟨h1, h2⟩, rfl⟩
      refine ⟨rfl, h, ?_, ?_⟩ <;> simp only <;> omega
    · rintro ⟨h1, _, h2, h3⟩
      refine ⟨(x.2 : Int), ⟨by omega, h3⟩, ?_⟩
      cases x
      simp only at h1
      subst h1
      simp
  · rw [if_neg h]
    simp [h]

theorem stepList_nodup (t : Nat) (prev cur : Int) : (stepList t prev cur).Nodup := by
  unfold stepList
  split
  · unfold List.Nodup
    rw [List.pairwise_map]
    have hnd := rangeIncl_nodup (max (min prev cur) 0) (max prev cur)
    unfold List.Nodup at hnd
    rw [List.pairwise_iff_forall_sublist] at hnd ⊢
    intro a b hab
    have hne := hnd hab
    have ha := (mem_rangeIncl.1 (hab.subset (by simp : a ∈ [a, b]))).1
    have hb := (mem_rangeIncl.1 (hab.subset (by simp : b ∈ [a, b]))).1
    intro heq
    simp only [Prod.mk.injEq, true_and] at heq
    omega
  · exact List.nodup_nil

/-- All votes of the iterations `theta_bin = k, k+1, …, k+n-1`. -/
def loopList (rb : Nat → Int) : Nat → Nat → Int → List (Nat × Nat)
  | 0, _, _ => []
  | n + 1, k, prev => stepList (k - 1) prev (rb k) ++ loopList rb n (k + 1) (rb k)

theorem loopBins_eq (rb : Nat → Int) (n k : Nat) (prev : Int) :
    loopBins rb n k prev = .ok (loopList rb n k prev) := by
  induction n generalizing k prev with
  | zero => rfl
  | succ n ih => simp [loopBins, loopList, stepBins_eq, ih]

/-- The `prev_rho_bin` seen by iteration `theta_bin = j` of a loop started at `k` with `prev`. -/
def prevAt (rb : Nat → Int) (k : Nat) (prev : Int) (j : Nat) : Int :=
  if j = k then prev else rb (j - 1)

theorem prevAt_self (rb : Nat → Int) (k : Nat) (prev : Int) : prevAt rb k prev k = prev := by
  simp [prevAt]

theorem prevAt_succ (rb : Nat → Int) (k : Nat) (prev : Int) {j : Nat} (hj : j ≠ k) :
    prevAt rb (k + 1) (rb k) j = prevAt rb k prev j := by
  unfold prevAt
  by_cases h : j = k + 1
  · subst h
    simp
  · simp [h, hj]

theorem mem_loopList {rb : Nat → Int} {n k : Nat} {prev : Int} (hk : 1 ≤ k) {x : Nat × Nat} :
    x ∈ loopList rb n k prev ↔
      k ≤ x.1 + 1 ∧ x.1 + 1 < k + n ∧
      (0 ≤ rb (x.1 + 1) ∨ 0 ≤ prevAt rb k prev (x.1 + 1)) ∧
      min (prevAt rb k prev (x.1 + 1)) (rb (x.1 + 1)) ≤ (x.2 : Int) ∧
      (x.2 : Int) ≤ max (prevAt rb k prev (x.1 + 1)) (rb (x.1 + 1)) := by
  induction n generalizing k prev with
  | zero =>
    simp only [loopList, List.not_mem_nil, false_iff]
    omega
  | succ n ih =>
    simp only [loopList, List.mem_append, mem_stepList, ih (k := k + 1) (prev := rb k) (by omega)]
    constructor
    · rintro (⟨h1, h2, h3, h4⟩ | ⟨h1, h2, h3⟩)
      · have hx : x.1 + 1 = k := by omega
        rw [hx, prevAt_self]
        exact ⟨by omega, by omega, h2, h3, h4⟩
      · have hx : x.1 + 1 ≠ k := by omega
        rw [prevAt_succ rb k prev hx] at h3
        exact ⟨by omega, by omega, h3⟩
    · rintro ⟨h1, h2, h3⟩
      by_cases hx : x.1 + 1 = k
      · left
        rw [hx, prevAt_self] at h3
        exact ⟨by omega, h3⟩
      · right
        rw [prevAt_succ rb k prev hx]
        exact ⟨by omega, by omega, h3⟩

theorem loopList_nodup (rb : Nat → Int) (n k : Nat) (prev : Int) (hk : 1 ≤ k) :
    (loopList rb n k prev).Nodup := by
  induction n generalizing k prev with
  | zero => exact List.nodup_nil
  | succ n ih =>
    simp only [loopList]
    rw [List.nodup_append]
    refine ⟨stepList_nodup _ _ _, ih (k + 1) (rb k) (by omega), ?_⟩
    intro a ha b hb hab
    subst hab
    have h1 := (mem_stepList.1 ha).1
    have h2 := (mem_loopList (k := k + 1) (by omega)).1 hb
    omega

/-- **(b)** `getBins_no_panic`, for every rho-bin sequence: `get_bins` returns — the
`bin.try_into().unwrap()` cannot fire because the range starts at `min_bin.max(0)`. -/
theorem getBinsSeq_ok (rb0 : Int) (rb : Nat → Int) (thetaBins : Nat) :
    getBinsSeq rb0 rb thetaBins = .ok (loopList rb thetaBins 1 rb0) :=
  loopBins_eq rb thetaBins 1 rb0

/-- The bins of a point as a list (no `Outcome`). -/
def binsList {α : Type} (o : Ops α) (p : Point α) (rhoBins thetaBins : Nat) : List (Nat × Nat) :=
  loopList (rhoBinAt o p rhoBins thetaBins) thetaBins 1 (rhoBin0 o p rhoBins)

variable {α : Type} (o : Ops α)

/-- **(b)** `getBins_no_panic`: for every carrier, every operation table, every point
(NaN, infinities included — they only influence the value of `floorI32`) and all bin counts,
`get_bins` returns; the `try_into().unwrap()` guard is unreachable. -/
theorem getBins_no_panic (p : Point α) (rhoBins thetaBins : Nat) :
    getBins o p rhoBins thetaBins = .ok (binsList o p rhoBins thetaBins) :=
  getBinsSeq_ok _ _ _

/-- Specification of the votes: the bin `(t, b)` is listed iff `t < theta_bins`, not both the
rho bin of this step (`theta_bin = t+1`) and the previous one (`theta_bin = t`, or the one from
`u` alone for `t = 0`) are negative, and `b` lies between the two (so `b ≥ 0` only clips). -/
theorem getBins_mem_iff (p : Point α) (rhoBins thetaBins : Nat) (t b : Nat) :
    (t, b) ∈ binsList o p rhoBins thetaBins ↔
      t < thetaBins ∧
      (0 ≤ rhoBinAt o p rhoBins thetaBins (t + 1) ∨
        0 ≤ (if t = 0 then rhoBin0 o p rhoBins else rhoBinAt o p rhoBins thetaBins t)) ∧
      min (if t = 0 then rhoBin0 o p rhoBins else rhoBinAt o p rhoBins thetaBins t)
          (rhoBinAt o p rhoBins thetaBins (t + 1)) ≤ (b : Int) ∧
      (b : Int) ≤ max (if t = 0 then rhoBin0 o p rhoBins else rhoBinAt o p rhoBins thetaBins t)
          (rhoBinAt o p rhoBins thetaBins (t + 1)) := by
  unfold binsList
  rw [mem_loopList (by omega)]
  have e : prevAt (rhoBinAt o p rhoBins thetaBins) 1 (rhoBin0 o p rhoBins) (t + 1) =
      (if t = 0 then rhoBin0 o p rhoBins else rhoBinAt o p rhoBins thetaBins t) := by
    unfold prevAt
    by_cases ht : t = 0
    · simp [ht]
    · have : ¬ t + 1 = 1 := by omega
      simp [ht]
  simp only [e]
  constructor
  · rintro ⟨_, h2, h3⟩
    exact ⟨by omega, h3⟩
  · rintro ⟨h1, h3⟩
    exact ⟨by omega, by omega, h3⟩

/-- **(a)** `getBins_nodup`: the bins of one call contain no pair twice — for any carrier and
any operations (the theta index is distinct per iteration, each iteration contributes one
range). -/
theorem getBins_nodup (p : Point α) (rhoBins thetaBins : Nat) :
    (binsList o p rhoBins thetaBins).Nodup :=
  loopList_nodup _ _ _ _ (by omega)

/-- **(c)** `getBins_bounds`: every listed theta index is `< theta_bins`. -/
theorem getBins_bounds (p : Point α) (rhoBins thetaBins : Nat) :
    ∀ x ∈ binsList o p rhoBins thetaBins, x.1 < thetaBins := by
  intro x hx
  have := (mem_loopList (by omega)).1 hx
  omega

/-- The same three facts on the `Outcome` returned by the model of `get_bins`. -/
theorem getBins_spec (p : Point α) (rhoBins thetaBins : Nat) :
    ∃ l, getBins o p rhoBins thetaBins = .ok l ∧ l.Nodup ∧ ∀ x ∈ l, x.1 < thetaBins :=
  ⟨_, getBins_no_panic o p rhoBins thetaBins, getBins_nodup o p rhoBins thetaBins,
    getBins_bounds o p rhoBins thetaBins⟩

/-! ## Part 2: what the carrier must satisfy -/

/-- What `get_bins` needs of the carrier to respect `==`: a relation `E` ("equal, or two
zeros"), containing `==`, respected by `*`, `+`, `sin`, `cos`, by `/` **in the numerator only**
and made invisible by `floor() as i32`; and `a == b → a * a = b * b` (the denominator `r²`).
`1 / +0 ≠ 1 / -0`: an IEEE carrier does not satisfy congruence of `/` in the denominator, and
it is not required. -/
structure EqCompat (o : Ops α) (E : α → α → Prop) : Prop where
  refl : ∀ a, E a a
  of_beq : ∀ a b, o.beq a b = true → E a b
  mul_self : ∀ a b, o.beq a b = true → o.mul a a = o.mul b b
  mul : ∀ a a' b b', E a a' → E b b' → E (o.mul a b) (o.mul a' b')
  add : ∀ a a' b b', E a a' → E b b' → E (o.add a b) (o.add a' b')
  div_left : ∀ a a' c, E a a' → E (o.div a c) (o.div a' c)
  sin : ∀ a a', E a a' → E (o.sin a) (o.sin a')
  cos : ∀ a a', E a a' → E (o.cos a) (o.cos a')
  floor : ∀ a a', E a a' → o.floorI32 a = o.floorI32 a'

theorem pointBeq_iff (p q : Point α) :
    pointBeq o p q = true ↔ o.beq p.r q.r = true ∧ o.beq p.phi q.phi = true ∧ o.beq p.z q.z = true := by
  simp [pointBeq, Bool.and_eq_true, and_assoc]

/-- **(d)** `getBins_respects_eq`: under `EqCompat`, `p == q → get_bins(p) = get_bins(q)`
(same bins in the same order; `z` plays no role). -/
theorem getBins_respects_eq {E : α → α → Prop} (L : EqCompat o E) (p q : Point α)
    (h : pointBeq o p q = true) (rhoBins thetaBins : Nat) :
    getBins o p rhoBins thetaBins = getBins o q rhoBins thetaBins := by
  obtain ⟨hr, hphi, _⟩ := (pointBeq_iff o p q).1 h
  have er := L.of_beq _ _ hr
  have ephi := L.of_beq _ _ hphi
  have hrr := L.mul_self _ _ hr
  have hu : E (uv o p).1 (uv o q).1 := by
    simp only [uv, px, hrr]
    exact L.div_left _ _ _ (L.mul _ _ _ _ er (L.cos _ _ ephi))
  have hv : E (uv o p).2 (uv o q).2 := by
    simp only [uv, py, hrr]
    exact L.div_left _ _ _ (L.mul _ _ _ _ er (L.sin _ _ ephi))
  have h0 : rhoBin0 o p rhoBins = rhoBin0 o q rhoBins := by
    unfold rhoBin0
    exact L.floor _ _ (L.div_left _ _ _ hu)
  have hk : rhoBinAt o p rhoBins thetaBins = rhoBinAt o q rhoBins thetaBins := by
    funext k
    unfold rhoBinAt
    exact L.floor _ _ (L.div_left _ _ _
      (L.add _ _ _ _ (L.mul _ _ _ _ hu (L.refl _)) (L.mul _ _ _ _ hv (L.refl _))))
  unfold getBins
  rw [h0, hk]

/-- `(a - b)² = (b - a)²` in the carrier. -/
def SubSqSymm (o : Ops α) : Prop :=
  ∀ a b, o.mul (o.sub a b) (o.sub a b) = o.mul (o.sub b a) (o.sub b a)

/-- **(e)** `distance_symm`: only the symmetry of `(a-b)²` is used (the three squares are added
in the same order on both sides, so commutativity of `+` is not needed). -/
theorem dist3_symm (hs : SubSqSymm o) (a b : α × α × α) : dist3 o a b = dist3 o b a := by
  unfold dist3 sq
  rw [hs a.1 b.1, hs a.2.1 b.2.1, hs a.2.2 b.2.2]

theorem distance_symm (hs : SubSqSymm o) (p q : Point α) : distance o p q = distance o q p :=
  dist3_symm o hs _ _

theorem near_symm (hs : SubSqSymm o) (maxd : α) (p q : Point α) :
    near o maxd p q = near o maxd q p := by
  unfold near
  rw [distance_symm o hs]

/-- `SubSqSymm` holds whenever `-` and `*` are those of a commutative ring (core Lean's
`Lean.Grind.CommRing`; `Int`, `Rat`, Mathlib's `ℝ` are instances). -/
theorem subSqSymm_of_commRing [Lean.Grind.CommRing α] (o : Ops α)
    (hsub : ∀ a b, o.sub a b = a - b) (hmul : ∀ a b, o.mul a b = a * b) : SubSqSymm o := by
  intro a b
  rw [hmul, hmul, hsub, hsub]
  grind

/-- `==` is symmetric and transitive (a partial equivalence: reflexivity fails at NaN and is
asked of the input points only). -/
structure BeqPER (o : Ops α) : Prop where
  symm : ∀ a b, o.beq a b = true → o.beq b a = true
  trans : ∀ a b c, o.beq a b = true → o.beq b c = true → o.beq a c = true

theorem pointBeq_symm (B : BeqPER o) (p q : Point α) (h : pointBeq o p q = true) :
    pointBeq o q p = true := by
  rw [pointBeq_iff] at h ⊢
  exact ⟨B.symm _ _ h.1, B.symm _ _ h.2.1, B.symm _ _ h.2.2⟩

theorem pointBeq_trans (B : BeqPER o) (p q s : Point α) (h1 : pointBeq o p q = true)
    (h2 : pointBeq o q s = true) : pointBeq o p s = true := by
  rw [pointBeq_iff] at h1 h2 ⊢
  exact ⟨B.trans _ _ _ h1.1 h2.1, B.trans _ _ _ h1.2.1 h2.2.1, B.trans _ _ _ h1.2.2 h2.2.2⟩

/-! ## Part 3: the concrete clustering context is `Good`; the C15 theorems instantiated -/

theorem binCode_inj {tb : Nat} {a b : Nat × Nat} (ha : a.1 < tb) (hb : b.1 < tb)
    (h : binCode tb a = binCode tb b) : a = b := by
  unfold binCode at h
  have h1 : (a.1 + tb * a.2) % tb = (b.1 + tb * b.2) % tb := by rw [h]
  rw [Nat.add_mul_mod_self_left, Nat.add_mul_mod_self_left, Nat.mod_eq_of_lt ha,
    Nat.mod_eq_of_lt hb] at h1
  have h2 : tb * a.2 = tb * b.2 := by omega
  have h3 : a.2 = b.2 := Nat.eq_of_mul_eq_mul_left (by omega) h2
  cases a
  cases b
  simp_all

theorem nodup_map_of_injOn {β γ : Type} {f : β → γ} {l : List β} (hl : l.Nodup)
    (hf : ∀ a ∈ l, ∀ b ∈ l, f a = f b → a = b) : (l.map f).Nodup := by
  unfold List.Nodup at hl ⊢
  rw [List.pairwise_map]
  exact List.Pairwise.imp_of_mem (fun {a b} ha hb hne heq => hne (hf a ha b hb heq)) hl

theorem binCodes_eq (prm : Params α) (p : Point α) :
    binCodes o prm p = (binsList o p prm.rhoBins prm.thetaBins).map (binCode prm.thetaBins) := by
  unfold binCodes
  rw [getBins_no_panic]

/-- The bin codes of one point are pairwise distinct (`getBins_nodup` + `getBins_bounds`). -/
theorem binCodes_nodup (prm : Params α) (p : Point α) : (binCodes o prm p).Nodup := by
  rw [binCodes_eq]
  apply nodup_map_of_injOn (getBins_nodup o p _ _)
  intro a ha b hb h
  exact binCode_inj (getBins_bounds o p _ _ a ha) (getBins_bounds o p _ _ b hb) h

/-- `==` points have the same bin codes. -/
theorem binCodes_respects_eq {E : α → α → Prop} (L : EqCompat o E) (prm : Params α)
    (p q : Point α) (h : pointBeq o p q = true) : binCodes o prm p = binCodes o prm q := by
  unfold binCodes
  rw [getBins_respects_eq o L p q h]

section ctx
variable (ren : Nat → Nat) (prm : Params α) (pts : Array (Point α))

theorem ctxOf_eq (i j : Nat) :
    (ctxOf o ren prm pts).eq i j =
      match pts[i]?, pts[j]? with
      | some p, some q => pointBeq o p q
      | _, _ => i == j := rfl

theorem ctxOf_bins (i : Nat) :
    (ctxOf o ren prm pts).bins i =
      match pts[i]? with
      | some p => (binCodes o prm p).map ren
      | none => [] := by
  simp only [ctxOf, Array.getD_eq_getD_getElem?, Array.getElem?_map]
  cases pts[i]? <;> rfl

theorem ctxOf_near (i j : Nat) :
    (ctxOf o ren prm pts).near i j =
      match pts[i]?, pts[j]? with
      | some p, some q => near o prm.maxDistance p q
      | _, _ => false := by
  simp only [ctxOf, Array.getElem?_map]
  cases pts[i]? <;> cases pts[j]? <;> rfl

/-- `ctxOf` without the tabulation (what `ctxOf_eq/bins/near` say), for evaluation by `decide`. -/
def ctxSpec (o : Ops α) (ren : Nat → Nat) (prm : Params α) (pts : Array (Point α)) : Ctx where
  eq := fun i j =>
    match pts[i]?, pts[j]? with
    | some p, some q => pointBeq o p q
    | _, _ => i == j
  bins := fun i =>
    match pts[i]? with
    | some p => (binCodes o prm p).map ren
    | none => []
  near := fun i j =>
    match pts[i]?, pts[j]? with
    | some p, some q => near o prm.maxDistance p q
    | _, _ => false

theorem ctxOf_eq_spec : ctxOf o ren prm pts = ctxSpec o ren prm pts := by
  have h1 : (ctxOf o ren prm pts).eq = (ctxSpec o ren prm pts).eq := by
    funext i j; rw [ctxOf_eq]; rfl
  have h2 : (ctxOf o ren prm pts).bins = (ctxSpec o ren prm pts).bins := by
    funext i; rw [ctxOf_bins]; rfl
  have h3 : (ctxOf o ren prm pts).near = (ctxSpec o ren prm pts).near := by
    funext i j; rw [ctxOf_near]; rfl
  cases h : ctxOf o ren prm pts
  cases h' : ctxSpec o ren prm pts
  rw [h, h'] at h1 h2 h3
  simp only at h1 h2 h3
  rw [h1, h2, h3]

/-- For in-range indices the context is the real thing: `==`, the (renamed) codes of
`get_bins`, `distance <= max_distance`. -/
theorem ctxOf_spec (i j : Nat) (hi : i < pts.size) (hj : j < pts.size) :
    (ctxOf o ren prm pts).eq i j = pointBeq o pts[i] pts[j] ∧
    (ctxOf o ren prm pts).bins i = (binCodes o prm pts[i]).map ren ∧
    (ctxOf o ren prm pts).near i j = near o prm.maxDistance pts[i] pts[j] := by
  rw [ctxOf_eq, ctxOf_bins, ctxOf_near]
  simp [hi, hj]

/-- The hypotheses of C15 (`Ctx.Good`) for the concrete context. Of the five, `bins_nodup`
needs nothing of the carrier; `bins_eq` needs `EqCompat`; the three `==` laws need `BeqPER`
and reflexivity on the input points (no NaN coordinate). -/
theorem ctxOf_good {E : α → α → Prop} (B : BeqPER o) (L : EqCompat o E)
    (hrefl : ∀ p ∈ pts, pointBeq o p p = true)
    (hren : ∀ p ∈ pts, ∀ c ∈ binCodes o prm p, ∀ c' ∈ binCodes o prm p, ren c = ren c' → c = c') :
    (ctxOf o ren prm pts).Good where
  eq_refl := by
    intro a
    rw [ctxOf_eq]
    cases h : pts[a]? with
    | none => simp
    | some p => exact hrefl p (Array.mem_of_getElem? h)
  eq_symm := by
    intro a b
    rw [ctxOf_eq, ctxOf_eq]
    cases pts[a]? <;> cases pts[b]? <;> simp only [beq_iff_eq]
    · exact fun h => h.symm
    · exact fun h => h.symm
    · exact fun h => h.symm
    · exact pointBeq_symm o B _ _
  eq_trans := by
    intro a b c
    rw [ctxOf_eq, ctxOf_eq, ctxOf_eq]
    cases ha : pts[a]? <;> cases hb : pts[b]? <;> cases hc : pts[c]? <;>
      simp only [beq_iff_eq]
    · exact fun h1 h2 => h1.trans h2
    · exact fun h1 h2 => h1.trans h2
    · exact fun h1 h2 => h1.trans h2
    · intro h1; subst h1; rw [ha] at hb; cases hb
    · intro h1; subst h1; rw [ha] at hb; cases hb
    · intro h1; subst h1; rw [ha] at hb; cases hb
    · intro _ h2; subst h2; rw [hb] at hc; cases hc
    · exact pointBeq_trans o B _ _ _
  bins_nodup := by
    intro a
    rw [ctxOf_bins]
    cases h : pts[a]? with
    | none => exact List.nodup_nil
    | some p =>
      exact nodup_map_of_injOn (binCodes_nodup o prm p) (hren p (Array.mem_of_getElem? h))
  bins_eq := by
    intro a b
    rw [ctxOf_eq, ctxOf_bins, ctxOf_bins]
    cases ha : pts[a]? <;> cases hb : pts[b]? <;> simp only [beq_iff_eq]
    · intro _ _; trivial
    · intro h; subst h; rw [ha] at hb; cases hb
    · intro h; subst h; rw [ha] at hb; cases hb
    · intro h k
      rw [binCodes_respects_eq o L prm _ _ h]

/-- The `get_bins` guard of `clusterX` never fires: `clusterX` *is* the abstract clustering on
the concrete context. -/
theorem clusterX_eq (min : Nat) :
    clusterX o ren prm min pts = cluster (ctxOf o ren prm pts) min (List.range pts.size) := by
  unfold clusterX
  rw [if_neg]
  simp [getBins_no_panic, Outcome.isOk]

/-- Symmetry of the adjacency, the only thing `cluster_connected` needs of `distance`. -/
def NearSymm (o : Ops α) (maxd : α) : Prop :=
  ∀ a b : α × α × α, o.le (dist3 o a b) maxd = true → o.le (dist3 o b a) maxd = true

theorem nearSymm_of_subSqSymm (hs : SubSqSymm o) (maxd : α) : NearSymm o maxd := by
  intro a b h
  rw [dist3_symm o hs b a]
  exact h

theorem ctxOf_near_symm (hn : NearSymm o prm.maxDistance) (a b : Nat)
    (h : (ctxOf o ren prm pts).near a b = true) : (ctxOf o ren prm pts).near b a = true := by
  rw [ctxOf_near] at h ⊢
  cases ha : pts[a]? with
  | none => rw [ha] at h; cases h
  | some p =>
    cases hb : pts[b]? with
    | none => rw [ha, hb] at h; cases h
    | some q =>
      rw [ha, hb] at h
      exact hn _ _ h

variable {E : α → α → Prop} (B : BeqPER o) (L : EqCompat o E)
  (hrefl : ∀ p ∈ pts, pointBeq o p p = true)
  (hren : ∀ p ∈ pts, ∀ c ∈ binCodes o prm p, ∀ c' ∈ binCodes o prm p, ren c = ren c' → c = c')
  (min : Nat) (hmin : 1 ≤ min)
include B L hrefl hren hmin

/-- **(f)** `cluster_total` for the concrete functions: on NaN-free input, with `min ≥ 1`,
`cluster_spacepoints` returns: no `unwrap` of `get_bins`, `remove_unchecked` or the remainder
loop fires and the loops terminate. -/
theorem cluster_total_concrete : ∃ r, clusterX o ren prm min pts = .ok r := by
  rw [clusterX_eq]
  exact cluster_total (ctxOf_good o ren prm pts B L hrefl hren) min hmin _

/-- **(f)** `cluster_partition`: every `==`-class of input points occurs in
`clusters.flatten ++ remainder` exactly as often as in the input. -/
theorem cluster_partition_concrete (r : Result) (h : clusterX o ren prm min pts = .ok r) :
    ∀ x, cnt (ctxOf o ren prm pts) x (r.clusters.flatten ++ r.remainder) =
      cnt (ctxOf o ren prm pts) x (List.range pts.size) := by
  rw [clusterX_eq] at h
  exact cluster_partition (ctxOf_good o ren prm pts B L hrefl hren) min hmin _ r h

/-- The same as a permutation of the input indices up to pointwise `==`. -/
theorem cluster_partition_perm_concrete (r : Result) (h : clusterX o ren prm min pts = .ok r) :
    ∃ l, l.Perm (r.clusters.flatten ++ r.remainder) ∧
      EqList (ctxOf o ren prm pts) l (List.range pts.size) := by
  rw [clusterX_eq] at h
  exact cluster_partition_perm (ctxOf_good o ren prm pts B L hrefl hren) min hmin _ r h

/-- **(f)** `cluster_min_size`. -/
theorem cluster_min_size_concrete (r : Result) (h : clusterX o ren prm min pts = .ok r) :
    ∀ c ∈ r.clusters, min ≤ c.length := by
  rw [clusterX_eq] at h
  exact cluster_min_size (ctxOf_good o ren prm pts B L hrefl hren) min hmin _ r h

/-- **(f)** `cluster_connected`: any two points of a cluster are linked by a chain of
`distance <= max_distance` steps inside the cluster. -/
theorem cluster_connected_concrete (hn : NearSymm o prm.maxDistance) (r : Result)
    (h : clusterX o ren prm min pts = .ok r) :
    ∀ c ∈ r.clusters, ∀ p ∈ c, ∀ q ∈ c, Reach (ctxOf o ren prm pts).near c p q := by
  rw [clusterX_eq] at h
  exact cluster_connected (ctxOf_good o ren prm pts B L hrefl hren)
    (ctxOf_near_symm o ren prm pts hn) min hmin _ r h

/-- **(f)** `clusters_disjoint`: the clusters together use no `==`-class more often than the
input holds it. -/
theorem clusters_disjoint_concrete (r : Result) (h : clusterX o ren prm min pts = .ok r) :
    ∀ x, cnt (ctxOf o ren prm pts) x r.clusters.flatten ≤
      cnt (ctxOf o ren prm pts) x (List.range pts.size) := by
  rw [clusterX_eq] at h
  exact clusters_disjoint (ctxOf_good o ren prm pts B L hrefl hren) min hmin _ r h

end ctx

/-! ### Non-vacuity: a carrier with signed zeros satisfying every hypothesis

Fixed-point integers (scale 1000) tagged with a sign bit that matters only at zero, as in IEEE:
`==` ignores the tag of a zero, `x + ±0 = x`, products and quotients xor the tags, `sin ±0 = ±0`,
`cos ±0 = 1`. Angles: a full turn is 4000, `cos` is a triangle wave. (`sqrt` is the identity and
`/ 0 = 0`: a toy, but one in which two `==` points with different representations exist.) -/

def toyCos (t : Int) : Int := if t % 4000 ≤ 2000 then 1000 - t % 4000 else t % 4000 - 3000

abbrev SZ := Int × Bool

def szOps : Ops SZ where
  add := fun a b => (a.1 + b.1,
    if a.1 = 0 then (if b.1 = 0 then a.2 && b.2 else b.2) else if b.1 = 0 then a.2 else a.2 && b.2)
  sub := fun a b => (a.1 - b.1, a.2 && !b.2)
  mul := fun a b => (a.1 * b.1 / 1000, xor a.2 b.2)
  div := fun a b => (a.1 * 1000 / b.1, xor a.2 b.2)
  sqrt := id
  sin := fun a => (toyCos (a.1 - 1000), a.2)
  cos := fun a => (toyCos a.1, false)
  ofU32 := fun n => ((n : Int) * 1000, false)
  floorI32 := fun a => a.1 / 1000
  le := fun a b => decide (a.1 ≤ b.1)
  beq := fun a b => a.1 == b.1 && (a.1 == 0 || a.2 == b.2)
  fullTurn := (4000, false)
  rhoMax := (100, false)

/-- "Same value, and the same tag unless the value is zero". -/
def szE (a b : SZ) : Prop := a.1 = b.1 ∧ (a.1 ≠ 0 → a.2 = b.2)

theorem szBeq_iff (a b : SZ) : szOps.beq a b = true ↔ szE a b := by
  obtain ⟨a, s⟩ := a
  obtain ⟨b, t⟩ := b
  simp only [szOps, szE, Bool.and_eq_true, Bool.or_eq_true, beq_iff_eq]
  constructor
  · rintro ⟨h1, h2⟩
    exact ⟨h1, fun h => by rcases h2 with h2 | h2; exact absurd h2 h; exact h2⟩
  · rintro ⟨h1, h2⟩
    by_cases h : a = 0
    · exact ⟨h1, Or.inl h⟩
    · exact ⟨h1, Or.inr (h2 h)⟩

theorem szPER : BeqPER szOps where
  symm := by
    intro a b h
    rw [szBeq_iff] at h ⊢
    obtain ⟨h1, h2⟩ := h
    exact ⟨h1.symm, fun h => (h2 (by rw [h1]; exact h)).symm⟩
  trans := by
    intro a b c h1 h2
    rw [szBeq_iff] at h1 h2 ⊢
    exact ⟨h1.1.trans h2.1, fun h => (h1.2 h).trans (h2.2 (by rw [← h1.1]; exact h))⟩

theorem ediv_ne_zero_left {a b c : Int} (h : a * b / c ≠ 0) : a ≠ 0 ∧ b ≠ 0 := by
  constructor
  · intro e; subst e; simp at h
  · intro e; subst e; simp at h

theorem szCompat : EqCompat szOps szE where
  refl := fun a => ⟨rfl, fun _ => rfl⟩
  of_beq := fun a b h => (szBeq_iff a b).1 h
  mul_self := by
    intro a b h
    obtain ⟨h1, _⟩ := (szBeq_iff a b).1 h
    simp [szOps, h1]
  mul := by
    rintro ⟨a, s⟩ ⟨a', s'⟩ ⟨b, t⟩ ⟨b', t'⟩ ⟨h1, h2⟩ ⟨h3, h4⟩
    simp only at h1 h2 h3 h4
    subst h1 h3
    refine ⟨rfl, fun h => ?_⟩
    obtain ⟨ha, hb⟩ := ediv_ne_zero_left h
    simp only [szOps]
    rw [h2 ha, h4 hb]
  add := by
    rintro ⟨a, s⟩ ⟨a', s'⟩ ⟨b, t⟩ ⟨b', t'⟩ ⟨h1, h2⟩ ⟨h3, h4⟩
    simp only at h1 h2 h3 h4
    subst h1 h3
    refine ⟨rfl, fun h => ?_⟩
    simp only [szOps] at h ⊢
    by_cases ha : a = 0 <;> by_cases hb : b = 0
    · subst ha hb; simp at h
    · simp only [ha, hb, if_true, if_false]; exact h4 hb
    · simp only [ha, hb, if_true, if_false]; exact h2 ha
    · simp only [ha, hb, if_false]; rw [h2 ha, h4 hb]
  div_left := by
    rintro ⟨a, s⟩ ⟨a', s'⟩ ⟨c, u⟩ ⟨h1, h2⟩
    simp only at h1 h2
    subst h1
    refine ⟨rfl, fun h => ?_⟩
    obtain ⟨ha, _⟩ := ediv_ne_zero_left h
    simp only [szOps]
    rw [h2 ha]
  sin := by
    rintro ⟨a, s⟩ ⟨a', s'⟩ ⟨h1, h2⟩
    simp only at h1 h2
    subst h1
    refine ⟨rfl, fun h => ?_⟩
    simp only [szOps] at h ⊢
    by_cases ha : a = 0
    · subst ha
      exact absurd (by decide : toyCos (0 - 1000) = 0) h
    · exact h2 ha
  cos := by
    rintro ⟨a, s⟩ ⟨a', s'⟩ ⟨h1, _⟩
    simp only at h1
    subst h1
    exact ⟨rfl, fun _ => rfl⟩
  floor := by
    rintro ⟨a, s⟩ ⟨a', s'⟩ ⟨h1, _⟩
    simp only at h1
    subst h1
    rfl

theorem szSubSq : SubSqSymm szOps := by
  intro a b
  simp only [szOps, bne_self_eq_false, Prod.mk.injEq, and_true]
  congr 1
  rw [show a.1 - b.1 = -(b.1 - a.1) by omega, Int.neg_mul_neg]

/-- Points `(r, phi, z)`; `neg` tags `phi` and `z` (only visible when they are zero). -/
def szP (r phi z : Int) (neg : Bool := false) : Point SZ := ⟨(r, false), (phi, neg), (z, neg)⟩

/-- Eight points: four on a ray, two on another ray, and a pair of `==` twins with
different representations (`phi = z = +0` and `phi = z = -0`). -/
def szCloud : Array (Point SZ) :=
  #[szP 15000 500 0, szP 15500 500 300, szP 16000 500 600, szP 16500 500 900,
    szP 15000 2500 0, szP 15400 2500 100, szP 15000 0 0, szP 15000 0 0 true]

def szPrm : Params SZ := ⟨5, 4, (400, false)⟩

-- `get_bins`: both theta steps with two negative rho bins vote for nothing (t = 2), ranges are
-- clipped at 0 (t = 1, 3)
example : getBins szOps (szP 15000 500 0) 5 4 = .ok [(0, 1), (1, 0), (1, 1), (3, 0), (3, 1)] := by
  decide
-- the twins are `==`, differ as values, and get the same bins (`getBins_respects_eq`)
example : pointBeq szOps (szP 15000 0 0) (szP 15000 0 0 true) = true ∧
    szP 15000 0 0 ≠ szP 15000 0 0 true ∧
    getBins szOps (szP 15000 0 0) 5 4 = getBins szOps (szP 15000 0 0 true) 5 4 :=
  ⟨by decide, by simp [szP], getBins_respects_eq szOps szCompat _ _ (by decide) 5 4⟩
-- and the value: ten bins, computed
example : getBins szOps (szP 15000 0 0 true) 5 4 =
    .ok [(0, 0), (0, 1), (0, 2), (0, 3), (1, 0), (2, 0), (3, 0), (3, 1), (3, 2), (3, 3)] := by
  decide
example : distance szOps (szP 15000 500 0) (szP 15500 500 300) =
    distance szOps (szP 15500 500 300) (szP 15000 500 0) := distance_symm szOps szSubSq _ _

theorem szCloud_refl : ∀ p ∈ szCloud, pointBeq szOps p p = true := by
  intro p _
  rw [pointBeq_iff]
  exact ⟨(szBeq_iff _ _).2 (szCompat.refl _), (szBeq_iff _ _).2 (szCompat.refl _),
    (szBeq_iff _ _).2 (szCompat.refl _)⟩

-- the whole clustering from the points alone: three clusters for `min = 2` (the twins form
-- one), one cluster and an ordered remainder for `min = 3`
set_option maxRecDepth 20000 in
theorem szRun2 : clusterX szOps id szPrm 2 szCloud = .ok ⟨[[3, 2, 1, 0], [5, 4], [7, 6]], []⟩ := by
  rw [clusterX_eq, ctxOf_eq_spec]
  decide
set_option maxRecDepth 20000 in
theorem szRun3 : clusterX szOps id szPrm 3 szCloud = .ok ⟨[[3, 2, 1, 0]], [4, 5, 6, 7]⟩ := by
  rw [clusterX_eq, ctxOf_eq_spec]
  decide

-- every hypothesis of the `*_concrete` theorems is satisfied by this instance
example : ∃ r, clusterX szOps id szPrm 3 szCloud = .ok r :=
  cluster_total_concrete szOps id szPrm szCloud szPER szCompat szCloud_refl
    (fun _ _ _ _ _ _ h => h) 3 (by omega)
example : ∀ c ∈ ([[3, 2, 1, 0]] : List (List Nat)), ∀ p ∈ c, ∀ q ∈ c,
    Reach (ctxOf szOps id szPrm szCloud).near c p q :=
  cluster_connected_concrete szOps id szPrm szCloud szPER szCompat szCloud_refl
    (fun _ _ _ _ _ _ h => h) 3 (by omega) (nearSymm_of_subSqSymm szOps szSubSq _)
    ⟨[[3, 2, 1, 0]], [4, 5, 6, 7]⟩ szRun3
example : ∀ x, cnt (ctxOf szOps id szPrm szCloud) x ([[3, 2, 1, 0]].flatten ++ [4, 5, 6, 7]) =
    cnt (ctxOf szOps id szPrm szCloud) x (List.range szCloud.size) :=
  cluster_partition_concrete szOps id szPrm szCloud szPER szCompat szCloud_refl
    (fun _ _ _ _ _ _ h => h) 3 (by omega) ⟨[[3, 2, 1, 0]], [4, 5, 6, 7]⟩ szRun3

end AlphaG.Hough

/-! ## Part 4: the driver's renaming of bin codes is injective -/
namespace AlphaG.Driver.C15b
open Std

/-- Values are below the size and distinct keys have distinct values. -/
def RankInv (m : HashMap Nat Nat) : Prop :=
  (∀ c r : Nat, m[c]? = some r → r < m.size) ∧
  (∀ c c' r : Nat, m[c]? = some r → m[c']? = some r → c = c')

theorem rankStep_pos {m : HashMap Nat Nat} {c : Nat} (h : m.contains c = true) :
    rankStep m c = m := by
  unfold rankStep
  rw [if_pos h]

theorem rankStep_neg {m : HashMap Nat Nat} {c : Nat} (h : ¬ m.contains c = true) :
    rankStep m c = m.insert c m.size := by
  unfold rankStep
  rw [if_neg h]

theorem get_rankStep_neg {m : HashMap Nat Nat} {c : Nat} (h : ¬ m.contains c = true) (a : Nat) :
    (rankStep m c)[a]? = if c = a then some m.size else m[a]? := by
  rw [rankStep_neg h, HashMap.getElem?_insert]
  simp only [beq_iff_eq]

theorem size_rankStep_neg {m : HashMap Nat Nat} {c : Nat} (h : ¬ m.contains c = true) :
    (rankStep m c).size = m.size + 1 := by
  have : ¬ c ∈ m := by
    rw [HashMap.mem_iff_contains]
    exact h
  rw [rankStep_neg h, HashMap.size_insert, if_neg this]

theorem contains_of_get {m : HashMap Nat Nat} {a r : Nat} (h : m[a]? = some r) :
    m.contains a = true := by
  rw [HashMap.contains_eq_isSome_getElem?, h]
  rfl

theorem rankStep_inv {m : HashMap Nat Nat} (inv : RankInv m) (c : Nat) : RankInv (rankStep m c) := by
  obtain ⟨h1, h2⟩ := inv
  by_cases hc : m.contains c = true
  · rw [rankStep_pos hc]
    exact ⟨h1, h2⟩
  · constructor
    · intro a r h
      rw [get_rankStep_neg hc] at h
      rw [size_rankStep_neg hc]
      by_cases ha : c = a
      · rw [if_pos ha] at h
        cases h
        omega
      · rw [if_neg ha] at h
        have := h1 a r h
        omega
    · intro a a' r h h'
      rw [get_rankStep_neg hc] at h h'
      by_cases ha : c = a <;> by_cases ha' : c = a'
      · omega
      · rw [if_pos ha] at h
        rw [if_neg ha'] at h'
        cases h
        have := h1 a' _ h'
        omega
      · rw [if_pos ha'] at h'
        rw [if_neg ha] at h
        cases h'
        have := h1 a _ h
        omega
      · rw [if_neg ha] at h
        rw [if_neg ha'] at h'
        exact h2 a a' r h h'

theorem rankStep_mono {m : HashMap Nat Nat} {a r : Nat} (h : m[a]? = some r) (c : Nat) :
    (rankStep m c)[a]? = some r := by
  by_cases hc : m.contains c = true
  · rw [rankStep_pos hc]
    exact h
  · have : c ≠ a := by
      intro e
      subst e
      exact hc (contains_of_get h)
    rw [get_rankStep_neg hc, if_neg this]
    exact h

theorem rankStep_self (m : HashMap Nat Nat) (c : Nat) : ∃ r, (rankStep m c)[c]? = some r := by
  by_cases hc : m.contains c = true
  · rw [rankStep_pos hc]
    rw [HashMap.contains_eq_isSome_getElem?] at hc
    cases h : m[c]? with
    | none => rw [h] at hc; cases hc
    | some r => exact ⟨r, rfl⟩
  · exact ⟨m.size, by rw [get_rankStep_neg hc, if_pos rfl]⟩

theorem foldl_rankStep (codes : List Nat) (m : HashMap Nat Nat) (inv : RankInv m) :
    RankInv (codes.foldl rankStep m) ∧
    (∀ a r : Nat, m[a]? = some r → (codes.foldl rankStep m)[a]? = some r) ∧
    (∀ c ∈ codes, ∃ r, (codes.foldl rankStep m)[c]? = some r) := by
  induction codes generalizing m with
  | nil => exact ⟨inv, fun _ _ h => h, by simp⟩
  | cons c cs ih =>
    obtain ⟨i1, i2, i3⟩ := ih (rankStep m c) (rankStep_inv inv c)
    refine ⟨i1, fun a r h => i2 a r (rankStep_mono h c), ?_⟩
    intro x hx
    rcases List.mem_cons.1 hx with rfl | hx
    · obtain ⟨r, hr⟩ := rankStep_self m x
      exact ⟨r, i2 x r hr⟩
    · exact i3 x hx

/-- The renaming used by `clusterx` is injective on the codes it was built from. -/
theorem rankFn_injOn (codes : List Nat) :
    ∀ c ∈ codes, ∀ c' ∈ codes, rankFn codes c = rankFn codes c' → c = c' := by
  have inv0 : RankInv ({} : HashMap Nat Nat) := by
    unfold RankInv
    constructor
    · intro c r h; simp at h
    · intro c c' r h; simp at h
  obtain ⟨⟨_, hinj⟩, _, hkeys⟩ := foldl_rankStep codes {} inv0
  intro c hc c' hc' h
  obtain ⟨r, hr⟩ := hkeys c hc
  obtain ⟨r', hr'⟩ := hkeys c' hc'
  unfold rankFn rankMap at h
  rw [HashMap.getD_eq_getD_getElem?, HashMap.getD_eq_getD_getElem?, hr, hr'] at h
  simp only [Option.getD_some] at h
  subst h
  exact hinj c c' r hr hr'

/-- Hence the hypothesis `hren` of the `*_concrete` theorems holds for the context the driver
runs (`ren := rankFn (allCodes prm pts)`, carrier `Float`). -/
theorem driver_ren_ok (prm : AlphaG.Hough.Params Float) (pts : Array (AlphaG.Hough.Point Float)) :
    ∀ p ∈ pts, ∀ c ∈ AlphaG.Hough.binCodes floatOps prm p, ∀ c' ∈ AlphaG.Hough.binCodes floatOps prm p,
      rankFn (allCodes prm pts) c = rankFn (allCodes prm pts) c' → c = c' := by
  intro p hp c hc c' hc'
  have mem : ∀ x ∈ AlphaG.Hough.binCodes floatOps prm p, x ∈ allCodes prm pts := by
    intro x hx
    unfold allCodes
    exact List.mem_flatMap.2 ⟨p, Array.mem_toList_iff.2 hp, hx⟩
  exact rankFn_injOn _ c (mem c hc) c' (mem c' hc')

/-- The context `clusterx` runs is `Good` as soon as `Float` satisfies the carrier laws (which
cannot be proved in Lean and are sampled by the harness) and no input coordinate is NaN. -/
theorem driver_ctx_good {E : Float → Float → Prop} (B : AlphaG.Hough.BeqPER floatOps)
    (L : AlphaG.Hough.EqCompat floatOps E) (prm : AlphaG.Hough.Params Float)
    (pts : Array (AlphaG.Hough.Point Float))
    (hrefl : ∀ p ∈ pts, AlphaG.Hough.pointBeq floatOps p p = true) :
    (AlphaG.Hough.ctxOf floatOps (rankFn (allCodes prm pts)) prm pts).Good :=
  AlphaG.Hough.ctxOf_good floatOps _ prm pts B L hrefl (driver_ren_ok prm pts)

end AlphaG.Driver.C15b
