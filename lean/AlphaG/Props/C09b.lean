import AlphaG.Props.C09bStages
import AlphaG.Props.C13b
/-
C09b — `MainEvent::vertex()` as the composition of its stage models
(`Model/VertexPipeline.lean`, tied to the built code by harness/src/c09b.rs): what the composition
gives, for **every** carrier `α` and every operation table `P : Pipe α`, under the named
hypotheses of the parts, bundled in `Laws P E Num nan`:

  `responses`   the Rust `assert!` on the two response tables (C17 `ResponseNeg`);
  `driftShape`  the drift tables have ≥ 1 slice and ≥ 2 knots per table (no arithmetic);
  `cluster`     C15b: `==` is a partial equivalence the Hough operations respect, the renaming of
                bin codes is injective per point;
  `fit`         C14c: strict weak order on the non-NaN values, `partial_cmp = None` iff NaN, the
                cost functions return non-NaN values when they return, `ε ≥ 0`;
  `trackEq`     `Track ==` symmetric and transitive, `0.0 == 0.0`.
Every one of them is true of IEEE `f64`; none is provable for Lean's opaque `Float`
(the stage harnesses sample them). No law of arithmetic (`+ - * /`, `sqrt`, `sin` …) is used.

(a) `vertex_panic_sites`  — the exhaustive inventory: a panic of `vertex()` is at one of 14 named
    sites (`allSites`), each with its trigger, stage by stage:
      1. `wires:cholesky-unwrap`                 a wire block whose `a_matrix` meets a non-positive pivot
      2. `drift:find`                            an avalanche whose `|z|` compares false with every
                                                 z bound (NaN `z`)
      3. `remove_unchecked:*`, `remainder:position` (+ the model's two fuel sentinels)
                                                 a space point that is not `==` itself (NaN coordinate)
      4. `fit_cluster_to_helix:assert_len`       a cluster of fewer than three points
         `three_template_points:partial_cmp_unwrap`   a NaN radius deviation
         `track_fitting:cost_function:nan_assert`     a NaN squared distance point ↔ helix
      5. `beamline_clusters:partial_cmp`         a NaN `z` of closest approach to the beamline
         `find_vertices:partial_cmp`             two incomparable radius sums
         `vertex_fitting:cost_function:nan_assert`    a NaN squared distance vertex ↔ track
         `find_vertices:position`                a track that is not `==` itself
    Unreachable and therefore absent: `wires:max-unwrap`, every deconvolution site, `drift:index`,
    `drift:lhs_index`, `get_bins:try_into`, every argmin / argmin-math site, `best_param.unwrap()`,
    `tracks[0]`, `clusters.last().unwrap()`.
(b) `vertex_total_of_no_nan` — if no pivot fails and none of the NaN triggers above occurs on the
    intermediate values of the event, `vertex()` returns.
(c) `vertex_result_spec` — a returned position is the best evaluated point of the vertex fit over a
    beamline cluster of ≥ 2 fitted tracks; every track is the fit of a cluster of ≥ 13 space
    points; every space point is the drift lookup of an avalanche of the event.
-/
namespace AlphaG.VertexPipeline
open AlphaG AlphaG.Cluster AlphaG.NelderMead AlphaG.TrackInit AlphaG.Helix
open AlphaG.Ranges AlphaG.Matching AlphaG.Avalanches

variable {α : Type} (P : Pipe α)

/-- The named hypotheses of the parts. -/
structure Laws (E : α → α → Prop) (Num nan : α → Prop) : Prop where
  responses : ResponsesOk P.deconv P.tables
  driftShape : DriftShape P.driftTables
  cluster : ClusterLaws P E
  fit : FitLaws P Num nan
  trackEq : TrackEqLaws P

/-- `|z|` compares false with every z bound of the drift tables: not `>` the last, not `<=` any
(in `f64`: `z` is NaN). The trigger of `find(..).unwrap()` in `DriftTables::at`. -/
def ZIncomparable (z : α) : Prop :=
  (∀ sl ∈ P.driftTables, P.drift.ge sl.zUpper (P.drift.abs z) = false) ∧
  ∀ last, P.driftTables.getLast? = some last → P.drift.gt (P.drift.abs z) last.zUpper = false

/-- The Cholesky factorisation of `a_matrix(len)` fails for the wire block of the range `r`. -/
def PivotFails (r : Nat × Nat) : Prop :=
  cholFactor P.deconv P.tables.sqrt (blockLen r) (aTable P.deconv P.tables.factors (blockLen r)) = none

/-- Every site `vertex()` can panic at. -/
def allSites : List String :=
  ["wires:cholesky-unwrap", "drift:find"] ++ clusterSites ++
  [siteAssertLen, sitePartialCmp, siteTrackNaN,
   "beamline_clusters:partial_cmp", "find_vertices:partial_cmp", siteVertexNaN, "find_vertices:position"]

variable {P}

theorem pointOf_panic {E : α → α → Prop} {Num nan : α → Prop} (H : Laws P E Num nan)
    (a : Matching.Avalanche α) (s : String) (h : pointOf P a = .panic s) :
    s = "drift:find" ∧ ZIncomparable P a.z := by
  unfold pointOf at h
  rw [spacePoint_panic] at h
  obtain ⟨h1, h2, h3⟩ := tablesAt_panic P.drift P.driftTables H.driftShape _ _ s h
  exact ⟨h1, h2, h3⟩

/-- **(a) The panic inventory of `MainEvent::vertex()`**, any carrier. -/
theorem vertex_panic_sites {E : α → α → Prop} {Num nan : α → Prop} (H : Laws P E Num nan)
    (ev : Matching.Event α) (s : String) (h : vertexOfSignals P ev = .panic s) :
    -- stage 1: `self.avalanches()`
    (s = "wires:cholesky-unwrap" ∧ ∃ r ∈ contiguousRanges (occupancy ev), PivotFails P r) ∨
    -- stage 2: `SpacePoint::try_from(avalanche)`
    (s = "drift:find" ∧ ∃ avs, stageAvalanches P ev = .ok avs ∧ ∃ a ∈ avs, ZIncomparable P a.z) ∨
    -- stage 3: `cluster_spacepoints(points)`
    (s ∈ clusterSites ∧ ∃ avs pts, stageAvalanches P ev = .ok avs ∧ stagePoints P avs = .ok pts ∧
      ∃ p ∈ pts, Hough.pointBeq P.hough p p = false) ∨
    -- stage 4: `Track::try_from(cluster)`
    (∃ avs pts r, stageAvalanches P ev = .ok avs ∧ stagePoints P avs = .ok pts ∧
      stageClusters P pts = .ok r ∧ ∃ c ∈ r.clusters, FitTrigger P nan (clusterPoints pts c) s) ∨
    -- stage 5: `find_vertices(tracks)`
    (∃ avs pts r ts, stageAvalanches P ev = .ok avs ∧ stagePoints P avs = .ok pts ∧
      stageClusters P pts = .ok r ∧ stageTracks P pts r.clusters = .ok ts ∧ VertexTrigger P nan ts s) := by
  rcases (vertex_panic_stage P ev s).1 h with h1 | ⟨avs, h1, h2 | ⟨pts, h2, h3 | ⟨r, h3, h4 | ⟨ts, h4, h5⟩⟩⟩⟩
  · obtain ⟨hs, r, hr, hc⟩ := run_panic P.deconv P.geo P.sorter H.responses ev s h1
    exact Or.inl ⟨hs, r, hr, hc⟩
  · obtain ⟨a, ha, hp⟩ := stagePoints_panic P avs s h2
    obtain ⟨hs, hz⟩ := pointOf_panic H a s hp
    exact Or.inr (Or.inl ⟨hs, avs, h1, a, ha, hz⟩)
  · obtain ⟨hs, p, hp, hb⟩ := stageClusters_panic H.cluster pts s h3
    exact Or.inr (Or.inr (Or.inl ⟨hs, avs, pts, h1, h2, p, hp, hb⟩))
  · obtain ⟨c, hc, ht⟩ := stageTracks_panic H.fit pts r.clusters s h4
    exact Or.inr (Or.inr (Or.inr (Or.inl ⟨avs, pts, r, h1, h2, h3, c, hc, ht⟩)))
  · exact Or.inr (Or.inr (Or.inr (Or.inr
      ⟨avs, pts, r, ts, h1, h2, h3, h4, stageVertex_panic H.fit H.trackEq ts s h5⟩)))

/-- **(a), the list alone**: whatever the event, a panic of `vertex()` names one of `allSites`. -/
theorem vertex_panic_site_mem {E : α → α → Prop} {Num nan : α → Prop} (H : Laws P E Num nan)
    (ev : Matching.Event α) (s : String) (h : vertexOfSignals P ev = .panic s) : s ∈ allSites := by
  rcases vertex_panic_sites H ev s h with ⟨hs, _⟩ | ⟨hs, _⟩ | ⟨hs, _⟩ | ⟨_, _, _, _, _, _, _, _, ht⟩ |
    ⟨_, _, _, _, _, _, _, _, ht⟩
  · subst hs; simp [allSites]
  · subst hs; simp [allSites]
  · simp only [allSites, List.mem_append]
    exact Or.inl (Or.inr hs)
  · rcases ht with ⟨_, hs⟩ | ⟨_, hs, _⟩ | ⟨hs, _⟩ <;> subst hs <;> simp [allSites]
  · rcases ht with ⟨hs, _⟩ | ⟨hs, _⟩ | ⟨hs, _⟩ | ⟨hs, _⟩ <;> subst hs <;> simp [allSites]

/-! ### (b) totality -/

variable (P)

/-- No NaN reaches the track fit of the points `cp`: no radius deviation from the middle radius is
NaN, and no squared distance point ↔ helix is NaN, for any helix. -/
def NoFitNaN (nan : α → Prop) (cp : List (Helix.Point α)) : Prop :=
  (∀ f l, (minmaxByKey P.fit.t.h.lt (fun p : Helix.Point α => p.r) cp).intoOption = some (f, l) →
    ∀ p ∈ cp, ¬ nan (devFrom P.fit.t (midR P.fit.t f l) p)) ∧
  (∀ x : List α, x.length = 6 → ∀ pt ∈ cp,
    P.fit.isNaN (distSq P.fit P.c.epsilon maxClosestTIters (paramsOf P.fit x) pt) = false)

/-- No NaN reaches `find_vertices` on the tracks `ts`: every track is `==` itself, no `z` of closest
approach is NaN, radius sums are comparable, no squared distance vertex ↔ track is NaN. -/
def NoVertexNaN (nan : α → Prop) (ts : Array (TrackP α)) : Prop :=
  TracksReflexive P ts ∧ (∀ t ∈ ts, ¬ nan (beamZ P.fit.t t)) ∧
  (∀ a b : List Nat, (vertexCtx P ts).cmp a b ≠ none) ∧
  (∀ x : List α, x.length = 3 → ∀ t ∈ ts,
    P.fit.isNaN (distSq P.fit P.c.epsilon maxClosestTIters t.q (vertexPoint P.fit x)) = false)

variable {P}

/-- **(b) `vertex()` returns** when no pivot of a wire block fails and no NaN occurs among the
intermediate values: every avalanche `z` is comparable with the z bounds, every space point is
`==` itself, no NaN reaches a track fit or the vertexing. -/
theorem vertex_total_of_no_nan {E : α → α → Prop} {Num nan : α → Prop} (H : Laws P E Num nan)
    (ev : Matching.Event α)
    (hchol : ∀ r ∈ contiguousRanges (occupancy ev), ¬ PivotFails P r)
    (hz : ∀ avs, stageAvalanches P ev = .ok avs → ∀ a ∈ avs, ¬ ZIncomparable P a.z)
    (hpts : ∀ avs pts, stageAvalanches P ev = .ok avs → stagePoints P avs = .ok pts →
      PointsReflexive P pts)
    (hfit : ∀ avs pts r, stageAvalanches P ev = .ok avs → stagePoints P avs = .ok pts →
      stageClusters P pts = .ok r → ∀ c ∈ r.clusters, NoFitNaN P nan (clusterPoints pts c))
    (hvtx : ∀ avs pts r ts, stageAvalanches P ev = .ok avs → stagePoints P avs = .ok pts →
      stageClusters P pts = .ok r → stageTracks P pts r.clusters = .ok ts → NoVertexNaN P nan ts) :
    ∃ v, vertexOfSignals P ev = .ok v := by
  -- stage 1
  obtain ⟨avs, h1⟩ : ∃ avs, stageAvalanches P ev = .ok avs := by
    apply run_total P.deconv P.geo P.sorter H.responses ev
    intro r hr
    cases hc : cholFactor P.deconv P.tables.sqrt (blockLen r) (aTable P.deconv P.tables.factors (blockLen r)) with
    | none => exact absurd hc (hchol r hr)
    | some L => rfl
  -- stage 2
  obtain ⟨pts, h2⟩ : ∃ pts, stagePoints P avs = .ok pts := by
    apply stagePoints_total
    intro a ha s hp
    exact hz avs h1 a ha (pointOf_panic H a s hp).2
  -- stage 3
  have hrefl := hpts avs pts h1 h2
  obtain ⟨r, h3⟩ := stageClusters_total H.cluster pts hrefl
  -- stage 4
  obtain ⟨ts, h4⟩ : ∃ ts, stageTracks P pts r.clusters = .ok ts := by
    apply stageTracks_total
    intro c hc s hp
    obtain ⟨hmin, hin⟩ := stageClusters_spec H.cluster pts hrefl r h3 c hc
    have hlen := clusterPoints_length pts c hin
    obtain ⟨hdev, hd⟩ := hfit avs pts r h1 h2 h3 c hc
    rcases fitOf_panic H.fit _ s hp with ⟨hl, _⟩ | ⟨_, _, f, l, hfl, p, hp', hn⟩ | ⟨_, x, hx, pt, hpt, hn⟩
    · rw [hlen] at hl
      simp only [minClusterSize] at hmin
      omega
    · exact hdev f l hfl p hp' hn
    · rw [hd x hx pt hpt] at hn; cases hn
  -- stage 5
  obtain ⟨hr, hbz, hsum, hd⟩ := hvtx avs pts r ts h1 h2 h3 h4
  obtain ⟨v, h5⟩ := stageVertex_total H.fit H.trackEq ts hr hbz hsum hd
  exact ⟨v, (vertex_ok_stage P ev v).2 ⟨avs, pts, r, ts, h1, h2, h3, h4, h5⟩⟩

/-! ### (c) what a returned vertex is -/

variable (P)

/-- What a fitted track is (C14c `fit_ok_spec`): its helix is a 6-vector at which the cost function
of its cluster was evaluated, with a cost not above the cost at any vertex of the initial simplex
(the initial guess and its six perturbations); `t_inner`/`t_outer` are `closest_t` of the template
points of smallest / largest radius. -/
def FittedTrack (cp : List (Helix.Point α)) (trk : TrackP α) : Prop :=
  ∃ simplex best c f m l, fitInit P.fit.t P.c.delta cp = .ok simplex ∧
    threeTemplatePoints P.fit.t cp = .ok (f, m, l) ∧ best.length = 6 ∧ trk.q = paramsOf P.fit best ∧
    trk.tInner = closestT P.fit.t.h trk.q f P.c.epsilon maxClosestTIters ∧
    trk.tOuter = closestT P.fit.t.h trk.q l P.c.epsilon maxClosestTIters ∧
    trackCost (ε := FitError) P.fit P.c.epsilon maxClosestTIters cp best = .ok c ∧
    ∀ x ∈ simplex, ∃ cx, trackCost (ε := FitError) P.fit P.c.epsilon maxClosestTIters cp x = .ok cx ∧
      P.fit.n.lt cx c = false

variable {P}

theorem fitOf_ok {Num nan : α → Prop} (F : FitLaws P Num nan) (cp : List (Helix.Point α))
    (trk : TrackP α) (h : fitOf P cp = .ok trk) : FittedTrack P cp trk :=
  AlphaG.C14c.fit_ok_spec F.ord maxSolverIters P.c.epsilon P.c.delta maxClosestTIters P.c.epsilon cp
    (F.trackCostNum cp) F.tolOk trk h

/-- **(c) `vertex_result_spec`.** When `vertex()` returns `Some(position)` on an event whose space
points are NaN-free:
* the position is the best evaluated point of the vertex fit (`FittedVertex`: a 3-vector at which
  the cost function of the chosen cluster was evaluated, with cost not above the cost at the four
  vertices of the initial simplex) over a beamline cluster of **at least two** fitted tracks, all of
  which pass the two filters of `find_vertices`;
* every fitted track is the Nelder–Mead fit (`FittedTrack`) of a cluster of **at least 13** space
  points;
* every point of a cluster is one of the event's space points, and every space point is the drift
  lookup of an avalanche returned by `avalanches()` (same `z`). -/
theorem vertex_result_spec {E : α → α → Prop} {Num nan : α → Prop} (H : Laws P E Num nan)
    (ev : Matching.Event α) (pos : α × α × α) (h : vertexOfSignals P ev = .ok (some pos))
    (hpts : ∀ avs pts, stageAvalanches P ev = .ok avs → stagePoints P avs = .ok pts →
      PointsReflexive P pts) :
    ∃ avs pts r ts vf,
      stageAvalanches P ev = .ok avs ∧ stagePoints P avs = .ok pts ∧ stageClusters P pts = .ok r ∧
      stageTracks P pts r.clusters = .ok ts ∧ vertexFitOf P ts = .ok (some vf) ∧
      -- the vertex
      vf.position = pos ∧ FittedVertex P ts vf ∧ 2 ≤ vf.cluster.length ∧
      (∀ i ∈ vf.cluster, i < ts.size ∧ (vertexCtx P ts).keep i = true) ∧
      -- the tracks
      (∀ t ∈ ts, ∃ c ∈ r.clusters, minClusterSize ≤ (clusterPoints pts c).length ∧
        FittedTrack P (clusterPoints pts c) t) ∧
      -- the clusters and the space points
      (∀ c ∈ r.clusters, ∀ q ∈ clusterPoints pts c, ∃ p ∈ pts, q = toHelix p) ∧
      (∀ p ∈ pts, ∃ a ∈ avs, ∃ sp, pointOf P a = .ok sp ∧ p = toHough sp ∧ sp.z = a.z) := by
  obtain ⟨avs, pts, r, ts, h1, h2, h3, h4, h5⟩ := (vertex_ok_stage P ev _).1 h
  obtain ⟨vf, hvf, hpos, _, hlen, hidx, hfit⟩ := stageVertex_some H.fit ts pos h5
  have hrefl := hpts avs pts h1 h2
  refine ⟨avs, pts, r, ts, vf, h1, h2, h3, h4, hvf, hpos, hfit, hlen, hidx, ?_, ?_, ?_⟩
  · intro t ht
    obtain ⟨c, hc, hfc⟩ := stageTracks_ok pts r.clusters ts h4 t ht
    obtain ⟨hmin, hin⟩ := stageClusters_spec H.cluster pts hrefl r h3 c hc
    refine ⟨c, hc, ?_, fitOf_ok H.fit _ t hfc⟩
    rw [clusterPoints_length pts c hin]
    exact hmin
  · intro c _ q hq
    obtain ⟨i, _, p, hp, rfl⟩ := mem_clusterPoints pts c q hq
    exact ⟨p, Array.mem_of_getElem? hp, rfl⟩
  · intro p hp
    obtain ⟨a, ha, sp, hsp, rfl⟩ := (stagePoints_ok P avs pts h2).2 p hp
    exact ⟨a, ha, sp, hsp, rfl, spacePoint_ok_z _ _ _ sp hsp⟩

/-! ### The first site in exact arithmetic -/

/-- With C13b: when the deconvolution arithmetic is that of a linearly ordered field (with a square
root that squares back on positive values) and the neighbour factors are the diagonally dominant
ones of the code (`C13b.a_matrix_diag_dominant`), no wire block's pivot fails — site 1 of the
inventory is a pure rounding question, for every block length. -/
theorem pivot_never_fails_exact {K : Type} [Field K] [LinearOrder K] [IsStrictOrderedRing K] (top : K)
    (P : Pipe K) (hd : P.deconv = AlphaG.C13b.exactOps K top)
    (hs : AlphaG.C13b.SqrtOk P.tables.sqrt) (hf : AlphaG.C13b.NeighbourFactorsOk P.tables.factors)
    (r : Nat × Nat) : ¬ PivotFails P r := by
  unfold PivotFails
  rw [hd]
  intro h
  have := AlphaG.C13b.cholesky_pivots_pos top P.tables.sqrt hs P.tables.factors hf (blockLen r)
  rw [h] at this
  cases this

end AlphaG.VertexPipeline
