import AlphaG.Props.C03
/-
C03 — injectivity: two accepted slices that decode to the same chunk are the same slice, i.e.
decoding loses no accepted byte (header, both CRC words, payload and padding are all determined
by the decoded fields). Corollary of `chunk_roundtrip`.
-/
namespace AlphaG.Chunk

theorem chunk_decode_injective (b b' : List UInt8) (c : Chunk)
    (h : decodeChunk b = .ok c) (h' : decodeChunk b' = .ok c) : b = b' := by
  rw [← chunk_roundtrip b c h, ← chunk_roundtrip b' c h']

/-- Re-encoding an accepted chunk gives an accepted slice with the same fields (the encoder never
leaves the accepted set). -/
theorem chunk_encode_accepted (b : List UInt8) (c : Chunk) (h : decodeChunk b = .ok c) :
    decodeChunk (encodeChunk c) = .ok c := by
  rw [chunk_roundtrip b c h]; exact h

end AlphaG.Chunk
