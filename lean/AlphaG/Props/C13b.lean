import AlphaG.Model.Avalanches
import AlphaG.Lemmas.AvalanchesShape
import Mathlib.Algebra.BigOperators.Group.Finset.Basic
import Mathlib.Algebra.Order.BigOperators.Ring.Finset
import Mathlib.Algebra.Order.Field.Basic
import Mathlib.Algebra.BigOperators.Field
import Mathlib.Algebra.Order.Field.Rat
import Mathlib.Analysis.Real.Sqrt
import Mathlib.Tactic.Ring
import Mathlib.Tactic.Linarith
import Mathlib.Tactic.FieldSimp
import Mathlib.Tactic.Positivity
import Mathlib.Tactic.NormNum
/-
C13b — the linear algebra inside `wire_range_deconvolution` (exact arithmetic) and the shape of
the output of `MainEvent::avalanches()` (any carrier).

Part 1 (exact instance `exactOps K` over a linearly ordered field `K`, with a square root that
satisfies `sqrt x · sqrt x = x` on positive `x`):
* `a_matrix_symmetric` — `a_matrix(n)` is symmetric (any carrier, any factors);
* `a_matrix_diag_dominant` — for the exact rational values of the five `f64` literals
  `NEIGHBOR_FACTORS` (`neighbourFactorBits`, checked against the built code by the `nfactors`
  request): `2·(|f₁|+|f₂|+|f₃|+|f₄|) < f₀` (`NeighbourFactorsOk`);
* `a_matrix_pos_def` — `NeighbourFactorsOk` ⇒ `xᵀ·a_matrix(n)·x > 0` for every `n` and `x ≠ 0`;
* `cholesky_pivots_pos` — hence the model's Cholesky factorisation of `a_matrix(n)` meets no
  non-positive pivot, for every `n`: the `cholesky_in_place(..).unwrap()` of
  `wire_range_deconvolution` cannot fail in exact arithmetic (`wireBlock_no_cholesky_panic`).
  General form `cholFactor_isSome`: any symmetric positive definite table.
Part 2: `avalanches_shape`.
-/
namespace AlphaG.C13b
open AlphaG AlphaG.Deconv AlphaG.Ranges AlphaG.Matching AlphaG.Avalanches Finset

section field
variable {K : Type} [Field K] [LinearOrder K] [IsStrictOrderedRing K]

/-! ### Quadratic forms of matrices given as functions of `(row, column)` -/


def quadForm (n : ℕ) (a : ℕ → ℕ → K) (x : ℕ → K) : K :=
  ∑ i ∈ range n, ∑ j ∈ range n, x i * a i j * x j

theorem quadForm_succ (n : ℕ) (a : ℕ → ℕ → K) (x : ℕ → K) :
    quadForm (n + 1) a x
      = x 0 * a 0 0 * x 0 + (∑ j ∈ range n, x 0 * a 0 (j + 1) * x (j + 1))
        + (∑ i ∈ range n, x (i + 1) * a (i + 1) 0 * x 0)
        + quadForm n (fun i j => a (i + 1) (j + 1)) (fun i => x (i + 1)) := by
  unfold quadForm
  rw [Finset.sum_range_succ']
  simp only [Finset.sum_range_succ' _ n]
  rw [Finset.sum_add_distrib]
  ring

theorem cross_bound (c a b : K) : -(|c| * (a ^ 2 + b ^ 2)) ≤ 2 * a * c * b := by
  rcases abs_cases c with ⟨h, h0⟩ | ⟨h, h0⟩
  · rw [h]; nlinarith [sq_nonneg (a + b), mul_nonneg h0 (sq_nonneg (a + b))]
  · rw [h]; nlinarith [sq_nonneg (a - b), mul_nonneg (le_of_lt (neg_pos.mpr h0)) (sq_nonneg (a - b))]

/-- The banded/Toeplitz matrix of the model as a function. -/
def toep (c : ℕ → K) (i j : ℕ) : K := c (if i > j then i - j else j - i)

omit [LinearOrder K] [IsStrictOrderedRing K] in
theorem toep_succ (c : ℕ → K) : (fun i j => toep c (i + 1) (j + 1)) = toep c := by
  funext i j
  simp only [toep]
  congr 1
  split <;> split <;> omega

theorem toeplitz_lower (c : ℕ → K) (S : K) (hT : ∀ n, ∑ j ∈ range n, |c (j + 1)| ≤ S) :
    ∀ (n : ℕ) (x : ℕ → K),
      ∑ i ∈ range n, (c 0 - S - ∑ j ∈ range i, |c (j + 1)|) * x i ^ 2 ≤ quadForm n (toep c) x := by
  intro n
  induction n with
  | zero => intro x; simp [quadForm]
  | succ n ih =>
    intro x
    rw [quadForm_succ, toep_succ]
    have hih := ih (fun i => x (i + 1))
    have hcross : ∑ j ∈ range n, -(|c (j + 1)| * (x 0 ^ 2 + x (j + 1) ^ 2))
        ≤ (∑ j ∈ range n, x 0 * toep c 0 (j + 1) * x (j + 1))
          + ∑ i ∈ range n, x (i + 1) * toep c (i + 1) 0 * x 0 := by
      rw [← Finset.sum_add_distrib]
      apply Finset.sum_le_sum
      intro j _
      have e : x 0 * toep c 0 (j + 1) * x (j + 1) + x (j + 1) * toep c (j + 1) 0 * x 0
          = 2 * x 0 * c (j + 1) * x (j + 1) := by
        simp only [toep]; simp; ring
      rw [e]
      exact cross_bound _ _ _
    have hexp : ∑ j ∈ range n, -(|c (j + 1)| * (x 0 ^ 2 + x (j + 1) ^ 2))
        = -((∑ j ∈ range n, |c (j + 1)|) * x 0 ^ 2) - ∑ j ∈ range n, |c (j + 1)| * x (j + 1) ^ 2 := by
      simp only [mul_add, Finset.sum_neg_distrib, Finset.sum_add_distrib, Finset.sum_mul]
      ring
    have hTn : (∑ j ∈ range n, |c (j + 1)|) * x 0 ^ 2 ≤ S * x 0 ^ 2 :=
      mul_le_mul_of_nonneg_right (hT n) (sq_nonneg _)
    rw [Finset.sum_range_succ']
    have hl : ∑ i ∈ range n, (c 0 - S - ∑ j ∈ range (i + 1), |c (j + 1)|) * x (i + 1) ^ 2
        = (∑ i ∈ range n, (c 0 - S - ∑ j ∈ range i, |c (j + 1)|) * x (i + 1) ^ 2)
          - ∑ i ∈ range n, |c (i + 1)| * x (i + 1) ^ 2 := by
      rw [← Finset.sum_sub_distrib]
      apply Finset.sum_congr rfl
      intro i _
      rw [Finset.sum_range_succ]
      ring
    rw [hl]
    have h00 : toep c 0 0 = c 0 := by simp [toep]
    rw [h00]
    simp only [Finset.range_zero, Finset.sum_empty, sub_zero]
    nlinarith [hih, hcross, hexp, hTn]

def PosDef (n : ℕ) (a : ℕ → ℕ → K) : Prop :=
  (∀ i j, i < n → j < n → a i j = a j i)
    ∧ ∀ x : ℕ → K, (∃ i, i < n ∧ x i ≠ 0) → 0 < quadForm n a x

theorem toeplitz_posDef (c : ℕ → K) (S : K) (hT : ∀ n, ∑ j ∈ range n, |c (j + 1)| ≤ S)
    (hdom : 2 * S < c 0) (n : ℕ) : PosDef n (toep c) := by
  refine ⟨?_, ?_⟩
  · intro i j _ _
    simp only [toep]
    congr 1
    split <;> split <;> omega
  · intro x ⟨i, hi, hx⟩
    refine lt_of_lt_of_le ?_ (toeplitz_lower c S hT n x)
    apply Finset.sum_pos'
    · intro k _
      apply mul_nonneg _ (sq_nonneg _)
      linarith [hT k]
    · refine ⟨i, Finset.mem_range.mpr hi, ?_⟩
      apply mul_pos _ (by positivity)
      linarith [hT i]

theorem posDef_pivot (n : ℕ) (a : ℕ → ℕ → K) (h : PosDef (n + 1) a) : 0 < a 0 0 := by
  have := h.2 (fun i => if i = 0 then 1 else 0) ⟨0, by omega, by simp⟩
  rw [quadForm_succ] at this
  simpa [quadForm] using this

theorem posDef_schur (n : ℕ) (a : ℕ → ℕ → K) (h : PosDef (n + 1) a) (r : K)
    (hr : r * r = a 0 0) :
    PosDef n (fun i j => a (i + 1) (j + 1) - (a (i + 1) 0 / r) * (a (j + 1) 0 / r)) := by
  have hp := posDef_pivot n a h
  have hr0 : r ≠ 0 := by
    intro h0; rw [h0] at hr; simp at hr; linarith
  refine ⟨?_, ?_⟩
  · intro i j hi hj
    beta_reduce
    rw [h.1 (i + 1) (j + 1) (by omega) (by omega)]
    ring
  · intro y ⟨i0, hi0, hy⟩
    let cc : K := ∑ j ∈ range n, a (j + 1) 0 * y j
    let x : ℕ → K := fun k => if k = 0 then -cc / a 0 0 else y (k - 1)
    have hx := h.2 x ⟨i0 + 1, by omega, by simpa [x] using hy⟩
    rw [quadForm_succ] at hx
    have hx0 : x 0 = -cc / a 0 0 := by simp [x]
    have hxs : (fun i => x (i + 1)) = y := by funext i; simp [x]
    simp only [hxs] at hx
    have hxs' : ∀ i, x (i + 1) = y i := fun i => congrFun hxs i
    simp only [hxs'] at hx
    have h1 : ∑ j ∈ range n, x 0 * a 0 (j + 1) * y j = x 0 * cc := by
      rw [Finset.mul_sum]
      apply Finset.sum_congr rfl
      intro j hj
      rw [h.1 0 (j + 1) (by omega) (by have := Finset.mem_range.mp hj; omega)]
      ring
    have h2 : ∑ i ∈ range n, y i * a (i + 1) 0 * x 0 = cc * x 0 := by
      rw [Finset.sum_mul]
      apply Finset.sum_congr rfl
      intro j _
      ring
    rw [h1, h2, hx0] at hx
    have hs : quadForm n (fun i j => a (i + 1) (j + 1) - (a (i + 1) 0 / r) * (a (j + 1) 0 / r)) y
        = quadForm n (fun i j => a (i + 1) (j + 1)) y - cc * cc / a 0 0 := by
      have hcc : cc * cc = ∑ i ∈ range n, ∑ j ∈ range n, (a (i + 1) 0 * y i) * (a (j + 1) 0 * y j) :=
        Finset.sum_mul_sum _ _ _ _
      unfold quadForm
      rw [hcc, Finset.sum_div, ← Finset.sum_sub_distrib]
      apply Finset.sum_congr rfl
      intro i _
      rw [Finset.sum_div, ← Finset.sum_sub_distrib]
      apply Finset.sum_congr rfl
      intro j _
      rw [← hr]
      field_simp
    rw [hs]
    have e : -cc / a 0 0 * a 0 0 * (-cc / a 0 0) + -cc / a 0 0 * cc + cc * (-cc / a 0 0)
        = - (cc * cc / a 0 0) := by
      field_simp
      ring
    linarith [hx, e]

/-! ### The model's tables -/

/-- The exact instance of the carrier: `Ops` of a linearly ordered field (`top` stands for
`f64::INFINITY`, unused by the linear algebra). -/
def exactOps (K : Type) [Field K] [LinearOrder K] (top : K) : Ops K where
  zero := 0
  inf := top
  sumInit := 0
  add := (· + ·)
  sub := (· - ·)
  mul := (· * ·)
  div := (· / ·)
  min := fun a b => if b < a then b else a
  lt := fun a b => decide (a < b)
  le := fun a b => decide (a ≤ b)

/-- An `n × n` table of a function. -/
def tab (n : ℕ) (f : ℕ → ℕ → K) : List (List K) :=
  (List.range n).map fun i => (List.range n).map fun j => f i j

omit [IsStrictOrderedRing K] in
theorem aTable_eq_tab (top : K) (factors : List K) (n : ℕ) :
    aTable (exactOps K top) factors n = tab n (toep fun d => factors.getD d 0) := rfl

theorem zipWith_map_map {α β γ δ : Type} (G : β → γ → δ) (A : α → β) (B : α → γ) (l : List α) :
    List.zipWith G (l.map A) (l.map B) = l.map fun i => G (A i) (B i) := by
  induction l with
  | nil => rfl
  | cons a l ih => simp [ih]

omit [IsStrictOrderedRing K] in
theorem pivot_tab (top : K) (n : ℕ) (f : ℕ → ℕ → K) :
    pivot (exactOps K top) (tab (n + 1) f) = f 0 0 := by
  simp [pivot, tab, List.range_succ_eq_map]

omit [IsStrictOrderedRing K] in
theorem tail_tab (n : ℕ) (f : ℕ → ℕ → K) :
    (tab (n + 1) f).tail
      = (List.range n).map fun i => (List.range (n + 1)).map fun j => f (i + 1) j := by
  simp [tab, List.range_succ_eq_map (n := n), List.map_map, Function.comp_def]

omit [IsStrictOrderedRing K] in
theorem colBelow_tab (top : K) (sqrt : K → K) (n : ℕ) (f : ℕ → ℕ → K) :
    colBelow (exactOps K top) sqrt (tab (n + 1) f)
      = (List.range n).map fun i => f (i + 1) 0 / sqrt (f 0 0) := by
  unfold colBelow
  rw [pivot_tab, tail_tab, List.map_map]
  apply List.map_congr_left
  intro i _
  simp [Function.comp, exactOps, List.range_succ_eq_map (n := n)]

omit [IsStrictOrderedRing K] in
theorem schur_tab (top : K) (n : ℕ) (f : ℕ → ℕ → K) (g : ℕ → K) :
    schur (exactOps K top) ((List.range n).map g) (tab (n + 1) f)
      = tab n fun i j => f (i + 1) (j + 1) - g i * g j := by
  unfold schur
  rw [tail_tab, zipWith_map_map]
  unfold tab
  apply List.map_congr_left
  intro i _
  have : ((List.range (n + 1)).map fun j => f (i + 1) j).tail
      = (List.range n).map fun j => f (i + 1) (j + 1) := by
    simp [List.range_succ_eq_map (n := n), List.map_map, Function.comp_def]
  rw [this, zipWith_map_map]
  rfl

/-- The square root the exact theorems need: a root of every positive element. -/
def SqrtOk (sqrt : K → K) : Prop := ∀ x : K, 0 < x → sqrt x * sqrt x = x

/-- General form: the model's factorisation of a symmetric positive definite `n × n` table meets
no non-positive pivot. -/
theorem cholFactor_isSome (top : K) (sqrt : K → K) (hsqrt : SqrtOk sqrt) :
    ∀ (n : ℕ) (f : ℕ → ℕ → K), PosDef n f →
      (cholFactor (exactOps K top) sqrt n (tab n f)).isSome = true := by
  intro n
  induction n with
  | zero => intro f _; rfl
  | succ n ih =>
    intro f hf
    have hp := posDef_pivot n f hf
    have hs := posDef_schur n f hf (sqrt (f 0 0)) (hsqrt _ hp)
    have hrec := ih _ hs
    unfold cholFactor
    rw [pivot_tab, colBelow_tab, schur_tab]
    have hlt : (exactOps K top).lt (exactOps K top).zero (f 0 0) = true := by
      simp [exactOps, hp]
    rw [if_pos hlt]
    cases hc : cholFactor (exactOps K top) sqrt n
        (tab n fun i j => f (i + 1) (j + 1) - f (i + 1) 0 / sqrt (f 0 0) * (f (j + 1) 0 / sqrt (f 0 0))) with
    | none => rw [hc] at hrec; cases hrec
    | some rest => rfl

/-! ### `a_matrix` -/

/-- `a_matrix(n)` is symmetric: any carrier, any factors, any size. -/
theorem a_matrix_symmetric {α : Type} (o : Ops α) (factors : List α) (i j : ℕ) :
    aEntry o factors i j = aEntry o factors j i := by
  unfold aEntry
  congr 1
  split <;> split <;> omega

/-- Strict diagonal dominance of the banded Toeplitz matrix of five factors. -/
def NeighbourFactorsOk (factors : List K) : Prop :=
  factors.length = 5
    ∧ 2 * (|factors.getD 1 0| + |factors.getD 2 0| + |factors.getD 3 0| + |factors.getD 4 0|)
        < factors.getD 0 0

theorem offdiag_sum_le (factors : List K) (h5 : factors.length = 5) (n : ℕ) :
    ∑ j ∈ range n, |factors.getD (j + 1) 0|
      ≤ |factors.getD 1 0| + |factors.getD 2 0| + |factors.getD 3 0| + |factors.getD 4 0| := by
  have hz : ∀ k, 5 ≤ k → factors.getD k 0 = 0 := by
    intro k hk
    rw [List.getD_eq_getElem?_getD, List.getElem?_eq_none (by omega)]
    rfl
  have h4 : ∑ j ∈ range 4, |factors.getD (j + 1) 0|
      = |factors.getD 1 0| + |factors.getD 2 0| + |factors.getD 3 0| + |factors.getD 4 0| := by
    simp [Finset.sum_range_succ]
  rw [← h4]
  rcases le_total n 4 with h | h
  · exact Finset.sum_le_sum_of_subset_of_nonneg (Finset.range_mono h) (fun _ _ _ => abs_nonneg _)
  · obtain ⟨k, rfl⟩ := Nat.exists_eq_add_of_le h
    clear h
    induction k with
    | zero => exact le_refl _
    | succ k ih =>
      rw [show 4 + (k + 1) = (4 + k) + 1 by omega, Finset.sum_range_succ, hz _ (by omega)]
      simpa using ih

/-- The exact rational value of a *normal* IEEE-754 double given by its bit pattern. -/
def ratOfBits (b : ℕ) : ℚ :=
  (if b / 2 ^ 63 % 2 = 1 then -1 else 1) * ((2 ^ 52 + b % 2 ^ 52 : ℕ) : ℚ)
    * (2 : ℚ) ^ (((b / 2 ^ 52 % 2048 : ℕ) : ℤ) - 1075)

/-- The exact values of the `f64` literals `[1.0, -0.1275, -0.0365, -0.012, -0.0042]`. -/
def factorsRat : List ℚ :=
  [1, -2296835809958953 / 18014398509481984, -5260204364768739 / 144115188075855872,
   -3458764513820541 / 288230376151711744, -4842270319348757 / 1152921504606846976]

/-- … they are the values of the bit patterns `neighbourFactorBits` (which the `nfactors` request
compares with `NEIGHBOR_FACTORS` of the built code). -/
theorem factorsRat_eq : neighbourFactorBits.map ratOfBits = factorsRat := by
  simp only [neighbourFactorBits, List.map, factorsRat, ratOfBits]
  norm_num

/-- `1 > 2·(0.1275 + 0.0365 + 0.012 + 0.0042)` for the exact values of the `f64` literals: every
row of `a_matrix(n)` is strictly diagonally dominant (a row of the banded Toeplitz matrix holds
each of `f₁ … f₄` at most twice: `offdiag_sum_le`). -/
theorem a_matrix_diag_dominant : NeighbourFactorsOk (neighbourFactorBits.map ratOfBits) := by
  rw [factorsRat_eq]
  refine ⟨rfl, ?_⟩
  simp only [factorsRat, List.getD_cons_succ, List.getD_cons_zero]
  norm_num [abs_of_neg]

/-- `NeighbourFactorsOk` ⇒ `xᵀ·a_matrix(n)·x > 0` for every `x ≠ 0`, any size `n`. -/
theorem a_matrix_pos_def (top : K) (factors : List K) (h : NeighbourFactorsOk factors) (n : ℕ) :
    PosDef n (aEntry (exactOps K top) factors) := by
  have := toeplitz_posDef (fun d => factors.getD d 0)
    (|factors.getD 1 0| + |factors.getD 2 0| + |factors.getD 3 0| + |factors.getD 4 0|)
    (offdiag_sum_le factors h.1) h.2 n
  exact this

/-- The model's Cholesky factorisation of `a_matrix(n)` succeeds for every `n`: no pivot fails
`> 0` in exact arithmetic. -/
theorem cholesky_pivots_pos (top : K) (sqrt : K → K) (hsqrt : SqrtOk sqrt) (factors : List K)
    (h : NeighbourFactorsOk factors) (n : ℕ) :
    (cholFactor (exactOps K top) sqrt n (aTable (exactOps K top) factors n)).isSome = true := by
  rw [aTable_eq_tab]
  exact cholFactor_isSome top sqrt hsqrt n _ (a_matrix_pos_def top factors h n)

/-- The `cholesky_in_place(..).unwrap()` of `wire_range_deconvolution` cannot fail in exact
arithmetic: on a non-empty block the model factorises and goes on to the per-wire sweeps. -/
theorem wireBlock_no_cholesky_panic (top : K) (T : Tables K) (hsqrt : SqrtOk T.sqrt)
    (h : NeighbourFactorsOk T.factors) (signals : List (List K)) (hne : signals ≠ []) :
    ∃ L, cholFactor (exactOps K top) T.sqrt signals.length
          (aTable (exactOps K top) T.factors signals.length) = some L
      ∧ wireBlock (exactOps K top) T signals
          = wireSignalsDeconv (exactOps K top) (cholSolve (exactOps K top) L) T.wireResp signals := by
  have hs := cholesky_pivots_pos top T.sqrt hsqrt T.factors h signals.length
  cases hc : cholFactor (exactOps K top) T.sqrt signals.length
      (aTable (exactOps K top) T.factors signals.length) with
  | none => rw [hc] at hs; cases hs
  | some L =>
    refine ⟨L, rfl, ?_⟩
    rw [wireBlock_eq, hc]
    have : signals.isEmpty = false := by cases signals <;> simp_all
    simp [this]

end field

/-! Non-vacuity: the real numbers with `Real.sqrt` and the exact values of the `f64` literals. -/
example : SqrtOk Real.sqrt := fun _ hx => Real.mul_self_sqrt (le_of_lt hx)
example : NeighbourFactorsOk (factorsRat.map fun q => (q : ℝ)) := by
  refine ⟨rfl, ?_⟩
  simp only [factorsRat]
  norm_num [abs_of_neg]
example : PosDef 40 (aEntry (exactOps ℚ 0) (neighbourFactorBits.map ratOfBits)) :=
  a_matrix_pos_def 0 _ a_matrix_diag_dominant 40

/-! ### Shape of the output -/

variable {α : Type}

/-- `avalanches_shape`: every avalanche returned by `MainEvent::avalanches` (generic model, any
carrier, any `deconvBlock` / `padDeconv`, any sorter)
* sits on a wire `< 256` of the pad column of some *occupied* wire (a wire with a signal);
* its wire amplitude is sample `t` of that wire's deconvolved input — so its time bin is below
  the length of that input, a fortiori below the longest wire input —
* and both amplitudes pass `> 0.0`.
The only law of the carrier used: `0 < a → a < b → 0 < b` (pad hits: `middle > first > 0`);
it holds in `f64` (NaN compares false) and in every ordered field. -/
theorem avalanches_shape (o : Ops α) (g : Geo α) (s : Sorter α) (P : Params α) (ev : Event α)
    (hlt : ∀ a b : α, o.lt o.zero a = true → o.lt a b = true → o.lt o.zero b = true)
    (a : Avalanche α) (ha : a ∈ avalanches o g s P ev) :
    (∃ w, w < 256 ∧ (ev.wires w).isSome = true ∧ a.wire ∈ columnWires (wireToPadColumn w))
      ∧ a.wire < 256
      ∧ (wireInput (assignments P ev) a.wire)[a.t]? = some a.wireAmp
      ∧ a.t < (wireInput (assignments P ev) a.wire).length
      ∧ o.lt o.zero a.wireAmp = true ∧ o.lt o.zero a.padAmp = true :=
  Matching.avalanches_shape o g s hlt P ev a ha

/-- The same for the end-to-end model `Avalanches.run` (the function the driver executes). -/
theorem run_shape (o : Ops α) (g : Geo α) (s : Sorter α) (T : Tables α) (ev : Event α)
    (hlt : ∀ a b : α, o.lt o.zero a = true → o.lt a b = true → o.lt o.zero b = true)
    (r : List (Avalanche α)) (hr : run o g s T ev = .ok r) (a : Avalanche α) (ha : a ∈ r) :
    (∃ w, w < 256 ∧ (ev.wires w).isSome = true ∧ a.wire ∈ columnWires (wireToPadColumn w))
      ∧ a.wire < 256
      ∧ a.t < (wireInput (assignments (params o T) ev) a.wire).length
      ∧ o.lt o.zero a.wireAmp = true ∧ o.lt o.zero a.padAmp = true := by
  have h := avalanches_shape o g s (params o T) ev hlt a (run_ok o g s T ev r hr ▸ ha)
  exact ⟨h.1, h.2.1, h.2.2.2.1, h.2.2.2.2⟩

/-- The transitivity instance holds in every ordered field … -/
example {K : Type} [Field K] [LinearOrder K] [IsStrictOrderedRing K] (top : K) (a b : K)
    (h1 : (exactOps K top).lt (exactOps K top).zero a = true) (h2 : (exactOps K top).lt a b = true) :
    (exactOps K top).lt (exactOps K top).zero b = true := by
  simp only [exactOps, decide_eq_true_eq] at *
  exact lt_trans h1 h2

/-! … and a concrete event (integer carrier, identity deconvolutions) with one avalanche: wire 20
(pad column 1), sample 7 in time bin 1, pad triplet 2 < 5 > 3 on rows 10–12. -/
def exOps : Ops Int where
  zero := 0
  inf := 1000000
  sumInit := 0
  add := (· + ·)
  sub := (· - ·)
  mul := (· * ·)
  div := (· / ·)
  min := fun a b => if b < a then b else a
  lt := fun a b => decide (a < b)
  le := fun a b => decide (a ≤ b)
def exGeo : Geo Int :=
  { log := id, ofNat := Int.ofNat, half := 0, two := 2, width := 4, halfLength := 1152 }
def exSorter : Sorter Int := { perm := fun keys => List.range keys.length }
def exParams : Params Int := { deconvBlock := id, padDeconv := id }
def exEvent : Event Int where
  wires := fun w => if w = 20 then some [0, 7] else none
  pads := fun c r => if c = 1 ∧ r = 10 then some [0, 2] else if c = 1 ∧ r = 11 then some [0, 5]
    else if c = 1 ∧ r = 12 then some [0, 3] else none

set_option maxRecDepth 100000 in
example : (avalanches exOps exGeo exSorter exParams exEvent).map
    (fun a => (a.t, a.wire, a.wireAmp, a.padAmp)) = [(1, 20, 7, 5)] := by decide +kernel

example (a b : Int) (h1 : exOps.lt exOps.zero a = true) (h2 : exOps.lt a b = true) :
    exOps.lt exOps.zero b = true := by
  simp only [exOps, decide_eq_true_eq] at *
  omega

end AlphaG.C13b
