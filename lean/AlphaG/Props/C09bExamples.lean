import AlphaG.Props.C09b
/-
C09b — non-vacuity. A concrete pipeline `xP : Pipe XRat` over the rationals extended by `±inf` and a
NaN (`C14c.XRat`: exact arithmetic on finite values, every operation on a non-finite value and a
division by zero give the NaN; comparisons as in IEEE), for which **all** the named hypotheses
`Laws` are theorems (`xLawsAll`), and concrete events on it:

* `evNaN` — one wire hit, one pad triplet whose Gaussian interpolation divides by zero: the `z` of
  the avalanche is NaN and `vertex()` panics at `find(..).unwrap()` of the drift lookup
  (`vertex_panic_sites` applies, second disjunct);
* `evOne` — the same with another pad triplet: one avalanche, one space point, no cluster, no
  track, no vertex: every hypothesis of `vertex_total_of_no_nan` is discharged and the function
  returns `None`;
* a two-track input of the last stage with a fitted vertex (hypothesis and conclusion of
  `stageVertex_some`, the stage-5 part of `vertex_result_spec`).
A closed `example` of a whole event with a vertex is out of reach of kernel evaluation (two
clusters of ≥ 13 points in a 250 × 230 Hough accumulator, three Nelder–Mead runs); the witnesses of
that hypothesis are the simulated events of harness/src/c09b.rs on the `Float` instance.

The stand-ins for the transcendental functions are arbitrary (no theorem uses a law of them):
`ln x = x - 4` (so that the pad triplet `1, 2, 1` divides by `ln(2²/(1·1)) = 0`), Hough
`sin = cos = 0` (every point votes the bins `(θ, 0)`), the helix functions of `C14c.xH`.
-/
namespace AlphaG.VertexPipeline.Examples
open AlphaG AlphaG.C14c AlphaG.C14c.XRat AlphaG.VertexPipeline
open AlphaG.Cluster AlphaG.NelderMead AlphaG.TrackInit AlphaG.Helix

def xD : Deconv.Ops XRat where
  zero := .fin 0
  inf := .pinf
  sumInit := .fin 0
  add := lift2 (· + ·)
  sub := lift2 (· - ·)
  mul := lift2 (· * ·)
  div := XRat.div
  min := fun a b => if XRat.lt b a then b else a
  lt := XRat.lt
  le := XRat.le

def xGeo : Matching.Geo XRat where
  log := lift1 (fun x => x - 4)
  ofNat := fun n => .fin n
  half := .fin (1 / 2)
  two := .fin 2
  width := .fin (1 / 250)
  halfLength := .fin (144 / 125)

/-- The identity "sort" (no theorem of C09b needs anything of the sorter). -/
def xSorter : Matching.Sorter XRat := { perm := fun keys => List.range keys.length }

/-- Response tables: constant `-1` (17 samples cover every window of both grids); no cross-talk
(`a_matrix` is the identity); `sqrt 1 = 1`. -/
def xTables : Avalanches.Tables XRat where
  wireResp := List.replicate 17 (.fin (-1))
  padResp := List.replicate 17 (.fin (-1))
  factors := [.fin 1]
  sqrt := id

def xDrift : Drift.Ops XRat where
  add := lift2 (· + ·)
  sub := lift2 (· - ·)
  mul := lift2 (· * ·)
  div := XRat.div
  abs := lift1 (fun x => |x|)
  lt := XRat.lt
  le := XRat.le

/-- One z slice `|z| ≤ 10` with two knots: `r` falls from 2 to 1 over `t ∈ [0, 100]`. -/
def xDriftTables : List (Drift.Slice XRat) :=
  [{ table := [⟨.fin 0, .fin 2, .fin 0⟩, ⟨.fin 100, .fin 1, .fin 0⟩], zUpper := .fin 10 }]

def xHough : Hough.Ops XRat where
  add := lift2 (· + ·)
  sub := lift2 (· - ·)
  mul := lift2 (· * ·)
  div := XRat.div
  sqrt := id
  sin := fun _ => .fin 0
  cos := fun _ => .fin 0
  ofU32 := fun n => .fin n
  floorI32 := fun x => match x with | .fin q => Int.floor q | _ => 0
  le := XRat.le
  beq := xT.eq
  fullTurn := .fin 6
  rhoMax := .fin 10

def xConsts : Consts XRat where
  adcRate := .fin 1
  wirePitchPhi := .fin (1 / 100)
  half := .fin (1 / 2)
  maxClusterDistance := .fin (3 / 100)
  epsilon := .fin 1000000
  delta := .fin (1 / 20)
  minTrackLength := .fin (-1000000)
  maxTrackBeamlineDca := .fin 1000000
  maxBeamlineClusteringDistance := .fin 1000000

def xP : Pipe XRat where
  deconv := xD
  geo := xGeo
  sorter := xSorter
  tables := xTables
  drift := xDrift
  driftTables := xDriftTables
  hough := xHough
  fit := xF
  ofNat := fun n => .fin n
  ren := fun _ => ⟨id⟩
  c := xConsts

/-! ### The named hypotheses hold -/

theorem mem_window_replicate (n off la : Nat) (v r : XRat)
    (h : r ∈ Deconv.respWindow (List.replicate n v) off la) : r = v := by
  unfold Deconv.respWindow at h
  exact List.eq_of_mem_replicate (List.mem_of_mem_drop (List.mem_of_mem_take h))

theorem xResponses : ResponsesOk xD xTables where
  wire := by
    intro off la h1 h2 h3
    refine ⟨by simp [xTables]; omega, ?_⟩
    intro r hr
    rw [mem_window_replicate 17 off la _ r hr]
    decide
  pad := by
    intro off la h1 h2 h3 h4
    refine ⟨by simp [xTables]; omega, ?_⟩
    intro r hr
    rw [mem_window_replicate 17 off la _ r hr]
    decide

theorem xDriftShape : DriftShape xDriftTables := by
  refine ⟨by simp [xDriftTables], ?_⟩
  intro sl hsl
  simp only [xDriftTables, List.mem_singleton] at hsl
  subst hsl
  simp

theorem xEq_iff (a b : XRat) : xT.eq a b = true ↔ a = b ∧ a ≠ .nan := by
  cases a <;> cases b <;> simp [xT]

theorem xBeqPER : Hough.BeqPER xHough where
  symm := by
    intro a b h
    have := (xEq_iff a b).1 h
    exact (xEq_iff b a).2 ⟨this.1.symm, this.1 ▸ this.2⟩
  trans := by
    intro a b c h1 h2
    have e1 := (xEq_iff a b).1 h1
    have e2 := (xEq_iff b c).1 h2
    exact (xEq_iff a c).2 ⟨e1.1.trans e2.1, e1.2⟩

theorem xEqCompat : Hough.EqCompat xHough Eq where
  refl := fun _ => rfl
  of_beq := fun a b h => ((xEq_iff a b).1 h).1
  mul_self := fun a b h => by rw [((xEq_iff a b).1 h).1]
  mul := fun _ _ _ _ h1 h2 => by rw [h1, h2]
  add := fun _ _ _ _ h1 h2 => by rw [h1, h2]
  div_left := fun _ _ _ h => by rw [h]
  sin := fun _ _ h => by rw [h]
  cos := fun _ _ h => by rw [h]
  floor := fun _ _ h => by rw [h]

theorem xClusterLaws : ClusterLaws xP Eq where
  beqPER := xBeqPER
  eqCompat := xEqCompat
  renInj := fun _ _ _ _ _ _ _ h => h

theorem xCmp_none (a b : XRat) : xT.cmp a b = none ↔ a = .nan ∨ b = .nan := by
  have key : ∀ (p q : Bool), (if p then some Ordering.lt else if q then some Ordering.gt else some Ordering.eq) ≠ none := by
    intro p q; cases p <;> cases q <;> simp
  cases a <;> cases b <;> simp [xT, key]

/-- Results of the lifted binary operations are finite or the NaN. -/
def FinOrNaN (x : XRat) : Prop := (∃ q, x = .fin q) ∨ x = .nan

theorem lift2_finOrNaN (f : ℚ → ℚ → ℚ) (a b : XRat) : FinOrNaN (lift2 f a b) := by
  cases a <;> cases b <;> simp [lift2, FinOrNaN]

theorem sumChecked_num {ε : Type} (site : String) (l : List XRat) (acc : XRat) (c : XRat)
    (hacc : ∃ q, acc = .fin q) (hl : ∀ v ∈ l, FinOrNaN v)
    (h : sumChecked (ε := ε) xF site acc l = .ok c) : c ≠ .nan := by
  induction l generalizing acc with
  | nil =>
    simp only [sumChecked, Outcome.ok.injEq] at h
    obtain ⟨q, rfl⟩ := hacc
    subst h
    simp
  | cons v vs ih =>
    unfold sumChecked at h
    split at h
    · cases h
    · rename_i hnan
      have hv : ∃ q, v = .fin q := by
        rcases hl v (by simp) with h | h
        · exact h
        · subst h; simp [xF] at hnan
      obtain ⟨q, rfl⟩ := hacc
      obtain ⟨q', rfl⟩ := hv
      exact ih _ ⟨q + q', by simp [xF, xT, xH, lift2]⟩ (fun w hw => hl w (by simp [hw])) h

theorem xFitLaws : FitLaws xP (fun x => x ≠ XRat.nan) (fun x => x = XRat.nan) where
  ord := xLaws
  cmpNan := xCmp_none
  trackCostNum := by
    intro pts x c h
    unfold trackCost at h
    split at h
    · cases h
    · refine sumChecked_num _ _ _ c ⟨0, rfl⟩ ?_ h
      intro v hv
      rw [List.mem_map] at hv
      obtain ⟨p, _, rfl⟩ := hv
      exact lift2_finOrNaN _ _ _
  vertexCostNum := by
    intro tracks x c h
    unfold vertexCost at h
    split at h
    · cases h
    · refine sumChecked_num _ _ _ c ⟨0, rfl⟩ ?_ h
      intro v hv
      rw [List.mem_map] at hv
      obtain ⟨p, _, rfl⟩ := hv
      exact lift2_finOrNaN _ _ _
  tolOk := by decide

theorem xTrackEqLaws : TrackEqLaws xP where
  symm := xBeqPER.symm
  trans := xBeqPER.trans
  zero := by decide

/-- Every named hypothesis of C09b holds for `xP`. -/
theorem xLawsAll : Laws xP Eq (fun x => x ≠ XRat.nan) (fun x => x = XRat.nan) where
  responses := xResponses
  driftShape := xDriftShape
  cluster := xClusterLaws
  fit := xFitLaws
  trackEq := xTrackEqLaws

/-! ### Concrete events -/

deriving instance DecidableEq for AlphaG.Matching.Avalanche
deriving instance DecidableEq for AlphaG.Hough.Point
deriving instance DecidableEq for AlphaG.Helix.Params
deriving instance DecidableEq for AlphaG.TrackInit.TrackP

/-- A pulse of amplitude `a` at time bin 0 (constant response `-1` over 17 samples, 3 trailing zeros). -/
def pulse (a : ℚ) : List XRat := List.replicate 17 (.fin (-a)) ++ List.replicate 3 (.fin 0)

/-- One hit of amplitude 7 on wire 20 (pad column 1); the pads of rows 10, 11, 12 of that column see
the amplitudes `f, m, l`. -/
def mkEv (f m l : ℚ) : Matching.Event XRat where
  wires := fun w => if w = 20 then some (pulse 7) else none
  pads := fun c r => if c = 1 ∧ r = 10 then some (pulse f) else if c = 1 ∧ r = 11 then some (pulse m)
    else if c = 1 ∧ r = 12 then some (pulse l) else none

/-- `ln(2²/(1·1)) = 0` with the stand-in `ln x = x - 4`: σ² is a division by zero, `z` is NaN. -/
def evNaN : Matching.Event XRat := mkEv 1 2 1
def evOne : Matching.Event XRat := mkEv 1 3 1

def aNaN : Matching.Avalanche XRat := ⟨0, 20, .nan, .fin 7, .fin 2⟩
def aOne : Matching.Avalanche XRat := ⟨0, 20, .fin (-692 / 625), .fin 7, .fin 3⟩
def pOne : Hough.Point XRat := ⟨.fin 2, .fin (1 / 8), .fin (-692 / 625)⟩

set_option maxRecDepth 100000

theorem evNaN_avalanches : stageAvalanches xP evNaN = .ok [aNaN] := by decide +kernel

/-- **(a) is not vacuous**: an event on which `vertex()` panics, at `find(..).unwrap()`. -/
theorem evNaN_panics : vertexOfSignals xP evNaN = .panic "drift:find" := by decide +kernel

/-- … and the inventory names exactly this: the second disjunct, with the NaN `z` as witness. -/
example : ∃ avs, stageAvalanches xP evNaN = .ok avs ∧ ∃ a ∈ avs, ZIncomparable xP a.z := by
  rcases vertex_panic_sites xLawsAll evNaN _ evNaN_panics with ⟨h, _⟩ | ⟨_, h⟩ | ⟨h, _⟩ | h | h
  · exact absurd h (by decide)
  · exact h
  · exact absurd h (by decide)
  · obtain ⟨avs, pts, _, h1, h2, _⟩ := h
    rw [evNaN_avalanches] at h1
    cases h1
    have : stagePoints xP [aNaN] = .panic "drift:find" := by decide +kernel
    rw [this] at h2
    cases h2
  · obtain ⟨avs, pts, _, _, h1, h2, _⟩ := h
    rw [evNaN_avalanches] at h1
    cases h1
    have : stagePoints xP [aNaN] = .panic "drift:find" := by decide +kernel
    rw [this] at h2
    cases h2

example : ZIncomparable xP aNaN.z := by
  refine ⟨?_, ?_⟩
  · intro sl hsl
    simp only [xP, xDriftTables, List.mem_singleton] at hsl
    subst hsl
    decide
  · intro last hlast
    simp only [xP, xDriftTables, List.getLast?_singleton, Option.some.injEq] at hlast
    subst hlast
    decide

theorem evOne_avalanches : stageAvalanches xP evOne = .ok [aOne] := by decide +kernel
theorem evOne_points : stagePoints xP [aOne] = .ok #[pOne] := by decide +kernel
theorem evOne_clusters : stageClusters xP #[pOne] = .ok ⟨[], [0]⟩ := by decide +kernel
theorem evOne_tracks : stageTracks xP #[pOne] [] = .ok #[] := rfl

theorem fsum_zeros (a : List Nat) : TrackInit.fsum xT (a.map fun _ => XRat.fin 0) = .fin 0 := by
  unfold TrackInit.fsum
  suffices h : ∀ (l : List XRat) (acc : XRat), acc = .fin 0 → (∀ x ∈ l, x = .fin 0) →
      l.foldl xT.h.add acc = .fin 0 by
    exact h _ _ rfl (by simp)
  intro l
  induction l with
  | nil => intro acc h _; simpa using h
  | cons x l ih =>
    intro acc hacc hl
    simp only [List.foldl_cons]
    apply ih
    · rw [hacc, hl x (by simp)]
      simp [xT, xH, lift2]
    · intro y hy
      exact hl y (by simp [hy])

/-- **(b) is not vacuous**: every hypothesis of `vertex_total_of_no_nan` holds for `evOne` (one
avalanche, one space point, no cluster). -/
theorem evOne_total : ∃ v, vertexOfSignals xP evOne = .ok v := by
  apply vertex_total_of_no_nan xLawsAll evOne
  · intro r hr
    have : Ranges.contiguousRanges (Matching.occupancy evOne) = [(20, 21)] := by decide +kernel
    rw [this, List.mem_singleton] at hr
    subst hr
    unfold PivotFails
    decide +kernel
  · intro avs h a ha
    rw [evOne_avalanches] at h
    cases h
    rw [List.mem_singleton] at ha
    subst ha
    rintro ⟨hall, _⟩
    have := hall _ (List.mem_singleton.2 rfl)
    revert this
    decide +kernel
  · intro avs pts ha hp
    rw [evOne_avalanches] at ha
    cases ha
    rw [evOne_points] at hp
    cases hp
    intro p hp
    simp only [List.mem_toArray, List.mem_singleton] at hp
    subst hp
    decide +kernel
  · intro avs pts r ha hp hr c hc
    rw [evOne_avalanches] at ha
    cases ha
    rw [evOne_points] at hp
    cases hp
    rw [evOne_clusters] at hr
    cases hr
    cases hc
  · intro avs pts r ts ha hp hr ht
    rw [evOne_avalanches] at ha
    cases ha
    rw [evOne_points] at hp
    cases hp
    rw [evOne_clusters] at hr
    cases hr
    rw [evOne_tracks] at ht
    cases ht
    refine ⟨?_, ?_, ?_, ?_⟩
    · intro t ht; simp at ht
    · intro t ht; simp at ht
    · intro a b h
      have h' := (xCmp_none _ _).1 h
      have hz : ∀ l : List Nat,
          TrackInit.fsum xP.fit.t (l.map fun i => ((#[] : Array (TrackP XRat)).getD i (dfltTrack xP)).q.r)
            = .fin 0 := by
        intro l
        have : (fun i : Nat => ((#[] : Array (TrackP XRat)).getD i (dfltTrack xP)).q.r)
            = fun _ => XRat.fin 0 := by
          funext i
          simp [Array.getD, dfltTrack, xP, xF, xT, xH]
        rw [this]
        exact fsum_zeros l
      rcases h' with h' | h'
      · rw [hz a] at h'; cases h'
      · rw [hz b] at h'; cases h'
    · intro x hx t ht; simp at ht

example : vertexOfSignals xP evOne = .ok none := by decide +kernel

/-! ### Stage 5 with a fitted vertex -/

/-- Two tracks (those of `C14c`'s vertex-fit example); with the stand-in constants both pass the
filters, form one beamline cluster, and the minimiser stops at its first convergence test. -/
theorem twoTracks_vertex :
    stageVertex xP #[trA, trB] = .ok (some (.fin 0, .fin 0, .fin (7 / 50))) := by decide +kernel

/-- The stage-5 part of **(c) is not vacuous**: hypothesis and conclusion of `stageVertex_some`. -/
example : ∃ vf, vertexFitOf xP #[trA, trB] = .ok (some vf) ∧
    vf.position = (.fin 0, .fin 0, .fin (7 / 50)) ∧ 2 ≤ vf.cluster.length ∧
    FittedVertex xP #[trA, trB] vf := by
  obtain ⟨vf, h1, h2, _, h3, _, h4⟩ := stageVertex_some xFitLaws #[trA, trB] _ twoTracks_vertex
  exact ⟨vf, h1, h2, h3, h4⟩

end AlphaG.VertexPipeline.Examples
