import AlphaG.Props.C09b
/-
C09b — non-vacuity. A concrete pipeline `xP : Pipe XRat` over the rationals extended by `±inf` and a
NaN (`C14c.XRat`: exact arithmetic on finite values, every operation on a non-finite value and a
division by zero give the NaN; comparisons as in IEEE), for which **all** the named hypotheses
`Laws` are theorems (`xLawsAll`), and concrete events on it:

* `evNaN` — one wire hit, one pad triplet whose Gaussian interpolation divides by zero: the `z` of
  the avalanche is NaN and `vertex()` panics at `find(..).unwrap()` of the drift lookup
  (`vertex_panic_sites` applies, second disjunct);
* `evOne` — the same with another pad triplet: one avalanche, one space point, no cluster, no
  track, no vertex: every hypothesis of `vertex_total_of_no_nan` is discharged and the function
  returns `None`;
* a two-track input of the last stage with a fitted vertex (hypothesis and conclusion of
  `stageVertex_some`, the stage-5 part of `vertex_result_spec`).
A closed `example` of a whole event with a vertex is out of reach of kernel evaluation (two
clusters of ≥ 13 points in a 250 × 230 Hough accumulator, three Nelder–Mead runs); the witnesses of
that hypothesis are the simulated events of harness/src/c09b.rs on the `Float` instance.

The stand-ins for the transcendental functions are arbitrary (no theorem uses a law of them):
`ln x = x - 4` (so that the pad triplet `1, 2, 1` divides by `ln(2²/(1·1)) = 0`), Hough
`sin = cos = 0` (every point votes the bins `(θ, 0)`), the helix functions of `C14c.xH`.
-/
namespace AlphaG.VertexPipeline.Examples
open AlphaG AlphaG.C14c AlphaG.C14c.XRat AlphaG.VertexPipeline
open AlphaG.Cluster AlphaG.NelderMead AlphaG.TrackInit AlphaG.Helix

def xD : Deconv.Ops XRat where
  zero := .fin 0
  inf := .pinf
  sumInit := .fin 0
  add := lift2 (· + ·)
  sub := lift2 (· - ·)
  mul := lift2 (· * ·)
  div := XRat.div
  min := fun a b => if XRat.lt b a then b else a
  lt := XRat.lt
  le := XRat.le

def xGeo : Matching.Geo XRat where
  log := lift1 (fun x => x - 4)
  ofNat := fun n => .fin n
  half := .fin (1 / 2)
  two := .fin 2
  width := .fin (1 / 250)
  halfLength := .fin (144 / 125)

/-- The identity "sort" (no theorem of C09b needs anything of the sorter). -/
def xSorter : Matching.Sorter XRat := { perm := fun keys => List.range keys.length }

/-- Response tables: constant `-1` (17 samples cover every window of both grids); no cross-talk
(`a_matrix` is the identity); `sqrt 1 = 1`. -/
def xTables : Avalanches.Tables XRat where
  wireResp := List.replicate 17 (.fin (-1))
  padResp := List.replicate 17 (.fin (-1))
  factors := [.fin 1]
  sqrt := id

def xDrift : Drift.Ops XRat where
  add := lift2 (· + ·)
  sub := lift2 (· - ·)
  mul := lift2 (· * ·)
  div := XRat.div
  abs := lift1 (fun x => |x|)
  lt := XRat.lt
  le := XRat.le

/-- One z slice `|z| ≤ 10` with two knots: `r` falls from 2 to 1 over `t ∈ [0, 100]`. -/
def xDriftTables : List (Drift.Slice XRat) :=
  [{ table := [⟨.fin 0, .fin 2, .fin 0⟩, ⟨.fin 100, .fin 1, .fin 0⟩], zUpper := .fin 10 }]

def xHough : Hough.Ops XRat where
  add := lift2 (· + ·)
  sub := lift2 (· - ·)
  mul := lift2 (· * ·)
  div := XRat.div
  sqrt := id
  sin := fun _ => .fin 0
  cos := fun _ => .fin 0
  ofU32 := fun n => .fin n
  floorI32 := fun x => match x with | .fin q => Int.floor q | _ => 0
  le := XRat.le
  beq := xT.eq
  fullTurn := .fin 6
  rhoMax := .fin 10

def xConsts : Consts XRat where
  adcRate := .fin 1
  wirePitchPhi := .fin (1 / 100)
  half := .fin (1 / 2)
  maxClusterDistance := .fin (3 / 100)
  epsilon := .fin 1000000
  delta := .fin (1 / 20)
  minTrackLength := .fin (-1000000)
  maxTrackBeamlineDca := .fin 1000000
  maxBeamlineClusteringDistance := .fin 1000000

def xP : Pipe XRat where
  deconv := xD
  geo := xGeo
  sorter := xSorter
  tables := xTables
  drift := xDrift
  driftTables := xDriftTables
  hough := xHough
  fit := xF
  ofNat := fun n => .fin n
  ren := fun _ => ⟨id⟩
  c := xConsts

/-! ### The named hypotheses hold -/

theorem mem_window_replicate (n off la : Nat) (v r : XRat)
    (h : r ∈ Deconv.respWindow (List.replicate n v) off la) : r = v := by
  unfold Deconv.respWindow at h
  exact List.eq_of_mem_replicate (List.mem_of_mem_drop (List.mem_of_mem_take h))

theorem xResponses : ResponsesOk xD xTables where
  wire := by
    intro off la h1 h2 h3
    refine ⟨by simp [xTables]; omega, ?_⟩
    intro r hr
    rw [mem_window_replicate 17 off la _ r hr]
    decide
  pad := by
    intro off la h1 h2 h3 h4
    refine ⟨by simp [xTables]; omega, ?_⟩
    intro r hr
    rw [mem_window_replicate 17 off la _ r hr]
    decide

theorem xDriftShape : DriftShape xDriftTables := by
  refine ⟨by simp [xDriftTables], ?_⟩
  intro sl hsl
  simp only [xDriftTables, List.mem_singleton] at hsl
  subst hsl
  simp

theorem xEq_iff (a b : XRat) : xT.eq a b = true ↔ a = b ∧ a ≠ .nan := by
  cases a <;> cases b <;> simp [xT]

theorem xBeqPER : Hough.BeqPER xHough where
  symm := by
    intro a b h
    have := (xEq_iff a b).1 h
    exact (xEq_iff b a).2 ⟨this.1.symm, this.1 ▸ this.2⟩
  trans := by
    intro a b c h1 h2
    have e1 := (xEq_iff a b).1 h1
    have e2 := (xEq_iff b c).1 h2
    exact (xEq_iff a c).2 ⟨e1.1.trans e2.1, e1.2⟩

theorem xEqCompat : Hough.EqCompat xHough Eq where
  refl := fun _ => rfl
  of_beq := fun a b h => ((xEq_iff a b).1 h).1
  mul_self := fun a b h => by rw [((xEq_iff a b).1 h).1]
  mul := fun _ _ _ _ h1 h2 => by rw [h1, h2]
  add := fun _ _ _ _ h1 h2 => by rw [h1, h2]
  div_left := fun _ _ _ h => by rw [h]
  sin := fun _ _ h => by rw [h]
  cos := fun _ _ h => by rw [h]
  floor := fun _ _ h => by rw [h]

theorem xClusterLaws : ClusterLaws xP Eq where
  beqPER := xBeqPER
  eqCompat := xEqCompat
  renInj := fun _ _ _ _ _ _ _ h => h

theorem xCmp_none (a b : XRat) : xT.cmp a b = none ↔ a = .nan ∨ b = .nan := by
  have key : ∀ (p q : Bool), (if p then some Ordering.lt else if q then some Ordering.gt else some Ordering.eq) ≠ none := by
    intro p q; cases p <;> cases q <;> simp
  cases a <;> cases b <;> simp [xT, key]

/-- Results of the lifted binary operations are finite or the NaN. -/
def FinOrNaN (x : XRat) : Prop := (∃ q, x = .fin q) ∨ x = .nan

theorem lift2_finOrNaN (f : ℚ → ℚ → ℚ) (a b : XRat) : FinOrNaN (lift2 f a b) := by
  cases a <;> cases b <;> simp [lift2, FinOrNaN]

theorem sumChecked_num {ε : Type} (site : String) (l : List XRat) (acc : XRat) (c : XRat)
    (hacc : ∃ q, acc = .fin q) (hl : ∀ v ∈ l, FinOrNaN v)
    (h : sumChecked (ε := ε) xF site acc l = .ok c) : c ≠ .nan := by
  induction l generalizing acc with
  | nil =>
    simp only [sumChecked, Outcome.ok.injEq] at h
    obtain ⟨q, rfl⟩ := hacc
    subst h
    simp
  | cons v vs ih =>
    unfold sumChecked at h
    split at h
    · cases h
    · rename_i hnan
      have hv : ∃ q, v = .fin q := by
        rcases hl v (by simp) with h | h
        · exact h
        · subst h; simp [xF] at hnan
      obtain ⟨q, rfl⟩ := hacc
      obtain ⟨q', rfl⟩ := hv
      exact ih _ ⟨q + q', by simp [xF, xT, xH, lift2]⟩ (fun w hw => hl w (by simp [hw])) h

theorem xFitLaws : FitLaws xP (fun x => x ≠ XRat.nan) (fun x => x = XRat.nan) where
  ord := xLaws
  cmpNan := xCmp_none
  trackCostNum := by
    intro pts x c h
    unfold trackCost at h
    split at h
    · cases h
    · refine sumChecked_num _ _ _ c ⟨0, rfl⟩ ?_ h
      intro v hv
      rw [List.mem_map] at hv
      obtain ⟨p, _, rfl⟩ := hv
      exact lift2_finOrNaN _ _ _
  vertexCostNum := by
    intro tracks x c h
    unfold vertexCost at h
    split at h
    · cases h
    · refine sumChecked_num _ _ _ c ⟨0, rfl⟩ ?_ h
      intro v hv
      rw [List.mem_map] at hv
      obtain ⟨p, _, rfl⟩ := hv
      exact lift2_finOrNaN _ _ _
  tolOk := by decide

theorem xTrackEqLaws : TrackEqLaws xP where
  symm := xBeqPER.symm
  trans := xBeqPER.trans
  zero := by decide

/-- Every named hypothesis of C09b holds for `xP`. -/
theorem xLawsAll : Laws xP Eq (fun x => x ≠ XRat.nan) (fun x => x = XRat.nan) where
  responses := xResponses
  driftShape := xDriftShape
  cluster := xClusterLaws
  fit := xFitLaws
  trackEq := xTrackEqLaws

end AlphaG.VertexPipeline.Examples
