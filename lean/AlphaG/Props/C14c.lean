import AlphaG.Lemmas.NelderMeadStep
import AlphaG.Props.C14b
/-
C14c — theorems about the Nelder–Mead solver/executor model and the two fits built on it
(model: AlphaG/Model/NelderMead.lean, tied bit for bit to argmin 0.8.1 + track_fitting.rs +
vertex_fitting.rs by harness/src/c14c.rs).

Setting. `o : NOps α` is an arbitrary carrier. No arithmetic law is assumed anywhere: `+ - * / sqrt`
are arbitrary functions. The only assumptions are *order* laws `OrdLaws o Num` on the values
satisfying a predicate `Num` ("not NaN": strict weak order, `a ≤ b ↔ ¬ b < a`, every `Num` value is
`< +inf` or is `+inf`) and `CostSpec cost Num n cs`: on vectors of dimension `n` the cost function
returns a `Num` value or panics at its own site `cs`. Both hold for `f64` with `Num x := ¬ x.is_nan()`
and the two cost functions of the fits (their `assert!(!val.is_nan())` is the site `cs`), and for every
linear order with `Num := True` (`ERat` below is the non-vacuity instance).

Site inventory of the modelled argmin / glue code (every `unwrap`, index, assert):
  siteSdTol        `with_sd_tolerance(tol).unwrap()`          fires iff `tol < 0`            (`run_sdTol_iff`)
  siteInitIndex    `self.params[0]` in `init`                  unreachable for n+1 ≥ 1 vertices
  siteIndex        `params[0]`, `params[len-1]`, `params[len-2]`, `len - 1` in `next_iter`,
                   `calculate_centroid`, `shrink`              unreachable for n+1 ≥ 2 vertices
  siteVecAdd/Sub   argmin-math `assert!(n > 0)`, `assert_eq!(n1, n2)`   unreachable: all vertices have dimension n ≥ 1
  siteUnreachable  `Err(PotentialBug "Reached unreachable point")` + `.run().unwrap()`
                                                               unreachable when no cost is NaN
  siteBestParam    `res.state.best_param.unwrap()`             unreachable when no cost is NaN
  siteBestIndex    `best_params[i]`                            unreachable: the result has dimension n
  siteCostIndex    `p[i]` in the cost functions                unreachable: only vectors of dimension n are evaluated
  cs               the cost function's own `assert!(!val.is_nan())`   the ONLY panic route (`nm_panic_only_cost`)
all in `nm_cases` / `minimize_cases`.

Theorems:
  (a) `nm_terminates_shape`         at most `max_iters` iterations; the simplex always has n+1 vertices of dimension n
  (b) `step_best_monotone`, `nm_best_monotone`   the reported best cost never increases from one iteration to the next
      `nm_result_spec`              the returned parameter was evaluated, its cost is ≤ the cost of every vertex of
                                    the initial simplex
  (c) `nm_no_panic_of_total_cost`, `nm_panic_only_cost`, `fit_panic_iff`, `fit_panic_iff_full`,
      `vertex_fit_panic_sites`
  (d) `sortSimplex_perm` (Lemmas), `shrink_keeps_best`, `best_param_is_first_vertex`, `fit_ok_spec`
-/
namespace AlphaG.C14c
open AlphaG AlphaG.NelderMead AlphaG.Helix AlphaG.TrackInit

/-! ## The solver -/

section Solver
variable {α ε : Type} {o : NOps α} {cost : List α → Outcome ε α} {Num : α → Prop} {n : Nat} {cs : String}

/-- The executor-loop invariant: the simplex has the right shape, every vertex carries its (non-NaN)
cost, and `IterState`'s best parameter / best cost are the first vertex of the (sorted) simplex. -/
structure Inv (cost : List α → Outcome ε α) (Num : α → Prop) (n : Nat) (st : State α) : Prop where
  shape : Shape n st.simplex
  evaluated : Evaluated cost Num st.simplex
  best : ∃ h, st.simplex.head? = some h ∧ st.bestParam = some h.1 ∧ st.bestCost = h.2

theorem Inv.bestNum {st : State α} (h : Inv cost Num n st) : Num st.bestCost := by
  obtain ⟨v, hv, _, hc⟩ := h.best
  rw [hc]
  exact (h.evaluated v (List.mem_of_mem_head? hv)).2

theorem sort_cases (L : OrdLaws o Num) (h : Vertex α) (rest : List (Vertex α))
    (hev : Evaluated cost Num (h :: rest)) :
    ∃ tl, sortSimplex o (h :: rest) = firstMin o h rest :: tl :=
  List.head?_eq_some_iff.1 (sortSimplex_head L h rest (fun v hv => (hev v hv).2))

theorem update_eq (h m : Vertex α) (hm : m = h ∨ o.lt m.2 h.2 = true) :
    update o (some h.1) h.2 m = (some m.1, m.2) := by
  unfold update
  split
  · rfl
  · rename_i hacc
    rcases hm with rfl | hlt
    · rfl
    · exact absurd (by simp [accepts, hlt]) hacc

theorem shape_of_perm {s s' : List (Vertex α)} (hp : s'.Perm s) (hs : Shape n s) : Shape n s' :=
  ⟨hp.length_eq.trans hs.1, fun v hv => hs.2 v (hp.mem_iff.1 hv)⟩

theorem evaluated_of_perm {s s' : List (Vertex α)} (hp : s'.Perm s) (hs : Evaluated cost Num s) :
    Evaluated cost Num s' := fun v hv => hs v (hp.mem_iff.1 hv)

/-- One pass of the executor loop. -/
theorem step_cases (L : OrdLaws o Num) (hn : 0 < n) (hc : CostSpec cost Num n cs) (st : State α)
    (hinv : Inv cost Num n st) :
    (∃ st', step o cost st = .ok st' ∧ Inv cost Num n st' ∧ o.lt st.bestCost st'.bestCost = false ∧
        st'.trace.length = st.trace.length + 1) ∨
    (step o cost st = .panic cs ∧ ∃ x, x.length = n ∧ cost x = .panic cs) := by
  obtain ⟨h, hh, hbp, hbc⟩ := hinv.best
  rcases nextIter_cases L hn hc st.simplex hinv.shape hinv.evaluated with ⟨s', a, hr, hs', hev', hhead⟩ | ⟨hp, hx⟩
  · rw [hh] at hhead
    obtain ⟨rest, rfl⟩ := List.head?_eq_some_iff.1 hhead
    obtain ⟨tl, hsort⟩ := sort_cases L h rest hev'
    have hperm : (firstMin o h rest :: tl).Perm (h :: rest) := hsort ▸ sortSimplex_perm o (h :: rest)
    have hnum : ∀ v ∈ h :: rest, Num v.2 := fun v hv => (hev' v hv).2
    have hupd := update_eq (o := o) h (firstMin o h rest) (firstMin_eq_or_lt L h rest hnum)
    left
    refine ⟨⟨firstMin o h rest :: tl, some (firstMin o h rest).1, (firstMin o h rest).2, a :: st.trace⟩, ?_, ?_, ?_, ?_⟩
    · unfold step
      rw [hr]
      simp only [bind_ok', hsort, hbp, hbc, hupd]
    · exact ⟨shape_of_perm hperm hs', evaluated_of_perm hperm hev', _, rfl, rfl, rfl⟩
    · show o.lt st.bestCost (firstMin o h rest).2 = false
      rw [hbc]
      exact firstMin_le L h rest hnum h (by simp)
    · simp
  · right
    unfold step
    rw [hp]
    exact ⟨rfl, hx⟩

/-- **(b) `step_best_monotone`.** The best cost the executor reports after an iteration is never
above the one it reported before (`¬ old < new`; for non-NaN values this is `new ≤ old`). -/
theorem step_best_monotone (L : OrdLaws o Num) (hn : 0 < n) (hc : CostSpec cost Num n cs) (st st' : State α)
    (hinv : Inv cost Num n st) (h : step o cost st = .ok st') :
    o.lt st.bestCost st'.bestCost = false ∧ Inv cost Num n st' := by
  rcases step_cases L hn hc st hinv with ⟨st'', h1, h2, h3, _⟩ | ⟨h1, _⟩
  · rw [h1] at h; cases h; exact ⟨h3, h2⟩
  · rw [h1] at h; cases h

/-- The whole executor loop with `fuel = max_iters - iter`. -/
theorem loop_cases (L : OrdLaws o Num) (hn : 0 < n) (hc : CostSpec cost Num n cs) (tol : α) (fuel : Nat)
    (st : State α) (hinv : Inv cost Num n st) :
    (∃ st', loop o cost tol fuel st = .ok st' ∧ Inv cost Num n st' ∧ o.lt st.bestCost st'.bestCost = false ∧
        st'.trace.length ≤ st.trace.length + fuel) ∨
    (loop o cost tol fuel st = .panic cs ∧ ∃ x, x.length = n ∧ cost x = .panic cs) := by
  induction fuel generalizing st with
  | zero => exact Or.inl ⟨st, rfl, hinv, L.lt_irrefl _ hinv.bestNum, by simp⟩
  | succ fuel ih =>
    unfold loop
    by_cases hstop : stops o tol st = true
    · rw [if_pos hstop]
      exact Or.inl ⟨st, rfl, hinv, L.lt_irrefl _ hinv.bestNum, by omega⟩
    · rw [if_neg hstop]
      rcases step_cases L hn hc st hinv with ⟨st1, h1, hinv1, hmono1, hlen1⟩ | ⟨h1, hx⟩
      · rw [h1]
        simp only [bind_ok']
        rcases ih st1 hinv1 with ⟨st2, h2, hinv2, hmono2, hlen2⟩ | ⟨h2, hx⟩
        · refine Or.inl ⟨st2, h2, hinv2, ?_, by omega⟩
          exact L.lt_negtrans _ _ _ hinv.bestNum hinv1.bestNum hinv2.bestNum hmono1 hmono2
        · exact Or.inr ⟨h2, hx⟩
      · rw [h1]
        exact Or.inr ⟨rfl, hx⟩

/-- **(b) `nm_best_monotone`.** Along the whole executor loop (any number of remaining iterations) the
reported best cost at the end is never above the one at the start; `step_best_monotone` is the
single-iteration version, and the invariant is preserved. -/
theorem nm_best_monotone (L : OrdLaws o Num) (hn : 0 < n) (hc : CostSpec cost Num n cs) (tol : α) (fuel : Nat)
    (st st' : State α) (hinv : Inv cost Num n st) (h : loop o cost tol fuel st = .ok st') :
    o.lt st.bestCost st'.bestCost = false ∧ Inv cost Num n st' ∧ st'.trace.length ≤ st.trace.length + fuel := by
  rcases loop_cases L hn hc tol fuel st hinv with ⟨st'', h1, h2, h3, h4⟩ | ⟨h1, _⟩
  · rw [h1] at h; cases h; exact ⟨h3, h2, h4⟩
  · rw [h1] at h; cases h

theorem evalAll_cases (hc : CostSpec cost Num n cs) (ps : List (List α)) (hps : ∀ p ∈ ps, p.length = n) :
    (∃ vs, evalAll cost ps = .ok vs ∧ vs.map Prod.fst = ps ∧ Evaluated cost Num vs) ∨
    (evalAll cost ps = .panic cs ∧ ∃ x, x.length = n ∧ cost x = .panic cs) := by
  induction ps with
  | nil => exact Or.inl ⟨[], rfl, rfl, by intro v hv; cases hv⟩
  | cons p ps ih =>
    unfold evalAll
    rcases hc p (hps p (by simp)) with ⟨c, hcp, hcn⟩ | hpan
    · rw [hcp]
      simp only [bind_ok']
      rcases ih (fun q hq => hps q (by simp [hq])) with ⟨vs, hvs, hmap, hev⟩ | ⟨hp, hx⟩
      · rw [hvs]
        refine Or.inl ⟨(p, c) :: vs, rfl, by simp [hmap], ?_⟩
        intro v hv
        rcases List.mem_cons.1 hv with h | h
        · rw [h]; exact ⟨hcp, hcn⟩
        · exact hev v h
      · rw [hp]; exact Or.inr ⟨rfl, hx⟩
    · rw [hpan]; exact Or.inr ⟨rfl, p, hps p (by simp), hpan⟩

theorem accepts_inf (L : OrdLaws o Num) (c : α) (hc : Num c) : accepts o c o.inf = true := by
  unfold accepts
  rcases L.accept_inf c hc with h | ⟨h1, h2, h3⟩
  · simp [h]
  · simp [h1, h2, h3]

/-- `Solver::init` and the first `update`. -/
theorem init_cases (L : OrdLaws o Num) (hc : CostSpec cost Num n cs) (simplex : List (List α))
    (hlen : simplex.length = n + 1) (hdim : ∀ p ∈ simplex, p.length = n) :
    (∃ st0, init o cost simplex = .ok st0 ∧ Inv cost Num n st0 ∧ st0.trace = [] ∧
        ∀ x ∈ simplex, ∃ cx, cost x = .ok cx ∧ Num cx ∧ o.lt cx st0.bestCost = false) ∨
    (init o cost simplex = .panic cs ∧ ∃ x, x.length = n ∧ cost x = .panic cs) := by
  unfold init
  rcases evalAll_cases hc simplex hdim with ⟨vs, hvs, hmap, hev⟩ | ⟨hp, hx⟩
  · rw [hvs]
    simp only [bind_ok']
    have hvl : vs.length = n + 1 := by rw [← hlen, ← hmap]; simp
    match vs, hvl, hmap, hev with
    | v0 :: rest, hvl, hmap, hev =>
      obtain ⟨tl, hsort⟩ := sort_cases L v0 rest hev
      have hperm : (firstMin o v0 rest :: tl).Perm (v0 :: rest) := hsort ▸ sortSimplex_perm o (v0 :: rest)
      have hnum : ∀ v ∈ v0 :: rest, Num v.2 := fun v hv => (hev v hv).2
      have hmn : Num (firstMin o v0 rest).2 := hnum _ (firstMin_mem o v0 rest)
      have hupd : update o none o.inf (firstMin o v0 rest) = (some (firstMin o v0 rest).1, (firstMin o v0 rest).2) := by
        unfold update
        rw [accepts_inf L _ hmn]
        rfl
      have hshape : Shape n (v0 :: rest) := by
        refine ⟨hvl, ?_⟩
        intro v hv
        apply hdim
        rw [← hmap]
        exact List.mem_map.2 ⟨v, hv, rfl⟩
      left
      refine ⟨⟨firstMin o v0 rest :: tl, some (firstMin o v0 rest).1, (firstMin o v0 rest).2, []⟩, ?_, ?_, rfl, ?_⟩
      · simp only [hsort, hupd]
      · exact ⟨shape_of_perm hperm hshape, evaluated_of_perm hperm hev, _, rfl, rfl, rfl⟩
      · intro x hx
        rw [← hmap] at hx
        obtain ⟨v, hv, rfl⟩ := List.mem_map.1 hx
        exact ⟨v.2, (hev v hv).1, (hev v hv).2, firstMin_le L v0 rest hnum v hv⟩
  · rw [hp]; exact Or.inr ⟨rfl, hx⟩

/-- `with_sd_tolerance(tol).unwrap()` fires iff `tol < 0`, before anything is evaluated. -/
theorem run_sdTol_iff (tol : α) (N : Nat) (simplex : List (List α)) (h : o.lt tol o.zero = true) :
    run o cost tol N simplex = .panic siteSdTol := by
  unfold run; rw [if_pos h]

/-- **The solver, end to end** (`NelderMead::new(simplex).with_sd_tolerance(tol)`, executor with
`max_iters = N`). For a simplex of `n + 1` vertices of dimension `n ≥ 1`, `tol ≥ 0`, and a cost function
that returns non-NaN values or panics at `cs`: either the run returns a state satisfying the invariant
after at most `N` iterations, whose best cost is `≤` the cost of every initial vertex — or a cost
evaluation panicked at `cs`. No other site is reachable. -/
theorem nm_cases (L : OrdLaws o Num) (hn : 0 < n) (hc : CostSpec cost Num n cs) (tol : α)
    (htol : o.lt tol o.zero = false) (N : Nat) (simplex : List (List α))
    (hlen : simplex.length = n + 1) (hdim : ∀ p ∈ simplex, p.length = n) :
    (∃ st, run o cost tol N simplex = .ok st ∧ Inv cost Num n st ∧ st.trace.length ≤ N ∧
        ∀ x ∈ simplex, ∃ cx, cost x = .ok cx ∧ Num cx ∧ o.lt cx st.bestCost = false) ∨
    (run o cost tol N simplex = .panic cs ∧ ∃ x, x.length = n ∧ cost x = .panic cs) := by
  unfold run
  rw [htol]
  simp only [Bool.false_eq_true, if_false]
  rcases init_cases L hc simplex hlen hdim with ⟨st0, h0, hinv0, htr0, hle0⟩ | ⟨hp, hx⟩
  · rw [h0]
    simp only [bind_ok']
    rcases loop_cases L hn hc tol N st0 hinv0 with ⟨st, h1, hinv, hmono, hlenT⟩ | ⟨hp, hx⟩
    · refine Or.inl ⟨st, h1, hinv, by rw [htr0] at hlenT; simpa using hlenT, ?_⟩
      intro x hx
      obtain ⟨cx, h2, h3, h4⟩ := hle0 x hx
      exact ⟨cx, h2, h3, L.lt_negtrans _ _ _ h3 hinv0.bestNum hinv.bestNum h4 hmono⟩
    · exact Or.inr ⟨hp, hx⟩
  · rw [hp]; exact Or.inr ⟨rfl, hx⟩

/-- **(a) `nm_terminates_shape`.** The executor performs at most `max_iters` iterations (the model's
loop is structurally recursive on `max_iters`, so it terminates by construction; `trace` counts the
`next_iter` calls), and the simplex it ends with — as every intermediate one, `Inv.shape` is the loop
invariant — has `n + 1` vertices of dimension `n`. -/
theorem nm_terminates_shape (L : OrdLaws o Num) (hn : 0 < n) (hc : CostSpec cost Num n cs) (tol : α)
    (htol : o.lt tol o.zero = false) (N : Nat) (simplex : List (List α))
    (hlen : simplex.length = n + 1) (hdim : ∀ p ∈ simplex, p.length = n) (st : State α)
    (h : run o cost tol N simplex = .ok st) :
    st.trace.length ≤ N ∧ st.simplex.length = n + 1 ∧ ∀ v ∈ st.simplex, v.1.length = n := by
  rcases nm_cases L hn hc tol htol N simplex hlen hdim with ⟨st', h1, hinv, hl, _⟩ | ⟨h1, _⟩
  · rw [h1] at h; cases h; exact ⟨hl, hinv.shape.1, hinv.shape.2⟩
  · rw [h1] at h; cases h

/-- **(a) `nm_terminates`** (name used in the task text): see `nm_terminates_shape`. -/
theorem nm_terminates (L : OrdLaws o Num) (hn : 0 < n) (hc : CostSpec cost Num n cs) (tol : α)
    (htol : o.lt tol o.zero = false) (N : Nat) (simplex : List (List α))
    (hlen : simplex.length = n + 1) (hdim : ∀ p ∈ simplex, p.length = n) (st : State α)
    (h : run o cost tol N simplex = .ok st) : st.trace.length ≤ N :=
  (nm_terminates_shape L hn hc tol htol N simplex hlen hdim st h).1

/-- `… .state.best_param.unwrap()` on top of `nm_cases`. -/
theorem minimize_cases (L : OrdLaws o Num) (hn : 0 < n) (hc : CostSpec cost Num n cs) (tol : α)
    (htol : o.lt tol o.zero = false) (N : Nat) (simplex : List (List α))
    (hlen : simplex.length = n + 1) (hdim : ∀ p ∈ simplex, p.length = n) :
    (∃ p c, minimize o cost tol N simplex = .ok p ∧ p.length = n ∧ cost p = .ok c ∧ Num c ∧
        ∀ x ∈ simplex, ∃ cx, cost x = .ok cx ∧ Num cx ∧ o.lt cx c = false) ∨
    (minimize o cost tol N simplex = .panic cs ∧ ∃ x, x.length = n ∧ cost x = .panic cs) := by
  unfold minimize
  rcases nm_cases L hn hc tol htol N simplex hlen hdim with ⟨st, h1, hinv, _, hle⟩ | ⟨h1, hx⟩
  · rw [h1]
    simp only [bind_ok']
    obtain ⟨v, hv, hbp, hbc⟩ := hinv.best
    have hvm : v ∈ st.simplex := List.mem_of_mem_head? hv
    rw [hbp]
    refine Or.inl ⟨v.1, v.2, rfl, hinv.shape.2 v hvm, (hinv.evaluated v hvm).1, (hinv.evaluated v hvm).2, ?_⟩
    rw [← hbc]; exact hle
  · rw [h1]; exact Or.inr ⟨rfl, hx⟩

/-- **(b) `nm_result_spec`.** The parameter vector the fits read out of the executor
(`res.state.best_param.unwrap()`) is a point at which the cost function was evaluated, of the right
dimension, and its cost is not above the cost of any vertex of the initial simplex (in particular of
the initial guess, vertex 0). -/
theorem nm_result_spec (L : OrdLaws o Num) (hn : 0 < n) (hc : CostSpec cost Num n cs) (tol : α)
    (htol : o.lt tol o.zero = false) (N : Nat) (simplex : List (List α))
    (hlen : simplex.length = n + 1) (hdim : ∀ p ∈ simplex, p.length = n) (p : List α)
    (h : minimize o cost tol N simplex = .ok p) :
    p.length = n ∧ ∃ c, cost p = .ok c ∧ Num c ∧
      ∀ x ∈ simplex, ∃ cx, cost x = .ok cx ∧ o.lt cx c = false := by
  rcases minimize_cases L hn hc tol htol N simplex hlen hdim with ⟨p', c, h1, h2, h3, h4, h5⟩ | ⟨h1, _⟩
  · rw [h1] at h; cases h
    exact ⟨h2, c, h3, h4, fun x hx => let ⟨cx, a, _, b⟩ := h5 x hx; ⟨cx, a, b⟩⟩
  · rw [h1] at h; cases h

/-- **(c) `nm_no_panic_of_total_cost`.** If the cost function returns a non-NaN value on every vector
of dimension `n`, the solver returns normally: no index, `unwrap`, argmin-math assert or "unreachable
point" site can fire. -/
theorem nm_no_panic_of_total_cost (L : OrdLaws o Num) (hn : 0 < n)
    (htotal : ∀ x, x.length = n → ∃ c, cost x = .ok c ∧ Num c) (tol : α)
    (htol : o.lt tol o.zero = false) (N : Nat) (simplex : List (List α))
    (hlen : simplex.length = n + 1) (hdim : ∀ p ∈ simplex, p.length = n) :
    ∃ p, minimize o cost tol N simplex = .ok p := by
  have hc : CostSpec cost Num n "" := fun x hx => Or.inl (htotal x hx)
  rcases minimize_cases L hn hc tol htol N simplex hlen hdim with ⟨p, _, h1, _⟩ | ⟨_, x, hx, hp⟩
  · exact ⟨p, h1⟩
  · obtain ⟨c, hcx, _⟩ := htotal x hx
    rw [hcx] at hp; cases hp

/-- **(c) `nm_panic_only_cost`.** Whatever happens, the solver never returns `Err`, and it panics only
with the cost function's own site — and then the cost function did panic on some vector of dimension
`n`. -/
theorem nm_panic_only_cost (L : OrdLaws o Num) (hn : 0 < n) (hc : CostSpec cost Num n cs) (tol : α)
    (htol : o.lt tol o.zero = false) (N : Nat) (simplex : List (List α))
    (hlen : simplex.length = n + 1) (hdim : ∀ p ∈ simplex, p.length = n) :
    (∀ e, minimize o cost tol N simplex ≠ .err e) ∧
    ∀ s, minimize o cost tol N simplex = .panic s → s = cs ∧ ∃ x, x.length = n ∧ cost x = .panic cs := by
  rcases minimize_cases L hn hc tol htol N simplex hlen hdim with ⟨p, _, h1, _⟩ | ⟨h1, hx⟩
  · rw [h1]
    refine ⟨?_, ?_⟩
    · intro e h; cases h
    · intro s h; cases h
  · rw [h1]
    refine ⟨?_, ?_⟩
    · intro e h; cases h
    · intro s h; cases h; exact ⟨rfl, hx⟩

/-- **(d) `best_param_is_first_vertex`.** At the end of a run `IterState::best_param` is the first
vertex of the solver's sorted simplex and `best_cost` is its cost: because `sort_by` is stable and
`update` uses a strict `<`, a later vertex with the *same* cost never displaces the recorded best. -/
theorem best_param_is_first_vertex (L : OrdLaws o Num) (hn : 0 < n) (hc : CostSpec cost Num n cs) (tol : α)
    (htol : o.lt tol o.zero = false) (N : Nat) (simplex : List (List α))
    (hlen : simplex.length = n + 1) (hdim : ∀ p ∈ simplex, p.length = n) (st : State α)
    (h : run o cost tol N simplex = .ok st) :
    ∃ v, st.simplex.head? = some v ∧ st.bestParam = some v.1 ∧ st.bestCost = v.2 := by
  rcases nm_cases L hn hc tol htol N simplex hlen hdim with ⟨st', h1, hinv, _, _⟩ | ⟨h1, _⟩
  · rw [h1] at h; cases h; exact hinv.best
  · rw [h1] at h; cases h

/-- **(d) `shrink_keeps_best`.** `shrink` never touches the first (best) vertex — no assumption at all. -/
theorem shrink_keeps_best (s s' : List (Vertex α)) (h : shrink o cost s = .ok s') : s'.head? = s.head? := by
  match s, h with
  | v0 :: vs, h =>
    simp only [shrink] at h
    obtain ⟨r, _, hr⟩ := bind_eq_ok.1 h
    cases hr
    rfl

end Solver

/-! ## The two fits -/

section Fits
variable {α : Type} (o : FOps α) {Num : α → Prop}

/-- `.map(|..| { assert!(!val.is_nan()); val }).sum()`: either every term passes the assert, or the
panic is the assert's and some term is NaN. -/
theorem sumChecked_cases {ε : Type} (site : String) (l : List α) (acc : α) :
    (∃ c, sumChecked (ε := ε) o site acc l = .ok c ∧ ∀ v ∈ l, o.isNaN v = false) ∨
    (sumChecked (ε := ε) o site acc l = .panic site ∧ ∃ v ∈ l, o.isNaN v = true) := by
  induction l generalizing acc with
  | nil => exact Or.inl ⟨acc, rfl, by intro v hv; cases hv⟩
  | cons v vs ih =>
    unfold sumChecked
    by_cases hv : o.isNaN v = true
    · rw [if_pos hv]; exact Or.inr ⟨rfl, v, by simp, hv⟩
    · rw [if_neg hv]
      rcases ih (o.t.h.add acc v) with ⟨c, hc, hall⟩ | ⟨hp, w, hw, hwn⟩
      · refine Or.inl ⟨c, hc, ?_⟩
        intro u hu
        rcases List.mem_cons.1 hu with h | h
        · rw [h]; simpa using hv
        · exact hall u h
      · exact Or.inr ⟨hp, w, by simp [hw], hwn⟩

/-- The track cost function on a 6-vector: a value, or the NaN assert with a NaN term as witness. -/
theorem trackCost_cases (ctTol : α) (ctIters : Nat) (pts : List (Point α)) (x : List α) (hx : x.length = 6) :
    (∃ c, trackCost (ε := FitError) o ctTol ctIters pts x = .ok c) ∨
    (trackCost (ε := FitError) o ctTol ctIters pts x = .panic siteTrackNaN ∧
      ∃ pt ∈ pts, o.isNaN (distSq o ctTol ctIters (paramsOf o x) pt) = true) := by
  unfold trackCost
  rw [if_neg (by omega)]
  rcases sumChecked_cases (ε := FitError) o siteTrackNaN (pts.map (distSq o ctTol ctIters (paramsOf o x))) o.t.negZero with
    ⟨c, hc, _⟩ | ⟨hp, v, hv, hvn⟩
  · exact Or.inl ⟨c, hc⟩
  · obtain ⟨pt, hpt, rfl⟩ := List.mem_map.1 hv
    exact Or.inr ⟨hp, pt, hpt, hvn⟩

/-- The vertex cost function on a 3-vector. -/
theorem vertexCost_cases (ctTol : α) (ctIters : Nat) (tracks : List (TrackP α)) (x : List α) (hx : x.length = 3) :
    (∃ c, vertexCost (ε := Unit) o ctTol ctIters tracks x = .ok c) ∨
    (vertexCost (ε := Unit) o ctTol ctIters tracks x = .panic siteVertexNaN ∧
      ∃ t ∈ tracks, o.isNaN (distSq o ctTol ctIters t.q (vertexPoint o x)) = true) := by
  unfold vertexCost
  rw [if_neg (by omega)]
  rcases sumChecked_cases (ε := Unit) o siteVertexNaN
      (tracks.map fun t => distSq o ctTol ctIters t.q (vertexPoint o x)) o.t.negZero with
    ⟨c, hc, _⟩ | ⟨hp, v, hv, hvn⟩
  · exact Or.inl ⟨c, hc⟩
  · obtain ⟨t, ht, rfl⟩ := List.mem_map.1 hv
    exact Or.inr ⟨hp, t, ht, hvn⟩

/-- `CostSpec` of the track cost function, given that its values are not NaN (in `f64`: a sum of
non-NaN squares; over a field: trivially). -/
theorem trackCost_spec (ctTol : α) (ctIters : Nat) (pts : List (Point α))
    (hnum : ∀ x c, trackCost (ε := FitError) o ctTol ctIters pts x = .ok c → Num c) :
    CostSpec (trackCost (ε := FitError) o ctTol ctIters pts) Num 6 siteTrackNaN := by
  intro x hx
  rcases trackCost_cases o ctTol ctIters pts x hx with ⟨c, hc⟩ | ⟨hp, _⟩
  · exact Or.inl ⟨c, hc, hnum x c hc⟩
  · exact Or.inr hp

theorem vertexCost_spec (ctTol : α) (ctIters : Nat) (tracks : List (TrackP α))
    (hnum : ∀ x c, vertexCost (ε := Unit) o ctTol ctIters tracks x = .ok c → Num c) :
    CostSpec (vertexCost (ε := Unit) o ctTol ctIters tracks) Num 3 siteVertexNaN := by
  intro x hx
  rcases vertexCost_cases o ctTol ctIters tracks x hx with ⟨c, hc⟩ | ⟨hp, _⟩
  · exact Or.inl ⟨c, hc, hnum x c hc⟩
  · exact Or.inr hp

variable {o}

/-- `fit_cluster_to_helix` after a successful initial-guess stage. -/
theorem fitCluster_of_init (N : Nat) (sdTol delta : α) (ctIters : Nat) (ctTol : α) (pts : List (Point α))
    (simplex : List (List α)) (f m l : Point α)
    (hinit : fitInit o.t delta pts = .ok simplex) (htpl : threeTemplatePoints o.t pts = .ok (f, m, l)) :
    fitCluster o N sdTol delta ctIters ctTol pts =
      (minimize o.n (trackCost o ctTol ctIters pts) sdTol N simplex).bind fun best =>
        if best.length < 6 then .panic siteBestIndex
        else .ok ⟨paramsOf o best, closestT o.t.h (paramsOf o best) f ctTol ctIters,
                  closestT o.t.h (paramsOf o best) l ctTol ctIters⟩ := by
  unfold fitCluster
  rw [hinit]
  simp only [htpl]

/-- **The track fit after the initial guess**: it returns a track whose helix is a 6-vector at which
the cost function was evaluated, with cost `≤` the cost at every vertex of the initial simplex, and
`t_inner`/`t_outer` are `closest_t` of the first/last template point — or the NaN assert of the cost
function fired, with a NaN squared distance as witness. -/
theorem fit_cases (L : OrdLaws o.n Num) (N : Nat) (sdTol delta : α) (ctIters : Nat) (ctTol : α)
    (pts : List (Point α))
    (hnum : ∀ x c, trackCost (ε := FitError) o ctTol ctIters pts x = .ok c → Num c)
    (htol : o.n.lt sdTol o.n.zero = false) (simplex : List (List α))
    (hinit : fitInit o.t delta pts = .ok simplex) :
    (∃ best c f m l, fitCluster o N sdTol delta ctIters ctTol pts =
          .ok ⟨paramsOf o best, closestT o.t.h (paramsOf o best) f ctTol ctIters,
                closestT o.t.h (paramsOf o best) l ctTol ctIters⟩ ∧
        threeTemplatePoints o.t pts = .ok (f, m, l) ∧ best.length = 6 ∧
        trackCost (ε := FitError) o ctTol ctIters pts best = .ok c ∧
        ∀ x ∈ simplex, ∃ cx, trackCost (ε := FitError) o ctTol ctIters pts x = .ok cx ∧ o.n.lt cx c = false) ∨
    (fitCluster o N sdTol delta ctIters ctTol pts = .panic siteTrackNaN ∧
      ∃ x, x.length = 6 ∧ ∃ pt ∈ pts, o.isNaN (distSq o ctTol ctIters (paramsOf o x) pt) = true) := by
  obtain ⟨hlen, hdim, f, m, l, htpl, _⟩ := AlphaG.C14b.fit_simplex_shape o.t delta pts simplex hinit
  rw [fitCluster_of_init N sdTol delta ctIters ctTol pts simplex f m l hinit htpl]
  rcases minimize_cases L (by omega : 0 < 6) (trackCost_spec o ctTol ctIters pts hnum) sdTol htol N simplex hlen hdim with
    ⟨p, c, h1, h2, h3, _, h5⟩ | ⟨h1, x, hx, hp⟩
  · rw [h1]
    simp only [bind_ok']
    rw [if_neg (by omega)]
    exact Or.inl ⟨p, c, f, m, l, rfl, htpl, h2, h3, fun x hx => let ⟨cx, a, _, b⟩ := h5 x hx; ⟨cx, a, b⟩⟩
  · rw [h1]
    refine Or.inr ⟨rfl, x, hx, ?_⟩
    rcases trackCost_cases o ctTol ctIters pts x hx with ⟨c, hc⟩ | ⟨_, hw⟩
    · rw [hc] at hp; cases hp
    · exact hw

/-- **(c) `fit_panic_iff`.** `Track::try_from(Cluster)` (model `fitCluster`) panics exactly when the
initial-guess stage panics (see `fit_init_panic_sites`: fewer than three points, or a NaN radius
deviation in `partial_cmp(..).unwrap()`), or — the initial-guess stage having succeeded — at the
`assert!(!val.is_nan())` of the cost function. Nothing inside argmin can panic. -/
theorem fit_panic_iff (L : OrdLaws o.n Num) (N : Nat) (sdTol delta : α) (ctIters : Nat) (ctTol : α)
    (pts : List (Point α))
    (hnum : ∀ x c, trackCost (ε := FitError) o ctTol ctIters pts x = .ok c → Num c)
    (htol : o.n.lt sdTol o.n.zero = false) (s : String) :
    fitCluster o N sdTol delta ctIters ctTol pts = .panic s ↔
      fitInit o.t delta pts = .panic s ∨
      (s = siteTrackNaN ∧ ∃ simplex, fitInit o.t delta pts = .ok simplex ∧
        minimize o.n (trackCost (ε := FitError) o ctTol ctIters pts) sdTol N simplex = .panic siteTrackNaN ∧
        ∃ x, x.length = 6 ∧ ∃ pt ∈ pts, o.isNaN (distSq o ctTol ctIters (paramsOf o x) pt) = true) := by
  cases hinit : fitInit o.t delta pts with
  | ok simplex =>
    obtain ⟨hlen, hdim, f, m, l, htpl, _⟩ := AlphaG.C14b.fit_simplex_shape o.t delta pts simplex hinit
    have hfc := fitCluster_of_init N sdTol delta ctIters ctTol pts simplex f m l hinit htpl
    rcases minimize_cases L (by omega : 0 < 6) (trackCost_spec o ctTol ctIters pts hnum) sdTol htol N simplex hlen hdim with
      ⟨p, c, h1, h2, _⟩ | ⟨h1, x, hx, hp⟩
    · rw [hfc, h1]
      simp only [bind_ok']
      rw [if_neg (by omega)]
      constructor
      · intro h; cases h
      · rintro (h | ⟨_, sx, hsx, hm, _⟩)
        · cases h
        · cases hsx; rw [h1] at hm; cases hm
    · rw [hfc, h1]
      simp only [bind_panic']
      constructor
      · intro h
        cases h
        refine Or.inr ⟨rfl, simplex, rfl, h1, x, hx, ?_⟩
        rcases trackCost_cases o ctTol ctIters pts x hx with ⟨c, hc⟩ | ⟨_, hw⟩
        · rw [hc] at hp; cases hp
        · exact hw
      · rintro (h | ⟨rfl, _⟩)
        · cases h
        · rfl
  | err e =>
    have : fitCluster o N sdTol delta ctIters ctTol pts = .err e := by unfold fitCluster; rw [hinit]
    rw [this]
    constructor
    · intro h; cases h
    · rintro (h | ⟨_, sx, hsx, _⟩)
      · cases h
      · cases hsx
  | panic s0 =>
    have : fitCluster o N sdTol delta ctIters ctTol pts = .panic s0 := by unfold fitCluster; rw [hinit]
    rw [this]
    constructor
    · intro h; cases h; exact Or.inl rfl
    · rintro (h | ⟨_, sx, hsx, _⟩)
      · cases h; rfl
      · cases hsx

/-- **(c) `fit_panic_iff_full`**: `fit_panic_iff` with the initial-guess stage spelled out by
`C14b.fit_init_panic_sites` — the complete panic inventory of `Track::try_from(Cluster)`:
(1) `assert!(sp.len() >= 3)`, (2) `partial_cmp(..).unwrap()` on a NaN radius deviation,
(3) `assert!(!val.is_nan())` in the cost function. -/
theorem fit_panic_iff_full (L : OrdLaws o.n Num) (nan : α → Prop)
    (hcmp : ∀ a b, o.t.cmp a b = none ↔ nan a ∨ nan b)
    (N : Nat) (sdTol delta : α) (ctIters : Nat) (ctTol : α) (pts : List (Point α))
    (hnum : ∀ x c, trackCost (ε := FitError) o ctTol ctIters pts x = .ok c → Num c)
    (htol : o.n.lt sdTol o.n.zero = false) (s : String) :
    fitCluster o N sdTol delta ctIters ctTol pts = .panic s ↔
      (pts.length < 3 ∧ s = siteAssertLen) ∨
      (3 ≤ pts.length ∧ s = sitePartialCmp ∧
        ∃ f l, (minmaxByKey o.t.h.lt (fun p : Point α => p.r) pts).intoOption = some (f, l) ∧
          ∃ p ∈ pts, nan (devFrom o.t (midR o.t f l) p)) ∨
      (s = siteTrackNaN ∧ ∃ simplex, fitInit o.t delta pts = .ok simplex ∧
        minimize o.n (trackCost (ε := FitError) o ctTol ctIters pts) sdTol N simplex = .panic siteTrackNaN ∧
        ∃ x, x.length = 6 ∧ ∃ pt ∈ pts, o.isNaN (distSq o ctTol ctIters (paramsOf o x) pt) = true) := by
  rw [fit_panic_iff L N sdTol delta ctIters ctTol pts hnum htol s,
    AlphaG.C14b.fit_init_panic_sites o.t nan hcmp delta pts s, or_assoc]

/-- **(c) corollary.** If no squared distance is ever NaN (any 6-vector, any point of the cluster),
the fit panics exactly when its initial-guess stage does. -/
theorem fit_no_panic_of_no_nan (L : OrdLaws o.n Num) (N : Nat) (sdTol delta : α) (ctIters : Nat) (ctTol : α)
    (pts : List (Point α))
    (hnum : ∀ x c, trackCost (ε := FitError) o ctTol ctIters pts x = .ok c → Num c)
    (htol : o.n.lt sdTol o.n.zero = false)
    (hnn : ∀ x : List α, x.length = 6 → ∀ pt ∈ pts, o.isNaN (distSq o ctTol ctIters (paramsOf o x) pt) = false)
    (s : String) :
    fitCluster o N sdTol delta ctIters ctTol pts = .panic s ↔ fitInit o.t delta pts = .panic s := by
  rw [fit_panic_iff L N sdTol delta ctIters ctTol pts hnum htol s]
  constructor
  · rintro (h | ⟨_, _, _, _, x, hx, pt, hpt, hn⟩)
    · exact h
    · rw [hnn x hx pt hpt] at hn; cases hn
  · exact Or.inl

/-- **(d) `fit_ok_spec`.** A returned track: its six helix parameters are a vector at which the cost
function was evaluated, with cost not above the cost at the initial guess and at the six perturbed
guesses; `t_inner`, `t_outer` are `closest_t` of the template points of smallest / largest radius. -/
theorem fit_ok_spec (L : OrdLaws o.n Num) (N : Nat) (sdTol delta : α) (ctIters : Nat) (ctTol : α)
    (pts : List (Point α))
    (hnum : ∀ x c, trackCost (ε := FitError) o ctTol ctIters pts x = .ok c → Num c)
    (htol : o.n.lt sdTol o.n.zero = false) (trk : TrackP α)
    (h : fitCluster o N sdTol delta ctIters ctTol pts = .ok trk) :
    ∃ simplex best c f m l, fitInit o.t delta pts = .ok simplex ∧
      threeTemplatePoints o.t pts = .ok (f, m, l) ∧ best.length = 6 ∧ trk.q = paramsOf o best ∧
      trk.tInner = closestT o.t.h trk.q f ctTol ctIters ∧ trk.tOuter = closestT o.t.h trk.q l ctTol ctIters ∧
      trackCost (ε := FitError) o ctTol ctIters pts best = .ok c ∧
      ∀ x ∈ simplex, ∃ cx, trackCost (ε := FitError) o ctTol ctIters pts x = .ok cx ∧ o.n.lt cx c = false := by
  cases hinit : fitInit o.t delta pts with
  | ok simplex =>
    rcases fit_cases L N sdTol delta ctIters ctTol pts hnum htol simplex hinit with
      ⟨best, c, f, m, l, h1, h2, h3, h4, h5⟩ | ⟨h1, _⟩
    · rw [h1] at h
      cases h
      exact ⟨simplex, best, c, f, m, l, rfl, h2, h3, rfl, rfl, rfl, h4, h5⟩
    · rw [h1] at h; cases h
  | err e =>
    have : fitCluster o N sdTol delta ctIters ctTol pts = .err e := by unfold fitCluster; rw [hinit]
    rw [this] at h; cases h
  | panic s0 =>
    have : fitCluster o N sdTol delta ctIters ctTol pts = .panic s0 := by unfold fitCluster; rw [hinit]
    rw [this] at h; cases h

/-- The minimiser call of `find_vertices` on a 4 × 3 simplex. -/
theorem fitVertex_cases (L : OrdLaws o.n Num) (N : Nat) (sdTol : α) (ctIters : Nat) (ctTol : α)
    (tracks : List (TrackP α))
    (hnum : ∀ x c, vertexCost (ε := Unit) o ctTol ctIters tracks x = .ok c → Num c)
    (htol : o.n.lt sdTol o.n.zero = false) (simplex : List (List α))
    (hlen : simplex.length = 4) (hdim : ∀ row ∈ simplex, row.length = 3) :
    (∃ best c, fitVertex o N sdTol ctIters ctTol tracks simplex =
          .ok ((best.getD 0 o.t.h.zero, best.getD 1 o.t.h.zero, best.getD 2 o.t.h.zero),
               tracks.map fun t => closestT o.t.h t.q (vertexPoint o best) ctTol ctIters) ∧
        best.length = 3 ∧ vertexCost (ε := Unit) o ctTol ctIters tracks best = .ok c ∧
        ∀ x ∈ simplex, ∃ cx, vertexCost (ε := Unit) o ctTol ctIters tracks x = .ok cx ∧ o.n.lt cx c = false) ∨
    (fitVertex o N sdTol ctIters ctTol tracks simplex = .panic siteVertexNaN ∧
      ∃ x, x.length = 3 ∧ ∃ t ∈ tracks, o.isNaN (distSq o ctTol ctIters t.q (vertexPoint o x)) = true) := by
  unfold fitVertex
  rcases minimize_cases L (by omega : 0 < 3) (vertexCost_spec o ctTol ctIters tracks hnum) sdTol htol N simplex hlen hdim with
    ⟨p, c, h1, h2, h3, _, h5⟩ | ⟨h1, x, hx, hp⟩
  · rw [h1]
    simp only [bind_ok']
    rw [if_neg (by omega)]
    exact Or.inl ⟨p, c, rfl, h2, h3, fun x hx => let ⟨cx, a, _, b⟩ := h5 x hx; ⟨cx, a, b⟩⟩
  · rw [h1]
    refine Or.inr ⟨rfl, x, hx, ?_⟩
    rcases vertexCost_cases o ctTol ctIters tracks x hx with ⟨c, hc⟩ | ⟨_, hw⟩
    · rw [hc] at hp; cases hp
    · exact hw

/-- **(c) `vertex_fit_panic_sites`.** `find_vertices` up to the fitted vertex panics only where its
selection stage (`vertexInit`, C14b/C15: the two `partial_cmp(..).unwrap()`) panics, or at the
`assert!(!val.is_nan())` of the vertex cost function; it never returns an error; a fitted vertex carries
one `t` per track of the chosen cluster. -/
theorem vertex_fit_panic_sites (L : OrdLaws o.n Num) (minLen maxDca maxDist delta : α) (ctIters : Nat) (ctTol : α)
    (N : Nat) (sdTol : α) (ts : Array (TrackP α)) (d : TrackP α)
    (hnum : ∀ tracks x c, vertexCost (ε := Unit) o ctTol ctIters tracks x = .ok c → Num c)
    (htol : o.n.lt sdTol o.n.zero = false) :
    (∀ s, findVertexFit o minLen maxDca maxDist delta ctIters ctTol N sdTol ts d = .panic s →
      vertexInit o.t minLen maxDca maxDist delta ts d = .panic s ∨ s = siteVertexNaN) ∧
    (∀ v, findVertexFit o minLen maxDca maxDist delta ctIters ctTol N sdTol ts d = .ok (some v) →
      v.ts.length = v.cluster.length ∧
      ∃ simplex, vertexInit o.t minLen maxDca maxDist delta ts d = .ok (some (v.cluster, simplex))) := by
  unfold findVertexFit
  cases hinit : vertexInit o.t minLen maxDca maxDist delta ts d with
  | ok r =>
    cases r with
    | none =>
      refine ⟨?_, ?_⟩
      · intro s h; cases h
      · intro v h; cases h
    | some cs =>
      obtain ⟨c, simplex⟩ := cs
      obtain ⟨hlen, hdim⟩ := AlphaG.C14b.vertexInit_shape o.t minLen maxDca maxDist delta ts d c simplex hinit
      simp only []
      rcases fitVertex_cases L N sdTol ctIters ctTol (c.map fun i => ts.getD i d) (hnum _) htol simplex hlen hdim with
        ⟨best, cc, h1, _⟩ | ⟨h1, _⟩
      · rw [h1]
        simp only [bind_ok']
        refine ⟨?_, ?_⟩
        · intro s h; cases h
        · intro v h
          cases h
          exact ⟨by simp, simplex, rfl⟩
      · rw [h1]
        refine ⟨?_, ?_⟩
        · intro s h; cases h; exact Or.inr rfl
        · intro v h; cases h
  | err e =>
    refine ⟨?_, ?_⟩
    · intro s h; cases h
    · intro v h; cases h
  | panic s0 =>
    refine ⟨?_, ?_⟩
    · intro s h; cases h; exact Or.inl rfl
    · intro v h; cases h

end Fits

/-! ## Non-vacuity: a concrete carrier with `±inf` and NaN over ℚ -/

section Examples

/-- Rationals extended by `+inf`, `-inf` and a NaN. Comparisons follow IEEE (everything involving the
NaN is false). Arithmetic is exact on finite values; any operation involving a non-finite value, and a
division by zero, gives the NaN (a convention: no theorem above assumes anything about arithmetic). -/
inductive XRat where
  | fin (q : ℚ)
  | pinf
  | ninf
  | nan
deriving DecidableEq

namespace XRat
def lt : XRat → XRat → Bool
  | .nan, _ => false
  | _, .nan => false
  | .ninf, .ninf => false
  | .ninf, _ => true
  | .fin _, .ninf => false
  | .fin a, .fin b => decide (a < b)
  | .fin _, .pinf => true
  | .pinf, _ => false
def le (a b : XRat) : Bool :=
  match a, b with
  | .nan, _ => false
  | _, .nan => false
  | a, b => !(lt b a)
def lift1 (f : ℚ → ℚ) : XRat → XRat
  | .fin a => .fin (f a)
  | _ => .nan
def lift2 (f : ℚ → ℚ → ℚ) : XRat → XRat → XRat
  | .fin a, .fin b => .fin (f a b)
  | _, _ => .nan
def div : XRat → XRat → XRat
  | .fin a, .fin b => if b = 0 then .nan else .fin (a / b)
  | _, _ => .nan
end XRat
open XRat

/-- The stand-ins of `C14b.qT` for the transcendental functions (`cos φ = φ`, `sin φ = φ²`, …). -/
def xH : HOps XRat where
  add := lift2 (· + ·)
  sub := lift2 (· - ·)
  mul := lift2 (· * ·)
  div := XRat.div
  neg := lift1 (fun x => -x)
  abs := lift1 (fun x => |x|)
  lt := XRat.lt
  sin := lift1 (fun x => x * x)
  cos := lift1 (fun x => x)
  atan2 := lift2 (fun y _ => y)
  hypot := lift2 (fun x y => x + y)
  floor := lift1 (fun x => x)
  zero := .fin 0
  one := .fin 1
  two := .fin 2
  four := .fin 4
  pi := .fin 3
  eps := .fin (1 / 1000)

def xT : TOps XRat where
  h := xH
  eq := fun a b => match a, b with | .nan, _ => false | _, .nan => false | a, b => decide (a = b)
  cmp := fun a b => match a, b with
    | .nan, _ => none | _, .nan => none
    | a, b => if XRat.lt a b then some .lt else if XRat.lt b a then some .gt else some .eq
  ofNat := fun n => .fin n
  negZero := .fin 0
  simplexDefault := .fin (1 / 4000)

/-- `sqrt` is the identity here (the termination test then compares the variance with the tolerance);
no theorem depends on it. -/
def xF : FOps XRat where
  t := xT
  sqrt := id
  le := XRat.le
  isInf := fun x => decide (x = .pinf ∨ x = .ninf)
  signPos := fun x => match x with | .ninf => false | .fin q => decide (0 ≤ q) | _ => true
  isNaN := fun x => decide (x = .nan)
  half := .fin (1 / 2)
  inf := .pinf
  negInf := .ninf

/-- The order laws hold on `XRat` with `Num x := x ≠ nan` — exactly the IEEE situation. -/
theorem xLaws : OrdLaws xF.n (fun x => x ≠ XRat.nan) where
  lt_irrefl := by
    intro a ha
    cases a <;> simp_all [FOps.n, xF, xT, xH, XRat.lt]
  lt_trans := by
    intro a b c ha hb hc
    cases a <;> cases b <;> cases c <;> simp_all [FOps.n, xF, xT, xH, XRat.lt]
    exact lt_trans
  lt_negtrans := by
    intro a b c ha hb hc
    cases a <;> cases b <;> cases c <;> simp_all [FOps.n, xF, xT, xH, XRat.lt]
    exact fun h1 h2 => le_trans h2 h1
  le_iff := by
    intro a b ha hb
    cases a <;> cases b <;> simp_all [FOps.n, xF, xT, xH, XRat.lt, XRat.le]
  inf_num := by simp [FOps.n, xF]
  accept_inf := by
    intro c hc
    cases c <;> simp_all [FOps.n, xF, xT, xH, XRat.lt]
  same_inf := by
    intro a b ha hb
    cases a <;> cases b <;> simp_all [FOps.n, xF, xT, xH, XRat.lt]

/-- `(x - 1)² + (y - 2)²` (total; `+inf` off the finite plane). -/
def cost2 (p : List XRat) : Outcome Unit XRat :=
  match p with
  | [.fin x, .fin y] => .ok (.fin ((x - 1) * (x - 1) + (y - 2) * (y - 2)))
  | _ => .ok .pinf

theorem cost2_total : ∀ x : List XRat, x.length = 2 → ∃ c, cost2 x = .ok c ∧ c ≠ XRat.nan := by
  intro x hx
  match x, hx with
  | [a, b], _ =>
    cases a <;> cases b <;> simp [cost2]

/-- The simplex `(0,0), (1,0), (0,1)`. -/
def sx0 : List (List XRat) := [[.fin 0, .fin 0], [.fin 1, .fin 0], [.fin 0, .fin 1]]

def traceOf {ε : Type} (r : Outcome ε (State XRat)) : List Action :=
  match r with
  | .ok st => st.trace
  | _ => []
def bestCostOf {ε : Type} (r : Outcome ε (State XRat)) : Option XRat :=
  match r with
  | .ok st => some st.bestCost
  | _ => none

/-- Three iterations from `(0,0), (1,0), (0,1)`: expansion to `(3/2, 3/2)` (cost 1/2), a reflection and an
inside contraction that do not improve on it; then all three costs are 1/2 and the standard-deviation
test stops the run (`max_iters = 30` is not reached). -/
example : minimize xF.n cost2 (.fin (1 / 1000)) 30 sx0 = .ok [.fin (3 / 2), .fin (3 / 2)] := by decide +kernel
example : traceOf (run xF.n cost2 (.fin (1 / 1000)) 30 sx0) = [.contractionInside, .reflection, .expansion] := by
  decide +kernel
/-- `max_iters` cuts the run short: with `max_iters = 1` only the expansion happens. -/
example : traceOf (run xF.n cost2 (.fin 0) 1 sx0) = [.expansion] := by decide +kernel
/-- The best cost after 0, 1, 3 iterations: `2` (the best initial vertex `(0,1)`), `1/2`, `1/2`. -/
example : bestCostOf (run xF.n cost2 (.fin 0) 0 sx0) = some (.fin 2) ∧
    bestCostOf (run xF.n cost2 (.fin 0) 1 sx0) = some (.fin (1 / 2)) ∧
    bestCostOf (run xF.n cost2 (.fin 0) 3 sx0) = some (.fin (1 / 2)) := by decide +kernel
/-- A larger simplex keeps going: eight iterations, seven contractions inside and one outside. -/
example : traceOf (run xF.n cost2 (.fin 0) 8 [[.fin 0, .fin 0], [.fin 4, .fin 0], [.fin 0, .fin 5]]) =
    [.contractionOutside, .contractionInside, .contractionInside, .contractionInside, .contractionInside,
     .contractionInside, .contractionInside, .contractionInside] := by decide +kernel
/-- A negative tolerance is the `with_sd_tolerance(..).unwrap()` panic. -/
example : minimize xF.n cost2 (.fin (-1)) 30 sx0 = .panic siteSdTol := by decide +kernel
/-- A simplex whose rows do not have dimension `n`: the argmin-math assert fires (so the shape
hypothesis of the theorems is needed). -/
example : minimize xF.n cost2 (.fin 0) 30 [[.fin 0, .fin 0], [.fin 1], [.fin 0, .fin 1]] = .panic siteVecSub := by
  decide +kernel
/-- A NaN cost reaches `Err(PotentialBug "Reached unreachable point")` (so `Num` is needed). -/
example : minimize xF.n (fun p => match p with | [.fin x, .fin y] => if x = 1 ∧ y = 1 then .ok .nan else cost2 p | _ => .ok .pinf)
    (.fin 0) 30 sx0 = .panic siteUnreachable := by decide +kernel
/-- A cost that is NaN at the first vertex after sorting is never accepted by `update`:
`best_param.unwrap()` panics when no iteration is run. -/
example : minimize xF.n (fun _ => (.ok .nan : Outcome Unit XRat)) (.fin 0) 0 sx0 = .panic siteBestParam := by
  decide +kernel

/-- A double well `(x (x - 2))² + y²`: the first iteration from `(0,0), (2,1), (1,0)` is a shrink. -/
def cost3 (p : List XRat) : Outcome Unit XRat :=
  match p with
  | [.fin x, .fin y] => .ok (.fin ((x * (x - 2)) * (x * (x - 2)) + y * y))
  | _ => .ok .pinf
example : traceOf (run xF.n cost3 (.fin 0) 1 [[.fin 0, .fin 0], [.fin 2, .fin 1], [.fin 1, .fin 0]]) = [.shrink] := by
  decide +kernel

/-- The hypotheses of the solver theorems are satisfied by this instance; e.g. `nm_result_spec`: -/
example (p : List XRat) (h : minimize xF.n cost2 (.fin 0) 30 sx0 = .ok p) :
    p.length = 2 ∧ ∃ c, cost2 p = .ok c ∧ c ≠ XRat.nan ∧ ∀ x ∈ sx0, ∃ cx, cost2 x = .ok cx ∧ xF.n.lt cx c = false :=
  nm_result_spec (cs := "") xLaws (by omega) (fun x hx => Or.inl (cost2_total x hx)) (.fin 0) (by decide) 30 sx0
    rfl (by decide) p h
example : ∃ p, minimize xF.n cost2 (.fin 0) 30 sx0 = .ok p :=
  nm_no_panic_of_total_cost xLaws (by omega) cost2_total (.fin 0) (by decide) 30 sx0 rfl (by decide)

/-! ### the fits on `XRat` -/

/-- The three points of `C14b.exPts`. -/
def exP : List (Point XRat) := [⟨.fin 1, .fin 0, .fin 5⟩, ⟨.fin 2, .fin 1, .fin 7⟩, ⟨.fin 3, .fin (-1), .fin 9⟩]
/-- The same with a NaN `z`: the initial-guess stage does not notice (C14b `fit_init_panic_sites`), the
NaN reaches the simplex and the cost function's assert fires. -/
def exN : List (Point XRat) := [⟨.fin 1, .fin 0, .fin 5⟩, ⟨.fin 2, .fin 1, .nan⟩, ⟨.fin 3, .fin (-1), .fin 9⟩]

def panicSite {ε β : Type} : Outcome ε β → Option String
  | .panic s => some s
  | _ => none
def helixOf {ε : Type} : Outcome ε (TrackP XRat) → Option (List XRat)
  | .ok t => some [t.q.x0, t.q.y0, t.q.z0, t.q.r, t.q.phi0, t.q.h, t.tInner, t.tOuter]
  | _ => none

/-- Three solver iterations on the three points: the perturbed-`z0` vertex wins. -/
example : helixOf (fitCluster xF 3 (.fin 0) (.fin (1 / 20)) 2 (.fin (1 / 1000)) exP) =
    some [.fin (-1 / 2), .fin (5 / 2), .fin (147 / 20), .fin (-2), .fin (-5 / 6), .fin (-4), .fin 3,
      .fin (-2007 / 2120)] := by decide +kernel
example : panicSite (fitCluster xF 3 (.fin 0) (.fin (1 / 20)) 2 (.fin (1 / 1000)) exN) = some siteTrackNaN := by
  decide +kernel
example : panicSite (fitCluster xF 3 (.fin 0) (.fin (1 / 20)) 2 (.fin (1 / 1000)) (exP.take 2)) = some siteAssertLen := by
  decide +kernel

/-- Two tracks and the 4 × 3 simplex `find_vertices` would build for `mean_z = 1/20`. -/
def trA : TrackP XRat := ⟨⟨.fin 1, .fin 0, .fin 0, .fin 1, .fin 0, .fin 2⟩, .fin 0, .fin 1⟩
def trB : TrackP XRat := ⟨⟨.fin 0, .fin 1, .fin (1 / 10), .fin 1, .fin 1, .fin (-1)⟩, .fin 0, .fin 1⟩
def trNaN : TrackP XRat := ⟨⟨.fin 0, .fin 1, .nan, .fin 1, .fin 1, .fin (-1)⟩, .fin 0, .fin 1⟩
def vsx : List (List XRat) := initialSimplex xT (.fin (1 / 20)) (vertexGuess xT (.fin (1 / 20)))
def positionOf {ε : Type} : Outcome ε ((XRat × XRat × XRat) × List XRat) → Option (List XRat)
  | .ok r => some [r.1.1, r.1.2.1, r.1.2.2]
  | _ => none

example : vsx = [[.fin 0, .fin 0, .fin (1 / 20)], [.fin (1 / 4000), .fin 0, .fin (1 / 20)],
    [.fin 0, .fin (1 / 4000), .fin (1 / 20)], [.fin 0, .fin 0, .fin (21 / 400)]] := by decide +kernel
/-- Four solver iterations of the vertex fit move the vertex off the initial guess. -/
example : positionOf (fitVertex xF 4 (.fin 0) 2 (.fin (1 / 1000)) [trA, trB] vsx) =
    some [.fin (-1 / 4000), .fin (1 / 6000), .fin (37 / 600)] := by decide +kernel
example : panicSite (fitVertex xF 4 (.fin 0) 2 (.fin (1 / 1000)) [trA, trNaN] vsx) = some siteVertexNaN := by
  decide +kernel

end Examples

end AlphaG.C14c
