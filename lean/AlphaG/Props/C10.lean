import AlphaG.Lemmas.EventIff
import AlphaG.Props.C09
/-
C10 — event assembly puts each waveform on its detector element, calibrated, or fails.

The model is `AlphaG.Event.buildEventWith` (Model/Event.lean: `MainEvent::try_from_banks`, tree
with the repair of finding F6, commit 851d684). The specification is written from the property
text, independently of the control flow of the model:
`expectedWire` (Lemmas/EventWire.lean), `expectedPad` (Lemmas/EventPad.lean), `expectedTs` (here).
-/
namespace AlphaG.C10
open AlphaG AlphaG.Event AlphaG.Generated AlphaG.Maps

variable {α : Type} (ops : Ops α)

/-! ### The two phases of a successful build -/

theorem build_ok {order : GroupOrder} {run : Nat} {banks : List Bank} {ev : Event α}
    (h : buildEventWith ops order run banks = .ok ev) :
    ∃ st pad ts, bankLoop ops run banks St.init = .ok st
      ∧ groupLoop ops run (order.f st.groups) st.pad = .ok pad ∧ st.ts = some ts
      ∧ ev = { wire := st.wire, pad := pad, ts := ts } := by
  unfold buildEventWith at h
  split at h
  · cases h
  · cases h
  · rename_i st hst
    unfold finish at h
    split at h
    · cases h
    · cases h
    · rename_i pad hpad
      split at h
      · cases h
      · rename_i ts hts
        exact ⟨st, pad, ts, hst, hpad, hts, by cases h; rfl⟩

/-- **C10 assembly_spec.** When the build succeeds, for every `into_values()` order:
(a) each of the 256 wire slots holds `expectedWire` — the unique bank whose decoded
(board, channel) the run's map sends to that wire and that is non-empty after the delay, as
`(drop delay wf).map (fun v => ofInt (v − baseline w) * gain w)`; `none` otherwise — and no wire
has two such banks;
(b) each of the 32 × 576 pad slots holds `expectedPad` — same through (board, chip, pad channel)
of the reassembled packets; reset and FPN channels contribute nothing — and no pad has two
waveforms;
(c) the timestamp is that of the one TRG packet. -/
theorem assembly_spec (order : GroupOrder) (run : Nat) (banks : List Bank) (ev : Event α)
    (h : buildEventWith ops order run banks = .ok ev) :
    (ev.wire.size = 256 ∧ ∀ w, w < 256 →
        ev.wire[w]? = some (expectedWire ops run banks w) ∧ (wireHits run w banks).length ≤ 1)
    ∧ (ev.pad.size = 32 * 576 ∧ ∀ c r, c < 32 → r < 576 →
        ev.pad[c * 576 + r]? = some (expectedPad ops run banks c r)
        ∧ (padHits run c r (groupsOf banks)).length ≤ 1)
    ∧ some ev.ts = expectedTs banks := by
  obtain ⟨st, pad, ts, h1, h2, h3, rfl⟩ := build_ok ops h
  refine ⟨?_, ?_, ?_⟩
  · have := bankLoop_wireInv ops banks St.init st [] h1 (wireInv_init ops run)
    rw [List.nil_append] at this
    exact this
  · obtain ⟨hp, hg⟩ := bankLoop_groups ops banks St.init st h1
    have hinit : PadInv ops run st.pad (fun _ _ => []) := by rw [hp]; exact padInv_init ops run
    obtain ⟨hs, hi⟩ := groupLoop_inv ops (order.f st.groups) st.pad pad _ h2 hinit
    have hgs : st.groups = groupsOf banks := by rw [hg]; rfl
    refine ⟨hs, fun c r hc hr => ?_⟩
    obtain ⟨a, b⟩ := hi c r hc hr
    simp only [List.nil_append] at a b
    have hperm : (padHits run c r (order.f st.groups)).Perm (padHits run c r (groupsOf banks)) := by
      rw [← hgs]; exact List.Perm.flatMap_right _ (order.perm st.groups)
    refine ⟨?_, by rw [← hperm.length_eq]; exact b⟩
    rw [a]; unfold expectedPad; rw [expectedOf_perm ops run c r hperm]
  · have := bankLoop_tsInv ops banks St.init st [] h1 (Or.inl ⟨rfl, rfl⟩)
    simp only [List.nil_append] at this
    unfold expectedTs
    rcases this with ⟨_, h5⟩ | ⟨t, h4, h5⟩
    · rw [h3] at h5; cases h5
    · rw [h4]; rw [h3] at h5; cases h5; rfl

/-! ### Acceptance is characterised; every listed cause is rejected -/

/-- **C10 assembly_accepts_iff.** The build succeeds *exactly* when every bank is fine on its own
(known name; well-formed payload; anode-wire packet of an anode-wire channel that agrees with its
bank name; chunk whose board agrees with its bank name; a wire and a calibration for every packet
with samples), no anode-wire bank name occurs twice, there is exactly one TRG bank, and every
(board, chip) group of chunks reassembles into a packet that names that board and chip and whose
sent pad channels all have a pad and a calibration. The `assembly_rejects_*` theorems below are
the individual consequences. -/
theorem assembly_accepts_iff (order : GroupOrder) (run : Nat) (banks : List Bank) :
    (∃ ev : Event α, buildEventWith ops order run banks = .ok ev) ↔ Accepts run banks :=
  ok_iff_accepts ops order run banks

/-- The build ends in an error (not in an event, and — C09 — not in a panic). -/
def Rejected (x : Outcome Err (Event α)) : Prop := ∃ e, x = .err e

theorem rejected_of_not_accepts {order : GroupOrder} {run : Nat} {banks : List Bank}
    (h : ¬ Accepts run banks) : Rejected (buildEventWith ops order run banks) := by
  cases hx : buildEventWith ops order run banks with
  | ok ev => exact absurd (accepts_of_ok ops hx) h
  | err e => exact ⟨e, rfl⟩
  | panic s => exact absurd hx (C09.buildEvent_total ops order run banks s)

variable (order : GroupOrder) (run : Nat) (banks : List Bank)

/-- Cause: a bank name is unknown. -/
theorem assembly_rejects_unknown_name (b : Bank) (hb : b ∈ banks) (e : BankName.MainErr)
    (h : BankName.parseBankName b.1 = .err e) : Rejected (buildEventWith ops order run banks) := by
  refine rejected_of_not_accepts ops (fun ha => ?_)
  obtain ⟨nm, hnm, _⟩ := ha.fine b hb
  rw [h] at hnm; cases hnm

/-- Cause: a wire, pad or TRG payload is malformed (its decoder returns an error). -/
theorem assembly_rejects_malformed_payload (b : Bank) (hb : b ∈ banks) (nm : BankName.Name)
    (hnm : BankName.parseBankName b.1 = .ok nm)
    (h : (nm.kind = .adc32 ∧ ∃ e, Adc.decodeAdcPacket b.2 = .err e)
       ∨ (nm.kind = .padwing ∧ ∃ e, Chunk.decodeChunk b.2 = .err e)
       ∨ (nm.kind = .trg ∧ ∃ e, Trg.decode b.2 = .err e)) :
    Rejected (buildEventWith ops order run banks) := by
  refine rejected_of_not_accepts ops (fun ha => ?_)
  obtain ⟨nm', hnm', hw, hp, ht⟩ := ha.fine b hb
  rw [hnm] at hnm'; cases hnm'
  rcases h with ⟨hk, e, he⟩ | ⟨hk, e, he⟩ | ⟨hk, e, he⟩
  · obtain ⟨p, _, hd, _⟩ := hw hk; rw [he] at hd; cases hd
  · obtain ⟨c, hd, _⟩ := hp hk; rw [he] at hd; cases hd
  · obtain ⟨p, hd⟩ := ht hk; rw [he] at hd; cases hd

/-- Cause: the chunks of one (board, chip) do not reassemble into a well-formed PWB packet
(missing / duplicated chunk, misplaced end-of-message flag, malformed packet, …). -/
theorem assembly_rejects_malformed_pwb_packet (g : Group) (hg : g ∈ groupsOf banks) (e : Pwb.CErr)
    (h : Pwb.reassemble g.2 = .err e) : Rejected (buildEventWith ops order run banks) := by
  refine rejected_of_not_accepts ops (fun ha => ?_)
  obtain ⟨p, hp, _⟩ := ha.groups g hg
  rw [h] at hp; cases hp

/-- Cause: a wire bank holds a barrel-veto channel — also when the packet is suppressed (full
strength since the repair of finding F6). -/
theorem assembly_rejects_bv_channel (b : Bank) (hb : b ∈ banks) (nm : BankName.Name)
    (hnm : BankName.parseBankName b.1 = .ok nm) (hk : nm.kind = .adc32) (p : Adc.Packet)
    (hp : Adc.decodeAdcPacket b.2 = .ok p) (n : Nat) (hch : p.channelId = .a16 n) :
    Rejected (buildEventWith ops order run banks) := by
  refine rejected_of_not_accepts ops (fun ha => ?_)
  obtain ⟨nm', hnm', hw, _, _⟩ := ha.fine b hb
  rw [hnm] at hnm'; cases hnm'
  obtain ⟨p', ch, hd, hc, _⟩ := hw hk
  rw [hp] at hd; cases hd
  rw [hch] at hc; cases hc

/-- Cause: a wire bank name and its payload disagree on the channel — also when the packet is
suppressed (full strength since the repair of finding F6). -/
theorem assembly_rejects_wire_channel_mismatch (b : Bank) (hb : b ∈ banks) (nm : BankName.Name)
    (hnm : BankName.parseBankName b.1 = .ok nm) (hk : nm.kind = .adc32) (p : Adc.Packet)
    (hp : Adc.decodeAdcPacket b.2 = .ok p) (ch : Nat) (hch : p.channelId = .a32 ch)
    (hne : ch ≠ nm.channel) : Rejected (buildEventWith ops order run banks) := by
  refine rejected_of_not_accepts ops (fun ha => ?_)
  obtain ⟨nm', hnm', hw, _, _⟩ := ha.fine b hb
  rw [hnm] at hnm'; cases hnm'
  obtain ⟨p', ch', hd, hc, hid, _⟩ := hw hk
  rw [hp] at hd; cases hd
  rw [hch] at hc
  have : ch = ch' := Adc.ChannelId.a32.inj hc
  exact hne (this.trans (Prod.mk.inj hid).2.symm)

/-- Cause: a wire bank name and its payload disagree on the board. A suppressed (16-byte) packet
carries no board id, so the disagreement exists only for packets with a board id. -/
theorem assembly_rejects_wire_board_mismatch (b : Bank) (hb : b ∈ banks) (nm : BankName.Name)
    (hnm : BankName.parseBankName b.1 = .ok nm) (hk : nm.kind = .adc32) (p : Adc.Packet)
    (hp : Adc.decodeAdcPacket b.2 = .ok p) (x : String × List Nat) (hx : p.boardId = some x)
    (hne : alpha16Boards[nm.board]? ≠ some x) : Rejected (buildEventWith ops order run banks) := by
  refine rejected_of_not_accepts ops (fun ha => ?_)
  obtain ⟨nm', hnm', hw, _, _⟩ := ha.fine b hb
  rw [hnm] at hnm'; cases hnm'
  obtain ⟨p', ch', hd, _, hid, _⟩ := hw hk
  rw [hp] at hd; cases hd
  have := (Prod.mk.inj hid).1
  unfold boardOf at this
  rw [hx] at this
  exact hne this

/-- Cause: a pad bank name and its payload (the chunk header) disagree on the board. -/
theorem assembly_rejects_pad_board_mismatch (b : Bank) (hb : b ∈ banks) (nm : BankName.Name)
    (hnm : BankName.parseBankName b.1 = .ok nm) (hk : nm.kind = .padwing) (c : Chunk.Chunk)
    (hc : Chunk.decodeChunk b.2 = .ok c)
    (hne : Chunk.boardOfDeviceId c.deviceId ≠ padwingBoards[nm.board]?) :
    Rejected (buildEventWith ops order run banks) := by
  refine rejected_of_not_accepts ops (fun ha => ?_)
  obtain ⟨nm', hnm', _, hpw, _⟩ := ha.fine b hb
  rw [hnm] at hnm'; cases hnm'
  obtain ⟨c', hd, hbd⟩ := hpw hk
  rw [hc] at hd; cases hd
  exact hne hbd

/-- Cause (finding F10, repaired): the reassembled PWB packet names another board (its MAC) or
another chip (its AFTER letter) than the chunks — hence the bank names — it came in. -/
theorem assembly_rejects_packet_identity_mismatch (g : Group) (hg : g ∈ groupsOf banks)
    (p : Pwb.PwbPacket) (hp : Pwb.reassemble g.2 = .ok p)
    (hne : some (packetBoard p) ≠ g.1.1 ∨ Chunk.afterOfNat p.afterId ≠ g.1.2) :
    Rejected (buildEventWith ops order run banks) := by
  refine rejected_of_not_accepts ops (fun ha => ?_)
  obtain ⟨p', hp', h1, h2, _⟩ := ha.groups g hg
  rw [hp] at hp'; cases hp'
  rcases hne with h | h
  · exact h h1
  · exact h h2

/-- Cause: a wire bank is duplicated (the same bank name twice) — whatever the two packets hold
(full strength since the repair of finding F6). -/
theorem assembly_rejects_duplicate_wire_bank (pre mid post : List Bank) (b₁ b₂ : Bank)
    (hbanks : banks = pre ++ b₁ :: (mid ++ b₂ :: post)) (x : Nat × Nat)
    (h₁ : wireName b₁ = some x) (h₂ : wireName b₂ = some x) :
    Rejected (buildEventWith ops order run banks) := by
  refine rejected_of_not_accepts ops (fun ha => ?_)
  have hn := ha.names
  rw [hbanks] at hn
  simp only [List.filterMap_append, List.filterMap_cons, h₁, h₂] at hn
  have := (List.nodup_append.1 hn).2.1
  simp only [List.nodup_cons, List.mem_append, List.mem_cons, true_or, or_true, not_true_eq_false,
    false_and] at this

/-- Cause: the TRG bank is missing. -/
theorem assembly_rejects_missing_trg (h : ∀ b ∈ banks, trgOf b = none) :
    Rejected (buildEventWith ops order run banks) := by
  refine rejected_of_not_accepts ops (fun ha => ?_)
  have ht := ha.trg
  have : banks.filterMap trgOf = [] := by
    rw [List.filterMap_eq_nil_iff]; exact h
  rw [this] at ht; cases ht

/-- Cause: the TRG bank is duplicated. -/
theorem assembly_rejects_duplicate_trg (pre mid post : List Bank) (b₁ b₂ : Bank)
    (hbanks : banks = pre ++ b₁ :: (mid ++ b₂ :: post)) (t₁ t₂ : Nat)
    (h₁ : trgOf b₁ = some t₁) (h₂ : trgOf b₂ = some t₂) :
    Rejected (buildEventWith ops order run banks) := by
  refine rejected_of_not_accepts ops (fun ha => ?_)
  have ht := ha.trg
  rw [hbanks] at ht
  simp only [List.filterMap_append, List.filterMap_cons, h₁, h₂, List.length_append,
    List.length_cons] at ht
  omega

/-- Cause: two chunks of one (board, chip) carry the same chunk id (a pad bank duplicated, or two
packets of one chip). -/
theorem assembly_rejects_duplicate_chunk_id (pre mid post : List Bank) (b₁ b₂ : Bank)
    (hbanks : banks = pre ++ b₁ :: (mid ++ b₂ :: post)) (k : Key) (c₁ c₂ : Pwb.ChunkV)
    (h₁ : chunkOf b₁ = some (k, c₁)) (h₂ : chunkOf b₂ = some (k, c₂))
    (hid : c₁.chunkId = c₂.chunkId) : Rejected (buildEventWith ops order run banks) := by
  refine rejected_of_not_accepts ops (fun ha => ?_)
  have ok := groupsOf_ok banks
  have hk : k ∈ (banks.filterMap chunkOf).map (·.1) := by
    rw [hbanks]
    simp only [List.filterMap_append, List.filterMap_cons, h₁, List.map_append, List.map_cons,
      List.mem_append, List.mem_cons, true_or, or_true]
  obtain ⟨p, hp, _⟩ := ha.groups _ (ok.mem_of_key hk)
  refine Pwb.reassemble_fails_if_duplicated_id _ ?_ p hp
  simp only
  rw [hbanks]
  simp only [chunksFor, List.filterMap_append, List.filterMap_cons, h₁, h₂, List.filter_append,
    List.filter_cons, decide_true, if_true, List.map_append, List.map_cons]
  intro hn
  have := (List.nodup_append.1 hn).2.1
  simp only [List.nodup_cons, List.mem_append, List.mem_cons, hid, true_or, or_true,
    not_true_eq_false, false_and] at this

/-- Cause: a needed wire map or wire calibration is unavailable for a packet with samples. -/
theorem assembly_rejects_missing_wire_map_or_calibration (b : Bank) (hb : b ∈ banks)
    (nm : BankName.Name) (hnm : BankName.parseBankName b.1 = .ok nm) (hk : nm.kind = .adc32)
    (p : Adc.Packet) (hp : Adc.decodeAdcPacket b.2 = .ok p) (ch : Nat)
    (hch : p.channelId = .a32 ch) (hne : p.waveform ≠ [])
    (hmiss : ¬ ∃ w bl g d, wirePosition run (a16Row (boardOf nm p)) ch = .ok w
        ∧ wireBaseline run w = .ok bl ∧ wireGainBits run w = .ok g ∧ wireDelay run = .ok d) :
    Rejected (buildEventWith ops order run banks) := by
  refine rejected_of_not_accepts ops (fun ha => ?_)
  obtain ⟨nm', hnm', hw, _, _⟩ := ha.fine b hb
  rw [hnm] at hnm'; cases hnm'
  obtain ⟨p', ch', hd, hc, _, hcal⟩ := hw hk
  rw [hp] at hd; cases hd
  rw [hch] at hc
  have : ch = ch' := Adc.ChannelId.a32.inj hc
  subst this
  exact hmiss (hcal hne)

/-- Cause: a needed pad map (board not installed for the run) or pad calibration is unavailable
for a sent pad channel. -/
theorem assembly_rejects_missing_pad_map_or_calibration (g : Group) (hg : g ∈ groupsOf banks)
    (p : Pwb.PwbPacket) (hp : Pwb.reassemble g.2 = .ok p) (n : Nat)
    (hn : Pwb.ChannelId.pad n ∈ p.channelsSent)
    (hmiss : ¬ ∃ pos bl gn d, padPosition run (keyRow g.1) (keyChip g.1) n = .ok pos
        ∧ padBaseline run pos.1 pos.2 = .ok bl ∧ padGainBits run pos.1 pos.2 = .ok gn
        ∧ padDelay run = .ok d) : Rejected (buildEventWith ops order run banks) := by
  refine rejected_of_not_accepts ops (fun ha => ?_)
  obtain ⟨p', hp', _, _, hch⟩ := ha.groups g hg
  rw [hp] at hp'; cases hp'
  obtain ⟨wf, pos, bl, gn, d, _, h1, h2, h3, h4⟩ := hch n hn
  exact hmiss ⟨pos, bl, gn, d, h1, h2, h3, h4⟩

/-! ### Ignored banks -/

/-- **C10 assembly_ignores.** Barrel-veto (`B…`), TRB3 (`TRBA`) and MC-vertex (`MCVX`) banks are
recognised by name and otherwise ignored: inserting or removing one anywhere does not change the
result (whatever it holds). -/
theorem assembly_ignores (pre post : List Bank) (b : Bank) (nm : BankName.Name)
    (hnm : BankName.parseBankName b.1 = .ok nm)
    (hk : nm.kind = .adc16 ∨ nm.kind = .trb3 ∨ nm.kind = .mcvx) :
    buildEventWith ops order run (pre ++ b :: post) = buildEventWith ops order run (pre ++ post) := by
  have hstep : ∀ st : St α, bankStep ops run b st = .ok st := by
    intro st
    unfold bankStep
    rw [hnm]
    rcases hk with h | h | h <;> simp only [h]
  have hloop : ∀ st : St α, bankLoop ops run (b :: post) st = bankLoop ops run post st := by
    intro st
    conv => lhs; unfold bankLoop
    rw [hstep st]
  unfold buildEventWith
  rw [bankLoop_append, bankLoop_append]
  cases bankLoop ops run pre St.init with
  | ok s => simp only [hloop s]
  | err e => rfl
  | panic s => rfl

/-! ### Non-vacuity -/

/-- A concrete accepted event: the TRG example packet of the documentation and an anode-wire bank
`C095` holding the 66-sample example packet of board 09, channel 5 (simulation run). -/
theorem exampleEvent_accepts :
    Accepts 4294967295 [("C095", Adc.exampleLongSupp), ("ATAT", Trg.examplePacket)] := by
  refine ⟨?_, by decide, by decide +kernel, ?_⟩
  · intro b hb
    simp only [List.mem_cons, List.not_mem_nil, or_false] at hb
    rcases hb with rfl | rfl
    · refine ⟨⟨.adc32, 0, 5⟩, by decide, fun _ => ?_, fun h => ?_, fun h => ?_⟩
      · refine ⟨Adc.fields Adc.exampleLongSupp, 5, by decide +kernel, by decide +kernel,
          by decide +kernel, fun _ => ?_⟩
        exact ⟨10, 3000, 4607182418800017408, 100, by decide +kernel, by decide +kernel,
          by decide +kernel, by decide +kernel⟩
      · exact absurd h (by decide)
      · exact absurd h (by decide)
    · refine ⟨⟨.trg, 0, 0⟩, by decide, fun h => ?_, fun h => ?_, fun _ => ?_⟩
      · exact absurd h (by decide)
      · exact absurd h (by decide)
      · exact ⟨Trg.fields Trg.examplePacket, by decide +kernel⟩
  · intro g hg
    have : groupsOf [("C095", Adc.exampleLongSupp), ("ATAT", Trg.examplePacket)] = [] := by
      decide +kernel
    rw [this] at hg; cases hg

/-- Hence the hypothesis of `assembly_spec` is satisfiable (for every carrier and order). -/
example : ∃ ev : Event α, buildEventWith ops order 4294967295
    [("C095", Adc.exampleLongSupp), ("ATAT", Trg.examplePacket)] = .ok ev :=
  ok_of_accepts ops exampleEvent_accepts order

/-- The same two banks with the wire bank twice: the hypotheses of
`assembly_rejects_duplicate_wire_bank` are satisfiable. -/
example : wireName ("C095", Adc.exampleLongSupp) = some (0, 5) := by decide

end AlphaG.C10
