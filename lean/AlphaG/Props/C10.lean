import AlphaG.Lemmas.EventTs
/-
C10 — event assembly puts each waveform on its detector element, calibrated, or fails.

The model is `AlphaG.Event.buildEventWith` (Model/Event.lean: `MainEvent::try_from_banks`, tree
with the repair of finding F6, commit 851d684). The specification is written from the property
text, independently of the control flow of the model:
`expectedWire` (Lemmas/EventWire.lean), `expectedPad` (Lemmas/EventPad.lean), `expectedTs` (here).
-/
namespace AlphaG.C10
open AlphaG AlphaG.Event AlphaG.Generated AlphaG.Maps

variable {α : Type} (ops : Ops α)

/-! ### The two phases of a successful build -/

theorem build_ok {order : GroupOrder} {run : Nat} {banks : List Bank} {ev : Event α}
    (h : buildEventWith ops order run banks = .ok ev) :
    ∃ st pad ts, bankLoop ops run banks St.init = .ok st
      ∧ groupLoop ops run (order.f st.groups) st.pad = .ok pad ∧ st.ts = some ts
      ∧ ev = { wire := st.wire, pad := pad, ts := ts } := by
  unfold buildEventWith at h
  split at h
  · cases h
  · cases h
  · rename_i st hst
    unfold finish at h
    split at h
    · cases h
    · cases h
    · rename_i pad hpad
      split at h
      · cases h
      · rename_i ts hts
        exact ⟨st, pad, ts, hst, hpad, hts, by cases h; rfl⟩

/-- **C10 assembly_spec.** When the build succeeds, for every `into_values()` order:
(a) each of the 256 wire slots holds `expectedWire` — the unique bank whose decoded
(board, channel) the run's map sends to that wire and that is non-empty after the delay, as
`(drop delay wf).map (fun v => ofInt (v − baseline w) * gain w)`; `none` otherwise — and no wire
has two such banks;
(b) each of the 32 × 576 pad slots holds `expectedPad` — same through (board, chip, pad channel)
of the reassembled packets; reset and FPN channels contribute nothing — and no pad has two
waveforms;
(c) the timestamp is that of the one TRG packet. -/
theorem assembly_spec (order : GroupOrder) (run : Nat) (banks : List Bank) (ev : Event α)
    (h : buildEventWith ops order run banks = .ok ev) :
    (ev.wire.size = 256 ∧ ∀ w, w < 256 →
        ev.wire[w]? = some (expectedWire ops run banks w) ∧ (wireHits run w banks).length ≤ 1)
    ∧ (ev.pad.size = 32 * 576 ∧ ∀ c r, c < 32 → r < 576 →
        ev.pad[c * 576 + r]? = some (expectedPad ops run banks c r)
        ∧ (padHits run c r (groupsOf banks)).length ≤ 1)
    ∧ some ev.ts = expectedTs banks := by
  obtain ⟨st, pad, ts, h1, h2, h3, rfl⟩ := build_ok ops h
  refine ⟨?_, ?_, ?_⟩
  · have := bankLoop_wireInv ops banks St.init st [] h1 (wireInv_init ops run)
    rw [List.nil_append] at this
    exact this
  · obtain ⟨hp, hg⟩ := bankLoop_groups ops banks St.init st h1
    have hinit : PadInv ops run st.pad (fun _ _ => []) := by rw [hp]; exact padInv_init ops run
    obtain ⟨hs, hi⟩ := groupLoop_inv ops (order.f st.groups) st.pad pad _ h2 hinit
    have hgs : st.groups = groupsOf banks := by rw [hg]; rfl
    refine ⟨hs, fun c r hc hr => ?_⟩
    obtain ⟨a, b⟩ := hi c r hc hr
    simp only [List.nil_append] at a b
    have hperm : (padHits run c r (order.f st.groups)).Perm (padHits run c r (groupsOf banks)) := by
      rw [← hgs]; exact List.Perm.flatMap_right _ (order.perm st.groups)
    refine ⟨?_, by rw [← hperm.length_eq]; exact b⟩
    rw [a]; unfold expectedPad; rw [expectedOf_perm ops run c r hperm]
  · have := bankLoop_tsInv ops banks St.init st [] h1 (Or.inl ⟨rfl, rfl⟩)
    simp only [List.nil_append] at this
    unfold expectedTs
    rcases this with ⟨_, h5⟩ | ⟨t, h4, h5⟩
    · rw [h3] at h5; cases h5
    · rw [h4]; rw [h3] at h5; cases h5; rfl

end AlphaG.C10
