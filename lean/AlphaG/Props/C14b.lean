import AlphaG.Lemmas.TrackInit
import Mathlib.Tactic.Ring
import Mathlib.Tactic.FieldSimp
import Mathlib.Tactic.Linarith
import Mathlib.Tactic.Positivity
import Mathlib.Tactic.NormNum
import Mathlib.Tactic.LinearCombination
import Mathlib.Algebra.Order.Field.Basic
import Mathlib.Algebra.Order.Field.Rat
import Mathlib.Algebra.Order.Ring.Abs
import Mathlib.Analysis.Real.Sqrt
/-
C14b — theorems about the initial-guess stage of the track fit and the initial simplex of the vertex
fit (model: AlphaG/Model/TrackInit.lean, tied bit for bit to the Rust code by harness/src/c14b.rs).

Carrier-independent statements (they hold for the `Float` instance of the driver as well, NaN
included): membership of the template points, the exact panic inventory, the shape of the simplex.
Statements over a linearly ordered field `K` (exact arithmetic, no NaN; the transcendental functions
`sin cos atan2 hypot floor` and the literals `π`, `ε`, `0.00025` are arbitrary parameters `Transc K`):

(a) `guard_iff_circle_defined`   the collinearity test is false iff both complex divisions of
                                 `circle_through_three_points` have a non-zero divisor
(b) `circle_correct`             under the guard the centre is equidistant from the three points,
                                 `r` is that distance and `r > 0`
(c) `three_template_points_members`, `template_extremal`, `template_first_last_rule`,
    `template_panic_iff`, `template_total`
(d) `initial_simplex_shape`, `perturb_ne`, `fit_simplex_shape`, `vertex_simplex_shape`
(e) `no_initial_parameters_iff`, `fit_init_panic_iff`

What is *not* here: anything about `f64` rounding. In `f64` the equivalence (a) fails outside the
physical domain (squares of differences below 1e-162 underflow), see the final report / c14b.rs.
-/
namespace AlphaG.C14b
open AlphaG AlphaG.Helix AlphaG.TrackInit

/-! ## (c), (d) — carrier independent -/

section AnyCarrier
variable {α : Type} (o : TOps α)

/-- **(c), membership.** Whatever the carrier (NaN included), the three points returned by
`three_template_points` are elements of the input. -/
theorem three_template_points_members (pts : List (Point α)) (f m l : Point α)
    (h : threeTemplatePoints o pts = .ok (f, m, l)) : f ∈ pts ∧ m ∈ pts ∧ l ∈ pts := by
  unfold threeTemplatePoints at h
  split at h
  · cases h
  · rename_i f' l' hmm
    have hfl := minmaxByKey_mem _ _ _ _ _ hmm
    split at h
    · cases h
    · rename_i p0 rest
      unfold middleOf at h
      split at h
      · rename_i m' hmid
        have hm := minByFold_mem _ _ _ _ _ hmid
        split at h
        · cases h
        · simp only [Outcome.ok.injEq, Prod.mk.injEq] at h
          obtain ⟨rfl, rfl, rfl⟩ := h
          refine ⟨hfl.1, ?_, hfl.2⟩
          rcases hm with rfl | hm
          · simp
          · simp [hm]
      · cases h
      · cases h

/-- **(c), exactly which inputs reach an `unwrap`.** `nan x` stands for "`partial_cmp` fails on `x`"
(hypothesis `hcmp`; for `f64` it is `x.is_nan()`). `three_template_points` panics
* at `into_option().unwrap()` iff the slice is empty;
* at `partial_cmp(..).unwrap()` iff the slice has at least two points and for one of them
  `(p.r - middle_r).abs()` is NaN (`middle_r` from the selected first/last);
and nowhere else (the `unwrap` after `min_by` is dead). -/
theorem template_panic_iff (nan : α → Prop) (hcmp : ∀ a b, o.cmp a b = none ↔ nan a ∨ nan b)
    (pts : List (Point α)) (s : String) :
    threeTemplatePoints o pts = .panic s ↔
      (pts = [] ∧ s = siteMinmax) ∨
      (s = sitePartialCmp ∧ 2 ≤ pts.length ∧
        ∃ f l, (minmaxByKey o.h.lt (fun p : Point α => p.r) pts).intoOption = some (f, l) ∧
          ∃ p ∈ pts, nan (devFrom o (midR o f l) p)) := by
  match pts with
  | [] =>
    simp only [threeTemplatePoints, minmaxByKey, MinMax.intoOption, Outcome.panic.injEq, true_and,
      List.length_nil]
    constructor
    · intro h; exact Or.inl h.symm
    · rintro (h | h)
      · exact h.symm
      · omega
  | p0 :: rest =>
    cases hmm : (minmaxByKey o.h.lt (fun p : Point α => p.r) (p0 :: rest)).intoOption with
    | none => exact absurd ((minmaxByKey_none_iff _ _ _).1 hmm) (by simp)
    | some fl =>
      obtain ⟨f, l⟩ := fl
      have hpanic := minByFold_panic_iff (ε := FitError)
        (fun a b => o.cmp (devFrom o (midR o f l) a) (devFrom o (midR o f l) b))
        (fun p => nan (devFrom o (midR o f l) p)) (fun a b => hcmp _ _) sitePartialCmp rest p0
      have herr : ∀ e, middleOf o f l p0 rest ≠ .err e := fun e => minByFold_not_err _ _ _ _ e
      have hrhs : ((p0 :: rest = [] ∧ s = siteMinmax) ∨
          (s = sitePartialCmp ∧ 2 ≤ (p0 :: rest).length ∧
            ∃ f' l', some (f, l) = some (f', l') ∧ ∃ p ∈ p0 :: rest, nan (devFrom o (midR o f' l') p)))
          ↔ (s = sitePartialCmp ∧ rest ≠ [] ∧
            (nan (devFrom o (midR o f l) p0) ∨ ∃ p ∈ rest, nan (devFrom o (midR o f l) p))) := by
        constructor
        · rintro (⟨h, _⟩ | ⟨hs, hlen, f', l', hfl, p, hp, hn⟩)
          · cases h
          · simp only [Option.some.injEq, Prod.mk.injEq] at hfl
            obtain ⟨rfl, rfl⟩ := hfl
            refine ⟨hs, ?_, ?_⟩
            · intro hr; subst hr; simp at hlen
            · rcases List.mem_cons.1 hp with rfl | hp
              · exact Or.inl hn
              · exact Or.inr ⟨p, hp, hn⟩
        · rintro ⟨hs, hne, h⟩
          refine Or.inr ⟨hs, ?_, f, l, rfl, ?_⟩
          · cases rest with
            | nil => exact absurd rfl hne
            | cons _ _ => simp
          · rcases h with h | ⟨p, hp, h⟩
            · exact ⟨p0, by simp, h⟩
            · exact ⟨p, by simp [hp], h⟩
      rw [hrhs, ← hpanic s]
      unfold threeTemplatePoints
      rw [hmm]
      simp only
      unfold middleOf at herr ⊢
      split
      · rename_i m hm
        rw [hm]
        split <;> simp
      · rename_i e he; exact absurd he (herr e)
      · rename_i s' hs'
        rw [hs']
        simp only [Outcome.panic.injEq]

/-! ### (d) the initial simplex -/

theorem perturbAt_length (delta : α) (g : List α) (i : Nat) : (perturbAt o delta g i).length = g.length := by
  simp [perturbAt]

/-- **(d) `initial_simplex_shape`.** For a guess of `n` coordinates the simplex has `n + 1` rows of
`n` entries; row 0 is the guess; row `i + 1` is the guess with coordinate `i` replaced by its
perturbation (`0.00025` if it `== 0.0`, else `x * (1 + delta)`) and all other coordinates
untouched. -/
theorem initial_simplex_shape (delta : α) (g : List α) :
    (initialSimplex o delta g).length = g.length + 1 ∧
    (initialSimplex o delta g)[0]? = some g ∧
    (∀ row ∈ initialSimplex o delta g, row.length = g.length) ∧
    ∀ i, i < g.length →
      ∃ row, (initialSimplex o delta g)[i + 1]? = some row ∧
        row[i]? = some (perturbValue o delta (g.getD i o.h.zero)) ∧
        ∀ j, j ≠ i → row[j]? = g[j]? := by
  refine ⟨by simp [initialSimplex], by simp [initialSimplex], ?_, ?_⟩
  · intro row hrow
    simp only [initialSimplex, List.mem_cons, List.mem_map, List.mem_range] at hrow
    rcases hrow with rfl | ⟨i, _, rfl⟩
    · rfl
    · exact perturbAt_length o delta g i
  · intro i hi
    refine ⟨perturbAt o delta g i, by simp [initialSimplex, hi], ?_, ?_⟩
    · simp [perturbAt, hi]
    · intro j hj
      simp [perturbAt, Ne.symm hj]

/-- The track-fit simplex is 7 × 6 and starts with the initial guess. -/
theorem fit_simplex_shape (delta : α) (pts : List (Point α)) (s : List (List α))
    (h : fitInit o delta pts = .ok s) :
    s.length = 7 ∧ (∀ row ∈ s, row.length = 6) ∧
      ∃ f m l, threeTemplatePoints o pts = .ok (f, m, l) ∧ s = initialSimplex o delta (initialGuess o pts f m l) := by
  unfold fitInit at h
  split at h
  · cases h
  · split at h
    · rename_i f m l ht
      simp only [Outcome.ok.injEq] at h
      subst h
      have := initial_simplex_shape o delta (initialGuess o pts f m l)
      refine ⟨by simpa [initialGuess] using this.1, ?_, f, m, l, ht, rfl⟩
      intro row hrow
      simpa [initialGuess] using this.2.2.1 row hrow
    · cases h
    · cases h

/-- The vertex-fit simplex is 4 × 3 with guess `(0, 0, mean z)`. -/
theorem vertex_simplex_shape (delta meanZ : α) :
    (initialSimplex o delta (vertexGuess o meanZ)).length = 4 ∧
    (∀ row ∈ initialSimplex o delta (vertexGuess o meanZ), row.length = 3) ∧
    (initialSimplex o delta (vertexGuess o meanZ))[0]? = some [o.h.zero, o.h.zero, meanZ] := by
  have := initial_simplex_shape o delta (vertexGuess o meanZ)
  refine ⟨by simpa [vertexGuess] using this.1, ?_, by simpa [vertexGuess] using this.2.1⟩
  intro row hrow
  simpa [vertexGuess] using this.2.2.1 row hrow

/-- Whenever `find_vertices` (model `vertexInit`) runs a fit, its simplex is 4 × 3. -/
theorem vertexInit_shape (minLen maxDca maxDist delta : α) (ts : Array (TrackP α)) (d : TrackP α)
    (c : List Nat) (s : List (List α))
    (h : vertexInit o minLen maxDca maxDist delta ts d = .ok (some (c, s))) :
    s.length = 4 ∧ ∀ row ∈ s, row.length = 3 := by
  unfold vertexInit at h
  split at h
  · split at h
    · cases h
    · simp only [Outcome.ok.injEq, Option.some.injEq, Prod.mk.injEq] at h
      obtain ⟨_, rfl⟩ := h
      exact ⟨(vertex_simplex_shape o delta _).1, (vertex_simplex_shape o delta _).2.1⟩
    · cases h
    · cases h
  · cases h
  · cases h

/-- **Panic inventory of the whole initial-guess stage**, any carrier: `fit_cluster_to_helix` up to
the construction of the simplex panics exactly (1) at `assert!(sp.len() >= 3)` for a cluster of
fewer than three points, or (2) at `partial_cmp(..).unwrap()` when `(p.r - middle_r).abs()` is NaN
for one of the points. In particular a NaN in `phi` or `z`, or a NaN produced by the circle
computation, is *not* stopped here: it flows into the simplex (and trips the `assert!(!val.is_nan())`
of the cost function later). -/
theorem fit_init_panic_sites (nan : α → Prop) (hcmp : ∀ a b, o.cmp a b = none ↔ nan a ∨ nan b)
    (delta : α) (pts : List (Point α)) (s : String) :
    fitInit o delta pts = .panic s ↔
      (pts.length < 3 ∧ s = siteAssertLen) ∨
      (3 ≤ pts.length ∧ s = sitePartialCmp ∧
        ∃ f l, (minmaxByKey o.h.lt (fun p : Point α => p.r) pts).intoOption = some (f, l) ∧
          ∃ p ∈ pts, nan (devFrom o (midR o f l) p)) := by
  unfold fitInit
  by_cases hlen : pts.length < 3
  · simp only [hlen, if_true, Outcome.panic.injEq, true_and]
    constructor
    · intro h; exact Or.inl h.symm
    · rintro (h | h)
      · exact h.symm
      · omega
  · have h3 : 3 ≤ pts.length := by omega
    have hne : pts ≠ [] := by intro h; rw [h] at h3; simp at h3
    simp only [hlen, if_false, false_and, false_or, h3, true_and]
    have key := template_panic_iff o nan hcmp pts s
    simp only [hne, false_and, false_or] at key
    have h2 : 2 ≤ pts.length := by omega
    simp only [h2, true_and] at key
    rw [← key]
    split
    · rename_i h; rw [h]; simp
    · rename_i h; rw [h]; simp
    · rename_i h; rw [h]; simp only [Outcome.panic.injEq]

end AnyCarrier

/-! ## A linearly ordered field as carrier -/

/-- The operations a field does not provide (arbitrary: no theorem below assumes anything about
them except where a hypothesis says so). -/
structure Transc (K : Type) where
  sin : K → K
  cos : K → K
  atan2 : K → K → K
  hypot : K → K → K
  floor : K → K
  pi : K
  eps : K
  simplexDefault : K

section Field
set_option linter.unusedSectionVars false
variable {K : Type} [Field K] [LinearOrder K] [IsStrictOrderedRing K]

/-- Exact arithmetic: `==` is equality, `<` the order, `partial_cmp` never fails. -/
def fieldOps (t : Transc K) : TOps K where
  h :=
    { add := (· + ·), sub := (· - ·), mul := (· * ·), div := (· / ·), neg := fun x => -x,
      abs := fun x => |x|, lt := fun a b => decide (a < b), sin := t.sin, cos := t.cos,
      atan2 := t.atan2, hypot := t.hypot, floor := t.floor, zero := 0, one := 1, two := 2,
      four := 4, pi := t.pi, eps := t.eps }
  eq := fun a b => decide (a = b)
  cmp := fun a b => some (compare a b)
  ofNat := fun n => (n : K)
  negZero := 0
  simplexDefault := t.simplexDefault

variable (t : Transc K)

/-- `(x(), y())` of a space point. -/
def xy (p : Point K) : K × K := (xOf (fieldOps t) p, yOf (fieldOps t) p)

/-- The collinearity equation of `three_template_points` on coordinates (`z1` first, `z2` middle,
`z3` last). -/
def crossEq (z1 z2 z3 : K × K) : Prop :=
  (z3.1 - z1.1) * (z2.2 - z1.2) = (z2.1 - z1.1) * (z3.2 - z1.2)

theorem collinear_iff (f m l : Point K) :
    collinear (fieldOps t) f m l = true ↔ crossEq (xy t f) (xy t m) (xy t l) := by
  simp [collinear, fieldOps, crossEq, xy]

/-! ### (a) the guard is exactly "both divisions are defined" -/

theorem normSqr_sub_conj (w : K × K) :
    cNormSqr (fieldOps t) (cSub (fieldOps t) w (cConj (fieldOps t) w)) = 4 * (w.2 * w.2) := by
  simp only [cNormSqr, cSub, cConj, fieldOps]; ring

theorem normSqr_sub (z2 z1 : K × K) :
    cNormSqr (fieldOps t) (cSub (fieldOps t) z2 z1)
      = (z2.1 - z1.1) * (z2.1 - z1.1) + (z2.2 - z1.2) * (z2.2 - z1.2) := rfl

theorem circleW_im (z1 z2 z3 : K × K) :
    (circleW (fieldOps t) z1 z2 z3).2
      = ((z3.2 - z1.2) * (z2.1 - z1.1) - (z3.1 - z1.1) * (z2.2 - z1.2))
          / ((z2.1 - z1.1) * (z2.1 - z1.1) + (z2.2 - z1.2) * (z2.2 - z1.2)) := rfl

theorem circleW_re (z1 z2 z3 : K × K) :
    (circleW (fieldOps t) z1 z2 z3).1
      = ((z3.1 - z1.1) * (z2.1 - z1.1) + (z3.2 - z1.2) * (z2.2 - z1.2))
          / ((z2.1 - z1.1) * (z2.1 - z1.1) + (z2.2 - z1.2) * (z2.2 - z1.2)) := rfl

/-- **(a) `guard_iff_circle_defined`** (coordinates). The collinearity equation fails iff both
divisors of `circle_through_three_points` — `norm_sqr(z2 − z1)` of `w = (z3 − z1)/(z2 − z1)` and
`norm_sqr(w − conj w)` of `c' = (w − |w|²)/(w − conj w)` — are non-zero. So the source comment "it
exactly matches a fail mode" is true in exact arithmetic, in both directions. -/
theorem guard_iff_circle_defined_xy (z1 z2 z3 : K × K) :
    ¬ crossEq z1 z2 z3 ↔
      cNormSqr (fieldOps t) (cSub (fieldOps t) z2 z1) ≠ 0 ∧
      cNormSqr (fieldOps t)
        (cSub (fieldOps t) (circleW (fieldOps t) z1 z2 z3) (cConj (fieldOps t) (circleW (fieldOps t) z1 z2 z3))) ≠ 0 := by
  rw [normSqr_sub_conj, normSqr_sub, circleW_im]
  unfold crossEq
  constructor
  · intro hne
    have hN : (z2.1 - z1.1) * (z2.1 - z1.1) + (z2.2 - z1.2) * (z2.2 - z1.2) ≠ 0 := by
      intro h0
      obtain ⟨ha, hb⟩ := (mul_self_add_mul_self_eq_zero).1 h0
      apply hne; rw [ha, hb]; ring
    refine ⟨hN, ?_⟩
    have hwi : ((z3.2 - z1.2) * (z2.1 - z1.1) - (z3.1 - z1.1) * (z2.2 - z1.2))
        / ((z2.1 - z1.1) * (z2.1 - z1.1) + (z2.2 - z1.2) * (z2.2 - z1.2)) ≠ 0 := by
      apply div_ne_zero _ hN
      intro h0; apply hne; linarith
    have := mul_self_pos.2 hwi
    positivity
  · rintro ⟨hN, hD⟩ heq
    apply hD
    have : (z3.2 - z1.2) * (z2.1 - z1.1) - (z3.1 - z1.1) * (z2.2 - z1.2) = 0 := by linarith
    rw [this]; simp

/-- **(a) `guard_iff_circle_defined`** for the template points: the test of
`three_template_points` is false (the code proceeds to `circle_through_three_points`) iff
`z2 ≠ z1` and `Im w ≠ 0`. -/
theorem guard_iff_circle_defined (f m l : Point K) :
    collinear (fieldOps t) f m l = false ↔
      xy t m ≠ xy t f ∧ (circleW (fieldOps t) (xy t f) (xy t m) (xy t l)).2 ≠ 0 := by
  have h1 : collinear (fieldOps t) f m l = false ↔ ¬ crossEq (xy t f) (xy t m) (xy t l) := by
    rw [← collinear_iff]; simp
  rw [h1, guard_iff_circle_defined_xy, normSqr_sub_conj, normSqr_sub]
  apply and_congr
  · rw [ne_eq, mul_self_add_mul_self_eq_zero, not_and]
    constructor
    · intro h heq; rw [heq] at h; simp at h
    · intro h h1 h2
      apply h
      ext
      · exact sub_eq_zero.1 h1
      · exact sub_eq_zero.1 h2
  · constructor
    · intro h h0; apply h; rw [h0]; ring
    · intro h h0
      have : (circleW (fieldOps t) (xy t f) (xy t m) (xy t l)).2
          * (circleW (fieldOps t) (xy t f) (xy t m) (xy t l)).2 = 0 := by linarith
      exact h (mul_self_eq_zero.1 this)

/-! ### (b) the circle is the circumscribed circle -/

/-- `c'` for `Im w ≠ 0`. -/
theorem circleCPrime_eq (wr wi : K) (hwi : wi ≠ 0) :
    circleCPrime (fieldOps t) (wr, wi) = (1 / 2, (wr * wr + wi * wi - wr) / (2 * wi)) := by
  simp only [circleCPrime, cDiv, cSubReal, cNormSqr, cSub, cConj, fieldOps, Prod.mk.injEq]
  constructor
  · field_simp; ring
  · field_simp; ring

/-- **(b) `circle_correct`.** If the collinearity equation fails, the centre `(x0, y0)` returned by
`circle_through_three_points` is equidistant from the three points; with any `hypot` satisfying
`hypot x y ≥ 0`, `hypot x y ² = x² + y²`, the returned `r` is that distance, and `r > 0`. -/
theorem circle_correct (z1 z2 z3 : K × K) (hguard : ¬ crossEq z1 z2 z3)
    (hhyp : ∀ x y, 0 ≤ t.hypot x y ∧ t.hypot x y ^ 2 = x ^ 2 + y ^ 2) :
    let c := circleThrough (fieldOps t) z1 z2 z3
    (z1.1 - c.1) ^ 2 + (z1.2 - c.2.1) ^ 2 = c.2.2 ^ 2 ∧
    (z2.1 - c.1) ^ 2 + (z2.2 - c.2.1) ^ 2 = c.2.2 ^ 2 ∧
    (z3.1 - c.1) ^ 2 + (z3.2 - c.2.1) ^ 2 = c.2.2 ^ 2 ∧
    0 < c.2.2 := by
  obtain ⟨hN, hD⟩ := (guard_iff_circle_defined_xy t z1 z2 z3).1 hguard
  obtain ⟨x1, y1⟩ := z1
  obtain ⟨x2, y2⟩ := z2
  obtain ⟨x3, y3⟩ := z3
  -- the two non-zero divisors in plain form
  have hN' : (x2 - x1) * (x2 - x1) + (y2 - y1) * (y2 - y1) ≠ 0 := by
    simpa [cNormSqr, cSub, fieldOps] using hN
  set w := circleW (fieldOps t) (x1, y1) (x2, y2) (x3, y3) with hw
  have hwi : w.2 ≠ 0 := by
    intro h0
    apply hD
    rw [normSqr_sub_conj, h0]; ring
  have e1 : w.1 * ((x2 - x1) * (x2 - x1) + (y2 - y1) * (y2 - y1))
      = (x3 - x1) * (x2 - x1) + (y3 - y1) * (y2 - y1) := by
    rw [hw, circleW_re]; exact div_mul_cancel₀ _ hN'
  have e2 : w.2 * ((x2 - x1) * (x2 - x1) + (y2 - y1) * (y2 - y1))
      = (y3 - y1) * (x2 - x1) - (x3 - x1) * (y2 - y1) := by
    rw [hw, circleW_im]; exact div_mul_cancel₀ _ hN'
  have hcp := circleCPrime_eq t w.1 w.2 hwi
  -- the centre
  have hc : circleC (fieldOps t) (x1, y1) (x2, y2) (x3, y3)
      = ((x2 - x1) * (1 / 2) - (y2 - y1) * ((w.1 * w.1 + w.2 * w.2 - w.1) / (2 * w.2)) + x1,
         (x2 - x1) * ((w.1 * w.1 + w.2 * w.2 - w.1) / (2 * w.2)) + (y2 - y1) * (1 / 2) + y1) := by
    unfold circleC
    rw [← hw, show w = (w.1, w.2) from rfl, hcp]
    simp [cAdd, cMul, cSub, fieldOps]
  set s := (w.1 * w.1 + w.2 * w.2 - w.1) / (2 * w.2) with hs
  -- v = u * w
  have hp : x3 - x1 = (x2 - x1) * w.1 - (y2 - y1) * w.2 := by
    apply mul_right_cancel₀ hN'
    linear_combination (-(x2 - x1)) * e1 + (y2 - y1) * e2
  have hq : y3 - y1 = (x2 - x1) * w.2 + (y2 - y1) * w.1 := by
    apply mul_right_cancel₀ hN'
    linear_combination (-(y2 - y1)) * e1 - (x2 - x1) * e2
  have hs2 : 2 * w.2 * s = w.1 * w.1 + w.2 * w.2 - w.1 := by
    rw [hs]; field_simp
  intro c
  have hc1 : c.1 = (x2 - x1) * (1 / 2) - (y2 - y1) * s + x1 := by
    simp only [c, circleThrough, hc]
  have hc2 : c.2.1 = (x2 - x1) * s + (y2 - y1) * (1 / 2) + y1 := by
    simp only [c, circleThrough, hc]
  have hr : c.2.2 = t.hypot (x1 - c.1) (y1 - c.2.1) := by
    simp only [c, circleThrough, cNorm, cSub, fieldOps]
  have hr2 : c.2.2 ^ 2 = (x1 - c.1) ^ 2 + (y1 - c.2.1) ^ 2 := by rw [hr]; exact (hhyp _ _).2
  have hr0 : 0 ≤ c.2.2 := by rw [hr]; exact (hhyp _ _).1
  have hx3 : x3 = (x2 - x1) * w.1 - (y2 - y1) * w.2 + x1 := by linarith
  have hy3 : y3 = (x2 - x1) * w.2 + (y2 - y1) * w.1 + y1 := by linarith
  refine ⟨hr2.symm, ?_, ?_, ?_⟩
  · rw [hr2, hc1, hc2]; ring
  · rw [hr2, hc1, hc2]
    simp only
    rw [hx3, hy3]
    have : ((x2 - x1) * (x2 - x1) + (y2 - y1) * (y2 - y1)) * (w.1 * w.1 + w.2 * w.2 - w.1 - 2 * w.2 * s) = 0 := by
      rw [hs2]; ring
    linear_combination this
  · have hpos : 0 < c.2.2 ^ 2 := by
      rw [hr2, hc1, hc2]
      have h1 : (x1 - ((x2 - x1) * (1 / 2) - (y2 - y1) * s + x1)) ^ 2 + (y1 - ((x2 - x1) * s + (y2 - y1) * (1 / 2) + y1)) ^ 2
          = ((x2 - x1) * (x2 - x1) + (y2 - y1) * (y2 - y1)) * (1 / 4 + s * s) := by ring
      rw [h1]
      have hNpos : 0 < (x2 - x1) * (x2 - x1) + (y2 - y1) * (y2 - y1) :=
        lt_of_le_of_ne (add_nonneg (mul_self_nonneg _) (mul_self_nonneg _)) (Ne.symm hN')
      have : 0 < 1 / 4 + s * s := by have := mul_self_nonneg s; linarith
      exact mul_pos hNpos this
    rcases lt_or_eq_of_le hr0 with h | h
    · exact h
    · rw [← h] at hpos; simp at hpos

/-! ### (c), (e) which points are selected; when the error is returned -/

/-- `(p.r − (first.r + last.r)/2).abs()`. -/
def devKey (f l p : Point K) : K := |p.r - (f.r + l.r) / 2|

/-- The first point of minimal radius. -/
def selFirst (p0 : Point K) (rest : List (Point K)) : Point K := firstMin (fun p : Point K => p.r) p0 rest
/-- The last point of maximal radius. -/
def selLast (p0 : Point K) (rest : List (Point K)) : Point K := lastMax (fun p : Point K => p.r) p0 rest
/-- The first point whose radius is closest to the mid radius. -/
def selMiddle (p0 : Point K) (rest : List (Point K)) : Point K :=
  firstMin (devKey (selFirst p0 rest) (selLast p0 rest)) p0 rest

theorem middleOf_eq (f l p0 : Point K) (rest : List (Point K)) :
    middleOf (fieldOps t) f l p0 rest = .ok (firstMin (devKey f l) p0 rest) :=
  minByFold_eq_firstMin (devKey f l) sitePartialCmp rest p0

/-- Over an ordered field `three_template_points` of a non-empty slice is: select
(first minimum of `r`, first minimum of `|r − mid|`, last maximum of `r`), then test collinearity. -/
theorem template_eq (p0 : Point K) (rest : List (Point K)) :
    threeTemplatePoints (fieldOps t) (p0 :: rest) =
      if collinear (fieldOps t) (selFirst p0 rest) (selMiddle p0 rest) (selLast p0 rest) = true
      then .err .NoInitialParameters
      else .ok (selFirst p0 rest, selMiddle p0 rest, selLast p0 rest) := by
  have h1 : (minmaxByKey (fieldOps t).h.lt (fun p : Point K => p.r) (p0 :: rest)).intoOption
      = some (selFirst p0 rest, selLast p0 rest) := minmaxByKey_eq (fun p : Point K => p.r) p0 rest
  unfold threeTemplatePoints
  rw [h1]
  simp only [middleOf_eq]
  rfl

/-- **(c)** no panic on a non-empty slice (no NaN in an ordered field). -/
theorem template_total (pts : List (Point K)) (hne : pts ≠ []) (s : String) :
    threeTemplatePoints (fieldOps t) pts ≠ .panic s := by
  match pts, hne with
  | p0 :: rest, _ => rw [template_eq]; split <;> simp

/-- **(c) extremal radii.** `first.r ≤ p.r ≤ last.r` for every input point, and the middle point
minimises `|p.r − (first.r + last.r)/2|`. -/
theorem template_extremal (pts : List (Point K)) (f m l : Point K)
    (h : threeTemplatePoints (fieldOps t) pts = .ok (f, m, l)) :
    ∀ p ∈ pts, f.r ≤ p.r ∧ p.r ≤ l.r ∧ devKey f l m ≤ devKey f l p := by
  match pts, h with
  | p0 :: rest, h =>
    rw [template_eq] at h
    split at h
    · cases h
    · simp only [Outcome.ok.injEq, Prod.mk.injEq] at h
      obtain ⟨rfl, rfl, rfl⟩ := h
      obtain ⟨pre1, post1, e1, hpre1, hpost1⟩ := firstMin_spec (fun p : Point K => p.r) rest p0 [] [] (by simp) (by simp)
      obtain ⟨pre2, post2, e2, hpre2, hpost2⟩ := lastMax_spec (fun p : Point K => p.r) rest p0 [] [] (by simp) (by simp)
      obtain ⟨pre3, post3, e3, hpre3, hpost3⟩ :=
        firstMin_spec (devKey (selFirst p0 rest) (selLast p0 rest)) rest p0 [] [] (by simp) (by simp)
      simp only [List.nil_append, List.cons_append] at e1 e2 e3
      intro p hp
      refine ⟨?_, ?_, ?_⟩
      · rw [e1] at hp
        rcases List.mem_append.1 hp with hp | hp
        · exact le_of_lt (hpre1 p hp)
        · rcases List.mem_cons.1 hp with rfl | hp
          · exact le_refl _
          · exact hpost1 p hp
      · rw [e2] at hp
        rcases List.mem_append.1 hp with hp | hp
        · exact hpre2 p hp
        · rcases List.mem_cons.1 hp with rfl | hp
          · exact le_refl _
          · exact le_of_lt (hpost2 p hp)
      · rw [e3] at hp
        rcases List.mem_append.1 hp with hp | hp
        · exact le_of_lt (hpre3 p hp)
        · rcases List.mem_cons.1 hp with rfl | hp
          · exact le_refl _
          · exact hpost3 p hp

/-- **(c) the tie rules** (`minmax_by_key`: first minimum, last maximum; `min_by`: first minimum):
the input splits around each selected point with strict inequalities on the side the rule names. -/
theorem template_first_last_rule (pts : List (Point K)) (f m l : Point K)
    (h : threeTemplatePoints (fieldOps t) pts = .ok (f, m, l)) :
    (∃ pre post, pts = pre ++ f :: post ∧ (∀ p ∈ pre, f.r < p.r) ∧ (∀ p ∈ post, f.r ≤ p.r)) ∧
    (∃ pre post, pts = pre ++ l :: post ∧ (∀ p ∈ pre, p.r ≤ l.r) ∧ (∀ p ∈ post, p.r < l.r)) ∧
    (∃ pre post, pts = pre ++ m :: post ∧ (∀ p ∈ pre, devKey f l m < devKey f l p) ∧
      (∀ p ∈ post, devKey f l m ≤ devKey f l p)) := by
  match pts, h with
  | p0 :: rest, h =>
    rw [template_eq] at h
    split at h
    · cases h
    · simp only [Outcome.ok.injEq, Prod.mk.injEq] at h
      obtain ⟨rfl, rfl, rfl⟩ := h
      have e1 := firstMin_spec (fun p : Point K => p.r) rest p0 [] [] (by simp) (by simp)
      have e2 := lastMax_spec (fun p : Point K => p.r) rest p0 [] [] (by simp) (by simp)
      have e3 := firstMin_spec (devKey (selFirst p0 rest) (selLast p0 rest)) rest p0 [] [] (by simp) (by simp)
      simp only [List.nil_append, List.cons_append] at e1 e2 e3
      exact ⟨e1, e2, e3⟩

/-- **(e) `no_initial_parameters_iff`.** The initial-guess stage returns `NoInitialParameters`
iff the cluster has at least three points and the collinearity equation holds for the selected
template points (first minimum of `r`, first point closest to the mid radius, last maximum of `r`). -/
theorem no_initial_parameters_iff (delta : K) (p0 : Point K) (rest : List (Point K)) :
    fitInit (fieldOps t) delta (p0 :: rest) = .err .NoInitialParameters ↔
      3 ≤ (p0 :: rest).length ∧
      crossEq (xy t (selFirst p0 rest)) (xy t (selMiddle p0 rest)) (xy t (selLast p0 rest)) := by
  unfold fitInit
  rw [template_eq, ← collinear_iff]
  by_cases hlen : (p0 :: rest).length < 3
  · simp only [hlen, if_true, reduceCtorEq, false_iff, not_and]
    intro h; omega
  · simp only [hlen, if_false]
    by_cases hc : collinear (fieldOps t) (selFirst p0 rest) (selMiddle p0 rest) (selLast p0 rest) = true
    · simp only [hc, if_true, true_iff, and_true]; omega
    · simp [hc]

/-- **(e), totality.** Over an ordered field the initial-guess stage panics only through
`assert!(sp.len() >= 3)`, and exactly for clusters shorter than three points. -/
theorem fit_init_panic_iff (delta : K) (pts : List (Point K)) (s : String) :
    fitInit (fieldOps t) delta pts = .panic s ↔ pts.length < 3 ∧ s = siteAssertLen := by
  unfold fitInit
  by_cases hlen : pts.length < 3
  · simp only [hlen, if_true, Outcome.panic.injEq, true_and]; exact eq_comm
  · simp only [hlen, if_false, false_and, iff_false]
    match pts, hlen with
    | p0 :: rest, _ =>
      rw [template_eq]
      by_cases hc : collinear (fieldOps t) (selFirst p0 rest) (selMiddle p0 rest) (selLast p0 rest) = true <;>
        simp [hc]
    | [], h => simp at h

/-! ### (d) the perturbation really moves the vertex -/

/-- **(d)** each perturbed coordinate differs from the guess whenever `delta ≠ 0` (and the literal
`0.00025 ≠ 0`): the initial simplex is non-degenerate in every coordinate direction. -/
theorem perturb_ne (delta x : K) (hd : delta ≠ 0) (hs : t.simplexDefault ≠ 0) :
    perturbValue (fieldOps t) delta x ≠ x := by
  unfold perturbValue
  simp only [fieldOps, decide_eq_true_eq]
  split
  · rename_i h; rw [h]; exact hs
  · rename_i h
    intro heq
    have : x * delta = 0 := by linear_combination heq
    rcases mul_eq_zero.1 this with h' | h'
    · exact h h'
    · exact hd h'

/-- **(d)** row `i + 1` of the simplex differs from the guess exactly in coordinate `i`. -/
theorem initial_simplex_nondegenerate (delta : K) (g : List K) (hd : delta ≠ 0)
    (hs : t.simplexDefault ≠ 0) (i : Nat) (hi : i < g.length) :
    ∃ row, (initialSimplex (fieldOps t) delta g)[i + 1]? = some row ∧ row ≠ g ∧
      ∀ j, row[j]? ≠ g[j]? ↔ j = i := by
  obtain ⟨row, hrow, hri, hrj⟩ := (initial_simplex_shape (fieldOps t) delta g).2.2.2 i hi
  have hne : row[i]? ≠ g[i]? := by
    rw [hri, List.getElem?_eq_getElem hi]
    simp only [ne_eq, Option.some.injEq]
    have : g.getD i (fieldOps t).h.zero = g[i] := by simp [List.getD, List.getElem?_eq_getElem hi]
    rw [this]
    exact perturb_ne t delta g[i] hd hs
  refine ⟨row, hrow, ?_, ?_⟩
  · intro h; rw [h] at hne; exact hne rfl
  · intro j
    constructor
    · intro h; by_contra hj; exact h (hrj j hj)
    · rintro rfl; exact hne

end Field

/-! ## Non-vacuity: concrete instances over ℚ -/

section Examples

/-- A concrete `Transc ℚ` (`cos φ = φ`, `sin φ = φ²`: any functions will do; `hypot` is a stand-in). -/
def qT : Transc ℚ where
  sin := fun x => x * x
  cos := fun x => x
  atan2 := fun y _ => y
  hypot := fun x y => x + y
  floor := fun x => x
  pi := 3
  eps := 1 / 1000
  simplexDefault := 1 / 4000

/-- Three points with `(x, y) = (0, 0), (2, 2), (−3, 3)` (radii 1, 2, 3). -/
def exPts : List (Point ℚ) := [⟨1, 0, 5⟩, ⟨2, 1, 7⟩, ⟨3, -1, 9⟩]
/-- Three collinear points `(1,1), (2,2), (3,3)`. -/
def exCol : List (Point ℚ) := [⟨1, 1, 0⟩, ⟨2, 1, 0⟩, ⟨3, 1, 0⟩]

example : threeTemplatePoints (fieldOps qT) exPts = .ok (⟨1, 0, 5⟩, ⟨2, 1, 7⟩, ⟨3, -1, 9⟩) := by
  rw [exPts, template_eq, if_neg]
  · norm_num [selFirst, selLast, selMiddle, firstMin, lastMax, stepMin, stepMax, devKey, abs_of_nonneg,
      abs_of_neg]
  · rw [collinear_iff]
    norm_num [selFirst, selLast, selMiddle, firstMin, lastMax, stepMin, stepMax, devKey,
      crossEq, xy, xOf, yOf, px, py, fieldOps, qT, abs_of_nonneg, abs_of_neg]

/-- (a)/(b) non-vacuous: the guard passes for `(0,0), (2,2), (−3,3)`. -/
example : ¬ crossEq ((0 : ℚ), (0 : ℚ)) (2, 2) (-3, 3) := by norm_num [crossEq]

/-- (b) concretely: the circle through `(0,0), (2,2), (−3,3)` has centre `(−1/2, 5/2)`. -/
example : (circleThrough (fieldOps qT) ((0 : ℚ), (0 : ℚ)) (2, 2) (-3, 3)).1 = -1 / 2 ∧
    (circleThrough (fieldOps qT) ((0 : ℚ), (0 : ℚ)) (2, 2) (-3, 3)).2.1 = 5 / 2 := by
  norm_num [circleThrough, circleC, circleCPrime, circleW, cAdd, cMul, cSub, cDiv, cSubReal, cConj,
    cNormSqr, fieldOps, qT]

/-- (e) non-vacuous, both ways. -/
example : fitInit (fieldOps qT) (1 / 20) exCol = .err .NoInitialParameters := by
  rw [exCol, no_initial_parameters_iff]
  norm_num [selFirst, selLast, selMiddle, firstMin, lastMax, stepMin, stepMax, devKey,
    crossEq, xy, xOf, yOf, px, py, fieldOps, qT, abs_of_nonneg, abs_of_neg]

example : ∃ s, fitInit (fieldOps qT) (1 / 20) exPts = .ok s ∧ s.length = 7 := by
  have h : ∀ s, fitInit (fieldOps qT) (1 / 20) exPts ≠ .panic s := by
    intro s hs
    have := (fit_init_panic_iff qT (1 / 20) exPts s).1 hs
    simp [exPts] at this
  have h2 : fitInit (fieldOps qT) (1 / 20) exPts ≠ .err .NoInitialParameters := by
    rw [exPts, Ne, no_initial_parameters_iff]
    norm_num [selFirst, selLast, selMiddle, firstMin, lastMax, stepMin, stepMax, devKey,
      crossEq, xy, xOf, yOf, px, py, fieldOps, qT, abs_of_nonneg, abs_of_neg]
  cases hfit : fitInit (fieldOps qT) (1 / 20) exPts with
  | ok s => exact ⟨s, rfl, (fit_simplex_shape (fieldOps qT) _ _ s hfit).1⟩
  | err e => cases e; exact absurd hfit h2
  | panic s => exact absurd hfit (h s)

/-- (d) non-vacuous: a guess with a zero entry. -/
example : initialSimplex (fieldOps qT) (1 / 20) [0, 2, 3]
    = [[0, 2, 3], [1 / 4000, 2, 3], [0, 21 / 10, 3], [0, 2, 63 / 20]] := by
  norm_num [initialSimplex, perturbAt, perturbValue, fieldOps, qT, List.range, List.range.loop]

/-- (c) the tie rules, concretely: radii `1, 1, 3, 3` (in this order) select the **first** point of
radius 1 and the **last** point of radius 3; both are equally far from the mid radius 2 and the
**first** such point (index 0) becomes the middle point — which equals `first`, so the three
points are collinear and the stage answers `NoInitialParameters`. -/
example : selFirst (⟨1, 0, 10⟩ : Point ℚ) [⟨1, 1, 11⟩, ⟨3, 2, 12⟩, ⟨3, 3, 13⟩] = ⟨1, 0, 10⟩ ∧
    selLast (⟨1, 0, 10⟩ : Point ℚ) [⟨1, 1, 11⟩, ⟨3, 2, 12⟩, ⟨3, 3, 13⟩] = ⟨3, 3, 13⟩ ∧
    selMiddle (⟨1, 0, 10⟩ : Point ℚ) [⟨1, 1, 11⟩, ⟨3, 2, 12⟩, ⟨3, 3, 13⟩] = ⟨1, 0, 10⟩ := by
  norm_num [selFirst, selLast, selMiddle, firstMin, lastMax, stepMin, stepMax, devKey, abs_of_nonneg,
    abs_of_neg]

/-- (b) the `hypot` hypothesis of `circle_correct` is satisfiable (over ℝ, by the real `hypot`). -/
noncomputable def realT : Transc ℝ where
  sin := fun x => x
  cos := fun x => x
  atan2 := fun y _ => y
  hypot := fun x y => Real.sqrt (x ^ 2 + y ^ 2)
  floor := fun x => x
  pi := 3
  eps := 1 / 1000
  simplexDefault := 1 / 4000

example : ∀ x y : ℝ, 0 ≤ realT.hypot x y ∧ realT.hypot x y ^ 2 = x ^ 2 + y ^ 2 :=
  fun x y => ⟨Real.sqrt_nonneg _, Real.sq_sqrt (by positivity)⟩

/-- `circle_correct` applied: the circle through `(0,0), (2,2), (−3,3)` over ℝ has `r > 0`. -/
example : 0 < (circleThrough (fieldOps realT) ((0 : ℝ), (0 : ℝ)) (2, 2) (-3, 3)).2.2 :=
  (circle_correct realT (0, 0) (2, 2) (-3, 3) (by norm_num [crossEq])
    (fun x y => ⟨Real.sqrt_nonneg _, Real.sq_sqrt (by positivity)⟩)).2.2.2

/-! A carrier with a NaN (`Option Int`, `none` = NaN) for the panic inventory `template_panic_iff`. -/

def nanBin (f : Int → Int → Int) (a b : Option Int) : Option Int :=
  match a, b with
  | some x, some y => some (f x y)
  | _, _ => none

def nanOps : TOps (Option Int) where
  h :=
    { add := nanBin (· + ·), sub := nanBin (· - ·), mul := nanBin (· * ·), div := nanBin (· / ·),
      neg := Option.map (fun x => -x), abs := Option.map (fun x => |x|),
      lt := fun a b => match a, b with
        | some x, some y => decide (x < y)
        | _, _ => false,
      sin := fun _ => some 0, cos := fun _ => some 1, atan2 := fun a _ => a, hypot := fun a _ => a,
      floor := id, zero := some 0, one := some 1, two := some 2, four := some 4, pi := some 3, eps := some 0 }
  eq := fun a b => match a, b with
    | some x, some y => decide (x = y)
    | _, _ => false
  cmp := fun a b => match a, b with
    | some x, some y => some (compare x y)
    | _, _ => none
  ofNat := fun n => some n
  negZero := some 0
  simplexDefault := some 1

theorem nanOps_cmp (a b : Option Int) : nanOps.cmp a b = none ↔ a = none ∨ b = none := by
  cases a <;> cases b <;> simp [nanOps]

/-- A NaN radius reaches `partial_cmp(..).unwrap()` … -/
example : threeTemplatePoints nanOps [⟨some 1, some 0, some 0⟩, ⟨none, some 0, some 0⟩, ⟨some 5, some 0, some 0⟩]
    = .panic sitePartialCmp := by rfl

/-- … exactly as `template_panic_iff` says (its right-hand side holds for this input). -/
example : ∃ f l, (minmaxByKey nanOps.h.lt (fun p : Point (Option Int) => p.r)
      [⟨some 1, some 0, some 0⟩, ⟨none, some 0, some 0⟩, ⟨some 5, some 0, some 0⟩]).intoOption = some (f, l) ∧
    ∃ p ∈ ([⟨some 1, some 0, some 0⟩, ⟨none, some 0, some 0⟩, ⟨some 5, some 0, some 0⟩] : List (Point (Option Int))),
      devFrom nanOps (midR nanOps f l) p = none :=
  ⟨_, _, rfl, ⟨none, some 0, some 0⟩, by simp, rfl⟩

/-- The empty slice reaches `into_option().unwrap()`. -/
example : threeTemplatePoints (fieldOps qT) [] = .panic siteMinmax := rfl

end Examples

end AlphaG.C14b
