import AlphaG.Model.Csv
import AlphaG.Lemmas.Bytes
/-
C19 — vertex/scaler CSVs: one row per main event, in run order, with unwrapped time.
Row logic only (the binaries themselves are tied end to end by the harness: generated MIDAS
files → real executables → CSV → diff with `rowsOfRun`). Core Lean only.
-/
namespace AlphaG.Csv
open List

/-! ### One row per main event, in order, carrying the serial number -/

theorem scanFrom_serial (s : ScanState) (es : List Ev) :
    (scanFrom s es).map (·.serial) = es.map (·.serial) := by
  induction es generalizing s with
  | nil => rfl
  | cons e es ih => simp [scanFrom, rowOf, ih]

/-- One row per main event, in file order, carrying the event's serial number; events of other
types get no row. -/
theorem rows_one_per_main (files : List (List FileEvent)) :
    (rowsOfRun files).map (·.serial) = (files.flatMap mainEvents).map (·.serial) :=
  scanFrom_serial _ _

theorem rows_length (files : List (List FileEvent)) :
    (rowsOfRun files).length = (files.flatMap mainEvents).length := by
  have := congrArg List.length (rows_one_per_main files)
  simpa using this

theorem scanFrom_cum_isSome (s : ScanState) (es : List Ev) :
    (scanFrom s es).map (·.cum.isSome) = es.map (·.ts.isSome) := by
  induction es generalizing s with
  | nil => rfl
  | cons e es ih =>
    simp only [scanFrom, List.map_cons, ih, rowOf]
    cases e.ts <;> simp

/-- Events that cannot be decoded get a row with an empty time, decodable ones a time. -/
theorem undecodable_row_empty (files : List (List FileEvent)) :
    (rowsOfRun files).map (·.cum.isSome) = (files.flatMap mainEvents).map (·.ts.isSome) :=
  scanFrom_cum_isSome _ _

/-- Events of other types contribute nothing: only id 1 is kept. -/
theorem other_events_no_row (evs : List FileEvent) (h : ∀ e ∈ evs, e.eventId ≠ 1) :
    mainEvents evs = [] := by
  unfold mainEvents
  rw [List.filter_eq_nil_iff.2]
  · rfl
  · intro e he; simpa using h e he


/-! ### Unwrapped time: differences are sums of wrapped differences -/

/-- Decoded timestamps of the main events, in order. -/
def decodedTs (es : List Ev) : List Nat := es.filterMap (·.ts)

/-- Cumulative counts of the decodable rows, in order. -/
def decodedCums (rows : List Row) : List Nat := rows.filterMap (·.cum)

/-- The specification: starting after a (real or virtual) previous timestamp `p` at count `c`,
every decodable event adds the 32-bit-wrapped difference to its predecessor. -/
def cumsAfter (p c : Nat) : List Nat → List Nat
  | [] => []
  | d :: ds => (c + wsub32 d p) :: cumsAfter d (c + wsub32 d p) ds

theorem wsub32_self (p : Nat) : wsub32 p p = 0 := by
  unfold wsub32
  have : p + 2 ^ 32 - p = 2 ^ 32 := by omega
  rw [this]

theorem scanFrom_some (p c : Nat) (es : List Ev) :
    decodedCums (scanFrom { previous := some p, cumulative := c } es)
      = cumsAfter p c (decodedTs es) := by
  induction es generalizing p c with
  | nil => rfl
  | cons e es ih =>
    cases hts : e.ts with
    | none =>
      have hn : next { previous := some p, cumulative := c } e
          = { previous := some p, cumulative := c } := by
        simp [next, current, delta, hts, wsub32_self]
      simp only [scanFrom, decodedCums, decodedTs, rowOf, hts, hn, List.filterMap_cons,
        Option.isSome_none, Bool.false_eq_true, if_false]
      exact ih p c
    | some d =>
      have hn : next { previous := some p, cumulative := c } e
          = { previous := some d, cumulative := c + wsub32 d p } := by
        simp [next, current, delta, hts]
      simp only [scanFrom, decodedCums, decodedTs, rowOf, hts, hn, List.filterMap_cons,
        Option.isSome_some, if_true, cumsAfter]
      congr 1
      exact ih d (c + wsub32 d p)

/-- **Time differences.** The cumulative counts of the decodable events are `c₀` for the first
one and then grow by exactly the 32-bit-wrapped difference between consecutive decodable
timestamps: for any two decodable events the difference of their counts (hence of `trg_time`
× 62.5 MHz) is the sum of the wrapped differences between them. The offset `c₀` is `0` when
the run starts with a decodable event and the first decoded timestamp (mod 2^32) when it
starts with undecodable ones (the scan seeds `previous = 0`); differences are unaffected. -/
theorem time_diff (es : List Ev) :
    decodedCums (scanRows es) =
      match decodedTs es with
      | [] => []
      | d :: ds =>
        (if (es.head?.bind (·.ts)).isSome then 0 else wsub32 d 0)
          :: cumsAfter d (if (es.head?.bind (·.ts)).isSome then 0 else wsub32 d 0) ds := by
  unfold scanRows
  cases es with
  | nil => rfl
  | cons e es =>
    cases hts : e.ts with
    | none =>
      have hn : next { previous := none, cumulative := 0 } e
          = { previous := some 0, cumulative := 0 } := by
        simp [next, current, delta, hts, wsub32_self]
      have h1 : decodedTs (e :: es) = decodedTs es := by simp [decodedTs, hts]
      simp only [scanFrom, rowOf, hts, hn, decodedCums, List.filterMap_cons, Option.isSome_none,
        Bool.false_eq_true, if_false, h1, List.head?_cons, Option.bind_some]
      have := scanFrom_some 0 0 es
      simp only [decodedCums] at this
      rw [this]
      cases decodedTs es with
      | nil => rfl
      | cons d ds => simp [cumsAfter]
    | some d =>
      have hn : next { previous := none, cumulative := 0 } e
          = { previous := some d, cumulative := 0 } := by
        simp [next, current, delta, hts, wsub32_self]
      have h1 : decodedTs (e :: es) = d :: decodedTs es := by simp [decodedTs, hts]
      simp only [scanFrom, rowOf, hts, hn, decodedCums, List.filterMap_cons, Option.isSome_some,
        if_true, h1, List.head?_cons, Option.bind_some]
      have := scanFrom_some d 0 es
      simp only [decodedCums] at this
      rw [this]

/-- Consecutive decodable rows differ by exactly the wrapped timestamp difference. -/
theorem cumsAfter_step (p c d : Nat) (ds : List Nat) :
    cumsAfter p c (d :: ds) = (c + wsub32 d p) :: cumsAfter d (c + wsub32 d p) ds := rfl

/-! ### Argument order is irrelevant; bad inputs are refused -/

theorem insertByT0_perm (f : FileHead) (l : List FileHead) : (insertByT0 f l).Perm (f :: l) := by
  induction l with
  | nil => exact Perm.refl _
  | cons g gs ih =>
    unfold insertByT0
    split
    · exact Perm.refl _
    · exact (Perm.cons g ih).trans (Perm.swap f g gs)

theorem sortByT0_perm (l : List FileHead) : (sortByT0 l).Perm l := by
  induction l with
  | nil => exact Perm.refl _
  | cons f fs ih => exact (insertByT0_perm f _).trans (Perm.cons f ih)

theorem insertByT0_sorted (f : FileHead) (l : List FileHead)
    (h : l.Pairwise (fun a b => a.t0 ≤ b.t0)) :
    (insertByT0 f l).Pairwise (fun a b => a.t0 ≤ b.t0) := by
  induction l with
  | nil => simp [insertByT0]
  | cons g gs ih =>
    unfold insertByT0
    split
    · rename_i hle
      refine List.pairwise_cons.2 ⟨?_, h⟩
      intro x hx
      rcases List.mem_cons.1 hx with rfl | hx
      · exact hle
      · exact Nat.le_trans hle (List.rel_of_pairwise_cons h hx)
    · rename_i hnle
      have hg := List.pairwise_cons.1 h
      refine List.pairwise_cons.2 ⟨?_, ih hg.2⟩
      intro x hx
      have := (insertByT0_perm f gs).subset hx
      rcases List.mem_cons.1 this with rfl | hx'
      · omega
      · exact hg.1 x hx'

theorem sortByT0_sorted (l : List FileHead) :
    (sortByT0 l).Pairwise (fun a b => a.t0 ≤ b.t0) := by
  induction l with
  | nil => simp [sortByT0]
  | cons f fs ih => exact insertByT0_sorted f _ ih

/-- On a sorted list the adjacent-duplicate check finds every duplicate. -/
theorem hasAdjacentDup_false_iff (l : List FileHead)
    (h : l.Pairwise (fun a b => a.t0 ≤ b.t0)) :
    hasAdjacentDup l = false ↔ l.Pairwise (fun a b => a.t0 < b.t0) := by
  induction l with
  | nil => simp [hasAdjacentDup]
  | cons a l ih =>
    cases l with
    | nil => simp [hasAdjacentDup]
    | cons b rest =>
      have ha := List.pairwise_cons.1 h
      have hb := List.pairwise_cons.1 ha.2
      simp only [hasAdjacentDup, Bool.or_eq_false_iff, beq_eq_false_iff_ne, ne_eq]
      rw [ih ha.2]
      constructor
      · rintro ⟨hne, hp⟩
        refine List.pairwise_cons.2 ⟨?_, hp⟩
        intro x hx
        have hab : a.t0 ≤ b.t0 := ha.1 b List.mem_cons_self
        rcases List.mem_cons.1 hx with rfl | hx
        · omega
        · have := hb.1 x hx; omega
      · intro hp
        have hp' := List.pairwise_cons.1 hp
        exact ⟨by have := hp'.1 b List.mem_cons_self; omega, hp'.2⟩

/-- Any two strictly sorted permutations of the same files are equal: the processing order
does not depend on which sorted permutation `sort_unstable_by_key` returns, nor on the order
of the arguments. -/
theorem sorted_unique (s₁ s₂ : List FileHead) (hp : s₁.Perm s₂)
    (h₁ : s₁.Pairwise (fun a b => a.t0 < b.t0)) (h₂ : s₂.Pairwise (fun a b => a.t0 < b.t0)) :
    s₁ = s₂ :=
  Perm.eq_of_pairwise (le := fun a b => a.t0 < b.t0)
    (fun a b _ _ hab hba => by omega) h₁ h₂ hp

theorem find?_none_perm {p : FileHead → Bool} {l₁ l₂ : List FileHead} (hp : l₁.Perm l₂) :
    l₁.find? p = none ↔ l₂.find? p = none := by
  simp only [List.find?_eq_none]
  constructor
  · intro h x hx; exact h x (hp.symm.subset hx)
  · intro h x hx; exact h x (hp.subset hx)

/-- Exactly when `sort_run_files` succeeds, and with what. -/
theorem sortRunFiles_ok_iff (files : List FileHead) (v : Nat × List Nat) :
    sortRunFiles files = .ok v ↔
      (∀ f ∈ files, f.extKnown = true) ∧ (∃ first, files.head? = some first ∧ v.1 = first.run)
        ∧ (∀ f ∈ files, ∀ g ∈ files, f.run = g.run)
        ∧ hasAdjacentDup (sortByT0 files) = false ∧ v.2 = (sortByT0 files).map (·.id) := by
  unfold sortRunFiles sortRunFilesWith
  cases he : files.find? (fun f => !f.extKnown) with
  | some f =>
    have hf := List.find?_some he
    have hm := List.mem_of_find?_eq_some he
    simp only []
    constructor
    · intro h; cases h
    · rintro ⟨h, -⟩; have := h f hm; simp [this] at hf
  | none =>
    have hext : ∀ f ∈ files, f.extKnown = true := by
      intro f hf; have := (List.find?_eq_none.1 he) f hf; simpa using this
    cases hh : files.head? with
    | none =>
      simp only []
      constructor
      · intro h; cases h
      · rintro ⟨-, ⟨first, h, -⟩, -⟩; cases h
    | some first =>
      have hfirst : first ∈ files := List.mem_of_head? hh
      cases hr : files.find? (fun f => f.run != first.run) with
      | some f =>
        have hf := List.find?_some hr
        have hm := List.mem_of_find?_eq_some hr
        simp only [hr]
        constructor
        · intro h; cases h
        · rintro ⟨-, -, h, -⟩; have := h f hm first hfirst; simp [this] at hf
      | none =>
        have hrun : ∀ f ∈ files, f.run = first.run := by
          intro f hf; have := (List.find?_eq_none.1 hr) f hf; simpa using this
        simp only [hr]
        cases hd : hasAdjacentDup (sortByT0 files) with
        | true =>
          simp only [if_true]
          constructor
          · intro h; cases h
          · rintro ⟨-, -, -, h, -⟩; cases h
        | false =>
          simp only [Bool.false_eq_true, if_false, ok_eq_ok]
          constructor
          · intro h; subst h
            exact ⟨hext, ⟨first, rfl, rfl⟩, fun f hf g hg => (hrun f hf).trans (hrun g hg).symm,
              trivial, rfl⟩
          · rintro ⟨-, ⟨f', hf', h1⟩, -, -, h2⟩
            cases hf'
            exact Prod.ext h1.symm h2.symm

/-- With at least one file the function never panics. -/
theorem sortRunFiles_total (files : List FileHead) (hne : files ≠ []) :
    ∀ s, sortRunFiles files ≠ .panic s := by
  intro s
  unfold sortRunFiles sortRunFilesWith
  cases files.find? (fun f => !f.extKnown) with
  | some f => simp
  | none =>
    cases hh : files.head? with
    | none => exact absurd (List.head?_eq_none_iff.1 hh) hne
    | some first =>
      simp only
      cases files.find? (fun f => f.run != first.run) with
      | some f => simp
      | none => simp only; split <;> simp

/-- **Argument order.** For two orderings of the same set of files, `sort_run_files` either
succeeds on both with the same run number and the same processing order, or refuses both. -/
theorem arg_order_irrelevant (l₁ l₂ : List FileHead) (hp : l₁.Perm l₂) (v : Nat × List Nat) :
    sortRunFiles l₁ = .ok v ↔ sortRunFiles l₂ = .ok v := by
  suffices h : ∀ l₁ l₂ : List FileHead, l₁.Perm l₂ → sortRunFiles l₁ = .ok v →
      sortRunFiles l₂ = .ok v from ⟨h l₁ l₂ hp, h l₂ l₁ hp.symm⟩
  intro l₁ l₂ hp h
  rw [sortRunFiles_ok_iff] at h ⊢
  obtain ⟨hext, ⟨first, hh, hv1⟩, hrun, hd, hv2⟩ := h
  have hs1 := sortByT0_sorted l₁
  have hs2 := sortByT0_sorted l₂
  have hperm : (sortByT0 l₁).Perm (sortByT0 l₂) :=
    (sortByT0_perm _).trans (hp.trans (sortByT0_perm _).symm)
  have h1 := (hasAdjacentDup_false_iff _ hs1).1 hd
  have h2 : (sortByT0 l₂).Pairwise (fun x y => x.t0 < y.t0) := by
    have hnd : ((sortByT0 l₁).map (·.t0)).Nodup := by
      rw [List.Nodup, List.pairwise_map]
      exact h1.imp (fun h => by omega)
    have hnd2 : ((sortByT0 l₂).map (·.t0)).Nodup := (hperm.map _).nodup hnd
    rw [List.Nodup, List.pairwise_map] at hnd2
    exact (List.Pairwise.and hs2 hnd2).imp (fun ⟨h, h'⟩ => by omega)
  have heq := sorted_unique _ _ hperm h1 h2
  have hfirst : first ∈ l₁ := List.mem_of_head? hh
  have hne2 : l₂ ≠ [] := by
    intro h; subst h; have := hp.length_eq; cases l₁ <;> simp_all
  obtain ⟨b, t₂, rfl⟩ := List.exists_cons_of_ne_nil hne2
  refine ⟨fun f hf => hext f (hp.symm.subset hf), ⟨b, rfl, ?_⟩,
    fun f hf g hg => hrun f (hp.symm.subset hf) g (hp.symm.subset hg),
    (hasAdjacentDup_false_iff _ hs2).2 h2, by rw [← heq]; exact hv2⟩
  rw [hv1]; exact hrun first hfirst b (hp.symm.subset List.mem_cons_self)

/-- Files of different runs are refused. -/
theorem refused_mixed_runs (files : List FileHead) (f g : FileHead) (hf : f ∈ files)
    (hg : g ∈ files) (hrun : f.run ≠ g.run) (v : Nat × List Nat) : sortRunFiles files ≠ .ok v := by
  intro h
  rw [sortRunFiles_ok_iff] at h
  exact hrun (h.2.2.1 f hf g hg)

/-- An unknown file extension is refused. -/
theorem refused_unknown_extension (files : List FileHead) (f : FileHead) (hf : f ∈ files)
    (hext : f.extKnown = false) (v : Nat × List Nat) : sortRunFiles files ≠ .ok v := by
  intro h
  rw [sortRunFiles_ok_iff] at h
  have := h.1 f hf
  simp [hext] at this

/-- Two files with the same initial timestamp are refused. -/
theorem refused_duplicate_t0 (files : List FileHead)
    (hdup : ¬ (files.map (·.t0)).Nodup) (v : Nat × List Nat) : sortRunFiles files ≠ .ok v := by
  intro h
  rw [sortRunFiles_ok_iff] at h
  apply hdup
  have h1 := (hasAdjacentDup_false_iff _ (sortByT0_sorted _)).1 h.2.2.2.1
  have hnd : ((sortByT0 files).map (·.t0)).Nodup := by
    rw [List.Nodup, List.pairwise_map]
    exact h1.imp (fun h => by omega)
  exact ((sortByT0_perm files).map _).nodup hnd

/-! ### Non-vacuity -/

example : scanRows [⟨7, none⟩, ⟨8, some 4294967290⟩, ⟨9, none⟩, ⟨10, some 5⟩, ⟨11, some 5⟩]
    = [⟨7, none⟩, ⟨8, some 4294967290⟩, ⟨9, none⟩, ⟨10, some 4294967301⟩, ⟨11, some 4294967301⟩] := by
  decide

example : sortRunFiles [⟨0, true, 5, 30⟩, ⟨1, true, 5, 10⟩, ⟨2, true, 5, 20⟩] = .ok (5, [1, 2, 0]) := by
  decide

end AlphaG.Csv
