import AlphaG.Props.C06
/-
C06 — converse round trip and injectivity: every field tuple within the documented widths and
counter ordering is reproduced by decoding its encoding (`decode (encode p) = .ok p`), so the
accepted slices and the well-formed packets are in bijection (`trg_roundtrip` is the other
direction), and two different accepted slices never decode to the same packet.
-/
namespace AlphaG.Trg
set_option linter.unusedSimpArgs false

theorem byteAt_cons_succ (x : UInt8) (l : List UInt8) (i : Nat) :
    byteAt (x :: l) (i + 1) = byteAt l i := by
  simp [byteAt]

theorem leAt_cons_succ (x : UInt8) (l : List UInt8) (off k : Nat) :
    leAt (x :: l) (off + 1) k = leAt l off k := by
  induction k generalizing off with
  | zero => rfl
  | succ k ih => simp only [leAt, byteAt_cons_succ, ih]

theorem leAt_skip (m j : Nat) (t : List UInt8) (off k : Nat) :
    leAt (leBytes m j ++ t) (off + j) k = leAt t off k := by
  induction j generalizing m off with
  | zero => simp [leBytes]
  | succ j ih =>
    simp only [leBytes, List.cons_append]
    rw [show off + (j + 1) = (off + j) + 1 by omega, leAt_cons_succ, ih]

theorem leAt_here (n k : Nat) (t : List UInt8) : leAt (leBytes n k ++ t) 0 k = n % 256 ^ k := by
  induction k generalizing n with
  | zero => simp [leAt, Nat.mod_one]
  | succ k ih =>
    simp only [leBytes, List.cons_append, leAt]
    rw [leAt_cons_succ, ih]
    have : byteAt (UInt8.ofNat (n % 256) :: (leBytes (n / 256) k ++ t)) 0 = n % 256 := by
      simp [byteAt]
    rw [this, Nat.pow_succ, Nat.mul_comm (256 ^ k) 256, Nat.mod_mul]

theorem leAt_skip4 (m : Nat) (t : List UInt8) (off k : Nat) :
    leAt (leBytes m 4 ++ t) (off + 4) k = leAt t off k := leAt_skip m 4 t off k
theorem leAt_skip8 (m : Nat) (t : List UInt8) (off k : Nat) :
    leAt (leBytes m 8 ++ t) (off + 8) k = leAt t off k := leAt_skip m 8 t off k


theorem leAt_here' (n k : Nat) : leAt (leBytes n k) 0 k = n % 256 ^ k := by
  have := leAt_here n k []; rwa [List.append_nil] at this

/-- A field tuple within the documented widths whose counters are ordered. -/
structure WfPacket (p : Packet) : Prop where
  udp : p.udpCounter < 2 ^ 31
  ts : p.timestamp < 2 ^ 32
  out : p.outputCounter < 2 ^ 32
  inp : p.inputCounter < 2 ^ 32
  pulser : p.pulserCounter < 2 ^ 32
  trig : p.triggerBitmap < 2 ^ 32
  nim : p.nimBitmap < 2 ^ 32
  esata : p.esataBitmap < 2 ^ 32
  prompt : p.aw16Prompt < 2 ^ 16
  drift : p.driftVetoCounter < 2 ^ 32
  scaledown : p.scaledownCounter < 2 ^ 32
  mult : p.aw16Multiplicity < 2 ^ 8
  bus : p.aw16Bus < 2 ^ 16
  bsc : p.bsc64Bus < 2 ^ 64
  bscMult : p.bsc64Multiplicity < 2 ^ 8
  latch : p.coincidenceLatch < 2 ^ 8
  fw : p.firmwareRevision < 2 ^ 32
  outLeScaledown : p.outputCounter ≤ p.scaledownCounter
  scaledownLeDrift : p.scaledownCounter ≤ p.driftVetoCounter
  driftLeIn : p.driftVetoCounter ≤ p.inputCounter

theorem encode_length (p : Packet) : (encode p).length = 80 := by
  simp only [encode, List.length_append, leBytes_length]

/-- C06 (converse round trip): decoding the encoding of a well-formed field tuple gives it back. -/
theorem trg_encode_decode (p : Packet) (h : WfPacket p) : decode (encode p) = .ok p := by
  obtain ⟨p0, p2, p3, p4, p5, p6, p7, p8, p9, p10, p11, p13m, p13b, p14, p16, p17, p18, o1, o2, o3⟩ := h
  have w : ∀ i v, leAt (encode p) (4 * i) 4 = v → word (encode p) i = v := fun _ _ h => h
  have w0 := w 0 _ (by simp only [encode, List.append_assoc, Nat.reduceMul, leAt_skip4, leAt_skip8, leAt_here, leAt_here']; rfl)
  have w1 := w 1 _ (by simp only [encode, List.append_assoc, Nat.reduceMul, leAt_skip4, leAt_skip8, leAt_here, leAt_here']; rfl)
  have w2 := w 2 _ (by simp only [encode, List.append_assoc, Nat.reduceMul, leAt_skip4, leAt_skip8, leAt_here, leAt_here']; rfl)
  have w3 := w 3 _ (by simp only [encode, List.append_assoc, Nat.reduceMul, leAt_skip4, leAt_skip8, leAt_here, leAt_here']; rfl)
  have w4 := w 4 _ (by simp only [encode, List.append_assoc, Nat.reduceMul, leAt_skip4, leAt_skip8, leAt_here, leAt_here']; rfl)
  have w5 := w 5 _ (by simp only [encode, List.append_assoc, Nat.reduceMul, leAt_skip4, leAt_skip8, leAt_here, leAt_here']; rfl)
  have w6 := w 6 _ (by simp only [encode, List.append_assoc, Nat.reduceMul, leAt_skip4, leAt_skip8, leAt_here, leAt_here']; rfl)
  have w7 := w 7 _ (by simp only [encode, List.append_assoc, Nat.reduceMul, leAt_skip4, leAt_skip8, leAt_here, leAt_here']; rfl)
  have w8 := w 8 _ (by simp only [encode, List.append_assoc, Nat.reduceMul, leAt_skip4, leAt_skip8, leAt_here, leAt_here']; rfl)
  have w9 := w 9 _ (by simp only [encode, List.append_assoc, Nat.reduceMul, leAt_skip4, leAt_skip8, leAt_here, leAt_here']; rfl)
  have w10 := w 10 _ (by simp only [encode, List.append_assoc, Nat.reduceMul, leAt_skip4, leAt_skip8, leAt_here, leAt_here']; rfl)
  have w11 := w 11 _ (by simp only [encode, List.append_assoc, Nat.reduceMul, leAt_skip4, leAt_skip8, leAt_here, leAt_here']; rfl)
  have w12 := w 12 _ (by simp only [encode, List.append_assoc, Nat.reduceMul, leAt_skip4, leAt_skip8, leAt_here, leAt_here']; rfl)
  have w13 := w 13 _ (by simp only [encode, List.append_assoc, Nat.reduceMul, leAt_skip4, leAt_skip8, leAt_here, leAt_here']; rfl)
  have w16 := w 16 _ (by simp only [encode, List.append_assoc, Nat.reduceMul, leAt_skip4, leAt_skip8, leAt_here, leAt_here']; rfl)
  have w17 := w 17 _ (by simp only [encode, List.append_assoc, Nat.reduceMul, leAt_skip4, leAt_skip8, leAt_here, leAt_here']; rfl)
  have w18 := w 18 _ (by simp only [encode, List.append_assoc, Nat.reduceMul, leAt_skip4, leAt_skip8, leAt_here, leAt_here']; rfl)
  have w19 := w 19 _ (by simp only [encode, List.append_assoc, Nat.reduceMul, leAt_skip4, leAt_skip8, leAt_here, leAt_here']; rfl)
  have w14 : leAt (encode p) 56 8 = p.bsc64Bus % 256 ^ 8 := by
    simp only [encode, List.append_assoc, leAt_skip4, leAt_skip8, leAt_here, leAt_here']
  have hm : (if p.satisfiedMlu = true then 0x80000000 else 0) = (if p.satisfiedMlu = true then 2147483648 else 0) := rfl
  refine (decode_ok_iff _ _).2 ⟨⟨encode_length p, ?_, ?_, ?_, ?_, ?_, ?_, ?_, ?_, ?_, ?_, ?_, ?_, ?_⟩, ?_⟩
  all_goals first
    | (rw [w0]; omega) | (rw [w1]; omega) | (rw [w19]; omega) | (rw [w1, w3]; omega)
    | (rw [w19, w3]; omega) | (rw [w12]) | (rw [w13]; omega) | (rw [w16]; omega)
    | (rw [w17]; omega) | (rw [w3, w11]; omega) | (rw [w11, w10]; omega) | (rw [w10, w4]; omega)
    | skip
  · rw [w9]; cases p.satisfiedMlu
    · simp only [Bool.false_eq_true, ↓reduceIte]; omega
    · simp only [↓reduceIte]; omega
  · cases p with | mk a0 a2 a3 a4 a5 a6 a7 a8 mlu a9 a10 a11 a13m a13b a14 a16 a17 a18 =>
    dsimp only at *
    simp only [fields, Packet.mk.injEq, w0, w2, w3, w4, w5, w6, w7, w8, w9, w10, w11, w13, w14,
      w16, w17, w18]
    refine ⟨?_, ?_, ?_, ?_, ?_, ?_, ?_, ?_, ?_, ?_, ?_, ?_, ?_, ?_, ?_, ?_, ?_, ?_⟩
    all_goals first
      | omega
      | (cases mlu
         · rw [eq_comm]; simp only [Bool.false_eq_true, ↓reduceIte, decide_eq_false_iff_not]; omega
         · rw [eq_comm]; simp only [↓reduceIte, decide_eq_true_eq]; omega)

/-- C06 (injectivity): two accepted slices with the same decoded packet are the same slice:
decoding loses no accepted byte. -/
theorem trg_decode_injective (b b' : List UInt8) (p : Packet)
    (h : decode b = .ok p) (h' : decode b' = .ok p) : b = b' := by
  rw [← trg_roundtrip b p h, ← trg_roundtrip b' p h']

/-- Every accepted packet is a well-formed field tuple (the converse's hypothesis is exactly met
by the decoder's outputs). -/
theorem trg_decoded_wf (b : List UInt8) (p : Packet) (h : decode b = .ok p) : WfPacket p := by
  obtain ⟨⟨hlen, u0, w1, w19, w1o, w19o, w9, w12, w13, w16, w17, o1, o2, o3⟩, rfl⟩ :=
    (decode_ok_iff b p).1 h
  have hw : ∀ i, word b i < 2 ^ 32 := fun i => leAt_lt b (4 * i) 4
  have h2 := hw 2; have h3 := hw 3; have h4 := hw 4; have h5 := hw 5; have h6 := hw 6
  have h7 := hw 7; have h8 := hw 8; have h10 := hw 10; have h11 := hw 11; have h18 := hw 18
  have h14 := leAt_lt b 56 8
  constructor <;> simp only [fields] <;> omega

/-- Non-vacuity: the documentation's example packet is a well-formed field tuple. -/
example : decode (encode (fields examplePacket)) = .ok (fields examplePacket) := by decide

end AlphaG.Trg
