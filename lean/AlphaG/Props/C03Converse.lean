import AlphaG.Props.C03
import AlphaG.Props.C06Converse
import AlphaG.Lemmas.CrcChunk
/-
C03 — converse round trip: every field tuple within the documented widths (known device id,
chip ≤ 3, flags ≤ 1, payload of 1..=65535 bytes) is reproduced by decoding its encoding,
`decodeChunk (encodeChunk c) = .ok c`; with `chunk_roundtrip` the accepted slices and the
well-formed chunks are in bijection. `chunk_decoded_wf` shows the hypothesis is exactly what the
decoder emits. The word-reading lemmas `leAt_skip`/`leAt_here` come from `Props/C06Converse`.
-/
namespace AlphaG.Chunk
open AlphaG.Crc AlphaG.Trg
set_option linter.unusedSimpArgs false

theorem leAt_skip2 (m : Nat) (t : List UInt8) (off k : Nat) :
    leAt (leBytes m 2 ++ t) (off + 2) k = leAt t off k := leAt_skip m 2 t off k
theorem leAt_skip1 (m : Nat) (t : List UInt8) (off k : Nat) :
    leAt (leBytes m 1 ++ t) (off + 1) k = leAt t off k := leAt_skip m 1 t off k

theorem leAt_append_right (a t : List UInt8) (off k : Nat) :
    leAt (a ++ t) (a.length + off) k = leAt t off k := by
  induction a with
  | nil => simp
  | cons x a ih =>
    rw [List.cons_append, List.length_cons, show a.length + 1 + off = (a.length + off) + 1 by omega,
      leAt_cons_succ, ih]

theorem byteAt_eq_leAt (b : List UInt8) (i : Nat) : byteAt b i = leAt b i 1 := by
  simp [leAt]

theorem byteAt_append_left (a t : List UInt8) (i : Nat) (h : i < a.length) :
    byteAt (a ++ t) i = byteAt a i := by
  simp [byteAt, List.getD_eq_getElem?_getD, List.getElem?_append_left h]

theorem byteAt_append_right (a t : List UInt8) (i : Nat) :
    byteAt (a ++ t) (a.length + i) = byteAt t i := by
  rw [byteAt_eq_leAt, leAt_append_right, ← byteAt_eq_leAt]

/-- A field tuple within the documented widths: known device, chip ≤ 3, flags ≤ 1, payload of
1..=65535 bytes. -/
structure WfChunk (c : Chunk) : Prop where
  device : c.deviceId ∈ knownDeviceIds
  pseq : c.packetSequence < 2 ^ 32
  cseq : c.channelSequence < 2 ^ 16
  chip : c.channelId ≤ 3
  flags : c.flags ≤ 1
  cid : c.chunkId < 2 ^ 16
  lenPos : 1 ≤ c.payload.length
  lenMax : c.payload.length < 2 ^ 16

theorem knownDeviceIds_lt : ∀ id ∈ knownDeviceIds, id < 2 ^ 32 := by decide

theorem headerBytes_length (c : Chunk) : (headerBytes c).length = 16 := by
  simp only [headerBytes, List.length_append, leBytes_length]

theorem paddedPayload_length (c : Chunk) :
    (paddedPayload c).length = c.payload.length + padLen c.payload.length := by
  simp [paddedPayload]

theorem encodeChunk_shape (c : Chunk) : encodeChunk c =
    headerBytes c ++ (leBytes (headerCrcVal c) 4 ++ (paddedPayload c ++ leBytes (payloadCrcVal c) 4)) := by
  simp only [encodeChunk, List.append_assoc]

theorem chunk_encode_decode (c : Chunk) (h : WfChunk c) : decodeChunk (encodeChunk c) = .ok c := by
  obtain ⟨hd, hp, hcs, hch, hfl, hci, hl1, hl2⟩ := h
  have hdev := knownDeviceIds_lt _ hd
  have hH := headerBytes_length c
  have hP := paddedPayload_length c
  have hpad : (c.payload.length + padLen c.payload.length) % 4 = 0 ∧ padLen c.payload.length ≤ 3 := by
    unfold padLen; split <;> omega
  have hlen : (encodeChunk c).length = 24 + (c.payload.length + padLen c.payload.length) := by
    rw [encodeChunk_shape]; simp only [List.length_append, hH, hP, leBytes_length]; omega
  have e0 : leAt (encodeChunk c) 0 4 = c.deviceId := by
    simp only [encodeChunk, headerBytes, List.append_assoc, leAt_here]; omega
  have e4 : leAt (encodeChunk c) 4 4 = c.packetSequence := by
    simp only [encodeChunk, headerBytes, List.append_assoc, leAt_skip4, leAt_skip2, leAt_skip1, leAt_here]; omega
  have e8 : leAt (encodeChunk c) 8 2 = c.channelSequence := by
    simp only [encodeChunk, headerBytes, List.append_assoc, leAt_skip4, leAt_skip2, leAt_skip1, leAt_here]; omega
  have e10 : byteAt (encodeChunk c) 10 = c.channelId := by
    rw [byteAt_eq_leAt]
    simp only [encodeChunk, headerBytes, List.append_assoc, leAt_skip4, leAt_skip2, leAt_skip1, leAt_here]; omega
  have e11 : byteAt (encodeChunk c) 11 = c.flags := by
    rw [byteAt_eq_leAt]
    simp only [encodeChunk, headerBytes, List.append_assoc, leAt_skip4, leAt_skip2, leAt_skip1, leAt_here]; omega
  have e12 : leAt (encodeChunk c) 12 2 = c.chunkId := by
    simp only [encodeChunk, headerBytes, List.append_assoc, leAt_skip4, leAt_skip2, leAt_skip1, leAt_here]; omega
  have e14 : leAt (encodeChunk c) 14 2 = c.payload.length := by
    simp only [encodeChunk, headerBytes, List.append_assoc, leAt_skip4, leAt_skip2, leAt_skip1, leAt_here]; omega
  have e16 : leAt (encodeChunk c) 16 4 = headerCrcVal c := by
    have := leAt_append_right (headerBytes c)
      (leBytes (headerCrcVal c) 4 ++ (paddedPayload c ++ leBytes (payloadCrcVal c) 4)) 0 4
    rw [hH, Nat.add_zero, leAt_here] at this
    have hlt := crcInv_lt (headerBytes c)
    rw [encodeChunk_shape, this]; unfold headerCrcVal; omega
  have etake : (encodeChunk c).take 16 = headerBytes c := by
    rw [encodeChunk_shape, List.take_left' hH]
  have hHC : (headerBytes c ++ leBytes (headerCrcVal c) 4).length = 20 := by
    simp only [List.length_append, hH, leBytes_length]
  have edrop : (encodeChunk c).drop 20 = paddedPayload c ++ leBytes (payloadCrcVal c) 4 := by
    rw [encodeChunk, List.append_assoc, List.drop_left' hHC]
  have epadded : ((encodeChunk c).drop 20).take ((encodeChunk c).length - 24) = paddedPayload c := by
    rw [edrop, hlen, List.take_left' (by rw [hP]; omega)]
  have epayload : ((encodeChunk c).drop 20).take c.payload.length = c.payload := by
    rw [edrop, paddedPayload, List.append_assoc, List.take_left' rfl]
  have elast : leAt (encodeChunk c) ((encodeChunk c).length - 4) 4 = payloadCrcVal c := by
    have hpre : (headerBytes c ++ leBytes (headerCrcVal c) 4 ++ paddedPayload c).length
        = (encodeChunk c).length - 4 := by
      simp only [List.length_append, hH, hP, leBytes_length, hlen]; omega
    have := leAt_append_right (headerBytes c ++ leBytes (headerCrcVal c) 4 ++ paddedPayload c)
      (leBytes (payloadCrcVal c) 4) 0 4
    rw [hpre, Nat.add_zero, leAt_here'] at this
    have hlt := crcInv_lt (paddedPayload c)
    have this' : leAt (encodeChunk c) ((encodeChunk c).length - 4) 4
        = payloadCrcVal c % 256 ^ 4 := this
    rw [this']; unfold payloadCrcVal; omega
  have ezero : ∀ i, 20 + c.payload.length ≤ i → i < (encodeChunk c).length - 4 →
      byteAt (encodeChunk c) i = 0 := by
    intro i h1 h2
    obtain ⟨m, rfl⟩ : ∃ m, i = 20 + (c.payload.length + m) := ⟨i - 20 - c.payload.length, by omega⟩
    have h3 : m < padLen c.payload.length := by omega
    rw [encodeChunk, List.append_assoc, ← hHC, byteAt_append_right,
      byteAt_append_left _ _ _ (by rw [hP]; omega), paddedPayload, byteAt_append_right]
    simp [byteAt, List.getD_eq_getElem?_getD, List.getElem?_replicate, h3]
  refine (decode_ok_iff _ _).2 ⟨⟨by omega, by omega, by rw [e0]; exact hd, by omega, by omega,
    by omega, ?_, ?_, ?_⟩, ?_⟩
  · intro i h1 h2; rw [e14] at h1; exact ezero i h1 h2
  · rw [e16, etake, ← crcInv_eq]; rfl
  · rw [elast, epadded, ← crcInv_eq]; rfl
  · cases c with | mk d ps cs ch fl ci pl =>
    simp only [fields, Chunk.mk.injEq, e0, e4, e8, e10, e11, e12, e14, epayload] at *

/-- Every accepted chunk is a well-formed field tuple. -/
theorem chunk_decoded_wf (b : List UInt8) (c : Chunk) (h : decodeChunk b = .ok c) : WfChunk c := by
  obtain ⟨⟨w1, w2, w3, w4, w5, w6, w7, w8, w9⟩, rfl⟩ := (decode_ok_iff b c).1 h
  have h4 := leAt_lt b 4 4; have h8 := leAt_lt b 8 2; have h12 := leAt_lt b 12 2
  have h14 := leAt_lt b 14 2
  have hplen : ((b.drop 20).take (leAt b 14 2)).length = leAt b 14 2 := by
    simp only [List.length_take, List.length_drop]; omega
  constructor <;> simp only [fields, hplen] <;> first | assumption | omega

/-- Non-vacuity: the example chunk of `Props/C03` is a well-formed field tuple and its encoding
decodes back to it. -/
example : WfChunk (fields exampleChunk) := chunk_decoded_wf _ _ exampleChunk_ok
example : decodeChunk (encodeChunk (fields exampleChunk)) = .ok (fields exampleChunk) :=
  chunk_encode_decode _ (chunk_decoded_wf _ _ exampleChunk_ok)

end AlphaG.Chunk
