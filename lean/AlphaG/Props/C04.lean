import AlphaG.Model.PwbChunks
import AlphaG.Lemmas.Bytes
import AlphaG.Lemmas.PwbChunks
import AlphaG.Props.C05
/-
C04 — PWB packet reassembly is arrival-order independent and loss/duplication safe
(and the `TryFrom<Vec<Chunk>>` part of C01).

The sort is abstract: theorems are stated for *any* sorted permutation `s` of the chunk list
(`SortedPermOf`), which is all `sort_unstable_by_key` promises; `sortById` (core merge sort)
is one such `s` (`sortById_spec`).
-/
namespace AlphaG.Pwb

/-! ### Outcome equivalence -/

/-- The variant of a reassembly error, without its payload. -/
def CErr.variant : CErr → Nat
  | .deviceIdMismatch => 0
  | .channelIdMismatch => 1
  | .missingChunk _ => 2
  | .missingEndOfMessageChunk => 3
  | .misplacedEndOfMessageChunk _ => 4
  | .payloadLengthMismatch _ _ => 5
  | .badPayload _ => 6

/-- Equal packets on success, same error *variant* on failure. -/
def OutcomeEquiv (x y : Outcome CErr PwbPacket) : Prop :=
  match x, y with
  | .ok p, .ok q => p = q
  | .err e, .err f => e.variant = f.variant
  | .panic _, .panic _ => True
  | _, _ => False

instance : HasEquiv (Outcome CErr PwbPacket) := ⟨OutcomeEquiv⟩

theorem OutcomeEquiv.of_eq {x y : Outcome CErr PwbPacket} (h : x = y) : x ≈ y := by
  subst h
  show OutcomeEquiv x x
  cases x <;> simp [OutcomeEquiv]

/-! ### The sort contract -/

/-- `s` is what `sort_unstable_by_key(|c| c.chunk_id)` may leave in the vector `cs`. -/
def SortedPermOf (cs s : List ChunkV) : Prop :=
  s.Perm cs ∧ s.Pairwise (fun a b => a.chunkId ≤ b.chunkId)

theorem sortById_perm (cs : List ChunkV) : (sortById cs).Perm cs := List.mergeSort_perm _ _

theorem sortById_sorted (cs : List ChunkV) :
    (sortById cs).Pairwise (fun a b => a.chunkId ≤ b.chunkId) := by
  have := List.pairwise_mergeSort (le := fun a b : ChunkV => decide (a.chunkId ≤ b.chunkId))
    (by intro a b c; simp only [decide_eq_true_eq]; omega)
    (by intro a b; simp only [Bool.or_eq_true, decide_eq_true_eq]; omega) cs
  simpa [sortById] using this

/-- The executable sort meets the contract. -/
theorem sortById_spec (cs : List ChunkV) : SortedPermOf cs (sortById cs) :=
  ⟨sortById_perm cs, sortById_sorted cs⟩

/-! ### Order independence -/

/-- Everything after the sort gives literally the same answer on any two sorted permutations
of the same chunks. -/
theorem reassembleSorted_sort_irrelevant (s₁ s₂ : List ChunkV) (hp : s₁.Perm s₂)
    (h₁ : s₁.Pairwise (fun a b => a.chunkId ≤ b.chunkId))
    (h₂ : s₂.Pairwise (fun a b => a.chunkId ≤ b.chunkId)) :
    reassembleSorted s₁ = reassembleSorted s₂ := by
  have hids := sorted_perm_ids s₁ s₂ hp h₁ h₂
  have hpos := idMismatchPos_congr s₁ s₂ 0 hids
  cases hm : idMismatchPos s₁ 0 with
  | some i =>
    have hm2 : idMismatchPos s₂ 0 = some i := by rw [← hpos, hm]
    simp [reassembleSorted, hm, hm2]
  | none =>
    have hd := (idMismatchPos_none_iff s₁ 0).1 hm
    have hn : (s₁.map (·.chunkId)).Nodup := by rw [hd]; exact List.nodup_range'
    rw [sorted_perm_unique s₁ s₂ hp h₁ h₂ hn]

/-- Ties between chunk ids (the only freedom an unstable sort has) only exist when the outcome
is `MissingChunk`. -/
theorem reassembleSorted_ties (s : List ChunkV) (h : ¬(s.map (·.chunkId)).Nodup) :
    ∃ i, reassembleSorted s = .err (.missingChunk i) := by
  cases hm : idMismatchPos s 0 with
  | some i => exact ⟨i, by simp [reassembleSorted, hm]⟩
  | none =>
    exfalso; apply h
    rw [(idMismatchPos_none_iff s 0).1 hm]; exact List.nodup_range'

/-- C04 (the sort is irrelevant): whichever sorted permutation the unstable sort produces, the
outcome is the same — same class, same error, same packet. A tie can only be observed as
`MissingChunk`. -/
theorem reassemble_sort_irrelevant (cs s₁ s₂ : List ChunkV) (h₁ : SortedPermOf cs s₁)
    (h₂ : SortedPermOf cs s₂) :
    reassembleWith cs s₁ = reassembleWith cs s₂
    ∧ (¬(cs.map (·.chunkId)).Nodup → ∃ i, reassembleSorted s₁ = .err (.missingChunk i)) := by
  constructor
  · have := reassembleSorted_sort_irrelevant s₁ s₂ (h₁.1.trans h₂.1.symm) h₁.2 h₂.2
    unfold reassembleWith; rw [this]
  · intro hn
    apply reassembleSorted_ties
    intro hs; exact hn ((h₁.1.map _).nodup_iff.1 hs)

/-- In the model (where the order-dependent `found`/`expected` payloads of the two mismatch
variants are not represented) permuting valid chunks does not change the outcome at all. -/
theorem reassemble_perm_eq (l₁ l₂ : List ChunkV) (hv : ∀ c ∈ l₁, c.Valid) (hp : l₁.Perm l₂) :
    reassemble l₁ = reassemble l₂ := by
  by_cases hne : l₁ = []
  · subst hne; rw [List.nil_perm.1 hp]
  · have hne2 : l₂ ≠ [] := fun h => hne (by subst h; exact List.perm_nil.1 hp)
    have hv2 : ∀ c ∈ l₂, c.Valid := fun c hc => hv c (hp.mem_iff.2 hc)
    unfold reassemble
    rw [reassembleWith_valid l₁ _ hv hne, reassembleWith_valid l₂ _ hv2 hne2]
    have hs : reassembleSorted (sortById l₁) = reassembleSorted (sortById l₂) :=
      reassembleSorted_sort_irrelevant _ _
        (((sortById_perm l₁).trans hp).trans (sortById_perm l₂).symm)
        (sortById_sorted l₁) (sortById_sorted l₂)
    have hd : Homog (·.deviceId) l₁ ↔ Homog (·.deviceId) l₂ := Homog.perm hp
    have hc : Homog (·.chip) l₁ ↔ Homog (·.chip) l₂ := Homog.perm hp
    by_cases h1 : Homog (·.deviceId) l₁
    · by_cases h2 : Homog (·.chip) l₁
      · simp [h1, h2, hd.1 h1, hc.1 h2, hs]
      · have h2' : ¬Homog (·.chip) l₂ := fun h => h2 (hc.2 h)
        simp [h1, h2, hd.1 h1, h2']
    · have h1' : ¬Homog (·.deviceId) l₂ := fun h => h1 (hd.2 h)
      simp [h1, h1']

/-- C04 (arrival-order independence): reassembling any permutation of a list of valid chunks
gives the same packet, or an error of the same variant. -/
theorem reassemble_perm (l₁ l₂ : List ChunkV) (hv : ∀ c ∈ l₁, c.Valid) (hp : l₁.Perm l₂) :
    reassemble l₁ ≈ reassemble l₂ :=
  OutcomeEquiv.of_eq (reassemble_perm_eq l₁ l₂ hv hp)

/-! ### What success implies -/

theorem liftPayload_eq_ok {x : Outcome Err PwbPacket} {p : PwbPacket} :
    liftPayload x = .ok p ↔ x = .ok p := by
  cases x <;> simp [liftPayload]

/-- The conditions the sorted vector has passed when reassembly succeeds. -/
structure SortedGood (s : List ChunkV) : Prop where
  ids : s.map (·.chunkId) = List.range' 0 s.length
  ne : 0 < s.length
  last : lastEom s = true
  noEarlyEom : ∀ c ∈ s.take (s.length - 1), c.isEom = false
  sameLen : ∀ c ∈ s.take (s.length - 1), c.payload.length = len0 s

theorem reassembleSorted_ok {s : List ChunkV} {p : PwbPacket} (h : reassembleSorted s = .ok p) :
    SortedGood s ∧ decodePwb (s.flatMap (·.payload)) = .ok p := by
  unfold reassembleSorted at h
  simp only [ite_err_eq_ok, need_eq_ok, liftPayload_eq_ok, decide_eq_true_eq, Bool.not_eq_true,
    Option.isSome_eq_false_iff, Option.isNone_iff_eq_none, List.findIdx?_eq_none_iff,
    List.find?_eq_none, Bool.not_eq_eq_eq_not, Bool.not_true, bne_eq_false_iff_eq] at h
  obtain ⟨h1, _, h3, _, h5, h6, h7, _, h9⟩ := h
  exact ⟨⟨(idMismatchPos_none_iff s 0).1 h1, h6, by simpa using h3, h5, h7⟩, h9⟩

theorem reassemble_ok_sorted {l : List ChunkV} {p : PwbPacket} (h : reassemble l = .ok p) :
    reassembleSorted (sortById l) = .ok p := by
  unfold reassemble reassembleWith at h
  simp only [ite_err_eq_ok, ite_panic_eq_ok'] at h
  exact h.2.2.2.2.2

/-- C04 (agreement with direct decoding): a successful reassembly yields exactly the packet
decoded from the concatenation of the payloads in chunk-id order. -/
theorem reassemble_ok_eq_direct (l : List ChunkV) (p : PwbPacket) (h : reassemble l = .ok p) :
    decodePwb ((sortById l).flatMap (·.payload)) = .ok p :=
  (reassembleSorted_ok (reassemble_ok_sorted h)).2

/-- Same, for any sorted permutation the sort might have produced. -/
theorem reassemble_ok_eq_direct_any (l s : List ChunkV) (p : PwbPacket) (hs : SortedPermOf l s)
    (h : reassemble l = .ok p) : decodePwb (s.flatMap (·.payload)) = .ok p := by
  have h' := reassemble_ok_sorted h
  rw [reassembleSorted_sort_irrelevant _ s ((sortById_perm l).trans hs.1.symm)
    (sortById_sorted l) hs.2] at h'
  exact (reassembleSorted_ok h').2

/-! ### Every listed fault makes reassembly fail -/

/-- Facts about the sorted vector of a successful reassembly, phrased on the input list. -/
theorem ok_facts {l : List ChunkV} {p : PwbPacket} (h : reassemble l = .ok p) :
    SortedGood (sortById l) ∧ (sortById l).length = l.length
      ∧ (∀ c, c ∈ sortById l ↔ c ∈ l) :=
  ⟨(reassembleSorted_ok (reassemble_ok_sorted h)).1, (sortById_perm l).length_eq,
    fun _ => (sortById_perm l).mem_iff⟩

/-- Fault: a chunk id below the number of chunks is missing (a chunk was dropped or its id
replaced). -/
theorem reassemble_fails_if_missing_id (l : List ChunkV) (i : Nat) (hi : i < l.length)
    (hm : ∀ c ∈ l, c.chunkId ≠ i) : ∀ p, reassemble l ≠ .ok p := by
  intro p h
  obtain ⟨g, hlen, hmem⟩ := ok_facts h
  have : i ∈ (sortById l).map (·.chunkId) := by
    rw [g.ids, List.mem_range']; exact ⟨i, by omega, by omega⟩
  obtain ⟨c, hc, hci⟩ := List.mem_map.1 this
  exact hm c ((hmem c).1 hc) hci

/-- Fault: two chunks carry the same id (a chunk was duplicated). -/
theorem reassemble_fails_if_duplicated_id (l : List ChunkV) (hd : ¬(l.map (·.chunkId)).Nodup) :
    ∀ p, reassemble l ≠ .ok p := by
  intro p h
  obtain ⟨g, _, _⟩ := ok_facts h
  apply hd
  have hn : ((sortById l).map (·.chunkId)).Nodup := by rw [g.ids]; exact List.nodup_range'
  exact ((sortById_perm l).map _).nodup_iff.1 hn

/-- Fault: chunks of two boards are mixed. -/
theorem reassemble_fails_if_two_boards (l : List ChunkV) (hv : ∀ c ∈ l, c.Valid) (c d : ChunkV)
    (hc : c ∈ l) (hd : d ∈ l) (hne : c.deviceId ≠ d.deviceId) :
    reassemble l = .err .deviceIdMismatch := by
  have hl : l ≠ [] := List.ne_nil_of_mem hc
  have hh : ¬Homog (·.deviceId) l := fun H => hne (H c hc d hd)
  unfold reassemble
  rw [reassembleWith_valid l _ hv hl]
  simp [hh]

/-- Fault: chunks of two AFTER chips are mixed (the board check comes first in the code, so the
error is one of the two mismatch variants; it is `ChannelIdMismatch` when the boards agree). -/
theorem reassemble_fails_if_two_chips (l : List ChunkV) (hv : ∀ c ∈ l, c.Valid) (c d : ChunkV)
    (hc : c ∈ l) (hd : d ∈ l) (hne : c.chip ≠ d.chip) :
    (Homog (·.deviceId) l → reassemble l = .err .channelIdMismatch)
    ∧ (reassemble l = .err .deviceIdMismatch ∨ reassemble l = .err .channelIdMismatch) := by
  have hl : l ≠ [] := List.ne_nil_of_mem hc
  have hh : ¬Homog (·.chip) l := fun H => hne (H c hc d hd)
  unfold reassemble
  rw [reassembleWith_valid l _ hv hl]
  by_cases hb : Homog (·.deviceId) l
  · simp [hh, hb]
  · simp [hb]

theorem lastEom_eq (s : List ChunkV) (h : 0 < s.length) :
    lastEom s = (s[s.length - 1]'(by omega)).isEom := by
  unfold lastEom
  rw [List.getLast?_eq_getElem?, List.getElem?_eq_getElem (by omega)]

/-- Fault: the chunk with the highest id lacks the end-of-message flag. -/
theorem reassemble_fails_if_eom_absent_on_last (l : List ChunkV) (c : ChunkV) (hc : c ∈ l)
    (hmax : ∀ d ∈ l, d.chunkId ≤ c.chunkId) (he : c.isEom = false) :
    ∀ p, reassemble l ≠ .ok p := by
  intro p h
  obtain ⟨g, _, hmem⟩ := ok_facts h
  have hn := g.ne
  obtain ⟨hi, hci⟩ := dense_index _ g.ids c ((hmem c).2 hc)
  have hlast := dense_getElem_id _ g.ids ((sortById l).length - 1) (by omega)
  have hle := hmax _ ((hmem _).1 (List.getElem_mem (l := sortById l)
    (show (sortById l).length - 1 < (sortById l).length by omega)))
  have hidx : c.chunkId = (sortById l).length - 1 := by omega
  have := g.last
  rw [lastEom_eq _ hn] at this
  simp only [← hidx, hci, he] at this
  cases this

/-- Fault: a chunk other than the one with the highest id has the end-of-message flag. -/
theorem reassemble_fails_if_eom_on_earlier (l : List ChunkV) (c d : ChunkV) (hc : c ∈ l)
    (hd : d ∈ l) (hlt : c.chunkId < d.chunkId) (he : c.isEom = true) :
    ∀ p, reassemble l ≠ .ok p := by
  intro p h
  obtain ⟨g, _, hmem⟩ := ok_facts h
  obtain ⟨hi, hci⟩ := dense_index _ g.ids c ((hmem c).2 hc)
  obtain ⟨hj, _⟩ := dense_index _ g.ids d ((hmem d).2 hd)
  have hin : c ∈ (sortById l).take ((sortById l).length - 1) :=
    List.mem_take_iff_getElem.2 ⟨c.chunkId, by omega, hci⟩
  have := g.noEarlyEom c hin
  rw [he] at this; cases this

theorem len0_eq (s : List ChunkV) (h : 0 < s.length) : len0 s = (s[0]'h).payload.length := by
  cases s with
  | nil => simp at h
  | cons a s => rfl

/-- Fault: a chunk other than the one with the highest id has a payload size different from
that of chunk 0. -/
theorem reassemble_fails_if_nonfinal_size_differs (l : List ChunkV) (c d c0 : ChunkV)
    (hc : c ∈ l) (hd : d ∈ l) (h0 : c0 ∈ l) (hid0 : c0.chunkId = 0)
    (hlt : c.chunkId < d.chunkId) (hsz : c.payload.length ≠ c0.payload.length) :
    ∀ p, reassemble l ≠ .ok p := by
  intro p h
  obtain ⟨g, _, hmem⟩ := ok_facts h
  obtain ⟨hi, hci⟩ := dense_index _ g.ids c ((hmem c).2 hc)
  obtain ⟨hj, _⟩ := dense_index _ g.ids d ((hmem d).2 hd)
  obtain ⟨hk, hc0⟩ := dense_index _ g.ids c0 ((hmem c0).2 h0)
  have hin : c ∈ (sortById l).take ((sortById l).length - 1) :=
    List.mem_take_iff_getElem.2 ⟨c.chunkId, by omega, hci⟩
  have := g.sameLen c hin
  rw [len0_eq _ g.ne] at this
  simp only [hid0] at hc0
  rw [hc0] at this
  exact hsz this

/-! ### Totality (C01 part) -/

theorem noPanic_liftPayload {x : Outcome Err PwbPacket} (h : NoPanic x) :
    NoPanic (liftPayload x) := by
  cases x with
  | ok p => exact noPanic_ok _
  | err e => exact noPanic_err _
  | panic s => exact absurd rfl (h s)

theorem reassembleSorted_total (s : List ChunkV) (hv : ∀ c ∈ s, c.Valid) (hne : s ≠ []) :
    NoPanic (reassembleSorted s) := by
  have hlen : 0 < s.length := List.length_pos_iff.2 hne
  unfold reassembleSorted
  apply noPanic_ite_err; intro hm
  have hm : idMismatchPos s 0 = none := by simpa using hm
  have hids := (idMismatchPos_none_iff s 0).1 hm
  apply noPanic_need (by cases s <;> simp_all)
  apply noPanic_ite_err; intro _
  apply noPanic_need (by simp only [decide_eq_true_eq]; omega)
  apply noPanic_ite_err; intro _
  apply noPanic_need (by simp only [decide_eq_true_eq]; omega)
  apply noPanic_ite_err; intro _
  apply noPanic_need
  · -- `len0 * len` fits in `usize`: payloads are at most 65535 bytes, ids below 65536 are dense
    simp only [decide_eq_true_eq]
    have h0 : len0 s ≤ 65535 := by
      rw [len0_eq s hlen]; exact (hv _ (List.getElem_mem hlen)).2.2.2.2
    have hl : s.length ≤ 65536 := by
      have hid := dense_getElem_id s hids (s.length - 1) (by omega)
      have := (hv _ (List.getElem_mem (show s.length - 1 < s.length by omega))).2.2.2.1
      omega
    have := Nat.mul_le_mul h0 hl
    omega
  · exact noPanic_liftPayload (pwb_total _)

/-- C01/C04 (totality): reassembling any list of valid chunks (values satisfying the `Chunk`
invariant) never panics. -/
theorem reassemble_total (l : List ChunkV) (hv : ∀ c ∈ l, c.Valid) : NoPanic (reassemble l) := by
  by_cases hne : l = []
  · subst hne; exact noPanic_err _
  · unfold reassemble
    rw [reassembleWith_valid l _ hv hne]
    apply noPanic_ite_err; intro _
    apply noPanic_ite_err; intro _
    apply reassembleSorted_total
    · intro c hc; exact hv c ((sortById_perm l).mem_iff.1 hc)
    · intro h
      have := (sortById_perm l).length_eq
      rw [h] at this
      exact hne (List.length_eq_zero_iff.1 this.symm)

/-! ### Non-vacuity: a 3-chunk message in all 6 arrival orders, and two faults -/

def ck (i fl : Nat) (p : List UInt8) : ChunkV :=
  { deviceId := 2281646316, chip := 3, flags := fl, chunkId := i, payload := p }
def c0 : ChunkV := ck 0 0 (docPacket.take 40)
def c1 : ChunkV := ck 1 0 ((docPacket.drop 40).take 40)
def c2 : ChunkV := ck 2 1 (docPacket.drop 80)

theorem reassemble_eq_of_sorted (cs s : List ChunkV) (h : SortedPermOf cs s) :
    reassemble cs = reassembleWith cs s :=
  (reassemble_sort_irrelevant cs _ s (sortById_spec cs) h).1

theorem sorted012 : [c0, c1, c2].Pairwise (fun a b => a.chunkId ≤ b.chunkId) := by decide

example : reassemble [c0, c1, c2] = .ok (fields docPacket) := by
  rw [reassemble_eq_of_sorted _ [c0, c1, c2] ⟨by decide, sorted012⟩]; decide +kernel
example : reassemble [c0, c2, c1] = .ok (fields docPacket) := by
  rw [reassemble_eq_of_sorted _ [c0, c1, c2] ⟨by decide, sorted012⟩]; decide +kernel
example : reassemble [c1, c0, c2] = .ok (fields docPacket) := by
  rw [reassemble_eq_of_sorted _ [c0, c1, c2] ⟨by decide, sorted012⟩]; decide +kernel
example : reassemble [c1, c2, c0] = .ok (fields docPacket) := by
  rw [reassemble_eq_of_sorted _ [c0, c1, c2] ⟨by decide, sorted012⟩]; decide +kernel
example : reassemble [c2, c0, c1] = .ok (fields docPacket) := by
  rw [reassemble_eq_of_sorted _ [c0, c1, c2] ⟨by decide, sorted012⟩]; decide +kernel
example : reassemble [c2, c1, c0] = .ok (fields docPacket) := by
  rw [reassemble_eq_of_sorted _ [c0, c1, c2] ⟨by decide, sorted012⟩]; decide +kernel
example : ∀ c ∈ [c0, c1, c2], c.Valid := by decide +kernel
-- faults are rejected (hypotheses of the `fails_if` theorems are satisfiable)
example : reassemble [c0, c2] = .err (.missingChunk 1) := by
  rw [reassemble_eq_of_sorted _ [c0, c2] ⟨by decide, by decide⟩]; decide +kernel
example : reassemble [c1, c0, c1, c2] = .err (.missingChunk 2) := by
  rw [reassemble_eq_of_sorted _ [c0, c1, c1, c2] ⟨by decide, by decide⟩]; decide +kernel
end AlphaG.Pwb
