import AlphaG.Props.C07
/-
C07 — consequences of faithfulness and resumability that a polling caller relies on:
re-parsing the remainder alone makes no progress and loses nothing (`parse_remainder_stable`),
and feeding more bytes never retracts or reorders entries already returned
(`parse_entries_monotone`).
-/
namespace AlphaG.Chronobox

/-- C07 (stability): the remainder is a fixed point — parsing it again returns no entry and the
same remainder, so a caller that polls with no new data neither loses nor duplicates anything. -/
theorem parse_remainder_stable (i : List UInt8) : parse (parse i).2 = ([], (parse i).2) := by
  obtain ⟨_, hp, -⟩ := parse_isParse i
  exact parse_of_not_starts hp.maximal

/-- C07 (monotonicity): appending bytes only appends entries: what was returned for `a` is a
prefix of what is returned for `a ++ b`. -/
theorem parse_entries_monotone (a b : List UInt8) : (parse a).1 <+: (parse (a ++ b)).1 := by
  have h := parse_resume a b (parse a).1 (parse ((parse a).2 ++ b)).1 (parse a).2
    (parse ((parse a).2 ++ b)).2 rfl rfl
  rw [h]; exact List.prefix_append _ _

/-- Non-vacuity on the example of `Props/C07`: the first piece parses to nothing and is its own
remainder. -/
example : parse (parse exPiece1).2 = ([], exPiece1) := by
  have := parse_remainder_stable exPiece1
  rw [ex_step1] at this ⊢; exact this

end AlphaG.Chronobox
