import AlphaG.Lemmas.MapsArms
import AlphaG.Lemmas.MapsTables
/-
C08, maps part: wires, PadWing boards, pads, run-number dispatch, geometry.
All tables and `match run_number` arms come from `AlphaG.Generated.*` (regenerated from the
source text on every run); the `decide +kernel` obligations below are therefore re-checked
against the current source every time.
-/
namespace AlphaG.Maps
open AlphaG AlphaG.Generated

/-! ### Kernel obligations on the generated data -/

/-- Arms select only tables that exist, never a literal, and end in a catch-all. -/
def armsWellFormed (arms : Arms) (nTables : Nat) : Bool :=
  arms.all (fun a => match a.2 with
    | .table i => decide (i < nTables)
    | .value _ => false
    | .err _ => true)
  && arms.any (fun a => a.1 == .wild)

theorem arms_wellFormed :
    (armsWellFormed wirePreampArms preampTables.length
      && armsWellFormed wireChannelArms channelTables.length
      && armsWellFormed pwbArms pwbTables.length) = true := by decide +kernel

/-- Every (preamp table, channel table) pair of the source is a valid wiring. -/
theorem wire_tables_ok :
    (preampTables.all fun t => channelTables.all fun c => wireTablesOk t.2 c.2) = true := by
  decide +kernel

/-- Every `PADWING_BOARDS_*` table of the source is a valid installation. -/
theorem pwb_tables_ok : (pwbTables.all fun t => pwbTableOk t.2) = true := by decide +kernel

/-- The `INV_PADS_0` construction is a valid pad map (and its initialiser does not panic). -/
theorem pad_ok : padOk = true := by decide +kernel

theorem board_counts : alpha16Boards.length = 8 ∧ tpcAnodeWires = 256 ∧ tpcPadColumns = 32
    ∧ tpcPadRows = 576 ∧ tpcPads = 18432 ∧ tpcPwbColumns = 8 ∧ tpcPwbRows = 8
    ∧ pwbPadColumns = 4 ∧ pwbPadRows = 72 := by decide

/-- The arms split the u32 run numbers at `firstMapRun`: errors below, a map from there on. -/
theorem arms_split :
    (armsSplitAt wirePreampArms (firstMapRun wirePreampArms)
      && armsSplitAt wireChannelArms (firstMapRun wireChannelArms)
      && armsSplitAt pwbArms (firstMapRun pwbArms)) = true := by decide +kernel

/-- No arm is shadowed by an earlier one (each is selected by some run number). -/
theorem no_shadowed_arm :
    (noShadowedArm wirePreampArms && noShadowedArm wireChannelArms && noShadowedArm pwbArms)
      = true := by decide +kernel

/-- Same for the six calibration dispatches (these may select literal values). -/
theorem cal_arms_ok :
    (calArms.all fun c =>
      armsSplitAt c.2.1 (firstMapRun c.2.1) && noShadowedArm c.2.1
        && c.2.1.any (fun a => a.1 == .wild)
        && tablesBelow c.2.1 c.2.2.length) = true := by decide +kernel

/-! ### Helper lemmas on the dispatch -/

theorem dispatch_cases (arms : Arms) (n : Nat) (h : armsWellFormed arms n = true) (run : Nat) :
    (∃ i, i < n ∧ dispatch arms run = some (.table i)) ∨ (∃ v, dispatch arms run = some (.err v)) := by
  simp only [armsWellFormed, Bool.and_eq_true, List.all_eq_true, List.any_eq_true] at h
  obtain ⟨h1, a, ha, hw⟩ := h
  have hsome : ∀ arms' : Arms, a ∈ arms' → ∃ x, dispatch arms' run = some x := by
    intro arms' hm
    induction arms' with
    | nil => cases hm
    | cons b rest ih =>
      obtain ⟨p, y⟩ := b
      simp only [dispatch]
      split
      · exact ⟨y, rfl⟩
      · rcases List.mem_cons.1 hm with e | hm'
        · subst e
          simp only [beq_iff_eq] at hw
          rename_i hp
          rw [hw] at hp
          simp [patMatches] at hp
        · exact ih hm'
  obtain ⟨x, hx⟩ := hsome arms ha
  have hm := dispatch_mem arms run x hx
  simp only [List.mem_map] at hm
  obtain ⟨b, hb, e⟩ := hm
  have := h1 b hb
  rw [e] at this
  cases x with
  | table i => exact Or.inl ⟨i, by simpa using this, hx⟩
  | value v => simp at this
  | err v => exact Or.inr ⟨v, hx⟩

theorem armTable_of_lt {α : Type} (tables : List (String × α)) (i : Nat) (h : i < tables.length) :
    ∃ t, t ∈ tables ∧ armTable tables i = some t.2 := by
  refine ⟨tables[i], List.getElem_mem h, ?_⟩
  simp [armTable, List.getElem?_eq_getElem h]

/-! ### Anode wires -/

/-- A wire map exists for the run number: both matches select a table. -/
def wireMapExists (run : Nat) : Prop :=
  hasMapAt wirePreampArms run = true ∧ hasMapAt wireChannelArms run = true

/-- First run number with a wire map (from the generated arms). -/
instance (run : Nat) : Decidable (wireMapExists run) := by
  unfold wireMapExists; exact inferInstance

def wireFirstRun : Nat := max (firstMapRun wirePreampArms) (firstMapRun wireChannelArms)

theorem hasMapAt_table (arms : Arms) (n : Nat) (h : armsWellFormed arms n = true) (run : Nat)
    (hm : hasMapAt arms run = true) : ∃ i, i < n ∧ dispatch arms run = some (.table i) := by
  rcases dispatch_cases arms n h run with h1 | ⟨v, hv⟩
  · exact h1
  · simp [hasMapAt, hv] at hm

theorem wirePosition_of_tables (run i j : Nat) (rows : List (String × Nat × Nat)) (chans : List Nat)
    (h1 : dispatch wirePreampArms run = some (.table i))
    (h2 : dispatch wireChannelArms run = some (.table j))
    (h3 : armTable preampTables i = some rows) (h4 : armTable channelTables j = some chans)
    (b c : Nat) : wirePosition run b c = wireCore rows chans b c := by
  simp only [wirePosition, h1, h2, h3, h4]

/-- **C08 wire_bijection.** For every run number for which a map exists, (Alpha16 board,
channel) ↦ anode wire is a bijection from 8 boards × 32 channels onto the 256 wires. -/
theorem wire_bijection (run : Nat) (h : wireMapExists run) : WireBij (wirePosition run) := by
  have wf := arms_wellFormed
  simp only [Bool.and_eq_true] at wf
  obtain ⟨i, hi, d1⟩ := hasMapAt_table _ _ wf.1.1 run h.1
  obtain ⟨j, hj, d2⟩ := hasMapAt_table _ _ wf.1.2 run h.2
  obtain ⟨t, ht, e1⟩ := armTable_of_lt preampTables i hi
  obtain ⟨u, hu, e2⟩ := armTable_of_lt channelTables j hj
  have ok := wire_tables_ok
  simp only [List.all_eq_true] at ok
  have B := wireBij_of_ok t.2 u.2 (ok t ht u hu)
  have e := wirePosition_of_tables run i j t.2 u.2 d1 d2 e1 e2
  refine ⟨?_, ?_, ?_⟩
  · intro b c hb hc; rw [e]; exact B.total b c hb hc
  · intro b c b' c' w hb hc hb' hc' x y; rw [e] at x y; exact B.inj b c b' c' w hb hc hb' hc' x y
  · intro w hw; obtain ⟨b, c, hb, hc, x⟩ := B.surj w hw; exact ⟨b, c, hb, hc, by rw [e]; exact x⟩

/-- `(board, channel) ↦ wire` as a function between finite types (0 when the lookup fails,
which it does not for a run with a map). -/
def wireFin (run : Nat) (x : Fin 8 × Fin 32) : Fin 256 :=
  match wirePosition run x.1.val x.2.val with
  | .ok w => if h : w < 256 then ⟨w, h⟩ else ⟨0, by omega⟩
  | _ => ⟨0, by omega⟩

/-- **C08 wire_bijection**, as a bijection `Fin 8 × Fin 32 → Fin 256`. -/
theorem wireFin_bijective (run : Nat) (h : wireMapExists run) :
    Function.Injective (wireFin run) ∧ Function.Surjective (wireFin run) := by
  have B := wire_bijection run h
  have val : ∀ x : Fin 8 × Fin 32, wirePosition run x.1.val x.2.val = .ok (wireFin run x).val := by
    intro x
    obtain ⟨w, hw, e⟩ := B.total x.1.val x.2.val x.1.isLt x.2.isLt
    simp only [wireFin, e, hw, dite_true]
  constructor
  · intro x y e
    obtain ⟨e1, e2⟩ := B.inj x.1.val x.2.val y.1.val y.2.val (wireFin run x).val x.1.isLt x.2.isLt
      y.1.isLt y.2.isLt (val x) (by rw [e]; exact val y)
    exact Prod.ext (Fin.ext e1) (Fin.ext e2)
  · intro w
    obtain ⟨b, c, hb, hc, e⟩ := B.surj w.val w.isLt
    refine ⟨(⟨b, hb⟩, ⟨c, hc⟩), Fin.ext ?_⟩
    have := val (⟨b, hb⟩, ⟨c, hc⟩)
    simp only at this
    rw [e, ok_eq_ok] at this
    exact this.symm

/-- The same for `u32` run numbers. -/
theorem wire_bijection_u32 (run : UInt32) (h : wireMapExists run.toNat) :
    WireBij (wirePosition run.toNat) := wire_bijection run.toNat h

theorem isErrAt_err (arms : Arms) (run : Nat) (h : isErrAt arms run = true) :
    ∃ v, dispatch arms run = some (.err v) := by
  unfold isErrAt at h
  cases hx : dispatch arms run with
  | none => rw [hx] at h; cases h
  | some x =>
    rw [hx] at h
    cases x with
    | err v => exact ⟨v, rfl⟩
    | table i => cases h
    | value n => cases h

/-- **C08 before_first_map_errors (wires).** A run number before the first map gives an error
for every board and channel, never a wire. -/
theorem wire_before_first_map_errors (run : Nat) (h32 : run < 2 ^ 32) (h : run < wireFirstRun)
    (b c : Nat) : ∃ e, wirePosition run b c = .err e := by
  have sp := arms_split
  simp only [Bool.and_eq_true] at sp
  by_cases h1 : run < firstMapRun wirePreampArms
  · obtain ⟨v, hv⟩ := isErrAt_err _ _ (before_of_split _ _ sp.1.1 run h1 h32)
    exact ⟨v, by simp only [wirePosition, hv]⟩
  · have h2 : run < firstMapRun wireChannelArms := by
      unfold wireFirstRun at h; rw [Nat.max_def] at h; split at h <;> omega
    have wf := arms_wellFormed
    simp only [Bool.and_eq_true] at wf
    obtain ⟨i, _, d1⟩ := hasMapAt_table _ _ wf.1.1 run (from_of_split _ _ sp.1.1 run (by omega) h32)
    obtain ⟨v, hv⟩ := isErrAt_err _ _ (before_of_split _ _ sp.1.2 run h2 h32)
    exact ⟨v, by simp only [wirePosition, d1, hv]⟩

/-- **C08 no_gap (wires).** Every u32 run number from the first map on has a map. -/
theorem wire_no_gap (run : Nat) (h32 : run < 2 ^ 32) (h : wireFirstRun ≤ run) : wireMapExists run := by
  have sp := arms_split
  simp only [Bool.and_eq_true] at sp
  have h1 : firstMapRun wirePreampArms ≤ run := Nat.le_trans (Nat.le_max_left _ _) h
  have h2 : firstMapRun wireChannelArms ≤ run := Nat.le_trans (Nat.le_max_right _ _) h
  exact ⟨from_of_split _ _ sp.1.1 run h1 h32, from_of_split _ _ sp.1.2 run h2 h32⟩

/-- Without a map the answer is an error (never a value, never a panic). -/
theorem wire_no_map_errors (run : Nat) (h : ¬ wireMapExists run) (b c : Nat) :
    ∃ e, wirePosition run b c = .err e := by
  have wf := arms_wellFormed
  simp only [Bool.and_eq_true] at wf
  rcases dispatch_cases _ _ wf.1.1 run with ⟨i, _, d1⟩ | ⟨v, hv⟩
  · rcases dispatch_cases _ _ wf.1.2 run with ⟨j, _, d2⟩ | ⟨v, hv⟩
    · exact absurd ⟨by simp [hasMapAt, d1], by simp [hasMapAt, d2]⟩ h
    · exact ⟨v, by simp only [wirePosition, d1, hv]⟩
  · exact ⟨v, by simp only [wirePosition, hv]⟩

/-- **C08 sim_eq_5000 (wires).** The simulation run number `u32::MAX` maps exactly like run 5000. -/
theorem wire_sim_eq_5000 (b c : Nat) : wirePosition 4294967295 b c = wirePosition 5000 b c := by
  have e1 : dispatch wirePreampArms 4294967295 = dispatch wirePreampArms 5000 := by decide +kernel
  have e2 : dispatch wireChannelArms 4294967295 = dispatch wireChannelArms 5000 := by decide +kernel
  simp only [wirePosition, e1, e2]

/-- The wire lookup never panics, for any run number, board row and channel < 32. -/
theorem wire_total (run b c : Nat) (hb : b < 8) (hc : c < 32) : NoPanic (wirePosition run b c) := by
  by_cases h : wireMapExists run
  · obtain ⟨w, _, e⟩ := (wire_bijection run h).total b c hb hc
    rw [e]; exact noPanic_ok _
  · obtain ⟨e, he⟩ := wire_no_map_errors run h b c
    rw [he]; exact noPanic_err _

/-! ### PadWing boards and pads -/

def pwbMapExists (run : Nat) : Prop := hasMapAt pwbArms run = true

instance (run : Nat) : Decidable (pwbMapExists run) := by
  unfold pwbMapExists; exact inferInstance

def pwbFirstRun : Nat := firstMapRun pwbArms

/-- A board is installed in a run when the run's map gives it a position. -/
def installed (run b : Nat) : Prop := ∃ p, pwbPosition run b = .ok p

theorem pwbPosition_of_table (run i : Nat) (t : List (List String))
    (h1 : dispatch pwbArms run = some (.table i)) (h2 : armTable pwbTables i = some t) (b : Nat) :
    pwbPosition run b = pwbCore t b := by
  simp only [pwbPosition, h1, h2]

/-- **C08 (PadWing boards).** For every run number with a map, installed board ↦ (column, row)
is a bijection onto the 8 × 8 positions (so exactly 64 boards are installed); no panic. -/
theorem pwb_bijection (run : Nat) (h : pwbMapExists run) :
    PwbBij (pwbPosition run) padwingBoards.length := by
  have wf := arms_wellFormed
  simp only [Bool.and_eq_true] at wf
  obtain ⟨i, hi, d1⟩ := hasMapAt_table _ _ wf.2 run h
  obtain ⟨t, ht, e1⟩ := armTable_of_lt pwbTables i hi
  have ok := pwb_tables_ok
  simp only [List.all_eq_true] at ok
  have B := pwbBij_of_ok t.2 (ok t ht)
  have e : pwbPosition run = pwbCore t.2 := funext (pwbPosition_of_table run i t.2 d1 e1)
  rw [e]; exact B

theorem padPosition_eq_compose (run : Nat) :
    padPosition run = padCompose (pwbPosition run) := by
  funext b chip ch
  rfl

/-- **C08 pad_bijection.** For every run number for which a map exists, (installed PadWing
board, chip, pad channel) ↦ pad is a bijection from 64 × 4 × 72 onto the 32 × 576 = 18 432 pads
(proved as a product of the 8 × 8 board bijection and the 4 × 72 pad bijection). -/
theorem pad_bijection (run : Nat) (h : pwbMapExists run) :
    TpcPadBij (padPosition run) (installed run) padwingBoards.length := by
  rw [padPosition_eq_compose]
  exact tpcPadBij_of (pwbPosition run) _ (pwb_bijection run h) (padBij_of_ok pad_ok)

theorem pad_bijection_u32 (run : UInt32) (h : pwbMapExists run.toNat) :
    TpcPadBij (padPosition run.toNat) (installed run.toNat) padwingBoards.length :=
  pad_bijection run.toNat h

/-- `(chip, pad channel) ↦ (column, row)` within a board: bijection onto 4 × 72, run independent. -/
theorem padInPwb_bijection : PadBij padInPwb := padBij_of_ok pad_ok

/-- **C08 before_first_map_errors (pads).** -/
theorem pwb_before_first_map_errors (run : Nat) (h32 : run < 2 ^ 32) (h : run < pwbFirstRun)
    (b : Nat) : ∃ e, pwbPosition run b = .err e := by
  have sp := arms_split
  simp only [Bool.and_eq_true] at sp
  obtain ⟨v, hv⟩ := isErrAt_err _ _ (before_of_split _ _ sp.2 run h h32)
  exact ⟨v, by simp only [pwbPosition, hv]⟩

theorem pad_before_first_map_errors (run : Nat) (h32 : run < 2 ^ 32) (h : run < pwbFirstRun)
    (b chip ch : Nat) : ∃ e, padPosition run b chip ch = .err e := by
  obtain ⟨e, he⟩ := pwb_before_first_map_errors run h32 h b
  exact ⟨e, by simp only [padPosition, padCompose, he]⟩

/-- **C08 no_gap (pads).** -/
theorem pwb_no_gap (run : Nat) (h32 : run < 2 ^ 32) (h : pwbFirstRun ≤ run) : pwbMapExists run := by
  have sp := arms_split
  simp only [Bool.and_eq_true] at sp
  exact from_of_split _ _ sp.2 run h h32

/-- **C08 sim_eq_5000 (pads).** -/
theorem pad_sim_eq_5000 (b chip ch : Nat) :
    padPosition 4294967295 b chip ch = padPosition 5000 b chip ch := by
  have e : dispatch pwbArms 4294967295 = dispatch pwbArms 5000 := by decide +kernel
  simp only [padPosition, padCompose, pwbPosition, e]

theorem pwb_sim_eq_5000 (b : Nat) : pwbPosition 4294967295 b = pwbPosition 5000 b := by
  have e : dispatch pwbArms 4294967295 = dispatch pwbArms 5000 := by decide +kernel
  simp only [pwbPosition, e]

/-! ### Calibration dispatch -/

theorem cal_before_first (c : String × Arms × List (String × String)) (hc : c ∈ calArms)
    (run : Nat) (h32 : run < 2 ^ 32) (h : run < firstMapRun c.2.1) : isErrAt c.2.1 run = true := by
  have ok := cal_arms_ok
  simp only [List.all_eq_true, Bool.and_eq_true] at ok
  exact before_of_split _ _ (ok c hc).1.1.1 run h h32

theorem cal_no_gap (c : String × Arms × List (String × String)) (hc : c ∈ calArms)
    (run : Nat) (h32 : run < 2 ^ 32) (h : firstMapRun c.2.1 ≤ run) : hasMapAt c.2.1 run = true := by
  have ok := cal_arms_ok
  simp only [List.all_eq_true, Bool.and_eq_true] at ok
  exact from_of_split _ _ (ok c hc).1.1.1 run h h32

/-! ### Geometry, in exact rational arithmetic in units of one turn (2π) -/

/-- φ of a wire / 2π: `ANODE_WIRE_PITCH_PHI * (shifted_index + 0.5)` with pitch = 2π / 256. -/
def phiWire (w : Nat) : Rat := ((phiWireIndex w : Rat) + 1 / 2) / (tpcAnodeWires : Rat)

/-- φ of a pad column / 2π: `(column + 0.5) * PAD_PITCH_PHI` with pitch = 2π / 32. -/
def phiCol (c : Nat) : Rat := ((c : Rat) + 1 / 2) / (tpcPadColumns : Rat)

def ratAbs (x : Rat) : Rat := if x < 0 then -x else x

/-- **C08 wire_in_column.** Every wire lies inside the pad column it is associated with:
|φ_wire − φ_column| < half a column pitch = 1/64 turn (= π/32), for all 256 wires. -/
theorem wire_in_column : ∀ w, w < 256 →
    wireToPadColumn w < 32 ∧ ratAbs (phiWire w - phiCol (wireToPadColumn w)) < 1 / 64 := by
  decide +kernel

/-- **C08 column fibres.** `pad_column_to_wires c` is exactly the set of wires of column `c`,
has 8 wires and never wraps (`end ≤ 256`), for all 32 columns. -/
theorem padColumnToWires_fibre : ∀ c, c < 32 →
    (padColumnToWires c).2 = (padColumnToWires c).1 + 8 ∧ (padColumnToWires c).2 ≤ 256 ∧
    ∀ w, w < 256 → (((padColumnToWires c).1 ≤ w ∧ w < (padColumnToWires c).2) ↔ wireToPadColumn w = c) := by
  decide +kernel

/-- The index used by `wire_to_pad_column` is the one `TpcWirePosition::phi` uses. -/
theorem wireToPadColumn_phiIndex : ∀ w, w < 256 → wireToPadColumn w = phiWireIndex w / 8 := by
  decide +kernel

/-! ### Non-vacuity -/

example : wireMapExists 5000 := by decide +kernel
example : wireMapExists 4294967295 := by decide +kernel
example : pwbMapExists 5000 ∧ pwbMapExists 4294967295 ∧ pwbMapExists 20000 := by decide +kernel
example : ¬ wireMapExists 0 ∧ ¬ pwbMapExists 0 := by decide +kernel
example : 0 < wireFirstRun ∧ wireFirstRun ≤ 5000 ∧ 0 < pwbFirstRun ∧ pwbFirstRun ≤ 5000 := by
  decide +kernel
example : wirePosition 5000 0 0 = .ok 4 := by decide +kernel
example : padPosition 5000 60 3 72 = .ok (30, 504) := by decide +kernel
example : installed 5000 60 := ⟨(7, 7), by decide +kernel⟩
example : ¬ installed 5000 70 := by
  rintro ⟨p, hp⟩
  have : pwbPosition 5000 70 = .err "BoardIdNotFound" := by decide +kernel
  rw [this] at hp; cases hp

end AlphaG.Maps
