import AlphaG.Model.Chunk
/-
Line-protocol handler for C03 / the chunk part of C01:
  `chunk <hex>`            decode a PWB chunk, print fields, accessor CRCs and the re-encoding
  `crc <hex>`              `ok <n>`: the model's crc32c as a decimal number
  `pwbboard u32 <n>` | `pwbboard mac <hex>` | `pwbboard name <hex of UTF-8>`
  `afterid u8 <n>` | `afterid char <code point>`
-/
namespace AlphaG.Driver.C03
open AlphaG AlphaG.Crc AlphaG.Chunk

def errName : Err → String
  | .incompleteSlice => "IncompleteSlice"
  | .unknownDeviceId => "UnknownDeviceId"
  | .unknownChannelId => "UnknownChannelId"
  | .unknownFlags => "UnknownFlags"
  | .badChunkLength => "BadChunkLength"
  | .zeroMismatch => "ZeroMismatch"
  | .headerCRC32CMismatch => "HeaderCRC32CMismatch"
  | .payloadCRC32CMismatch => "PayloadCRC32CMismatch"

def showChunk (c : Chunk.Chunk) : String :=
  match boardId c, afterId c, headerCrc32c c, payloadCrc32c c with
  | .panic s, _, _, _ => s!"panic {s}"
  | _, .panic s, _, _ => s!"panic {s}"
  | _, _, .panic s, _ => s!"panic {s}"
  | _, _, _, .panic s => s!"panic {s}"
  | .ok t, .ok a, .ok h, .ok p =>
    let chip := match a with | .A => 0 | .B => 1 | .C => 2 | .D => 3
    s!"ok {t.2.2} {c.packetSequence} {c.channelSequence} {chip} {c.flags} {c.chunkId} {toHex c.payload} {h} {p} {toHex (encodeChunk c)}"
  | _, _, _, _ => "panic unreachable"

def showBoard : Option Board → String
  | some t => s!"ok {t.1} {toHex (t.2.1.map UInt8.ofNat)} {t.2.2}"
  | none => "err Unknown"

def showAfter : Option AfterId → String
  | some .A => "ok A" | some .B => "ok B" | some .C => "ok C" | some .D => "ok D"
  | none => "err Unknown"

def handle (cmd : String) (args : List String) : Option String :=
  match cmd, args with
  | "chunk", [hex] =>
    match parseHex hex with
    | none => some "bad-request"
    | some b =>
      match decodeChunk b with
      | .ok c => some (showChunk c)
      | .err e => some s!"err {errName e}"
      | .panic s => some s!"panic {s}"
  | "crc", [hex] =>
    match parseHex hex with
    | none => some "bad-request"
    | some b => some s!"ok {crc32c b}"
  | "pwbboard", ["u32", n] =>
    match n.toNat? with
    | some n => some (showBoard (boardOfDeviceId n))
    | none => some "bad-request"
  | "pwbboard", ["mac", hex] =>
    match parseHex hex with
    | some m => some (showBoard (boardOfMac (m.map UInt8.toNat)))
    | none => some "bad-request"
  | "pwbboard", ["name", hex] =>
    match parseHex hex with
    | some m =>
      match String.fromUTF8? (ByteArray.mk m.toArray) with
      | some s => some (showBoard (boardOfName s))
      | none => some "bad-request"
    | none => some "bad-request"
  | "afterid", ["u8", n] =>
    match n.toNat? with
    | some n => some (showAfter (afterOfNat n))
    | none => some "bad-request"
  | "afterid", ["char", n] =>
    match n.toNat? with
    | some n => some (showAfter (afterOfChar (Char.ofNat n)))
    | none => some "bad-request"
  | _, _ => none

end AlphaG.Driver.C03
