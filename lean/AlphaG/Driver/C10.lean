import AlphaG.Model.Event
/-
Line-protocol handler of C10 / C09 / C11 (event assembly):

  event <run> <name>=<hex> <name>=<hex> …
      → ok <ts> w<idx>:<bits,…> … p<col>.<row>:<bits,…> …     occupied slots in index order, samples as
                                                            f64 bit patterns (16 hex digits)
      | err <Variant>                                       variant of TryMainEventFromDataBanksError
      | panic <site>
    A bank name is written literally when it consists of ASCII letters and digits only, else as
    `~<hex of its UTF-8 bytes>` (`~` alone: the empty name). Data in lowercase hex (`-` = empty).
  eventorders <run> <name>=<hex> …
      → the distinct answers of `event` over two `HashMap::into_values()` orders of the chunk groups
        (insertion order and its reverse), sorted, joined by ` | ` (C11: when the answer depends
        on the order, both are listed)
  cal <which> <run> <i> [<j>]  → ok <value> | err <Variant>   one calibration lookup (diagnosis)

The carrier is `Float`: `Float.ofInt` (exact for `i32`), `Float.ofBits`, one multiplication.
-/
namespace AlphaG.Driver.C10
open AlphaG AlphaG.Event

def floatOps : Ops Float :=
  { ofInt := Float.ofInt, mul := fun a b => a * b, ofBits := fun n => Float.ofBits (UInt64.ofNat n) }

def errName : Err → String
  | .unknownBank _ => "UnknownBank"
  | .badAlpha16 _ => "BadAlpha16"
  | .alpha16IdMismatch => "Alpha16IdMismatch"
  | .wireBankWithBvChannel => "WireBankWithBvChannel"
  | .duplicateWireBank => "DuplicateWireBank"
  | .badPadwingChunk _ => "BadPadwingChunk"
  | .padwingBoardIdMismatch => "PadwingBoardIdMismatch"
  | .badPadwing _ => "BadPadwing"
  | .duplicatePadSignal => "DuplicatePadSignal"
  | .badTrg _ => "BadTrg"
  | .duplicateTrgBank => "DuplicateTrgBank"
  | .missingTrgBank => "MissingTrgBank"
  | .wirePositionError _ => "WirePositionError"
  | .padPositionError _ => "PadPositionError"
  | .wireBaselineError _ => "WireBaselineError"
  | .wireDelayError _ => "WireDelayError"
  | .wireGainError _ => "WireGainError"
  | .padBaselineError _ => "PadBaselineError"
  | .padDelayError _ => "PadDelayError"
  | .padGainError _ => "PadGainError"

def hex16 (n : Nat) : String :=
  String.ofList ((List.range 16).map fun i => hexChar ((n >>> (4 * (15 - i))) % 16))

def showSamples (l : List Float) : String :=
  if l.isEmpty then "-" else ",".intercalate (l.map fun x => hex16 x.toBits.toNat)

def showEvent (ev : Event Float) : String := Id.run do
  let mut out := s!"ok {ev.ts}"
  for i in [0:ev.wire.size] do
    match ev.wire[i]? with
    | some (some s) => out := out ++ s!" w{i}:{showSamples s}"
    | _ => pure ()
  for i in [0:ev.pad.size] do
    match ev.pad[i]? with
    | some (some s) => out := out ++ s!" p{i / nPadRows}.{i % nPadRows}:{showSamples s}"
    | _ => pure ()
  return out

/-- `<name>=<hex>` -/
def parseBank (tok : String) : Option Bank :=
  match tok.splitOn "=" with
  | [n, h] =>
    match parseHex h with
    | none => none
    | some data =>
      if n.startsWith "~" then
        match parseHex (if n.length = 1 then "-" else (n.drop 1).toString) with
        | none => none
        | some b => (String.fromUTF8? (ByteArray.mk b.toArray)).map fun s => (s, data)
      else some (n, data)
  | _ => none

def parseBanks : List String → Option (List Bank)
  | [] => some []
  | t :: ts =>
    match parseBank t, parseBanks ts with
    | some b, some bs => some (b :: bs)
    | _, _ => none

def render {β : Type} (f : β → String) : Outcome String β → String
  | .ok v => s!"ok {f v}"
  | .err e => s!"err {e}"
  | .panic s => s!"panic {s}"

/-- Reverse insertion order. -/
def revOrder : GroupOrder := ⟨List.reverse, fun l => List.reverse_perm l⟩

def showOutcome : Outcome Err (Event Float) → String
  | .ok ev => showEvent ev
  | .err e => s!"err {errName e}"
  | .panic s => s!"panic {s}"

def handle (cmd : String) (args : List String) : Option String :=
  match cmd, args with
  | "eventorders", run :: banks =>
    match run.toNat?, parseBanks banks with
    | some r, some bs =>
      let a := showOutcome (buildEventWith floatOps GroupOrder.id r bs)
      let b := showOutcome (buildEventWith floatOps revOrder r bs)
      some (if a == b then a else if a < b then s!"{a} | {b}" else s!"{b} | {a}")
    | _, _ => some "bad-request"
  | "event", run :: banks =>
    match run.toNat?, parseBanks banks with
    | some r, some bs =>
      match buildEvent floatOps r bs with
      | .ok ev => some (showEvent ev)
      | .err e => some s!"err {errName e}"
      | .panic s => some s!"panic {s}"
    | _, _ => some "bad-request"
  | "cal", [which, run, i] =>
    match run.toNat?, i.toNat? with
    | some r, some w =>
      match which with
      | "wire_baseline" => some (render toString (wireBaseline r w))
      | "wire_gain" => some (render hex16 (wireGainBits r w))
      | "wire_delay" => some (render toString (wireDelay r))
      | "pad_delay" => some (render toString (padDelay r))
      | _ => some "bad-request"
    | _, _ => some "bad-request"
  | "cal", [which, run, i, j] =>
    match run.toNat?, i.toNat?, j.toNat? with
    | some r, some c, some w =>
      match which with
      | "pad_baseline" => some (render toString (padBaseline r c w))
      | "pad_gain" => some (render hex16 (padGainBits r c w))
      | _ => some "bad-request"
    | _, _, _ => some "bad-request"
  | _, _ => none

end AlphaG.Driver.C10
