import AlphaG.Model.VertexPipeline
import AlphaG.Driver.C13b
import AlphaG.Driver.C18
import AlphaG.Driver.C15b
import AlphaG.Driver.C14c
/-
Line-protocol handlers for the composed model of `MainEvent::vertex()` (C09b). The event travels
exactly as in the `avalanches` request of `Driver/C13b.lean` (whose parser is reused):

* `vertex <wire response> | <pad response> | <neighbour factors> | w<idx>:<samples> … |
  p<col>.<row>:<samples> …` → `ok none` | `ok <x> <y> <z>` (bit patterns, `nan` for any NaN) |
  `panic <site>`;
* `vertexstages <same arguments>` → `stages av=<n> sp=<n> cl=<n>[<sizes>] tr=<n> cand=<n> vt=<n>`
  — the sizes after each stage (avalanches, space points, clusters with their sizes, fitted
  tracks, tracks passing the two filters of `find_vertices`, tracks of the primary vertex), cut
  short by ` panic=<site>` at the stage that panics;
* `vertexpoints <same arguments>` → `ok <n> <n × (r phi z)>`: the space points handed to
  `cluster_spacepoints`, in order (bit patterns) — what the real side computes with
  `avalanches()` + `SpacePoint::try_from`;
* `vertexconsts` → `ok <adc rate> <wire pitch phi> <max cluster distance> <epsilon> <delta>
  <min track length> <max dca> <max beamline distance>` (bit patterns of the `f64` literals the
  model passes to the stages).

The `Float` instances are the ones of the stage drivers (C13/C13b, C18 with the generated drift
tables, C15b, C14b/C14c); nothing is re-implemented here.
-/
namespace AlphaG.Driver.C09b
open AlphaG AlphaG.VertexPipeline
open AlphaG.Driver.C13b (groups groupFloats? wireTok? padTok? mkEvent)
open AlphaG.Driver.C17 (showFloat)

/-- The `f64` literals. `Length::new::<centimeter>(v)` is `v * 1.0e-2` (see `Driver/C14b.lean`). -/
def consts : Consts Float where
  adcRate := 62.5e6
  wirePitchPhi := 2.0 * Float.ofBits 0x400921FB54442D18 / 256.0
  half := 0.5
  maxClusterDistance := 3.0 * 1.0e-2
  epsilon := C14c.epsilon
  delta := C14c.delta
  minTrackLength := C14b.minTrackLength
  maxTrackBeamlineDca := C14b.maxTrackBeamlineDca
  maxBeamlineClusteringDistance := C14b.maxBeamlineClusteringDistance

/-- Lookup in a finished ranking (a partial application `lookupRank m` holds the map). -/
@[noinline] def lookupRank (m : Std.HashMap Nat Nat) (c : Nat) : Nat := m.getD c 0

/-- Ranking of the Hough bin codes by first appearance (`Driver/C15b.lean`: `rankFn (allCodes prm
pts)`), computed once per point cloud: the model applies `Pipe.ren` to the points once and hands
the resulting closure to the clustering. -/
@[noinline] def renOf (prm : Hough.Params Float) (pts : Array (Hough.Point Float)) : Nat → Nat :=
  lookupRank (C15b.rankMap (C15b.allCodes prm pts))

theorem renOf_eq (prm : Hough.Params Float) (pts : Array (Hough.Point Float)) :
    renOf prm pts = C15b.rankFn (C15b.allCodes prm pts) := rfl

def pipe (T : Avalanches.Tables Float) : Pipe Float where
  deconv := Deconv.floatOps
  geo := C13.floatGeo
  sorter := C13.floatSorter
  tables := T
  drift := Drift.floatOps
  driftTables := C18.floatTables
  hough := C15b.floatOps
  fit := C14c.fops
  ofNat := Float.ofNat
  ren := fun pts => renOf ⟨rhoBins, thetaBins, consts.maxClusterDistance⟩ pts
  c := consts

def parseEvent (args : List String) : Option (Avalanches.Tables Float × Matching.Event Float) :=
  match groups args with
  | [wr, pr, nf, ws, ps] =>
    match groupFloats? wr, groupFloats? pr, groupFloats? nf, ws.mapM wireTok?, ps.mapM padTok? with
    | some wireResp, some padResp, some factors, some wires, some pads =>
      some ({ wireResp, padResp, factors, sqrt := Float.sqrt }, mkEvent wires pads)
    | _, _, _, _, _ => none
  | _ => none

/-- FNV-1a (64 bit) over the little-endian bytes of the bit patterns `r phi z` of every point, in
order (every NaN counts as `0x7ff8000000000000`): a digest of what stage 2 hands to stage 3. -/
def fnvWord (h : UInt64) (x : UInt64) : UInt64 :=
  (List.range 8).foldl (fun h i => (h ^^^ ((x >>> (8 * i.toUInt64)) &&& 0xff)) * 0x100000001b3) h

def canonBits (x : Float) : UInt64 := if x.isNaN then 0x7ff8000000000000 else x.toBits

def pointsDigest (pts : Array (Hough.Point Float)) : String :=
  let h := pts.foldl (fun h p => fnvWord (fnvWord (fnvWord h (canonBits p.r)) (canonBits p.phi)) (canonBits p.z))
    0xcbf29ce484222325
  s!"pts={pts.size}:{C17.hex16 h.toNat}"

/-- `vertexOfSignals (pipe T) ev` evaluated as `pointsOfSignals … >>= vertexFromPoints …`
(`vertexOfSignals_eq`), with the digest of the points appended to an `ok` answer. -/
def vertexAnswer (args : List String) : String :=
  match parseEvent args with
  | some (T, ev) =>
    match pointsOfSignals (pipe T) ev with
    | .panic site => s!"panic {site}"
    | .err _ => "err -"
    | .ok pts =>
      match vertexFromPoints (pipe T) pts with
      | .ok none => s!"ok none {pointsDigest pts}"
      | .ok (some p) => s!"ok {showFloat p.1} {showFloat p.2.1} {showFloat p.2.2} {pointsDigest pts}"
      | .err _ => "err -"
      | .panic site => s!"panic {site}"
  | none => "bad-request"

def showOpt (x : Option Nat) : String :=
  match x with
  | some n => toString n
  | none => "-"

def stagesAnswer (args : List String) : String :=
  match parseEvent args with
  | some (T, ev) =>
    let s := stageSizes (pipe T) ev
    let sizes := ",".intercalate (s.clusterSizes.map toString)
    let tail := match s.panic with
      | some site => s!" panic={site}"
      | none => ""
    s!"stages av={showOpt s.avalanches} sp={showOpt s.points} cl={showOpt s.clusters}[{sizes}] tr={showOpt s.tracks} cand={showOpt s.candidates} vt={showOpt s.vertexTracks}{tail}"
  | none => "bad-request"

def pointsAnswer (args : List String) : String :=
  match parseEvent args with
  | some (T, ev) =>
    match (stageAvalanches (pipe T) ev).bind (stagePoints (pipe T)) with
    | .ok pts =>
      (s!"ok {pts.size} " ++ " ".intercalate (pts.toList.map fun p =>
        s!"{showFloat p.r} {showFloat p.phi} {showFloat p.z}")).trimAscii.toString
    | .err _ => "err -"
    | .panic site => s!"panic {site}"
  | none => "bad-request"

/-- Debugging: run the pipeline up to stage `k` (3: clusters, 4: tracks) and print a size. -/
def uptoAnswer (k : Nat) (args : List String) : String :=
  match parseEvent args with
  | some (T, ev) =>
    match pointsOfSignals (pipe T) ev with
    | .ok pts =>
      match stageClusters (pipe T) pts with
      | .ok r =>
        if k ≤ 3 then s!"ok clusters {r.clusters.length}" else
        match stageTracks (pipe T) pts r.clusters with
        | .ok ts => s!"ok tracks {ts.size}"
        | _ => "other"
      | _ => "other"
    | _ => "other"
  | none => "bad-request"

def constsAnswer : String :=
  "ok " ++ " ".intercalate ([consts.adcRate, consts.wirePitchPhi, consts.maxClusterDistance,
    consts.epsilon, consts.delta, consts.minTrackLength, consts.maxTrackBeamlineDca,
    consts.maxBeamlineClusteringDistance].map showFloat)

def handle (cmd : String) (args : List String) : Option String :=
  match cmd, args with
  | "vertex", rest => some (vertexAnswer rest)
  | "vertexstages", rest => some (stagesAnswer rest)
  | "vertexpoints", rest => some (pointsAnswer rest)
  | "vertexupto3", rest => some (uptoAnswer 3 rest)
  | "vertexupto4", rest => some (uptoAnswer 4 rest)
  | "vertexconsts", [] => some constsAnswer
  | _, _ => none

end AlphaG.Driver.C09b
