import AlphaG.Model.VertexPipeline
import AlphaG.Driver.C13b
import AlphaG.Driver.C18
import AlphaG.Driver.C15b
import AlphaG.Driver.C14c
/-
Line-protocol handlers for the composed model of `MainEvent::vertex()` (C09b). The event travels
exactly as in the `avalanches` request of `Driver/C13b.lean` (whose parser is reused):

* `vertex <wire response> | <pad response> | <neighbour factors> | w<idx>:<samples> … |
  p<col>.<row>:<samples> …` → `ok none pts=<n>:<digest>` | `ok <x> <y> <z> pts=<n>:<digest>`
  (bit patterns, `nan` for any NaN; `pts`: number and FNV-1a digest of the space points handed to
  `cluster_spacepoints`, so that a comparison can tell "same points, different vertex" from
  "different points") | `panic <site>`;
* `vertexx <pad response> | w<idx>:<deconvolved input> … | p<col>.<row>:<samples> …` → the same
  answer, with `exact` in place of `ok`, for the chain downstream of the wire deconvolution (the
  w-tokens carry what `wire_range_deconvolution` returned, as in `avalanchesx` of
  `Driver/C13b.lean`): bit for bit;
* an `ok` answer of `vertex`/`vertexx` ends in ` dust=<k>` when `k > 0` avalanches of the model's
  list have a wire amplitude below `1e-9` of the largest;
* `vertexstages <same arguments>` → `stages av=<n> sp=<n> cl=<n>[<sizes>] tr=<n> cand=<n> vt=<n>`
  — the sizes after each stage (avalanches, space points, clusters with their sizes, fitted
  tracks, tracks passing the two filters of `find_vertices`, tracks of the primary vertex), cut
  short by ` panic=<site>` at the stage that panics;
* `vertexpoints <same arguments>` → `ok <n> <n × (r phi z)>`: the space points handed to
  `cluster_spacepoints`, in order (bit patterns) — what the real side computes with
  `avalanches()` + `SpacePoint::try_from`;
* `vertexconsts` → `ok <adc rate> <wire pitch phi> <max cluster distance> <epsilon> <delta>
  <min track length> <max dca> <max beamline distance>` (bit patterns of the `f64` literals the
  model passes to the stages).

The `Float` instances are the ones of the stage drivers (C13/C13b, C18 with the generated drift
tables, C15b, C14b/C14c); nothing is re-implemented here.
-/
namespace AlphaG.Driver.C09b
open AlphaG AlphaG.VertexPipeline
open AlphaG.Driver.C13b (groups groupFloats? wireTok? padTok? mkEvent)
open AlphaG.Driver.C17 (showFloat)

/-- The `f64` literals. `Length::new::<centimeter>(v)` is `v * 1.0e-2` (see `Driver/C14b.lean`). -/
def consts : Consts Float where
  adcRate := 62.5e6
  wirePitchPhi := 2.0 * Float.ofBits 0x400921FB54442D18 / 256.0
  half := 0.5
  maxClusterDistance := 3.0 * 1.0e-2
  epsilon := C14c.epsilon
  delta := C14c.delta
  minTrackLength := C14b.minTrackLength
  maxTrackBeamlineDca := C14b.maxTrackBeamlineDca
  maxBeamlineClusteringDistance := C14b.maxBeamlineClusteringDistance

/-- Ranking of the Hough bin codes by first appearance (`Driver/C15b.lean`), computed once per
point cloud (`Renaming` is a structure so that this is a saturated call). -/
@[noinline] def renBox (prm : Hough.Params Float) (pts : Array (Hough.Point Float)) : Renaming :=
  let m := C15b.rankMap (C15b.allCodes prm pts)
  ⟨fun c => m.getD c 0⟩

theorem renBox_fn (prm : Hough.Params Float) (pts : Array (Hough.Point Float)) :
    (renBox prm pts).fn = C15b.rankFn (C15b.allCodes prm pts) := rfl

def pipe (T : Avalanches.Tables Float) : Pipe Float where
  deconv := Deconv.floatOps
  geo := C13.floatGeo
  sorter := C13.floatSorter
  tables := T
  drift := Drift.floatOps
  driftTables := C18.floatTables
  hough := C15b.floatOps
  fit := C14c.fops
  ofNat := Float.ofNat
  ren := renBox ⟨rhoBins, thetaBins, consts.maxClusterDistance⟩
  c := consts

def parseEvent (args : List String) : Option (Avalanches.Tables Float × Matching.Event Float) :=
  match groups args with
  | [wr, pr, nf, ws, ps] =>
    match groupFloats? wr, groupFloats? pr, groupFloats? nf, ws.mapM wireTok?, ps.mapM padTok? with
    | some wireResp, some padResp, some factors, some wires, some pads =>
      some ({ wireResp, padResp, factors, sqrt := Float.sqrt }, mkEvent wires pads)
    | _, _, _, _, _ => none
  | _ => none

/-- FNV-1a (64 bit) over the little-endian bytes of the bit patterns `r phi z` of every point, in
order (every NaN counts as `0x7ff8000000000000`): a digest of what stage 2 hands to stage 3. -/
def fnvWord (h : UInt64) (x : UInt64) : UInt64 :=
  (List.range 8).foldl (fun h i => (h ^^^ ((x >>> (8 * i.toUInt64)) &&& 0xff)) * 0x100000001b3) h

def canonBits (x : Float) : UInt64 := if x.isNaN then 0x7ff8000000000000 else x.toBits

def pointsDigest (pts : Array (Hough.Point Float)) : String :=
  let h := pts.foldl (fun h p => fnvWord (fnvWord (fnvWord h (canonBits p.r)) (canonBits p.phi)) (canonBits p.z))
    0xcbf29ce484222325
  s!"pts={pts.size}:{C17.hex16 h.toNat}"

/-- Number of avalanches whose wire amplitude is at most `1e-9` of the event's largest ("dust":
rounding residue of the fit subtraction that passes `> 0.0`; which of it exists depends on the
last bit of the Cholesky solve — see harness/src/c13b.rs, c09b.rs). -/
def dustCount (avs : List (Matching.Avalanche Float)) : Nat :=
  let scale := avs.foldl (fun m a => if m < a.wireAmp then a.wireAmp else m) 0.0
  (avs.filter fun a => a.wireAmp ≤ 1.0e-9 * scale).length

/-- Stages 2–5 on a given avalanche list, with the digest of the points (and the dust count of
the list, when not zero) appended to an `ok` answer. -/
def downstreamAnswer (P : Pipe Float) (avs : List (Matching.Avalanche Float)) (ok : String := "ok") : String :=
  let dust := if dustCount avs = 0 then "" else s!" dust={dustCount avs}"
  match stagePoints P avs with
  | .panic site => s!"panic {site}"
  | .err _ => "err -"
  | .ok pts =>
    match vertexFromPoints P pts with
    | .ok none => s!"{ok} none {pointsDigest pts}{dust}"
    | .ok (some p) => s!"{ok} {showFloat p.1} {showFloat p.2.1} {showFloat p.2.2} {pointsDigest pts}{dust}"
    | .err _ => "err -"
    | .panic site => s!"panic {site}"

/-- `vertexOfSignals (pipe T) ev`, evaluated as `stageAvalanches … >>= stagePoints … >>=
vertexFromPoints …` (`vertexOfSignals_eq`, `vertexFromAvalanches_eq`). -/
def vertexAnswer (args : List String) : String :=
  match parseEvent args with
  | some (T, ev) =>
    match stageAvalanches (pipe T) ev with
    | .panic site => s!"panic {site}"
    | .err _ => "err -"
    | .ok avs => downstreamAnswer (pipe T) avs
  | none => "bad-request"

/-- Downstream of the wire deconvolution (as `avalanchesx` of `Driver/C13b.lean`): the listed wires
carry the *inputs* `wire_range_deconvolution` returned for them, pads are deconvolved by the model,
then `vertexFromAvalanches`. Everything in this request is bit for bit. -/
def exactAnswer (args : List String) : String :=
  match groups args with
  | [pr, ws, ps] =>
    match groupFloats? pr, ws.mapM wireTok?, ps.mapM padTok? with
    | some padResp, some wires, some pads =>
      let Q : Matching.Params Float :=
        { deconvBlock := fun signals => signals
          padDeconv := fun signal => Avalanches.okD (Deconv.padDeconv Deconv.floatOps padResp signal) [] }
      let ev := mkEvent wires pads
      let avs := Avalanches.avalanchesShared Deconv.floatOps C13.floatGeo C13.floatSorter Q ev
        (Matching.assignments Q ev)
      let T : Avalanches.Tables Float := { wireResp := [], padResp, factors := [], sqrt := Float.sqrt }
      downstreamAnswer (pipe T) avs "exact"
    | _, _, _ => "bad-request"
  | _ => "bad-request"

def showOpt (x : Option Nat) : String :=
  match x with
  | some n => toString n
  | none => "-"

def showSizes (s : Sizes) (dust : Nat) : String :=
  let sizes := ",".intercalate (s.clusterSizes.map toString)
  let tail := match s.panic with
    | some site => s!" panic={site}"
    | none => ""
  let d := if dust = 0 then "" else s!" dust={dust}"
  s!"stages av={showOpt s.avalanches} sp={showOpt s.points} cl={showOpt s.clusters}[{sizes}] tr={showOpt s.tracks} cand={showOpt s.candidates} vt={showOpt s.vertexTracks}{tail}{d}"

/-- `stageSizes (pipe T) ev`, with the dust count of the model's avalanche list appended. -/
def stagesAnswer (args : List String) : String :=
  match parseEvent args with
  | some (T, ev) =>
    match stageAvalanches (pipe T) ev with
    | .panic site => showSizes { panic := some site } 0
    | .err _ => showSizes {} 0
    | .ok avs => showSizes (stageSizesFrom (pipe T) avs) (dustCount avs)
  | none => "bad-request"

def pointsAnswer (args : List String) : String :=
  match parseEvent args with
  | some (T, ev) =>
    match (stageAvalanches (pipe T) ev).bind (stagePoints (pipe T)) with
    | .ok pts =>
      (s!"ok {pts.size} " ++ " ".intercalate (pts.toList.map fun p =>
        s!"{showFloat p.r} {showFloat p.phi} {showFloat p.z}")).trimAscii.toString
    | .err _ => "err -"
    | .panic site => s!"panic {site}"
  | none => "bad-request"

def constsAnswer : String :=
  "ok " ++ " ".intercalate ([consts.adcRate, consts.wirePitchPhi, consts.maxClusterDistance,
    consts.epsilon, consts.delta, consts.minTrackLength, consts.maxTrackBeamlineDca,
    consts.maxBeamlineClusteringDistance].map showFloat)

def handle (cmd : String) (args : List String) : Option String :=
  match cmd, args with
  | "vertex", rest => some (vertexAnswer rest)
  | "vertexx", rest => some (exactAnswer rest)
  | "vertexstages", rest => some (stagesAnswer rest)
  | "vertexpoints", rest => some (pointsAnswer rest)
  | "vertexconsts", [] => some constsAnswer
  | _, _ => none

end AlphaG.Driver.C09b
