import AlphaG.Model.Pwb
/-
Line-protocol handler for `pwb <hex>`:
`ok <after> <compression> <trigger> <board name> <mac> <device id> <delay> <timestamp>
    <last sca> <requested> <sent list> <threshold list> <event counter> <fifo> <wdepth> <rdepth>
    <waveform_at of every sent channel> <re-encoding hex>` | `err Variant` | `panic site`.
Channel ids print as `R1..R3`, `F1..F4`, `P1..P72`; lists are comma separated, `-` when empty.
`chan <n>` answers `ChannelId::try_from(n)`, `baseline <i16,...>` answers
`suppression_baseline`.
-/
namespace AlphaG.Driver.C05
open AlphaG AlphaG.Pwb

def errName : Err → String
  | .incompleteSlice => "IncompleteSlice"
  | .unknownVersion => "UnknownVersion"
  | .unknownAfterId => "UnknownAfterId"
  | .unknownCompression => "UnknownCompression"
  | .unknownTrigger => "UnknownTrigger"
  | .unknownMac => "UnknownMac"
  | .zeroMismatch => "ZeroMismatch"
  | .badLastScaCell => "BadLastScaCell"
  | .badScaSamples => "BadScaSamples"
  | .badScaChannelsSent => "BadScaChannelsSent"
  | .badScaChannelsThreshold => "BadScaChannelsThreshold"
  | .unknownChannelId => "UnknownChannelId"
  | .channelIdMismatch => "ChannelIdMismatch"
  | .numberOfSamplesMismatch => "NumberOfSamplesMismatch"
  | .badEndOfDataMarker => "BadEndOfDataMarker"

def showChan : ChannelId → String
  | .reset n => s!"R{n}"
  | .fpn n => s!"F{n}"
  | .pad n => s!"P{n}"

def joinOrDash (xs : List String) (sep : String) : String :=
  if xs.isEmpty then "-" else sep.intercalate xs

def showWave (p : PwbPacket) (c : ChannelId) : String :=
  match waveformAt p c with
  | .ok (some w) => s!"{showChan c}:{joinOrDash (w.map toString) ","}"
  | .ok none => s!"{showChan c}:none"
  | .err _ => s!"{showChan c}:err"
  | .panic s => s!"{showChan c}:panic({s})"

def showPacket (p : PwbPacket) : String :=
  s!"{p.afterId} {p.compression} {p.triggerSource} {p.boardName} {toHex (p.mac.map UInt8.ofNat)} {p.deviceId} {p.triggerDelay} {p.triggerTimestamp} {p.lastScaCell} {p.requestedSamples} {joinOrDash (p.channelsSent.map showChan) ","} {joinOrDash (p.channelsOverThreshold.map showChan) ","} {p.eventCounter} {p.fifoMaxDepth} {p.eventDescriptorWriteDepth} {p.eventDescriptorReadDepth} {joinOrDash (p.channelsSent.map (showWave p)) ";"} {toHex (encodePwb p)}"

def parseInts (s : String) : Option (List Int) :=
  if s == "-" then some [] else (s.splitOn ",").mapM String.toInt?

def handle (cmd : String) (args : List String) : Option String :=
  match cmd, args with
  | "pwb", [hex] =>
    match parseHex hex with
    | none => some "bad-request"
    | some b =>
      match decodePwb b with
      | .ok p => some s!"ok {showPacket p}"
      | .err e => some s!"err {errName e}"
      | .panic s => some s!"panic {s}"
  | "chan", [n] =>
    match n.toNat? with
    | none => some "bad-request"
    | some i =>
      if readoutUnderflows i then some "panic ChannelId::try_from:sub" else
      match readoutToChannel i with
      | some c => some s!"ok {showChan c} {channelToReadout c}"
      | none => some "err TryChannelIdFromUnsignedError"
  | "baseline", [xs] =>
    match parseInts xs with
    | none => some "bad-request"
    | some w =>
      match suppressionBaseline w with
      | .ok (some v) => some s!"ok {v}"
      | .ok none => some "ok none"
      | .err _ => some "err CalculateSuppressionBaselineError"
      | .panic s => some s!"panic {s}"
  | _, _ => none

end AlphaG.Driver.C05
