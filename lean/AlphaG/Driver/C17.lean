import AlphaG.Model.Deconv
/-
Line-protocol handlers for C17 (all floats travel as 16-digit lowercase hex bit patterns, NaN as `nan`):

* `deconv <fast|naive> <off> <la> <n> <signal bits…> <m> <response bits…>`
  → `ok <sum of squared residuals> <n input bits…>`
* `ls <offlo> <offhi> <lalo> <lahi> <n> <signal…> <m> <response…>` (production sweep) and
  `lsn …` (same with the naive sweep) → `ok <k> <k input bits…>`
* `pad <n> <signal…> <m> <response…>` → `ls 3 5 7 12`
-/
namespace AlphaG.Driver.C17
open AlphaG AlphaG.Deconv

def hexNat? (s : String) : Option Nat :=
  if s.isEmpty then none else
  s.toList.foldl (fun acc c => match acc, hexDigit? c with
    | some a, some d => some (a * 16 + d)
    | _, _ => none) (some 0)

def floatOfHex? (s : String) : Option Float :=
  if s == "nan" then some (0.0 / 0.0) else
  (hexNat? s).map fun n => Float.ofBits (UInt64.ofNat n)

def hex16 (n : Nat) : String :=
  String.ofList ((List.range 16).map fun i => hexChar ((n / 16 ^ (15 - i)) % 16))

/-- NaN payloads are canonicalised (`nan`) on both sides of the comparison. -/
def showFloat (x : Float) : String := if x.isNaN then "nan" else hex16 x.toBits.toNat

def showFloats (l : List Float) : String := " ".intercalate (l.map showFloat)

/-- Parse `<n> <n floats>` from the front of the argument list. -/
def takeFloats (args : List String) : Option (List Float × List String) :=
  match args with
  | [] => none
  | ns :: rest =>
    match ns.toNat? with
    | none => none
    | some n =>
      if rest.length < n then none else
      match (rest.take n).mapM floatOfHex? with
      | some fs => some (fs, rest.drop n)
      | none => none

def showOutcome (r : Outcome Unit String) : String :=
  match r with
  | .ok s => s!"ok {s}"
  | .err _ => "err -"
  | .panic s => s!"panic {s}"

def mapOk {β γ : Type} (r : Outcome Unit β) (f : β → γ) : Outcome Unit γ :=
  match r with
  | .ok a => .ok (f a)
  | .err e => .err e
  | .panic s => .panic s

def lsAnswer (useFast : Bool) (offLo offHi laLo laHi : Nat) (rest : List String) : String :=
  match takeFloats rest with
  | none => "bad-request"
  | some (signal, rest2) =>
    match takeFloats rest2 with
    | some (resp, []) =>
      showOutcome (mapOk (lsDeconvWith floatOps useFast signal resp offLo offHi laLo laHi)
        fun inp => s!"{inp.length} {showFloats inp}".trimAscii.toString)
    | _ => "bad-request"

def handle (cmd : String) (args : List String) : Option String :=
  match cmd, args with
  | "deconv", mode :: offS :: laS :: rest =>
    match mode == "fast" || mode == "naive", offS.toNat?, laS.toNat?, takeFloats rest with
    | true, some off, some la, some (signal, rest2) =>
      match takeFloats rest2 with
      | some (resp, []) =>
        some (showOutcome (mapOk (nnGreedy floatOps (mode == "fast") signal resp off la)
          fun r => s!"{showFloat r.2.1} {showFloats r.2.2}".trimAscii.toString))
      | _ => some "bad-request"
    | _, _, _, _ => some "bad-request"
  | "ls", a :: b :: c :: d :: rest =>
    match a.toNat?, b.toNat?, c.toNat?, d.toNat? with
    | some offLo, some offHi, some laLo, some laHi => some (lsAnswer true offLo offHi laLo laHi rest)
    | _, _, _, _ => some "bad-request"
  | "lsn", a :: b :: c :: d :: rest =>
    match a.toNat?, b.toNat?, c.toNat?, d.toNat? with
    | some offLo, some offHi, some laLo, some laHi => some (lsAnswer false offLo offHi laLo laHi rest)
    | _, _, _, _ => some "bad-request"
  | "pad", rest => some (lsAnswer true 3 5 7 12 rest)
  | _, _ => none

end AlphaG.Driver.C17
