import AlphaG.Model.Matching
/-
Line-protocol handlers for C13:

* `ranges <0/1 string>` → `ok <k> s-e s-e …` (the ranges of `contiguous_ranges` in the model's
  order; the ring size is the length of the string, 256 for the detector)
* `w2c <wire>` → `ok <pad column>`; `c2w <pad column>` → `ok <first> <last>`
The avalanche rotation / mirror checks are implementation-against-implementation oracles of
the harness and need no request.
-/
namespace AlphaG.Driver.C13
open AlphaG AlphaG.Ranges AlphaG.Matching

def parseOcc (s : String) : Option (List Bool) :=
  s.toList.mapM fun c => if c == '1' then some true else if c == '0' then some false else none

def showRanges (rs : List (Nat × Nat)) : String :=
  (s!"{rs.length} " ++ " ".intercalate (rs.map fun r => s!"{r.1}-{r.2}")).trimAscii.toString

def handle (cmd : String) (args : List String) : Option String :=
  match cmd, args with
  | "ranges", [occ] =>
    match parseOcc occ with
    | some l => some s!"ok {showRanges (contiguousRanges l)}"
    | none => some "bad-request"
  | "w2c", [w] =>
    match w.toNat? with
    | some w => some s!"ok {wireToPadColumn w}"
    | none => some "bad-request"
  | "c2w", [c] =>
    match c.toNat? with
    | some c => some s!"ok {(padColumnToWires c).1} {(padColumnToWires c).2}"
    | none => some "bad-request"
  | _, _ => none

end AlphaG.Driver.C13
