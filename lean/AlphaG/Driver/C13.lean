import AlphaG.Model.Matching
import AlphaG.Driver.C17
/-
Line-protocol handlers for C13:

* `ranges <0/1 string>` → `ok <k> s-e s-e …` (the ranges of `contiguous_ranges` in the model's
  order; the ring size is the length of the string, 256 for the detector)
* `w2c <wire>` → `ok <pad column>`; `c2w <pad column>` → `ok <first> <last>`
* `match <first wire> <8 × (n floats…)> <k> <k × (row n floats…)>` → `ok <m> <m × (t wire z[nm]
  wire-amplitude pad-amplitude)>`: `match_column_inputs` on the wires `first..first+8` with the
  given deconvolved inputs and a pad column whose listed rows carry the given inputs (all other
  of the 576 rows empty). `z` is printed rounded to 1e-9 m (it goes through `ln`), amplitudes as
  bit patterns. The sorter of the driver is a stable insertion sort (cases have no ties).
The avalanche rotation / mirror checks are implementation-against-implementation oracles of
the harness and need no request.
-/
namespace AlphaG.Driver.C13
open AlphaG AlphaG.Ranges AlphaG.Matching AlphaG.Deconv AlphaG.Driver.C17

/-- The `f64` geometry: `PAD_PITCH_Z = DETECTOR_LENGTH / 576`, half length `0.5 * DETECTOR_LENGTH`. -/
def floatGeo : Geo Float where
  log := Float.log
  ofNat := Float.ofNat
  half := 0.5
  two := 2.0
  width := 2.304 / 576.0
  halfLength := 0.5 * 2.304

/-- Insert index `i` into a list of indices sorted by descending key (after equal keys). -/
def insertDesc (keys : Array Float) (i : Nat) : List Nat → List Nat
  | [] => [i]
  | j :: rest => if keys[j]! < keys[i]! then i :: j :: rest else j :: insertDesc keys i rest

/-- A stable descending sort as a permutation of indices. -/
def floatSorter : Sorter Float where
  perm := fun keys => (List.range keys.length).foldl (fun acc i => insertDesc keys.toArray i acc) []

/-- Parse `k` groups `<row> <n> <n floats>`. -/
def takeRows : Nat → List String → Option (List (Nat × List Float) × List String)
  | 0, rest => some ([], rest)
  | k + 1, r :: rest =>
    match r.toNat?, takeFloats rest with
    | some row, some (fs, rest2) =>
      match takeRows k rest2 with
      | some (rows, rest3) => some ((row, fs) :: rows, rest3)
      | none => none
    | _, _ => none
  | _ + 1, [] => none

def takeLists : Nat → List String → Option (List (List Float) × List String)
  | 0, rest => some ([], rest)
  | k + 1, rest =>
    match takeFloats rest with
    | some (fs, rest2) =>
      match takeLists k rest2 with
      | some (ls, rest3) => some (fs :: ls, rest3)
      | none => none
    | none => none

def showAvalanche (a : Avalanche Float) : String :=
  s!"{a.t} {a.wire} {(a.z * 1e9).round.toInt64} {showFloat a.wireAmp} {showFloat a.padAmp}"

def matchAnswer (args : List String) : String :=
  match args with
  | w0S :: rest =>
    match w0S.toNat?, takeLists 8 rest with
    | some w0, some (wireInputs, kS :: rest2) =>
      match kS.toNat? with
      | some k =>
        match takeRows k rest2 with
        | some (rows, []) =>
          let column := (List.range nRows).map fun r =>
            match rows.find? (·.1 == r) with
            | some p => p.2
            | none => []
          let av := matchColumn floatOps floatGeo floatSorter (List.range' w0 8) wireInputs column
          (s!"ok {av.length} " ++ " ".intercalate (av.map showAvalanche)).trimAscii.toString
        | _ => "bad-request"
      | none => "bad-request"
    | _, _ => "bad-request"
  | [] => "bad-request"

def parseOcc (s : String) : Option (List Bool) :=
  s.toList.mapM fun c => if c == '1' then some true else if c == '0' then some false else none

def showRanges (rs : List (Nat × Nat)) : String :=
  (s!"{rs.length} " ++ " ".intercalate (rs.map fun r => s!"{r.1}-{r.2}")).trimAscii.toString

def handle (cmd : String) (args : List String) : Option String :=
  match cmd, args with
  | "ranges", [occ] =>
    match parseOcc occ with
    | some l => some s!"ok {showRanges (contiguousRanges l)}"
    | none => some "bad-request"
  | "w2c", [w] =>
    match w.toNat? with
    | some w => some s!"ok {wireToPadColumn w}"
    | none => some "bad-request"
  | "c2w", [c] =>
    match c.toNat? with
    | some c => some s!"ok {(padColumnToWires c).1} {(padColumnToWires c).2}"
    | none => some "bad-request"
  | "match", rest => some (matchAnswer rest)
  | _, _ => none

end AlphaG.Driver.C13
