import AlphaG.Model.NelderMead
import AlphaG.Driver.C14b
/-
Line protocol for C14c (every `f64` is its bit pattern as 16 lowercase hex digits; answers print
`nan` for any NaN):

  fit <r phi z per point …>                    `Track::try_from(Cluster)` end to end
        → ok <x0 y0 z0 r phi0 h> <t_inner> <t_outer> | err NoInitialParameters | panic <site>
  fittrace <r phi z per point …>               the same, followed by the number of iterations and the
        → ok <8 values> <iters> <actions…>     actions taken (R E O I S), oldest first (model only;
                                                 not observable on the real side)
  vertexfit <x0 y0 z0 r phi0 h t_in t_out per track …>   `find_vertices` up to the fitted vertex
        → ok none | ok <x y z> <k> <canonical track index, t per track of the vertex …> | panic <site>
  trackcost <6 params> <r phi z per point …>   the cost function of track_fitting.rs
        → ok <cost> | panic <site>
  vertexcost <x y z> <8 values per track …>    the cost function of vertex_fitting.rs
        → ok <cost> | panic <site>
  nm2 <max_iters> <tol> <x y per vertex, 3 vertices>   the solver on `(x-1)² + (y-2)²` (model only)
        → ok <x y> <iters> <actions…>

`Float` `+ - * /`, `sqrt`, comparisons are IEEE; `sin cos atan2 hypot floor` are the C library's,
as in Driver/C14b (whose `tops`, `chypot`, parsing and printing are reused).
-/
namespace AlphaG.Driver.C14c
open AlphaG AlphaG.Helix AlphaG.TrackInit AlphaG.NelderMead
open AlphaG.Driver.C14b (tops fl? showF showFs chunks3 chunks8 dfltTrack canonIdx
  minTrackLength maxTrackBeamlineDca maxBeamlineClusteringDistance)

def fops : FOps Float where
  t := tops
  sqrt := Float.sqrt
  le := fun a b => a ≤ b
  isInf := Float.isInf
  signPos := fun x => x.toBits >>> 63 == 0
  isNaN := Float.isNaN
  half := 0.5
  inf := Float.ofBits 0x7FF0000000000000
  negInf := Float.ofBits 0xFFF0000000000000

/-- `f64::EPSILON` (Nelder–Mead `sd_tolerance` and `closest_t` tolerance of reconstruction.rs). -/
def epsilon : Float := Float.ofBits 0x3CB0000000000000
/-- `initial_simplex_delta`. -/
def delta : Float := 0.05
def maxSolverIters : Nat := 100
def maxClosestTIters : Nat := 20

def showAction : Action → String
  | .reflection => "R"
  | .expansion => "E"
  | .contractionOutside => "O"
  | .contractionInside => "I"
  | .shrink => "S"

def showTrack (t : TrackP Float) : String :=
  showFs [t.q.x0, t.q.y0, t.q.z0, t.q.r, t.q.phi0, t.q.h, t.tInner, t.tOuter]

def fitReal (pts : List (Point Float)) : Outcome FitError (TrackP Float) :=
  fitCluster fops maxSolverIters epsilon delta maxClosestTIters epsilon pts

/-- The final solver state of the track fit (for `fittrace`). -/
def fitState (pts : List (Point Float)) : Option (State Float) :=
  match fitInit tops delta pts with
  | .ok simplex =>
    match run fops.n (trackCost (ε := FitError) fops epsilon maxClosestTIters pts) epsilon maxSolverIters simplex with
    | .ok st => some st
    | _ => none
  | _ => none

def showOutcome {ε β : Type} (f : β → String) (e : ε → String) : Outcome ε β → String
  | .ok v => "ok " ++ f v
  | .err x => "err " ++ e x
  | .panic s => "panic " ++ s

def quadCost (p : List Float) : Outcome Unit Float :=
  .ok ((p.getD 0 0.0 - 1.0) * (p.getD 0 0.0 - 1.0) + (p.getD 1 0.0 - 2.0) * (p.getD 1 0.0 - 2.0))

def handle (cmd : String) (args : List String) : Option String :=
  match cmd with
  | "fit" =>
    match (args.mapM fl?).bind chunks3 with
    | some pts => some (showOutcome showTrack (fun _ => "NoInitialParameters") (fitReal pts))
    | none => some "bad-request"
  | "fittrace" =>
    match (args.mapM fl?).bind chunks3 with
    | some pts =>
      let tr := match fitState pts with
        | some st => " " ++ toString st.trace.length ++ " " ++ String.join (st.trace.reverse.map showAction)
        | none => ""
      some (showOutcome showTrack (fun _ => "NoInitialParameters") (fitReal pts) ++ tr)
    | none => some "bad-request"
  | "vertexfit" =>
    match (args.mapM fl?).bind chunks8 with
    | some ts =>
      let arr := ts.toArray
      match findVertexFit fops minTrackLength maxTrackBeamlineDca maxBeamlineClusteringDistance delta
          maxClosestTIters epsilon maxSolverIters epsilon arr dfltTrack with
      | .ok none => some "ok none"
      | .ok (some v) =>
        some ("ok " ++ showFs [v.position.1, v.position.2.1, v.position.2.2] ++ " " ++ toString v.cluster.length
          ++ String.join ((v.cluster.zip v.ts).map fun it => " " ++ toString (canonIdx arr it.1) ++ " " ++ showF it.2))
      | .err _ => some "err"
      | .panic s => some ("panic " ++ s)
    | none => some "bad-request"
  | "trackcost" =>
    match args.mapM fl? with
    | some (a :: b :: c :: d :: e :: f :: rest) =>
      match chunks3 rest with
      | some pts =>
        some (showOutcome showF (fun (_ : Unit) => "") (trackCost fops epsilon maxClosestTIters pts [a, b, c, d, e, f]))
      | none => some "bad-request"
    | _ => some "bad-request"
  | "vertexcost" =>
    match args.mapM fl? with
    | some (x :: y :: z :: rest) =>
      match chunks8 rest with
      | some ts => some (showOutcome showF (fun (_ : Unit) => "") (vertexCost fops epsilon maxClosestTIters ts [x, y, z]))
      | none => some "bad-request"
    | _ => some "bad-request"
  | "nm2" =>
    match args with
    | n :: rest =>
      match n.toNat?, rest.mapM fl? with
      | some iters, some [tol, x0, y0, x1, y1, x2, y2] =>
        match run fops.n quadCost tol iters [[x0, y0], [x1, y1], [x2, y2]] with
        | .ok st =>
          some ("ok " ++ showFs (st.bestParam.getD []) ++ " " ++ toString st.trace.length ++ " "
            ++ String.join (st.trace.reverse.map showAction))
        | .err _ => some "err"
        | .panic s => some ("panic " ++ s)
      | _, _ => some "bad-request"
    | _ => some "bad-request"
  | _ => none

end AlphaG.Driver.C14c
