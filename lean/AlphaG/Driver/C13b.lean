import AlphaG.Model.Avalanches
import AlphaG.Driver.C13
/-
Line-protocol handlers for the end-to-end model of `MainEvent::avalanches()` (C13/C17 chain):

* `avalanches <wire response> | <pad response> | <neighbour factors> | w<idx>:<samples> … |
  p<col>.<row>:<samples> …` → `ok <m> <m × (t wire z wire-amplitude pad-amplitude)>` in the
  model's order, or `panic <site>`. Every float list is a comma separated list of 16-digit hex
  bit patterns (`nan` for any NaN); an empty list is the empty string after the colon; an empty
  group is `-`. `z` and the amplitudes are printed as bit patterns. The sorter is the stable
  descending insertion sort of `Driver/C13.lean`, the geometry its `floatGeo`, `sqrt` is
  `Float.sqrt`.
* `avalanchesx <pad response> | w<idx>:<deconvolved input> … | p<col>.<row>:<samples> …` →
  `exact <m> <m × (…)>`: the same chain downstream of the wire deconvolution — the listed wires
  are the occupied ones and carry the *inputs* `wire_range_deconvolution` returned for them
  (`Params.deconvBlock` is the identity), pads are deconvolved by the model. Everything in this
  request is bit for bit and in the order of the returned `Vec`.
* `nfactors <neighbour factors>` → `ok` when the bit patterns are `neighbourFactorBits` (the
  constants `Props/C13b.lean` is about), else `err <the model's list>`.
* `cholsolve <neighbour factors> <y>` → `ok <x>`: `A·x = y` through the model's factorisation
  (`panic wires:cholesky-unwrap` on a failed pivot).
-/
namespace AlphaG.Driver.C13b
open AlphaG AlphaG.Deconv AlphaG.Ranges AlphaG.Matching AlphaG.Avalanches AlphaG.Driver.C17

/-- Comma separated float list (`-` or the empty string: empty). -/
def floats? (s : String) : Option (List Float) :=
  if s.isEmpty || s == "-" then some [] else (s.splitOn ",").mapM floatOfHex?

/-- Split the tokens at the `|` separators. -/
def groups (args : List String) : List (List String) :=
  (args.foldr (fun tok acc =>
    match acc with
    | [] => [[tok]]
    | grp :: rest => if tok == "|" then [] :: grp :: rest else (tok :: grp) :: rest) [[]]).map
    fun grp => grp.filter fun t => !(t.isEmpty || t == "-")

/-- The floats of a whole group (tokens may be split anywhere at spaces or commas). -/
def groupFloats? (grp : List String) : Option (List Float) :=
  (grp.mapM floats?).map List.flatten

/-- `w<idx>:<samples>` -/
def wireTok? (t : String) : Option (Nat × List Float) :=
  match t.splitOn ":" with
  | [head, samples] =>
    if head.startsWith "w" then
      match (head.drop 1).toString.toNat?, floats? samples with
      | some w, some fs => if w < nWires then some (w, fs) else none
      | _, _ => none
    else none
  | _ => none

/-- `p<col>.<row>:<samples>` -/
def padTok? (t : String) : Option ((Nat × Nat) × List Float) :=
  match t.splitOn ":" with
  | [head, samples] =>
    if head.startsWith "p" then
      match (head.drop 1).toString.splitOn "." with
      | [c, r] =>
        match c.toNat?, r.toNat?, floats? samples with
        | some c, some r, some fs => if c < nColumns ∧ r < nRows then some ((c, r), fs) else none
        | _, _, _ => none
      | _ => none
    else none
  | _ => none

def mkEvent (wires : List (Nat × List Float)) (pads : List ((Nat × Nat) × List Float)) :
    Event Float :=
  let wa : Array (Option (List Float)) :=
    wires.foldl (fun a p => a.set! p.1 (some p.2)) (Array.replicate nWires none)
  let pa : Array (Array (Option (List Float))) :=
    pads.foldl (fun a p => a.modify p.1.1 fun col => col.set! p.1.2 (some p.2))
      (Array.replicate nColumns (Array.replicate nRows none))
  { wires := fun w => wa.getD w none
    pads := fun c r => (pa.getD c #[]).getD r none }

def showAvalanche (a : Avalanche Float) : String :=
  s!"{a.t} {a.wire} {showFloat a.z} {showFloat a.wireAmp} {showFloat a.padAmp}"

def avalanchesAnswer (args : List String) : String :=
  match groups args with
  | [wr, pr, nf, ws, ps] =>
    match groupFloats? wr, groupFloats? pr, groupFloats? nf, ws.mapM wireTok?, ps.mapM padTok? with
    | some wireResp, some padResp, some factors, some wires, some pads =>
      let T : Tables Float := { wireResp, padResp, factors, sqrt := Float.sqrt }
      match run floatOps C13.floatGeo C13.floatSorter T (mkEvent wires pads) with
      | .ok av => (s!"ok {av.length} " ++ " ".intercalate (av.map showAvalanche)).trimAscii.toString
      | .err _ => "err -"
      | .panic site => s!"panic {site}"
    | _, _, _, _, _ => "bad-request"
  | _ => "bad-request"

/-- Downstream of the wire deconvolution: `deconvBlock` is the identity on the given inputs. -/
def exactAnswer (args : List String) : String :=
  match groups args with
  | [pr, ws, ps] =>
    match groupFloats? pr, ws.mapM wireTok?, ps.mapM padTok? with
    | some padResp, some wires, some pads =>
      let P : Params Float :=
        { deconvBlock := fun signals => signals
          padDeconv := fun signal => okD (Deconv.padDeconv floatOps padResp signal) [] }
      let ev := mkEvent wires pads
      let av := avalanchesShared floatOps C13.floatGeo C13.floatSorter P ev (assignments P ev)
      (s!"exact {av.length} " ++ " ".intercalate (av.map showAvalanche)).trimAscii.toString
    | _, _, _ => "bad-request"
  | _ => "bad-request"

def cholsolveAnswer (nf y : String) : String :=
  match floats? nf, floats? y with
  | some factors, some y =>
    match cholFactor floatOps Float.sqrt y.length (aTable floatOps factors y.length) with
    | some L => s!"ok {",".intercalate ((solveRow floatOps L y).map showFloat)}"
    | none => "panic wires:cholesky-unwrap"
  | _, _ => "bad-request"

def handle (cmd : String) (args : List String) : Option String :=
  match cmd, args with
  | "avalanches", rest => some (avalanchesAnswer rest)
  | "avalanchesx", rest => some (exactAnswer rest)
  | "nfactors", [nf] =>
    match floats? nf with
    | some fs =>
      if fs.map (·.toBits.toNat) == neighbourFactorBits then some "ok"
      else some s!"err {",".intercalate (neighbourFactorBits.map hex16)}"
    | none => some "bad-request"
  | "cholsolve", [nf, y] => some (cholsolveAnswer nf y)
  | _, _ => none

end AlphaG.Driver.C13b
