import AlphaG.Model.Chronobox
/-
Line-protocol handler for C07 (and the chronobox part of C01):

* `cbfifo <hex>` — one call of `chronobox_fifo` (the combinator-level model `Raw.chronoboxFifo`);
* `cbparse <hex>` — the same through the direct recursion `parse` (the theorems' subject);
* `cbfeed <hex>|<hex>|…` — the resume protocol `feedAll` over the pieces (`-` = empty piece);
* `cbchan <n>` — `ChannelId::try_from(n as u8)`; `cbboard <hex of the UTF-8 name>` — `BoardId::try_from`.

Answer: `ok <n entries> <ts:ch:edge:time | mk:top:counter>… rest=<hex>`.
-/
namespace AlphaG.Driver.C07
open AlphaG AlphaG.Chronobox

def bit (b : Bool) : String := if b then "1" else "0"

def showEntry : Entry → String
  | .ts ch e t => s!"ts:{ch}:{bit e}:{t}"
  | .marker top c => s!"mk:{bit top}:{c}"

def showResult (r : List Entry × List UInt8) : String :=
  String.intercalate " " (["ok", toString r.1.length] ++ r.1.map showEntry ++ [s!"rest={toHex r.2}"])

def parsePieces (s : String) : Option (List (List UInt8)) :=
  (s.splitOn "|").mapM parseHex

def handle (cmd : String) (args : List String) : Option String :=
  match cmd, args with
  | "cbfifo", [hex] =>
    match parseHex hex with
    | none => some "bad-request"
    | some b =>
      match Raw.chronoboxFifo b with
      | .ok r => some (showResult r)
      | .err _ => some "err"
      | .panic s => some s!"panic {s}"
  | "cbparse", [hex] =>
    match parseHex hex with
    | none => some "bad-request"
    | some b => some (showResult (parse b))
  | "cbfeed", [pieces] =>
    match parsePieces pieces with
    | none => some "bad-request"
    | some ps => some (showResult (feedAll ps))
  | "cbchan", [n] =>
    match n.toNat? with
    | none => some "bad-request"
    | some k =>
      match channelId k with
      | .ok c => some s!"ok {c}"
      | .err _ => some "err TryChannelIdFromUnsignedError"
      | .panic s => some s!"panic {s}"
  | "cbboard", [hex] =>
    match parseHex hex with
    | none => some "bad-request"
    | some b =>
      match String.fromUTF8? (ByteArray.mk b.toArray) with
      | none => some "bad-request"
      | some name =>
        match boardId name with
        | .ok n => some s!"ok {n}"
        | .err _ => some "err ParseBoardIdError"
        | .panic s => some s!"panic {s}"
  | _, _ => none

end AlphaG.Driver.C07
