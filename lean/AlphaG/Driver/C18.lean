import AlphaG.Model.Drift
import AlphaG.Generated.DriftTables
/-
Line-protocol handler for the drift lookup (f64 arguments/results as 16 hex digits of the bit
pattern; any NaN result is printed as `nan`):
  `drift <z> <t>`    -> `ok <r> <corr>` | `err Z` | `err T` | `panic <site>`
  `sp <z> <t> <phi>` -> `ok <r> <phi> <z>` | …
  `step <z> <t>`     -> `ok <r(t)> <r(t + 8e-9)>` | … (first failing lookup's answer)
-/
namespace AlphaG.Driver.C18
open AlphaG AlphaG.Drift

/-- The generated bit patterns read as IEEE doubles. -/
def floatTables : List (Slice Float) :=
  tablesOfBits (fun n => Float.ofBits (UInt64.ofNat n)) AlphaG.Generated.driftBits

def parseBitsAux : List Char → Nat → Option Nat
  | [], acc => some acc
  | c :: rest, acc =>
    match hexDigit? c with
    | some d => parseBitsAux rest (acc * 16 + d)
    | none => none

def parseBits (s : String) : Option Float :=
  if s.length ≠ 16 then none else
  (parseBitsAux s.toList 0).map fun n => Float.ofBits (UInt64.ofNat n)

def hex16 (n : Nat) : String :=
  String.ofList ((List.range 16).map fun i => hexChar ((n >>> (4 * (15 - i))) % 16))

def showF (x : Float) : String :=
  if x.isNaN then "nan" else hex16 x.toBits.toNat

def errName : Err → String
  | .driftTimeOutOfRange => "T"
  | .axialPositionOutOfRange => "Z"

def handle (cmd : String) (args : List String) : Option String :=
  match cmd, args with
  | "drift", [zs, ts] =>
    match parseBits zs, parseBits ts with
    | some z, some t =>
      match tablesAt floatOps floatTables z t with
      | .ok rc => some s!"ok {showF rc.1} {showF rc.2}"
      | .err e => some s!"err {errName e}"
      | .panic s => some s!"panic {s}"
    | _, _ => some "bad-request"
  | "sp", [zs, ts, ps] =>
    match parseBits zs, parseBits ts, parseBits ps with
    | some z, some t, some p =>
      match spacePoint floatOps floatTables { t := t, phi := p, z := z } with
      | .ok sp => some s!"ok {showF sp.r} {showF sp.phi} {showF sp.z}"
      | .err e => some s!"err {errName e}"
      | .panic s => some s!"panic {s}"
    | _, _, _ => some "bad-request"
  | "step", [zs, ts] =>
    match parseBits zs, parseBits ts with
    | some z, some t =>
      match tablesAt floatOps floatTables z t with
      | .err e => some s!"err {errName e}"
      | .panic s => some s!"panic {s}"
      | .ok a =>
        match tablesAt floatOps floatTables z (t + 8e-9) with
        | .err e => some s!"err {errName e}"
        | .panic s => some s!"panic {s}"
        | .ok b => some s!"ok {showF a.1} {showF b.1}"
    | _, _ => some "bad-request"
  | _, _ => none

end AlphaG.Driver.C18
