import AlphaG.Model.Hough
import Std.Data.HashMap
/-
Line-protocol handler for the concrete Hough/clustering model (C15b). `f64` values travel as
hexadecimal bit patterns.

  bins <r> <phi> <z> <rho_bins> <theta_bins>
      → `ok <theta>:<rho>,…` (the bins of `get_bins` in order, `-` when empty) | `panic <site>`
  dist <r1> <phi1> <z1> <r2> <phi2> <z2> <max>
      → `ok <bits of p.distance(q)> <bits of q.distance(p)> <p near q> <q near p>` (0/1)
  clusterx <min> <rho_bins> <theta_bins> <max> <points>
      → `ok c=<cluster>|<cluster>… r=<remainder>`; `<points>` is `-` or `,`-separated
        `r:phi:z`; points are printed as the smallest input index holding an `==` point
        (as in `cluster`, C15), lists `,`-separated, `-` when empty. Everything (bins,
        adjacency, `==`) is computed by the model from the points alone.
  clusterx-id …   the same with the identity renaming of bin codes (linear key lookup; small
                  clouds only) — cross-checks that the ranking below does not matter.
  casti32 <x>     → `ok <(x.floor() as i32)>`
  consts          → `ok <FULL_TURN bits> <RHO_MAX bits>`
  eqlaws <a> <a'> <b> <c>  → `ok` | `fail <law>`: the carrier laws of `EqCompat`/`SubSqSymm`
                  (Props/C15b) evaluated on `Float` for `a ≈ a'` (skipped → `ok` when not `≈`).
-/
namespace AlphaG.Driver.C15b
open AlphaG AlphaG.Cluster AlphaG.Hough

/-- `f64`. `Float.toInt32` saturates and maps NaN to 0, as Rust's `as i32`. -/
def floatOps : Ops Float where
  add := (· + ·)
  sub := (· - ·)
  mul := (· * ·)
  div := (· / ·)
  sqrt := Float.sqrt
  sin := Float.sin
  cos := Float.cos
  ofU32 := Float.ofNat
  floorI32 := fun x => (Float.floor x).toInt32.toInt
  le := fun a b => decide (a ≤ b)
  beq := fun a b => a == b
  fullTurn := 2.0 * Float.ofBits 0x400921FB54442D18
  rhoMax := 1.0 / Float.ofBits 0x3FBBF487FCB923A3

/-! ### Ranking of bin codes by first appearance

An injective renaming (`rank_injOn`, Props/C15b) under which the accumulator of
`Model/Cluster.lean` takes its O(1) lookup path (`dense`). -/

def rankStep (m : Std.HashMap Nat Nat) (c : Nat) : Std.HashMap Nat Nat :=
  if m.contains c then m else m.insert c m.size

def rankMap (codes : List Nat) : Std.HashMap Nat Nat := codes.foldl rankStep {}

/-- The renaming. (Handlers bind `rankMap codes` once and pass `fun c => m.getD c 0`, which is
this function; written as a two-argument definition it would rebuild the map per call.) -/
def rankFn (codes : List Nat) : Nat → Nat := fun c => (rankMap codes).getD c 0

/-- All bin codes of all points, in the order `accumulator.add` meets them. -/
def allCodes (prm : Params Float) (pts : Array (Point Float)) : List Nat :=
  pts.toList.flatMap (binCodes floatOps prm)

/-! ### Parsing / printing -/

def parseHexNat (s : String) : Option Nat :=
  if s.isEmpty then none else
  s.toList.foldlM (fun acc c => (hexDigit? c).map (fun d => acc * 16 + d)) 0

def fl? (s : String) : Option Float := (parseHexNat s).map (fun n => Float.ofBits n.toUInt64)

def hexOf (n : Nat) : String := String.ofList (Nat.toDigits 16 n)

def bitsOf (x : Float) : String := hexOf x.toBits.toNat

def parsePoint (s : String) : Option (Point Float) :=
  match (s.splitOn ":").mapM fl? with
  | some [r, phi, z] => some ⟨r, phi, z⟩
  | _ => none

def parsePoints (s : String) : Option (Array (Point Float)) :=
  if s == "-" then some #[] else ((s.splitOn ",").mapM parsePoint).map List.toArray

def showList (l : List Nat) : String :=
  if l.isEmpty then "-" else ",".intercalate (l.map toString)

def showBins (l : List (Nat × Nat)) : String :=
  if l.isEmpty then "-" else ",".intercalate (l.map (fun b => s!"{b.1}:{b.2}"))

/-- `cls[i]` = smallest `j` with `pts[j] == pts[i]`. -/
def classes (pts : Array (Point Float)) : Array Nat :=
  (Array.range pts.size).map (fun i =>
    match pts[i]? with
    | none => i
    | some p => ((List.range i).find? (fun j =>
        match pts[j]? with
        | some q => pointBeq floatOps q p
        | none => false)).getD i)

def showResult (cls : Array Nat) (r : Result) : String :=
  let rep := fun i => cls.getD i i
  let cs := if r.clusters.isEmpty then "-" else
    "|".intercalate (r.clusters.map (fun c => showList (c.map rep)))
  s!"ok c={cs} r={showList (r.remainder.map rep)}"

def handleClusterX (ranked : Bool) (minS rbS tbS maxS ptsS : String) : String :=
  match minS.toNat?, rbS.toNat?, tbS.toNat?, fl? maxS, parsePoints ptsS with
  | some min, some rb, some tb, some maxd, some pts =>
    let prm : Params Float := ⟨rb, tb, maxd⟩
    let m := rankMap (if ranked then allCodes prm pts else [])
    let ren : Nat → Nat := if ranked then (fun c => m.getD c 0) else id
    match clusterX floatOps ren prm min pts with
    | .ok r => showResult (classes pts) r
    | .err _ => "err -"
    | .panic s => s!"panic {s}"
  | _, _, _, _, _ => "bad-request"

/-! ### The carrier laws of Props/C15b sampled on `Float` -/

/-- The relation `E` proposed for `Float`: same bits, or both zeros, or both NaN. -/
def feq (a b : Float) : Bool :=
  a.toBits == b.toBits || (a == 0.0 && b == 0.0) || (a.isNaN && b.isNaN)

def eqLaws (a a' b c : Float) : String :=
  let o := floatOps
  -- `a == a'` must imply `a ≈ a'`
  if (a == a') && !(feq a a') then "fail of_beq"
  else if !(feq a a') then "ok"
  else if !(feq (o.mul a b) (o.mul a' b)) then "fail mul_left"
  else if !(feq (o.mul b a) (o.mul b a')) then "fail mul_right"
  else if !(feq (o.mul a a) (o.mul a' a')) then "fail mul_both"
  else if (a == a') && (o.mul a a).toBits != (o.mul a' a').toBits then "fail mul_self"
  else if !(feq (o.add a b) (o.add a' b)) then "fail add_left"
  else if !(feq (o.add b a) (o.add b a')) then "fail add_right"
  else if !(feq (o.add a a) (o.add a' a')) then "fail add_both"
  else if !(feq (o.div a c) (o.div a' c)) then "fail div_left"
  else if !(feq (o.sin a) (o.sin a')) then "fail sin"
  else if !(feq (o.cos a) (o.cos a')) then "fail cos"
  else if o.floorI32 a != o.floorI32 a' then "fail floor"
  -- `(a-b)² = (b-a)²` bit for bit unless the result is NaN
  else if !(sq o (o.sub a b)).isNaN &&
      (sq o (o.sub a b)).toBits != (sq o (o.sub b a)).toBits then "fail sub_sq_symm"
  else "ok"

def handle (cmd : String) (args : List String) : Option String :=
  match cmd, args with
  | "bins", [r, phi, z, rb, tb] =>
    match fl? r, fl? phi, fl? z, rb.toNat?, tb.toNat? with
    | some r, some phi, some z, some rb, some tb =>
      match getBins floatOps ⟨r, phi, z⟩ rb tb with
      | .ok l => some s!"ok {showBins l}"
      | .err _ => some "err -"
      | .panic s => some s!"panic {s}"
    | _, _, _, _, _ => some "bad-request"
  | "dist", _ =>
    match args.mapM fl? with
    | some [r1, p1, z1, r2, p2, z2, maxd] =>
      let p : Point Float := ⟨r1, p1, z1⟩
      let q : Point Float := ⟨r2, p2, z2⟩
      let b := fun (x : Bool) => if x then "1" else "0"
      some s!"ok {bitsOf (distance floatOps p q)} {bitsOf (distance floatOps q p)} {b (near floatOps maxd p q)} {b (near floatOps maxd q p)}"
    | _ => some "bad-request"
  | "clusterx", [minS, rbS, tbS, maxS, ptsS] => some (handleClusterX true minS rbS tbS maxS ptsS)
  | "clusterx-id", [minS, rbS, tbS, maxS, ptsS] =>
    some (handleClusterX false minS rbS tbS maxS ptsS)
  | "casti32", [x] =>
    match fl? x with
    | some x => some s!"ok {floatOps.floorI32 x}"
    | none => some "bad-request"
  | "consts", [] => some s!"ok {bitsOf floatOps.fullTurn} {bitsOf floatOps.rhoMax}"
  | "eqlaws", _ =>
    match args.mapM fl? with
    | some [a, a', b, c] => some (eqLaws a a' b c)
    | _ => some "bad-request"
  | _, _ => none

end AlphaG.Driver.C15b
