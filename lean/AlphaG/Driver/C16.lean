import AlphaG.Model.Helix
/-
Line protocol for C16 (f64 bit patterns as decimal u64):
  closest <x0> <y0> <z0> <r> <phi0> <h> <pr> <pphi> <pz> <tol> <iters> → t <bits> d <bits of distance²>
  helixat <x0> <y0> <z0> <r> <phi0> <h> <t>                           → at <xbits> <ybits> <zbits>
`hypot` is `sqrt(x² + y²)` here (Lean's `Float` has no `hypot`); the comparison is therefore to
1e-9, not bit-exact.
-/
namespace AlphaG.Driver.C16
open AlphaG.Helix

def floatOps : HOps Float where
  add := (· + ·)
  sub := (· - ·)
  mul := (· * ·)
  div := (· / ·)
  neg := fun x => -x
  abs := Float.abs
  lt := fun a b => a < b
  sin := Float.sin
  cos := Float.cos
  atan2 := Float.atan2
  hypot := fun x y => Float.sqrt (x * x + y * y)
  floor := Float.floor
  zero := 0.0
  one := 1.0
  two := 2.0
  four := 4.0
  pi := Float.ofBits 0x400921FB54442D18
  eps := Float.ofBits 0x3CB0000000000000

def fl? (s : String) : Option Float := s.toNat?.map (fun n => Float.ofBits n.toUInt64)

def distSq (q : Params Float) (p : Point Float) (t : Float) : Float :=
  let a := helixAt floatOps q t
  let dx := a.1 - px floatOps p
  let dy := a.2.1 - py floatOps p
  let dz := a.2.2 - p.z
  dx * dx + dy * dy + dz * dz

def handle (cmd : String) (args : List String) : Option String :=
  match cmd with
  | "closest" =>
    match args.mapM fl?, args.getLast?.bind String.toNat? with
    | some [x0, y0, z0, r, phi0, h, pr, pphi, pz, tol, _], some iters =>
      let q : Params Float := ⟨x0, y0, z0, r, phi0, h⟩
      let p : Point Float := ⟨pr, pphi, pz⟩
      let t := closestT floatOps q p tol iters
      some s!"t {t.toBits} d {(distSq q p t).toBits}"
    | _, _ => some "bad-request"
  | "helixat" =>
    match args.mapM fl? with
    | some [x0, y0, z0, r, phi0, h, t] =>
      let a := helixAt floatOps ⟨x0, y0, z0, r, phi0, h⟩ t
      some s!"at {a.1.toBits} {a.2.1.toBits} {a.2.2.toBits}"
    | _ => some "bad-request"
  | _ => none

end AlphaG.Driver.C16
