import AlphaG.Model.TrackInit
/-
Line protocol for C14b (every `f64` is its bit pattern as 16 lowercase hex digits; answers print
`nan` for any NaN so that NaN payloads never matter):

  template <r phi z per point …>             → ok <r phi z of first, middle, last> | err NoInitialParameters | panic <site>
  circle <x1 y1 x2 y2 x3 y3>                  → ok <x0 y0 r>
  com <r phi z per point …>                   → ok <x y z>
  trackinit <delta> <r phi z per point …>     → ok <7 rows × 6 entries, row major> | err NoInitialParameters | panic <site>
  beamline <maxdist> <x0 y0 z0 r phi0 h t_in t_out per track …>
                                              → ok <k> then per cluster: <size> <canonical track indices…> <mean z>
                                                | panic <site>
  vertexinit <delta> <8 values per track …>   → ok none | ok <4 rows × 3 entries> | panic <site>
                                                (`find_vertices` with the constants of reconstruction.rs)

The only function that is not Lean's own `Float` API is `hypot`: Lean 4.33 has no `Float.hypot`, so
it is bound to the C library's `hypot` exactly the way core binds `Float.atan2` (`@[extern]` on an
`opaque` constant) — the same libm function Rust's `f64::hypot` calls on this platform.
-/
namespace AlphaG.Driver.C14b
open AlphaG AlphaG.Helix AlphaG.TrackInit

@[extern "hypot"] opaque chypot : Float → Float → Float

def hops : HOps Float where
  add := (· + ·)
  sub := (· - ·)
  mul := (· * ·)
  div := (· / ·)
  neg := fun x => -x
  abs := Float.abs
  lt := fun a b => a < b
  sin := Float.sin
  cos := Float.cos
  atan2 := Float.atan2
  hypot := chypot
  floor := Float.floor
  zero := 0.0
  one := 1.0
  two := 2.0
  four := 4.0
  pi := Float.ofBits 0x400921FB54442D18
  eps := Float.ofBits 0x3CB0000000000000

/-- `f64::partial_cmp`. -/
def fcmp (a b : Float) : Option Ordering :=
  if a < b then some .lt else if a == b then some .eq else if b < a then some .gt else none

def tops : TOps Float where
  h := hops
  eq := fun a b => a == b
  cmp := fcmp
  ofNat := fun n => n.toFloat
  negZero := Float.ofBits 0x8000000000000000
  simplexDefault := 0.00025

/-- The literal arguments of `reconstruction::find_vertices`:
`Length::new::<centimeter>(v)` is `(v + -0.0) * 1.0e-2 / 1.0`. -/
def minTrackLength : Float := 3.5 * 1.0e-2
def maxTrackBeamlineDca : Float := 5.3 * 1.0e-2
def maxBeamlineClusteringDistance : Float := 3.4 * 1.0e-2

/-! ### parsing / printing -/

def hexDigit? (c : Char) : Option Nat :=
  if '0' ≤ c ∧ c ≤ '9' then some (c.toNat - '0'.toNat)
  else if 'a' ≤ c ∧ c ≤ 'f' then some (c.toNat - 'a'.toNat + 10)
  else none

def hex? (s : String) : Option Nat :=
  if s.isEmpty then none
  else s.toList.foldlM (fun acc c => (hexDigit? c).map (fun d => acc * 16 + d)) 0

def fl? (s : String) : Option Float :=
  (hex? s).bind (fun n => if n < 2 ^ 64 then some (Float.ofBits n.toUInt64) else none)

def hexChar (n : Nat) : Char := if n < 10 then Char.ofNat (48 + n) else Char.ofNat (87 + n)

def hex16 (n : Nat) : String :=
  String.ofList ((List.range 16).map (fun i => hexChar ((n / 16 ^ (15 - i)) % 16)))

def showF (x : Float) : String := if x.isNaN then "nan" else hex16 x.toBits.toNat

def showFs (l : List Float) : String := " ".intercalate (l.map showF)

def chunks3 : List Float → Option (List (Point Float))
  | [] => some []
  | r :: p :: z :: rest => (chunks3 rest).map (fun l => ⟨r, p, z⟩ :: l)
  | _ => none

def chunks8 : List Float → Option (List (TrackP Float))
  | [] => some []
  | x0 :: y0 :: z0 :: r :: phi0 :: h :: ti :: to :: rest =>
    (chunks8 rest).map (fun l => ⟨⟨x0, y0, z0, r, phi0, h⟩, ti, to⟩ :: l)
  | _ => none

def showPoint (p : Point Float) : String := showFs [p.r, p.phi, p.z]

def showFit {β : Type} (f : β → String) : Outcome FitError β → String
  | .ok v => "ok " ++ f v
  | .err .NoInitialParameters => "err NoInitialParameters"
  | .panic s => "panic " ++ s

def dfltTrack : TrackP Float := ⟨⟨0.0, 0.0, 0.0, 0.0, 0.0, 0.0⟩, 0.0, 0.0⟩

def bitsOfTrack (t : TrackP Float) : List UInt64 :=
  [t.q.x0, t.q.y0, t.q.z0, t.q.r, t.q.phi0, t.q.h, t.tInner, t.tOuter].map Float.toBits

/-- Smallest index whose track has the same bit patterns (identical tracks are interchangeable). -/
def canonIdx (ts : Array (TrackP Float)) (i : Nat) : Nat :=
  match (List.range ts.size).find? (fun j => bitsOfTrack (ts.getD j dfltTrack) == bitsOfTrack (ts.getD i dfltTrack)) with
  | some j => j
  | none => i

def handle (cmd : String) (args : List String) : Option String :=
  match cmd with
  | "template" =>
    match (args.mapM fl?).bind chunks3 with
    | some pts =>
      some (showFit (fun (t : Point Float × Point Float × Point Float) =>
        showPoint t.1 ++ " " ++ showPoint t.2.1 ++ " " ++ showPoint t.2.2) (threeTemplatePoints tops pts))
    | none => some "bad-request"
  | "circle" =>
    match args.mapM fl? with
    | some [x1, y1, x2, y2, x3, y3] =>
      let c := circleThrough tops (x1, y1) (x2, y2) (x3, y3)
      some ("ok " ++ showFs [c.1, c.2.1, c.2.2])
    | _ => some "bad-request"
  | "com" =>
    match (args.mapM fl?).bind chunks3 with
    | some pts =>
      let c := centerOfMass tops pts
      some ("ok " ++ showFs [c.1, c.2.1, c.2.2])
    | none => some "bad-request"
  | "trackinit" =>
    match args.mapM fl? with
    | some (delta :: rest) =>
      match chunks3 rest with
      | some pts => some (showFit (fun (s : List (List Float)) => showFs s.flatten) (fitInit tops delta pts))
      | none => some "bad-request"
    | _ => some "bad-request"
  | "beamline" =>
    match args.mapM fl? with
    | some (maxDist :: rest) =>
      match chunks8 rest with
      | some ts =>
        let arr := ts.toArray
        match beamlineClusters tops maxDist arr dfltTrack with
        | .ok cls =>
          some (" ".intercalate (("ok " ++ toString cls.length) ::
            cls.map (fun c => " ".intercalate (toString c.1.length :: c.1.map (fun i => toString (canonIdx arr i)))
              ++ " " ++ showF c.2)))
        | .err _ => some "err"
        | .panic s => some ("panic " ++ s)
      | none => some "bad-request"
    | _ => some "bad-request"
  | "vertexinit" =>
    match args.mapM fl? with
    | some (delta :: rest) =>
      match chunks8 rest with
      | some ts =>
        match vertexInit tops minTrackLength maxTrackBeamlineDca maxBeamlineClusteringDistance delta ts.toArray dfltTrack with
        | .ok none => some "ok none"
        | .ok (some (_, s)) => some ("ok " ++ showFs s.flatten)
        | .err _ => some "err"
        | .panic s => some ("panic " ++ s)
      | none => some "bad-request"
    | _ => some "bad-request"
  | "c14bconsts" =>
    some ("ok " ++ showFs [minTrackLength, maxTrackBeamlineDca, maxBeamlineClusteringDistance, tops.simplexDefault])
  | _ => none

end AlphaG.Driver.C14b
