import AlphaG.Model.Trg
/-
Line-protocol handler for `trg <hex>` (and `trgenc <hex>`: re-encode the decoded packet).
-/
namespace AlphaG.Driver.C06
open AlphaG AlphaG.Trg

def errName : Err → String
  | .sliceLengthMismatch => "SliceLengthMismatch"
  | .headerMaskMismatch => "HeaderMaskMismatch"
  | .footerMaskMismatch => "FooterMaskMismatch"
  | .trigOutMismatch => "TrigOutMismatch"
  | .badTrigIn => "BadTrigIn"
  | .badDriftCounter => "BadDriftCounter"
  | .badScaledownCounter => "BadScaledownCounter"
  | .zeroMismatch => "ZeroMismatch"

def showPacket (p : Packet) : String :=
  s!"{p.udpCounter} {p.timestamp} {p.outputCounter} {p.inputCounter} {p.pulserCounter} {p.triggerBitmap} {p.nimBitmap} {p.esataBitmap} {if p.satisfiedMlu then 1 else 0} {p.aw16Prompt} {p.driftVetoCounter} {p.scaledownCounter} {p.aw16Multiplicity} {p.aw16Bus} {p.bsc64Bus} {p.bsc64Multiplicity} {p.coincidenceLatch} {p.firmwareRevision}"

def handle (cmd : String) (args : List String) : Option String :=
  match cmd, args with
  | "trg", [hex] =>
    match parseHex hex with
    | none => some "bad-request"
    | some b =>
      match decode b with
      | .ok p => some s!"ok {showPacket p} {toHex (encode p)}"
      | .err e => some s!"err {errName e}"
      | .panic s => some s!"panic {s}"
  | _, _ => none

end AlphaG.Driver.C06
