import AlphaG.Model.BankName
import AlphaG.Model.Maps
import AlphaG.Lemmas.MapsArms
import AlphaG.Lemmas.MapsTables
/-
Line-protocol handler of C08 (and the bank-name part of C01):

  bank <utf8-hex>                 MainEventBankName::try_from  → ok <kind> <board|-> <channel|-> | err V | panic site
  bankx <parser> <utf8-hex>       the sub-parsers (adc16 adc32 alpha16 padwing trigger trb3 seq2 mcvx)
  cbbank <utf8-hex>               ChronoboxBankName::try_from  → ok <board name>
  seq2bank <utf8-hex>             Seq2BankName::try_from       → ok
  eventid <n>                     EventId::try_from(u16)       → ok <Variant>
  wire <run> <a16 board> <ch>     TpcWirePosition::try_new     → ok <wire>
  pwbpos <run> <pwb board>        TpcPwbPosition::try_new      → ok <col> <row>
  padinpwb <chip> <padch>         PwbPadPosition::try_new      → ok <col> <row>
  pad <run> <pwb board> <chip> <padch>  TpcPadPosition::try_new → ok <col> <row>
  wiremap <run> <b,b,…> / pwbmap <run> <b,b,…> / padmap <run> <pwb board>   aggregated: one token per element
  w2c <wire> / c2w <col> / phiidx <wire>
  caldispatch <which> <run>       → ok <arm index> table <static> <file> | ok <arm index> value <n> | err V
  calhas <which> <run>            → some [<n>] | none
  c08check                        executable versions of the kernel obligations (diagnosis)
-/
namespace AlphaG.Driver.C08
open AlphaG AlphaG.Generated AlphaG.BankName AlphaG.Maps

def a16ErrName : A16Err → String
  | .patternMismatch => "PatternMismatch"
  | .unknownBoardId => "UnknownBoardId"
  | .unknownChannelId => "UnknownChannelId"

def pwbErrName : PwbErr → String
  | .patternMismatch => "PatternMismatch"
  | .unknownBoardId => "UnknownBoardId"

def mainErrName : MainErr → String
  | .patternMismatch => "PatternMismatch"
  | .badAlpha16 e => "BadAlpha16." ++ a16ErrName e
  | .badPadwing e => "BadPadwing." ++ pwbErrName e
  | .badTrigger => "BadTrigger"
  | .badTrb3 => "BadTrb3"
  | .badMcVertex => "BadMcVertex"

def showName (n : Name) : String :=
  match n.kind with
  | .adc16 => s!"adc16 {a16BoardName n.board} {n.channel}"
  | .adc32 => s!"adc32 {a16BoardName n.board} {n.channel}"
  | .padwing => s!"padwing {pwbBoardName n.board} -"
  | .trg => "trg - -"
  | .trb3 => "trb3 - -"
  | .mcvx => "mcvx - -"

def render {ε α : Type} (fe : ε → String) (fa : α → String) : Outcome ε α → String
  | .ok a => let t := fa a; if t.isEmpty then "ok" else s!"ok {t}"
  | .err e => s!"err {fe e}"
  | .panic s => s!"panic {s}"

/-- Decode a hex argument into a string (the harness only sends valid UTF-8). -/
def hexString (hex : String) : Option String :=
  match parseHex hex with
  | none => none
  | some b => String.fromUTF8? (ByteArray.mk b.toArray)

def pair (p : Nat × Nat) : String := s!"{p.1} {p.2}"

def subParser (which : String) (cs : List Nat) : Option String :=
  match which with
  | "adc16" => some (render a16ErrName (fun p => s!"adc16 {a16BoardName p.1} {p.2}") (adc16Name cs))
  | "adc32" => some (render a16ErrName (fun p => s!"adc32 {a16BoardName p.1} {p.2}") (adc32Name cs))
  | "alpha16" => some (render a16ErrName showName (alpha16Name cs))
  | "padwing" => some (render pwbErrName (fun b => s!"padwing {pwbBoardName b} -") (padwingName cs))
  | "trigger" => some (render (fun _ => "PatternMismatch") (fun _ => "") (literalName triggerName cs))
  | "trb3" => some (render (fun _ => "PatternMismatch") (fun _ => "") (literalName trb3Name cs))
  | "seq2" => some (render (fun _ => "PatternMismatch") (fun _ => "") (seq2BankName cs))
  | "mcvx" => some (render (fun _ => "PatternMismatch") (fun _ => "") (literalName mcVertexName cs))
  | _ => none

/-- One token of an aggregated answer. -/
def tok {α : Type} (fa : α → String) : Outcome String α → String
  | .ok a => fa a
  | .err e => "e:" ++ e
  | .panic s => "p:" ++ s

def cpair (p : Nat × Nat) : String := s!"{p.1},{p.2}"

/-- `wiremap <run> <b,b,…>`: the listed boards × channels 0..31 (`none`: unknown board). -/
def wireMapLine (run : Nat) (boards : List String) : Option String :=
  (boards.mapM a16BoardIdx).map fun bs =>
    " ".intercalate (bs.flatMap fun b => (List.range 32).map fun ch => tok toString (wirePosition run b ch))

/-- `pwbmap <run> <b,b,…>`: the listed PadWing boards. -/
def pwbMapLine (run : Nat) (boards : List String) : Option String :=
  (boards.mapM pwbBoardIdx).map fun bs =>
    " ".intercalate (bs.map fun b => tok cpair (pwbPosition run b))

/-- `padmap <run> <board>`: chips 0..3 × pad channels 1..72. -/
def padMapLine (run board : Nat) : String :=
  " ".intercalate ((List.range 4).flatMap fun chip =>
    (List.range 72).map fun i => tok cpair (padPosition run board chip (i + 1)))

/-- `c08check`: the executable versions of the kernel obligations of Props/C08Maps.lean, one
`name=true|false` token each, with the offending element when one fails (used to find the
colliding pair / missing element after a failed `decide`). -/
def checkLine : String :=
  let b (x : Bool) : String := if x then "true" else "false"
  let wires := preampTables.flatMap fun t => channelTables.map fun c =>
    s!"wire[{t.1},{c.1}]={b (wireTablesOk t.2 c.2)}"
  let pwbs := pwbTables.map fun t =>
    let badCell := (List.range 64).find? fun k =>
      match pwbAt t.2 k with
      | some bd => !(decide (bd < padwingBoards.length) && (pwbLookup t.2 bd == some (k / 8, k % 8)))
      | none => true
    s!"pwb[{t.1}]={b (pwbTableOk t.2)}" ++
      (match badCell with
       | some k => s!"(cell {k / 8},{k % 8} `{(pwbFlat t.2).getD k "?"}`)"
       | none => "")
  let arms (nm : String) (a : Arms) : List String :=
    let shadowed := (List.range a.length).filter fun i =>
      !((0 :: cutsOf a).any fun c => dispatchIdx a c == some i)
    [s!"split[{nm}]@{firstMapRun a}={b (armsSplitAt a (firstMapRun a))}",
     s!"shadowed[{nm}]={shadowed}"]
  let padBad := (List.range 288).filter fun i => padEnc i ≥ 288
  " ".intercalate (wires ++ pwbs ++ [s!"pads={b padOk}", s!"padsBad={padBad}"]
    ++ arms "wirePreamp" wirePreampArms ++ arms "wireChannel" wireChannelArms ++ arms "pwb" pwbArms
    ++ calArms.flatMap fun c => arms c.1 c.2.1)

def showRhs (maps : List (String × String)) : Nat × ArmRhs → String
  | (i, .table j) =>
    let m := maps.getD j ("?", "?")
    s!"ok {i} table {m.1} {m.2}"
  | (i, .value n) => s!"ok {i} value {n}"
  | (_, .err v) => s!"err {v}"

def handle (cmd : String) (args : List String) : Option String :=
  match cmd, args with
  | "bank", [hex] =>
    match hexString hex with
    | none => some "bad-request"
    | some s => some (render mainErrName showName (parseBankName s))
  | "bankx", [which, hex] =>
    match hexString hex with
    | none => some "bad-request"
    | some s => some ((subParser which (codes s)).getD "bad-request")
  | "cbbank", [hex] =>
    match hexString hex with
    | none => some "bad-request"
    | some s => some (render (fun _ => "PatternMismatch") (fun i => chronoboxNames.getD i "?")
        (parseChronoboxBankName s))
  | "seq2bank", [hex] =>
    match hexString hex with
    | none => some "bad-request"
    | some s => some (render (fun _ => "PatternMismatch") (fun _ => "") (parseSeq2BankName s))
  | "eventid", [n] =>
    match n.toNat? with
    | none => some "bad-request"
    | some n => some (render (fun _ => "Unknown") id (eventId n))
  | "wire", [run, board, ch] =>
    match run.toNat?, a16BoardIdx board, ch.toNat? with
    | some run, some b, some ch => some (render id toString (wirePosition run b ch))
    | _, _, _ => some "bad-request"
  | "pwbpos", [run, board] =>
    match run.toNat?, pwbBoardIdx board with
    | some run, some b => some (render id pair (pwbPosition run b))
    | _, _ => some "bad-request"
  | "padinpwb", [chip, ch] =>
    match chip.toNat?, ch.toNat? with
    | some chip, some ch => some (render id pair (padInPwb chip ch))
    | _, _ => some "bad-request"
  | "pad", [run, board, chip, ch] =>
    match run.toNat?, pwbBoardIdx board, chip.toNat?, ch.toNat? with
    | some run, some b, some chip, some ch => some (render id pair (padPosition run b chip ch))
    | _, _, _, _ => some "bad-request"
  | "wiremap", [run, boards] =>
    match run.toNat? with
    | some run => some (((wireMapLine run (boards.splitOn ",")).map (s!"ok {·}")).getD "bad-request")
    | none => some "bad-request"
  | "pwbmap", [run, boards] =>
    match run.toNat? with
    | some run => some (((pwbMapLine run (boards.splitOn ",")).map (s!"ok {·}")).getD "bad-request")
    | none => some "bad-request"
  | "padmap", [run, board] =>
    match run.toNat?, pwbBoardIdx board with
    | some run, some b => some s!"ok {padMapLine run b}"
    | _, _ => some "bad-request"
  | "c08check", [] => some s!"ok {checkLine}"
  | "w2c", [w] =>
    match w.toNat? with
    | some w => some s!"ok {wireToPadColumn w}"
    | none => some "bad-request"
  | "c2w", [c] =>
    match c.toNat? with
    | some c => some s!"ok {pair (padColumnToWires c)}"
    | none => some "bad-request"
  | "phiidx", [w] =>
    match w.toNat? with
    | some w => some s!"ok {phiWireIndex w}"
    | none => some "bad-request"
  | "caldispatch", [which, run] =>
    match run.toNat?, calArms.find? (fun c => c.1 == which) with
    | some run, some c =>
      match calDispatch which run with
      | some r => some (showRhs c.2.2 r)
      | none => some "panic model:non-exhaustive"
    | _, _ => some "bad-request"
  | "calhas", [which, run] =>
    match run.toNat? with
    | some run =>
      match calDispatch which run with
      | some (_, .table _) => some "some"
      | some (_, .value n) => some s!"some {n}"
      | some (_, .err _) => some "none"
      | none => some "bad-request"
    | none => some "bad-request"
  | _, _ => none

end AlphaG.Driver.C08
