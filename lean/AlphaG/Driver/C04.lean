import AlphaG.Model.PwbChunks
import AlphaG.Driver.C05
/-
Line-protocol handler for `pwbchunks <n> <dev:chip:flags:id:payloadhex> …` (chunk values in
arrival order): same answer format as `pwb`; errors print as `MissingChunk(3)`,
`MisplacedEndOfMessageChunk(1)`, `PayloadLengthMismatch(found,expected)`,
`BadPayload:<inner variant>`, `DeviceIdMismatch`, `ChannelIdMismatch`, …
-/
namespace AlphaG.Driver.C04
open AlphaG AlphaG.Pwb

def cerrName : CErr → String
  | .deviceIdMismatch => "DeviceIdMismatch"
  | .channelIdMismatch => "ChannelIdMismatch"
  | .missingChunk i => s!"MissingChunk({i})"
  | .missingEndOfMessageChunk => "MissingEndOfMessageChunk"
  | .misplacedEndOfMessageChunk i => s!"MisplacedEndOfMessageChunk({i})"
  | .payloadLengthMismatch f e => s!"PayloadLengthMismatch({f},{e})"
  | .badPayload e => s!"BadPayload:{AlphaG.Driver.C05.errName e}"

def parseChunk (s : String) : Option ChunkV :=
  match s.splitOn ":" with
  | [d, c, f, i, h] =>
    match d.toNat?, c.toNat?, f.toNat?, i.toNat?, parseHex h with
    | some d, some c, some f, some i, some h =>
      some { deviceId := d, chip := c, flags := f, chunkId := i, payload := h }
    | _, _, _, _, _ => none
  | _ => none

def handle (cmd : String) (args : List String) : Option String :=
  match cmd, args with
  | "pwbchunks", n :: rest =>
    match n.toNat?, rest.mapM parseChunk with
    | some n, some cs =>
      if n ≠ cs.length then some "bad-request" else
      match reassemble cs with
      | .ok p => some s!"ok {AlphaG.Driver.C05.showPacket p}"
      | .err e => some s!"err {cerrName e}"
      | .panic s => some s!"panic {s}"
    | _, _ => some "bad-request"
  | _, _ => none

end AlphaG.Driver.C04
