import AlphaG.Model.Adc
/-
Line-protocol handlers of C02 / the ADC part of C01:
  `adc <hex>`        AdcV3Packet::try_from (and the AdcPacket wrapper)
  `a16id module <n>` / `a16id adc16 <n>` / `a16id adc32 <n>`   TryFrom<u8> id conversions
  `a16id mac <hex>`  BoardId::try_from([u8; 6])   (exactly 6 bytes)
  `a16id name <hex>` BoardId::try_from(&str)      (hex of the UTF-8 bytes)
-/
namespace AlphaG.Driver.C02
open AlphaG AlphaG.Adc

def errName : Err → String
  | .incompleteSlice => "IncompleteSlice"
  | .unknownType => "UnknownType"
  | .unknownVersion => "UnknownVersion"
  | .unknownModuleId => "UnknownModuleId"
  | .unknownChannelId => "UnknownChannelId"
  | .zeroMismatch => "ZeroMismatch"
  | .unknownMac => "UnknownMac"
  | .baselineMismatch => "BaselineMismatch"
  | .badKeepLast => "BadKeepLast"
  | .keepBitMismatch => "KeepBitMismatch"
  | .badNumberOfSamples => "BadNumberOfSamples"

def showChannel : ChannelId → String
  | .a16 n => s!"a16:{n}"
  | .a32 n => s!"a32:{n}"

def showBoard : Option (String × List Nat) → String
  | none => "none none"
  | some (name, mac) => s!"{name} {toHex (mac.map UInt8.ofNat)}"

def showOpt {α : Type} [ToString α] : Option α → String
  | none => "none"
  | some a => toString a

def showWave (w : List Int) : String :=
  if w.isEmpty then "-" else ",".intercalate (w.map toString)

def b01 (x : Bool) : Nat := if x then 1 else 0

def showPacket (p : Packet) : String :=
  s!"{p.acceptedTrigger} {p.moduleId} {showChannel p.channelId} {p.requestedSamples} {p.eventTimestamp} {showBoard p.boardId} {showOpt p.triggerOffset} {showOpt p.buildTimestamp} {p.suppressionBaseline} {p.keepLast} {b01 p.keepBit} {b01 p.suppressionEnabled} {p.waveform.length} {showWave p.waveform}"

def showId (o : Outcome Unit Nat) : String :=
  match o with
  | .ok n => s!"ok {n}"
  | .err _ => "err"
  | .panic s => s!"panic {s}"

def showBoardId (o : Outcome Unit (String × List Nat)) : String :=
  match o with
  | .ok p => s!"ok {showBoard (some p)}"
  | .err _ => "err"
  | .panic s => s!"panic {s}"

def handle (cmd : String) (args : List String) : Option String :=
  match cmd, args with
  | "adc", [hex] =>
    match parseHex hex with
    | none => some "bad-request"
    | some b =>
      match decodeAdcPacket b with
      | .ok p => some s!"ok {showPacket p} {toHex (encode p)}"
      | .err e => some s!"err {errName e}"
      | .panic s => some s!"panic {s}"
  | "a16id", [kind, arg] =>
    match kind with
    | "module" => arg.toNat?.map fun n => showId (moduleIdFromU8 n)
    | "adc16" => arg.toNat?.map fun n => showId (adc16FromU8 n)
    | "adc32" => arg.toNat?.map fun n => showId (adc32FromU8 n)
    | "mac" =>
      match parseHex arg with
      | some b => if b.length = 6 then some (showBoardId (boardFromMac (b.map UInt8.toNat))) else some "bad-request"
      | none => some "bad-request"
    | "name" =>
      match parseHex arg with
      | some b =>
        match String.fromUTF8? (ByteArray.mk b.toArray) with
        | some s => some (showBoardId (boardFromName s))
        | none => some "bad-request"
      | none => some "bad-request"
    | _ => none
  | _, _ => none

end AlphaG.Driver.C02
