import AlphaG.Model.Cluster
import AlphaG.Model.Vertexing
import Std.Data.HashMap
/-
Line-protocol handler for the C15/C14 combinatorial replay.

`cluster <min> <n> <bins> <near> <classes> [<points> <params>]`
  * `<bins>`    : `n` groups separated by `;`, each a `,`-separated list of bin codes
                  (`theta * 2^32 + rho`, decimal; `-` for a point without bins), in the order
                  returned by `get_bins`;
  * `<near>`    : `m:` followed by `n` `,`-separated hex rows (bit `j` of row `i` = the real
                  `point_i.distance(point_j) <= max_distance`), or `p:` followed by
                  `,`-separated `i-j` ordered pairs (`-` = none);
  * `<classes>` : `n` `,`-separated numbers, `cls[i]` = smallest `j` with `sp[j] == sp[i]`.
  * `<points> <params>` (optional, ignored by the model): bit patterns of the points and the
    clustering parameters, so that `corr replay` can re-run the implementation from the line.
Answer: `ok c=<cluster>|<cluster>… r=<remainder>`; points are printed as class
representatives `cls[i]`, lists `,`-separated, `-` when empty.

The bin codes are renamed to their rank of first appearance (an injective renaming, which is
all an `IndexMap` key is used for) so that the model's accumulator takes its O(1) lookup path.
-/
namespace AlphaG.Driver.C15
open AlphaG AlphaG.Cluster

def parseNatList (s : String) : Option (List Nat) :=
  if s == "-" || s == "" then some [] else (s.splitOn ",").mapM String.toNat?

/-- Rank bin codes by first appearance. -/
def rankBins (groups : List (List Nat)) : Array (List Nat) :=
  let step (st : Std.HashMap Nat Nat × Array (List Nat)) (g : List Nat) :=
    let (m, rs) := g.foldl (fun (acc : Std.HashMap Nat Nat × List Nat) code =>
      match acc.1[code]? with
      | some r => (acc.1, r :: acc.2)
      | none => (acc.1.insert code acc.1.size, acc.1.size :: acc.2)) (st.1, [])
    (m, st.2.push rs.reverse)
  (groups.foldl step (({} : Std.HashMap Nat Nat), #[])).2

def parseHexNat (s : String) : Option Nat :=
  s.toList.foldlM (fun acc c => (hexDigit? c).map (fun d => acc * 16 + d)) 0

def parseNear (n : Nat) (s : String) : Option (Nat → Nat → Bool) :=
  if s.startsWith "m:" then
    let body := (s.drop 2).toString
    match (if body == "-" || body == "" then some [] else (body.splitOn ",").mapM parseHexNat) with
    | none => none
    | some rows =>
      let arr := rows.toArray
      if arr.size ≠ n then none else some (fun i j => (arr.getD i 0).testBit j)
  else if s.startsWith "p:" then
    let body := (s.drop 2).toString
    let pairs := if body == "-" || body == "" then some [] else
      (body.splitOn ",").mapM (fun t =>
        match t.splitOn "-" with
        | [a, b] => match a.toNat?, b.toNat? with
          | some x, some y => some (x, y)
          | _, _ => none
        | _ => none)
    match pairs with
    | none => none
    | some ps =>
      let arr : Array Nat := ps.foldl (fun (a : Array Nat) (xy : Nat × Nat) =>
        a.modify xy.1 (fun row => row ||| (1 <<< xy.2))) (Array.replicate n 0)
      some (fun i j => (arr.getD i 0).testBit j)
  else none

def showList (l : List Nat) : String :=
  if l.isEmpty then "-" else ",".intercalate (l.map toString)

def showResult (cls : Array Nat) (r : Result) : String :=
  let rep := fun i => cls.getD i i
  let cs := if r.clusters.isEmpty then "-" else
    "|".intercalate (r.clusters.map (fun c => showList (c.map rep)))
  s!"ok c={cs} r={showList (r.remainder.map rep)}"

def handleCluster (minS nS binsS nearS clsS : String) : String :=
  match minS.toNat?, nS.toNat? with
  | some min, some n =>
    let groups := if n = 0 then some [] else (binsS.splitOn ";").mapM parseNatList
    match groups, parseNear n nearS, parseNatList clsS with
    | some groups, some near, some cls =>
      if groups.length ≠ n ∨ cls.length ≠ n then "bad-request" else
      let ranked := rankBins groups
      let clsA := cls.toArray
      let ctx : Ctx := {
        eq := fun i j => clsA.getD i i == clsA.getD j j
        bins := fun i => ranked.getD i []
        near := near }
      match cluster ctx min (List.range n) with
      | .ok r => showResult clsA r
      | .err _ => "err -"
      | .panic s => s!"panic {s}"
    | _, _, _ => "bad-request"
  | _, _ => "bad-request"

/-! ### `vertexsel <n> <keep> <z> <r> <classes> [<tracks>]`

Replay of the `find_vertices` bookkeeping on quantities computed from the real tracks by the
harness: `<keep>` is a string of `n` digits `0/1` (both seed filters), `<z>` and `<r>` are
`n` `,`-separated `f64` bit patterns (z of the closest approach to the beamline, helix
radius), `<classes>` as for `cluster`. `Float` `+ - abs <` are bit-identical to `f64`.
The harness only sends track lists whose kept tracks have pairwise distinct `z` unless they
are `==` (for those the result of `sort_unstable_by` is determined), so a stable insertion
sort reproduces it. `<tracks>` (helix parameter bit patterns) is ignored by the model; it
lets `corr replay` re-run the implementation. Answer: `ok p=<primary tracks|none> r=<remainder>`. -/

def parseFloatBits (s : String) : Option Float :=
  (parseHexNat s).map (fun n => Float.ofBits n.toUInt64)

def insertSorted (z : Nat → Float) (t : Nat) : List Nat → List Nat
  | [] => [t]
  | a :: l => if z t < z a then t :: a :: l else a :: insertSorted z t l

def fcmp (a b : Float) : Option Ordering :=
  if a < b then some .lt else if a > b then some .gt else if a == b then some .eq else none

def handleVertexSel (nS keepS zS rS clsS : String) : String :=
  match nS.toNat? with
  | none => "bad-request"
  | some n =>
    let zs := if n = 0 then some [] else (zS.splitOn ",").mapM parseFloatBits
    let rs := if n = 0 then some [] else (rS.splitOn ",").mapM parseFloatBits
    match zs, rs, parseNatList clsS with
    | some zs, some rs, some cls =>
      let keep := (if keepS == "-" then [] else keepS.toList.map (· == '1')).toArray
      if zs.length ≠ n ∨ rs.length ≠ n ∨ cls.length ≠ n ∨ keep.size ≠ n then "bad-request" else
      let zA := zs.toArray
      let rA := rs.toArray
      let clsA := cls.toArray
      let z := fun i => zA.getD i 0.0
      let sumR := fun (c : List Nat) => c.foldl (fun acc i => acc + rA.getD i 0.0) 0.0
      let ctx : AlphaG.Vertexing.Ctx := {
        eq := fun i j => clsA.getD i i == clsA.getD j j
        keep := fun i => keep.getD i false
        sort := fun l =>
          if 2 ≤ l.length ∧ l.any (fun i => (z i).isNaN) then none
          else some (l.foldl (fun acc t => insertSorted z t acc) [])
        close := fun t l => Float.abs (z t - z l) < 0.034
        cmp := fun a b => fcmp (sumR a) (sumR b) }
      match AlphaG.Vertexing.findVertices ctx (List.range n) with
      | .ok r =>
        let rep := fun i => clsA.getD i i
        let p := match r.primary with
          | none => "none"
          | some v => showList (v.map rep)
        s!"ok p={p} r={showList (r.remainder.map rep)}"
      | .err _ => "err -"
      | .panic s => s!"panic {s}"
    | _, _, _ => "bad-request"

def handle (cmd : String) (args : List String) : Option String :=
  match cmd, args with
  | "cluster", [minS, nS, binsS, nearS, clsS] => some (handleCluster minS nS binsS nearS clsS)
  -- two trailing arguments (point bit patterns, parameters) are for the implementation replay only
  | "cluster", [minS, nS, binsS, nearS, clsS, _, _] =>
    some (handleCluster minS nS binsS nearS clsS)
  | "vertexsel", [nS, keepS, zS, rS, clsS] => some (handleVertexSel nS keepS zS rS clsS)
  | "vertexsel", [nS, keepS, zS, rS, clsS, _] => some (handleVertexSel nS keepS zS rS clsS)
  -- implementation-only requests (`find_vertices`, track fits: the minimiser is not modelled):
  -- echo the recorded answer that follows `=>`, so that they never count as disagreements.
  | "impl-only", rest =>
    match rest.dropWhile (· != "=>") with
    | _ :: ans => some (" ".intercalate ans)
    | [] => some "skip"
  | _, _ => none

end AlphaG.Driver.C15
