import AlphaG.Model.Cluster
import Std.Data.HashMap
/-
Line-protocol handler for the C15/C14 combinatorial replay.

`cluster <min> <n> <bins> <near> <classes>`
  * `<bins>`    : `n` groups separated by `;`, each a `,`-separated list of bin codes
                  (`theta * 2^32 + rho`, decimal; `-` for a point without bins), in the order
                  returned by `get_bins`;
  * `<near>`    : `m:` followed by `n` `,`-separated hex rows (bit `j` of row `i` = the real
                  `point_i.distance(point_j) <= max_distance`), or `p:` followed by
                  `,`-separated `i-j` ordered pairs (`-` = none);
  * `<classes>` : `n` `,`-separated numbers, `cls[i]` = smallest `j` with `sp[j] == sp[i]`.
Answer: `ok c=<cluster>|<cluster>… r=<remainder>`; points are printed as class
representatives `cls[i]`, lists `,`-separated, `-` when empty.

The bin codes are renamed to their rank of first appearance (an injective renaming, which is
all an `IndexMap` key is used for) so that the model's accumulator takes its O(1) lookup path.
-/
namespace AlphaG.Driver.C15
open AlphaG AlphaG.Cluster

def parseNatList (s : String) : Option (List Nat) :=
  if s == "-" || s == "" then some [] else (s.splitOn ",").mapM String.toNat?

/-- Rank bin codes by first appearance. -/
def rankBins (groups : List (List Nat)) : Array (List Nat) :=
  let step (st : Std.HashMap Nat Nat × Array (List Nat)) (g : List Nat) :=
    let (m, rs) := g.foldl (fun (acc : Std.HashMap Nat Nat × List Nat) code =>
      match acc.1[code]? with
      | some r => (acc.1, r :: acc.2)
      | none => (acc.1.insert code acc.1.size, acc.1.size :: acc.2)) (st.1, [])
    (m, st.2.push rs.reverse)
  (groups.foldl step (({} : Std.HashMap Nat Nat), #[])).2

def parseHexNat (s : String) : Option Nat :=
  s.toList.foldlM (fun acc c => (hexDigit? c).map (fun d => acc * 16 + d)) 0

def parseNear (n : Nat) (s : String) : Option (Nat → Nat → Bool) :=
  if s.startsWith "m:" then
    let body := (s.drop 2).toString
    match (if body == "-" || body == "" then some [] else (body.splitOn ",").mapM parseHexNat) with
    | none => none
    | some rows =>
      let arr := rows.toArray
      if arr.size ≠ n then none else some (fun i j => (arr.getD i 0).testBit j)
  else if s.startsWith "p:" then
    let body := (s.drop 2).toString
    let pairs := if body == "-" || body == "" then some [] else
      (body.splitOn ",").mapM (fun t =>
        match t.splitOn "-" with
        | [a, b] => match a.toNat?, b.toNat? with
          | some x, some y => some (x, y)
          | _, _ => none
        | _ => none)
    match pairs with
    | none => none
    | some ps =>
      let arr : Array Nat := ps.foldl (fun (a : Array Nat) (xy : Nat × Nat) =>
        a.modify xy.1 (fun row => row ||| (1 <<< xy.2))) (Array.replicate n 0)
      some (fun i j => (arr.getD i 0).testBit j)
  else none

def showList (l : List Nat) : String :=
  if l.isEmpty then "-" else ",".intercalate (l.map toString)

def showResult (cls : Array Nat) (r : Result) : String :=
  let rep := fun i => cls.getD i i
  let cs := if r.clusters.isEmpty then "-" else
    "|".intercalate (r.clusters.map (fun c => showList (c.map rep)))
  s!"ok c={cs} r={showList (r.remainder.map rep)}"

def handleCluster (minS nS binsS nearS clsS : String) : String :=
  match minS.toNat?, nS.toNat? with
  | some min, some n =>
    let groups := if n = 0 then some [] else (binsS.splitOn ";").mapM parseNatList
    match groups, parseNear n nearS, parseNatList clsS with
    | some groups, some near, some cls =>
      if groups.length ≠ n ∨ cls.length ≠ n then "bad-request" else
      let ranked := rankBins groups
      let clsA := cls.toArray
      let ctx : Ctx := {
        eq := fun i j => clsA.getD i i == clsA.getD j j
        bins := fun i => ranked.getD i []
        near := near }
      match cluster ctx min (List.range n) with
      | .ok r => showResult clsA r
      | .err _ => "err -"
      | .panic s => s!"panic {s}"
    | _, _, _ => "bad-request"
  | _, _ => "bad-request"

def handle (cmd : String) (args : List String) : Option String :=
  match cmd, args with
  | "cluster", [minS, nS, binsS, nearS, clsS] => some (handleCluster minS nS binsS nearS clsS)
  -- implementation-only requests (`find_vertices`, track fits: the minimiser is not modelled):
  -- echo the recorded answer that follows `=>`, so that they never count as disagreements.
  | "impl-only", rest =>
    match rest.dropWhile (· != "=>") with
    | _ :: ans => some (" ".intercalate ans)
    | [] => some "skip"
  | _, _ => none

end AlphaG.Driver.C15
