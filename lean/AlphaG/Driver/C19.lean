import AlphaG.Model.Csv
/-
Line protocol for the CSV row logic (C19 and C20):
  sortfiles <id:ext(0/1):run:t0> …        → ok <run> <id> … | err <Variant> | panic <site>
  scan <serial:ts|serial:-> …             → rows <serial:cum|serial:-> …
  cbrows <remainderEmpty 0/1> <t:ch:lead:ts | m:top:counter> …
                                           → ok <ch:lead:time|ch:lead:-> … | err <Variant> | panic <site>
-/
namespace AlphaG.Driver.C19
open AlphaG AlphaG.Csv

def nat? (s : String) : Option Nat := s.toNat?

def parseFile (s : String) : Option FileHead :=
  match s.splitOn ":" with
  | [i, e, r, t] => do
    let i ← nat? i; let e ← nat? e; let r ← nat? r; let t ← nat? t
    pure { id := i, extKnown := e == 1, run := r, t0 := t }
  | _ => none

def parseEv (s : String) : Option Ev :=
  match s.splitOn ":" with
  | [n, "-"] => do let n ← nat? n; pure { serial := n, ts := none }
  | [n, t] => do let n ← nat? n; let t ← nat? t; pure { serial := n, ts := some t }
  | _ => none

def parseEntry (s : String) : Option Entry :=
  match s.splitOn ":" with
  | ["t", ch, l, ts] => do
    let ch ← nat? ch; let l ← nat? l; let ts ← nat? ts
    pure (.ts { channel := ch, timestamp := ts, leading := l == 1 })
  | ["m", top, c] => do
    let top ← nat? top; let c ← nat? c
    pure (.marker { top := top == 1, counter := c })
  | _ => none

def showRow (r : Row) : String :=
  match r.cum with
  | some c => s!"{r.serial}:{c}"
  | none => s!"{r.serial}:-"

def showCb (r : CbRow) : String :=
  let l := if r.leading then 1 else 0
  match r.time with
  | some t => s!"{r.channel}:{l}:{t}"
  | none => s!"{r.channel}:{l}:-"

def sortErrName : SortErr → String
  | .unknownExtension _ => "UnknownExtension"
  | .badRunNumber _ => "BadRunNumber"
  | .duplicateInitialTimestamp => "DuplicateInitialTimestamp"

def cbErrName : CbErr → String
  | .badFifo => "BadFifo"
  | .missingEpoch0 => "MissingEpoch0"
  | .badFirstMarker => "BadFirstMarker"

def handle (cmd : String) (args : List String) : Option String :=
  match cmd with
  | "sortfiles" =>
    match args.mapM parseFile with
    | none => some "bad-request"
    | some fs =>
      match sortRunFiles fs with
      | .ok (run, ids) => some (String.intercalate " " ("ok" :: toString run :: ids.map toString))
      | .err e => some s!"err {sortErrName e}"
      | .panic s => some s!"panic {s}"
  | "scan" =>
    match args.mapM parseEv with
    | none => some "bad-request"
    | some es => some (String.intercalate " " ("rows" :: (scanRows es).map showRow))
  | "cbrows" =>
    match args with
    | [] => some "bad-request"
    | r :: rest =>
      match rest.mapM parseEntry with
      | none => some "bad-request"
      | some es =>
        match boardRows (r == "1") es with
        | .ok rows => some (String.intercalate " " ("ok" :: rows.map showCb))
        | .err e => some s!"err {cbErrName e}"
        | .panic s => some s!"panic {s}"
  | _ => none

end AlphaG.Driver.C19
