import AlphaG.Lemmas.Drift
/-
The lookup functions on well-formed tables in exact arithmetic: which branch is taken, and
what the bracket search returns.
-/
set_option linter.unusedSectionVars false

namespace AlphaG.Drift

variable {K : Type} [Field K] [LinearOrder K] [IsStrictOrderedRing K]

/-- The bracket search on a well-formed table, for a time within the tabulated range:
`rhs_index ≥ 1` (so `rhs_index - 1` does not underflow), `rhs_index < len`, and the two
knots bracket `t`. -/
theorem rhs_bracket {tb : List (Knot K)} (ok : SliceOk tb) {t : K} (h0 : tFirst tb ≤ t)
    (h1 : t ≤ tLast tb) : Bracket tb t (rhsIndex (fieldOps K) tb t) := by
  have hn := ok.two
  unfold rhsIndex
  cases h : List.findIdx? (fun k => (fieldOps K).gt k.t t) tb with
  | none =>
    rw [List.findIdx?_eq_none_iff] at h
    have hlast : ¬ t < (kn tb (tb.length - 1)).t := by
      have hm : kn tb (tb.length - 1) ∈ tb := by
        rw [kn_eq_getElem (by omega : tb.length - 1 < tb.length)]; exact List.getElem_mem _
      have := h _ hm
      simpa [Ops.gt, fieldOps] using this
    have hlt := ok.time_lt (tb.length - 2) (by omega)
    rw [show tb.length - 2 + 1 = tb.length - 1 by omega] at hlt
    refine ⟨by simp only [Option.getD_none]; omega, by simp only [Option.getD_none]; omega, ?_, ?_⟩
    · simp only [Option.getD_none]
      rw [show tb.length - 1 - 1 = tb.length - 2 by omega]
      exact le_of_lt (lt_of_lt_of_le hlt (not_lt.1 hlast))
    · simpa only [Option.getD_none, tLast] using h1
  | some i =>
    rw [List.findIdx?_eq_some_iff_getElem] at h
    obtain ⟨hi, hp, hbefore⟩ := h
    have hp' : t < (kn tb i).t := by
      rw [kn_eq_getElem hi]; simpa [Ops.gt, fieldOps] using hp
    have hi1 : 1 ≤ i := by
      rcases Nat.eq_zero_or_pos i with h | h
      · subst h; exact absurd (lt_of_le_of_lt h0 hp') (lt_irrefl _)
      · exact h
    refine ⟨by simpa using hi1, by simpa using hi, ?_, ?_⟩
    · simp only [Option.getD_some]
      have := hbefore (i - 1) (by omega)
      rw [← kn_eq_getElem (by omega : i - 1 < tb.length)] at this
      have : ¬ t < (kn tb (i - 1)).t := by simpa [Ops.gt, fieldOps] using this
      exact not_lt.1 this
    · simpa only [Option.getD_some] using le_of_lt hp'

/-- `DriftTable::at` on a well-formed table: out of range on either side is the time error,
otherwise the interpolation between the bracketing knots found by the search. -/
theorem tableAt_eq {tb : List (Knot K)} (ok : SliceOk tb) (t : K) :
    tableAt (fieldOps K) tb t =
      if t < tFirst tb ∨ tLast tb < t then .err .driftTimeOutOfRange
      else .ok (interp (fieldOps K) (kn tb (rhsIndex (fieldOps K) tb t - 1))
        (kn tb (rhsIndex (fieldOps K) tb t)) t) := by
  have hn := ok.two
  unfold tableAt
  rw [getElem?_kn (by omega : 0 < tb.length), getElem?_kn (by omega : tb.length - 1 < tb.length)]
  simp only
  by_cases hr : t < tFirst tb ∨ tLast tb < t
  · have : ((fieldOps K).lt t (kn tb 0).t || (fieldOps K).gt t (kn tb (tb.length - 1)).t) = true := by
      simpa [Ops.gt, fieldOps, tFirst, tLast] using hr
    rw [if_pos this, if_pos hr]
  · have hc : ¬ (((fieldOps K).lt t (kn tb 0).t || (fieldOps K).gt t (kn tb (tb.length - 1)).t) = true) := by
      simpa [Ops.gt, fieldOps, tFirst, tLast] using hr
    rw [if_neg hc, if_neg hr]
    have hb := rhs_bracket ok (not_lt.1 (fun h => hr (Or.inl h))) (not_lt.1 (fun h => hr (Or.inr h)))
    obtain ⟨k1, kn', -, -⟩ := hb
    rw [if_neg (by omega), getElem?_kn (by omega), getElem?_kn kn']

/-! ### Slice selection -/

theorem exists_inSlice {ts : List (Slice K)} (a : K) (h : a ≤ zMax ts) (hn : 1 ≤ ts.length) :
    ∃ i, i < ts.length ∧ InSlice ts i a := by
  -- least index whose bound is ≥ a
  have hex : ∃ i, i < ts.length ∧ a ≤ zb ts i := ⟨ts.length - 1, by omega, h⟩
  classical
  let i := Nat.find hex
  have hi := Nat.find_spec hex
  refine ⟨i, hi.1, hi.2, ?_⟩
  intro j hj
  by_contra hc
  exact Nat.find_min hex hj ⟨by omega, not_lt.1 hc⟩

theorem inSlice_unique {ts : List (Slice K)} {i j : Nat} {a : K} (hi : InSlice ts i a)
    (hj : InSlice ts j a) : i = j := by
  rcases Nat.lt_trichotomy i j with h | h | h
  · exact absurd (lt_of_lt_of_le (hj.2 i h) hi.1) (lt_irrefl _)
  · exact h
  · exact absurd (lt_of_lt_of_le (hi.2 j h) hj.1) (lt_irrefl _)

/-- `DriftTables::at` on well-formed tables, `|z|` beyond the last bound. -/
theorem tablesAt_err_z {ts : List (Slice K)} (hn : 1 ≤ ts.length) {z : K} (t : K)
    (h : zMax ts < |z|) : tablesAt (fieldOps K) ts z t = .err .axialPositionOutOfRange := by
  unfold tablesAt
  rw [getElem?_sl (by omega : ts.length - 1 < ts.length)]
  simp only
  have : (fieldOps K).gt ((fieldOps K).abs z) (sl ts (ts.length - 1)).zUpper = true := by
    simpa [Ops.gt, fieldOps, zMax, zb] using h
  rw [if_pos this]

/-- `DriftTables::at` on tables with at least one slice, `|z|` in the region of slice `i`:
the lookup in that slice's table. -/
theorem tablesAt_inSlice {ts : List (Slice K)} {i : Nat} (hi : i < ts.length) {z : K} (t : K)
    (hz : InSlice ts i |z|) (hmax : |z| ≤ zMax ts) :
    tablesAt (fieldOps K) ts z t = tableAt (fieldOps K) (sl ts i).table t := by
  unfold tablesAt
  rw [getElem?_sl (by omega : ts.length - 1 < ts.length)]
  simp only
  have : ¬ ((fieldOps K).gt ((fieldOps K).abs z) (sl ts (ts.length - 1)).zUpper = true) := by
    simpa [Ops.gt, fieldOps, zMax, zb] using hmax
  rw [if_neg this]
  have hf : List.find? (fun s => (fieldOps K).ge s.zUpper ((fieldOps K).abs z)) ts = some (sl ts i) := by
    rw [List.find?_eq_some_iff_getElem]
    refine ⟨by simpa [Ops.ge, fieldOps, zb] using hz.1, i, hi, (sl_eq_getElem hi).symm, ?_⟩
    intro j hj
    have := hz.2 j hj
    rw [← sl_eq_getElem (by omega : j < ts.length)]
    simpa [Ops.ge, fieldOps, zb] using this
  rw [hf]

theorem inSlice_le_zMax {ts : List (Slice K)} (ok : TablesOk ts) {i : Nat} (hi : i < ts.length)
    {a : K} (hz : InSlice ts i a) : a ≤ zMax ts :=
  le_trans hz.1 (ok.z_mono (by omega) (by have := ok.one; omega))

end AlphaG.Drift
