import AlphaG.Lemmas.ClusterAcc
import AlphaG.Lemmas.ClusterFlood
/-
The three loops of `cluster_spacepoints`: `best_cluster`, the outer loop, the remainder
bookkeeping. Invariants follow DESIGN.md section 12: inside `best_cluster` the multiset
`accumulator + prev_best` is constant and `|prev_best|` strictly increases; across the outer
loop `accumulator + Σ clusters = sp`. Core Lean only.
-/
namespace AlphaG.Cluster

theorem bestCluster_succ (ctx : Ctx) (fuel : Nat) (acc : Acc) (prev : List Nat) :
    bestCluster ctx (fuel + 1) acc prev =
      if (largestCluster ctx.near (mostPopular acc)).length ≤ prev.length then .ok (acc, prev)
      else
        match removeAll ctx (largestCluster ctx.near (mostPopular acc)) acc with
        | .ok acc' =>
          bestCluster ctx fuel (addAll ctx prev acc') (largestCluster ctx.near (mostPopular acc))
        | .err e => .err e
        | .panic s => .panic s := rfl

/-- `best_cluster` with enough fuel returns; `accumulator + prev_best` is conserved; the result
is `prev` itself or an output of `largest_cluster`. -/
theorem bestCluster_spec {ctx : Ctx} (g : ctx.Good) (sp : List Nat) (P : List Nat → Prop)
    (hP : ∀ pts, P (largestCluster ctx.near pts)) :
    ∀ (fuel : Nat) (acc : Acc) (prev : List Nat) (m : Nat → Nat),
      InvC ctx acc m → (∀ x, m x + cnt ctx x prev ≤ cnt ctx x sp) →
      sp.length < fuel + prev.length → P prev →
      ∃ acc' prev' m', bestCluster ctx fuel acc prev = .ok (acc', prev') ∧ InvC ctx acc' m' ∧
        (∀ x, m' x + cnt ctx x prev' = m x + cnt ctx x prev) ∧ P prev' := by
  intro fuel
  induction fuel with
  | zero =>
    intro acc prev m _ hle hfuel _
    have : prev.length ≤ sp.length := length_le_of_cnt_le g prev sp (fun x => by have := hle x; omega)
    omega
  | succ fuel ih =>
    intro acc prev m inv hle hfuel hprev
    rw [bestCluster_succ]
    generalize hbest : largestCluster ctx.near (mostPopular acc) = best
    have hbm : ∀ x, cnt ctx x best ≤ m x := by
      intro x
      rw [← hbest]
      exact Nat.le_trans (largestCluster_le ctx ctx.near _ x) (mostPopular_le inv x)
    by_cases hbr : best.length ≤ prev.length
    · simp only [hbr, if_true]
      exact ⟨acc, prev, m, rfl, inv, fun _ => rfl, hprev⟩
    · simp only [hbr, if_false]
      obtain ⟨acc1, h1, inv1⟩ := removeAll_inv g best inv hbm
      rw [h1]
      simp only
      have inv2 := addAll_inv g prev inv1
      have hbl : best.length ≤ sp.length :=
        length_le_of_cnt_le g best sp (fun x => by have := hle x; have := hbm x; omega)
      obtain ⟨acc', prev', m', hr, inv', hm', hp'⟩ :=
        ih (addAll ctx prev acc1) best _ inv2
          (by intro x; have := hle x; have := hbm x; omega)
          (by omega) (by rw [← hbest]; exact hP _)
      refine ⟨acc', prev', m', hr, inv', ?_, hp'⟩
      intro x
      have := hm' x; have := hbm x
      omega

/-- The outer loop. -/
theorem outer_spec {ctx : Ctx} (g : ctx.Good) (sp : List Nat) (min n : Nat) (hmin : 1 ≤ min)
    (hn : sp.length ≤ n) (P : List Nat → Prop) (hP : ∀ pts, P (largestCluster ctx.near pts))
    (hP0 : P []) :
    ∀ (fuel : Nat) (acc : Acc) (cls : List (List Nat)) (m : Nat → Nat),
      InvC ctx acc m → (∀ x, m x + cnt ctx x cls.flatten = cnt ctx x sp) →
      sp.length < fuel + cls.flatten.length →
      ∃ out, outer ctx min n fuel acc cls = .ok out ∧
        (∀ x, cnt ctx x out.flatten ≤ cnt ctx x sp) ∧
        (∀ c ∈ out, c ∈ cls ∨ (min ≤ c.length ∧ P c)) := by
  intro fuel
  induction fuel with
  | zero =>
    intro acc cls m _ hm hfuel
    have : cls.flatten.length ≤ sp.length :=
      length_le_of_cnt_le g _ sp (fun x => by have := hm x; omega)
    omega
  | succ fuel ih =>
    intro acc cls m inv hm hfuel
    unfold outer
    obtain ⟨acc', c, m', hr, inv', hm', hp'⟩ :=
      bestCluster_spec g sp P hP (n + 1) acc [] m inv
        (by intro x; have := hm x; simp; omega) (by simp; omega) hP0
    rw [hr]
    simp only
    by_cases hc : c.length < min
    · simp only [hc, if_true]
      refine ⟨cls, rfl, ?_, fun c hc => Or.inl hc⟩
      intro x; have := hm x; omega
    · simp only [hc, if_false]
      have hfl : (cls ++ [c]).flatten = cls.flatten ++ c := by simp
      obtain ⟨out, ho, h1, h2⟩ := ih acc' (cls ++ [c]) m' inv'
        (by intro x; rw [hfl, cnt_append]; have := hm x; have := hm' x; simp at this; omega)
        (by rw [hfl, List.length_append]; omega)
      refine ⟨out, ho, h1, ?_⟩
      intro d hd
      rcases h2 d hd with h | h
      · rcases List.mem_append.1 h with h | h
        · exact Or.inl h
        · simp only [List.mem_singleton] at h
          subst h
          exact Or.inr ⟨by omega, hp'⟩
      · exact Or.inr h

/-- The remainder bookkeeping: `position(..).unwrap()` is safe while the removed points form a
sub-multiset of what is left. -/
theorem removeFromSp_spec {ctx : Ctx} (g : ctx.Good) :
    ∀ (l sp : List Nat), (∀ x, cnt ctx x l ≤ cnt ctx x sp) →
      ∃ rem, removeFromSp ctx l sp = .ok rem ∧ ∀ x, cnt ctx x rem + cnt ctx x l = cnt ctx x sp := by
  intro l
  induction l with
  | nil => intro sp _; exact ⟨sp, rfl, by simp⟩
  | cons p l ih =>
    intro sp hle
    unfold removeFromSp
    have hp : 0 < cnt ctx p sp := by
      have := hle p
      rw [cnt_cons] at this
      have : ind ctx p p = 1 := by simp [ind, g.eq_refl]
      omega
    cases hpo : position (fun q => ctx.eq q p) sp with
    | none => exact absurd hpo (position_ne_none g hp)
    | some i =>
      simp only
      have hc := cnt_swapRemove_position g hpo
      obtain ⟨rem, hr, hrem⟩ := ih (swapRemove sp i)
        (by intro x; have := hle x; have := hc x; rw [cnt_cons] at *; omega)
      refine ⟨rem, hr, ?_⟩
      intro x
      have := hrem x; have := hc x
      rw [cnt_cons]; omega

theorem fill_inv {ctx : Ctx} (g : ctx.Good) (sp : List Nat) :
    InvC ctx (fill ctx sp) (fun x => cnt ctx x sp) := by
  unfold fill
  refine (addAll_inv g sp (InvC.empty ctx)).congr ?_
  intro x; simp

/-- Everything `cluster` guarantees, in one statement (Props/C15 splits it). -/
theorem cluster_spec {ctx : Ctx} (g : ctx.Good) (min : Nat) (hmin : 1 ≤ min) (sp : List Nat)
    (P : List Nat → Prop) (hP : ∀ pts, P (largestCluster ctx.near pts)) (hP0 : P []) :
    ∃ r, cluster ctx min sp = .ok r ∧
      (∀ x, cnt ctx x r.clusters.flatten + cnt ctx x r.remainder = cnt ctx x sp) ∧
      (∀ c ∈ r.clusters, min ≤ c.length ∧ P c) := by
  obtain ⟨out, ho, h1, h2⟩ := outer_spec g sp min sp.length hmin (Nat.le_refl _) P hP hP0
    (sp.length + 1) (fill ctx sp) [] _ (fill_inv g sp) (by intro x; simp) (by simp)
  obtain ⟨rem, hr, hrem⟩ := removeFromSp_spec g out.flatten sp h1
  refine ⟨⟨out, rem⟩, ?_, ?_, ?_⟩
  · unfold cluster; rw [ho]; simp only; rw [hr]
  · intro x; have := hrem x; simp only; omega
  · intro c hc
    rcases h2 c hc with h | h
    · cases h
    · exact h

end AlphaG.Cluster
