import AlphaG.Model.Crc
/-
Algebra of the CRC-32C register (re-homed from design-probes/C03_crc_register.lean):
linearity over GF(2) (`run_xor`), injectivity of every step (`run_inj`, `run_zero_inj`),
the burst lemma (`burst32`), the parity invariant (`parity_run`: (x+1) divides the generator),
and the residue form (`run_self`: feeding the register its own 32 bits, least significant
first, drives it to 0). Core Lean only; no `decide` on anything large.
-/
namespace AlphaG.Crc

theorem xor_cancel {w : Nat} (a b p : BitVec w) : a ^^^ p ^^^ (b ^^^ p) = a ^^^ b := by
  ext i hi
  simp only [BitVec.getElem_xor]
  cases a[i] <;> cases b[i] <;> cases p[i] <;> rfl

/-- One step is linear over GF(2) (jointly in the register and the message bit). -/
theorem step_xor (s₁ s₂ : BitVec 32) (b₁ b₂ : Bool) :
    step (s₁ ^^^ s₂) (b₁ != b₂) = step s₁ b₁ ^^^ step s₂ b₂ := by
  unfold step
  rw [BitVec.ushiftRight_xor_distrib]
  simp only [BitVec.getLsbD_xor]
  cases s₁.getLsbD 0 <;> cases s₂.getLsbD 0 <;> cases b₁ <;> cases b₂ <;> simp <;>
    first | exact (xor_cancel _ _ _).symm | ac_rfl

/-- Linearity of the register over messages of equal length. -/
theorem run_xor : ∀ (m₁ m₂ : List Bool) (s₁ s₂ : BitVec 32), m₁.length = m₂.length →
    run (s₁ ^^^ s₂) (List.zipWith (· != ·) m₁ m₂) = run s₁ m₁ ^^^ run s₂ m₂
  | [], [], _, _, _ => by simp [run]
  | b₁ :: m₁, b₂ :: m₂, s₁, s₂, h => by
    simp only [List.zipWith_cons_cons, run, step_xor]
    exact run_xor m₁ m₂ _ _ (by simpa using h)
  | [], _ :: _, _, _, h => by simp at h
  | _ :: _, [], _, _, h => by simp at h

theorem run_append (s : BitVec 32) (a b : List Bool) : run s (a ++ b) = run (run s a) b := by
  induction a generalizing s with
  | nil => rfl
  | cons x a ih => simp only [List.cons_append, run, ih]

/-- A zero bit cannot clear a non-zero register (bit 31 of the polynomial is set). -/
theorem step_zero_inj (s : BitVec 32) (h : step s false = 0#32) : s = 0#32 := by
  unfold step at h
  cases hb : s.getLsbD 0
  · rw [hb] at h
    simp only [bne_self_eq_false, Bool.false_eq_true, if_false, BitVec.xor_zero] at h
    ext i hi
    by_cases hi0 : i = 0
    · subst hi0; simpa using hb
    · have := congrArg (fun v => v.getLsbD (i - 1)) h
      simp only [BitVec.getLsbD_ushiftRight, BitVec.getLsbD_zero] at this
      have h2 : 1 + (i - 1) = i := by omega
      rw [h2] at this
      rw [← BitVec.getLsbD_eq_getElem]; simpa using this
  · rw [hb] at h
    have := congrArg (fun v => v.getLsbD 31) h
    simp [POLY] at this

theorem step_zero_zero : step 0#32 false = 0#32 := by decide

theorem run_zeros_zero (n : Nat) : run 0#32 (List.replicate n false) = 0#32 := by
  induction n with
  | zero => rfl
  | succ n ih => simp only [List.replicate_succ, run, step_zero_zero, ih]

theorem run_zero_inj : ∀ (n : Nat) (s : BitVec 32), run s (List.replicate n false) = 0#32 → s = 0#32
  | 0, s, h => by simpa [run] using h
  | n + 1, s, h => by
    simp only [List.replicate_succ, run] at h
    exact step_zero_inj s (run_zero_inj n _ h)

theorem step_inj (s s' : BitVec 32) (b : Bool) (h : step s b = step s' b) : s = s' := by
  have h1 := step_xor s s' b b
  rw [h, BitVec.xor_self] at h1
  simp only [bne_self_eq_false] at h1
  have := step_zero_inj _ h1
  have h2 : s ^^^ s' ^^^ s' = 0#32 ^^^ s' := by rw [this]
  rw [BitVec.xor_assoc, BitVec.xor_self, BitVec.xor_zero, BitVec.zero_xor] at h2
  exact h2

theorem run_inj : ∀ (m : List Bool) (s s' : BitVec 32), run s m = run s' m → s = s'
  | [], _, _, h => h
  | b :: m, s, s', h => step_inj s s' b (run_inj m _ _ h)

/-- 32-bit register whose bit `i` is element `i` of the list. -/
def ofBitsLE : List Bool → BitVec 32
  | [] => 0#32
  | b :: bs => (ofBitsLE bs <<< 1) ||| (if b then 1#32 else 0#32)

theorem ofBitsLE_high : ∀ (bs : List Bool) (i : Nat), bs.length ≤ i → (ofBitsLE bs).getLsbD i = false
  | [], i, _ => by simp [ofBitsLE]
  | b :: bs, i, h => by
    simp only [List.length_cons] at h
    simp only [ofBitsLE, BitVec.getLsbD_or, BitVec.getLsbD_shiftLeft]
    have : i ≠ 0 := by omega
    rw [ofBitsLE_high bs (i - 1) (by omega)]
    cases b <;> simp [this]

theorem step_ofBitsLE (b : Bool) (bs : List Bool) (h : bs.length ≤ 31) :
    step (ofBitsLE (b :: bs)) b = ofBitsLE bs := by
  have hlsb : (ofBitsLE (b :: bs)).getLsbD 0 = b := by
    simp [ofBitsLE]; cases b <;> simp
  unfold step
  rw [hlsb]
  simp only [bne_self_eq_false, Bool.false_eq_true, if_false, BitVec.xor_zero]
  ext i hi
  simp only [ofBitsLE, ← BitVec.getLsbD_eq_getElem, BitVec.getLsbD_ushiftRight, BitVec.getLsbD_or,
    BitVec.getLsbD_shiftLeft]
  by_cases h31 : i = 31
  · subst h31
    have := ofBitsLE_high bs 31 h
    rw [BitVec.getLsbD_eq_getElem (by omega)] at this
    simp [this]
  · have : 1 + i < 32 := by omega
    cases b <;> simp [this] <;> omega

theorem run_ofBitsLE : ∀ (bs : List Bool), bs.length ≤ 32 → run (ofBitsLE bs) bs = 0#32
  | [], _ => by simp [run, ofBitsLE]
  | b :: bs, h => by
    simp only [List.length_cons] at h
    rw [run, step_ofBitsLE b bs (by omega)]
    exact run_ofBitsLE bs (by omega)

/-- A block of at most 32 bits that drives the register from 0 back to 0 is all zero. -/
theorem burst32 (bs : List Bool) (h : bs.length ≤ 32) (h0 : run 0#32 bs = 0#32) :
    ofBitsLE bs = 0#32 :=
  (run_inj bs _ _ (h0.trans (run_ofBitsLE bs h).symm)).symm

theorem ofBitsLE_zero_all : ∀ (bs : List Bool), bs.length ≤ 32 → ofBitsLE bs = 0#32 →
    ∀ x ∈ bs, x = false
  | [], _, _ => by simp
  | b :: bs, h, h0 => by
    simp only [List.length_cons] at h
    have hb : b = false := by
      have := congrArg (fun v => v.getLsbD 0) h0
      simp only [ofBitsLE, BitVec.getLsbD_or, BitVec.getLsbD_shiftLeft, BitVec.getLsbD_zero] at this
      cases b <;> simp_all
    subst hb
    have hrest : ofBitsLE bs = 0#32 := by
      ext i hi
      by_cases h31 : i = 31
      · subst h31
        have := ofBitsLE_high bs 31 (by omega)
        rw [BitVec.getLsbD_eq_getElem (by omega)] at this
        simp [this]
      · have := congrArg (fun v => v.getLsbD (i + 1)) h0
        simp only [ofBitsLE, BitVec.getLsbD_or, BitVec.getLsbD_shiftLeft, BitVec.getLsbD_zero] at this
        have hlt : i + 1 < 32 := by omega
        rw [← BitVec.getLsbD_eq_getElem]
        simpa [hlt] using this
    intro x hx
    rcases List.mem_cons.1 hx with rfl | hx
    · rfl
    · exact ofBitsLE_zero_all bs (by omega) hrest x hx

/-- Burst detection on bit strings: zeros, then a block of ≤ 32 bits, then zeros, with zero
residue, forces the block to be all zero. -/
theorem run_zero_burst (a c : Nat) (bs : List Bool) (h : bs.length ≤ 32)
    (h0 : run 0#32 (List.replicate a false ++ bs ++ List.replicate c false) = 0#32) :
    ∀ x ∈ bs, x = false := by
  rw [run_append, run_append, run_zeros_zero] at h0
  exact ofBitsLE_zero_all bs h (burst32 bs h (run_zero_inj c _ h0))

/-! ### Parity: the generator has odd weight (17 of the 32 low coefficients), i.e. `x + 1`
divides it, so the parity of the register tracks the parity of the message. -/

/-- xor of the `n` low bits. -/
def parityN : Nat → BitVec 32 → Bool
  | 0, _ => false
  | n + 1, s => (parityN n s != s.getLsbD n)

def parity (s : BitVec 32) : Bool := parityN 32 s

/-- Parity (xor of all bits) of a bit string. -/
def par : List Bool → Bool
  | [] => false
  | b :: m => (b != par m)

theorem parityN_xor (n : Nat) (a b : BitVec 32) :
    parityN n (a ^^^ b) = (parityN n a != parityN n b) := by
  induction n with
  | zero => rfl
  | succ n ih =>
    simp only [parityN, ih, BitVec.getLsbD_xor]
    cases parityN n a <;> cases parityN n b <;> cases a.getLsbD n <;> cases b.getLsbD n <;> rfl

theorem parityN_shift (n : Nat) (s : BitVec 32) :
    parityN n (s >>> 1) = (parityN (n + 1) s != s.getLsbD 0) := by
  induction n with
  | zero => simp [parityN]
  | succ n ih =>
    rw [parityN, ih]
    simp only [parityN, BitVec.getLsbD_ushiftRight, Nat.add_comm 1 n]
    cases parityN n s <;> cases s.getLsbD n <;> cases s.getLsbD 0 <;> cases s.getLsbD (n + 1) <;> rfl

theorem parity_zero : parity 0#32 = false := by decide
theorem parity_POLY : parity POLY = true := by decide

theorem parity_step (s : BitVec 32) (b : Bool) : parity (step s b) = (parity s != b) := by
  unfold step parity
  rw [parityN_xor, parityN_shift]
  have h32 : s.getLsbD 32 = false := by simp
  have hp : parityN 33 s = parityN 32 s := by rw [parityN, h32]; simp
  rw [hp]
  have hP := parity_POLY; have hZ := parity_zero
  unfold parity at hP hZ
  cases s.getLsbD 0 <;> cases b <;> simp [hP, hZ]

theorem parity_run (m : List Bool) (s : BitVec 32) : parity (run s m) = (parity s != par m) := by
  induction m generalizing s with
  | nil => simp [run, par]
  | cons b m ih =>
    simp only [run, ih, parity_step, par]
    cases parity s <;> cases b <;> cases par m <;> rfl

/-- Odd-weight patterns leave a non-zero residue. -/
theorem run_zero_odd (m : List Bool) (h : par m = true) : run 0#32 m ≠ 0#32 := by
  intro h0
  have := parity_run m 0#32
  rw [h0, parity_zero, h] at this
  simp at this

theorem par_append (a b : List Bool) : par (a ++ b) = (par a != par b) := by
  induction a with
  | nil => simp [par]
  | cons x a ih => simp only [List.cons_append, par, ih]; cases x <;> cases par a <;> cases par b <;> rfl

theorem par_eq_count (m : List Bool) : par m = decide (m.count true % 2 = 1) := by
  induction m with
  | nil => rfl
  | cons b m ih =>
    rw [par, ih]
    cases b
    · simp
    · simp only [List.count_cons_self]
      by_cases h : m.count true % 2 = 1
      · have : ¬ (m.count true + 1) % 2 = 1 := by omega
        simp [h, this]
      · have : (m.count true + 1) % 2 = 1 := by omega
        simp [h, this]

/-! ### Residue form -/

/-- `k` low bits of `n`, least significant first. -/
def bitsLE : Nat → Nat → List Bool
  | _, 0 => []
  | n, k + 1 => n.testBit 0 :: bitsLE (n / 2) k

/-- Feeding the register its own bits (the stored `!crc32c` word, little endian) clears it. -/
theorem run_self : ∀ (k : Nat) (s : BitVec 32), s.toNat < 2 ^ k → run s (bitsLE s.toNat k) = 0#32
  | 0, s, h => by
    have : s.toNat = 0 := by simpa using h
    simp only [bitsLE, run]
    exact BitVec.eq_of_toNat_eq (by simpa using this)
  | k + 1, s, h => by
    have hs : step s (s.toNat.testBit 0) = s >>> 1 := by
      unfold step
      have : s.getLsbD 0 = s.toNat.testBit 0 := rfl
      rw [this]; simp
    have hn : (s >>> 1).toNat = s.toNat / 2 := by
      rw [BitVec.toNat_ushiftRight, Nat.shiftRight_eq_div_pow]
    rw [bitsLE, run, hs, ← hn]
    apply run_self k
    rw [hn, Nat.pow_succ] at *; omega

theorem bitsLE_append (n m j : Nat) : bitsLE n (m + j) = bitsLE n m ++ bitsLE (n / 2 ^ m) j := by
  induction m generalizing n with
  | zero => simp [bitsLE]
  | succ m ih =>
    rw [show m + 1 + j = (m + j) + 1 by omega, bitsLE, bitsLE, ih, List.cons_append]
    congr 2
    rw [Nat.div_div_eq_div_mul, Nat.pow_succ, Nat.mul_comm]

theorem bitsOf_append (a b : List UInt8) : bitsOf (a ++ b) = bitsOf a ++ bitsOf b := by
  induction a with
  | nil => rfl
  | cons x a ih => simp only [List.cons_append, bitsOf, ih, List.append_assoc]

theorem length_bitsOf (m : List UInt8) : (bitsOf m).length = 8 * m.length := by
  induction m with
  | nil => rfl
  | cons x m ih => simp only [bitsOf, byteBits, List.length_append, List.length_cons, ih,
      List.length_nil]; omega

theorem byteBits_ofNat (n : Nat) : byteBits (UInt8.ofNat (n % 256)) = bitsLE n 8 := by
  have h : (UInt8.ofNat (n % 256)).toNat = n % 2 ^ 8 := by
    simp [UInt8.toNat_ofNat']
  simp only [byteBits, bit, h, bitsLE, Nat.testBit_mod_two_pow, Nat.div_div_eq_div_mul]
  simp [Nat.testBit, Nat.shiftRight_eq_div_pow]

theorem bitsOf_leBytes (n k : Nat) : bitsOf (leBytes n k) = bitsLE n (8 * k) := by
  induction k generalizing n with
  | zero => rfl
  | succ k ih =>
    rw [leBytes, bitsOf, ih, byteBits_ofNat, show 8 * (k + 1) = 8 + 8 * k by omega, bitsLE_append]

/-- Residue form at the byte level: data followed by the little-endian register value. -/
theorem run_stored (s : BitVec 32) (data : List UInt8) :
    run s (bitsOf (data ++ leBytes (run s (bitsOf data)).toNat 4)) = 0#32 := by
  rw [bitsOf_append, run_append, bitsOf_leBytes]
  exact run_self 32 _ (BitVec.isLt _)

end AlphaG.Crc
