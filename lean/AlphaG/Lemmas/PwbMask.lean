import AlphaG.Model.Pwb
import AlphaG.Lemmas.Bytes
/-
Lemmas about the 80-bit channel masks of a PWB packet: the `leading_zeros` loop terminates
and enumerates the set bits; the readout-index ↔ channel-id mapping is a bijection.
Core Lean only.
-/
namespace AlphaG.Pwb

/-- Set bits of `m` below `n`, descending. -/
def bitsDesc (m : Nat) : Nat → List Nat
  | 0 => []
  | n + 1 => if m.testBit n then n :: bitsDesc m n else bitsDesc m n

theorem bitsDesc_congr {a b : Nat} : ∀ n, (∀ i, i < n → a.testBit i = b.testBit i) →
    bitsDesc a n = bitsDesc b n
  | 0, _ => rfl
  | n + 1, h => by
    simp only [bitsDesc, h n (Nat.lt_succ_self n),
      bitsDesc_congr n (fun i hi => h i (Nat.lt_succ_of_lt hi))]

/-- The `while num != 0` loop of the decoder pushes exactly the set bits of `num`, highest
first, and needs at most `n` iterations for a value below `2^n` (termination: 128 iterations
suffice for every `u128`). -/
theorem maskLoop_eq : ∀ (n m fuel : Nat), m < 2 ^ n → n ≤ fuel → maskLoop fuel m = bitsDesc m n
  | 0, m, fuel, hm, _ => by
    have : m = 0 := by simpa using hm
    subst this
    cases fuel <;> simp [maskLoop, bitsDesc]
  | n + 1, m, fuel, hm, hf => by
    by_cases hb : m.testBit n = true
    · obtain ⟨f, rfl⟩ : ∃ f, fuel = f + 1 := ⟨fuel - 1, by omega⟩
      have hge : 2 ^ n ≤ m := Nat.ge_two_pow_of_testBit hb
      have hm0 : m ≠ 0 := by
        have : 0 < 2 ^ n := Nat.two_pow_pos n
        omega
      have hlog : m.log2 = n := (Nat.log2_eq_iff hm0).2 ⟨hge, hm⟩
      have hx : m ^^^ (1 <<< n) < 2 ^ n := by
        apply Nat.lt_pow_two_of_testBit
        intro i hi
        rw [Nat.testBit_xor, Nat.one_shiftLeft, Nat.testBit_two_pow]
        by_cases hin : n = i
        · subst hin; simp [hb]
        · have : m.testBit i = false :=
            Nat.testBit_lt_two_pow (Nat.lt_of_lt_of_le hm (Nat.pow_le_pow_right (by omega) (by omega)))
          simp [this, hin]
      have hc : bitsDesc (m ^^^ (1 <<< n)) n = bitsDesc m n := by
        apply bitsDesc_congr
        intro i hi
        rw [Nat.testBit_xor, Nat.one_shiftLeft, Nat.testBit_two_pow]
        have : ¬ n = i := by omega
        simp [this]
      rw [maskLoop, if_neg hm0, hlog, maskLoop_eq n _ f hx (by omega), hc, bitsDesc, if_pos hb]
    · have hb' : m.testBit n = false := by simpa using hb
      have hlt : m < 2 ^ n := by
        apply Nat.lt_pow_two_of_testBit
        intro i hi
        by_cases hin : n = i
        · subst hin; exact hb'
        · exact Nat.testBit_lt_two_pow
            (Nat.lt_of_lt_of_le hm (Nat.pow_le_pow_right (by omega) (by omega)))
      rw [maskLoop_eq n m fuel hlt (by omega), bitsDesc, if_neg hb]

theorem bitsDesc_reverse (m : Nat) : ∀ n,
    (bitsDesc m n).reverse = (List.range n).filter (fun i => m.testBit i)
  | 0 => rfl
  | n + 1 => by
    rw [List.range_succ, List.filter_append, bitsDesc]
    by_cases hb : m.testBit n = true
    · simp [hb, bitsDesc_reverse m n]
    · simp [hb, bitsDesc_reverse m n]

/-- Set bits of `m` below `n`, ascending: the specification of the mask → index list step. -/
def setBits (m n : Nat) : List Nat := (List.range n).filter (fun i => m.testBit i)

theorem maskLoop_reverse (m n : Nat) (hm : m < 2 ^ n) (hn : n ≤ 128) :
    (maskLoop 128 m).reverse = setBits m n := by
  rw [maskLoop_eq n m 128 hm hn, bitsDesc_reverse]; rfl

theorem mem_setBits {m n i : Nat} : i ∈ setBits m n ↔ i < n ∧ m.testBit i = true := by
  simp [setBits]

theorem setBits_pairwise (m n : Nat) : (setBits m n).Pairwise (· < ·) := by
  unfold setBits
  exact List.Pairwise.filter _ List.pairwise_lt_range

/-! ### Readout index ↔ channel id -/

/-- The channel ids that exist: 3 reset, 4 FPN, 72 pads. -/
def ChannelId.Valid : ChannelId → Prop
  | .reset n => 1 ≤ n ∧ n ≤ 3
  | .fpn n => 1 ≤ n ∧ n ≤ 4
  | .pad n => 1 ≤ n ∧ n ≤ 72

instance ChannelId.decValid (c : ChannelId) : Decidable c.Valid := by
  cases c <;> unfold ChannelId.Valid <;> infer_instance

/-- On 1..=79 the conversion succeeds, never underflows, yields an existing id and
`channelToReadout` undoes it. -/
theorem readout_left_inv : ∀ i, i < 79 →
    idxOk i = true ∧ ∃ c, readoutToChannel (i + 1) = some c ∧ c.Valid ∧ channelToReadout c = i + 1 := by
  have h : ∀ i, i < 79 → idxOk i = true ∧
      (match readoutToChannel (i + 1) with
       | some c => decide c.Valid && decide (channelToReadout c = i + 1)
       | none => false) = true := by decide +kernel
  intro i hi
  obtain ⟨h1, h2⟩ := h i hi
  refine ⟨h1, ?_⟩
  cases hc : readoutToChannel (i + 1) with
  | none => rw [hc] at h2; cases h2
  | some c =>
    rw [hc] at h2
    simp only [Bool.and_eq_true, decide_eq_true_eq] at h2
    exact ⟨c, rfl, h2.1, h2.2⟩

theorem readout_none_of_out (i : Nat) (h : i = 0 ∨ 80 ≤ i) : readoutToChannel i = none := by
  unfold readoutToChannel
  rcases h with h | h
  · subst h; simp
  · have h1 : ¬(1 ≤ i ∧ i ≤ 3) := by omega
    have h2 : ¬(4 ≤ i ∧ i ≤ 79) := by omega
    have : i ≠ 16 ∧ i ≠ 29 ∧ i ≠ 54 ∧ i ≠ 67 := by omega
    simp [h1, h2, this.1, this.2.1, this.2.2.1, this.2.2.2]

theorem readout_some_iff (i : Nat) : (readoutToChannel i).isSome = true ↔ 1 ≤ i ∧ i ≤ 79 := by
  constructor
  · intro h
    by_cases hc : i = 0 ∨ 80 ≤ i
    · rw [readout_none_of_out i hc] at h; cases h
    · omega
  · intro ⟨h1, h2⟩
    obtain ⟨_, c, hc, _⟩ := readout_left_inv (i - 1) (by omega)
    rw [show i - 1 + 1 = i by omega] at hc
    simp [hc]

theorem readout_right_inv : ∀ c : ChannelId, c.Valid →
    1 ≤ channelToReadout c ∧ channelToReadout c ≤ 79 ∧ readoutToChannel (channelToReadout c) = some c := by
  intro c hc
  cases c with
  | reset n =>
    have h : ∀ n, n < 4 → 1 ≤ n → (1 ≤ channelToReadout (.reset n) ∧ channelToReadout (.reset n) ≤ 79
        ∧ readoutToChannel (channelToReadout (.reset n)) = some (.reset n)) := by decide +kernel
    exact h n (by unfold ChannelId.Valid at hc; omega) hc.1
  | fpn n =>
    have h : ∀ n, n < 5 → 1 ≤ n → (1 ≤ channelToReadout (.fpn n) ∧ channelToReadout (.fpn n) ≤ 79
        ∧ readoutToChannel (channelToReadout (.fpn n)) = some (.fpn n)) := by decide +kernel
    exact h n (by unfold ChannelId.Valid at hc; omega) hc.1
  | pad n =>
    have h : ∀ n, n < 73 → 1 ≤ n → (1 ≤ channelToReadout (.pad n) ∧ channelToReadout (.pad n) ≤ 79
        ∧ readoutToChannel (channelToReadout (.pad n)) = some (.pad n)) := by decide +kernel
    exact h n (by unfold ChannelId.Valid at hc; omega) hc.1

/-- No readout index makes the `u16` subtraction chain of the pad arm underflow. -/
theorem readout_no_underflow (i : Nat) : readoutUnderflows i = false := by
  unfold readoutUnderflows padGap
  simp only [decide_eq_false_iff_not]
  intro ⟨h1, h2, h3, h4, h5, h6, h7⟩
  split at h7 <;> split at h7 <;> split at h7 <;> split at h7 <;> omega

theorem readout_eq_some {i : Nat} {c : ChannelId} (h : readoutToChannel i = some c) :
    1 ≤ i ∧ i ≤ 79 ∧ c.Valid ∧ channelToReadout c = i := by
  have hs : (readoutToChannel i).isSome = true := by simp [h]
  have hr := (readout_some_iff i).1 hs
  obtain ⟨_, c', hc', hv, hinv⟩ := readout_left_inv (i - 1) (by omega)
  rw [show i - 1 + 1 = i by omega] at hc' hinv
  rw [h] at hc'
  cases hc'
  exact ⟨hr.1, hr.2, hv, hinv⟩

theorem readout_inj {i j : Nat} {c : ChannelId} (hi : readoutToChannel i = some c)
    (hj : readoutToChannel j = some c) : i = j := by
  rw [← (readout_eq_some hi).2.2.2, ← (readout_eq_some hj).2.2.2]

end AlphaG.Pwb
