import AlphaG.Lemmas.DriftLookup
/-
Values of the linear interpolation between bracketing knots (exact arithmetic): range,
knot reproduction, monotonicity and the Lipschitz bound.
-/
set_option linter.unusedSectionVars false

namespace AlphaG.Drift

variable {K : Type} [Field K] [LinearOrder K] [IsStrictOrderedRing K]

/-! ### One segment -/

/-- value at `t` of the line through `(a, p)` and `(b, q)`, in the code's form -/
def seg (a b p q t : K) : K := p + (t - a) / (b - a) * (q - p)

theorem seg_left (a b p q : K) : seg a b p q a = p := by simp [seg]

theorem seg_right {a b : K} (p q : K) (hab : a < b) : seg a b p q b = q := by
  have : b - a ≠ 0 := ne_of_gt (sub_pos.2 hab)
  simp [seg, div_self this]

theorem seg_diff {a b : K} (p q t t' : K) (hab : a < b) :
    seg a b p q t - seg a b p q t' = (t' - t) / (b - a) * (p - q) := by
  have : b - a ≠ 0 := ne_of_gt (sub_pos.2 hab)
  unfold seg; field_simp; ring

theorem seg_anti {a b p q t t' : K} (hab : a < b) (hqp : q ≤ p) (htt : t ≤ t') :
    seg a b p q t' ≤ seg a b p q t := by
  have h := seg_diff p q t t' hab
  have : 0 ≤ (t' - t) / (b - a) * (p - q) :=
    mul_nonneg (div_nonneg (sub_nonneg.2 htt) (le_of_lt (sub_pos.2 hab))) (sub_nonneg.2 hqp)
  linarith

theorem seg_mono {a b p q t t' : K} (hab : a < b) (hpq : p ≤ q) (htt : t ≤ t') :
    seg a b p q t ≤ seg a b p q t' := by
  have h := seg_diff p q t t' hab
  have : 0 ≤ (t' - t) / (b - a) * (q - p) :=
    mul_nonneg (div_nonneg (sub_nonneg.2 htt) (le_of_lt (sub_pos.2 hab))) (sub_nonneg.2 hpq)
  have e : (t' - t) / (b - a) * (p - q) = -((t' - t) / (b - a) * (q - p)) := by ring
  linarith

theorem seg_lip {a b p q t t' M : K} (hab : a < b) (hM : p - q ≤ M * (b - a)) (htt : t ≤ t') :
    seg a b p q t - seg a b p q t' ≤ M * (t' - t) := by
  rw [seg_diff p q t t' hab]
  have hba : 0 < b - a := sub_pos.2 hab
  have h1 : 0 ≤ (t' - t) / (b - a) := div_nonneg (sub_nonneg.2 htt) (le_of_lt hba)
  calc (t' - t) / (b - a) * (p - q) ≤ (t' - t) / (b - a) * (M * (b - a)) :=
        mul_le_mul_of_nonneg_left hM h1
    _ = M * (t' - t) := by field_simp

/-! ### The interpolation of the model is `seg` -/

/-- radius returned for the bracket `k-1, k` -/
def rOf (tb : List (Knot K)) (k : Nat) (t : K) : K :=
  (interp (fieldOps K) (kn tb (k - 1)) (kn tb k) t).1
/-- Lorentz correction returned for the bracket `k-1, k` -/
def cOf (tb : List (Knot K)) (k : Nat) (t : K) : K :=
  (interp (fieldOps K) (kn tb (k - 1)) (kn tb k) t).2

theorem rOf_eq (tb : List (Knot K)) (k : Nat) (t : K) :
    rOf tb k t = seg (kn tb (k - 1)).t (kn tb k).t (kn tb (k - 1)).r (kn tb k).r t := rfl
theorem cOf_eq (tb : List (Knot K)) (k : Nat) (t : K) :
    cOf tb k t = seg (kn tb (k - 1)).t (kn tb k).t (kn tb (k - 1)).c (kn tb k).c t := rfl

section bracket
variable {tb : List (Knot K)} (ok : SliceOk tb)
include ok

theorem bracket_time_lt {t : K} {k : Nat} (hb : Bracket tb t k) :
    (kn tb (k - 1)).t < (kn tb k).t := by
  have := ok.time_lt (k - 1) (by have := hb.1; have := hb.2.1; omega)
  rwa [show k - 1 + 1 = k by have := hb.1; omega] at this

theorem bracket_radius_ge {t : K} {k : Nat} (hb : Bracket tb t k) :
    (kn tb k).r ≤ (kn tb (k - 1)).r := by
  have := ok.radius_ge (k - 1) (by have := hb.1; have := hb.2.1; omega)
  rwa [show k - 1 + 1 = k by have := hb.1; omega] at this

theorem bracket_corr_le {t : K} {k : Nat} (hb : Bracket tb t k) :
    (kn tb (k - 1)).c ≤ (kn tb k).c := by
  have := ok.corr_le (k - 1) (by have := hb.1; have := hb.2.1; omega)
  rwa [show k - 1 + 1 = k by have := hb.1; omega] at this

/-- the interpolated radius lies between the radii of the two bracketing knots -/
theorem rOf_bounds {t : K} {k : Nat} (hb : Bracket tb t k) :
    (kn tb k).r ≤ rOf tb k t ∧ rOf tb k t ≤ (kn tb (k - 1)).r := by
  have hab := bracket_time_lt ok hb
  have hqp := bracket_radius_ge ok hb
  rw [rOf_eq]
  constructor
  · have := seg_anti (p := (kn tb (k - 1)).r) (q := (kn tb k).r) hab hqp hb.2.2.2
    rwa [seg_right _ _ hab] at this
  · have := seg_anti (p := (kn tb (k - 1)).r) (q := (kn tb k).r) hab hqp hb.2.2.1
    rwa [seg_left] at this

/-- the interpolated correction lies between the corrections of the two bracketing knots -/
theorem cOf_bounds {t : K} {k : Nat} (hb : Bracket tb t k) :
    (kn tb (k - 1)).c ≤ cOf tb k t ∧ cOf tb k t ≤ (kn tb k).c := by
  have hab := bracket_time_lt ok hb
  have hpq := bracket_corr_le ok hb
  rw [cOf_eq]
  constructor
  · have := seg_mono (p := (kn tb (k - 1)).c) (q := (kn tb k).c) hab hpq hb.2.2.1
    rwa [seg_left] at this
  · have := seg_mono (p := (kn tb (k - 1)).c) (q := (kn tb k).c) hab hpq hb.2.2.2
    rwa [seg_right _ _ hab] at this

/-- a bracket of a tabulated time is adjacent to its knot -/
theorem bracket_knot {j k : Nat} (hj : j < tb.length) (hb : Bracket tb (kn tb j).t k) :
    j = k - 1 ∨ j = k := by
  obtain ⟨h1, hk, hlo, hhi⟩ := hb
  by_contra hc
  rcases Nat.lt_or_ge j (k - 1) with h | h
  · exact absurd (lt_of_lt_of_le (ok.time_strict h (by omega)) hlo) (lt_irrefl _)
  · have hkj : k < j := by omega
    exact absurd (lt_of_lt_of_le (ok.time_strict hkj hj) hhi) (lt_irrefl _)

/-- at a tabulated time the interpolation returns the tabulated radius exactly -/
theorem rOf_knot {j k : Nat} (hj : j < tb.length) (hb : Bracket tb (kn tb j).t k) :
    rOf tb k (kn tb j).t = (kn tb j).r := by
  have hab := bracket_time_lt ok hb
  rw [rOf_eq]
  rcases bracket_knot ok hj hb with h | h
  · subst h; exact seg_left _ _ _ _
  · subst h; exact seg_right _ _ hab

theorem cOf_knot {j k : Nat} (hj : j < tb.length) (hb : Bracket tb (kn tb j).t k) :
    cOf tb k (kn tb j).t = (kn tb j).c := by
  have hab := bracket_time_lt ok hb
  rw [cOf_eq]
  rcases bracket_knot ok hj hb with h | h
  · subst h; exact seg_left _ _ _ _
  · subst h; exact seg_right _ _ hab

/-- telescoped slope bound between knots -/
theorem knot_lip {M : K} {i : Nat} (m : Nat)
    (hM : ∀ j, i ≤ j → j < m → (kn tb j).r - (kn tb (j + 1)).r ≤ M * ((kn tb (j + 1)).t - (kn tb j).t))
    (him : i ≤ m) (hm : m < tb.length) :
    (kn tb i).r - (kn tb m).r ≤ M * ((kn tb m).t - (kn tb i).t) := by
  induction m with
  | zero => have : i = 0 := by omega
            subst this; simp
  | succ m ih =>
    rcases Nat.lt_or_ge i (m + 1) with h | h
    · have h1 := ih (fun j h1 h2 => hM j h1 (by omega)) (by omega) (by omega)
      have h2 := hM m (by omega) (by omega)
      have e : M * ((kn tb (m + 1)).t - (kn tb i).t)
          = M * ((kn tb m).t - (kn tb i).t) + M * ((kn tb (m + 1)).t - (kn tb m).t) := by ring
      rw [e]; linarith
    · have : i = m + 1 := by omega
      subst this; simp

/-- Two lookups `t ≤ t'` in the same table: the radius does not increase, and decreases by at
most `M · (t' - t)` when `M` bounds the slopes of the knot intervals touching `[t, t']`. -/
theorem rOf_two {t t' M : K} {k k' : Nat} (hb : Bracket tb t k) (hb' : Bracket tb t' k')
    (htt : t ≤ t')
    (hM : ∀ j, j + 1 < tb.length → (kn tb j).t ≤ t' → t ≤ (kn tb (j + 1)).t →
      (kn tb j).r - (kn tb (j + 1)).r ≤ M * ((kn tb (j + 1)).t - (kn tb j).t)) :
    rOf tb k' t' ≤ rOf tb k t ∧ rOf tb k t - rOf tb k' t' ≤ M * (t' - t) := by
  have hab := bracket_time_lt ok hb
  have hab' := bracket_time_lt ok hb'
  have hqp := bracket_radius_ge ok hb
  have hqp' := bracket_radius_ge ok hb'
  obtain ⟨h1, hk, hlo, hhi⟩ := hb
  obtain ⟨h1', hk', hlo', hhi'⟩ := hb'
  have e1 : k - 1 + 1 = k := by omega
  have e1' : k' - 1 + 1 = k' := by omega
  rcases Nat.lt_trichotomy k k' with h | h | h
  · -- different segments, in order
    have hkk : (kn tb k).t ≤ (kn tb (k' - 1)).t := ok.time_mono (by omega) (by omega)
    have hs1 : (kn tb (k - 1)).r - (kn tb k).r ≤ M * ((kn tb k).t - (kn tb (k - 1)).t) := by
      have := hM (k - 1) (by omega) (le_trans hlo htt) (by rw [e1]; exact hhi)
      rwa [e1] at this
    have hs2 : (kn tb (k' - 1)).r - (kn tb k').r ≤ M * ((kn tb k').t - (kn tb (k' - 1)).t) := by
      have := hM (k' - 1) (by omega) hlo' (by rw [e1']; exact le_trans htt hhi')
      rwa [e1'] at this
    have hmid := knot_lip ok (M := M) (i := k) (k' - 1)
      (fun j hj1 hj2 => hM j (by omega)
        (le_trans (ok.time_mono (by omega : j ≤ k' - 1) (by omega)) hlo')
        (le_trans hhi (ok.time_mono (by omega : k ≤ j + 1) (by omega))))
      (by omega) (by omega)
    have hr : (kn tb (k' - 1)).r ≤ (kn tb k).r := ok.radius_anti (by omega) (by omega)
    -- first piece: from t to the right knot of its segment
    have p1 := seg_lip (p := (kn tb (k - 1)).r) (q := (kn tb k).r) hab hs1 hhi
    have a1 := seg_anti (p := (kn tb (k - 1)).r) (q := (kn tb k).r) hab hqp hhi
    rw [seg_right _ _ hab] at p1 a1
    -- last piece: from the left knot of the segment of t' to t'
    have p3 := seg_lip (p := (kn tb (k' - 1)).r) (q := (kn tb k').r) hab' hs2 hlo'
    have a3 := seg_anti (p := (kn tb (k' - 1)).r) (q := (kn tb k').r) hab' hqp' hlo'
    rw [seg_left] at p3 a3
    rw [rOf_eq, rOf_eq]
    constructor
    · linarith
    · have e : M * (t' - t) = M * ((kn tb k).t - t) + M * ((kn tb (k' - 1)).t - (kn tb k).t)
          + M * (t' - (kn tb (k' - 1)).t) := by ring
      rw [e]; linarith
  · -- same segment
    subst h
    have hs1 : (kn tb (k - 1)).r - (kn tb k).r ≤ M * ((kn tb k).t - (kn tb (k - 1)).t) := by
      have := hM (k - 1) (by omega) hlo' (by rw [e1]; exact hhi)
      rwa [e1] at this
    rw [rOf_eq, rOf_eq]
    exact ⟨seg_anti hab hqp htt, seg_lip hab hs1 htt⟩
  · -- the bracket of the later time is earlier: both times sit on the common knot
    have hkk : (kn tb k').t ≤ (kn tb (k - 1)).t := ok.time_mono (by omega) (by omega)
    have et : t = t' := le_antisymm htt (le_trans hhi' (le_trans hkk hlo))
    have et' : t' = (kn tb k').t := le_antisymm hhi' (le_trans hkk (le_trans hlo htt))
    have ek : (kn tb (k - 1)).t = (kn tb k').t :=
      le_antisymm (by rw [← et', ← et]; exact hlo) hkk
    have hkeq : k' = k - 1 := by
      by_contra hne
      have : k' < k - 1 := by omega
      exact absurd (ok.time_strict this (by omega)) (by rw [ek]; exact lt_irrefl _)
    have v1 : rOf tb k t = (kn tb (k - 1)).r := by
      rw [rOf_eq, et, et', ← ek]; exact seg_left _ _ _ _
    have v2 : rOf tb k' t' = (kn tb k').r := by
      rw [rOf_eq, et']; exact seg_right _ _ hab'
    rw [v1, v2, hkeq, et]
    simp

end bracket

/-- A common slope bound below `B / D` exists for finitely many intervals that each satisfy
`a j * D < B * b j`. -/
theorem exists_slope_bound {D B : K} (hB : 0 < B) (N : Nat) (a b : Nat → K) (P : Nat → Prop)
    (h : ∀ j, j < N → P j → 0 < b j ∧ a j * D < B * b j) :
    ∃ M, 0 ≤ M ∧ M * D < B ∧ ∀ j, j < N → P j → a j ≤ M * b j := by
  induction N with
  | zero => exact ⟨0, le_refl _, by simpa using hB, fun j hj => absurd hj (Nat.not_lt_zero _)⟩
  | succ N ih =>
    obtain ⟨M, hM0, hMD, hMa⟩ := ih (fun j hj hp => h j (by omega) hp)
    classical
    by_cases hP : P N
    · obtain ⟨hb, hab⟩ := h N (by omega) hP
      refine ⟨max M (a N / b N), le_max_of_le_left hM0, ?_, ?_⟩
      · rcases max_choice M (a N / b N) with e | e
        · rw [e]; exact hMD
        · rw [e]
          have : a N / b N * D = a N * D / b N := by ring
          rw [this, div_lt_iff₀ hb]; exact hab
      · intro j hj hp
        rcases Nat.lt_or_ge j N with hjn | hjn
        · have hbj := (h j (by omega) hp).1
          exact le_trans (hMa j hjn hp) (mul_le_mul_of_nonneg_right (le_max_left _ _) (le_of_lt hbj))
        · have : j = N := by omega
          subst this
          calc a j = a j / b j * b j := by field_simp
            _ ≤ max M (a j / b j) * b j := mul_le_mul_of_nonneg_right (le_max_right _ _) (le_of_lt hb)
    · refine ⟨M, hM0, hMD, ?_⟩
      intro j hj hp
      rcases Nat.lt_or_ge j N with hjn | hjn
      · exact hMa j hjn hp
      · have : j = N := by omega
        subst this; exact absurd hp hP

end AlphaG.Drift
