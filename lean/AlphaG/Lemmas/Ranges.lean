import AlphaG.Lemmas.RangesLin
/-
Theorems on the ring logic of `contiguous_ranges` (model `AlphaG/Model/Ranges.lean`, spec
`AlphaG/Lemmas/RangesSpec.lean`).
-/
namespace AlphaG.Ranges

/-- occupancy as a function of the absolute wire index -/
def occF (occ : List Bool) (j : Nat) : Bool := occ.getD j false

theorem occAt_eq (occ : List Bool) (x y : Nat) (hy : y < occ.length)
    (h : x = y ∨ x = y + occ.length) : occAt occ x = occF occ y := by
  unfold occAt occF
  rcases h with rfl | rfl
  · rw [Nat.mod_eq_of_lt hy]
  · rw [Nat.add_mod_right, Nat.mod_eq_of_lt hy]

theorem top_mem (occ : List Bool) (s e : Nat) :
    (s, e) ∈ scan occ 0 none ↔ LinRun (occF occ) 0 occ.length s e := by
  have := scan_mem (occF occ) occ 0 none (by
    intro j hj
    simp [occF, List.getD_eq_getElem?_getD, List.getElem?_eq_getElem hj])
    (by intro s0 h; cases h) s e
  simpa using this

theorem ringRunF_iff (occ : List Bool) (r : Nat × Nat) :
    RingRunF (occF occ) occ.length r ↔ IsRingRun occ r := by
  obtain ⟨s, e⟩ := r
  unfold RingRunF IsRingRun
  dsimp only
  constructor
  · rintro (⟨⟨a1, a2, a3, a4, a5, a6⟩, c1, c2⟩ | ⟨h1, ⟨a1, a2, a3, a4, a5, a6⟩, ⟨b1, b2, b3, b4, b5, b6⟩⟩)
    · refine ⟨by omega, ?_, e - s, by omega, ?_, ?_, ?_⟩
      · by_cases hs : s = 0
        · subst hs
          rw [occAt_eq occ _ (occ.length - 1) (by omega) (Or.inl (by omega))]
          cases h : occF occ (occ.length - 1) with
          | false => rfl
          | true => exact absurd ⟨rfl, h⟩ c1
        · rw [occAt_eq occ _ (s - 1) (by omega) (Or.inr (by omega))]
          rcases a5 with a5 | a5
          · omega
          · exact a5
      · intro d hd
        rw [occAt_eq occ _ (s + d) (by omega) (Or.inl rfl)]
        exact a4 (s + d) (by omega) (by omega)
      · by_cases he : e = occ.length
        · rw [occAt_eq occ _ 0 (by omega) (Or.inr (by omega))]
          cases h : occF occ 0 with
          | false => rfl
          | true => exact absurd ⟨he, h⟩ c2
        · rw [occAt_eq occ _ e (by omega) (Or.inl (by omega))]
          rcases a6 with a6 | a6
          · omega
          · exact a6
      · rw [if_pos (by omega)]; omega
    · refine ⟨by omega, ?_, occ.length - s + e, by omega, ?_, ?_, ?_⟩
      · rw [occAt_eq occ _ (s - 1) (by omega) (Or.inr (by omega))]
        rcases b5 with b5 | b5
        · omega
        · exact b5
      · intro d hd
        by_cases hd' : s + d < occ.length
        · rw [occAt_eq occ _ (s + d) (by omega) (Or.inl rfl)]
          exact b4 (s + d) (by omega) (by omega)
        · rw [occAt_eq occ _ (s + d - occ.length) (by omega) (Or.inr (by omega))]
          exact a4 _ (by omega) (by omega)
      · rw [occAt_eq occ _ e (by omega) (Or.inr (by omega))]
        rcases a6 with a6 | a6
        · omega
        · exact a6
      · rw [if_neg (by omega)]; omega
  · rintro ⟨h1, h2, len, h3, h4, h5, h6⟩
    have hlen : len < occ.length := by
      apply Classical.byContradiction
      intro hc
      have := h4 (occ.length - 1) (by omega)
      have e' : s + (occ.length - 1) = s + occ.length - 1 := by omega
      rw [e'] at this
      exact bool_contra this h2
    by_cases hw : s + len ≤ occ.length
    · rw [if_pos hw] at h6
      subst h6
      left
      refine ⟨⟨Nat.zero_le _, by omega, hw, ?_, ?_, ?_⟩, ?_, ?_⟩
      · intro j hj1 hj2
        have := h4 (j - s) (by omega)
        rwa [occAt_eq occ _ j (by omega) (Or.inl (by omega))] at this
      · by_cases hs : s = 0
        · exact Or.inl hs
        · right
          have := h2
          rwa [occAt_eq occ _ (s - 1) (by omega) (Or.inr (by omega))] at this
      · by_cases he : s + len = occ.length
        · exact Or.inl he
        · right
          have := h5
          rwa [occAt_eq occ _ (s + len) (by omega) (Or.inl rfl)] at this
      · rintro ⟨hs, hf⟩
        have := h2
        rw [occAt_eq occ _ (occ.length - 1) (by omega) (Or.inl (by omega))] at this
        exact bool_contra hf this
      · rintro ⟨he, hf⟩
        have := h5
        rw [occAt_eq occ _ 0 (by omega) (Or.inr (by omega))] at this
        exact bool_contra hf this
    · rw [if_neg hw] at h6
      subst h6
      right
      refine ⟨by omega, ⟨Nat.le_refl _, by omega, by omega, ?_, Or.inl rfl, Or.inr ?_⟩,
        ⟨Nat.zero_le _, h1, Nat.le_refl _, ?_, ?_, Or.inl rfl⟩⟩
      · intro j _ hj2
        have := h4 (occ.length - s + j) (by omega)
        rwa [occAt_eq occ _ j (by omega) (Or.inr (by omega))] at this
      · have := h5
        rwa [occAt_eq occ _ (s + len - occ.length) (by omega) (Or.inr (by omega))] at this
      · intro j hj1 hj2
        have := h4 (j - s) (by omega)
        rwa [occAt_eq occ _ j (by omega) (Or.inl (by omega))] at this
      · right
        have := h2
        rwa [occAt_eq occ _ (s - 1) (by omega) (Or.inr (by omega))] at this

theorem notfull_iff (occ : List Bool) :
    false ∈ occ ↔ ∃ z, z < occ.length ∧ occF occ z = false := by
  rw [List.mem_iff_getElem]
  constructor
  · rintro ⟨i, h, hi⟩
    exact ⟨i, h, by simp [occF, List.getD_eq_getElem?_getD, List.getElem?_eq_getElem h, hi]⟩
  · rintro ⟨z, h, hz⟩
    refine ⟨z, h, ?_⟩
    simpa [occF, List.getD_eq_getElem?_getD, List.getElem?_eq_getElem h] using hz

/-- not full → the ranges are, up to permutation, exactly the maximal runs on the ring -/
theorem ranges_spec (occ : List Bool) (hnf : false ∈ occ) :
    (∀ r, r ∈ contiguousRanges occ ↔ IsRingRun occ r) ∧ (contiguousRanges occ).Nodup := by
  obtain ⟨z, hz, hfz⟩ := (notfull_iff occ).1 hnf
  have := merge_spec (occF occ) occ.length (scan occ 0 none) (by omega) (top_mem occ)
    (scan_sorted occ 0 none) (by
      intro h
      exact bool_contra (h.2.2.2.1 z (Nat.zero_le _) hz) hfz)
  refine ⟨?_, this.2⟩
  intro r
  rw [← ringRunF_iff]
  exact this.1 r


/-- end of a run of `len` wires from `s` in the code's convention -/
def mkEnd (n s len : Nat) : Nat := if s + len ≤ n then s + len else s + len - n

theorem ringSeq_mk (n s len : Nat) (hs : s < n) (h0 : 0 < len) (hl : len ≤ n) :
    rangeToIndices n (s, mkEnd n s len) = ringSeq n s len ∧
      rangeToLen n (s, mkEnd n s len) = len := by
  unfold mkEnd rangeToIndices rangeToLen ringSeq
  by_cases h : s + len ≤ n
  · simp only [if_pos h]
    rw [if_pos (by omega), if_pos (by omega)]
    refine ⟨?_, by omega⟩
    have : s + len - s = len := by omega
    rw [this, List.range'_eq_map_range]
    apply List.map_congr_left
    intro d hd
    rw [List.mem_range] at hd
    rw [Nat.mod_eq_of_lt (by omega)]
  · simp only [if_neg h]
    rw [if_neg (by omega), if_neg (by omega)]
    refine ⟨?_, by omega⟩
    have : len = (n - s) + (s + len - n) := by omega
    rw [this, List.range_add, List.map_append, List.map_map]
    have e2 : n - s + (s + len - n) = len := by omega
    simp only [e2]
    congr 1
    · rw [List.range'_eq_map_range]
      apply List.map_congr_left
      intro d hd
      rw [List.mem_range] at hd
      rw [Nat.mod_eq_of_lt (by omega)]
    · rw [List.range'_eq_map_range]
      apply List.map_congr_left
      intro d hd
      rw [List.mem_range] at hd
      simp only [Function.comp]
      have : s + (n - s + d) = d + n := by omega
      rw [this, Nat.add_mod_right, Nat.mod_eq_of_lt (by omega)]
      omega

theorem scan_full (l : List Bool) : ∀ (i s0 : Nat), (∀ b, b ∈ l → b = true) →
    scan l i (some s0) = [(s0, i + l.length)] := by
  induction l with
  | nil => intro i s0 _; rfl
  | cons b rest ih =>
    intro i s0 h
    have hb : b = true := h b (by simp)
    subst hb
    simp only [scan]
    rw [ih (i + 1) s0 (fun b hb => h b (by simp [hb]))]
    simp; omega

/-- full occupancy: one linear block from wire 0 (the merge needs `len > 1`) -/
theorem full_ring_ranges (occ : List Bool) (hne : occ ≠ []) (hfull : ∀ b ∈ occ, b = true) :
    contiguousRanges occ = [(0, occ.length)] ∧ blocks occ = [List.range occ.length] := by
  have h1 : contiguousRanges occ = [(0, occ.length)] := by
    cases occ with
    | nil => exact absurd rfl hne
    | cons b rest =>
      have hb : b = true := hfull b (by simp)
      subst hb
      unfold contiguousRanges
      simp only [scan]
      rw [scan_full rest (0 + 1) 0 (fun b hb => hfull b (by simp [hb]))]
      simp [mergeRing]; omega
  refine ⟨h1, ?_⟩
  unfold blocks
  rw [h1]
  have hpos : 0 < occ.length := List.length_pos_iff.2 hne
  simp [rangeToIndices, hpos, List.range_eq_range']

/-- a maximal ring run of exactly `len` wires starts at `s` -/
def RunLen (occ : List Bool) (s len : Nat) : Prop :=
  s < occ.length ∧ occAt occ (s + occ.length - 1) = false ∧ 0 < len ∧
    (∀ d, d < len → occAt occ (s + d) = true) ∧ occAt occ (s + len) = false

theorem isRingRun_iff (occ : List Bool) (r : Nat × Nat) :
    IsRingRun occ r ↔ ∃ len, RunLen occ r.1 len ∧ r.2 = mkEnd occ.length r.1 len := by
  unfold IsRingRun RunLen mkEnd
  constructor
  · rintro ⟨h1, h2, len, h3, h4, h5, h6⟩
    exact ⟨len, ⟨h1, h2, h3, h4, h5⟩, h6⟩
  · rintro ⟨len, ⟨h1, h2, h3, h4, h5⟩, h6⟩
    exact ⟨h1, h2, len, h3, h4, h5, h6⟩

theorem runLen_lt {occ : List Bool} {s len : Nat} (h : RunLen occ s len) : len < occ.length := by
  obtain ⟨h1, h2, _, h4, _⟩ := h
  apply Classical.byContradiction
  intro hc
  have := h4 (occ.length - 1) (by omega)
  have e' : s + (occ.length - 1) = s + occ.length - 1 := by omega
  rw [e'] at this
  exact bool_contra this h2

theorem runLen_unique {occ : List Bool} {s l1 l2 : Nat} (h : RunLen occ s l1)
    (h' : RunLen occ s l2) : l1 = l2 := by
  obtain ⟨_, _, _, a4, a5⟩ := h
  obtain ⟨_, _, _, b4, b5⟩ := h'
  apply Classical.byContradiction
  intro hc
  by_cases hlt : l1 < l2
  · exact bool_contra (b4 l1 hlt) a5
  · exact bool_contra (a4 l2 (by omega)) b5

theorem full_or_not (occ : List Bool) : false ∈ occ ∨ ∀ b, b ∈ occ → b = true := by
  by_cases h : false ∈ occ
  · exact Or.inl h
  · right
    intro b hb
    cases b
    · exact absurd hb h
    · rfl

theorem ranges_shape (occ : List Bool) (r : Nat × Nat) (hr : r ∈ contiguousRanges occ) :
    ∃ len, r.1 < occ.length ∧ 0 < len ∧ len ≤ occ.length ∧ r.2 = mkEnd occ.length r.1 len := by
  rcases full_or_not occ with hnf | hfull
  · obtain ⟨len, h, he⟩ := (isRingRun_iff occ r).1 (((ranges_spec occ hnf).1 r).1 hr)
    exact ⟨len, h.1, h.2.2.1, Nat.le_of_lt (runLen_lt h), he⟩
  · by_cases hne : occ = []
    · subst hne
      simp [contiguousRanges, scan, mergeRing] at hr
    · rw [(full_ring_ranges occ hne hfull).1] at hr
      simp only [List.mem_singleton] at hr
      subst hr
      have hpos : 0 < occ.length := List.length_pos_iff.2 hne
      exact ⟨occ.length, hpos, hpos, Nat.le_refl _, by simp [mkEnd]⟩

/-- ring order: the indices of a range of contiguousRanges are `rangeToLen` consecutive ring positions from its start (holds for full occupancy too) -/
theorem ranges_ringSeq (occ : List Bool) (r : Nat × Nat) (hr : r ∈ contiguousRanges occ) :
    rangeToIndices occ.length r = ringSeq occ.length r.1 (rangeToLen occ.length r) ∧ r.1 < occ.length ∧ 0 < rangeToLen occ.length r ∧ rangeToLen occ.length r ≤ occ.length := by
  obtain ⟨len, h1, h2, h3, h4⟩ := ranges_shape occ r hr
  have hre : r = (r.1, mkEnd occ.length r.1 len) := Prod.ext rfl h4
  have := ringSeq_mk occ.length r.1 len h1 h2 h3
  rw [← hre] at this
  rw [this.2]
  exact ⟨this.1, h1, h2, h3⟩

/-- not full → each block is maximal: the ring predecessor of its first wire and the ring successor of its last wire are free -/
theorem ranges_maximal (occ : List Bool) (hnf : false ∈ occ) (r : Nat × Nat) (hr : r ∈ contiguousRanges occ) :
    occAt occ (r.1 + occ.length - 1) = false ∧ occAt occ (r.1 + rangeToLen occ.length r) = false := by
  obtain ⟨len, h, he⟩ := (isRingRun_iff occ r).1 (((ranges_spec occ hnf).1 r).1 hr)
  have hre : r = (r.1, mkEnd occ.length r.1 len) := Prod.ext rfl he
  have := ringSeq_mk occ.length r.1 len h.1 h.2.2.1 (Nat.le_of_lt (runLen_lt h))
  rw [← hre] at this
  rw [this.2]
  exact ⟨h.2.1, h.2.2.2.2⟩
theorem length_rotOcc (k : Nat) (occ : List Bool) : (rotOcc k occ).length = occ.length := by
  simp [rotOcc]

theorem rot_mod (n i k : Nat) (hn : 0 < n) : ((i + k) % n + n - k % n) % n = i % n := by
  rw [Nat.add_mod i k n]
  have ha := Nat.mod_lt i hn
  have hb := Nat.mod_lt k hn
  generalize i % n = a at *
  generalize k % n = b at *
  by_cases h : a + b < n
  · rw [Nat.mod_eq_of_lt h]
    have : a + b + n - b = a + n := by omega
    rw [this, Nat.add_mod_right, Nat.mod_eq_of_lt ha]
  · have e : (a + b) % n = a + b - n := by
      rw [Nat.mod_eq_sub_mod (by omega : a + b ≥ n), Nat.mod_eq_of_lt (by omega)]
    have : a + b - n + n - b = a := by omega
    rw [e, this, Nat.mod_eq_of_lt ha]

theorem rot_mod2 (n i k : Nat) (hn : 0 < n) (hi : i < n) :
    ((i + n - k % n) % n + k) % n = i := by
  rw [Nat.mod_add_mod]
  have h1 := Nat.mod_add_div k n
  have h2 := Nat.mod_lt k hn
  have e : i + n - k % n + k = i + n * (k / n + 1) := by
    rw [Nat.mul_add, Nat.mul_one]; omega
  rw [e, Nat.add_mul_mod_self_left, Nat.mod_eq_of_lt hi]

theorem occAt_rot (occ : List Bool) (k i : Nat) :
    occAt (rotOcc k occ) (i + k) = occAt occ i := by
  by_cases hn : occ.length = 0
  · have : occ = [] := List.eq_nil_of_length_eq_zero hn
    subst this
    simp [occAt, rotOcc]
  · have hpos : 0 < occ.length := by omega
    unfold occAt
    rw [length_rotOcc]
    have hw := Nat.mod_lt (i + k) hpos
    have : (rotOcc k occ).getD ((i + k) % occ.length) false =
        occ.getD (((i + k) % occ.length + occ.length - k % occ.length) % occ.length) false := by
      simp [rotOcc, List.getD_eq_getElem?_getD, List.getElem?_map, List.getElem?_range hw]
    rw [this, rot_mod _ _ _ hpos]

theorem occAt_rot' (occ : List Bool) (k s x : Nat) :
    occAt (rotOcc k occ) ((s + k) % occ.length + x) = occAt occ (s + x) := by
  rw [← occAt_rot occ k (s + x)]
  unfold occAt
  rw [length_rotOcc, Nat.mod_add_mod]
  congr 2
  omega

theorem runLen_rot (occ : List Bool) (k s len : Nat) (hs : s < occ.length) :
    RunLen (rotOcc k occ) ((s + k) % occ.length) len ↔ RunLen occ s len := by
  have hpos : 0 < occ.length := by omega
  unfold RunLen
  rw [length_rotOcc]
  have e1 : (s + k) % occ.length + occ.length - 1 = (s + k) % occ.length + (occ.length - 1) := by
    omega
  have e2 : s + occ.length - 1 = s + (occ.length - 1) := by omega
  rw [e1, e2]
  simp only [occAt_rot']
  have := Nat.mod_lt (s + k) hpos
  constructor
  · rintro ⟨_, h2, h3, h4, h5⟩
    exact ⟨hs, h2, h3, h4, h5⟩
  · rintro ⟨_, h2, h3, h4, h5⟩
    exact ⟨this, h2, h3, h4, h5⟩

theorem notfull_rot (occ : List Bool) (k : Nat) (hnf : false ∈ occ) : false ∈ rotOcc k occ := by
  obtain ⟨z, hz, hfz⟩ := (notfull_iff occ).1 hnf
  rw [notfull_iff]
  have h1 : occAt occ z = false := by
    rw [occAt_eq occ z z hz (Or.inl rfl)]; exact hfz
  rw [← occAt_rot occ k z] at h1
  refine ⟨(z + k) % (rotOcc k occ).length, Nat.mod_lt _ (by rw [length_rotOcc]; omega), h1⟩

/-- a range moved `k` places round a ring of `n` -/
def shiftRange (n k : Nat) (r : Nat × Nat) : Nat × Nat :=
  ((r.1 + k) % n, mkEnd n ((r.1 + k) % n) (rangeToLen n r))

theorem shift_cancel (n k s1 s2 : Nat) (h1 : s1 < n) (h2 : s2 < n)
    (h : (s1 + k) % n = (s2 + k) % n) : s1 = s2 := by
  have a := rot_mod n s1 k (by omega)
  have b := rot_mod n s2 k (by omega)
  rw [h, b, Nat.mod_eq_of_lt h1, Nat.mod_eq_of_lt h2] at a
  exact a.symm

theorem ringRun_len (occ : List Bool) (r : Nat × Nat) (h : IsRingRun occ r) :
    RunLen occ r.1 (rangeToLen occ.length r) ∧
      r.2 = mkEnd occ.length r.1 (rangeToLen occ.length r) := by
  obtain ⟨len, h, he⟩ := (isRingRun_iff occ r).1 h
  have hre : r = (r.1, mkEnd occ.length r.1 len) := Prod.ext rfl he
  have := ringSeq_mk occ.length r.1 len h.1 h.2.2.1 (Nat.le_of_lt (runLen_lt h))
  rw [← hre] at this
  rw [this.2]
  exact ⟨h, he⟩

theorem ranges_rot_perm (occ : List Bool) (k : Nat) (hnf : false ∈ occ) :
    (contiguousRanges (rotOcc k occ)).Perm
      ((contiguousRanges occ).map (shiftRange occ.length k)) := by
  have hnf' := notfull_rot occ k hnf
  have sp := ranges_spec occ hnf
  have sp' := ranges_spec (rotOcc k occ) hnf'
  have hpos : 0 < occ.length := by
    obtain ⟨z, hz, _⟩ := (notfull_iff occ).1 hnf
    omega
  apply perm_of_nodup sp'.2
  · rw [List.Nodup, List.pairwise_map]
    refine List.Pairwise.imp_of_mem ?_ (List.nodup_iff_pairwise_ne.1 sp.2)
    intro a b ha hb hab heq
    apply hab
    obtain ⟨la, ea⟩ := ringRun_len occ a ((sp.1 a).1 ha)
    obtain ⟨lb, eb⟩ := ringRun_len occ b ((sp.1 b).1 hb)
    have h1 := congrArg Prod.fst heq
    have h2 := congrArg Prod.snd heq
    simp only [shiftRange] at h1 h2
    have hs : a.1 = b.1 := shift_cancel _ k _ _ la.1 lb.1 h1
    rw [hs] at la
    have hl := runLen_unique la lb
    refine Prod.ext hs ?_
    rw [ea, eb, hs, hl]
  · intro r'
    rw [sp'.1 r', List.mem_map]
    constructor
    · intro h
      obtain ⟨l', e'⟩ := ringRun_len _ r' h
      rw [length_rotOcc] at l' e'
      have hr1 : r'.1 < occ.length := by have := l'.1; rwa [length_rotOcc] at this
      have hs : (r'.1 + occ.length - k % occ.length) % occ.length < occ.length :=
        Nat.mod_lt _ hpos
      have hsk := rot_mod2 occ.length r'.1 k hpos hr1
      generalize (r'.1 + occ.length - k % occ.length) % occ.length = s at hs hsk
      rw [← hsk] at l'
      have l := (runLen_rot occ k s _ hs).1 l'
      refine ⟨(s, mkEnd occ.length s (rangeToLen occ.length r')), ?_, ?_⟩
      · rw [sp.1, isRingRun_iff]
        exact ⟨_, l, rfl⟩
      · have := (ringSeq_mk occ.length s _ hs l.2.2.1 (Nat.le_of_lt (runLen_lt l))).2
        unfold shiftRange
        rw [this]
        dsimp only
        rw [hsk]
        exact Prod.ext rfl e'.symm
    · rintro ⟨r, hr, rfl⟩
      obtain ⟨l, e⟩ := ringRun_len occ r ((sp.1 r).1 hr)
      rw [isRingRun_iff]
      refine ⟨rangeToLen occ.length r, ?_, ?_⟩
      · exact (runLen_rot occ k r.1 _ l.1).2 l
      · rw [length_rotOcc]; rfl

theorem shift_indices (occ : List Bool) (k : Nat) (r : Nat × Nat)
    (hr : r ∈ contiguousRanges occ) :
    rangeToIndices occ.length (shiftRange occ.length k r) =
      shiftBlock occ.length k (rangeToIndices occ.length r) := by
  obtain ⟨h1, h2, h3, h4⟩ := ranges_ringSeq occ r hr
  rw [h1]
  unfold shiftRange
  rw [(ringSeq_mk occ.length ((r.1 + k) % occ.length) (rangeToLen occ.length r)
    (Nat.mod_lt _ (by omega)) h3 h4).1]
  unfold ringSeq shiftBlock
  rw [List.map_map]
  apply List.map_congr_left
  intro d _
  simp only [Function.comp]
  rw [Nat.mod_add_mod, Nat.mod_add_mod]
  congr 1
  omega

/-- not full → the blocks of the rotated occupancy are the shifted blocks, as the same sequences in ring order, up to permutation of the list of blocks -/
theorem ranges_rot (occ : List Bool) (k : Nat) (hnf : false ∈ occ) :
    (blocks (rotOcc k occ)).Perm ((blocks occ).map (shiftBlock occ.length k)) := by
  unfold blocks
  rw [length_rotOcc]
  have := (ranges_rot_perm occ k hnf).map (rangeToIndices occ.length)
  refine this.trans ?_
  rw [List.map_map, List.map_map]
  apply List.Perm.of_eq
  apply List.map_congr_left
  intro r hr
  exact shift_indices occ k r hr


theorem mem_indices (n : Nat) (r : Nat × Nat) (w : Nat) :
    w ∈ rangeToIndices n r ↔
      if r.1 < r.2 then r.1 ≤ w ∧ w < r.2 else (r.1 ≤ w ∧ w < n) ∨ w < r.2 := by
  unfold rangeToIndices
  by_cases h : r.1 < r.2
  · simp only [if_pos h, List.mem_range'_1]; omega
  · simp only [if_neg h, List.mem_append, List.mem_range'_1]; omega

theorem indices_nodup (n : Nat) (r : Nat × Nat) : (rangeToIndices n r).Nodup := by
  unfold rangeToIndices
  by_cases h : r.1 < r.2
  · rw [if_pos h]; exact List.nodup_range' 1
  · rw [if_neg h, List.nodup_append]
    refine ⟨List.nodup_range' 1, List.nodup_range' 1, ?_⟩
    intro a ha b hb
    rw [List.mem_range'_1] at ha hb
    omega

theorem ranges_ringRunF (occ : List Bool) (hnf : false ∈ occ) (r : Nat × Nat) :
    r ∈ contiguousRanges occ ↔ RingRunF (occF occ) occ.length r :=
  ((ranges_spec occ hnf).1 r).trans (ringRunF_iff occ r).symm

theorem ringRunF_disjoint_aux (f : Nat → Bool) (n : Nat) (a b : Nat × Nat) (w : Nat)
    (A : LinRun f 0 n a.1 a.2) (c1 : ¬(a.1 = 0 ∧ f (n - 1) = true))
    (c2 : ¬(a.2 = n ∧ f 0 = true)) (L0 : LinRun f 0 n 0 b.2) (L1 : LinRun f 0 n b.1 n)
    (hwa : a.1 ≤ w ∧ w < a.2) (hwb : (b.1 ≤ w ∧ w < n) ∨ w < b.2) : False := by
  rcases hwb with hwb | hwb
  · have := linRun_unique f 0 n _ _ _ _ w A L1 hwa hwb
    exact c2 ⟨this.2, linRun_first L0⟩
  · have := linRun_unique f 0 n _ _ _ _ w A L0 hwa ⟨Nat.zero_le _, hwb⟩
    exact c1 ⟨this.1, linRun_last L1⟩

theorem ringRunF_disjoint (f : Nat → Bool) (n : Nat) (a b : Nat × Nat)
    (ha : RingRunF f n a) (hb : RingRunF f n b) (w : Nat)
    (hwa : w ∈ rangeToIndices n a) (hwb : w ∈ rangeToIndices n b) : a = b := by
  rw [mem_indices] at hwa hwb
  rcases ha with ⟨A, c1, c2⟩ | ⟨a1, A0, A1⟩ <;> rcases hb with ⟨B, d1, d2⟩ | ⟨b1, B0, B1⟩
  · rw [if_pos A.2.1] at hwa
    rw [if_pos B.2.1] at hwb
    have := linRun_unique f 0 n _ _ _ _ w A B hwa hwb
    exact Prod.ext this.1 this.2
  · rw [if_pos A.2.1] at hwa
    rw [if_neg (by omega)] at hwb
    exact (ringRunF_disjoint_aux f n a b w A c1 c2 B0 B1 hwa hwb).elim
  · rw [if_pos B.2.1] at hwb
    rw [if_neg (by omega)] at hwa
    exact (ringRunF_disjoint_aux f n b a w B d1 d2 A0 A1 hwb hwa).elim
  · have q0 := linRun_unique f 0 n _ _ _ _ 0 A0 B0 ⟨Nat.le_refl _, A0.2.1⟩
      ⟨Nat.le_refl _, B0.2.1⟩
    have q1 := linRun_unique f 0 n _ _ _ _ (n - 1) A1 B1
      ⟨by have := A1.2.1; omega, by have := A1.2.1; omega⟩
      ⟨by have := B1.2.1; omega, by have := B1.2.1; omega⟩
    exact Prod.ext q1.1 q0.2

theorem full_getD (occ : List Bool) (hfull : ∀ b, b ∈ occ → b = true) (w : Nat)
    (hw : w < occ.length) : occ.getD w false = true := by
  rw [List.getD_eq_getElem?_getD, List.getElem?_eq_getElem hw]
  exact hfull _ (List.getElem_mem hw)

/-- every occupied wire is in some block and every index of a block is an occupied wire (full occupancy included) -/
theorem ranges_cover (occ : List Bool) (w : Nat) :
    (w < occ.length ∧ occ.getD w false = true) ↔ ∃ r ∈ contiguousRanges occ, w ∈ rangeToIndices occ.length r := by
  rcases full_or_not occ with hnf | hfull
  · obtain ⟨z, hz, hfz⟩ := (notfull_iff occ).1 hnf
    have hnotfull : ∀ s, ¬ LinRun (occF occ) 0 occ.length s occ.length ∨ s ≠ 0 := by
      intro s
      by_cases hs : s = 0
      · left; subst hs; intro h
        exact bool_contra (h.2.2.2.1 z (Nat.zero_le _) hz) hfz
      · exact Or.inr hs
    constructor
    · rintro ⟨hw, hfw⟩
      obtain ⟨s, e, hL, h1, h2⟩ := linRun_exists (occF occ) 0 occ.length w (Nat.zero_le _) hw hfw
      by_cases c1 : s = 0 ∧ occF occ (occ.length - 1) = true
      · obtain ⟨hs, hf⟩ := c1
        subst hs
        obtain ⟨s1, e1, hL1, _, h4⟩ := linRun_exists (occF occ) 0 occ.length (occ.length - 1)
          (Nat.zero_le _) (by omega) hf
        have : e1 = occ.length := by have := hL1.2.2.1; omega
        subst this
        have hen : e ≠ occ.length := by
          intro h; subst h
          rcases hnotfull 0 with h | h
          · exact h hL
          · exact h rfl
        have hfe : occF occ e = false := by
          rcases hL.2.2.2.2.2 with h | h
          · exact absurd h hen
          · exact h
        have hlt : e < s1 := by
          apply Classical.byContradiction
          intro hc
          exact bool_contra (hL1.2.2.2.1 e (by omega) (by have := hL.2.2.1; omega)) hfe
        refine ⟨(s1, e), (ranges_ringRunF occ hnf _).2 (Or.inr ⟨hlt, hL, hL1⟩), ?_⟩
        rw [mem_indices, if_neg (by simp only; omega)]
        exact Or.inr h2
      · by_cases c2 : e = occ.length ∧ occF occ 0 = true
        · obtain ⟨he, hf⟩ := c2
          subst he
          obtain ⟨s0, e0, hL0, h3, _⟩ := linRun_exists (occF occ) 0 occ.length 0
            (Nat.zero_le _) (by omega) hf
          have : s0 = 0 := by omega
          subst this
          have hen : e0 ≠ occ.length := by
            intro h; subst h
            rcases hnotfull 0 with h | h
            · exact h hL0
            · exact h rfl
          have hfe : occF occ e0 = false := by
            rcases hL0.2.2.2.2.2 with h | h
            · exact absurd h hen
            · exact h
          have hlt : e0 < s := by
            apply Classical.byContradiction
            intro hc
            exact bool_contra (hL.2.2.2.1 e0 (by omega) (by have := hL0.2.2.1; omega)) hfe
          refine ⟨(s, e0), (ranges_ringRunF occ hnf _).2 (Or.inr ⟨hlt, hL0, hL⟩), ?_⟩
          rw [mem_indices, if_neg (by simp only; omega)]
          exact Or.inl ⟨h1, hw⟩
        · refine ⟨(s, e), (ranges_ringRunF occ hnf _).2 (Or.inl ⟨hL, c1, c2⟩), ?_⟩
          rw [mem_indices, if_pos hL.2.1]
          exact ⟨h1, h2⟩
    · rintro ⟨r, hr, hwr⟩
      rw [mem_indices] at hwr
      rcases (ranges_ringRunF occ hnf r).1 hr with ⟨A, _, _⟩ | ⟨a1, A0, A1⟩
      · rw [if_pos A.2.1] at hwr
        exact ⟨by have := A.2.2.1; omega, A.2.2.2.1 w hwr.1 hwr.2⟩
      · rw [if_neg (by omega)] at hwr
        rcases hwr with h | h
        · exact ⟨h.2, A1.2.2.2.1 w h.1 h.2⟩
        · exact ⟨by have := A0.2.2.1; omega, A0.2.2.2.1 w (Nat.zero_le _) h⟩
  · by_cases hne : occ = []
    · subst hne
      simp [contiguousRanges, scan, mergeRing]
    · rw [(full_ring_ranges occ hne hfull).1]
      have hpos : 0 < occ.length := List.length_pos_iff.2 hne
      simp only [List.mem_singleton, exists_eq_left, mem_indices, if_pos hpos]
      constructor
      · rintro ⟨h, _⟩; exact ⟨Nat.zero_le _, h⟩
      · rintro ⟨_, h⟩; exact ⟨h, full_getD occ hfull w h⟩

/-- blocks are pairwise disjoint and duplicate free (full occupancy included) -/
theorem ranges_disjoint (occ : List Bool) :
    ((contiguousRanges occ).flatMap (rangeToIndices occ.length)).Nodup := by
  rw [List.Nodup, List.pairwise_flatMap]
  refine ⟨fun r _ => indices_nodup _ r, ?_⟩
  rcases full_or_not occ with hnf | hfull
  · refine List.Pairwise.imp_of_mem ?_ (List.nodup_iff_pairwise_ne.1 (ranges_spec occ hnf).2)
    intro a b ha hb hab x hx y hy hxy
    subst hxy
    exact hab (ringRunF_disjoint (occF occ) occ.length a b ((ranges_ringRunF occ hnf a).1 ha)
      ((ranges_ringRunF occ hnf b).1 hb) x hx hy)
  · by_cases hne : occ = []
    · subst hne
      simp [contiguousRanges, scan, mergeRing]
    · rw [(full_ring_ranges occ hne hfull).1]
      simp

/-! Non-vacuity and sanity examples: a non-full ring with a seam-crossing block. -/
example : false ∈ [true, true, false, true, false, true] := by decide
example : contiguousRanges [true, true, false, true, false, true] = [(3, 4), (5, 2)] := by decide
example : blocks [true, true, false, true, false, true] = [[3], [5, 0, 1]] := by decide
example : blocks (rotOcc 2 [true, true, false, true, false, true]) = [[1, 2, 3], [5]] := by decide
example : [true, true, true] ≠ [] ∧ ∀ b ∈ [true, true, true], b = true := by decide
example : contiguousRanges [true, true, true] = [(0, 3)] := by decide

end AlphaG.Ranges
