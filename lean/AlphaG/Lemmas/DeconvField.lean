import AlphaG.Model.Deconv
/-
The exact-arithmetic instance of the carrier: any linearly ordered field (core Lean's
`Lean.Grind.Field` + `Lean.Grind.OrderedRing` + `Std.IsLinearOrder`; `Rat` is an instance), with
an arbitrary element `top` standing for `f64::INFINITY` (a field has no largest element; theorems
that depend on `+∞` state what they need of `top` as a hypothesis).
-/
namespace AlphaG.Deconv
open Lean Grind Std

/-- `Ops` of a linearly ordered field. -/
def fieldOps {F : Type} [Field F] [LE F] [LT F] [DecidableLT F] [DecidableLE F] (top : F) :
    Ops F where
  zero := 0
  inf := top
  sumInit := 0
  add := (· + ·)
  sub := (· - ·)
  mul := (· * ·)
  div := (· / ·)
  min := fun a b => if b < a then b else a
  lt := fun a b => decide (a < b)
  le := fun a b => decide (a ≤ b)

section
variable {F : Type} [Field F] [LE F] [LT F] [DecidableLT F] [DecidableLE F] (top : F)

@[simp] theorem fieldOps_zero : (fieldOps top).zero = (0 : F) := rfl
@[simp] theorem fieldOps_inf : (fieldOps top).inf = top := rfl
@[simp] theorem fieldOps_sumInit : (fieldOps top).sumInit = (0 : F) := rfl
@[simp] theorem fieldOps_add (a b : F) : (fieldOps top).add a b = a + b := rfl
@[simp] theorem fieldOps_sub (a b : F) : (fieldOps top).sub a b = a - b := rfl
@[simp] theorem fieldOps_mul (a b : F) : (fieldOps top).mul a b = a * b := rfl
@[simp] theorem fieldOps_div (a b : F) : (fieldOps top).div a b = a / b := rfl
@[simp] theorem fieldOps_min (a b : F) : (fieldOps top).min a b = if b < a then b else a := rfl
@[simp] theorem fieldOps_lt (a b : F) : (fieldOps top).lt a b = decide (a < b) := rfl
@[simp] theorem fieldOps_le (a b : F) : (fieldOps top).le a b = decide (a ≤ b) := rfl
@[simp] theorem fieldOps_nonneg (a : F) : (fieldOps top).nonneg a = decide (0 ≤ a) := rfl
@[simp] theorem fieldOps_isNeg (a : F) : (fieldOps top).isNeg a = decide (a < 0) := rfl
end

/-- "The response is negative on the window `response[off..][..la]`" (the Rust `assert!`), for
any carrier. The harness checks it on the real tables for every window setting in use. -/
def ResponseNeg {α : Type} (o : Ops α) (resp : List α) (off la : Nat) : Prop :=
  off + la ≤ resp.length ∧ ∀ r ∈ respWindow resp off la, o.isNeg r = true

end AlphaG.Deconv
