import AlphaG.Model.TrackInit
import Mathlib.Order.Basic
import Mathlib.Order.Defs.LinearOrder
import Mathlib.Tactic.SplitIfs
import Mathlib.Tactic.Tauto
import Mathlib.Tactic.Order
/-
List lemmas for C14b: `minmax_impl` (pairwise consumption) and `min_by`.

* membership, for any `lt` / `cmp` whatsoever (so also for `f64` with NaN);
* for a linear order: `minmaxLoop` equals two plain left folds (`firstMin`, `lastMax`), and those
  folds select the **first** minimum and the **last** maximum (decomposition lemmas);
* `minByFold`: exact panic characterisation, and — when the comparison never fails — equality with
  the `firstMin` fold (first minimum of the key).
-/
namespace AlphaG.C14b
open AlphaG AlphaG.TrackInit

section Mem
variable {P β : Type}

theorem minmaxLoop_mem (lt : β → β → Bool) (key : P → β) (l : List P) (mn mx : P) :
    ((minmaxLoop lt key l mn mx).1 = mn ∨ (minmaxLoop lt key l mn mx).1 ∈ l) ∧
    ((minmaxLoop lt key l mn mx).2 = mx ∨ (minmaxLoop lt key l mn mx).2 ∈ l) := by
  fun_induction minmaxLoop lt key l mn mx <;> grind

theorem minmaxByKey_mem (lt : β → β → Bool) (key : P → β) (l : List P) (a b : P)
    (h : (minmaxByKey lt key l).intoOption = some (a, b)) : a ∈ l ∧ b ∈ l := by
  match l, h with
  | [x], h =>
    simp only [minmaxByKey, MinMax.intoOption, Option.some.injEq, Prod.mk.injEq] at h
    simp [← h.1, ← h.2]
  | x :: y :: rest, h =>
    simp only [minmaxByKey, MinMax.intoOption, Option.some.injEq, Prod.mk.injEq] at h
    have := minmaxLoop_mem lt key rest (if !(lt (key y) (key x)) then x else y)
      (if !(lt (key y) (key x)) then y else x)
    rw [h.1, h.2] at this
    grind

theorem minmaxByKey_none_iff (lt : β → β → Bool) (key : P → β) (l : List P) :
    (minmaxByKey lt key l).intoOption = none ↔ l = [] := by
  match l with
  | [] => simp [minmaxByKey, MinMax.intoOption]
  | [x] => simp [minmaxByKey, MinMax.intoOption]
  | x :: y :: rest => simp [minmaxByKey, MinMax.intoOption]

theorem minByFold_mem {ε : Type} (cmp : P → P → Option Ordering) (site : String) (l : List P)
    (acc m : P) (h : minByFold (ε := ε) cmp site acc l = .ok m) : m = acc ∨ m ∈ l := by
  induction l generalizing acc with
  | nil => simp only [minByFold, Outcome.ok.injEq] at h; exact Or.inl h.symm
  | cons y l ih =>
    unfold minByFold at h
    split at h
    · cases h
    · rcases ih _ h with h | h
      · right; simp [h]
      · right; simp [h]
    · rcases ih _ h with h | h
      · left; exact h
      · right; simp [h]

/-- `min_by(..unwrap())` never returns an error, and panics only at `site`. -/
theorem minByFold_not_err {ε : Type} (cmp : P → P → Option Ordering) (site : String) (l : List P)
    (acc : P) (e : ε) : minByFold cmp site acc l ≠ .err e := by
  induction l generalizing acc with
  | nil => simp [minByFold]
  | cons y l ih =>
    unfold minByFold
    split
    · simp
    · exact ih _
    · exact ih _

/-- **Exactly which inputs reach the `unwrap`.** With `bad a` meaning "`cmp` fails on `a`"
(for `f64`: the key of `a` is NaN), `min_by` panics iff the list has at least two elements and one
of them is bad. -/
theorem minByFold_panic_iff {ε : Type} (cmp : P → P → Option Ordering) (bad : P → Prop)
    (hcmp : ∀ a b, cmp a b = none ↔ bad a ∨ bad b) (site : String) (l : List P) (acc : P) (s : String) :
    minByFold (ε := ε) cmp site acc l = .panic s ↔ s = site ∧ l ≠ [] ∧ (bad acc ∨ ∃ p ∈ l, bad p) := by
  induction l generalizing acc with
  | nil => simp [minByFold]
  | cons y l ih =>
    unfold minByFold
    split
    · rename_i hc
      have := (hcmp acc y).1 hc
      simp only [Outcome.panic.injEq, ne_eq, reduceCtorEq, not_false_eq_true, List.mem_cons,
        exists_eq_or_imp, true_and]
      constructor
      · intro h; exact ⟨h.symm, by tauto⟩
      · intro h; exact h.1.symm
    · rename_i hc
      have hn : ¬ (bad acc ∨ bad y) := by rw [← hcmp]; simp [hc]
      rw [ih]
      simp only [ne_eq, reduceCtorEq, not_false_eq_true, List.mem_cons, exists_eq_or_imp, true_and]
      by_cases hl : l = []
      · subst hl; simp; tauto
      · simp [hl]; tauto
    · rename_i o hgt hc
      have hn : ¬ (bad acc ∨ bad y) := by rw [← hcmp]; simp [hc]
      rw [ih]
      simp only [ne_eq, reduceCtorEq, not_false_eq_true, List.mem_cons, exists_eq_or_imp, true_and]
      by_cases hl : l = []
      · subst hl; simp; tauto
      · simp [hl]; tauto

end Mem

/-! ### Linear order: first minimum, last maximum -/

section Linear
variable {P β : Type} [LinearOrder β]

/-- Keep the accumulated minimum unless the new key is strictly smaller. -/
def stepMin (key : P → β) (m x : P) : P := if key x < key m then x else m
/-- Replace the accumulated maximum unless the new key is strictly smaller. -/
def stepMax (key : P → β) (m x : P) : P := if key x < key m then m else x

/-- First minimum of `acc :: l`. -/
def firstMin (key : P → β) (acc : P) (l : List P) : P := l.foldl (stepMin key) acc
/-- Last maximum of `acc :: l`. -/
def lastMax (key : P → β) (acc : P) (l : List P) : P := l.foldl (stepMax key) acc

theorem stepMin_le (key : P → β) (m x : P) : key (stepMin key m x) ≤ key m := by
  unfold stepMin; split_ifs with h
  · exact le_of_lt h
  · exact le_refl _

theorem le_stepMax (key : P → β) (m x : P) : key m ≤ key (stepMax key m x) := by
  unfold stepMax; split_ifs with h
  · exact le_refl _
  · exact not_lt.1 h

theorem ite_min_eq (key : P → β) (mn a : P) :
    (if decide (key a < key mn) = true then a else mn) = stepMin key mn a := by
  simp [stepMin]

theorem ite_max_eq (key : P → β) (mx b : P) :
    (if (!decide (key b < key mx)) = true then b else mx) = stepMax key mx b := by
  unfold stepMax; by_cases h : key b < key mx <;> simp [h]

theorem pair_min_le (key : P → β) (mn a b : P) (hab : key a ≤ key b) :
    stepMin key (stepMin key mn a) b = stepMin key mn a := by
  unfold stepMin; split_ifs <;> first | rfl | (exfalso; order)

theorem pair_max_le (key : P → β) (mx a b : P) (hab : key a ≤ key b) :
    stepMax key (stepMax key mx a) b = stepMax key mx b := by
  unfold stepMax; split_ifs <;> first | rfl | (exfalso; order)

theorem pair_min_gt (key : P → β) (mn a b : P) (hba : key b < key a) :
    stepMin key (stepMin key mn a) b = stepMin key mn b := by
  unfold stepMin; split_ifs <;> first | rfl | (exfalso; order)

theorem pair_max_gt (key : P → β) (mx a b : P) (hba : key b < key a) :
    stepMax key (stepMax key mx a) b = stepMax key mx a := by
  unfold stepMax; split_ifs <;> first | rfl | (exfalso; order)

/-- `minmax_impl`'s pairwise loop computes the two plain folds (given `key mn ≤ key mx`, which
holds for the state built from the first two elements and is preserved). -/
theorem minmaxLoop_eq (key : P → β) (l : List P) (mn mx : P) (h : key mn ≤ key mx) :
    minmaxLoop (fun a b => decide (a < b)) key l mn mx = (firstMin key mn l, lastMax key mx l) := by
  fun_induction minmaxLoop (fun a b => decide (a < b)) key l mn mx with
  | case1 mn mx => simp [firstMin, lastMax]
  | case2 a mn mx hlt =>
    simp only [decide_eq_true_eq] at hlt
    simp only [firstMin, lastMax, List.foldl, stepMin, stepMax, hlt, if_true, Prod.mk.injEq, true_and]
    rw [if_pos (lt_of_lt_of_le hlt h)]
  | case3 a mn mx hlt hge =>
    simp only [decide_eq_true_eq, Bool.not_eq_true', decide_eq_false_iff_not] at hlt hge
    simp [firstMin, lastMax, List.foldl, stepMin, stepMax, hlt, hge]
  | case4 a mn mx hlt hge =>
    simp only [decide_eq_true_eq, Bool.not_eq_true', decide_eq_false_iff_not] at hlt hge
    simp [firstMin, lastMax, List.foldl, stepMin, stepMax, hlt, hge]
  | case5 a b rest mn mx hba ih =>
    simp only [Bool.not_eq_true', decide_eq_false_iff_not] at hba
    have hab : key a ≤ key b := not_lt.1 hba
    rw [ite_min_eq, ite_max_eq] at ih ⊢
    rw [ih (le_trans (stepMin_le key mn a) (le_trans h (le_stepMax key mx b)))]
    simp only [firstMin, lastMax, List.foldl, pair_min_le key mn a b hab, pair_max_le key mx a b hab]
  | case6 a b rest mn mx hba ih =>
    simp only [Bool.not_eq_true', decide_eq_false_iff_not, not_not] at hba
    rw [ite_min_eq, ite_max_eq] at ih ⊢
    rw [ih (le_trans (stepMin_le key mn b) (le_trans h (le_stepMax key mx a)))]
    simp only [firstMin, lastMax, List.foldl, pair_min_gt key mn a b hba, pair_max_gt key mx a b hba]

/-- `minmax_by_key` on a non-empty list is `(first minimum, last maximum)`. -/
theorem minmaxByKey_eq (key : P → β) (x : P) (l : List P) :
    (minmaxByKey (fun a b => decide (a < b)) key (x :: l)).intoOption
      = some (firstMin key x l, lastMax key x l) := by
  match l with
  | [] => simp [minmaxByKey, MinMax.intoOption, firstMin, lastMax]
  | y :: rest =>
    simp only [minmaxByKey, MinMax.intoOption, Bool.not_eq_true',
      decide_eq_false_iff_not, Option.some.injEq]
    by_cases h : key y < key x
    · rw [minmaxLoop_eq key rest _ _ (by simp [h, le_of_lt h])]
      simp [firstMin, lastMax, List.foldl, stepMin, stepMax, h]
    · rw [minmaxLoop_eq key rest _ _ (by simp [h, not_lt.1 h])]
      simp [firstMin, lastMax, List.foldl, stepMin, stepMax, h]

/-- The `firstMin` fold selects the **first** minimum: everything before it is strictly larger,
everything after it is at least as large. -/
theorem firstMin_spec (key : P → β) (l : List P) (acc : P) (pre post : List P)
    (hpre : ∀ p ∈ pre, key acc < key p) (hpost : ∀ p ∈ post, key acc ≤ key p) :
    ∃ pre' post', pre ++ acc :: post ++ l = pre' ++ firstMin key acc l :: post' ∧
      (∀ p ∈ pre', key (firstMin key acc l) < key p) ∧ (∀ p ∈ post', key (firstMin key acc l) ≤ key p) := by
  induction l generalizing acc pre post with
  | nil => exact ⟨pre, post, by simp [firstMin], by simpa [firstMin] using hpre, by simpa [firstMin] using hpost⟩
  | cons x l ih =>
    by_cases hx : key x < key acc
    · have := ih x (pre ++ acc :: post) []
        (by
          intro p hp
          rcases List.mem_append.1 hp with hp | hp
          · exact lt_trans hx (hpre p hp)
          · rcases List.mem_cons.1 hp with rfl | hp
            · exact hx
            · exact lt_of_lt_of_le hx (hpost p hp))
        (by simp)
      simpa [firstMin, List.foldl, stepMin, hx] using this
    · have := ih acc pre (post ++ [x]) hpre
        (by
          intro p hp
          rcases List.mem_append.1 hp with hp | hp
          · exact hpost p hp
          · simp only [List.mem_singleton] at hp; subst hp; exact not_lt.1 hx)
      simpa [firstMin, List.foldl, stepMin, hx] using this

/-- The `lastMax` fold selects the **last** maximum: everything before it is at most as large,
everything after it is strictly smaller. -/
theorem lastMax_spec (key : P → β) (l : List P) (acc : P) (pre post : List P)
    (hpre : ∀ p ∈ pre, key p ≤ key acc) (hpost : ∀ p ∈ post, key p < key acc) :
    ∃ pre' post', pre ++ acc :: post ++ l = pre' ++ lastMax key acc l :: post' ∧
      (∀ p ∈ pre', key p ≤ key (lastMax key acc l)) ∧ (∀ p ∈ post', key p < key (lastMax key acc l)) := by
  induction l generalizing acc pre post with
  | nil => exact ⟨pre, post, by simp [lastMax], by simpa [lastMax] using hpre, by simpa [lastMax] using hpost⟩
  | cons x l ih =>
    by_cases hx : key x < key acc
    · have := ih acc pre (post ++ [x]) hpre
        (by
          intro p hp
          rcases List.mem_append.1 hp with hp | hp
          · exact hpost p hp
          · simp only [List.mem_singleton] at hp; subst hp; exact hx)
      simpa [lastMax, List.foldl, stepMax, hx] using this
    · have hle : key acc ≤ key x := not_lt.1 hx
      have := ih x (pre ++ acc :: post) []
        (by
          intro p hp
          rcases List.mem_append.1 hp with hp | hp
          · exact le_trans (hpre p hp) hle
          · rcases List.mem_cons.1 hp with rfl | hp
            · exact hle
            · exact le_trans (le_of_lt (hpost p hp)) hle)
        (by simp)
      simpa [lastMax, List.foldl, stepMax, hx] using this

/-- When the comparison is the total order of the keys, `min_by` is the `firstMin` fold. -/
theorem minByFold_eq_firstMin {ε : Type} (key : P → β) (site : String) (l : List P) (acc : P) :
    minByFold (ε := ε) (fun a b => some (compare (key a) (key b))) site acc l = .ok (firstMin key acc l) := by
  induction l generalizing acc with
  | nil => simp [minByFold, firstMin]
  | cons y l ih =>
    unfold minByFold
    split
    · rename_i h; simp at h
    · rename_i h
      simp only [Option.some.injEq] at h
      have : key y < key acc := compare_gt_iff_gt.1 h
      rw [ih]; simp [firstMin, List.foldl, stepMin, this]
    · rename_i o hgt h
      simp only [Option.some.injEq] at h
      have : ¬ key y < key acc := by
        intro hlt
        exact hgt (by rw [← h]; exact compare_gt_iff_gt.2 hlt)
      rw [ih]; simp [firstMin, List.foldl, stepMin, this]

end Linear

end AlphaG.C14b
