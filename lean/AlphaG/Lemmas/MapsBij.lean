/-
Finite bijections, checked in linear time by the kernel (C08).

`permCheck f n` walks `0 … n-1` once, keeping the set of values seen so far as the bits of one
natural number (`Nat.lor`, `Nat.pow`, `Nat.testBit` on literals are GMP-accelerated in the
kernel): it fails as soon as a value repeats and demands that exactly the values `< n` were
seen at the end. `permCheck_sound` turns a successful run into the three mathematical facts
(range, injective, surjective). A quadratic `decide` of the same facts for the 288 pads of a
PadWing board takes a minute; this takes well under a second. Core Lean only.
-/
namespace AlphaG

/-- `f` maps `{0,…,n-1}` bijectively onto itself. -/
structure BijBelow (f : Nat → Nat) (n : Nat) : Prop where
  range : ∀ k, k < n → f k < n
  inj : ∀ k k', k < n → k' < n → f k = f k' → k = k'
  surj : ∀ v, v < n → ∃ k, k < n ∧ f k = v

def permStep (f : Nat → Nat) (acc : Option Nat) (k : Nat) : Option Nat :=
  match acc with
  | none => none
  | some m => if m.testBit (f k) then none else some (m ||| 2 ^ f k)

def permCheck (f : Nat → Nat) (n : Nat) : Bool :=
  (List.range n).foldl (permStep f) (some 0) == some (2 ^ n - 1)

theorem foldl_permStep_none (f : Nat → Nat) (l : List Nat) :
    List.foldl (permStep f) none l = none := by
  induction l with
  | nil => rfl
  | cons k l ih => simpa [List.foldl, permStep] using ih

theorem foldl_permStep (f : Nat → Nat) : ∀ (l : List Nat) (m m' : Nat),
    List.foldl (permStep f) (some m) l = some m' →
      (∀ v, m'.testBit v = true ↔ (m.testBit v = true ∨ ∃ k, k ∈ l ∧ f k = v))
      ∧ (∀ k, k ∈ l → m.testBit (f k) = false)
      ∧ l.Pairwise (fun a b => f a ≠ f b) := by
  intro l
  induction l with
  | nil =>
    intro m m' h
    simp only [List.foldl, Option.some.injEq] at h
    subst h
    simp
  | cons k l ih =>
    intro m m' h
    simp only [List.foldl] at h
    by_cases hb : m.testBit (f k) = true
    · simp only [permStep, hb, if_true] at h
      rw [foldl_permStep_none] at h
      cases h
    · have hb' : m.testBit (f k) = false := by simpa using hb
      simp only [permStep, hb', Bool.false_eq_true, if_false] at h
      obtain ⟨h1, h2, h3⟩ := ih _ _ h
      have hor : ∀ v, (m ||| 2 ^ f k).testBit v = (m.testBit v || decide (f k = v)) := by
        intro v; rw [Nat.testBit_or, Nat.testBit_two_pow]
      refine ⟨?_, ?_, ?_⟩
      · intro v
        rw [h1 v, hor v]
        constructor
        · rintro (h | ⟨k', hk', e⟩)
          · rcases Bool.or_eq_true _ _ ▸ h with h | h
            · exact Or.inl h
            · exact Or.inr ⟨k, List.mem_cons_self, by simpa using h⟩
          · exact Or.inr ⟨k', List.mem_cons_of_mem _ hk', e⟩
        · rintro (h | ⟨k', hk', e⟩)
          · exact Or.inl (by simp [h])
          · rcases List.mem_cons.1 hk' with rfl | hk'
            · exact Or.inl (by simp [e])
            · exact Or.inr ⟨k', hk', e⟩
      · intro k' hk'
        rcases List.mem_cons.1 hk' with rfl | hk'
        · exact hb'
        · have := h2 k' hk'
          rw [hor] at this
          simp only [Bool.or_eq_false_iff] at this
          exact this.1
      · rw [List.pairwise_cons]
        refine ⟨?_, h3⟩
        intro k' hk'
        have := h2 k' hk'
        rw [hor] at this
        simp only [Bool.or_eq_false_iff, decide_eq_false_iff_not] at this
        exact this.2

theorem permCheck_sound {f : Nat → Nat} {n : Nat} (h : permCheck f n = true) : BijBelow f n := by
  unfold permCheck at h
  have h' : List.foldl (permStep f) (some 0) (List.range n) = some (2 ^ n - 1) := by
    simpa using h
  obtain ⟨h1, -, h3⟩ := foldl_permStep f _ _ _ h'
  have key : ∀ v, v < n ↔ ∃ k, k < n ∧ f k = v := by
    intro v
    have := h1 v
    rw [Nat.testBit_two_pow_sub_one] at this
    simpa [List.mem_range] using this
  refine ⟨?_, ?_, ?_⟩
  · intro k hk; exact (key (f k)).2 ⟨k, hk, rfl⟩
  · have hp := List.pairwise_iff_getElem.1 h3
    have ne : ∀ a b, a < b → b < n → f a ≠ f b := by
      intro a b hab hb
      have := hp a b (by simp; omega) (by simp; omega) hab
      simpa using this
    intro k k' hk hk' e
    rcases Nat.lt_trichotomy k k' with h | h | h
    · exact absurd e (ne k k' h hk')
    · exact h
    · exact absurd e.symm (ne k' k h hk)
  · intro v hv; exact (key v).1 hv

end AlphaG
