import AlphaG.Model.Ranges
/-
Declarative specification of "maximal run of occupied wires on a ring", written independently
of the scan of `contiguous_ranges` (from the comment block above the Rust function: blocks of
contiguous `Some` signals, half-open `[first, last)`, the last wire is contiguous with the first).
-/
namespace AlphaG.Ranges

/-- Occupancy at ring position `i` (any natural number, taken modulo the ring size). -/
def occAt (occ : List Bool) (i : Nat) : Bool := occ.getD (i % occ.length) false

/-- `(s, e)` denotes a maximal run on the ring: `s` is a wire, its ring predecessor is free,
exactly `len ≥ 1` wires from `s` going round are occupied and the next one is free; `e` is the
end in the code's convention: `s + len` if that does not pass the seam (`s < e ≤ n`), else
`s + len − n` (`0 < e < s`). -/
def IsRingRun (occ : List Bool) (r : Nat × Nat) : Prop :=
  r.1 < occ.length ∧ occAt occ (r.1 + occ.length - 1) = false ∧
  ∃ len, 0 < len ∧ (∀ d, d < len → occAt occ (r.1 + d) = true) ∧ occAt occ (r.1 + len) = false ∧
    r.2 = if r.1 + len ≤ occ.length then r.1 + len else r.1 + len - occ.length

/-- The wires of a block moved `k` places round a ring of `n`. -/
def shiftBlock (n k : Nat) (b : List Nat) : List Nat := b.map fun w => (w + k) % n

/-- The sequence of `len` ring positions starting at `s`. -/
def ringSeq (n s len : Nat) : List Nat := (List.range len).map fun d => (s + d) % n

end AlphaG.Ranges
