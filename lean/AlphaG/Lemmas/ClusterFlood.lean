import AlphaG.Lemmas.ClusterList
/-
`largest_cluster`: the flood fill only moves points between `points` and `cluster`
(permutation), and every cluster it builds is connected under `near`. Core Lean only.
-/
namespace AlphaG.Cluster

/-! ### single-linkage connectivity -/

/-- `b` is reachable from `a` by `near` steps that stay inside `c`. -/
inductive Reach (near : Nat → Nat → Bool) (c : List Nat) : Nat → Nat → Prop
  | refl (a : Nat) : Reach near c a a
  | step {a b d : Nat} : a ∈ c → b ∈ c → near a b = true → Reach near c b d → Reach near c a d

/-- Any two points of `c` are linked by a chain of `near` steps inside `c`. -/
def Conn (near : Nat → Nat → Bool) (c : List Nat) : Prop :=
  ∀ a ∈ c, ∀ b ∈ c, Reach near c a b

theorem Reach.trans {near : Nat → Nat → Bool} {c : List Nat} {a b d : Nat}
    (h1 : Reach near c a b) (h2 : Reach near c b d) : Reach near c a d := by
  induction h1 with
  | refl a => exact h2
  | step ha hb hn _ ih => exact Reach.step ha hb hn (ih h2)

theorem Reach.mono {near : Nat → Nat → Bool} {c c' : List Nat} (hs : ∀ a ∈ c, a ∈ c') {a b : Nat}
    (h : Reach near c a b) : Reach near c' a b := by
  induction h with
  | refl a => exact Reach.refl a
  | step ha hb hn _ ih => exact Reach.step (hs _ ha) (hs _ hb) hn ih

theorem Conn.nil (near : Nat → Nat → Bool) : Conn near [] := by
  intro a ha; cases ha

theorem Conn.single (near : Nat → Nat → Bool) (p : Nat) : Conn near [p] := by
  intro a ha b hb
  simp only [List.mem_singleton] at ha hb
  subst ha; subst hb
  exact Reach.refl _

/-- Pushing a point that is `near` a member keeps the cluster connected. -/
theorem Conn.push {near : Nat → Nat → Bool} (hsym : ∀ a b, near a b = true → near b a = true)
    {c : List Nat} (hc : Conn near c) {ci q : Nat} (hci : ci ∈ c) (hn : near ci q = true) :
    Conn near (c ++ [q]) := by
  have hsub : ∀ a ∈ c, a ∈ c ++ [q] := fun a ha => List.mem_append_left _ ha
  have hq : q ∈ c ++ [q] := by simp
  intro a ha b hb
  rcases List.mem_append.1 ha with ha' | ha' <;> rcases List.mem_append.1 hb with hb' | hb'
  · exact (hc a ha' b hb').mono hsub
  · simp only [List.mem_singleton] at hb'; subst hb'
    exact ((hc a ha' ci hci).mono hsub).trans
      (Reach.step (hsub _ hci) hq hn (Reach.refl _))
  · simp only [List.mem_singleton] at ha'; subst ha'
    exact Reach.step hq (hsub _ hci) (hsym _ _ hn) ((hc ci hci b hb').mono hsub)
  · simp only [List.mem_singleton] at ha' hb'; subst ha'; subst hb'
    exact Reach.refl _

/-! ### the `j` loop -/

theorem scan_perm (c : Nat → Bool) :
    ∀ (fuel j : Nat) (s : List Nat × List Nat),
      ((scan c fuel j s).1 ++ (scan c fuel j s).2).Perm (s.1 ++ s.2) := by
  intro fuel
  induction fuel with
  | zero => intro j s; exact List.Perm.refl _
  | succ fuel ih =>
    intro j s
    unfold scan
    by_cases hj : j < s.1.length
    · simp only [hj, dite_true]
      by_cases hc : c s.1[j] = true
      · simp only [hc, if_true]
        refine (ih j _).trans ?_
        simp only
        -- swapRemove s.1 j ++ (s.2 ++ [s.1[j]])  ~  s.1 ++ s.2
        have h1 := swapRemove_perm hj
        have : (swapRemove s.1 j ++ (s.2 ++ [s.1[j]])).Perm
            ((s.1[j] :: swapRemove s.1 j) ++ s.2) := by
          rw [← List.append_assoc]
          refine (List.perm_append_singleton _ _).trans ?_
          simp
        exact this.trans (h1.append_right _)
      · simp only [hc, Bool.false_eq_true, if_false]
        exact ih (j + 1) s
    · simp only [hj, dite_false]
      exact List.Perm.refl _

theorem scan_conn {near : Nat → Nat → Bool} (hsym : ∀ a b, near a b = true → near b a = true)
    (ci : Nat) :
    ∀ (fuel j : Nat) (s : List Nat × List Nat), Conn near s.2 → ci ∈ s.2 →
      Conn near (scan (near ci) fuel j s).2 ∧ (∀ a ∈ s.2, a ∈ (scan (near ci) fuel j s).2) := by
  intro fuel
  induction fuel with
  | zero => intro j s hc _; exact ⟨hc, fun a ha => ha⟩
  | succ fuel ih =>
    intro j s hc hci
    unfold scan
    by_cases hj : j < s.1.length
    · simp only [hj, dite_true]
      by_cases hn : near ci s.1[j] = true
      · simp only [hn, if_true]
        have hc' : Conn near (s.2 ++ [s.1[j]]) := hc.push hsym hci hn
        obtain ⟨h1, h2⟩ := ih j (swapRemove s.1 j, s.2 ++ [s.1[j]]) hc'
          (List.mem_append_left _ hci)
        exact ⟨h1, fun a ha => h2 a (List.mem_append_left _ ha)⟩
      · simp only [hn, Bool.false_eq_true, if_false]
        exact ih (j + 1) s hc hci
    · simp only [hj, dite_false]
      exact ⟨hc, fun a ha => ha⟩

/-! ### the `i` loop -/

theorem grow_perm (near : Nat → Nat → Bool) :
    ∀ (fuel i : Nat) (s : List Nat × List Nat),
      ((grow near fuel i s).1 ++ (grow near fuel i s).2).Perm (s.1 ++ s.2) := by
  intro fuel
  induction fuel with
  | zero => intro i s; exact List.Perm.refl _
  | succ fuel ih =>
    intro i s
    unfold grow
    by_cases hi : i < s.2.length
    · simp only [hi, dite_true]
      exact (ih (i + 1) _).trans (scan_perm _ _ _ _)
    · simp only [hi, dite_false]
      exact List.Perm.refl _

theorem grow_conn {near : Nat → Nat → Bool} (hsym : ∀ a b, near a b = true → near b a = true) :
    ∀ (fuel i : Nat) (s : List Nat × List Nat), Conn near s.2 → Conn near (grow near fuel i s).2 := by
  intro fuel
  induction fuel with
  | zero => intro i s hc; exact hc
  | succ fuel ih =>
    intro i s hc
    unfold grow
    by_cases hi : i < s.2.length
    · simp only [hi, dite_true]
      exact ih (i + 1) _ (scan_conn hsym s.2[i] _ _ s hc (List.getElem_mem hi)).1
    · simp only [hi, dite_false]
      exact hc

/-! ### the `pop` loop and the final `max_by_key` -/

theorem components_spec (near : Nat → Nat → Bool) :
    ∀ (fuel : Nat) (pts : List Nat) (out : List (List Nat)),
      ∃ rest, ((components near fuel pts out).flatten ++ rest).Perm (out.flatten ++ pts) := by
  intro fuel
  induction fuel with
  | zero => intro pts out; exact ⟨pts, List.Perm.refl _⟩
  | succ fuel ih =>
    intro pts out
    unfold components
    cases hl : pts.getLast? with
    | none => exact ⟨pts, List.Perm.refl _⟩
    | some p =>
      simp only
      obtain ⟨rest, hr⟩ := ih (grow near pts.length 0 (pts.dropLast, [p])).1
        (out ++ [(grow near pts.length 0 (pts.dropLast, [p])).2])
      refine ⟨rest, hr.trans ?_⟩
      have hg := grow_perm near pts.length 0 (pts.dropLast, [p])
      simp only at hg
      have hpts : pts = pts.dropLast ++ [p] := by
        have hne : pts ≠ [] := by intro h0; subst h0; simp at hl
        rw [List.getLast?_eq_some_getLast hne] at hl
        simp only [Option.some.injEq] at hl
        rw [← hl, List.dropLast_concat_getLast]
      rw [List.flatten_append, List.flatten_singleton, List.append_assoc]
      refine List.Perm.append_left _ ?_
      conv => rhs; rw [hpts]
      exact List.perm_append_comm.trans hg

theorem components_conn {near : Nat → Nat → Bool}
    (hsym : ∀ a b, near a b = true → near b a = true) :
    ∀ (fuel : Nat) (pts : List Nat) (out : List (List Nat)), (∀ c ∈ out, Conn near c) →
      ∀ c ∈ components near fuel pts out, Conn near c := by
  intro fuel
  induction fuel with
  | zero => intro pts out h; exact h
  | succ fuel ih =>
    intro pts out h
    unfold components
    cases hl : pts.getLast? with
    | none => exact h
    | some p =>
      simp only
      apply ih
      intro c hc
      rcases List.mem_append.1 hc with hc | hc
      · exact h c hc
      · simp only [List.mem_singleton] at hc
        subst hc
        exact grow_conn hsym _ _ _ (Conn.single near p)

/-- `largest_cluster` returns a sub-multiset of its argument. -/
theorem largestCluster_le (ctx : Ctx) (near : Nat → Nat → Bool) (pts : List Nat) (x : Nat) :
    cnt ctx x (largestCluster near pts) ≤ cnt ctx x pts := by
  unfold largestCluster
  cases h : lastMaxBy List.length (components near pts.length pts []) with
  | none => simp
  | some c =>
    simp only [Option.getD_some]
    obtain ⟨rest, hr⟩ := components_spec near pts.length pts []
    have h1 := cnt_flatten_le ctx x (lastMaxBy_mem h)
    have h2 := cnt_perm ctx x hr
    rw [cnt_append] at h2
    simp only [List.flatten_nil, List.nil_append] at h2
    omega

theorem largestCluster_subperm (near : Nat → Nat → Bool) (pts : List Nat) :
    ∃ rest, (largestCluster near pts ++ rest).Perm pts := by
  unfold largestCluster
  cases h : lastMaxBy List.length (components near pts.length pts []) with
  | none => exact ⟨pts, by simp⟩
  | some c =>
    simp only [Option.getD_some]
    obtain ⟨rest, hr⟩ := components_spec near pts.length pts []
    obtain ⟨l1, l2, hsplit⟩ := List.append_of_mem (lastMaxBy_mem h)
    refine ⟨l1.flatten ++ l2.flatten ++ rest, ?_⟩
    simp only [List.flatten_nil, List.nil_append] at hr
    refine List.Perm.trans ?_ hr
    rw [hsplit, List.flatten_append, List.flatten_cons]
    simp only [List.append_assoc]
    exact List.perm_append_comm_assoc _ _ _

/-- `largest_cluster` returns a connected set. -/
theorem largestCluster_conn {near : Nat → Nat → Bool}
    (hsym : ∀ a b, near a b = true → near b a = true) (pts : List Nat) :
    Conn near (largestCluster near pts) := by
  unfold largestCluster
  cases h : lastMaxBy List.length (components near pts.length pts []) with
  | none => exact Conn.nil near
  | some c =>
    simp only [Option.getD_some]
    exact components_conn hsym _ _ [] (by intro c hc; cases hc) c (lastMaxBy_mem h)


/-! ### Fuel sufficiency of the three flood-fill loops

The loops of `largest_cluster` are modelled by structural recursion on fuel that is *derived
from the data* (`points.len() - j`, `points.len() + cluster.len() - i`, `points.len()`).
The fuel is sufficient: any additional fuel gives the same result, i.e. each loop has left
through its own exit condition (`j >= points.len()`, `i >= cluster.len()`, `pop() == None`)
before the fuel ran out. -/

theorem scan_fuel (c : Nat → Bool) (k : Nat) :
    ∀ (fuel j : Nat) (s : List Nat × List Nat), s.1.length - j ≤ fuel →
      scan c (fuel + k) j s = scan c fuel j s := by
  intro fuel
  induction fuel with
  | zero =>
    intro j s h
    cases k with
    | zero => rfl
    | succ k =>
      have hj : ¬ j < s.1.length := by omega
      simp only [Nat.zero_add]
      unfold scan
      simp [hj]
  | succ fuel ih =>
    intro j s h
    rw [show fuel + 1 + k = (fuel + k) + 1 by omega]
    unfold scan
    by_cases hj : j < s.1.length
    · simp only [hj, dite_true]
      by_cases hc : c s.1[j] = true
      · simp only [hc, if_true]
        apply ih
        have := swapRemove_length hj
        simp only
        omega
      · simp only [hc, Bool.false_eq_true, if_false]
        apply ih; omega
    · simp only [hj, dite_false]

theorem scan_len2 (c : Nat → Bool) :
    ∀ (fuel j : Nat) (s : List Nat × List Nat), s.2.length ≤ (scan c fuel j s).2.length := by
  intro fuel
  induction fuel with
  | zero => intro j s; exact Nat.le_refl _
  | succ fuel ih =>
    intro j s
    unfold scan
    by_cases hj : j < s.1.length
    · simp only [hj, dite_true]
      by_cases hc : c s.1[j] = true
      · simp only [hc, if_true]
        have := ih j (swapRemove s.1 j, s.2 ++ [s.1[j]])
        simp only [List.length_append, List.length_cons, List.length_nil] at this
        omega
      · simp only [hc, Bool.false_eq_true, if_false]; exact ih (j + 1) s
    · simp only [hj, dite_false]; exact Nat.le_refl _

theorem scan_total_len (c : Nat → Bool) (fuel j : Nat) (s : List Nat × List Nat) :
    (scan c fuel j s).1.length + (scan c fuel j s).2.length = s.1.length + s.2.length := by
  have := (scan_perm c fuel j s).length_eq
  simpa using this

theorem grow_fuel (near : Nat → Nat → Bool) (k : Nat) :
    ∀ (fuel i : Nat) (s : List Nat × List Nat), s.1.length + s.2.length - i ≤ fuel →
      grow near (fuel + k) i s = grow near fuel i s := by
  intro fuel
  induction fuel with
  | zero =>
    intro i s h
    cases k with
    | zero => rfl
    | succ k =>
      have hi : ¬ i < s.2.length := by omega
      simp only [Nat.zero_add]
      unfold grow
      simp [hi]
  | succ fuel ih =>
    intro i s h
    rw [show fuel + 1 + k = (fuel + k) + 1 by omega]
    unfold grow
    by_cases hi : i < s.2.length
    · simp only [hi, dite_true]
      apply ih
      have := scan_total_len (near s.2[i]) s.1.length 0 s
      omega
    · simp only [hi, dite_false]

theorem grow_len2 (near : Nat → Nat → Bool) :
    ∀ (fuel i : Nat) (s : List Nat × List Nat), s.2.length ≤ (grow near fuel i s).2.length := by
  intro fuel
  induction fuel with
  | zero => intro i s; exact Nat.le_refl _
  | succ fuel ih =>
    intro i s
    unfold grow
    by_cases hi : i < s.2.length
    · simp only [hi, dite_true]
      exact Nat.le_trans (scan_len2 _ _ _ s) (ih (i + 1) _)
    · simp only [hi, dite_false]; exact Nat.le_refl _

theorem grow_total_len (near : Nat → Nat → Bool) (fuel i : Nat) (s : List Nat × List Nat) :
    (grow near fuel i s).1.length + (grow near fuel i s).2.length = s.1.length + s.2.length := by
  have := (grow_perm near fuel i s).length_eq
  simpa using this

theorem components_fuel (near : Nat → Nat → Bool) (k : Nat) :
    ∀ (fuel : Nat) (pts : List Nat) (out : List (List Nat)), pts.length ≤ fuel →
      components near (fuel + k) pts out = components near fuel pts out := by
  intro fuel
  induction fuel with
  | zero =>
    intro pts out h
    have : pts = [] := List.eq_nil_of_length_eq_zero (by omega)
    subst this
    cases k with
    | zero => rfl
    | succ k => simp [components]
  | succ fuel ih =>
    intro pts out h
    rw [show fuel + 1 + k = (fuel + k) + 1 by omega]
    unfold components
    cases hl : pts.getLast? with
    | none => rfl
    | some p =>
      simp only
      apply ih
      have h1 := grow_total_len near pts.length 0 (pts.dropLast, [p])
      have h2 := grow_len2 near pts.length 0 (pts.dropLast, [p])
      simp only [List.length_dropLast, List.length_cons, List.length_nil] at h1 h2
      omega

/-- `largest_cluster` does not depend on fuel beyond `points.len()`. -/
theorem largestCluster_fuel (near : Nat → Nat → Bool) (pts : List Nat) (k : Nat) :
    (lastMaxBy List.length (components near (pts.length + k) pts [])).getD []
      = largestCluster near pts := by
  unfold largestCluster
  rw [components_fuel near k pts.length pts [] (Nat.le_refl _)]

end AlphaG.Cluster
