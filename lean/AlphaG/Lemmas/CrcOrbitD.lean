import AlphaG.Lemmas.CrcOrbitDef
/-
Segments 12..15 of the orbit of POLY under the zero-input map: each is one kernel
evaluation of 32800 register steps (`decide +kernel`; no `native_decide`). The junction states
are literals checked by the kernel (generated once with a script; a wrong literal fails).
-/
namespace AlphaG.Crc

theorem orbit_seg12 : walk 3143184419 32800 = some 2834966120 := by decide +kernel
theorem orbit_seg13 : walk 2834966120 32800 = some 4019189949 := by decide +kernel
theorem orbit_seg14 : walk 4019189949 32800 = some 3644625895 := by decide +kernel
theorem orbit_seg15 : walk 3644625895 32800 = some 2995896996 := by decide +kernel

end AlphaG.Crc
