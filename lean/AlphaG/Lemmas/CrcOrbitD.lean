import AlphaG.Lemmas.CrcOrbitDef
/-
Segments 12..15 of the orbit of 1 under the zero-input map: each is one kernel
evaluation of 32800 register steps (`decide +kernel`). The junction states
are literals checked by the kernel (generated once with a script; a wrong literal fails).
-/
namespace AlphaG.Crc

theorem orbit_seg12 : walk 1935546039 32800 = some 1410873889 := by decide +kernel
theorem orbit_seg13 : walk 1410873889 32800 = some 3673393035 := by decide +kernel
theorem orbit_seg14 : walk 3673393035 32800 = some 3080016191 := by decide +kernel
theorem orbit_seg15 : walk 3080016191 32800 = some 1624241081 := by decide +kernel

end AlphaG.Crc
