import AlphaG.Lemmas.Ranges
import AlphaG.Lemmas.RangesAvalanches
/-
Shape of the output of `MainEvent::avalanches` (model `Matching.avalanches`): where an avalanche
can sit and what its amplitudes are. Any carrier; the only law used is the transitivity instance
`0 < a → a < b → 0 < b` (for the pad amplitude `middle > first > 0`).
-/
namespace AlphaG.Matching
open AlphaG.Deconv AlphaG.Ranges

variable {α : Type} (o : Ops α) (g : Geo α) (s : Sorter α)

theorem mem_zipWith_elim {β γ δ : Type} (f : β → γ → δ) :
    ∀ (l₁ : List β) (l₂ : List γ) (d : δ), d ∈ List.zipWith f l₁ l₂ →
      ∃ b ∈ l₁, ∃ c ∈ l₂, d = f b c
  | [], _, _, h => by simp at h
  | _ :: _, [], _, h => by simp at h
  | b :: l₁, c :: l₂, d, h => by
    rw [List.zipWith_cons_cons, List.mem_cons] at h
    rcases h with h | h
    · exact ⟨b, List.mem_cons_self, c, List.mem_cons_self, h⟩
    · obtain ⟨b', hb', c', hc', e⟩ := mem_zipWith_elim f l₁ l₂ d h
      exact ⟨b', List.mem_cons_of_mem _ hb', c', List.mem_cons_of_mem _ hc', e⟩

theorem mem_applyPerm {β : Type} (p : List Nat) (l : List β) (x : β) (h : x ∈ applyPerm p l) :
    x ∈ l := by
  unfold applyPerm at h
  obtain ⟨i, _, hi⟩ := List.mem_filterMap.1 h
  exact List.mem_of_getElem? hi

theorem mem_zip_map {β γ : Type} (f : β → γ) :
    ∀ (l : List β) (p : β × γ), p ∈ l.zip (l.map f) → p.1 ∈ l ∧ p.2 = f p.1
  | [], _, h => by simp at h
  | a :: l, p, h => by
    rw [List.map_cons, List.zip_cons_cons, List.mem_cons] at h
    rcases h with h | h
    · subst h; exact ⟨List.mem_cons_self, rfl⟩
    · have := mem_zip_map f l p h
      exact ⟨List.mem_cons_of_mem _ this.1, this.2⟩

/-- A wire hit in time bin `t` is a positive sample `t` of one of the listed inputs. -/
theorem mem_wireHitsAtT (indices : List Nat) (inputs : List (List α)) (t : Nat) (h : WireHit α)
    (hh : h ∈ wireHitsAtT o indices inputs t) :
    ∃ p ∈ indices.zip inputs, p.1 = h.wire ∧ p.2[t]? = some h.amplitude
      ∧ o.lt o.zero h.amplitude = true := by
  unfold wireHitsAtT at hh
  obtain ⟨p, hp, hv⟩ := List.mem_filterMap.1 hh
  refine ⟨p, hp, ?_⟩
  cases hpt : p.2[t]? with
  | none => simp [hpt] at hv
  | some v =>
    simp only [hpt] at hv
    by_cases hlt : o.lt o.zero v = true
    · simp only [hlt, if_true, Option.some.injEq] at hv
      subst hv
      exact ⟨rfl, rfl, hlt⟩
    · simp [hlt] at hv

/-- Every pad hit has a positive amplitude (`middle > first > 0`). -/
theorem padHitsGo_pos (hlt : ∀ a b : α, o.lt o.zero a = true → o.lt a b = true → o.lt o.zero b = true)
    (t : Nat) : ∀ (rest : List (List α)) (row : Nat) (first middle : α) (h : PadHit α),
      h ∈ padHitsGo o g t rest row first middle → o.lt o.zero h.amplitude = true
  | [], _, _, _, _, hh => by simp [padHitsGo] at hh
  | inp :: rest, row, first, middle, h, hh => by
    rw [padHitsGo, List.mem_append] at hh
    rcases hh with hh | hh
    · by_cases hp : isPeak o first middle (sampleAt o inp t) = true
      · rw [if_pos hp, List.mem_singleton] at hh
        subst hh
        simp only [isPeak, Bool.and_eq_true] at hp
        exact hlt _ _ hp.1.1.1 hp.1.2
      · rw [if_neg hp] at hh
        simp at hh
    · exact padHitsGo_pos hlt t rest (row + 1) middle (sampleAt o inp t) h hh

theorem padHitsAtT_pos (hlt : ∀ a b : α, o.lt o.zero a = true → o.lt a b = true → o.lt o.zero b = true)
    (column : List (List α)) (t : Nat) (h : PadHit α) (hh : h ∈ padHitsAtT o g column t) :
    o.lt o.zero h.amplitude = true := by
  unfold padHitsAtT at hh
  match column, hh with
  | r0 :: r1 :: rest, hh => exact padHitsGo_pos o g hlt t rest 2 _ _ h hh

/-- One column: the avalanche sits on one of the column's wires, its wire amplitude is the
positive sample `t` of that wire's input, its pad amplitude is positive. -/
theorem mem_matchColumn (hlt : ∀ a b : α, o.lt o.zero a = true → o.lt a b = true → o.lt o.zero b = true)
    (indices : List Nat) (f : Nat → List α) (column : List (List α)) (a : Avalanche α)
    (ha : a ∈ matchColumn o g s indices (indices.map f) column) :
    a.wire ∈ indices ∧ (f a.wire)[a.t]? = some a.wireAmp
      ∧ o.lt o.zero a.wireAmp = true ∧ o.lt o.zero a.padAmp = true := by
  unfold matchColumn at ha
  obtain ⟨t, _, hat⟩ := List.mem_flatMap.1 ha
  unfold matchAtT at hat
  split at hat
  · simp at hat
  · obtain ⟨w, hw, p, hp, e⟩ := mem_zipWith_elim _ _ _ _ hat
    have hw' := mem_applyPerm _ _ _ hw
    have hp' := mem_applyPerm _ _ _ hp
    obtain ⟨q, hq, hq1, hq2, hq3⟩ := mem_wireHitsAtT o _ _ _ _ hw'
    obtain ⟨hmem, hval⟩ := mem_zip_map f indices q hq
    subst e
    refine ⟨hq1 ▸ hmem, ?_, hq3, padHitsAtT_pos o g hlt _ _ _ hp'⟩
    show (f w.wire)[t]? = some w.amplitude
    rw [← hq1, ← hval]
    exact hq2

/-- The index of every assignment is an occupied wire. -/
theorem assignments_fst_occupied (P : Params α) (ev : Event α) (p : Nat × List α)
    (hp : p ∈ assignments P ev) : p.1 < 256 ∧ (ev.wires p.1).isSome = true := by
  unfold assignments at hp
  obtain ⟨r, hr, hpr⟩ := List.mem_flatMap.1 hp
  have hmem : p.1 ∈ rangeToIndices nWires r := (List.of_mem_zip (a := p.1) (b := p.2) hpr).1
  have hc := (Ranges.ranges_cover (occupancy ev) p.1).2
    ⟨r, hr, by rw [occupancy_length]; exact hmem⟩
  rw [occupancy_length] at hc
  exact ⟨hc.1, by rw [← occupancy_getD ev p.1 hc.1]; exact hc.2⟩

/-- `avalanches_shape` (see `Props/C13b.lean`). -/
theorem avalanches_shape (hlt : ∀ a b : α, o.lt o.zero a = true → o.lt a b = true → o.lt o.zero b = true)
    (P : Params α) (ev : Event α) (a : Avalanche α) (ha : a ∈ avalanches o g s P ev) :
    (∃ w, w < 256 ∧ (ev.wires w).isSome = true ∧ a.wire ∈ columnWires (wireToPadColumn w))
      ∧ a.wire < 256
      ∧ (wireInput (assignments P ev) a.wire)[a.t]? = some a.wireAmp
      ∧ a.t < (wireInput (assignments P ev) a.wire).length
      ∧ o.lt o.zero a.wireAmp = true ∧ o.lt o.zero a.padAmp = true := by
  unfold avalanches at ha
  obtain ⟨c, hc, hac⟩ := List.mem_flatMap.1 ha
  obtain ⟨hc32, p, hp, hpc⟩ := (mem_padColumns _ c).1 hc
  obtain ⟨hw, hget, h1, h2⟩ := mem_matchColumn o g s hlt _ _ _ a hac
  obtain ⟨hp256, hocc⟩ := assignments_fst_occupied P ev p hp
  refine ⟨⟨p.1, hp256, hocc, hpc ▸ hw⟩, mem_columnWires_lt c hc32 _ hw, hget, ?_, h1, h2⟩
  exact (List.getElem?_eq_some_iff.1 hget).1

end AlphaG.Matching
