import AlphaG.Lemmas.DriftValue
import AlphaG.Lemmas.DriftCheck
import Mathlib.Algebra.Order.Ring.Cast
/-
Transport of the integer checks of `Lemmas/DriftCheck.lean` (evaluated by the kernel on the
generated bit patterns) to the exact values of the table entries in a linear ordered field.
-/
set_option linter.unusedSectionVars false

namespace AlphaG.Drift

variable {K : Type} [Field K] [LinearOrder K] [IsStrictOrderedRing K]

/-- exact value of a finite `f64` bit pattern: `dy b / 2^1074` -/
def val (K : Type) [Field K] [LinearOrder K] [IsStrictOrderedRing K] (b : Nat) : K :=
  ((dy b : Int) : K) / 2 ^ 1074

theorem val_lt {a b : Nat} : val K a < val K b ↔ dy a < dy b := by
  unfold val
  rw [div_lt_div_iff_of_pos_right (by positivity)]
  exact Int.cast_lt

theorem val_le {a b : Nat} : val K a ≤ val K b ↔ dy a ≤ dy b := by
  unfold val
  rw [div_le_div_iff_of_pos_right (by positivity)]
  exact Int.cast_le

theorem val_eq_zero {b : Nat} (h : dy b = 0) : val K b = 0 := by
  simp [val, h]

theorem val_pos {b : Nat} (h : 0 < dy b) : 0 < val K b := by
  unfold val
  exact div_pos (Int.cast_pos.2 h) (by positivity)

/-- the generated tables with their exact values -/
def exactTables (K : Type) [Field K] [LinearOrder K] [IsStrictOrderedRing K]
    (bits : List (List (Nat × Nat × Nat) × Nat)) : List (Slice K) :=
  tablesOfBits (val K) bits

/-- knot `i` of a slice of bit patterns -/
def bk (s : List (Nat × Nat × Nat)) (i : Nat) : Nat × Nat × Nat := s.getD i (0, 0, 0)
/-- slice `i` of the bit patterns -/
def bs (bits : List (List (Nat × Nat × Nat) × Nat)) (i : Nat) : List (Nat × Nat × Nat) × Nat :=
  bits.getD i ([], 0)

theorem bk_succ (a : Nat × Nat × Nat) (l : List (Nat × Nat × Nat)) (i : Nat) :
    bk (a :: l) (i + 1) = bk l i := by simp [bk]

theorem kn_map (s : List (Nat × Nat × Nat)) (f : Nat × Nat × Nat → Knot K) {i : Nat}
    (h : i < s.length) : kn (s.map f) i = f (bk s i) := by
  simp [kn, bk, List.getD_eq_getElem?_getD, List.getElem?_eq_getElem h]

theorem sl_exact (bits : List (List (Nat × Nat × Nat) × Nat)) {i : Nat} (h : i < bits.length) :
    sl (exactTables K bits) i =
      { table := (bs bits i).1.map fun k => { t := val K k.1, r := val K k.2.1, c := val K k.2.2 },
        zUpper := val K (bs bits i).2 } := by
  simp [sl, bs, exactTables, tablesOfBits, List.getD_eq_getElem?_getD, List.getElem?_eq_getElem h]

theorem exactTables_length (bits : List (List (Nat × Nat × Nat) × Nat)) :
    (exactTables K bits).length = bits.length := by
  simp [exactTables, tablesOfBits]

theorem bs_mem {bits : List (List (Nat × Nat × Nat) × Nat)} {i : Nat} (h : i < bits.length) :
    bs bits i ∈ bits := by
  simp only [bs, List.getD_eq_getElem?_getD, List.getElem?_eq_getElem h, Option.getD_some]
  exact List.getElem_mem _

theorem checkAdj_spec : ∀ (s : List (Nat × Nat × Nat)), checkAdj s = true → ∀ i, i + 1 < s.length →
    dy (bk s i).1 < dy (bk s (i + 1)).1 ∧ dy (bk s (i + 1)).2.1 ≤ dy (bk s i).2.1
      ∧ dy (bk s i).2.2 ≤ dy (bk s (i + 1)).2.2
  | [], _, i, hi => by simp at hi
  | [_], _, i, hi => by simp at hi
  | a :: b :: rest, h, i, hi => by
    simp only [checkAdj, Bool.and_eq_true, decide_eq_true_eq] at h
    obtain ⟨⟨⟨h1, h2⟩, h3⟩, h4⟩ := h
    cases i with
    | zero => exact ⟨by simpa [bk] using h1, by simpa [bk] using h2, by simpa [bk] using h3⟩
    | succ i =>
      have := checkAdj_spec (b :: rest) h4 i (by simpa using hi)
      simpa only [bk_succ] using this

theorem checkZAdj_spec : ∀ (zs : List Nat), checkZAdj zs = true → ∀ i, i + 1 < zs.length →
    dy (zs.getD i 0) < dy (zs.getD (i + 1) 0)
  | [], _, i, hi => by simp at hi
  | [_], _, i, hi => by simp at hi
  | a :: b :: rest, h, i, hi => by
    simp only [checkZAdj, Bool.and_eq_true, decide_eq_true_eq] at h
    cases i with
    | zero => simpa using h.1
    | succ i =>
      have := checkZAdj_spec (b :: rest) h.2 i (by simpa using hi)
      simpa using this

theorem checkStep_spec : ∀ (s : List (Nat × Nat × Nat)) (j0 : Nat) (exc : List Nat),
    checkStep s j0 exc = true → ∀ i, i + 1 < s.length → j0 + i ∉ exc →
    (dy (bk s i).2.1 - dy (bk s (i + 1)).2.1) * 16000 < (dy (bk s (i + 1)).1 - dy (bk s i).1) * 1000000000
      ∧ (dy (bk s (i + 1)).2.1 - dy (bk s i).2.1) * 16000
          < (dy (bk s (i + 1)).1 - dy (bk s i).1) * 1000000000
  | [], _, _, _, i, hi, _ => by simp at hi
  | [_], _, _, _, i, hi, _ => by simp at hi
  | a :: b :: rest, j0, exc, h, i, hi, hne => by
    simp only [checkStep, Bool.and_eq_true, Bool.or_eq_true, decide_eq_true_eq,
      List.contains_iff_mem] at h
    cases i with
    | zero =>
      rcases h.1 with hc | hc
      · exact absurd hc (by simpa using hne)
      · simpa [bk] using hc
    | succ i =>
      have := checkStep_spec (b :: rest) (j0 + 1) exc h.2 i (by simpa using hi)
        (by rwa [show j0 + 1 + i = j0 + (i + 1) by omega])
      simpa only [bk_succ] using this

theorem mem_exceptionsOf {l : List (Nat × Nat)} {i j : Nat} : j ∈ exceptionsOf l i ↔ (i, j) ∈ l := by
  simp only [exceptionsOf, List.mem_map, List.mem_filter, beq_iff_eq]
  constructor
  · rintro ⟨⟨a, b⟩, ⟨hm, rfl⟩, rfl⟩; exact hm
  · intro h; exact ⟨(i, j), ⟨h, rfl⟩, rfl⟩

/-- `checkSlice` on the bit patterns gives `SliceOk` on the exact values. -/
theorem sliceOk_of_check {s : List (Nat × Nat × Nat)} (h : checkSlice s = true) :
    SliceOk (s.map fun k => ({ t := val K k.1, r := val K k.2.1, c := val K k.2.2 } : Knot K)) := by
  simp only [checkSlice, Bool.and_eq_true, decide_eq_true_eq] at h
  obtain ⟨⟨⟨h2, -⟩, h0⟩, hadj⟩ := h
  have hs := checkAdj_spec s hadj
  refine ⟨by simpa using h2, ?_, ?_, ?_, ?_⟩
  · intro i hi
    have hi' : i + 1 < s.length := by simpa using hi
    rw [kn_map s _ (by omega : i < s.length), kn_map s _ hi']
    exact val_lt.2 (hs i hi').1
  · intro i hi
    have hi' : i + 1 < s.length := by simpa using hi
    rw [kn_map s _ (by omega : i < s.length), kn_map s _ hi']
    exact val_le.2 (hs i hi').2.1
  · intro i hi
    have hi' : i + 1 < s.length := by simpa using hi
    rw [kn_map s _ (by omega : i < s.length), kn_map s _ hi']
    exact val_le.2 (hs i hi').2.2
  · rw [kn_map s _ (by omega : 0 < s.length)]
    cases s with
    | nil => simp at h2
    | cons a l =>
      simp only [firstCorrZero, decide_eq_true_eq] at h0
      exact val_eq_zero (by simpa [bk] using h0)

/-- The kernel-checked obligations on the bit patterns give `TablesOk` on the exact values. -/
theorem tablesOk_of_check {bits : List (List (Nat × Nat × Nat) × Nat)}
    (hs : ∀ s ∈ bits, checkSlice s.1 = true) (hz : checkZ (bits.map (·.2)) = true) :
    TablesOk (exactTables K bits) := by
  simp only [checkZ, Bool.and_eq_true, decide_eq_true_eq, List.all_eq_true, List.length_map] at hz
  obtain ⟨⟨⟨h1, -⟩, hpos⟩, hadj⟩ := hz
  have hz' := checkZAdj_spec _ hadj
  have hget : ∀ i, i < bits.length → (bits.map (·.2)).getD i 0 = (bs bits i).2 := by
    intro i hi
    simp [bs, List.getD_eq_getElem?_getD, List.getElem?_eq_getElem hi]
  refine ⟨by rw [exactTables_length]; exact h1, ?_, ?_, ?_⟩
  · intro i hi
    rw [exactTables_length] at hi
    rw [sl_exact bits hi]
    exact sliceOk_of_check (hs _ (bs_mem hi))
  · have h0 : 0 < bits.length := by omega
    simp only [zb]
    rw [sl_exact bits h0]
    apply val_pos
    have := hpos (bs bits 0).2 (List.mem_map.2 ⟨bs bits 0, bs_mem h0, rfl⟩)
    simpa using this
  · intro i hi
    rw [exactTables_length] at hi
    simp only [zb]
    rw [sl_exact bits (by omega : i < bits.length), sl_exact bits hi]
    apply val_lt.2
    have := hz' i (by simpa using hi)
    rwa [hget i (by omega), hget (i + 1) hi] at this

/-- The step check on the bit patterns: every knot interval of slice `i` not listed in `exc`
has `|Δr| · 8 ns < 0.5 mm · Δt` on the exact values. -/
theorem step_of_check {s : List (Nat × Nat × Nat)} {exc : List Nat}
    (h : checkStep s 0 exc = true) (j : Nat) (hj : j + 1 < s.length) (hne : j ∉ exc) :
    |val K (bk s j).2.1 - val K (bk s (j + 1)).2.1| * (8 / 1000000000)
      < 1 / 2000 * (val K (bk s (j + 1)).1 - val K (bk s j).1) := by
  obtain ⟨h1, h2⟩ := checkStep_spec s 0 exc h j hj (by simpa using hne)
  have c1 := (Int.cast_lt (R := K)).2 h1
  have c2 := (Int.cast_lt (R := K)).2 h2
  push_cast at c1 c2
  unfold val
  have hS : (0 : K) < 2 ^ 1074 := by positivity
  generalize (2 : K) ^ 1074 = S at hS ⊢
  generalize ((dy (bk s j).2.1 : Int) : K) = A at c1 c2 ⊢
  generalize ((dy (bk s (j + 1)).2.1 : Int) : K) = B at c1 c2 ⊢
  generalize ((dy (bk s (j + 1)).1 : Int) : K) = C at c1 c2 ⊢
  generalize ((dy (bk s j).1 : Int) : K) = E at c1 c2 ⊢
  have hS' : S ≠ 0 := ne_of_gt hS
  have e2 : 1 / 2000 * (C / S - E / S) = ((C - E) * 1000000000) / (S * 2000 * 1000000000) := by
    field_simp
  rw [e2]
  rcases abs_cases (A / S - B / S) with ⟨e, -⟩ | ⟨e, -⟩
  · rw [e]
    have e1 : (A / S - B / S) * (8 / 1000000000) = ((A - B) * 16000) / (S * 2000 * 1000000000) := by
      field_simp; ring
    rw [e1]
    exact (div_lt_div_iff_of_pos_right (by positivity)).2 c1
  · rw [e]
    have e1 : -(A / S - B / S) * (8 / 1000000000) = ((B - A) * 16000) / (S * 2000 * 1000000000) := by
      field_simp; ring
    rw [e1]
    exact (div_lt_div_iff_of_pos_right (by positivity)).2 c2

end AlphaG.Drift
