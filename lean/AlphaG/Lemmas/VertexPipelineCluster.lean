import AlphaG.Model.VertexPipeline
/-
The sites the clustering model (`Model/Cluster.lean`) and the remainder loop of the vertex model
(`Model/Vertexing.lean`) can name, by inspection of every branch — no hypothesis on the context.
(`Props/C15` shows that none of them is reachable for a `Good` context; here we only need the
*list* for the inventory of `vertex()`.) Core Lean only.
-/
namespace AlphaG.VertexPipeline
open AlphaG AlphaG.Cluster

/-- Every site of `cluster_spacepoints` downstream of `get_bins`: the two `unwrap()`s of
`remove_unchecked`, the `unwrap()` of the remainder loop, and the two fuel sentinels of the model's
loops (not Rust panics: a non-terminating loop would show up as one of them). -/
def clusterSites : List String :=
  ["remove_unchecked:get_mut", "remove_unchecked:position", "remainder:position",
   "fuel:best_cluster", "fuel:cluster_loop"]

theorem removeBin_site (ctx : Ctx) (acc : Acc) (b p : Nat) (s : String)
    (h : removeBin ctx acc b p = .panic s) : s ∈ clusterSites := by
  unfold removeBin at h
  split at h
  · simp only [Outcome.panic.injEq] at h; subst h; simp [clusterSites]
  · split at h
    · simp only [Outcome.panic.injEq] at h; subst h; simp [clusterSites]
    · cases h

theorem removeBins_site (ctx : Ctx) (p : Nat) (bs : List Nat) (acc : Acc) (s : String)
    (h : removeBins ctx p bs acc = .panic s) : s ∈ clusterSites := by
  induction bs generalizing acc with
  | nil => simp [removeBins] at h
  | cons b bs ih =>
    unfold removeBins at h
    cases hb : removeBin ctx acc b p with
    | ok acc' => rw [hb] at h; exact ih acc' h
    | err e => rw [hb] at h; cases h
    | panic s' =>
      rw [hb] at h
      simp only [Outcome.panic.injEq] at h
      subst h
      exact removeBin_site ctx acc b p _ hb

theorem removeAll_site (ctx : Ctx) (ps : List Nat) (acc : Acc) (s : String)
    (h : removeAll ctx ps acc = .panic s) : s ∈ clusterSites := by
  induction ps generalizing acc with
  | nil => simp [removeAll] at h
  | cons p ps ih =>
    unfold removeAll at h
    cases hb : remove ctx acc p with
    | ok acc' => rw [hb] at h; exact ih acc' h
    | err e => rw [hb] at h; cases h
    | panic s' =>
      rw [hb] at h
      simp only [Outcome.panic.injEq] at h
      subst h
      exact removeBins_site ctx p _ acc _ hb

theorem bestCluster_site (ctx : Ctx) (fuel : Nat) (acc : Acc) (prev : List Nat) (s : String)
    (h : bestCluster ctx fuel acc prev = .panic s) : s ∈ clusterSites := by
  induction fuel generalizing acc prev with
  | zero =>
    simp only [bestCluster, Outcome.panic.injEq] at h
    subst h
    simp [clusterSites]
  | succ fuel ih =>
    unfold bestCluster at h
    simp only at h
    split at h
    · cases h
    · cases hr : removeAll ctx (largestCluster ctx.near (mostPopular acc)) acc with
      | ok acc' => rw [hr] at h; exact ih _ _ h
      | err e => rw [hr] at h; cases h
      | panic s' =>
        rw [hr] at h
        simp only [Outcome.panic.injEq] at h
        subst h
        exact removeAll_site ctx _ acc _ hr

theorem outer_site (ctx : Ctx) (min n fuel : Nat) (acc : Acc) (cls : List (List Nat)) (s : String)
    (h : outer ctx min n fuel acc cls = .panic s) : s ∈ clusterSites := by
  induction fuel generalizing acc cls with
  | zero =>
    simp only [outer, Outcome.panic.injEq] at h
    subst h
    simp [clusterSites]
  | succ fuel ih =>
    unfold outer at h
    cases hb : bestCluster ctx (n + 1) acc [] with
    | ok r =>
      rw [hb] at h
      simp only at h
      split at h
      · cases h
      · exact ih _ _ h
    | err e => rw [hb] at h; cases h
    | panic s' =>
      rw [hb] at h
      simp only [Outcome.panic.injEq] at h
      subst h
      exact bestCluster_site ctx _ acc [] _ hb

theorem removeFromSp_site (ctx : Ctx) (ps sp : List Nat) (s : String)
    (h : removeFromSp ctx ps sp = .panic s) : s ∈ clusterSites := by
  induction ps generalizing sp with
  | nil => simp [removeFromSp] at h
  | cons p ps ih =>
    unfold removeFromSp at h
    split at h
    · simp only [Outcome.panic.injEq] at h; subst h; simp [clusterSites]
    · exact ih _ h

/-- Whatever the context: a panic of the clustering model names one of `clusterSites`. -/
theorem cluster_site (ctx : Ctx) (min : Nat) (sp : List Nat) (s : String)
    (h : cluster ctx min sp = .panic s) : s ∈ clusterSites := by
  unfold cluster at h
  cases ho : outer ctx min sp.length (sp.length + 1) (fill ctx sp) [] with
  | ok cls =>
    rw [ho] at h
    simp only at h
    cases hr : removeFromSp ctx cls.flatten sp with
    | ok rem => rw [hr] at h; cases h
    | err e => rw [hr] at h; cases h
    | panic s' =>
      rw [hr] at h
      simp only [Outcome.panic.injEq] at h
      subst h
      exact removeFromSp_site ctx _ _ _ hr
  | err e => rw [ho] at h; cases h
  | panic s' =>
    rw [ho] at h
    simp only [Outcome.panic.injEq] at h
    subst h
    exact outer_site ctx min _ _ _ _ _ ho

/-- The remainder loop of `find_vertices` names one site. -/
theorem removeTracks_site (ctx : Vertexing.Ctx) (l ts : List Nat) (s : String)
    (h : Vertexing.removeTracks ctx l ts = .panic s) : s = "find_vertices:position" := by
  induction l generalizing ts with
  | nil => simp [Vertexing.removeTracks] at h
  | cons p ps ih =>
    unfold Vertexing.removeTracks at h
    split at h
    · simp only [Outcome.panic.injEq] at h; exact h.symm
    · exact ih _ h

end AlphaG.VertexPipeline
