import AlphaG.Lemmas.EventLoop
/-
C10, timestamp: the specification `expectedTs` and the invariant of the first loop.
-/
namespace AlphaG.Event
open AlphaG AlphaG.Generated AlphaG.Maps

variable {α : Type} (ops : Ops α)

/-! ### Timestamp -/

/-- The timestamp a bank delivers: the bank is named `ATAT` and holds a well-formed TRG packet. -/
def trgOf (b : Bank) : Option Nat :=
  match BankName.parseBankName b.1 with
  | .ok nm =>
    match nm.kind with
    | .trg =>
      match Trg.decode b.2 with
      | .ok p => some p.timestamp
      | _ => none
    | _ => none
  | _ => none

/-- C10: the event timestamp is the TRG packet's (there is exactly one). -/
def expectedTs (banks : List Bank) : Option Nat :=
  match banks.filterMap trgOf with
  | [t] => some t
  | _ => none

def TsInv (st : St α) (done : List Bank) : Prop :=
  (done.filterMap trgOf = [] ∧ st.ts = none) ∨ (∃ t, done.filterMap trgOf = [t] ∧ st.ts = some t)

theorem trgOf_of_kind_ne {b : Bank} {nm : BankName.Name}
    (hp : BankName.parseBankName b.1 = .ok nm) (hk : nm.kind ≠ .trg) : trgOf b = none := by
  unfold trgOf
  rw [hp]
  cases hkk : nm.kind <;> simp_all

theorem bankStep_tsInv {run : Nat} {b : Bank} {st st' : St α} {done : List Bank}
    (h : bankStep ops run b st = .ok st') (hinv : TsInv st done) : TsInv st' (done ++ [b]) := by
  obtain ⟨nm, hnm, hcase⟩ := bankStep_ok ops h
  have keep : trgOf b = none → st'.ts = st.ts → TsInv st' (done ++ [b]) := by
    intro h1 h2
    unfold TsInv
    have e : (done ++ [b]).filterMap trgOf = done.filterMap trgOf := by
      rw [List.filterMap_append]; simp only [List.filterMap, h1, List.append_nil]
    rw [e, h2]
    exact hinv
  rcases hcase with ⟨hk, hb⟩ | ⟨hk, hb⟩ | ⟨hk, hb⟩ | ⟨_, _, h3, hb⟩
  · refine keep (trgOf_of_kind_ne hnm (by rw [hk]; decide)) ?_
    obtain ⟨p, _, hpk⟩ := wireBank_ok ops hb
    obtain ⟨ch, _, _, _, hwf⟩ := wirePacket_ok ops hpk
    rcases hwf with ⟨_, hst⟩ | ⟨_, hstore⟩
    · rw [hst]; rfl
    · exact (wireStore_pad ops hstore).2.2
  · refine keep (trgOf_of_kind_ne hnm (by rw [hk]; decide)) ?_
    obtain ⟨c, _, _, hst⟩ := padwingBank_ok hb
    rw [hst]
  · obtain ⟨p, hp, hnone, hst⟩ := trgBank_ok hb
    have ht : trgOf b = some p.timestamp := by
      unfold trgOf; rw [hnm]; simp only [hk, hp]
    rcases hinv with ⟨h1, _⟩ | ⟨t, _, h2⟩
    · right
      refine ⟨p.timestamp, ?_, by rw [hst]⟩
      rw [List.filterMap_append, h1]
      simp [List.filterMap, ht]
    · rw [hnone] at h2; cases h2
  · exact keep (trgOf_of_kind_ne hnm h3) (by rw [hb])

theorem bankLoop_tsInv {run : Nat} : ∀ (banks : List Bank) (st st' : St α) (done : List Bank),
    bankLoop ops run banks st = .ok st' → TsInv st done → TsInv st' (done ++ banks)
  | [], st, st', done, h, hinv => by
    simp only [bankLoop, ok_eq_ok] at h
    subst h; simpa using hinv
  | b :: bs, st, st', done, h, hinv => by
    obtain ⟨st1, h1, h2⟩ := bankLoop_cons_ok ops h
    have := bankLoop_tsInv bs st1 st' (done ++ [b]) h2 (bankStep_tsInv ops h1 hinv)
    simpa using this

end AlphaG.Event
