import AlphaG.Lemmas.Event
/-
Inversion lemmas for the event-assembly model: what a successful step of `try_from_banks` did
(used by C10 `assembly_spec`, the `assembly_rejects_*` theorems and C11).
-/
namespace AlphaG.Event
open AlphaG AlphaG.Generated AlphaG.Maps

variable {α : Type} (ops : Ops α)

/-- The state after recording the bank name. -/
def St.named (st : St α) (nm : BankName.Name) : St α :=
  { st with wireNames := st.wireNames ++ [(nm.board, nm.channel)] }

theorem wireStore_ok {run board ch : Nat} {wf : List Int} {st st' : St α}
    (h : wireStore ops run board ch wf st = .ok st') :
    ∃ w bl g d, wirePosition run board ch = .ok w ∧ w < 256 ∧ slotTaken st.wire w = false
      ∧ wireBaseline run w = .ok bl ∧ wireGainBits run w = .ok g ∧ wireDelay run = .ok d
      ∧ st' = (if (calibrate ops bl (ops.ofBits g) d wf).isEmpty then st
               else { st with
                 wire := (st.wire.setIfInBounds w (some (calibrate ops bl (ops.ofBits g) d wf))) }) := by
  unfold wireStore at h
  split at h
  · cases h
  · cases h
  · rename_i w hw
    simp only [need_eq_ok, decide_eq_true_eq] at h
    obtain ⟨hlt, h⟩ := h
    split at h
    · cases h
    · rename_i hs
      split at h
      · cases h
      · cases h
      · rename_i bl hbl
        split at h
        · cases h
        · cases h
        · rename_i g hg
          split at h
          · cases h
          · cases h
          · rename_i d hd
            simp only [need_eq_ok, ok_eq_ok] at h
            exact ⟨w, bl, g, d, hw, hlt, by simpa using hs, hbl, hg, hd, h.2.symm⟩

theorem wirePacket_ok {run : Nat} {nm : BankName.Name} {p : Adc.Packet} {st st' : St α}
    (h : wirePacket ops run nm p st = .ok st') :
    ∃ ch, p.channelId = .a32 ch ∧ st.wireNames.contains (nm.board, nm.channel) = false
      ∧ (alpha16Boards[nm.board]?, nm.channel) = (boardOf nm p, ch)
      ∧ ((p.waveform = [] ∧ st' = st.named nm)
         ∨ (p.waveform ≠ [] ∧
            wireStore ops run (a16Row (boardOf nm p)) ch p.waveform (st.named nm) = .ok st')) := by
  unfold wirePacket at h
  split at h
  · cases h
  · rename_i hn
    split at h
    · cases h
    · rename_i ch hch
      split at h
      · cases h
      · rename_i hid
        refine ⟨ch, hch, by simpa using hn, by simpa using hid, ?_⟩
        split at h
        · rename_i he
          left
          exact ⟨by simpa using he, by cases h; rfl⟩
        · rename_i he
          right
          exact ⟨by simpa using he, h⟩

theorem wireBank_ok {run : Nat} {nm : BankName.Name} {data : List UInt8} {st st' : St α}
    (h : wireBank ops run nm data st = .ok st') :
    ∃ p, Adc.decodeAdcPacket data = .ok p ∧ wirePacket ops run nm p st = .ok st' := by
  unfold wireBank at h
  split at h
  · cases h
  · cases h
  · rename_i p hp; exact ⟨p, hp, h⟩

theorem padwingBank_ok {nm : BankName.Name} {data : List UInt8} {st st' : St α}
    (h : padwingBank nm data st = .ok st') :
    ∃ c, Chunk.decodeChunk data = .ok c
      ∧ Chunk.boardOfDeviceId c.deviceId = padwingBoards[nm.board]?
      ∧ st' = { st with groups := pushChunk (chunkKey c) (toChunkV c) st.groups } := by
  unfold padwingBank at h
  split at h
  · cases h
  · cases h
  · rename_i c hc
    simp only [need_eq_ok] at h
    obtain ⟨_, _, h⟩ := h
    split at h
    · cases h
    · rename_i hb
      exact ⟨c, hc, by simpa using hb, by cases h; rfl⟩

theorem trgBank_ok {data : List UInt8} {st st' : St α} (h : trgBank data st = .ok st') :
    ∃ p, Trg.decode data = .ok p ∧ st.ts = none ∧ st' = { st with ts := some p.timestamp } := by
  unfold trgBank at h
  split at h
  · cases h
  · cases h
  · rename_i p hp
    split at h
    · cases h
    · rename_i hn
      exact ⟨p, hp, by simpa using hn, by cases h; rfl⟩

/-- A successful iteration of the first loop, by kind of bank. -/
theorem bankStep_ok {run : Nat} {b : Bank} {st st' : St α} (h : bankStep ops run b st = .ok st') :
    ∃ nm, BankName.parseBankName b.1 = .ok nm ∧
      ((nm.kind = .adc32 ∧ wireBank ops run nm b.2 st = .ok st')
       ∨ (nm.kind = .padwing ∧ padwingBank nm b.2 st = .ok st')
       ∨ (nm.kind = .trg ∧ trgBank b.2 st = .ok st')
       ∨ (nm.kind ≠ .adc32 ∧ nm.kind ≠ .padwing ∧ nm.kind ≠ .trg ∧ st' = st)) := by
  unfold bankStep at h
  split at h
  · cases h
  · cases h
  · rename_i nm hnm
    refine ⟨nm, hnm, ?_⟩
    split at h
    · rename_i hk; exact Or.inl ⟨hk, h⟩
    · rename_i hk; exact Or.inr (Or.inl ⟨hk, h⟩)
    · rename_i hk; exact Or.inr (Or.inr (Or.inl ⟨hk, h⟩))
    · rename_i h1 h2 h3
      refine Or.inr (Or.inr (Or.inr ⟨h1, h2, h3, ?_⟩))
      cases h; rfl

theorem bankLoop_cons_ok {run : Nat} {b : Bank} {bs : List Bank} {st st' : St α}
    (h : bankLoop ops run (b :: bs) st = .ok st') :
    ∃ st1, bankStep ops run b st = .ok st1 ∧ bankLoop ops run bs st1 = .ok st' := by
  unfold bankLoop at h
  split at h
  · rename_i st1 h1; exact ⟨st1, h1, h⟩
  · cases h
  · cases h

theorem padStore_ok {run board chip ch : Nat} {wf : List Int} {pad pad' : Array (Option (List α))}
    (h : padStore ops run board chip ch wf pad = .ok pad') :
    ∃ pos bl g d, padPosition run board chip ch = .ok pos ∧ pos.1 < 32 ∧ pos.2 < 576
      ∧ slotTaken pad (pos.1 * nPadRows + pos.2) = false
      ∧ padBaseline run pos.1 pos.2 = .ok bl ∧ padGainBits run pos.1 pos.2 = .ok g
      ∧ padDelay run = .ok d
      ∧ pad' = (if (calibrate ops bl (ops.ofBits g) d wf).isEmpty then pad
                else pad.setIfInBounds (pos.1 * nPadRows + pos.2)
                  (some (calibrate ops bl (ops.ofBits g) d wf))) := by
  unfold padStore at h
  split at h
  · cases h
  · cases h
  · rename_i pos hpos
    simp only [need_eq_ok, decide_eq_true_eq] at h
    obtain ⟨hc, hr, h⟩ := h
    split at h
    · cases h
    · rename_i hs
      split at h
      · cases h
      · cases h
      · rename_i bl hbl
        split at h
        · cases h
        · cases h
        · rename_i g hg
          split at h
          · cases h
          · cases h
          · rename_i d hd
            simp only [need_eq_ok, ok_eq_ok] at h
            exact ⟨pos, bl, g, d, hpos, hc, hr, by simpa using hs, hbl, hg, hd, h.2.symm⟩

theorem keyRow_eq {k : Key} {p : Pwb.PwbPacket} (h : some (packetBoard p) = k.1) :
    keyRow k = pwbRow p := by
  unfold keyRow; rw [← h]; rfl

theorem keyChip_eq {k : Key} {p : Pwb.PwbPacket} (h : Chunk.afterOfNat p.afterId = k.2)
    (hlt : p.afterId < 4) : keyChip k = p.afterId := by
  unfold keyChip; rw [← h]
  match hn : p.afterId, hlt with
  | 0, _ => rfl
  | 1, _ => rfl
  | 2, _ => rfl
  | 3, _ => rfl

theorem afterNum_lt (a : Chunk.AfterId) : afterNum a < 4 := by cases a <;> decide

theorem keyChip_lt (k : Key) : keyChip k < 4 := by
  unfold keyChip
  split
  · exact afterNum_lt _
  · decide

theorem keyRow_lt (k : Key) : keyRow k < padwingBoards.length := by
  unfold keyRow
  cases k.1 with
  | none => decide
  | some b =>
    simp only [Option.bind_some]
    exact findIdx_getD_lt padwingBoards _ (by decide)

/-- A successful iteration of the second loop: the packet agrees with the key of its chunks. -/
theorem groupStep_ok {run : Nat} {g : Group} {pad pad' : Array (Option (List α))}
    (h : groupStep ops run g pad = .ok pad') :
    ∃ p, Pwb.reassemble g.2 = .ok p ∧ some (packetBoard p) = g.1.1
      ∧ Chunk.afterOfNat p.afterId = g.1.2
      ∧ channelLoop ops run (keyRow g.1) (keyChip g.1) p p.channelsSent pad = .ok pad' := by
  unfold groupStep at h
  split at h
  · cases h
  · cases h
  · rename_i p hp
    split at h
    · cases h
    · rename_i h1
      split at h
      · cases h
      · rename_i h2
        exact ⟨p, hp, by simpa using h1, by simpa using h2, h⟩

end AlphaG.Event
