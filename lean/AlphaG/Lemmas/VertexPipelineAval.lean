import AlphaG.Model.VertexPipeline
import AlphaG.Lemmas.DeconvBasic
import AlphaG.Lemmas.Ranges
/-
Panic inventory of stage 1 of `vertex()` — `MainEvent::avalanches()` as modelled by
`Avalanches.run` — over an arbitrary carrier, no law: under the Rust `assert!` on the response
tables (`ResponsesOk`, checked on the real tables by the C17 harness) the deconvolutions cannot
panic, a block of `contiguous_ranges` is never empty, so the only site left is the
`cholesky_in_place(..).unwrap()`, which fires exactly when the model's factorisation meets a
non-positive pivot for the size of one of the event's wire blocks.
Core Lean only.
-/
namespace AlphaG.VertexPipeline
open AlphaG AlphaG.Deconv AlphaG.Ranges AlphaG.Matching AlphaG.Avalanches

variable {α : Type} (o : Deconv.Ops α)

/-- The `assert!(response_window.iter().all(|&x| x < 0.0))` of `nn_greedy_deconvolution` holds for
every window of the two grids the code sweeps (wires `0..=1 × 3..=12`, pads `3..=5 × 7..=12`). -/
structure ResponsesOk (T : Tables α) : Prop where
  wire : ∀ off la, off ≤ 1 → 3 ≤ la → la ≤ 12 → ResponseNeg o T.wireResp off la
  pad : ∀ off la, 3 ≤ off → off ≤ 5 → 7 ≤ la → la ≤ 12 → ResponseNeg o T.padResp off la

theorem lsDeconv_total (signal resp : List α) (offLo offHi laLo laHi : Nat) (hla : 0 < laLo)
    (hresp : ∀ off la, offLo ≤ off → off ≤ offHi → laLo ≤ la → la ≤ laHi → ResponseNeg o resp off la) :
    ∃ out, lsDeconv o signal resp offLo offHi laLo laHi = .ok out := by
  unfold lsDeconv lsDeconvWith
  apply lsLoop_total
  rintro ⟨off, la⟩ hp
  obtain ⟨⟨h1, h2⟩, h3, h4⟩ := (mem_grid _ _ _ _ _ _).mp hp
  obtain ⟨res, sum, inp, h⟩ := nnGreedy_total o true signal resp off la (by omega) (hresp off la h1 h2 h3 h4)
  exact ⟨_, h⟩

theorem wireDeconv_total {T : Tables α} (R : ResponsesOk o T) (signal : List α) :
    ∃ out, wireDeconv o T.wireResp signal = .ok out :=
  lsDeconv_total o signal T.wireResp 0 1 3 12 (by omega) (fun off la _ h2 h3 h4 => R.wire off la h2 h3 h4)

theorem padDeconv_total {T : Tables α} (R : ResponsesOk o T) (signal : List α) :
    ∃ out, padDeconv o T.padResp signal = .ok out :=
  lsDeconv_total o signal T.padResp 3 5 7 12 (by omega) (fun off la h1 h2 h3 h4 => R.pad off la h1 h2 h3 h4)

theorem sequence_total {ε β : Type} (l : List (Outcome ε β)) (h : ∀ x ∈ l, ∃ a, x = .ok a) :
    ∃ out, sequence l = .ok out := by
  induction l with
  | nil => exact ⟨[], rfl⟩
  | cons x xs ih =>
    obtain ⟨a, rfl⟩ := h x (by simp)
    obtain ⟨out, hout⟩ := ih (fun y hy => h y (by simp [hy]))
    exact ⟨a :: out, by simp [sequence, hout]⟩

/-- **`wire_range_deconvolution` on a non-empty block**: it returns, or the Cholesky `unwrap()`
fires — exactly when the factorisation of `a_matrix(len)` meets a non-positive pivot. -/
theorem wireBlock_cases {T : Tables α} (R : ResponsesOk o T) (signals : List (List α))
    (hne : signals ≠ []) :
    (∃ out, wireBlock o T signals = .ok out ∧
      (cholFactor o T.sqrt signals.length (aTable o T.factors signals.length)).isSome = true) ∨
    (wireBlock o T signals = .panic "wires:cholesky-unwrap" ∧
      cholFactor o T.sqrt signals.length (aTable o T.factors signals.length) = none) := by
  unfold wireBlock
  have he : signals.isEmpty = false := by cases signals <;> simp_all
  simp only [he, Bool.false_eq_true, if_false]
  cases hc : cholFactor o T.sqrt signals.length (aTable o T.factors signals.length) with
  | none => exact Or.inr ⟨rfl, rfl⟩
  | some L =>
    refine Or.inl ?_
    simp only [wireSignalsDeconvFast, he, Bool.false_eq_true, if_false, deconvColumns, Option.isSome_some,
      and_true]
    apply sequence_total
    intro x hx
    rw [List.mem_map] at hx
    obtain ⟨column, _, rfl⟩ := hx
    obtain ⟨out, hout⟩ := wireDeconv_total o R ((solvedRows o L signals).map fun r => r.getD column o.zero)
    exact ⟨out, hout⟩

/-- The index list of a range of `contiguous_ranges` is not empty. -/
theorem rangeToIndices_ne_nil (occ : List Bool) (r : Nat × Nat) (hr : r ∈ contiguousRanges occ) :
    rangeToIndices occ.length r ≠ [] := by
  obtain ⟨heq, _, hpos, _⟩ := ranges_ringSeq occ r hr
  intro h
  have hl : (rangeToIndices occ.length r).length = rangeToLen occ.length r := by
    rw [heq]
    simp [ringSeq]
  rw [h] at hl
  simp at hl
  omega

variable (g : Geo α) (s : Sorter α)

/-- The size of the wire block of a range. -/
def blockLen (r : Nat × Nat) : Nat := (rangeToIndices nWires r).length

/-- **Panic inventory of `MainEvent::avalanches()`** (model `Avalanches.run`), any carrier, under
the response-table assert: the only reachable site is the Cholesky `unwrap()`, and it fires iff the
factorisation of `a_matrix(len)` fails for the length of one of the event's wire blocks. -/
theorem run_panic {T : Tables α} (R : ResponsesOk o T) (ev : Event α) (site : String)
    (h : run o g s T ev = .panic site) :
    site = "wires:cholesky-unwrap" ∧ ∃ r ∈ contiguousRanges (occupancy ev),
      cholFactor o T.sqrt (blockLen r) (aTable o T.factors (blockLen r)) = none := by
  unfold run runWith finish at h
  split at h
  · rename_i site' hfind
    simp only [Outcome.panic.injEq] at h
    subst h
    obtain ⟨p, hp, hps⟩ := List.exists_of_findSome?_eq_some hfind
    simp only [wireOutcomes, List.mem_map] at hp
    obtain ⟨r, hr, rfl⟩ := hp
    simp only at hps
    have hne : blockSignals ev (rangeToIndices nWires r) ≠ [] := by
      have := rangeToIndices_ne_nil (occupancy ev) r hr
      rw [show (occupancy ev).length = nWires by simp [occupancy]] at this
      simpa [blockSignals] using this
    have hlen : (blockSignals ev (rangeToIndices nWires r)).length = blockLen r := by
      simp [blockSignals, blockLen]
    rcases wireBlock_cases o R _ hne with ⟨out, hout, _⟩ | ⟨hp', hc⟩
    · rw [hout] at hps; simp [panicSite] at hps
    · rw [hp'] at hps
      simp only [panicSite, Option.some.injEq] at hps
      rw [hlen] at hc
      exact ⟨hps.symm, r, hr, hc⟩
  · split at h
    · rename_i site' hfind
      exfalso
      obtain ⟨p, hp, hps⟩ := List.exists_of_findSome?_eq_some hfind
      simp only [columnResults, List.mem_map] at hp
      obtain ⟨c, _, rfl⟩ := hp
      simp only [columnResult] at hps
      obtain ⟨x, hx, hxs⟩ := List.exists_of_findSome?_eq_some hps
      simp only [padOutcomes, List.mem_map] at hx
      obtain ⟨row, _, rfl⟩ := hx
      cases hpad : ev.pads c row with
      | none => rw [hpad] at hxs; simp at hxs
      | some signal =>
        rw [hpad] at hxs
        obtain ⟨out, hout⟩ := padDeconv_total o R signal
        simp [hout, panicSite] at hxs
    · cases h

/-- Stage 1 returns when every wire block of the event factorises. -/
theorem run_total {T : Tables α} (R : ResponsesOk o T) (ev : Event α)
    (hch : ∀ r ∈ contiguousRanges (occupancy ev),
      (cholFactor o T.sqrt (blockLen r) (aTable o T.factors (blockLen r))).isSome = true) :
    ∃ avs, run o g s T ev = .ok avs := by
  cases h : run o g s T ev with
  | ok avs => exact ⟨avs, rfl⟩
  | panic site =>
    obtain ⟨_, r, hr, hc⟩ := run_panic o g s R ev site h
    have := hch r hr
    rw [hc] at this
    cases this
  | err e =>
    unfold run runWith finish at h
    split at h
    · cases h
    · split at h <;> cases h

end AlphaG.VertexPipeline
