import AlphaG.Model.Basic
/-
Helper lemmas about wire integers, masks and byte lists. Core Lean only.
-/
namespace AlphaG

/-- The mask↔field idiom: a contiguous mask of width `w` at bit `k` selects the field
`(x / 2^k) % 2^w`. Turns every mask test of the decoders into `/`–`%` arithmetic for `omega`. -/
theorem and_mask (x w k : Nat) :
    x &&& ((2 ^ w - 1) * 2 ^ k) = ((x / 2 ^ k) % 2 ^ w) * 2 ^ k := by
  apply Nat.eq_of_testBit_eq
  intro i
  rw [Nat.testBit_and]
  by_cases hik : i < k
  · have h1 : ((2 ^ w - 1) * 2 ^ k).testBit i = false := by
      rw [Nat.testBit_mul_two_pow]; simp; omega
    have h2 : (x / 2 ^ k % 2 ^ w * 2 ^ k).testBit i = false := by
      rw [Nat.testBit_mul_two_pow]; simp; omega
    simp [h1, h2]
  · have hk : k ≤ i := by omega
    rw [Nat.testBit_mul_two_pow, Nat.testBit_mul_two_pow]
    simp only [hk, decide_true, Bool.true_and]
    rw [Nat.testBit_two_pow_sub_one, Nat.testBit_mod_two_pow, Nat.testBit_div_two_pow]
    have : k + (i - k) = i := by omega
    rw [Nat.add_comm, this]
    cases x.testBit i <;> simp

/-! Peeling lemmas for flat guard chains (no discharger, so `simp` stays linear). -/
theorem ite_err_eq_ok {ε α : Type} {c : Prop} [Decidable c] {e : ε} {rest : Outcome ε α} {p : α} :
    (if c then Outcome.err e else rest) = Outcome.ok p ↔ ¬c ∧ rest = Outcome.ok p := by
  by_cases h : c <;> simp [h]

theorem ite_panic_eq_ok {ε α : Type} {c : Prop} [Decidable c] {s : String} {rest : Outcome ε α}
    {p : α} : (if c then rest else Outcome.panic s) = Outcome.ok p ↔ c ∧ rest = Outcome.ok p := by
  by_cases h : c <;> simp [h]

theorem needBytes_eq_ok {ε α : Type} {site : String} {b : List UInt8} {off k : Nat}
    {rest : Outcome ε α} {p : α} :
    needBytes site b off k rest = Outcome.ok p ↔ off + k ≤ b.length ∧ rest = Outcome.ok p := by
  unfold needBytes; exact ite_panic_eq_ok

theorem need_eq_ok {ε α : Type} {site : String} {c : Bool} {rest : Outcome ε α} {p : α} :
    need site c rest = Outcome.ok p ↔ c = true ∧ rest = Outcome.ok p := by
  unfold need; exact ite_panic_eq_ok

theorem ok_eq_ok {ε α : Type} {a p : α} : (Outcome.ok a : Outcome ε α) = Outcome.ok p ↔ a = p := by
  constructor
  · intro h; cases h; rfl
  · intro h; rw [h]

/-! Totality (`panic` unreachable) is proved compositionally along the guard chain. -/
def NoPanic {ε α : Type} (o : Outcome ε α) : Prop := ∀ s, o ≠ Outcome.panic s

theorem noPanic_ok {ε α : Type} (a : α) : NoPanic (Outcome.ok a : Outcome ε α) := by
  intro s h; cases h
theorem noPanic_err {ε α : Type} (e : ε) : NoPanic (Outcome.err e : Outcome ε α) := by
  intro s h; cases h
theorem noPanic_ite_err {ε α : Type} {c : Prop} [Decidable c] {e : ε} {rest : Outcome ε α}
    (h : ¬c → NoPanic rest) : NoPanic (if c then Outcome.err e else rest) := by
  by_cases hc : c
  · simp only [hc, if_true]; exact noPanic_err e
  · simp only [hc, if_false]; exact h hc
theorem noPanic_ite {ε α : Type} {c : Prop} [Decidable c] {x y : Outcome ε α}
    (hx : c → NoPanic x) (hy : ¬c → NoPanic y) : NoPanic (if c then x else y) := by
  by_cases hc : c
  · simp only [hc, if_true]; exact hx hc
  · simp only [hc, if_false]; exact hy hc
theorem noPanic_needBytes {ε α : Type} {site : String} {b : List UInt8} {off k : Nat}
    {rest : Outcome ε α} (h1 : off + k ≤ b.length) (h2 : NoPanic rest) :
    NoPanic (needBytes site b off k rest) := by
  rw [needBytes_eq h1]; exact h2
theorem noPanic_need {ε α : Type} {site : String} {c : Bool} {rest : Outcome ε α}
    (h1 : c = true) (h2 : NoPanic rest) : NoPanic (need site c rest) := by
  rw [need_eq h1]; exact h2

theorem drop_split (b : List UInt8) (off k : Nat) :
    b.drop off = (b.drop off).take k ++ b.drop (off + k) := by
  rw [← List.drop_drop, List.take_append_drop]

theorem and_low (x w : Nat) : x &&& (2 ^ w - 1) = x % 2 ^ w := Nat.and_two_pow_sub_one_eq_mod x w

theorem leAt_lt (b : List UInt8) (off k : Nat) : leAt b off k < 256 ^ k := by
  induction k generalizing off with
  | zero => simp [leAt]
  | succ k ih =>
    have h1 := byteAt_lt b off
    have h2 := ih (off + 1)
    simp only [leAt, Nat.pow_succ]
    omega

theorem beAt_lt (b : List UInt8) (off k : Nat) : beAt b off k < 256 ^ k := by
  induction k generalizing off with
  | zero => simp [beAt]
  | succ k ih =>
    have h1 := byteAt_lt b off
    have h2 := ih (off + 1)
    simp only [beAt, Nat.pow_succ]
    have : byteAt b off * 256 ^ k ≤ 255 * 256 ^ k := Nat.mul_le_mul_right _ (by omega)
    omega

theorem leBytes_length (n k : Nat) : (leBytes n k).length = k := by
  induction k generalizing n with
  | zero => rfl
  | succ k ih => simp [leBytes, ih]

theorem beBytes_length (n k : Nat) : (beBytes n k).length = k := by
  simp [beBytes, leBytes_length]

theorem ofNat_byteAt (b : List UInt8) (i : Nat) (h : i < b.length) :
    UInt8.ofNat (byteAt b i) = b[i] := by
  unfold byteAt
  rw [List.getD_eq_getElem?_getD, List.getElem?_eq_getElem h]
  simp

/-- `to_le_bytes ∘ from_le_bytes = id` on the `k` bytes at `off`. -/
theorem leBytes_leAt (b : List UInt8) (off k : Nat) (h : off + k ≤ b.length) :
    leBytes (leAt b off k) k = (b.drop off).take k := by
  induction k generalizing off with
  | zero => simp [leBytes]
  | succ k ih =>
    have hlt : off < b.length := by omega
    have hb := byteAt_lt b off
    simp only [leBytes, leAt]
    rw [show (byteAt b off + 256 * leAt b (off + 1) k) % 256 = byteAt b off by omega]
    rw [show (byteAt b off + 256 * leAt b (off + 1) k) / 256 = leAt b (off + 1) k by omega]
    rw [ih (off + 1) (by omega), ofNat_byteAt b off hlt]
    rw [List.drop_eq_getElem_cons hlt, List.take_succ_cons]

theorem leBytes_snoc (k r a : Nat) (hr : r < 256 ^ k) (ha : a < 256) :
    leBytes (a * 256 ^ k + r) (k + 1) = leBytes r k ++ [UInt8.ofNat a] := by
  induction k generalizing r with
  | zero =>
    have : r = 0 := by simpa using hr
    subst this
    simp [leBytes, Nat.mod_eq_of_lt ha]
  | succ k ih =>
    rw [Nat.pow_succ] at hr
    have e1 : a * 256 ^ (k + 1) = (a * 256 ^ k) * 256 := by rw [Nat.pow_succ, Nat.mul_assoc]
    rw [e1]
    generalize hq : a * 256 ^ k = q
    have h1 : (q * 256 + r) % 256 = r % 256 := by omega
    have h2 : (q * 256 + r) / 256 = q + r / 256 := by omega
    rw [leBytes, h1, h2, ← hq, ih (r / 256) (by omega)]
    conv => rhs; rw [leBytes]
    rfl

/-- `to_be_bytes ∘ from_be_bytes = id` on the `k` bytes at `off`. -/
theorem beBytes_beAt (b : List UInt8) (off k : Nat) (h : off + k ≤ b.length) :
    beBytes (beAt b off k) k = (b.drop off).take k := by
  induction k generalizing off with
  | zero => simp [beBytes, leBytes]
  | succ k ih =>
    have hlt : off < b.length := by omega
    have hb := byteAt_lt b off
    have hr := beAt_lt b (off + 1) k
    have := ih (off + 1) (by omega)
    simp only [beBytes] at this ⊢
    rw [beAt, leBytes_snoc k _ _ hr hb, List.reverse_append, this, ofNat_byteAt b off hlt]
    rw [List.drop_eq_getElem_cons hlt, List.take_succ_cons]
    rfl

end AlphaG
