import AlphaG.Lemmas.EventWire
/-
C10, cathode pads: the specification `expectedPad` (written from the property text) and the
invariants of the two loops of `try_from_banks` on the pad side.
-/
namespace AlphaG.Event
open AlphaG AlphaG.Generated AlphaG.Maps

variable {α : Type} (ops : Ops α)

/-! ### Specification -/

/-- The chunk a bank contributes: the bank is named as a PadWing bank and its payload is a
well-formed chunk; keyed by the (board, chip) of the chunk header. -/
def chunkOf (b : Bank) : Option (Key × Pwb.ChunkV) :=
  match BankName.parseBankName b.1 with
  | .ok nm =>
    match nm.kind with
    | .padwing =>
      match Chunk.decodeChunk b.2 with
      | .ok c => some (chunkKey c, toChunkV c)
      | _ => none
    | _ => none
  | _ => none

/-- All chunks of the event grouped by (board, chip), groups in order of first appearance. -/
def groupsOf (banks : List Bank) : List Group :=
  (banks.filterMap chunkOf).foldl (fun gs kc => pushChunk kc.1 kc.2 gs) []

def afterPadDelay (run : Nat) (wf : List Int) : Bool :=
  !(wf.drop (okD 0 (padDelay run))).isEmpty

/-- What one sent channel of a reassembled packet delivers to pad `(c, r)`: pad channels only
(reset and FPN channels deliver nothing), through the run's map of (board, chip, pad channel),
if something is left after the delay. -/
def chanHit (run c r : Nat) (p : Pwb.PwbPacket) : Pwb.ChannelId → List (List Int)
  | .pad n =>
    if Maps.padPosition run (pwbRow p) p.afterId n = .ok (c, r) then
      match Pwb.waveformAt p (.pad n) with
      | .ok (some wf) => if afterPadDelay run wf then [wf] else []
      | _ => []
    else []
  | _ => []

def packetHits (run c r : Nat) (p : Pwb.PwbPacket) (cs : List Pwb.ChannelId) : List (List Int) :=
  cs.flatMap (chanHit run c r p)

def groupHits (run c r : Nat) (g : Group) : List (List Int) :=
  match Pwb.reassemble g.2 with
  | .ok p => packetHits run c r p p.channelsSent
  | _ => []

/-- The waveforms for pad `(c, r)` that are non-empty after the delay. -/
def padHits (run c r : Nat) (gs : List Group) : List (List Int) := gs.flatMap (groupHits run c r)

def expectedOf (run c r : Nat) (hits : List (List Int)) : Option (List α) :=
  match hits with
  | [wf] => some (calibrate ops (okD 0 (padBaseline run c r)) (ops.ofBits (okD 0 (padGainBits run c r)))
              (okD 0 (padDelay run)) wf)
  | _ => none

/-- C10: what pad slot `(c, r)` must hold. -/
def expectedPad (run : Nat) (banks : List Bank) (c r : Nat) : Option (List α) :=
  expectedOf ops run c r (padHits run c r (groupsOf banks))

/-! ### First loop: the groups are those of the specification, the pads are untouched -/

theorem wireStore_pad {run board ch : Nat} {wf : List Int} {st st' : St α}
    (h : wireStore ops run board ch wf st = .ok st') :
    st'.pad = st.pad ∧ st'.groups = st.groups ∧ st'.ts = st.ts := by
  obtain ⟨w, bl, g, d, _, _, _, _, _, _, hst⟩ := wireStore_ok ops h
  rw [hst]; split <;> exact ⟨rfl, rfl, rfl⟩

theorem bankStep_groups {run : Nat} {b : Bank} {st st' : St α}
    (h : bankStep ops run b st = .ok st') :
    st'.pad = st.pad ∧ st'.groups = (match chunkOf b with
      | some kc => pushChunk kc.1 kc.2 st.groups
      | none => st.groups) := by
  obtain ⟨nm, hnm, hcase⟩ := bankStep_ok ops h
  have hne : ∀ k, nm.kind = k → k ≠ .padwing → chunkOf b = none := by
    intro k hk hkk
    unfold chunkOf; rw [hnm]
    cases hkind : nm.kind <;> simp_all
  rcases hcase with ⟨hk, hb⟩ | ⟨hk, hb⟩ | ⟨hk, hb⟩ | ⟨_, h2, _, hb⟩
  · rw [hne _ hk (by decide)]
    obtain ⟨p, _, hpk⟩ := wireBank_ok ops hb
    obtain ⟨ch, _, _, _, hwf⟩ := wirePacket_ok ops hpk
    rcases hwf with ⟨_, hst⟩ | ⟨_, hstore⟩
    · rw [hst]; exact ⟨rfl, rfl⟩
    · obtain ⟨h1, h2, _⟩ := wireStore_pad ops hstore
      exact ⟨h1, h2⟩
  · obtain ⟨c, hc, _, hst⟩ := padwingBank_ok hb
    have : chunkOf b = some (chunkKey c, toChunkV c) := by
      unfold chunkOf; rw [hnm]; simp only [hk, hc]
    rw [this, hst]; exact ⟨rfl, rfl⟩
  · rw [hne _ hk (by decide)]
    obtain ⟨p, _, _, hst⟩ := trgBank_ok hb
    rw [hst]; exact ⟨rfl, rfl⟩
  · rw [hne _ rfl h2, hb]; exact ⟨rfl, rfl⟩

theorem bankLoop_groups {run : Nat} : ∀ (banks : List Bank) (st st' : St α),
    bankLoop ops run banks st = .ok st' →
    st'.pad = st.pad ∧
    st'.groups = (banks.filterMap chunkOf).foldl (fun gs kc => pushChunk kc.1 kc.2 gs) st.groups
  | [], st, st', h => by
    simp only [bankLoop, ok_eq_ok] at h
    subst h; exact ⟨rfl, rfl⟩
  | b :: bs, st, st', h => by
    obtain ⟨st1, h1, h2⟩ := bankLoop_cons_ok ops h
    obtain ⟨p1, g1⟩ := bankStep_groups ops h1
    obtain ⟨p2, g2⟩ := bankLoop_groups bs st1 st' h2
    refine ⟨p2.trans p1, ?_⟩
    rw [g2, g1]
    cases hc : chunkOf b with
    | none => simp [List.filterMap, hc]
    | some kc => simp [List.filterMap, hc]

/-! ### Second loop -/

/-- The pad slots hold what the hit lists `L c r` demand, and no pad has two waveforms. -/
def PadInv (run : Nat) (pad : Array (Option (List α))) (L : Nat → Nat → List (List Int)) : Prop :=
  pad.size = 32 * 576 ∧ ∀ c r, c < 32 → r < 576 →
    pad[c * 576 + r]? = some (expectedOf ops run c r (L c r)) ∧ (L c r).length ≤ 1

theorem padInv_congr {run : Nat} {pad : Array (Option (List α))} {L L' : Nat → Nat → List (List Int)}
    (h : PadInv ops run pad L) (e : ∀ c r, L' c r = L c r) : PadInv ops run pad L' := by
  obtain ⟨hs, hi⟩ := h
  exact ⟨hs, fun c r hc hr => by rw [e c r]; exact hi c r hc hr⟩

/-- One stored (or dropped) waveform. -/
theorem padStore_inv {run board chip n : Nat} {wf : List Int} {p : Pwb.PwbPacket}
    {pad pad' : Array (Option (List α))} {L : Nat → Nat → List (List Int)}
    (hb : board = pwbRow p) (hc : chip = p.afterId)
    (hwf : Pwb.waveformAt p (.pad n) = .ok (some wf))
    (h : padStore ops run board chip n wf pad = .ok pad') (hinv : PadInv ops run pad L) :
    PadInv ops run pad' (fun c r => L c r ++ chanHit run c r p (.pad n)) := by
  subst hb hc
  obtain ⟨pos, bl, g, d, hpos, hpc, hpr, hfree, hbl, hg, hd, hst⟩ := padStore_ok ops h
  have hdel : ∀ w, afterPadDelay run w = !(w.drop d).isEmpty := by
    intro w; unfold afterPadDelay; rw [hd]; rfl
  have hit : ∀ c r, chanHit run c r p (.pad n)
      = if (c, r) = pos then (if afterPadDelay run wf then [wf] else []) else [] := by
    intro c r
    simp only [chanHit, hpos, hwf]
    by_cases e : (c, r) = pos
    · simp [e]
    · have : ¬ (Outcome.ok pos : Outcome String (Nat × Nat)) = .ok (c, r) := by
        intro hh; cases hh; exact e rfl
      simp [e, this]
  obtain ⟨hs, hi⟩ := hinv
  by_cases hemp : (calibrate ops bl (ops.ofBits g) d wf).isEmpty = true
  · rw [if_pos hemp] at hst
    subst hst
    refine ⟨hs, fun c r hc hr => ?_⟩
    have : chanHit run c r p (.pad n) = [] := by
      rw [hit c r, calibrate_isEmpty] at *
      split
      · simp [hdel, hemp]
      · rfl
    simp only [this, List.append_nil]
    exact hi c r hc hr
  · rw [if_neg hemp] at hst
    subst hst
    refine ⟨by rw [Array.size_setIfInBounds]; exact hs, fun c r hc hr => ?_⟩
    have hkeep : afterPadDelay run wf = true := by
      rw [calibrate_isEmpty] at hemp
      simp [hdel, hemp]
    by_cases e : (c, r) = pos
    · subst e
      obtain ⟨hslot, hlen⟩ := hi c r hc hr
      have hnone : expectedOf ops run c r (L c r) = none := by
        have : slotTaken pad (c * nPadRows + r) = false := hfree
        unfold slotTaken at this
        rw [show c * nPadRows + r = c * 576 + r from rfl, hslot] at this
        simpa using this
      have hnil : L c r = [] := by
        unfold expectedOf at hnone
        cases hx : L c r with
        | nil => rfl
        | cons a t =>
          rw [hx] at hnone hlen
          cases t with
          | nil => simp at hnone
          | cons _ _ => simp at hlen
      have hidx : c * 576 + r < pad.size := by rw [hs]; omega
      simp only [hit, if_true, hkeep, hnil, List.nil_append, List.length_singleton, Nat.le_refl,
        and_true]
      rw [show c * nPadRows + r = c * 576 + r from rfl]
      simp only [Array.getElem?_setIfInBounds, if_true, hidx, expectedOf, hbl, hg, hd, okD]
    · have hne : ¬ (pos.1 * nPadRows + pos.2 = c * 576 + r) := by
        intro hh
        apply e
        have h1 : nPadRows = 576 := rfl
        rw [h1] at hh
        have : c = pos.1 ∧ r = pos.2 := by omega
        exact Prod.ext this.1 this.2
      simp only [hit, if_neg e, List.append_nil, Array.getElem?_setIfInBounds, if_neg hne]
      exact hi c r hc hr

theorem channelLoop_inv {run board chip : Nat} {b : List UInt8} {p : Pwb.PwbPacket}
    (hp : Pwb.decodePwb b = .ok p) (hb : board = pwbRow p) (hc : chip = p.afterId) :
    ∀ (cs : List Pwb.ChannelId) (pad pad' : Array (Option (List α)))
      (L : Nat → Nat → List (List Int)),
      (∀ c ∈ cs, c ∈ p.channelsSent) →
      channelLoop ops run board chip p cs pad = .ok pad' → PadInv ops run pad L →
      PadInv ops run pad' (fun c r => L c r ++ packetHits run c r p cs)
  | [], pad, pad', L, _, h, hinv => by
    simp only [channelLoop, ok_eq_ok] at h
    subst h
    exact padInv_congr ops hinv (fun c r => by simp [packetHits])
  | .reset k :: cs, pad, pad', L, hm, h, hinv => by
    unfold channelLoop at h
    have := channelLoop_inv hp hb hc cs pad pad' L (fun c hc => hm c (List.mem_cons_of_mem _ hc)) h hinv
    exact padInv_congr ops this (fun c r => by simp [packetHits, chanHit])
  | .fpn k :: cs, pad, pad', L, hm, h, hinv => by
    unfold channelLoop at h
    have := channelLoop_inv hp hb hc cs pad pad' L (fun c hc => hm c (List.mem_cons_of_mem _ hc)) h hinv
    exact padInv_congr ops this (fun c r => by simp [packetHits, chanHit])
  | .pad n :: cs, pad, pad', L, hm, h, hinv => by
    obtain ⟨_, _, f3⟩ := pwb_facts b p hp
    obtain ⟨wf, hwf, _⟩ := f3 _ (hm (.pad n) List.mem_cons_self)
    unfold channelLoop at h
    rw [hwf] at h
    simp only at h
    split at h
    · rename_i pad1 h1
      have i1 := padStore_inv ops hb hc hwf h1 hinv
      have := channelLoop_inv hp hb hc cs pad1 pad' _ (fun c hc => hm c (List.mem_cons_of_mem _ hc)) h i1
      exact padInv_congr ops this (fun c r => by simp [packetHits, List.append_assoc])
    · cases h
    · cases h

theorem groupLoop_inv {run : Nat} : ∀ (gs : List Group) (pad pad' : Array (Option (List α)))
    (L : Nat → Nat → List (List Int)),
    groupLoop ops run gs pad = .ok pad' → PadInv ops run pad L →
    PadInv ops run pad' (fun c r => L c r ++ padHits run c r gs)
  | [], pad, pad', L, h, hinv => by
    simp only [groupLoop, ok_eq_ok] at h
    subst h
    exact padInv_congr ops hinv (fun c r => by simp [padHits])
  | g :: gs, pad, pad', L, h, hinv => by
    unfold groupLoop at h
    split at h
    · rename_i pad1 h1
      obtain ⟨p, hp, hk1, hk2, hcl⟩ := groupStep_ok ops h1
      have hdec := Pwb.reassemble_ok_eq_direct g.2 p hp
      have hlt := (pwb_facts _ p hdec).1
      have i1 := channelLoop_inv ops hdec (keyRow_eq hk1) (keyChip_eq hk2 hlt) p.channelsSent pad
        pad1 L (fun _ hc => hc) hcl hinv
      have := groupLoop_inv gs pad1 pad' _ h i1
      refine padInv_congr ops this (fun c r => ?_)
      simp only [padHits, List.flatMap_cons, groupHits, hp, List.append_assoc]
    · cases h
    · cases h

theorem padInv_init (run : Nat) :
    PadInv ops run (St.init : St α).pad (fun _ _ => []) := by
  refine ⟨by simp [St.init, nPadColumns, nPadRows], fun c r hc hr => ?_⟩
  have : c * 576 + r < 32 * 576 := by omega
  simp [St.init, nPadColumns, nPadRows, this, expectedOf]

/-- The hit lists do not depend on the order of the groups when no pad has two waveforms. -/
theorem expectedOf_perm (run c r : Nat) {l₁ l₂ : List (List Int)} (hp : l₁.Perm l₂) :
    expectedOf ops run c r l₁ = expectedOf ops run c r l₂ := by
  unfold expectedOf
  match l₂, hp with
  | [], hp => rw [List.perm_nil.1 hp]
  | [a], hp => rw [List.perm_singleton.1 hp]
  | a :: b :: t, hp =>
    have hl := hp.length_eq
    match l₁, hl with
    | x :: y :: t', _ => rfl

end AlphaG.Event
