import AlphaG.Lemmas.Bytes
import AlphaG.Lemmas.CrcOrbit
/-
Byte-level helpers for the chunk theorems: xor of byte strings as xor of bit strings,
`bitsOf` under `take`/`drop`, zero-padding as a `byteAt` statement, and the combinatorics
that turns "weight 1/2/3" and "burst" error patterns into the shapes of `run_zero_odd`,
`run_zero_burst`, `run_zero_two`.
-/
namespace AlphaG.Crc

/-- Bytewise xor of a byte string with an error pattern. -/
def xorBytes (b e : List UInt8) : List UInt8 := List.zipWith (· ^^^ ·) b e

theorem length_xorBytes (b e : List UInt8) (h : e.length = b.length) :
    (xorBytes b e).length = b.length := by
  simp [xorBytes, h]

theorem bit_xor (x y : UInt8) (i : Nat) : bit (x ^^^ y) i = (bit x i != bit y i) := by
  simp [bit, UInt8.toNat_xor, Nat.testBit_xor]

theorem bitsOf_xorBytes : ∀ (b e : List UInt8),
    bitsOf (xorBytes b e) = List.zipWith (· != ·) (bitsOf b) (bitsOf e)
  | [], _ => by simp [xorBytes, bitsOf]
  | x :: b, [] => by simp [xorBytes, bitsOf]
  | x :: b, y :: e => by
    have ih := bitsOf_xorBytes b e
    simp only [xorBytes] at ih
    simp only [xorBytes, List.zipWith_cons_cons, bitsOf, byteBits, List.cons_append,
      List.nil_append, bit_xor, ih]

theorem bitsOf_take : ∀ (m : List UInt8) (n : Nat), bitsOf (m.take n) = (bitsOf m).take (8 * n)
  | [], n => by simp [bitsOf]
  | x :: m, 0 => by simp [bitsOf]
  | x :: m, n + 1 => by
    rw [List.take_succ_cons, bitsOf, bitsOf, bitsOf_take m n, show 8 * (n + 1) = 8 * n + 8 by omega]
    simp only [byteBits, List.cons_append, List.nil_append, List.take_succ_cons]

theorem bitsOf_drop : ∀ (m : List UInt8) (n : Nat), bitsOf (m.drop n) = (bitsOf m).drop (8 * n)
  | [], n => by simp [bitsOf]
  | x :: m, 0 => by simp
  | x :: m, n + 1 => by
    rw [List.drop_succ_cons, bitsOf, bitsOf_drop m n, show 8 * (n + 1) = 8 * n + 8 by omega]
    simp only [byteBits, List.cons_append, List.nil_append, List.drop_succ_cons]

/-! ### Shapes of error patterns -/

theorem count_zero_all_false : ∀ (m : List Bool), m.count true = 0 → m = List.replicate m.length false
  | [], _ => rfl
  | false :: m, h => by
    have : m.count true = 0 := by simpa using h
    rw [List.length_cons, List.replicate_succ, ← count_zero_all_false m this]
  | true :: m, h => by simp at h

theorem split_first_true : ∀ (m : List Bool), 0 < m.count true →
    ∃ a rest, m = List.replicate a false ++ true :: rest ∧ rest.count true + 1 = m.count true
  | [], h => by simp at h
  | true :: m, _ => ⟨0, m, by simp, by simp⟩
  | false :: m, h => by
    have h' : 0 < m.count true := by simpa using h
    obtain ⟨a, rest, e, hc⟩ := split_first_true m h'
    refine ⟨a + 1, rest, ?_, by simpa using hc⟩
    rw [List.replicate_succ, List.cons_append, ← e]

/-- Odd weight: non-zero residue. -/
theorem run_zero_count_odd (m : List Bool) (h : m.count true % 2 = 1) : run 0#32 m ≠ 0#32 :=
  run_zero_odd m (by rw [par_eq_count]; simpa using h)

/-- Weight two within 524 801 bits: non-zero residue. -/
theorem run_zero_count_two (m : List Bool) (h : m.count true = 2) (hl : m.length ≤ 524801) :
    run 0#32 m ≠ 0#32 := by
  obtain ⟨a, r1, e1, c1⟩ := split_first_true m (by omega)
  obtain ⟨k, r2, e2, c2⟩ := split_first_true r1 (by omega)
  have e3 := count_zero_all_false r2 (by omega)
  have hm : m = List.replicate a false ++ [true] ++ List.replicate k false ++ [true]
      ++ List.replicate r2.length false := by
    rw [e1, e2, ← e3]; simp
  have hlen : m.length = a + 1 + k + 1 + r2.length := by
    rw [hm]; simp; omega
  rw [hm]
  exact run_zero_two a k r2.length (by omega)

/-- `take` of zeros–block–zeros is again zeros–(part of the block)–zeros. -/
theorem take_burst (n a z : Nat) (bs : List Bool) :
    (List.replicate a false ++ bs ++ List.replicate z false).take n
      = List.replicate (min n a) false ++ bs.take (n - a)
        ++ List.replicate (min (n - a - bs.length) z) false := by
  simp only [List.take_append, List.take_replicate, List.length_replicate, List.length_append]
  rw [show n - (a + bs.length) = n - a - bs.length by omega]

theorem drop_burst (n a z : Nat) (bs : List Bool) :
    (List.replicate a false ++ bs ++ List.replicate z false).drop n
      = List.replicate (a - n) false ++ bs.drop (n - a)
        ++ List.replicate (z - (n - a - bs.length)) false := by
  simp only [List.drop_append, List.drop_replicate, List.length_replicate, List.length_append]
  rw [show n - (a + bs.length) = n - a - bs.length by omega]

/-- A burst of ≤ 32 bits cut at any position `n`: if both parts have zero residue the burst
is all zero. -/
theorem burst_split_zero (n a z : Nat) (bs : List Bool) (h : bs.length ≤ 32)
    (h1 : run 0#32 ((List.replicate a false ++ bs ++ List.replicate z false).take n) = 0#32)
    (h2 : run 0#32 ((List.replicate a false ++ bs ++ List.replicate z false).drop n) = 0#32) :
    ∀ x ∈ bs, x = false := by
  rw [take_burst] at h1
  rw [drop_burst] at h2
  have t := run_zero_burst _ _ (bs.take (n - a)) (by simp; omega) h1
  have d := run_zero_burst _ _ (bs.drop (n - a)) (by simp; omega) h2
  intro x hx
  rw [← List.take_append_drop (n - a) bs, List.mem_append] at hx
  rcases hx with hx | hx
  · exact t x hx
  · exact d x hx

/-! ### Bytes of a slice -/

theorem byteAt_eq_getElem (b : List UInt8) (i : Nat) (h : i < b.length) :
    byteAt b i = b[i].toNat := by
  unfold byteAt
  rw [List.getD_eq_getElem?_getD, List.getElem?_eq_getElem h]; rfl

theorem byteAt_eq_zero_iff (b : List UInt8) (i : Nat) (h : i < b.length) :
    byteAt b i = 0 ↔ b[i] = 0 := by
  rw [byteAt_eq_getElem b i h]
  constructor
  · intro h0; exact UInt8.toNat_inj.mp (by simpa using h0)
  · intro h0; rw [h0]; rfl

/-- `slice[lo..lo+n].iter().any(|&x| x != 0)` is false iff every byte of the range is zero. -/
theorem any_ne_zero_eq_false_iff (b : List UInt8) (lo n : Nat) (h : lo + n ≤ b.length) :
    ((b.drop lo).take n).any (fun x => x != 0) = false
      ↔ ∀ i, lo ≤ i → i < lo + n → byteAt b i = 0 := by
  rw [List.any_eq_false]
  constructor
  · intro hall i h1 h2
    rw [byteAt_eq_zero_iff b i (by omega)]
    have hm : b[i] ∈ (b.drop lo).take n := by
      rw [List.mem_iff_getElem]
      refine ⟨i - lo, by simp; omega, ?_⟩
      simp only [List.getElem_take, List.getElem_drop]
      congr 1; omega
    simpa using hall _ hm
  · intro hall x hx
    rw [List.mem_iff_getElem] at hx
    obtain ⟨j, hj, rfl⟩ := hx
    simp only [List.length_take, List.length_drop] at hj
    simp only [List.getElem_take, List.getElem_drop]
    have := (byteAt_eq_zero_iff b (lo + j) (by omega)).1 (hall (lo + j) (by omega) (by omega))
    simp [this]

theorem eq_replicate_zero_iff (b : List UInt8) (lo n : Nat) (h : lo + n ≤ b.length) :
    (b.drop lo).take n = List.replicate n 0 ↔ ∀ i, lo ≤ i → i < lo + n → byteAt b i = 0 := by
  rw [← any_ne_zero_eq_false_iff b lo n h, List.any_eq_false, List.eq_replicate_iff]
  simp only [List.length_take, List.length_drop]
  constructor
  · rintro ⟨-, h2⟩ x hx; simp [h2 x hx]
  · intro h2; exact ⟨by omega, fun x hx => by simpa using h2 x hx⟩

theorem byteAt_drop (b : List UInt8) (n i : Nat) : byteAt (b.drop n) i = byteAt b (n + i) := by
  simp [byteAt, List.getD_eq_getElem?_getD, List.getElem?_drop]

theorem byteAt_take (b : List UInt8) (n i : Nat) (h : i < n) : byteAt (b.take n) i = byteAt b i := by
  simp [byteAt, List.getD_eq_getElem?_getD, h]

theorem leAt_drop (b : List UInt8) (n off k : Nat) : leAt (b.drop n) off k = leAt b (n + off) k := by
  induction k generalizing off with
  | zero => rfl
  | succ k ih => simp only [leAt, byteAt_drop, ih, Nat.add_assoc]

theorem leAt_take (b : List UInt8) (n off k : Nat) (h : off + k ≤ n) :
    leAt (b.take n) off k = leAt b off k := by
  induction k generalizing off with
  | zero => rfl
  | succ k ih => simp only [leAt, byteAt_take b n off (by omega), ih (off + 1) (by omega)]

theorem take_drop_split (b : List UInt8) (off k n : Nat) :
    (b.drop off).take (k + n) = (b.drop off).take k ++ (b.drop (off + k)).take n := by
  rw [List.take_add, List.drop_drop]

theorem leBytes_one (b : List UInt8) (i : Nat) (h : i < b.length) :
    leBytes (byteAt b i) 1 = (b.drop i).take 1 := by
  have := leBytes_leAt b i 1 (by omega)
  simpa [leAt] using this

/-- `!crc32c(m)` is the raw register after `m` (the two complements cancel). -/
theorem crcInv_eq_run (m : List UInt8) : crcInv m = (run ONES (bitsOf m)).toNat := by
  unfold crcInv crc32cBV reg
  rw [BitVec.not_not, runBytes_eq_run]

theorem crcInv_lt (m : List UInt8) : crcInv m < 2 ^ 32 := (~~~ crc32cBV m).isLt

/-- Residue form for a stored word: a region `data ++ word` whose 4-byte little-endian word is
`!crc32c(data)` drives the register from all-ones to 0. -/
theorem residue_of_stored (r : List UInt8) (n : Nat) (hn : n + 4 = r.length)
    (h : leAt r n 4 = crcInv (r.take n)) : run ONES (bitsOf r) = 0#32 := by
  have hs : r = r.take n ++ leBytes (run ONES (bitsOf (r.take n))).toNat 4 := by
    rw [← crcInv_eq_run, ← h, leBytes_leAt r n 4 (by omega)]
    have : (r.drop n).take 4 = r.drop n := List.take_of_length_le (by simp; omega)
    rw [this, List.take_append_drop]
  rw [hs]
  exact run_stored ONES (r.take n)

end AlphaG.Crc
